/-
  Irc.HConn — `conn_cmds.rs`: CAP, registration (`authenticate`), PASS, NICK, USER, PING,
  PONG, OPER, QUIT, plus the pieces of `srv_query_cmds.rs` that the welcome burst calls
  (LUSERS, MOTD, ISUPPORT).  Transcribed branch by branch from the Rust text.
-/
import Irc.Ctx
import Irc.Command
import Irc.Wildcard

namespace Irc

open Reply

/-! ### ISUPPORT / LUSERS / MOTD -/

def supportTokens (cfg : Cfg) : List Str :=
  [str "NETWORK=" ++ cfg.network] ++
  (match cfg.maxJoins with
   | some n => [str "CHANLIMIT=&#:" ++ natToStr n, str "MAXCHANNELS=" ++ natToStr n]
   | none => []) ++
  [str "CASEMAPPING=ascii", str "CHANMODES=Iabehiklmnopqstv", str "CHANTYPES=&#",
   str "EXCEPTS=e", str "INVEX=I", str "MAXLIST=beI:1000", str "PREFIX=(qaohv)~&@%+",
   str "STATUSMSG=~&@%+", str "USERMODES=Oiorw"] ++
  [str "AWAYLEN=1000", str "CHANNELLEN=1000", str "HOSTLEN=1000", str "KEYLEN=1000",
   str "KICKLEN=1000", str "LINELEN=2000", str "MAXNICKLEN=200", str "MAXPARA=500",
   str "MAXTARGETS=500", str "MODES=500", str "NICKLEN=200", str "TOPICLEN=1000",
   str "USERLEN=200"] ++
  [str "FNC", str "SAFELIST"]

/-- `slice::chunks(n)` with fuel. -/
def chunksAux {α : Type} (n : Nat) : Nat → List α → List (List α)
  | 0, _ => []
  | _ + 1, [] => []
  | fuel + 1, xs => xs.take n :: chunksAux n fuel (xs.drop n)

def chunks {α : Type} (n : Nat) (xs : List α) : List (List α) :=
  if n = 0 then [] else chunksAux n xs.length xs

def sendIsupport (cfg : Cfg) (client : Str) (x : Ctx) : Ctx :=
  (chunks 10 (sortStrs (supportTokens cfg))).foldl
    (fun x toks => x.reply cfg (RplISupport005 client (joinWith [' '] toks))) x

/-- `process_lusers`. `users.len() - invisible_users_count` is a checked subtraction. -/
def processLusers (cfg : Cfg) (client : Str) (x : Ctx) : Ctx :=
  let w := x.w
  let n := w.users.length
  let x := if w.invisibleCount > n then x.panic "lusers: users - invisible underflow" else x
  let x := x.reply cfg (RplLUserClient251 client (n - w.invisibleCount) w.invisibleCount 1)
  let x := x.reply cfg (RplLUserOp252 client w.operatorsCount)
  let x := x.reply cfg (RplLUserUnknown253 client 0)
  let x := x.reply cfg (RplLUserChannels254 client w.channels.length)
  let x := x.reply cfg (RplLUserMe255 client n 1)
  let x := x.reply cfg (RplLocalUsers265 client n w.maxUsers)
  x.reply cfg (RplGlobalUsers266 client n w.maxUsers)

def unsupported (cfg : Cfg) (client : Str) (command : String) (x : Ctx) : Ctx :=
  x.reply cfg (ErrUnknownError400 client command.toList none (str "Server unsupported"))

def processMotd (cfg : Cfg) (client : Str) (target : Option Str) (x : Ctx) : Ctx :=
  match target with
  | some _ => unsupported cfg client "MOTD" x
  | none =>
    let x := x.reply cfg (RplMotdStart375 client cfg.name)
    let x := x.reply cfg (RplMotd372 client cfg.motd)
    x.reply cfg (RplEndOfMotd376 client)

/-! ### registration -/

/-- `VolatileState::add_user`. -/
def World.addUser (w : World) (nick : Str) (u : User) : World :=
  let w := if u.modes.invisible then { w with invisibleCount := w.invisibleCount + 1 } else w
  let w := if u.modes.wallops then { w with wallops := KSet.insert nick w.wallops } else w
  let w := if u.modes.isLocalOper then { w with operatorsCount := w.operatorsCount + 1 } else w
  let w := { w with users := Map.insert nick u w.users }
  if w.users.length > w.maxUsers then { w with maxUsers := w.users.length } else w

/-- The decision part of `authenticate` (everything before the write lock):
    `none` = not ready / mask refused (second component says whether the mask error line is
    due), `some (good, registered)`. -/
inductive AuthDecision
  | notReady
  | maskMismatch
  | decided (good : Bool) (registered : Bool)
  deriving DecidableEq, Repr

def authDecision (cfg : Cfg) (cn : Conn) : AuthDecision :=
  if cn.capsNeg then .notReady else
  match cn.nick with
  | none => .notReady
  | some _ =>
    match cn.name with
    | none => .notReady
    | some name =>
      -- user-specific password (and mask check)
      let r : Option (Bool × Option Str) :=     -- none = mask mismatch; (registered, pw)
        match cfg.findUser name with
        | some u =>
          match u.mask with
          | some mask => if matchWildcard mask cn.source then some (true, u.password) else none
          | none => some (true, u.password)
        | none => some (false, none)
      match r with
      | none => .maskMismatch
      | some (registered, upw) =>
        -- `.or(self.config.password.as_ref())` applies to the whole if/else
        let pw := match upw with | some p => some p | none => cfg.password
        match pw with
        | some p =>
          let good := match cn.password with
            | some e => cfg.pwOk e p
            | none => false
          .decided good registered
        | none => .decided true registered

def welcomeBurst (cfg : Cfg) (cn : Conn) (umodes : Str) (x : Ctx) : Ctx :=
  let client := cn.clientName
  let x := x.reply cfg (RplWelcome001 client cfg.network (cn.nick.getD []) (cn.name.getD []) cn.hostname)
  let x := x.reply cfg (RplYourHost002 client cfg.name pkgDash)
  let x := x.reply cfg (RplCreated003 client (str "DATE"))
  let x := x.reply cfg (RplMyInfo004 client cfg.name pkgDash (str "Oiorw") (str "Iabehiklmnopqstv") none)
  let x := sendIsupport cfg client x
  let x := processLusers cfg client x
  let x := processMotd cfg client none x
  x.reply cfg (RplUModeIs221 client umodes)

/-- `authenticate` (with the write-lock part). -/
def authenticate (cfg : Cfg) (c : Nat) (x : Ctx) : Ctx :=
  let cn := x.conn c
  match authDecision cfg cn with
  | .notReady => x
  | .maskMismatch => x.reply cfg (str "ERROR: user mask doesn't match")
  | .decided good registered =>
    let cn := { cn with authenticated := good }
    if good then
      match cn.nick with
      | none => x.panic "authenticate: nick unwrap"
      | some nick =>
        let cn := { cn with registered := registered }
        if !(Map.contains nick x.w.users) then
          if !cn.hasSender || !cn.hasQuitSender then
            (x.setConn cn).panic "authenticate: sender taken twice"
          else
            let modes := { cfg.defaultUserModes with
                           registered := cfg.defaultUserModes.registered || cn.registered }
            let name := cn.name.getD []
            let realname := cn.realname.getD []
            let u : User :=
              { hostname := cn.hostname, name := name, realname := realname, source := cn.source,
                modes := modes, history := { username := name, hostname := cn.hostname, realname := realname },
                owner := c }
            let cn := { cn with hasSender := false, hasQuitSender := false }
            let x := x.setConn cn
            let x := x.modifyW (fun w => w.addUser nick u)
            let x := welcomeBurst cfg cn modes.render x
            -- run_ping_waker
            if cn.hasPingSender then x.setConn { cn with hasPingSender := false }
            else x.panic "Ping waker ran!"
        else
          -- nick already used: stays unauthenticated
          let cn := { cn with authenticated := false }
          let x := x.setConn cn
          x.reply cfg (ErrNicknameInUse433 cn.clientName nick)
    else
      let cn := { cn with quit := true }
      let x := x.setConn cn
      x.reply cfg (ErrPasswdMismatch464 cn.clientName)

def processCap (cfg : Cfg) (c : Nat) (sub : CapCommand) (caps : Option (List Str)) (x : Ctx) : Ctx :=
  let cn := x.conn c
  match sub with
  | .LS =>
    let x := x.setConn { cn with capsNeg := true }
    x.reply cfg (str "CAP * LS :multi-prefix")
  | .LIST =>
    x.reply cfg (str "CAP * LIST :" ++ (if cn.multiPrefix then str "multi-prefix" else []))
  | .REQ =>
    let cn := { cn with capsNeg := true }
    let x := x.setConn cn
    match caps with
    | some cs =>
      if cs.all (· == str "multi-prefix") then
        -- `new_caps` is a copy on which every accepted cap has been applied
        let cn := if cs.isEmpty then cn else { cn with multiPrefix := true }
        let x := x.setConn cn
        x.reply cfg (str "CAP * ACK :" ++ joinWith [' '] cs)
      else
        x.reply cfg (str "CAP * NAK :" ++ joinWith [' '] cs)
    | none => x
  | .END =>
    let cn := { cn with capsNeg := false }
    let x := x.setConn cn
    if !cn.authenticated then authenticate cfg c x else x

def processAuthenticate (cfg : Cfg) (c : Nat) (x : Ctx) : Ctx :=
  x.reply cfg (ErrUnknownCommand421 (x.conn c).clientName (str "AUTHENTICATE"))

def processPass (cfg : Cfg) (c : Nat) (pass : Str) (x : Ctx) : Ctx :=
  let cn := x.conn c
  if !cn.authenticated then
    authenticate cfg c (x.setConn { cn with password := some pass })
  else x.reply cfg (ErrAlreadyRegistered462 cn.clientName)

def processUser (cfg : Cfg) (c : Nat) (username realname : Str) (x : Ctx) : Ctx :=
  let cn := x.conn c
  if !cn.authenticated then
    let cn := cn.setName username
    let cn := { cn with realname := some realname }
    authenticate cfg c (x.setConn cn)
  else x.reply cfg (ErrAlreadyRegistered462 cn.clientName)

/-! ### NICK -/

/-- `ChannelModes::rename_user` on one rank list. -/
def renameIn (old new : Str) (s : KSet) : KSet :=
  if KSet.mem old s then KSet.insert new (KSet.erase old s) else s

/-- `Channel::rename_user`; `none` = the `unwrap` on `users.remove(old)` failed. -/
def Channel.renameUser (ch : Channel) (old new : Str) : Option Channel :=
  match Map.lookup old ch.users with
  | none => none
  | some chum =>
    let m := ch.modes
    some { ch with
      users := Map.insert new chum (Map.erase old ch.users)
      modes := { m with operators := renameIn old new m.operators
                        halfOperators := renameIn old new m.halfOperators
                        voices := renameIn old new m.voices
                        founders := renameIn old new m.founders
                        protecteds := renameIn old new m.protecteds } }

/-- `insert_to_nick_history`. -/
def World.pushHistory (w : World) (nick : Str) (e : HistEntry) : World :=
  let old := (Map.lookup nick w.histories).getD []
  { w with histories := Map.insert nick (old ++ [e]) w.histories }

/-- rename the user in every channel it is on; sets the panic flag on a failed unwrap. -/
def renameInChannels (old new : Str) (chs : List Str) (w : World) : World :=
  chs.foldl (fun w chn =>
    match Map.lookup chn w.channels with
    | none => w.panic "nick: channel of user missing"
    | some ch =>
      match ch.renameUser old new with
      | none => w.panic "nick: user not in its channel"
      | some ch' => { w with channels := Map.insert chn ch' w.channels }) w

def processNick (cfg : Cfg) (c : Nat) (nick : Str) (msg : Message) (x : Ctx) : Ctx :=
  let cn := x.conn c
  if !cn.authenticated then
    if !(Map.contains nick x.w.users) then
      authenticate cfg c (x.setConn (cn.setNick nick))
    else x.reply cfg (ErrNicknameInUse433 cn.clientName nick)
  else
    match cn.nick with
    | none => x.panic "nick: own nick unwrap"
    | some oldNick =>
      if nick != oldNick then
        if !(Map.contains nick x.w.users) then
          let oldSource := cn.source
          match Map.lookup oldNick x.w.users with
          | none => x.panic "nick: users.remove(old).unwrap"
          | some user =>
            let cn := cn.setNick nick
            let x := x.setConn cn
            let user := { user with source := cn.source }
            let x := x.modifyW (fun w =>
              let w := { w with users := Map.erase oldNick w.users }
              let w := renameInChannels oldNick nick user.channels w
              let w := w.pushHistory oldNick user.history
              let w := { w with users := Map.insert nick user w.users }
              if KSet.mem oldNick w.wallops then
                { w with wallops := KSet.insert nick (KSet.erase oldNick w.wallops) }
              else w)
            x.sendAll (Map.keys x.w.users) (msg.render oldSource)
        else x.reply cfg (ErrNicknameInUse433 cn.clientName nick)
      else x

/-! ### PING / PONG / OPER / QUIT -/

def processPing (cfg : Cfg) (_c : Nat) (token : Str) (x : Ctx) : Ctx :=
  x.reply cfg (str "PONG " ++ cfg.name ++ str " :" ++ token)

def processPong (_cfg : Cfg) (c : Nat) (x : Ctx) : Ctx :=
  x.setConn { x.conn c with pongPending := false }

def processOper (cfg : Cfg) (c : Nat) (name password : Str) (x : Ctx) : Ctx :=
  let cn := x.conn c
  let client := cn.clientName
  match cn.nick with
  | none => x.panic "oper: own nick unwrap"
  | some userNick =>
    match cfg.findOper name with
    | some op =>
      match Map.lookup userNick x.w.users with
      | none => x.panic "oper: users.get_mut(nick).unwrap"
      | some user =>
        if !(cfg.pwOk password op.password) then
          x.reply cfg (ErrPasswdMismatch464 client)
        else
          let maskOk := match op.mask with
            | some m => matchWildcard m cn.source
            | none => true
          if !maskOk then x.reply cfg (ErrNoOperHost491 client)
          else
            let wasOper := user.modes.isLocalOper
            let user := { user with modes := { user.modes with oper := true } }
            let x := x.modifyW (fun w =>
              let w := { w with users := Map.insert userNick user w.users }
              if !wasOper then { w with operatorsCount := w.operatorsCount + 1 } else w)
            x.reply cfg (RplYoureOper381 client)
    | none => x.reply cfg (ErrNoOperHost491 client)

def processQuit (cfg : Cfg) (c : Nat) (x : Ctx) : Ctx :=
  let x := x.setConn { x.conn c with quit := true }
  x.reply cfg (str "ERROR: Closing connection")

end Irc
