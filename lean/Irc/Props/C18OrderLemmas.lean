/-
  Helper lemmas for `Irc/Props/C18Order.lean` (delivery order, model `Irc/Deliver.lean`).
  `handleLine` is never unfolded: everything here holds for any handler.
-/
import Irc.Deliver

namespace Irc.C18Order

open Irc Irc.Conc

/-- the lines of issuer `s` -/
def sel (s : Nat) (l : List Tagged) : List Tagged := l.filter (fun e => decide (e.1 = s))

/-- the command indices -/
def idxs (l : List Tagged) : List Nat := l.map (fun e => e.2.1)

@[simp] theorem sel_nil (s : Nat) : sel s [] = [] := rfl
@[simp] theorem sel_append (s : Nat) (a b : List Tagged) : sel s (a ++ b) = sel s a ++ sel s b := by
  simp [sel]
@[simp] theorem sel_sel (s : Nat) (a : List Tagged) : sel s (sel s a) = sel s a := by
  simp [sel, List.filter_filter]
@[simp] theorem idxs_nil : idxs [] = [] := rfl
@[simp] theorem idxs_append (a b : List Tagged) : idxs (a ++ b) = idxs a ++ idxs b := by
  simp [idxs]

theorem sel_cons_eq {s : Nat} {m : Tagged} (h : m.1 = s) (l : List Tagged) :
    sel s (m :: l) = m :: sel s l := by simp [sel, h]
theorem sel_cons_ne {s : Nat} {m : Tagged} (h : m.1 ≠ s) (l : List Tagged) :
    sel s (m :: l) = sel s l := by simp [sel, h]

theorem sel_eq_self {s : Nat} {l : List Tagged} (h : ∀ e ∈ l, e.1 = s) : sel s l = l := by
  simp only [sel, List.filter_eq_self]
  intro e he; simp [h e he]

theorem sel_eq_nil {s : Nat} {l : List Tagged} (h : ∀ e ∈ l, e.1 ≠ s) : sel s l = [] := by
  simp only [sel, List.filter_eq_nil_iff]
  intro e he; simp [h e he]

theorem mem_tagDirect {c k : Nat} {x : Ctx} {e : Tagged} (h : e ∈ tagDirect c k x) :
    e.1 = c ∧ e.2.1 = k := by
  simp only [tagDirect, List.mem_map] at h
  obtain ⟨l, _, rfl⟩ := h; exact ⟨rfl, rfl⟩

theorem mem_tagPushes {c k d : Nat} {x : Ctx} {e : Tagged} (h : e ∈ tagPushes c k x d) :
    e.1 = c ∧ e.2.1 = k := by
  simp only [tagPushes, List.mem_map] at h
  obtain ⟨l, _, rfl⟩ := h; exact ⟨rfl, rfl⟩

@[simp] theorem sel_tagDirect_self (c k : Nat) (x : Ctx) :
    sel c (tagDirect c k x) = tagDirect c k x := sel_eq_self fun _ h => (mem_tagDirect h).1
@[simp] theorem sel_tagPushes_self (c k d : Nat) (x : Ctx) :
    sel c (tagPushes c k x d) = tagPushes c k x d := sel_eq_self fun _ h => (mem_tagPushes h).1
theorem sel_tagDirect_ne {c s : Nat} (h : c ≠ s) (k : Nat) (x : Ctx) :
    sel s (tagDirect c k x) = [] := sel_eq_nil fun _ he => (mem_tagDirect he).1 ▸ h
theorem sel_tagPushes_ne {c s : Nat} (h : c ≠ s) (k d : Nat) (x : Ctx) :
    sel s (tagPushes c k x d) = [] := sel_eq_nil fun _ he => (mem_tagPushes he).1 ▸ h

/-! ### what one event does -/

section step
variable (cfg : Cfg) (drain : Bool) (σ : DState)

@[simp] theorem drun_nil : drun cfg drain σ [] = σ := rfl
@[simp] theorem drun_cons (e : DEvent) (es : List DEvent) :
    drun cfg drain σ (e :: es) = drun cfg drain (dstep cfg drain σ e) es := rfl
theorem drun_append (es es' : List DEvent) :
    drun cfg drain σ (es ++ es') = drun cfg drain (drun cfg drain σ es) es' := by
  simp [drun, List.foldl_append]

@[simp] theorem drainIf_w (c : Nat) : (σ.drainIf drain c).w = σ.w := by
  cases drain <;> rfl
@[simp] theorem drainIf_count (c : Nat) : (σ.drainIf drain c).count = σ.count := by
  cases drain <;> rfl
@[simp] theorem recvOne_w (d : Nat) : (σ.recvOne d).w = σ.w := by
  unfold DState.recvOne; split <;> rfl
@[simp] theorem recvOne_count (d : Nat) : (σ.recvOne d).count = σ.count := by
  unfold DState.recvOne; split <;> rfl

@[simp] theorem dstep_recv_w (d : Nat) : (dstep cfg drain σ (.recv d)).w = σ.w := by
  simp [dstep]
@[simp] theorem dstep_recv_count (d : Nat) : (dstep cfg drain σ (.recv d)).count = σ.count := by
  simp [dstep]
@[simp] theorem dstep_cmd_w (c : Nat) (line : Str) :
    (dstep cfg drain σ (.cmd c line)).w = (handleLine cfg c line { w := σ.w }).w := by
  simp [dstep, DState.handle]
@[simp] theorem dstep_cmd_count (c : Nat) (line : Str) :
    (dstep cfg drain σ (.cmd c line)).count = bump σ.count c := by
  simp [dstep, DState.handle]

/-- the drain moves lines from the queue to the socket: `sock ++ queue` does not change -/
@[simp] theorem all_drainQ (c d : Nat) : (σ.drainQ c).all d = σ.all d := by
  by_cases h : d = c <;> simp [DState.all, DState.drainQ, h]

@[simp] theorem all_drainIf (c d : Nat) : (σ.drainIf drain c).all d = σ.all d := by
  cases drain <;> simp [DState.drainIf]

@[simp] theorem all_recvOne (d' d : Nat) : (σ.recvOne d').all d = σ.all d := by
  unfold DState.recvOne
  split
  · rfl
  · next m rest hq =>
    by_cases h : d = d'
    · subst h; simp [DState.all, hq]
    · simp [DState.all, h]

@[simp] theorem all_dstep_recv (d' d : Nat) : (dstep cfg drain σ (.recv d')).all d = σ.all d := by
  simp [dstep]

theorem all_dstep_cmd_ne {c d : Nat} (h : d ≠ c) (line : Str) :
    (dstep cfg drain σ (.cmd c line)).all d =
      σ.all d ++ tagPushes c (σ.count c) (handleLine cfg c line { w := σ.w }) d := by
  simp only [dstep, all_drainIf]
  simp [DState.all, DState.handle, h]

theorem all_dstep_cmd_self (c : Nat) (line : Str) :
    (dstep cfg drain σ (.cmd c line)).all c =
      σ.sock c ++ tagDirect c (σ.count c) (handleLine cfg c line { w := σ.w }) ++
        (σ.queue c ++ tagPushes c (σ.count c) (handleLine cfg c line { w := σ.w }) c) := by
  simp only [dstep, all_drainIf]
  simp [DState.all, DState.handle]

/-- with the drain, the acting connection's queue is empty after the event -/
theorem queue_dstep_cmd_self (c : Nat) (line : Str) :
    (dstep cfg true σ (.cmd c line)).queue c = [] := by
  simp [dstep, DState.drainIf, DState.drainQ]

theorem queue_dstep_recv_self (d : Nat) : (dstep cfg true σ (.recv d)).queue d = [] := by
  simp [dstep, DState.drainIf, DState.drainQ]

/-- a `cmd c` event appends only lines of issuer `c` to a foreign queue -/
theorem queue_dstep_cmd_ne {c d : Nat} (h : d ≠ c) (line : Str) :
    (dstep cfg drain σ (.cmd c line)).queue d =
      σ.queue d ++ tagPushes c (σ.count c) (handleLine cfg c line { w := σ.w }) d := by
  cases drain <;> simp [dstep, DState.drainIf, DState.drainQ, DState.handle, h]

theorem queue_dstep_recv_ne {d' d : Nat} (h : d ≠ d') :
    (dstep cfg drain σ (.recv d')).queue d = σ.queue d := by
  have : (σ.recvOne d').queue d = σ.queue d := by
    unfold DState.recvOne; split <;> simp [h]
  cases drain <;> simp [dstep, DState.drainIf, DState.drainQ, h, this]

end step

end Irc.C18Order
