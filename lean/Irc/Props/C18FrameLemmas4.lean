/-
  Frame lemmas for C18, part 4: the handlers of `Irc/HQuery.lean`.
-/
import Irc.Props.C18FrameLemmas3

namespace Irc

/-- the foreign record inside the accumulator of the channel-MODE loop -/
def ModeAcc.sc (a : ModeAcc) (cn : Conn) : ModeAcc := { a with x := a.x.sc cn }
/-- the foreign record inside the accumulator of the user-MODE loop -/
def UModeAcc.sc (a : UModeAcc) (cn : Conn) : UModeAcc := { a with x := a.x.sc cn }

namespace C18F
open Irc Irc.Conc

/-! ### (A) -/
section
variable {cfg : Cfg} {cn : Conn} {d : Nat} {x : Ctx}

@[fr_push] theorem processVersion_sc (hne : cn.id ≠ d) (t : Option Str) :
    processVersion cfg d t (x.sc cn) = (processVersion cfg d t x).sc cn := by
  unfold processVersion
  fr

@[fr_push] theorem processAdmin_sc (hne : cn.id ≠ d) (t : Option Str) :
    processAdmin cfg d t (x.sc cn) = (processAdmin cfg d t x).sc cn := by
  unfold processAdmin
  fr

@[fr_push] theorem processTime_sc (hne : cn.id ≠ d) (t : Option Str) :
    processTime cfg d t (x.sc cn) = (processTime cfg d t x).sc cn := by
  unfold processTime
  fr

@[fr_push] theorem processStats_sc (hne : cn.id ≠ d) (st : Char) (t : Option Str) :
    processStats cfg d st t (x.sc cn) = (processStats cfg d st t x).sc cn := by
  unfold processStats
  fr

@[fr_push] theorem processLinks_sc (hne : cn.id ≠ d) (r m : Option Str) :
    processLinks cfg d r m (x.sc cn) = (processLinks cfg d r m x).sc cn := by
  unfold processLinks
  fr

@[fr_push] theorem helpLines_sc (client subject : Str) (i : Nat) (lines : List Str) (total : Nat) :
    helpLines cfg client subject i lines total (x.sc cn) =
      (helpLines cfg client subject i lines total x).sc cn := by
  induction lines generalizing i x with
  | nil => rfl
  | cons l ls ih =>
    simp only [helpLines]
    rw [← ih]
    congr 1
    fr

@[fr_push] theorem processHelp_sc (hne : cn.id ≠ d) (s : Option Str) :
    processHelp cfg d s (x.sc cn) = (processHelp cfg d s x).sc cn := by
  unfold processHelp
  fr

@[fr_push] theorem processInfo_sc (hne : cn.id ≠ d) :
    processInfo cfg d (x.sc cn) = (processInfo cfg d x).sc cn := by
  unfold processInfo
  fr

/-! channel MODE -/

section
variable (a : ModeAcc)
@[fr_read] theorem macc_x : (a.sc cn).x = a.x.sc cn := rfl
@[fr_read] theorem macc_ch : (a.sc cn).ch = a.ch := rfl
@[fr_read] theorem macc_args : (a.sc cn).args = a.args := rfl
@[fr_read] theorem macc_modeSet : (a.sc cn).modeSet = a.modeSet := rfl
@[fr_read] theorem macc_setStr : (a.sc cn).setStr = a.setStr := rfl
@[fr_read] theorem macc_unsetStr : (a.sc cn).unsetStr = a.unsetStr := rfl
@[fr_read] theorem macc_paramsStr : (a.sc cn).paramsStr = a.paramsStr := rfl
@[fr_push] theorem macc_mk (y : Ctx) (ch : Channel) (args : List Str) (ms : Bool) (s u p : Str) :
    ModeAcc.mk (y.sc cn) ch args ms s u p = (ModeAcc.mk y ch args ms s u p).sc cn := rfl

@[fr_push] theorem macc_foldl {α : Type} (f : ModeAcc → α → ModeAcc)
    (hf : ∀ b e, f (b.sc cn) e = (f b e).sc cn) (l : List α) :
    l.foldl f (a.sc cn) = (l.foldl f a).sc cn := by
  induction l generalizing a with
  | nil => rfl
  | cons e l ih => simp only [List.foldl_cons, hf, ih]
end

section
variable (a : UModeAcc)
@[fr_read] theorem uacc_x : (a.sc cn).x = a.x.sc cn := rfl
@[fr_read] theorem uacc_modes : (a.sc cn).modes = a.modes := rfl
@[fr_read] theorem uacc_modeSet : (a.sc cn).modeSet = a.modeSet := rfl
@[fr_read] theorem uacc_setStr : (a.sc cn).setStr = a.setStr := rfl
@[fr_read] theorem uacc_unsetStr : (a.sc cn).unsetStr = a.unsetStr := rfl
@[fr_push] theorem uacc_mk (y : Ctx) (m : UserModes) (ms : Bool) (s u : Str) :
    UModeAcc.mk (y.sc cn) m ms s u = (UModeAcc.mk y m ms s u).sc cn := rfl

@[fr_push] theorem uacc_foldl {α : Type} (f : UModeAcc → α → UModeAcc)
    (hf : ∀ b e, f (b.sc cn) e = (f b e).sc cn) (l : List α) :
    l.foldl f (a.sc cn) = (l.foldl f a).sc cn := by
  induction l generalizing a with
  | nil => rfl
  | cons e l ih => simp only [List.foldl_cons, hf, ih]
end

theorem ite_macc {p : Prop} [Decidable p] {A B A' B' : ModeAcc} (hA : A' = A.sc cn)
    (hB : B' = B.sc cn) : (if p then A' else B') = (if p then A else B).sc cn := by
  subst hA hB; split <;> rfl
macro_rules | `(tactic| fr_hook) => `(tactic| with_reducible apply ite_macc)

theorem ite_uacc {p : Prop} [Decidable p] {A B A' B' : UModeAcc} (hA : A' = A.sc cn)
    (hB : B' = B.sc cn) : (if p then A' else B') = (if p then A else B).sc cn := by
  subst hA hB; split <;> rfl
macro_rules | `(tactic| fr_hook) => `(tactic| with_reducible apply ite_uacc)

@[fr_push] theorem modeChar_sc (cn' : Conn) (target : Str) (chum : ChanUserModes) (a : ModeAcc)
    (m : Char) :
    modeChar cfg cn' target chum (a.sc cn) m = (modeChar cfg cn' target chum a m).sc cn := by
  unfold modeChar
  simp only [fr_read]
  generalize ((_ : Bool) && !mayChange chum m) = b
  cases b
  · simp only [Bool.false_eq_true, ↓reduceIte]
    fr
  · simp only [↓reduceIte]
    fr

@[fr_push] theorem modeGroup_sc (cn' : Conn) (target : Str) (chum : ChanUserModes) (a : ModeAcc)
    (g : Str × List Str) :
    modeGroup cfg cn' target chum (a.sc cn) g = (modeGroup cfg cn' target chum a g).sc cn := by
  unfold modeGroup
  fr

@[fr_push] theorem processModeChannel_sc (hne : cn.id ≠ d) (target : Str) (ch : Channel)
    (modes : List (Str × List Str)) (chum : ChanUserModes) :
    processModeChannel cfg d target ch modes chum (x.sc cn) =
      (processModeChannel cfg d target ch modes chum x).sc cn := by
  unfold processModeChannel
  fr

@[fr_push] theorem umodeChar_sc (cn' : Conn) (nick : Str) (a : UModeAcc) (m : Char) :
    umodeChar cfg cn' nick (a.sc cn) m = (umodeChar cfg cn' nick a m).sc cn := by
  unfold umodeChar
  fr

@[fr_push] theorem processModeUser_sc (hne : cn.id ≠ d) (target : Str) (modes : List (Str × List Str)) :
    processModeUser cfg d target modes (x.sc cn) = (processModeUser cfg d target modes x).sc cn := by
  unfold processModeUser
  fr

@[fr_push] theorem processMode_sc (hne : cn.id ≠ d) (target : Str) (modes : List (Str × List Str)) :
    processMode cfg d target modes (x.sc cn) = (processMode cfg d target modes x).sc cn := by
  unfold processMode
  fr

end

/-! ### (B) -/
section
variable {cfg : Cfg} {c d : Nat} {X Y : Ctx}

theorem keep_processVersion {t : Option Str} : Keep c X (processVersion cfg d t X) := by
  unfold processVersion
  dsimp only
  kp

theorem keep_processAdmin {t : Option Str} : Keep c X (processAdmin cfg d t X) := by
  unfold processAdmin
  dsimp only
  kp

theorem keep_processTime {t : Option Str} : Keep c X (processTime cfg d t X) := by
  unfold processTime
  dsimp only
  kp

theorem keep_processStats {st : Char} {t : Option Str} : Keep c X (processStats cfg d st t X) := by
  unfold processStats
  dsimp only
  kp

theorem keep_processLinks {r m : Option Str} : Keep c X (processLinks cfg d r m X) := by
  unfold processLinks
  dsimp only
  kp

theorem keep_helpLines {client subject : Str} {i : Nat} {lines : List Str} {total : Nat} :
    Keep c X (helpLines cfg client subject i lines total X) := by
  fun_induction helpLines cfg client subject i lines total X with
  | case1 => exact Keep.refl _
  | case2 i line rest total X X1 ih =>
    refine Keep.trans ?_ ih
    simp only [X1]
    kp

theorem keep_processHelp {sub : Option Str} : Keep c X (processHelp cfg d sub X) := by
  unfold processHelp
  dsimp only
  split
  · exact keep_helpLines
  · kp

theorem keep_processInfo : Keep c X (processInfo cfg d X) := by
  unfold processInfo
  dsimp only
  kp

theorem Keep.foldlP {α β : Type} (proj : β → Ctx) {f : β → α → β}
    (hf : ∀ b a, Keep c (proj b) (proj (f b a))) {b : β}
    (h : Keep c X (proj b)) (l : List α) : Keep c X (proj (l.foldl f b)) := by
  induction l generalizing b with
  | nil => exact h
  | cons a l ih => exact ih (h.trans (hf b a))

theorem Keep.iteM {p : Prop} [Decidable p] {A B : ModeAcc} (hA : Keep c X A.x)
    (hB : Keep c X B.x) : Keep c X (if p then A else B).x := by
  split <;> assumption

theorem Keep.iteU {p : Prop} [Decidable p] {A B : UModeAcc} (hA : Keep c X A.x)
    (hB : Keep c X B.x) : Keep c X (if p then A else B).x := by
  split <;> assumption

theorem keep_modeChar {cn : Conn} {target : Str} {chum : ChanUserModes} {a : ModeAcc} {m : Char} :
    Keep c a.x (modeChar cfg cn target chum a m).x := by
  unfold modeChar
  extract_lets +onlyGivenNames client nick err482 preChecked a1
  have h1 : Keep c a.x a1.x := by
    simp only [a1]
    split
    · exact Keep.reply (Keep.refl _)
    · exact Keep.refl _
  clear_value a1
  refine Keep.trans h1 ?_
  dsimp only
  repeat' (first | with_reducible apply Keep.iteM | split)
  all_goals (try dsimp only)
  all_goals kp

theorem keep_modeGroup {cn : Conn} {target : Str} {chum : ChanUserModes} {a : ModeAcc}
    {g : Str × List Str} : Keep c a.x (modeGroup cfg cn target chum a g).x := by
  unfold modeGroup
  refine Keep.foldlP ModeAcc.x (f := modeChar cfg cn target chum) (fun b m => keep_modeChar) ?_ _
  exact Keep.refl _

theorem keep_processModeChannel {target : Str} {ch : Channel} {modes : List (Str × List Str)}
    {chum : ChanUserModes} : Keep c X (processModeChannel cfg d target ch modes chum X) := by
  unfold processModeChannel
  dsimp only
  have key : Keep c X
      (modes.foldl (modeGroup cfg (X.conn d) target chum) { x := X, ch := ch, args := [] }).x := by
    refine Keep.foldlP ModeAcc.x (f := modeGroup cfg (X.conn d) target chum)
      (fun b g => keep_modeGroup) ?_ _
    exact Keep.refl _
  kp

theorem keep_umodeChar {cn : Conn} {nick : Str} {a : UModeAcc} {m : Char} :
    Keep c a.x (umodeChar cfg cn nick a m).x := by
  unfold umodeChar
  dsimp only
  repeat' (first | with_reducible apply Keep.iteU | split)
  all_goals (try dsimp only)
  all_goals kp

theorem keep_processModeUser {target : Str} {modes : List (Str × List Str)} :
    Keep c X (processModeUser cfg d target modes X) := by
  unfold processModeUser
  dsimp only
  split
  · kp
  · rename_i user _
    have key : Keep c X
        (modes.foldl (fun a g =>
          g.1.foldl (umodeChar cfg (X.conn d) target) { a with modeSet := false })
          { x := X, modes := user.modes : UModeAcc }).x := by
      refine Keep.foldlP UModeAcc.x (f := fun (a : UModeAcc) (g : Str × List Str) =>
          g.1.foldl (umodeChar cfg (X.conn d) target) { a with modeSet := false })
        (fun b g => ?_) ?_ _
      · refine Keep.foldlP UModeAcc.x (f := umodeChar cfg (X.conn d) target)
          (fun b m => keep_umodeChar) ?_ _
        exact Keep.refl _
      · exact Keep.refl _
    kp

theorem keep_processMode {target : Str} {modes : List (Str × List Str)} :
    Keep c X (processMode cfg d target modes X) := by
  unfold processMode
  dsimp only
  repeat' split
  all_goals first
    | exact keep_processModeChannel
    | exact keep_processModeUser
    | kp

end

end C18F
end Irc
