/-
  Irc.Props.ReachC — reachability corollaries, part C: properties C05 (no handler aborts, one
  client's line does not close other clients), C06 (every ending tears the client down), C19
  (LUSERS counters, connection slots).

  Every theorem of `Irc/Props/C05.lean`, `C06.lean`, `C19.lean` with an `Inv` / `InvCore`
  hypothesis, restated with `(hr : Reachable cfg w)` in its place (see the header of
  `ReachA.lean`).

  Note on the mid-operation theorems (`C06.killed_conn_torn_down`, `C06.several_at_once`,
  `C06.slot_freed`, `C19.slots_freed_settle`): they are about the settling phase, whose input is
  the world in the MIDDLE of an operation (after the handler, before flagged connections are
  torn down).  Such a world satisfies `InvCore` but in general not `Inv`, and it is not itself
  `Reachable` (reachable worlds are operation boundaries, where no connection is flagged, so
  for them the settling phase has nothing to do).  Their literal `_reachable` forms are given
  for completeness; the informative forms are the `_midstep` ones below: for a reachable `w`
  and a live connection `c`, the world `mid cfg w c s` the settling phase of
  `step cfg w (.line c s)` actually starts from.
-/
import Irc.Props.ReachA
import Irc.Props.C05
import Irc.Props.C06
import Irc.Props.C19

namespace Irc.Reach
open Irc

/-- the world in the middle of the operation `step cfg w (.line c s)`: after the command
    handler, before the settling phase -/
def mid (cfg : Cfg) (w : World) (c : Nat) (s : Str) : World := (handleLine cfg c s { w := w }).w

/-- it satisfies the mid-operation invariant whenever `w` is reachable and `c` is live -/
theorem core_mid {cfg : Cfg} {w : World} (hr : Reachable cfg w) {c : Nat} (hl : Live w c) (s : Str) :
    InvCore (mid cfg w c s) :=
  (invCore_handleLine (x := { w := w }) (core_reachable hr) hl).1

/-- and the step is the settling phase applied to it -/
theorem step_line_settle {cfg : Cfg} {w : World} {c : Nat} {cn : Conn} (s : Str)
    (hc : w.conn? c = some cn) :
    (step cfg w (.line c s)).w =
      (settle cfg (mid cfg w c s)
        ((handleLine cfg c s { w := w }).direct.map (fun l => (c, l)) ++
          (handleLine cfg c s { w := w }).queued) []).1 := by
  simp only [step, hc, finish, mid]

end Irc.Reach

/-! ## C05 -/

namespace Irc.Reach.C05
open Irc Irc.C05

/-! `Irc.C05.no_panic_reachable` (trace form) and `Irc.C05.no_panic_of_reachable` already exist in
    the original file; they are re-exported here as `no_panic_run` and `no_panic_of_reachable`.
    `Irc.Reach.C05.no_panic_reachable` below is the step theorem `C05.no_panic` with `Inv w`
    replaced by `Reachable cfg w`. -/

theorem no_panic_reachable
    {cfg : Cfg} {w : World} {e : Event} (hr : Reachable cfg w) (hs : Sched w e) :
    (step cfg w e).w.panicked = none :=
  no_panic (inv_reachable hr) hs

theorem no_panic_line_reachable
    {cfg : Cfg} {w : World} (hr : Reachable cfg w) (c : Nat) (s : Str) :
    (step cfg w (.line c s)).w.panicked = none :=
  no_panic_line (inv_reachable hr) c s

theorem handler_no_panic_reachable
    {cfg : Cfg} {w : World} {c : Nat} {s : Str} (hr : Reachable cfg w) (hl : Live w c) :
    (handleLine cfg c s { w := w }).w.panicked = none :=
  handler_no_panic (inv_reachable hr) hl

theorem handleLine_quit_only_self_reachable
    {cfg : Cfg} {c : Nat} {s : Str} {x : Ctx} (hr : Reachable cfg x.w) (hl : Live x.w c) :
    ∀ d, d ≠ c → ((handleLine cfg c s x).conn d).quit = (x.conn d).quit :=
  handleLine_quit_only_self (core_reachable hr) hl

theorem others_untouched_reachable
    {cfg : Cfg} {w : World} {c : Nat} {s : Str} (hr : Reachable cfg w) (hk : lineKills s = false) :
    ∀ y, y ∈ w.conns → y.id ≠ c → y ∈ (step cfg w (.line c s)).w.conns :=
  others_untouched (inv_reachable hr) hk

theorem others_stay_open_reachable
    {cfg : Cfg} {w : World} {c : Nat} {s : Str} (hr : Reachable cfg w) (hk : lineKills s = false) :
    ∀ d, d ≠ c → Live w d → Live (step cfg w (.line c s)).w d :=
  others_stay_open (inv_reachable hr) hk

theorem others_closed_only_by_kill_reachable
    {cfg : Cfg} {w : World} {c d : Nat} {s : Str} (hr : Reachable cfg w) (hd : d ≠ c)
    (hl : Live w d) (hgone : ¬ Live (step cfg w (.line c s)).w d) :
    lineKills s = true ∧
    ∃ y, y ∈ (handleLine cfg c s { w := w }).w.conns ∧ y.id = d ∧ y.killedBy.isSome = true :=
  others_closed_only_by_kill (inv_reachable hr) hd hl hgone

theorem sender_stays_open_reachable
    {cfg : Cfg} {w : World} {c : Nat} {s : Str} (hr : Reachable cfg w) (hl : Live w c) :
    Live (step cfg w (.line c s)).w c ∨
    lineQuits s = true ∨
    Said464 cfg (handleLine cfg c s { w := w }) ∨
    (lineKills s = true ∧
      ∃ y, y ∈ (handleLine cfg c s { w := w }).w.conns ∧ y.id = c ∧ y.killedBy.isSome = true) :=
  sender_stays_open (inv_reachable hr) hl

theorem sender_stays_open_unparsed_reachable
    {cfg : Cfg} {w : World} {c : Nat} {s : Str} (hr : Reachable cfg w) (hl : Live w c)
    (hp : lineCmd s = none) :
    Live (step cfg w (.line c s)).w c :=
  sender_stays_open_unparsed (inv_reachable hr) hl hp

theorem streamEnd_others_untouched_reachable
    {cfg : Cfg} {w : World} {c : Nat} {cn : Conn} {x : Ctx} {evs : List Str} (hr : Reachable cfg w)
    (hc : w.conn? c = some cn) (hx : x.w = w) :
    ∀ y, y ∈ w.conns → y.id ≠ c →
      y ∈ (finish cfg c (x.setConn { cn with quit := true }) evs).w.conns :=
  streamEnd_others_untouched (inv_reachable hr) hc hx

theorem others_untouched_event_reachable
    {cfg : Cfg} {w : World} {e : Event} (hr : Reachable cfg w) (hk : Event.kills e = false) :
    ∀ y, y ∈ w.conns → y.id ≠ Event.actor e → y ∈ (step cfg w e).w.conns :=
  others_untouched_event (inv_reachable hr) hk

theorem bystander_untouched_reachable
    {cfg : Cfg} {w : World} {y : Conn} (evs : List Event) (hr : Reachable cfg w)
    (hs : SchedFrom cfg w evs) (hy : y ∈ w.conns)
    (hq : ∀ e, e ∈ evs → Event.kills e = false ∧ Event.actor e ≠ y.id) :
    y ∈ (evs.foldl (fun w e => (step cfg w e).w) w).conns :=
  bystander_untouched evs (inv_reachable hr) hs hy hq

/-- re-export of `C05.no_panic_of_reachable` -/
theorem no_panic_of_reachable {cfg : Cfg} {w : World} (hr : Reachable cfg w) : w.panicked = none :=
  _root_.Irc.C05.no_panic_of_reachable hr

/-- **C05 over whole executions** (re-export of `C05.no_panic_reachable`): no well-scheduled
    event list — whatever bytes the lines contain — ever sets the panic flag. -/
theorem no_panic_run {cfg : Cfg} (evs : List Event) (hs : SchedAll cfg evs) :
    (run cfg evs).panicked = none :=
  _root_.Irc.C05.no_panic_reachable hs

/-- ... at every point of the execution, including the handler's own world before settling -/
theorem no_panic_along_run {cfg : Cfg} (evs : List Event) (hs : SchedAll cfg evs) :
    ∀ pre post, evs = pre ++ post → (run cfg pre).panicked = none ∧
      ∀ c s, Live (run cfg pre) c → (handleLine cfg c s { w := run cfg pre }).w.panicked = none := by
  intro pre post he
  subst he
  exact ⟨no_panic_of_reachable (reachable_prefix hs),
    fun c s hl => handler_no_panic_reachable (reachable_prefix hs) hl⟩

/-- along every execution: a line that is not an accepted KILL / DIE leaves every other
    connection exactly as it was -/
theorem others_untouched_run {cfg : Cfg} (evs : List Event) (hs : SchedAll cfg evs) :
    ∀ pre c s, evs = pre ++ [.line c s] → lineKills s = false →
      ∀ y, y ∈ (run cfg pre).conns → y.id ≠ c → y ∈ (run cfg evs).conns := by
  intro pre c s he hk
  subst he
  rw [run_snoc]
  exact others_untouched_reachable (reachable_prefix hs) hk

end Irc.Reach.C05

/-! ## C06 -/

namespace Irc.Reach.C06
open Irc Irc.C06

theorem teardown_tears_down_reachable
    {cfg : Cfg} {w : World} (hr : Reachable cfg w) {cn : Conn} (hm : cn ∈ w.conns)
    (ha : cn.authenticated = true) {n : Str} (hn : cn.nick = some n) :
    ∃ u, Map.lookup n w.users = some u ∧ u.owner = cn.id ∧ TornDown w (teardown w cn.id) cn.id n u :=
  teardown_tears_down (core_reachable hr) hm ha hn

theorem every_ending_tears_down_reachable
    {cfg : Cfg} {w : World} (hr : Reachable cfg w) {cn : Conn} (hm : cn ∈ w.conns)
    (ha : cn.authenticated = true) {n : Str} (hn : cn.nick = some n) {e : Event}
    (he : IP.EndsItself cn.id e) :
    ∃ u, Map.lookup n w.users = some u ∧ u.owner = cn.id ∧ TornDown w (step cfg w e).w cn.id n u :=
  every_ending_tears_down (inv_reachable hr) hm ha hn he

theorem stream_end_is_teardown_reachable
    {cfg : Cfg} {w : World} (hr : Reachable cfg w) {cn : Conn} (hm : cn ∈ w.conns) {e : Event}
    (he : IP.IsEnd cn.id e) :
    (step cfg w e).w = teardown w cn.id :=
  stream_end_is_teardown (inv_reachable hr) hm he

theorem quit_is_teardown_reachable
    {cfg : Cfg} {w : World} (hr : Reachable cfg w) {cn : Conn} (hm : cn ∈ w.conns) {s : Str}
    (hq : IP.IsQuitLine s) :
    (step cfg w (.line cn.id s)).w = bumpCount (teardown w cn.id) CmdId.QUIT.index :=
  quit_is_teardown (inv_reachable hr) hm hq

theorem killed_conn_torn_down_reachable
    {w : World} (cfg : Cfg) (hr : Reachable cfg w) {cn : Conn} (hm : cn ∈ w.conns)
    (hk : cn.killedBy.isSome = true ∨ cn.quit = true) (ha : cn.authenticated = true) {n : Str}
    (hn : cn.nick = some n) (outs : List (Nat × Str)) (evs : List Str) :
    (settleConn cfg (w, outs, evs) cn.id).1 = teardown w cn.id ∧
    ∃ u, Map.lookup n w.users = some u ∧ u.owner = cn.id ∧
      TornDown w (settleConn cfg (w, outs, evs) cn.id).1 cn.id n u :=
  killed_conn_torn_down (core_reachable hr) hm hk ha hn cfg outs evs

theorem kill_tears_down_reachable
    {cfg : Cfg} {w : World} (hr : Reachable cfg w) {co : Conn} (hco : co ∈ w.conns)
    (hca : co.authenticated = true) {k : Str} (hck : co.nick = some k) {uk : User}
    (huk : Map.lookup k w.users = some uk) (hop : uk.modes.oper = true) {n : Str} {u : User}
    (hu : Map.lookup n w.users = some u) {s comment : Str} (hk : IP.IsKillLine s n comment) :
    ∃ cn, cn ∈ w.conns ∧ cn.id = u.owner ∧ TornDown w (step cfg w (.line co.id s)).w cn.id n u :=
  kill_tears_down (inv_reachable hr) hco hca hck huk hop hu hk

theorem several_at_once_reachable
    {w : World} (cfg : Cfg) (hr : Reachable cfg w) (outs : List (Nat × Str)) (evs : List Str) :
    Inv (settle cfg w outs evs).1 ∧
    (∀ y, y ∈ (settle cfg w outs evs).1.conns ↔ (y ∈ w.conns ∧ y.quit = false ∧ y.killedBy = none)) ∧
    (∀ cn n, cn ∈ w.conns → (cn.quit = true ∨ cn.killedBy.isSome = true) → cn.authenticated = true →
      cn.nick = some n →
      Map.lookup n (settle cfg w outs evs).1.users = none ∧
      KSet.mem n (settle cfg w outs evs).1.wallops = false ∧
      ∀ ch C', Map.lookup ch (settle cfg w outs evs).1.channels = some C' → Map.contains n C'.users = false) ∧
    (∀ m u, Map.lookup m w.users = some u →
      (∀ y, y ∈ w.conns → y.id = u.owner → y.quit = false ∧ y.killedBy = none) →
      Map.lookup m (settle cfg w outs evs).1.users = some u) :=
  several_at_once (core_reachable hr) cfg outs evs

theorem slot_freed_reachable
    {w : World} (cfg : Cfg) (hr : Reachable cfg w) (outs : List (Nat × Str)) (evs : List Str) :
    (settle cfg w outs evs).1.connsCount = (settle cfg w outs evs).1.conns.length ∧
    (settle cfg w outs evs).1.connsCount + (w.conns.filter (fun y => y.quit || y.killedBy.isSome)).length
      = w.connsCount :=
  slot_freed (core_reachable hr) cfg outs evs

theorem slot_freed_one_reachable
    {cfg : Cfg} {w : World} (hr : Reachable cfg w) {cn : Conn} (hm : cn ∈ w.conns) :
    (teardown w cn.id).connsCount + 1 = w.connsCount ∧
    (teardown w cn.id).connsCount = (teardown w cn.id).conns.length :=
  slot_freed_one (core_reachable hr) hm

/-! ### the mid-operation forms (see the note in the header) -/

theorem killed_conn_torn_down_midstep {cfg : Cfg} {w : World} (hr : Reachable cfg w) {c : Nat}
    (hl : Live w c) (s : Str) {cn : Conn} (hm : cn ∈ (mid cfg w c s).conns)
    (hk : cn.killedBy.isSome = true ∨ cn.quit = true) (ha : cn.authenticated = true) {n : Str}
    (hn : cn.nick = some n) (outs : List (Nat × Str)) (evs : List Str) :
    (settleConn cfg (mid cfg w c s, outs, evs) cn.id).1 = teardown (mid cfg w c s) cn.id ∧
    ∃ u, Map.lookup n (mid cfg w c s).users = some u ∧ u.owner = cn.id ∧
      TornDown (mid cfg w c s) (settleConn cfg (mid cfg w c s, outs, evs) cn.id).1 cn.id n u :=
  killed_conn_torn_down (core_mid hr hl s) hm hk ha hn cfg outs evs

theorem several_at_once_midstep {cfg : Cfg} {w : World} (hr : Reachable cfg w) {c : Nat}
    (hl : Live w c) (s : Str) (outs : List (Nat × Str)) (evs : List Str) :
    Inv (settle cfg (mid cfg w c s) outs evs).1 ∧
    (∀ y, y ∈ (settle cfg (mid cfg w c s) outs evs).1.conns ↔
      (y ∈ (mid cfg w c s).conns ∧ y.quit = false ∧ y.killedBy = none)) ∧
    (∀ cn n, cn ∈ (mid cfg w c s).conns → (cn.quit = true ∨ cn.killedBy.isSome = true) →
      cn.authenticated = true → cn.nick = some n →
      Map.lookup n (settle cfg (mid cfg w c s) outs evs).1.users = none ∧
      KSet.mem n (settle cfg (mid cfg w c s) outs evs).1.wallops = false ∧
      ∀ ch C', Map.lookup ch (settle cfg (mid cfg w c s) outs evs).1.channels = some C' →
        Map.contains n C'.users = false) ∧
    (∀ m u, Map.lookup m (mid cfg w c s).users = some u →
      (∀ y, y ∈ (mid cfg w c s).conns → y.id = u.owner → y.quit = false ∧ y.killedBy = none) →
      Map.lookup m (settle cfg (mid cfg w c s) outs evs).1.users = some u) :=
  several_at_once (core_mid hr hl s) cfg outs evs

theorem slot_freed_midstep {cfg : Cfg} {w : World} (hr : Reachable cfg w) {c : Nat}
    (hl : Live w c) (s : Str) (outs : List (Nat × Str)) (evs : List Str) :
    (settle cfg (mid cfg w c s) outs evs).1.connsCount =
      (settle cfg (mid cfg w c s) outs evs).1.conns.length ∧
    (settle cfg (mid cfg w c s) outs evs).1.connsCount +
        ((mid cfg w c s).conns.filter (fun y => y.quit || y.killedBy.isSome)).length
      = (mid cfg w c s).connsCount :=
  slot_freed (core_mid hr hl s) cfg outs evs

/-! ### trace-level forms -/

/-- **C06 over whole executions** (`every_ending_tears_down`; re-export of
    `C06.reachable_every_ending_tears_down`): after any well-scheduled event list `evs`,
    whichever way the registered connection `cn` ends itself next (`e`: QUIT line, EOF, reset,
    bad UTF-8, over-long line), the world after `evs ++ [e]` is the world after `evs` with the
    user `n` torn down and nothing else changed. -/
theorem every_ending_tears_down_run {cfg : Cfg} (evs : List Event) (hs : SchedAll cfg evs)
    {cn : Conn} (hm : cn ∈ (run cfg evs).conns) (ha : cn.authenticated = true) {n : Str}
    (hn : cn.nick = some n) {e : Event} (he : IP.EndsItself cn.id e) :
    ∃ u, Map.lookup n (run cfg evs).users = some u ∧ u.owner = cn.id ∧
      TornDown (run cfg evs) (run cfg (evs ++ [e])) cn.id n u :=
  _root_.Irc.C06.reachable_every_ending_tears_down hs hm ha hn he

/-- the same in the "last event" form -/
theorem every_ending_tears_down_last {cfg : Cfg} (evs : List Event) (hs : SchedAll cfg evs) :
    ∀ pre e cn n, evs = pre ++ [e] → cn ∈ (run cfg pre).conns → cn.authenticated = true →
      cn.nick = some n → IP.EndsItself cn.id e →
      ∃ u, Map.lookup n (run cfg pre).users = some u ∧ u.owner = cn.id ∧
        TornDown (run cfg pre) (run cfg evs) cn.id n u := by
  intro pre e cn n heq hm ha hn he
  subst heq
  exact every_ending_tears_down_run pre (schedAll_prefix hs) hm ha hn he

/-- **`teardown` removes the user**, over whole executions: in the world after any
    well-scheduled event list, tearing down a registered connection removes exactly its user
    (`TornDown`: user, memberships, rank entries, WALLOPS entry, counters, slot). -/
theorem teardown_removes_user_run {cfg : Cfg} (evs : List Event) (hs : SchedAll cfg evs)
    {cn : Conn} (hm : cn ∈ (run cfg evs).conns) (ha : cn.authenticated = true) {n : Str}
    (hn : cn.nick = some n) :
    ∃ u, Map.lookup n (run cfg evs).users = some u ∧ u.owner = cn.id ∧
      TornDown (run cfg evs) (teardown (run cfg evs) cn.id) cn.id n u :=
  teardown_tears_down_reachable (reachable_run hs) hm ha hn

/-- an accepted KILL tears the victim down, along every execution -/
theorem kill_tears_down_run {cfg : Cfg} (evs : List Event) (hs : SchedAll cfg evs)
    {co : Conn} (hco : co ∈ (run cfg evs).conns)
    (hca : co.authenticated = true) {k : Str} (hck : co.nick = some k) {uk : User}
    (huk : Map.lookup k (run cfg evs).users = some uk) (hop : uk.modes.oper = true) {n : Str}
    {u : User} (hu : Map.lookup n (run cfg evs).users = some u) {s comment : Str}
    (hk : IP.IsKillLine s n comment) :
    ∃ cn, cn ∈ (run cfg evs).conns ∧ cn.id = u.owner ∧
      TornDown (run cfg evs) (run cfg (evs ++ [.line co.id s])) cn.id n u := by
  rw [run_snoc]
  exact kill_tears_down_reachable (reachable_run hs) hco hca hck huk hop hu hk

end Irc.Reach.C06

/-! ## C19 -/

namespace Irc.Reach.C19
open Irc Reply Irc.C19

theorem users_counted_once_reachable
    {cfg : Cfg} {w : World} (hr : Reachable cfg w) :
    (Map.keys w.users).Nodup ∧
    (Map.keys w.users).length = Spec.users w ∧ (Map.keys w.channels).Nodup ∧
    (Map.keys w.channels).length = Spec.channels w :=
  users_counted_once (core_reachable hr)

theorem counters_true_reachable
    {cfg : Cfg} {w : World} (hr : Reachable cfg w) :
    w.invisibleCount = Spec.invisible w ∧ w.operatorsCount = Spec.operators w ∧
    Spec.users w - w.invisibleCount = Spec.visible w ∧ Spec.users w ≤ w.maxUsers :=
  counters_true (core_reachable hr)

theorem lusers_true_reachable
    {cfg : Cfg} {client : Str} {x : Ctx} (hr : Reachable cfg x.w) :
    (processLusers cfg client x).direct = x.direct ++
      [ srvLine cfg (RplLUserClient251 client (Spec.visible x.w) (Spec.invisible x.w) 1),
        srvLine cfg (RplLUserOp252 client (Spec.operators x.w)),
        srvLine cfg (RplLUserUnknown253 client 0),
        srvLine cfg (RplLUserChannels254 client (Spec.channels x.w)),
        srvLine cfg (RplLUserMe255 client (Spec.users x.w) 1),
        srvLine cfg (RplLocalUsers265 client (Spec.users x.w) x.w.maxUsers),
        srvLine cfg (RplGlobalUsers266 client (Spec.users x.w) x.w.maxUsers) ] ∧
    Spec.users x.w ≤ x.w.maxUsers ∧
    (processLusers cfg client x).w = x.w :=
  lusers_true (core_reachable hr)

theorem maxUsers_ge_users_reachable
    {cfg : Cfg} {w : World} (hr : Reachable cfg w) :
    Spec.users w ≤ w.maxUsers :=
  maxUsers_ge_users (core_reachable hr)

theorem maxUsers_running_max_reachable
    {cfg : Cfg} {w : World} (hr : Reachable cfg w) {e : Event} (hs : Sched w e) :
    (step cfg w e).w.maxUsers = max w.maxUsers (Spec.users (step cfg w e).w) :=
  maxUsers_running_max (inv_reachable hr) hs

theorem maxUsers_monotone_reachable
    {cfg : Cfg} {w : World} (hr : Reachable cfg w) {e : Event} (hs : Sched w e) :
    w.maxUsers ≤ (step cfg w e).w.maxUsers :=
  maxUsers_monotone (inv_reachable hr) hs

theorem maxUsers_from_reachable
    {cfg : Cfg} (evs : List Event) {w : World} (hr : Reachable cfg w) (hs : SchedFrom cfg w evs) :
    (evs.foldl (fun w e => (step cfg w e).w) w).maxUsers = max w.maxUsers (highWaterFrom cfg w evs) :=
  maxUsers_from evs (inv_reachable hr) hs

theorem connect_refused_iff_reachable
    {cfg : Cfg} {w : World} (hr : Reachable cfg w) {m : Nat} (hm : cfg.maxConnections = some m)
    (c : Nat) (ip : Str) :
    (m ≤ w.conns.length ∧
      step cfg w (.connect c ip) = { w := w, events := [str "refused " ++ natToStr c] }) ∨
    (w.conns.length < m ∧
      (step cfg w (.connect c ip)).w =
        { w with conns := w.conns ++ [Conn.new c ip], connsCount := w.connsCount + 1 } ∧
      (step cfg w (.connect c ip)).events = []) :=
  connect_refused_iff (core_reachable hr) hm c ip

theorem conns_grow_only_by_connect_reachable
    {cfg : Cfg} {w : World} (hr : Reachable cfg w) {e : Event} (hne : ∀ c ip, e ≠ .connect c ip) :
    (step cfg w e).w.conns.length ≤ w.conns.length :=
  conns_grow_only_by_connect (inv_reachable hr) hne

theorem slots_bounded_reachable
    {cfg : Cfg} {w : World} (hr : Reachable cfg w) {m : Nat} (hm : cfg.maxConnections = some m)
    (hb : w.conns.length ≤ m) (e : Event) :
    (step cfg w e).w.conns.length ≤ m :=
  slots_bounded (inv_reachable hr) hm hb e

theorem slot_counter_exact_reachable
    {cfg : Cfg} {w : World} (hr : Reachable cfg w) :
    w.connsCount = w.conns.length :=
  slot_counter_exact (core_reachable hr)

theorem slot_freed_on_every_end_reachable
    {cfg : Cfg} {w : World} (hr : Reachable cfg w) {cn : Conn} (hm : cn ∈ w.conns) :
    (teardown w cn.id).connsCount + 1 = w.connsCount ∧
    (teardown w cn.id).conns.length + 1 = w.conns.length ∧
    (teardown w cn.id).connsCount = (teardown w cn.id).conns.length :=
  slot_freed_on_every_end (core_reachable hr) hm

theorem slot_freed_step_reachable
    {cfg : Cfg} {w : World} (hr : Reachable cfg w) {cn : Conn} (hm : cn ∈ w.conns) {e : Event}
    (he : IP.EndsItself cn.id e) :
    (step cfg w e).w.connsCount + 1 = w.connsCount ∧
    (step cfg w e).w.conns.length + 1 = w.conns.length :=
  slot_freed_step (inv_reachable hr) hm he

theorem slots_freed_settle_reachable
    {w : World} (cfg : Cfg) (hr : Reachable cfg w) (outs : List (Nat × Str)) (evs : List Str) :
    (settle cfg w outs evs).1.connsCount = (settle cfg w outs evs).1.conns.length ∧
    (settle cfg w outs evs).1.connsCount + (w.conns.filter (fun y => y.quit || y.killedBy.isSome)).length
      = w.connsCount :=
  slots_freed_settle (core_reachable hr) cfg outs evs

/-- the mid-operation form of `slots_freed_settle` (see the note in the header) -/
theorem slots_freed_settle_midstep {cfg : Cfg} {w : World} (hr : Reachable cfg w) {c : Nat}
    (hl : Live w c) (s : Str) (outs : List (Nat × Str)) (evs : List Str) :
    (settle cfg (mid cfg w c s) outs evs).1.connsCount =
      (settle cfg (mid cfg w c s) outs evs).1.conns.length ∧
    (settle cfg (mid cfg w c s) outs evs).1.connsCount +
        ((mid cfg w c s).conns.filter (fun y => y.quit || y.killedBy.isSome)).length
      = (mid cfg w c s).connsCount :=
  slots_freed_settle (core_mid hr hl s) cfg outs evs

/-! ### trace-level forms -/

/-- **C19 over whole executions** (`lusers_true`): after any well-scheduled event list, LUSERS
    (handled in the context `step` builds, for any client name) answers with exactly the seven
    lines carrying the true counts, and changes nothing.  (`C19.reachable_lusers_true` is the
    first two conjuncts.) -/
theorem lusers_true_run {cfg : Cfg} (evs : List Event) (hs : SchedAll cfg evs) (client : Str) :
    (processLusers cfg client { w := run cfg evs }).direct =
      [ srvLine cfg (RplLUserClient251 client (Spec.visible (run cfg evs)) (Spec.invisible (run cfg evs)) 1),
        srvLine cfg (RplLUserOp252 client (Spec.operators (run cfg evs))),
        srvLine cfg (RplLUserUnknown253 client 0),
        srvLine cfg (RplLUserChannels254 client (Spec.channels (run cfg evs))),
        srvLine cfg (RplLUserMe255 client (Spec.users (run cfg evs)) 1),
        srvLine cfg (RplLocalUsers265 client (Spec.users (run cfg evs)) (run cfg evs).maxUsers),
        srvLine cfg (RplGlobalUsers266 client (Spec.users (run cfg evs)) (run cfg evs).maxUsers) ] ∧
    Spec.users (run cfg evs) ≤ (run cfg evs).maxUsers ∧
    (processLusers cfg client { w := run cfg evs }).w = run cfg evs := by
  have r := lusers_true_reachable (client := client) (x := { w := run cfg evs }) (reachable_run hs)
  exact ⟨by simpa using r.1, r.2.1, r.2.2⟩

/-- the counters LUSERS reads are the true counts, after any well-scheduled event list -/
theorem counters_true_run {cfg : Cfg} (evs : List Event) (hs : SchedAll cfg evs) :
    (run cfg evs).invisibleCount = Spec.invisible (run cfg evs) ∧
    (run cfg evs).operatorsCount = Spec.operators (run cfg evs) ∧
    Spec.users (run cfg evs) - (run cfg evs).invisibleCount = Spec.visible (run cfg evs) ∧
    Spec.users (run cfg evs) ≤ (run cfg evs).maxUsers :=
  counters_true_reachable (reachable_run hs)

/-- the slot counter is exact, after any well-scheduled event list -/
theorem slot_counter_exact_run {cfg : Cfg} (evs : List Event) (hs : SchedAll cfg evs) :
    (run cfg evs).connsCount = (run cfg evs).conns.length :=
  slot_counter_exact_reachable (reachable_run hs)

/-- `maxUsers` never decreases along an execution -/
theorem maxUsers_monotone_run {cfg : Cfg} (evs : List Event) (hs : SchedAll cfg evs) :
    ∀ pre e, evs = pre ++ [e] → (run cfg pre).maxUsers ≤ (run cfg evs).maxUsers := by
  intro pre e he
  subst he
  rw [run_snoc]
  exact maxUsers_monotone_reachable (reachable_prefix hs) (sched_last hs)

end Irc.Reach.C19
