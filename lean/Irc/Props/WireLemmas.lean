/-
  Helper lemmas for `Irc/Props/Wire.lean` (end-to-end theorems: wire text → parser → command →
  handler → state and deliveries).

  Contents
  * §0  vocabulary: well-formed pieces of a client line (`WfChan`, `WfNick`, `WfKey`, `WfWord`,
        `WfMsgChan`), verbs in any letter case (`Verb`), the canonical client lines (`lineJoin` ..)
  * §1  `Message.parse` / `Command.fromMessage` of the canonical lines
  * §2  `step` of a line = `finish` of `dispatch`; when the settling phase is the identity
  * §3  per-command helper facts used by the corollaries of `Wire.lean`

  Import note: `Irc.Props.C09` (KICK) and `Irc.Props.C15` (NICK) cannot be imported together
  (`Irc.ownerOf` is defined in both `ChanPrivLemmas` and `IdentLemmas`); C15 is imported and the
  single-victim KICK facts are re-derived here from the model (`processKick`).
-/
import Irc.InvProofs.Step
import Irc.Props.C13
import Irc.Props.C03
import Irc.Props.C07
import Irc.Props.C10
import Irc.Props.C01
import Irc.Props.C11
import Irc.Props.C15
import Irc.Props.C05
namespace Irc.Wire
open Irc Irc.Reply

/-! ## 0. vocabulary -/

/-- a channel name as a client may write it: accepted by `validate_channel` (non-empty, starts
    with `#` or `&`, no `:` and no `,`) and free of ASCII whitespace -/
def WfChan (ch : Str) : Prop := validateChannel ch = true ∧ C13.noAsciiWs ch = true

/-- a nickname: accepted by `validate_username` (this excludes blanks, control characters,
    `!`, `@`, `.`, `,`, `:` and a leading `#`/`&`) -/
def WfNick (n : Str) : Prop := validateUsername n = true

/-- a middle parameter (OPER password ..): non-empty, no ASCII whitespace, no leading `:` -/
def WfWord (p : Str) : Prop := C13.wellFormedMiddle p = true

/-- a channel key given with JOIN: a middle parameter without `,` -/
def WfKey (k : Str) : Prop := WfWord k ∧ containsChar ',' k = false

/-- the shape of a channel name that `get_privmsg_target_type` reads as a plain (no status
    prefix) channel target: `#x…`, or `&x…` with `x` none of `~ & @ % + #` -/
def plainChanShape : Str → Bool
  | c0 :: c1 :: _ =>
    c0 == '#' || (c0 == '&' && !(c1 == '~' || c1 == '&' || c1 == '@' || c1 == '%' || c1 == '+' ||
      c1 == '#'))
  | _ => false

/-- a channel name usable as the target of PRIVMSG / NOTICE -/
def WfMsgChan (ch : Str) : Prop := WfChan ch ∧ plainChanShape ch = true

/-- `v` is the verb `V` in some letter case (`V` is given in upper case) -/
def Verb (v V : Str) : Prop := asciiUpper v = V

/-! the canonical client lines -/

def lineJoin (v ch : Str) : Str := v ++ str " " ++ ch
def lineJoinKey (v ch key : Str) : Str := v ++ str " " ++ ch ++ str " " ++ key
def linePrivmsg (v tgt text : Str) : Str := v ++ str " " ++ tgt ++ str " :" ++ text
def lineKick (v ch nick comment : Str) : Str :=
  v ++ str " " ++ ch ++ str " " ++ nick ++ str " :" ++ comment
def lineTopic (v ch topic : Str) : Str := v ++ str " " ++ ch ++ str " :" ++ topic
def lineNick (v new : Str) : Str := v ++ str " " ++ new
def lineOper (v name pw : Str) : Str := v ++ str " " ++ name ++ str " " ++ pw
def linePart (v ch reason : Str) : Str := v ++ str " " ++ ch ++ str " :" ++ reason

/-! ## 1. parsing -/

/-! ### characters -/

theorem asciiUpperChar_of_not_lower (c : Char) (h : ¬ (97 ≤ c.toNat ∧ c.toNat ≤ 122)) :
    asciiUpperChar c = c := by
  unfold asciiUpperChar
  have ha : 'a'.toNat = 97 := rfl
  have hz : 'z'.toNat = 122 := rfl
  rw [ha, hz, if_neg h]

theorem not_lower_of_isWhitespace (c : Char) (h : isWhitespace c = true) :
    ¬ (97 ≤ c.toNat ∧ c.toNat ≤ 122) := by
  unfold isWhitespace at h
  simp only [Bool.or_eq_true, Bool.and_eq_true, decide_eq_true_eq, beq_iff_eq] at h
  omega

theorem isWhitespace_upper (c : Char) (h : isWhitespace (asciiUpperChar c) = false) :
    isWhitespace c = false := by
  cases hw : isWhitespace c with
  | false => rfl
  | true =>
    rw [asciiUpperChar_of_not_lower c (not_lower_of_isWhitespace c hw), hw] at h
    cases h

theorem ne_colon_upper (c : Char) (h : asciiUpperChar c ≠ ':') : c ≠ ':' := by
  intro e
  subst e
  exact h (by decide)

theorem isAscii_of_isWhitespace_false (c : Char) (h : isWhitespace c = false) :
    isAsciiWhitespace c = false := by
  cases ha : isAsciiWhitespace c with
  | false => rfl
  | true => rw [C13.isWhitespace_of_ascii c ha] at h; cases h

/-- what makes an (upper-case) verb literal usable: non-empty, no blank, no `:` -/
def VerbOK (V : Str) : Prop := V ≠ [] ∧ ∀ c ∈ V, isWhitespace c = false ∧ c ≠ ':'

instance (V : Str) : Decidable (VerbOK V) := by unfold VerbOK; infer_instance

/-- a verb in any letter case is a word whose first character survives `trim_start` -/
theorem verb_word {v V : Str} (h : Verb v V) (hV : VerbOK V) :
    C13.Word v ∧ ∃ c0 cs, v = c0 :: cs ∧ isWhitespace c0 = false := by
  unfold Verb asciiUpper at h
  subst h
  obtain ⟨hne, hall⟩ := hV
  have hall' : ∀ c ∈ v, isWhitespace c = false ∧ c ≠ ':' := fun c hc =>
    have := hall (asciiUpperChar c) (List.mem_map.mpr ⟨c, hc, rfl⟩)
    ⟨isWhitespace_upper c this.1, ne_colon_upper c this.2⟩
  cases v with
  | nil => exact absurd rfl hne
  | cons c0 cs =>
    refine ⟨⟨by simp, fun c hc => isAscii_of_isWhitespace_false c (hall' c hc).1, ?_⟩,
      c0, cs, rfl, (hall' c0 List.mem_cons_self).1⟩
    simp only [startsWithChar, beq_eq_false_iff_ne, ne_eq]
    exact (hall' c0 List.mem_cons_self).2

/-! ### a source-less canonical line -/

/-- `command (" " middle)* [" :" trailing]` (no source) parses to exactly its parts; no
    hypothesis on the trailing text. -/
theorem parse_nosrc (v : Str) (ms : List Str) (tr : Option Str) (hv : C13.Word v)
    (h0 : ∃ c0 cs, v = c0 :: cs ∧ isWhitespace c0 = false) (hms : ∀ m ∈ ms, C13.Word m) :
    Message.parse (v ++ (C13.middlesStr ms ++ C13.trailingStr tr)) =
      .ok ⟨none, v, ms ++ tr.toList⟩ := by
  obtain ⟨c0, cs, rfl, hw0⟩ := h0
  obtain ⟨_, hws, hcol⟩ := hv
  have hc0 : (c0 == ':') = false := by simpa [startsWithChar] using hcol
  have hT : trimStart (c0 :: cs ++ (C13.middlesStr ms ++ C13.trailingStr tr)) =
      c0 :: (cs ++ (C13.middlesStr ms ++ C13.trailingStr tr)) := by
    simp [trimStart, hw0]
  have hST := C13.splitTrailing_body cs ms tr c0 hws.tail (Or.inl hws.head) hms
  have hW := C13.saw_body (c0 :: cs) ms tr (by simp) hws hms
  unfold Message.parse
  rw [hT]
  simp only [hST, hc0, Bool.false_eq_true, if_false]
  rw [← List.cons_append, hW, C13.finish_cons]

end Irc.Wire
