/-
  Helper lemmas for `Irc/Props/Wire.lean` (end-to-end theorems: wire text → parser → command →
  handler → state and deliveries).

  Contents
  * §0  vocabulary: well-formed pieces of a client line (`WfChan`, `WfNick`, `WfKey`, `WfWord`,
        `WfMsgChan`), verbs in any letter case (`Verb`), the canonical client lines (`lineJoin` ..)
  * §1  `Message.parse` / `Command.fromMessage` of the canonical lines
  * §2  `step` of a line = `finish` of `dispatch`; when the settling phase is the identity
  * §3  per-command helper facts used by the corollaries of `Wire.lean`

  Import note: `Irc.Props.C09` (KICK) and `Irc.Props.C15` (NICK) cannot be imported together
  (`Irc.ownerOf` is defined in both `ChanPrivLemmas` and `IdentLemmas`); C15 is imported and the
  single-victim KICK facts are re-derived here from the model (`processKick`).
-/
import Irc.InvProofs.Step
import Irc.Props.C13
import Irc.Props.C03
import Irc.Props.C07
import Irc.Props.C10
import Irc.Props.C01
import Irc.Props.C11
import Irc.Props.C15
import Irc.Props.C05
namespace Irc.Wire
open Irc Irc.Reply

/-! ## 0. vocabulary -/

/-- a channel name as a client may write it: accepted by `validate_channel` (non-empty, starts
    with `#` or `&`, no `:` and no `,`) and free of ASCII whitespace -/
def WfChan (ch : Str) : Prop := validateChannel ch = true ∧ C13.noAsciiWs ch = true

/-- a nickname: accepted by `validate_username` (this excludes blanks, control characters,
    `!`, `@`, `.`, `,`, `:` and a leading `#`/`&`) -/
def WfNick (n : Str) : Prop := validateUsername n = true

/-- a middle parameter (OPER password ..): non-empty, no ASCII whitespace, no leading `:` -/
def WfWord (p : Str) : Prop := C13.wellFormedMiddle p = true

/-- a channel key given with JOIN: a middle parameter without `,` -/
def WfKey (k : Str) : Prop := WfWord k ∧ containsChar ',' k = false

/-- the shape of a channel name that `get_privmsg_target_type` reads as a plain (no status
    prefix) channel target: `#x…`, or `&x…` with `x` none of `~ & @ % + #` -/
def plainChanShape : Str → Bool
  | c0 :: c1 :: _ =>
    c0 == '#' || (c0 == '&' && !(c1 == '~' || c1 == '&' || c1 == '@' || c1 == '%' || c1 == '+' ||
      c1 == '#'))
  | _ => false

/-- a channel name usable as the target of PRIVMSG / NOTICE -/
def WfMsgChan (ch : Str) : Prop := WfChan ch ∧ plainChanShape ch = true

/-- `v` is the verb `V` in some letter case (`V` is given in upper case) -/
def Verb (v V : Str) : Prop := asciiUpper v = V

instance (ch : Str) : Decidable (WfChan ch) := by unfold WfChan; infer_instance
instance (n : Str) : Decidable (WfNick n) := by unfold WfNick; infer_instance
instance (p : Str) : Decidable (WfWord p) := by unfold WfWord; infer_instance
instance (k : Str) : Decidable (WfKey k) := by unfold WfKey; infer_instance
instance (ch : Str) : Decidable (WfMsgChan ch) := by unfold WfMsgChan; infer_instance
instance (v V : Str) : Decidable (Verb v V) := by unfold Verb; infer_instance

/-! the canonical client lines -/

def lineJoin (v ch : Str) : Str := v ++ str " " ++ ch
def lineJoinKey (v ch key : Str) : Str := v ++ str " " ++ ch ++ str " " ++ key
def linePrivmsg (v tgt text : Str) : Str := v ++ str " " ++ tgt ++ str " :" ++ text
def lineKick (v ch nick comment : Str) : Str :=
  v ++ str " " ++ ch ++ str " " ++ nick ++ str " :" ++ comment
def lineTopic (v ch topic : Str) : Str := v ++ str " " ++ ch ++ str " :" ++ topic
def lineNick (v new : Str) : Str := v ++ str " " ++ new
def lineOper (v name pw : Str) : Str := v ++ str " " ++ name ++ str " " ++ pw
def linePart (v ch reason : Str) : Str := v ++ str " " ++ ch ++ str " :" ++ reason

/-! ## 1. parsing -/

/-! ### characters -/

theorem asciiUpperChar_of_not_lower (c : Char) (h : ¬ (97 ≤ c.toNat ∧ c.toNat ≤ 122)) :
    asciiUpperChar c = c := by
  unfold asciiUpperChar
  have ha : 'a'.toNat = 97 := rfl
  have hz : 'z'.toNat = 122 := rfl
  rw [ha, hz, if_neg h]

theorem not_lower_of_isWhitespace (c : Char) (h : isWhitespace c = true) :
    ¬ (97 ≤ c.toNat ∧ c.toNat ≤ 122) := by
  unfold isWhitespace at h
  simp only [Bool.or_eq_true, Bool.and_eq_true, decide_eq_true_eq, beq_iff_eq] at h
  omega

theorem isWhitespace_upper (c : Char) (h : isWhitespace (asciiUpperChar c) = false) :
    isWhitespace c = false := by
  cases hw : isWhitespace c with
  | false => rfl
  | true =>
    rw [asciiUpperChar_of_not_lower c (not_lower_of_isWhitespace c hw), hw] at h
    cases h

theorem ne_colon_upper (c : Char) (h : asciiUpperChar c ≠ ':') : c ≠ ':' := by
  intro e
  subst e
  exact h (by decide)

theorem isAscii_of_isWhitespace_false (c : Char) (h : isWhitespace c = false) :
    isAsciiWhitespace c = false := by
  cases ha : isAsciiWhitespace c with
  | false => rfl
  | true => rw [C13.isWhitespace_of_ascii c ha] at h; cases h

/-- what makes an (upper-case) verb literal usable: non-empty, no blank, no `:` -/
def VerbOK (V : Str) : Prop := V ≠ [] ∧ ∀ c ∈ V, isWhitespace c = false ∧ c ≠ ':'

instance (V : Str) : Decidable (VerbOK V) := by unfold VerbOK; infer_instance

/-- a verb in any letter case is a word whose first character survives `trim_start` -/
theorem verb_word {v V : Str} (h : Verb v V) (hV : VerbOK V) :
    C13.Word v ∧ ∃ c0 cs, v = c0 :: cs ∧ isWhitespace c0 = false := by
  unfold Verb asciiUpper at h
  subst h
  obtain ⟨hne, hall⟩ := hV
  have hall' : ∀ c ∈ v, isWhitespace c = false ∧ c ≠ ':' := fun c hc =>
    have := hall (asciiUpperChar c) (List.mem_map.mpr ⟨c, hc, rfl⟩)
    ⟨isWhitespace_upper c this.1, ne_colon_upper c this.2⟩
  cases v with
  | nil => exact absurd rfl hne
  | cons c0 cs =>
    refine ⟨⟨by simp, fun c hc => isAscii_of_isWhitespace_false c (hall' c hc).1, ?_⟩,
      c0, cs, rfl, (hall' c0 List.mem_cons_self).1⟩
    simp only [startsWithChar, beq_eq_false_iff_ne, ne_eq]
    exact (hall' c0 List.mem_cons_self).2

/-! ### a source-less canonical line -/

/-- `command (" " middle)* [" :" trailing]` (no source) parses to exactly its parts; no
    hypothesis on the trailing text. -/
theorem parse_nosrc (v : Str) (ms : List Str) (tr : Option Str) (hv : C13.Word v)
    (h0 : ∃ c0 cs, v = c0 :: cs ∧ isWhitespace c0 = false) (hms : ∀ m ∈ ms, C13.Word m) :
    Message.parse (v ++ (C13.middlesStr ms ++ C13.trailingStr tr)) =
      .ok ⟨none, v, ms ++ tr.toList⟩ := by
  obtain ⟨c0, cs, rfl, hw0⟩ := h0
  obtain ⟨_, hws, hcol⟩ := hv
  have hc0 : (c0 == ':') = false := by simpa [startsWithChar] using hcol
  have hT : trimStart (c0 :: cs ++ (C13.middlesStr ms ++ C13.trailingStr tr)) =
      c0 :: (cs ++ (C13.middlesStr ms ++ C13.trailingStr tr)) := by
    simp [trimStart, hw0]
  have hST := C13.splitTrailing_body cs ms tr c0 hws.tail (Or.inl hws.head) hms
  have hW := C13.saw_body (c0 :: cs) ms tr (by simp) hws hms
  unfold Message.parse
  rw [hT]
  simp only [hST, hc0, Bool.false_eq_true, if_false]
  rw [← List.cons_append, hW, C13.finish_cons]

/-! ### the well-formed pieces are words -/

theorem not_mem_of_containsChar {c : Char} {s : Str} (h : containsChar c s = false) : c ∉ s := by
  intro hm
  have : containsChar c s = true := by
    unfold containsChar
    exact List.any_eq_true.mpr ⟨c, hm, by simp⟩
  rw [h] at this; cases this

theorem validateChannel_iff (ch : Str) :
    validateChannel ch = true ↔
      ch ≠ [] ∧ containsChar ':' ch = false ∧ containsChar ',' ch = false ∧
        hasChannelPrefix ch = true := by
  unfold validateChannel
  cases ch <;> simp [and_assoc]

theorem validateUsername_iff (u : Str) :
    validateUsername u = true ↔
      u ≠ [] ∧ hasChannelPrefix u = false ∧ u.any badUsernameChar = false ∧
        containsChar '.' u = false ∧ containsChar ':' u = false ∧ containsChar ',' u = false := by
  unfold validateUsername validateUsernameErr
  cases u with
  | nil => simp
  | cons c cs =>
    cases hasChannelPrefix (c :: cs) <;> cases (c :: cs).any badUsernameChar <;>
      cases containsChar '.' (c :: cs) <;> cases containsChar ':' (c :: cs) <;>
      cases containsChar ',' (c :: cs) <;> simp

theorem startsWith_of_not_contains {c : Char} {s : Str} (h : containsChar c s = false) :
    startsWithChar c s = false := by
  cases s with
  | nil => rfl
  | cons x xs =>
    have := not_mem_of_containsChar h
    simp only [List.mem_cons, not_or] at this
    simp only [startsWithChar, beq_eq_false_iff_ne, ne_eq]
    exact fun e => this.1 e.symm

theorem WfChan.word {ch : Str} (h : WfChan ch) : C13.Word ch := by
  obtain ⟨hv, hw⟩ := h
  obtain ⟨hne, hcol, _, _⟩ := (validateChannel_iff ch).mp hv
  exact ⟨hne, C13.wsFree_of_all ch hw, startsWith_of_not_contains hcol⟩

theorem WfChan.noComma {ch : Str} (h : WfChan ch) : ',' ∉ ch :=
  not_mem_of_containsChar ((validateChannel_iff ch).mp h.1).2.2.1

theorem WfNick.word {n : Str} (h : WfNick n) : C13.Word n := by
  obtain ⟨hne, _, hbad, _, hcol, _⟩ := (validateUsername_iff n).mp h
  refine ⟨hne, ?_, startsWith_of_not_contains hcol⟩
  intro c hc
  have hb : badUsernameChar c = false := by
    cases hb : badUsernameChar c with
    | false => rfl
    | true =>
      have : n.any badUsernameChar = true := List.any_eq_true.mpr ⟨c, hc, hb⟩
      rw [hbad] at this; cases this
  unfold badUsernameChar at hb
  simp only [Bool.or_eq_false_iff] at hb
  exact isAscii_of_isWhitespace_false c hb.1.1.1

theorem WfNick.noComma {n : Str} (h : WfNick n) : ',' ∉ n :=
  not_mem_of_containsChar ((validateUsername_iff n).mp h).2.2.2.2.2

theorem WfWord.word {p : Str} (h : WfWord p) : C13.Word p := C13.word_of_bools p h

theorem WfKey.word {k : Str} (h : WfKey k) : C13.Word k := h.1.word

theorem WfKey.noComma {k : Str} (h : WfKey k) : ',' ∉ k := not_mem_of_containsChar h.2

theorem splitComma_single {s : Str} (h : ',' ∉ s) : splitComma s = [s] :=
  C14.splitOnChar_free ',' s h

/-- a well-formed nickname is not touched by the `" :"` rule of `to_string_with_source` -/
theorem WfNick.renderParams {n : Str} (h : WfNick n) : renderParams [n] = ' ' :: n := by
  obtain ⟨hne, _, hbad, _, hcol, _⟩ := (validateUsername_iff n).mp h
  have hany : n.any (fun c => c == ':' || c == ' ' || c == '\t') = false := by
    rw [List.any_eq_false]
    intro c hc
    have hb : badUsernameChar c = false := by
      cases hb : badUsernameChar c with
      | false => rfl
      | true =>
        have : n.any badUsernameChar = true := List.any_eq_true.mpr ⟨c, hc, hb⟩
        rw [hbad] at this; cases this
    have hcc : c ≠ ':' := fun e => not_mem_of_containsChar hcol (e ▸ hc)
    unfold badUsernameChar at hb
    simp only [Bool.or_eq_false_iff] at hb
    have hw := hb.1.1.1
    intro hx
    simp only [Bool.or_eq_true, beq_iff_eq] at hx
    rcases hx with (hx | hx) | hx
    · exact hcc hx
    · subst hx; revert hw; decide
    · subst hx; revert hw; decide
  have hemp : n.isEmpty = false := by cases n <;> simp_all
  simp [Irc.renderParams, hany, hemp, str]

/-! ### `Message.parse` of the canonical client lines

In every lemma the verb may be written in any letter case, the channel / nick / key are
well-formed pieces, and the trailing text (`text`, `comment`, `topic`, `reason`) is ARBITRARY:
any characters at all (blanks, colons, even line breaks — the framing layer guarantees that a
line contains none, the parser does not need it). -/

theorem parse_join {v ch : Str} (hv : Verb v (str "JOIN")) (hch : WfChan ch) :
    Message.parse (lineJoin v ch) = .ok ⟨none, v, [ch]⟩ := by
  obtain ⟨hw, h0⟩ := verb_word hv (by decide)
  have := parse_nosrc v [ch] none hw h0 (by intro m hm; rw [List.mem_singleton.mp hm]; exact hch.word)
  simpa [lineJoin, C13.middlesStr, C13.trailingStr, C13.str_space] using this

theorem parse_joinKey {v ch key : Str} (hv : Verb v (str "JOIN")) (hch : WfChan ch)
    (hk : WfKey key) : Message.parse (lineJoinKey v ch key) = .ok ⟨none, v, [ch, key]⟩ := by
  obtain ⟨hw, h0⟩ := verb_word hv (by decide)
  have := parse_nosrc v [ch, key] none hw h0 (by
    intro m hm
    rcases List.mem_cons.mp hm with rfl | hm
    · exact hch.word
    · rw [List.mem_singleton.mp hm]; exact hk.word)
  simpa [lineJoinKey, C13.middlesStr, C13.trailingStr, C13.str_space] using this

/-- PRIVMSG / NOTICE `tgt :text` — for EVERY text -/
theorem parse_msg {v V tgt : Str} (hv : Verb v V) (hV : VerbOK V) (ht : C13.Word tgt)
    (text : Str) : Message.parse (linePrivmsg v tgt text) = .ok ⟨none, v, [tgt, text]⟩ := by
  obtain ⟨hw, h0⟩ := verb_word hv hV
  have := parse_nosrc v [tgt] (some text) hw h0 (by
    intro m hm; rw [List.mem_singleton.mp hm]; exact ht)
  simpa [linePrivmsg, C13.middlesStr, C13.trailingStr, C13.str_space, C13.str_space_colon] using this

theorem parse_privmsg {v tgt : Str} (hv : Verb v (str "PRIVMSG")) (ht : C13.Word tgt)
    (text : Str) : Message.parse (linePrivmsg v tgt text) = .ok ⟨none, v, [tgt, text]⟩ :=
  parse_msg hv (by decide) ht text

theorem parse_notice {v tgt : Str} (hv : Verb v (str "NOTICE")) (ht : C13.Word tgt)
    (text : Str) : Message.parse (linePrivmsg v tgt text) = .ok ⟨none, v, [tgt, text]⟩ :=
  parse_msg hv (by decide) ht text

theorem parse_kick {v ch nick : Str} (hv : Verb v (str "KICK")) (hch : WfChan ch)
    (hn : WfNick nick) (comment : Str) :
    Message.parse (lineKick v ch nick comment) = .ok ⟨none, v, [ch, nick, comment]⟩ := by
  obtain ⟨hw, h0⟩ := verb_word hv (by decide)
  have := parse_nosrc v [ch, nick] (some comment) hw h0 (by
    intro m hm
    rcases List.mem_cons.mp hm with rfl | hm
    · exact hch.word
    · rw [List.mem_singleton.mp hm]; exact hn.word)
  simpa [lineKick, C13.middlesStr, C13.trailingStr, C13.str_space, C13.str_space_colon] using this

theorem parse_topic {v ch : Str} (hv : Verb v (str "TOPIC")) (hch : WfChan ch) (topic : Str) :
    Message.parse (lineTopic v ch topic) = .ok ⟨none, v, [ch, topic]⟩ := by
  obtain ⟨hw, h0⟩ := verb_word hv (by decide)
  have := parse_nosrc v [ch] (some topic) hw h0 (by
    intro m hm; rw [List.mem_singleton.mp hm]; exact hch.word)
  simpa [lineTopic, C13.middlesStr, C13.trailingStr, C13.str_space, C13.str_space_colon] using this

theorem parse_nick {v new : Str} (hv : Verb v (str "NICK")) (hn : WfNick new) :
    Message.parse (lineNick v new) = .ok ⟨none, v, [new]⟩ := by
  obtain ⟨hw, h0⟩ := verb_word hv (by decide)
  have := parse_nosrc v [new] none hw h0 (by
    intro m hm; rw [List.mem_singleton.mp hm]; exact hn.word)
  simpa [lineNick, C13.middlesStr, C13.trailingStr, C13.str_space] using this

theorem parse_oper {v name pw : Str} (hv : Verb v (str "OPER")) (hn : WfNick name)
    (hp : WfWord pw) : Message.parse (lineOper v name pw) = .ok ⟨none, v, [name, pw]⟩ := by
  obtain ⟨hw, h0⟩ := verb_word hv (by decide)
  have := parse_nosrc v [name, pw] none hw h0 (by
    intro m hm
    rcases List.mem_cons.mp hm with rfl | hm
    · exact hn.word
    · rw [List.mem_singleton.mp hm]; exact hp.word)
  simpa [lineOper, C13.middlesStr, C13.trailingStr, C13.str_space] using this

theorem parse_part {v ch : Str} (hv : Verb v (str "PART")) (hch : WfChan ch) (reason : Str) :
    Message.parse (linePart v ch reason) = .ok ⟨none, v, [ch, reason]⟩ := by
  obtain ⟨hw, h0⟩ := verb_word hv (by decide)
  have := parse_nosrc v [ch] (some reason) hw h0 (by
    intro m hm; rw [List.mem_singleton.mp hm]; exact hch.word)
  simpa [linePart, C13.middlesStr, C13.trailingStr, C13.str_space, C13.str_space_colon] using this

/-! ### `Command.fromMessage` of the parsed messages -/

/-- reduce a verb in any letter case to its upper-case literal -/
theorem fromMessage_verb {v V : Str} (hv : Verb v V) (hV : asciiUpper V = V) (src : Option Str)
    (ps : List Str) : Command.fromMessage ⟨src, v, ps⟩ = Command.fromMessage ⟨src, V, ps⟩ :=
  (C13.verb_case_insensitive ⟨src, V, ps⟩ v (by rw [hV]; exact hv)).2

theorem cmd_join {v ch : Str} (hv : Verb v (str "JOIN")) (hch : WfChan ch) (src : Option Str) :
    Command.fromMessage ⟨src, v, [ch]⟩ = .ok (.JOIN [ch] none) := by
  rw [fromMessage_verb hv (by decide)]
  have hp : Command.parseFromMessage ⟨src, str "JOIN", [ch]⟩ = .ok (.JOIN (splitComma ch) none) := rfl
  unfold Command.fromMessage
  rw [hp, splitComma_single hch.noComma]
  simp [Command.validate, checkAll, check, hch.1]

theorem cmd_joinKey {v ch key : Str} (hv : Verb v (str "JOIN")) (hch : WfChan ch)
    (hk : WfKey key) (src : Option Str) :
    Command.fromMessage ⟨src, v, [ch, key]⟩ = .ok (.JOIN [ch] (some [key])) := by
  rw [fromMessage_verb hv (by decide)]
  have hp : Command.parseFromMessage ⟨src, str "JOIN", [ch, key]⟩ =
      .ok (.JOIN [ch] (some [key])) := by
    have h0 : Command.parseFromMessage ⟨src, str "JOIN", [ch, key]⟩ =
        (if (splitComma key).length ≠ (splitComma ch).length then
          .error (.parameterDoesntMatch .JOIN 1)
         else .ok (.JOIN (splitComma ch) (some (splitComma key)))) := rfl
    rw [h0, splitComma_single hch.noComma, splitComma_single hk.noComma]
    simp
  unfold Command.fromMessage
  rw [hp]
  simp [Command.validate, checkAll, check, hch.1]

/-! ### channel names as PRIVMSG / NOTICE targets -/

def plainTT : TargetType := ⟨true, false, false, false, false, false⟩

theorem plainChanShape_target {ch : Str} (h : plainChanShape ch = true) :
    getPrivmsgTargetType ch = (plainTT, ch) := by
  match ch, h with
  | c0 :: c1 :: rest, h =>
    simp only [plainChanShape, Bool.or_eq_true, beq_iff_eq, Bool.and_eq_true, Bool.not_eq_true',
      Bool.or_eq_false_iff, beq_eq_false_iff_ne, ne_eq] at h
    rcases h with rfl | ⟨rfl, ⟨⟨⟨⟨h1, h2⟩, h3⟩, h4⟩, h5⟩, h6⟩
    · simp [getPrivmsgTargetType, privmsgTargetLoop, plainTT]
    · simp [getPrivmsgTargetType, privmsgTargetLoop, plainTT, *]

theorem plainChanShape_prefixed {ch : Str} (hv : validateChannel ch = true)
    (h : plainChanShape ch = true) : validatePrefixedChannel ch = true := by
  obtain ⟨hne, hcol, hcom, _⟩ := (validateChannel_iff ch).mp hv
  have hemp : ch.isEmpty = false := by cases ch <;> simp_all
  unfold validatePrefixedChannel
  rw [hemp, hcol, hcom]
  match ch, h with
  | c0 :: c1 :: rest, h =>
    simp only [plainChanShape, Bool.or_eq_true, beq_iff_eq, Bool.and_eq_true, Bool.not_eq_true',
      Bool.or_eq_false_iff, beq_eq_false_iff_ne, ne_eq] at h
    rcases h with rfl | ⟨rfl, ⟨⟨⟨⟨h1, h2⟩, h3⟩, h4⟩, h5⟩, h6⟩
    · simp [prefixedChannelLoop]
    · simp [prefixedChannelLoop, *]

theorem WfMsgChan.target {ch : Str} (h : WfMsgChan ch) : getPrivmsgTargetType ch = (plainTT, ch) :=
  plainChanShape_target h.2

theorem cmd_msg_parse (src : Option Str) (tgt text : Str) :
    Command.parseFromMessage ⟨src, str "PRIVMSG", [tgt, text]⟩ = .ok (.PRIVMSG (splitComma tgt) text) ∧
    Command.parseFromMessage ⟨src, str "NOTICE", [tgt, text]⟩ = .ok (.NOTICE (splitComma tgt) text) :=
  ⟨rfl, rfl⟩

theorem cmd_privmsg {v ch : Str} (hv : Verb v (str "PRIVMSG")) (hch : WfMsgChan ch)
    (src : Option Str) (text : Str) :
    Command.fromMessage ⟨src, v, [ch, text]⟩ = .ok (.PRIVMSG [ch] text) := by
  rw [fromMessage_verb hv (by decide)]
  unfold Command.fromMessage
  rw [(cmd_msg_parse src ch text).1, splitComma_single hch.1.noComma]
  simp [Command.validate, checkAll, check, plainChanShape_prefixed hch.1.1 hch.2]

theorem cmd_notice {v ch : Str} (hv : Verb v (str "NOTICE")) (hch : WfMsgChan ch)
    (src : Option Str) (text : Str) :
    Command.fromMessage ⟨src, v, [ch, text]⟩ = .ok (.NOTICE [ch] text) := by
  rw [fromMessage_verb hv (by decide)]
  unfold Command.fromMessage
  rw [(cmd_msg_parse src ch text).2, splitComma_single hch.1.noComma]
  simp [Command.validate, checkAll, check, plainChanShape_prefixed hch.1.1 hch.2]

/-- the same for a nickname target -/
theorem cmd_privmsg_nick {v n : Str} (hv : Verb v (str "PRIVMSG")) (hn : WfNick n)
    (src : Option Str) (text : Str) :
    Command.fromMessage ⟨src, v, [n, text]⟩ = .ok (.PRIVMSG [n] text) := by
  rw [fromMessage_verb hv (by decide)]
  unfold Command.fromMessage
  rw [(cmd_msg_parse src n text).1, splitComma_single hn.noComma]
  have : validateUsername n = true := hn
  simp [Command.validate, checkAll, check, this]

theorem cmd_kick {v ch nick : Str} (hv : Verb v (str "KICK")) (hch : WfChan ch) (hn : WfNick nick)
    (src : Option Str) (comment : Str) :
    Command.fromMessage ⟨src, v, [ch, nick, comment]⟩ = .ok (.KICK ch [nick] (some comment)) := by
  rw [fromMessage_verb hv (by decide)]
  have hp : Command.parseFromMessage ⟨src, str "KICK", [ch, nick, comment]⟩ =
      .ok (.KICK ch (splitComma nick) (some comment)) := rfl
  unfold Command.fromMessage
  rw [hp, splitComma_single hn.noComma]
  have : validateUsername nick = true := hn
  simp [Command.validate, checkAll, check, hch.1, this, bind, Except.bind]

theorem cmd_topic {v ch : Str} (hv : Verb v (str "TOPIC")) (hch : WfChan ch)
    (src : Option Str) (topic : Str) :
    Command.fromMessage ⟨src, v, [ch, topic]⟩ = .ok (.TOPIC ch (some topic)) := by
  rw [fromMessage_verb hv (by decide)]
  have hp : Command.parseFromMessage ⟨src, str "TOPIC", [ch, topic]⟩ =
      .ok (.TOPIC ch (some topic)) := rfl
  unfold Command.fromMessage
  rw [hp]
  simp [Command.validate, check, hch.1]

theorem cmd_nick {v new : Str} (hv : Verb v (str "NICK")) (hn : WfNick new) (src : Option Str) :
    Command.fromMessage ⟨src, v, [new]⟩ = .ok (.NICK new) := by
  rw [fromMessage_verb hv (by decide)]
  have hp : Command.parseFromMessage ⟨src, str "NICK", [new]⟩ = .ok (.NICK new) := rfl
  unfold Command.fromMessage
  rw [hp]
  have : validateUsername new = true := hn
  simp [Command.validate, check, this]

theorem cmd_oper {v name pw : Str} (hv : Verb v (str "OPER")) (hn : WfNick name)
    (src : Option Str) : Command.fromMessage ⟨src, v, [name, pw]⟩ = .ok (.OPER name pw) := by
  rw [fromMessage_verb hv (by decide)]
  have hp : Command.parseFromMessage ⟨src, str "OPER", [name, pw]⟩ = .ok (.OPER name pw) := rfl
  unfold Command.fromMessage
  rw [hp]
  have : validateUsername name = true := hn
  simp [Command.validate, check, this]

theorem cmd_part {v ch : Str} (hv : Verb v (str "PART")) (hch : WfChan ch)
    (src : Option Str) (reason : Str) :
    Command.fromMessage ⟨src, v, [ch, reason]⟩ = .ok (.PART [ch] (some reason)) := by
  rw [fromMessage_verb hv (by decide)]
  have hp : Command.parseFromMessage ⟨src, str "PART", [ch, reason]⟩ =
      .ok (.PART (splitComma ch) (some reason)) := rfl
  unfold Command.fromMessage
  rw [hp, splitComma_single hch.noComma]
  simp [Command.validate, checkAll, check, hch.1]

/-! ## 2. `step` of a line that parses to a command -/

theorem conn_of_conn? {w : World} {c : Nat} {cn : Conn} (hc : w.conn? c = some cn)
    (d : List Str) (q : List (Nat × Str)) : ({ w := w, direct := d, queued := q } : Ctx).conn c = cn := by
  unfold Ctx.conn; rw [hc]; rfl

theorem conn?_bump (w : World) (i c : Nat) : (bumpCount w i).conn? c = w.conn? c := rfl

/-- if no connection is flagged after the handler, the settling phase is the identity:
    the operation delivers the direct replies (to `c`) followed by the queued lines, and the
    resulting world is the handler's world -/
theorem finish_of_settled (cfg : Cfg) (c : Nat) (x : Ctx)
    (hs : ∀ y ∈ x.w.conns, y.quit = false ∧ y.killedBy = none) :
    finish cfg c x =
      { w := x.w, outs := x.direct.map (fun l => (c, l)) ++ x.queued, events := [] } := by
  unfold finish
  simp only [Tear.settle_of_settled cfg x.w _ [] hs]

/-- a line of a live connection that parses to the command `cmd` and passes the registration
    gate: the operation is `finish` of `dispatch` on the count-bumped world -/
theorem step_line_eq {cfg : Cfg} {w : World} {c : Nat} {s : Str} {cn : Conn} {msg : Message}
    {cmd : Command} (hc : w.conn? c = some cn)
    (hg : cn.authenticated = true ∨ allowedUnregistered cmd = true)
    (hp : Message.parse s = .ok msg) (hcmd : Command.fromMessage msg = .ok cmd) :
    step cfg w (.line c s) =
      finish cfg c (dispatch cfg c msg cmd { w := bumpCount w cmd.id.index }) := by
  have hcn : ({ w := w } : Ctx).conn c = cn := conn_of_conn? hc [] []
  have hgate : (!(allowedUnregistered cmd) && !cn.authenticated) = false := by
    rcases hg with h | h <;> simp [h]
  unfold step
  simp only [hc]
  congr 1
  unfold handleLine
  simp only [hp, hcmd, hcn, hgate, Bool.false_eq_true, if_false]
  rfl

/-- … and when the gate refuses: exactly the 451 reply on the count-bumped world -/
theorem step_line_gate {cfg : Cfg} {w : World} {c : Nat} {s : Str} {cn : Conn} {msg : Message}
    {cmd : Command} (hc : w.conn? c = some cn)
    (ha : cn.authenticated = false) (hg : allowedUnregistered cmd = false)
    (hp : Message.parse s = .ok msg) (hcmd : Command.fromMessage msg = .ok cmd) :
    step cfg w (.line c s) =
      finish cfg c (({ w := bumpCount w cmd.id.index } : Ctx).reply cfg
        (ErrNotRegistered451 cn.clientName)) := by
  have hcn : ({ w := w } : Ctx).conn c = cn := conn_of_conn? hc [] []
  unfold step
  simp only [hc]
  congr 1
  unfold handleLine
  simp only [hp, hcmd, hcn, hg, ha, Bool.not_false, Bool.and_self, if_true]
  rfl

/-- The handlers other than QUIT / KILL / DIE / SQUIT flag no connection, unless they say 464
    (a failed registration password closes the connection; a failed OPER password also says 464
    but closes nothing — for OPER use `processOper_frame`). -/
theorem dispatch_settled {cfg : Cfg} {w : World} {c : Nat} {cn : Conn} {msg : Message}
    {cmd : Command} (hI : Inv w) (hc : w.conn? c = some cn)
    (hg : cn.authenticated = true ∨ allowedUnregistered cmd = true)
    (hcmd : Command.fromMessage msg = .ok cmd)
    (hk : C05.mayKill cmd = false) (hq : C05.isQuit cmd = false)
    (h464 : ¬ C05.Said464 cfg (dispatch cfg c msg cmd { w := bumpCount w cmd.id.index })) :
    ∀ y ∈ (dispatch cfg c msg cmd { w := bumpCount w cmd.id.index }).w.conns,
      y.quit = false ∧ y.killedBy = none := by
  have hcn : ({ w := bumpCount w cmd.id.index } : Ctx).conn c = cn := conn_of_conn? hc [] []
  have hl : Live (bumpCount w cmd.id.index) c := ⟨cn, (Tear.conn?_some hc).1, (Tear.conn?_some hc).2⟩
  have hIx : InvCore ({ w := bumpCount w cmd.id.index } : Ctx).w := invCore_bumpCount hI.toInvCore _
  obtain ⟨hI', _⟩ := invCore_dispatch (cfg := cfg) (c := c) (msg := msg) hIx hl hcmd
    (by rw [hcn]; exact hg.symm)
  have E := C05.eff_dispatch (cfg := cfg) (c := c) (X := { w := bumpCount w cmd.id.index })
    (msg := msg) (cmd := cmd)
  intro y hy
  by_cases hid : y.id = c
  · obtain ⟨cn', hcn', hqq, hkk⟩ := E.self cn hc
    have : (dispatch cfg c msg cmd { w := bumpCount w cmd.id.index }).w.conn? y.id = some y :=
      Tear.conn?_of_mem hI'.connsNodup hy
    rw [hid, hcn'] at this
    cases this
    obtain ⟨h1, h2⟩ := hI.settled cn (Tear.conn?_some hc).1
    refine ⟨?_, (hkk hk).trans h2⟩
    rcases hqq with e | e | e
    · exact e.trans h1
    · rw [hq] at e; cases e
    · exact absurd e h464
  · obtain ⟨y0, hy0, _, hr⟩ := E.conns y hy
    have := (hr hid).2 hk
    subst this
    exact hI.settled y0 hy0


/-! ## 3. per-command facts -/

/-- the registered user behind an authenticated connection -/
theorem own_user {w : World} {c : Nat} {cn : Conn} {n : Str} (hI : InvCore w)
    (hc : w.conn? c = some cn) (ha : cn.authenticated = true) (hn : cn.nick = some n) :
    ∃ u, Map.lookup n w.users = some u ∧ u.owner = c := by
  obtain ⟨hm, hid⟩ := Tear.conn?_some hc
  obtain ⟨n', u, hn', hu, ho⟩ := hI.authOwns cn hm ha
  rw [hn] at hn'; cases hn'
  exact ⟨u, hu, ho.trans hid⟩

/-- another user's queue belongs to another connection -/
theorem owner_ne_self {w : World} {c : Nat} {cn : Conn} {n m : Str} {um : User} (hI : InvCore w)
    (hc : w.conn? c = some cn) (ha : cn.authenticated = true) (hn : cn.nick = some n)
    (hm : Map.lookup m w.users = some um) (hne : m ≠ n) : um.owner ≠ c := by
  obtain ⟨u, hu, ho⟩ := own_user hI hc ha hn
  intro e
  exact hne (Msg.owner_injective hI.connsNodup
    (fun k uk h => by
      obtain ⟨cn', h1, h2, _, h3⟩ := hI.userOwned k uk h
      exact ⟨cn', h1, h2, h3⟩) hm hu (e.trans ho.symm))

theorem dedup_single (t : Str) : dedup [t] = [t] := by simp [dedup]

/-- PRIVMSG / NOTICE with ONE target is `privmsgTarget` of that target -/
theorem ppn_single (cfg : Cfg) (c : Nat) (t text : Str) (notice : Bool) (x : Ctx) (n : Str)
    (hn : (x.conn c).nick = some n) (hu : Map.contains n x.w.users = true)
    (hw : (privmsgTarget cfg c n notice text t x).1.w = x.w) :
    processPrivmsgNotice cfg c [t] text notice x = (privmsgTarget cfg c n notice text t x).1 := by
  rw [Msg.processPrivmsgNotice_eq]
  simp only [hn, dedup_single, List.foldl_cons, List.foldl_nil, Msg.pmStep, hw, hu]
  simp

/-- PRIVMSG / NOTICE to ONE existing channel (plain target), at the level of the handler -/
theorem privmsg_chan_handler (cfg : Cfg) (c : Nat) (n ch text : Str) (notice : Bool) (x : Ctx)
    (C : Channel) (hI : InvCore x.w) (hn : (x.conn c).nick = some n)
    (hu : Map.contains n x.w.users = true) (hch : WfMsgChan ch)
    (hC : Map.lookup ch x.w.channels = some C) :
    (C10.Spec.maySpeak C n (x.conn c).source →
      (processPrivmsgNotice cfg c [ch] text notice x).w = x.w ∧
      (processPrivmsgNotice cfg c [ch] text notice x).direct = x.direct ∧
      (processPrivmsgNotice cfg c [ch] text notice x).queued =
        x.queued ++ ((Map.keys C.users).filter (· != n)).map (fun m =>
          (C01.Spec.ownerOf x.w m, C01.Spec.line (x.conn c).source notice ch text))) ∧
    (¬ C10.Spec.maySpeak C n (x.conn c).source →
      (processPrivmsgNotice cfg c [ch] text notice x).w = x.w ∧
      (processPrivmsgNotice cfg c [ch] text notice x).queued = x.queued ∧
      (processPrivmsgNotice cfg c [ch] text notice x).direct =
        x.direct ++ (if notice = true then []
          else [C10.Spec.err404 cfg (x.conn c).clientName ch])) := by
  have ht := hch.target
  have h1 : (getPrivmsgTargetType ch).1.channel = true := by rw [ht]; rfl
  have h2 : C01.Spec.plain (getPrivmsgTargetType ch).1 := by rw [ht]; exact ⟨rfl, rfl, rfl, rfl, rfl⟩
  have h3 : Map.lookup (getPrivmsgTargetType ch).2 x.w.channels = some C := by rw [ht]; exact hC
  have h4 : (getPrivmsgTargetType ch).2 = ch := by rw [ht]
  constructor
  · intro hs
    obtain ⟨q, hw, hd, _, _, _⟩ := C01.plain_channel_recipients cfg c n notice text ch x h1 h2 h3 hs
      (fun m hm => hI.memberIsUser ch C m hC hm) (hI.membersNodup ch C hC)
    rw [ppn_single cfg c ch text notice x n hn hu hw]
    exact ⟨hw, hd, q⟩
  · intro hs
    obtain ⟨q, hw, _, hd⟩ := C10.rejected_nobody_receives cfg c n notice text ch x h1 h3 hs
    rw [ppn_single cfg c ch text notice x n hn hu hw]
    rw [h4] at hd
    exact ⟨hw, q, hd⟩


theorem bumpCount_users (w : World) (i : Nat) : (bumpCount w i).users = w.users := rfl
theorem bumpCount_channels (w : World) (i : Nat) : (bumpCount w i).channels = w.channels := rfl

/-- the setting of the end-to-end theorems: a world satisfying the invariant, a live,
    authenticated connection `c` with record `cn`, registered under the nick `n` -/
structure Client (w : World) (c : Nat) (cn : Conn) (n : Str) : Prop where
  inv : Inv w
  live : w.conn? c = some cn
  auth : cn.authenticated = true
  nick : cn.nick = some n

theorem Client.clientName {w : World} {c : Nat} {cn : Conn} {n : Str} (h : Client w c cn n) :
    cn.clientName = n := by
  unfold Conn.clientName; rw [h.nick]

theorem Client.user {w : World} {c : Nat} {cn : Conn} {n : Str} (h : Client w c cn n) :
    ∃ u, Map.lookup n w.users = some u ∧ u.owner = c :=
  own_user h.inv.toInvCore h.live h.auth h.nick

/-- the members of `C` other than `n`, as recipients: no repetition, registered users, owned by
    pairwise different connections, none of them `c` -/
theorem others_facts {w : World} {c : Nat} {cn : Conn} {n : Str} (h : Client w c cn n)
    {ch : Str} {C : Channel} (hC : Map.lookup ch w.channels = some C) :
    ((Map.keys C.users).filter (· != n)).Nodup ∧
    (∀ m, m ∈ (Map.keys C.users).filter (· != n) ↔ (∃ r, Map.lookup m C.users = some r) ∧ m ≠ n) ∧
    (((Map.keys C.users).filter (· != n)).map (C01.Spec.ownerOf w)).Nodup ∧
    (∀ m ∈ (Map.keys C.users).filter (· != n), C01.Spec.ownerOf w m ≠ c) := by
  have hI := h.inv.toInvCore
  have hnd : ((Map.keys C.users).filter (· != n)).Nodup := (hI.membersNodup ch C hC).filter _
  have hmem := Msg.mem_plainRcpts C n
  have hk : ∀ m ∈ (Map.keys C.users).filter (· != n), ∃ u, Map.lookup m w.users = some u := by
    intro m hm
    obtain ⟨⟨r, hr⟩, _⟩ := (hmem m).mp hm
    exact (Map.contains_iff _ _).mp (hI.memberIsUser ch C m hC ((Map.contains_iff _ _).mpr ⟨r, hr⟩))
  refine ⟨hnd, hmem, C01.one_copy_per_connection_inv hI _ hnd hk, ?_⟩
  intro m hm
  obtain ⟨um, hum⟩ := hk m hm
  have : C01.Spec.ownerOf w m = um.owner := by simp [C01.Spec.ownerOf, hum]
  rw [this]
  exact owner_ne_self hI h.live h.auth h.nick hum ((hmem m).mp hm).2

/-- PRIVMSG / NOTICE `ch :text` through `step`, both verbs at once -/
theorem msg_step (cfg : Cfg) {w : World} {c : Nat} {cn : Conn} {n : Str} (h : Client w c cn n)
    (notice : Bool) {s : Str} {msg : Message} {ch : Str} (text : Str)
    (hp : Message.parse s = .ok msg)
    (hcmd : Command.fromMessage msg = .ok (if notice then .NOTICE [ch] text else .PRIVMSG [ch] text))
    (hch : WfMsgChan ch) {C : Channel} (hC : Map.lookup ch w.channels = some C) :
    (step cfg w (.line c s)).w =
      bumpCount w (if notice then CmdId.NOTICE.index else CmdId.PRIVMSG.index) ∧
    (step cfg w (.line c s)).events = [] ∧
    (C10.Spec.maySpeak C n cn.source →
      (step cfg w (.line c s)).outs = ((Map.keys C.users).filter (· != n)).map (fun m =>
        (C01.Spec.ownerOf w m, C01.Spec.line cn.source notice ch text))) ∧
    (¬ C10.Spec.maySpeak C n cn.source →
      (step cfg w (.line c s)).outs =
        if notice = true then [] else [(c, C10.Spec.err404 cfg n ch)]) := by
  have hI := h.inv
  obtain ⟨u, hu, _⟩ := h.user
  cases notice
  · simp only [Bool.false_eq_true, if_false] at hcmd ⊢
    have hx : ({ w := bumpCount w CmdId.PRIVMSG.index } : Ctx).conn c = cn := conn_of_conn? h.live [] []
    obtain ⟨hA, hB⟩ := privmsg_chan_handler cfg c n ch text false
      { w := bumpCount w CmdId.PRIVMSG.index } C (invCore_bumpCount hI.toInvCore _)
      (by rw [hx]; exact h.nick) ((Map.contains_iff _ _).mpr ⟨u, hu⟩) hch hC
    rw [hx] at hA hB
    rw [step_line_eq h.live (Or.inl h.auth) hp hcmd]
    have hd : dispatch cfg c msg (Command.PRIVMSG [ch] text)
        { w := bumpCount w (Command.PRIVMSG [ch] text).id.index } =
        processPrivmsgNotice cfg c [ch] text false { w := bumpCount w CmdId.PRIVMSG.index } := rfl
    rw [hd]
    by_cases hs : C10.Spec.maySpeak C n cn.source
    · obtain ⟨a1, a2, a3⟩ := hA hs
      rw [finish_of_settled _ _ _ (by rw [a1]; exact hI.settled), a1, a2, a3]
      refine ⟨rfl, rfl, fun _ => ?_, fun hn => absurd hs hn⟩
      simp [C01.Spec.ownerOf, bumpCount_users]
    · obtain ⟨a1, a2, a3⟩ := hB hs
      rw [finish_of_settled _ _ _ (by rw [a1]; exact hI.settled), a1, a2, a3]
      refine ⟨rfl, rfl, fun hn => absurd hn hs, fun _ => ?_⟩
      simp [h.clientName]
  · simp only [if_true] at hcmd ⊢
    have hx : ({ w := bumpCount w CmdId.NOTICE.index } : Ctx).conn c = cn := conn_of_conn? h.live [] []
    obtain ⟨hA, hB⟩ := privmsg_chan_handler cfg c n ch text true
      { w := bumpCount w CmdId.NOTICE.index } C (invCore_bumpCount hI.toInvCore _)
      (by rw [hx]; exact h.nick) ((Map.contains_iff _ _).mpr ⟨u, hu⟩) hch hC
    rw [hx] at hA hB
    rw [step_line_eq h.live (Or.inl h.auth) hp hcmd]
    have hd : dispatch cfg c msg (Command.NOTICE [ch] text)
        { w := bumpCount w (Command.NOTICE [ch] text).id.index } =
        processPrivmsgNotice cfg c [ch] text true { w := bumpCount w CmdId.NOTICE.index } := rfl
    rw [hd]
    by_cases hs : C10.Spec.maySpeak C n cn.source
    · obtain ⟨a1, a2, a3⟩ := hA hs
      rw [finish_of_settled _ _ _ (by rw [a1]; exact hI.settled), a1, a2, a3]
      refine ⟨rfl, rfl, fun _ => ?_, fun hn => absurd hs hn⟩
      simp [C01.Spec.ownerOf, bumpCount_users]
    · obtain ⟨a1, a2, a3⟩ := hB hs
      rw [finish_of_settled _ _ _ (by rw [a1]; exact hI.settled), a1, a2, a3]
      refine ⟨rfl, rfl, fun hn => absurd hn hs, fun _ => ?_⟩
      simp


/-! ### JOIN -/

/-- the error lines (without the `:server ` prefix) of a refused single-channel JOIN: the first
    failing channel-level condition (475 / 474 / 473 / 471), then 405 if the quota is exhausted -/
def joinErrs (cfg : Cfg) (R : C07.Spec.Request) (client : Str) (cnt : Nat) : List Str :=
  (match C07.Spec.admit R with
   | .ok _ => []
   | .error e => [e.line client R.chname]) ++
  (if C07.Spec.quotaOk cfg cnt then [] else [C07.Spec.Refusal.tooMany.line client R.chname])

theorem joinErrs_ne_nil (cfg : Cfg) (R : C07.Spec.Request) (client : Str) (cnt : Nat)
    (h : ¬ (C07.Spec.admit R = .ok () ∧ C07.Spec.quotaOk cfg cnt = true)) :
    joinErrs cfg R client cnt ≠ [] := by
  unfold joinErrs
  cases ha : C07.Spec.admit R with
  | error e => simp
  | ok u =>
    cases u
    cases hq : C07.Spec.quotaOk cfg cnt with
    | false => simp
    | true => exact absurd ⟨ha, hq⟩ h

theorem keyList_single (k : Option Str) : (C07.keyList (k.map (fun x => [x]))).head?.join = k := by
  cases k <;> rfl

/-- a refused JOIN of ONE existing channel by a non-member, at the level of the handler -/
theorem join_refused_handler (cfg : Cfg) (c : Nat) (ch : Str) (keys : Option (List Str)) (x : Ctx)
    (n : Str) (u : User) (C : Channel)
    (hn : (x.conn c).nick = some n) (hu : Map.lookup n x.w.users = some u)
    (hC : Map.lookup ch x.w.channels = some C) (hnm : Map.contains n C.users = false)
    (href : ¬ (C07.Spec.admit (C07.Spec.Request.mk C ch (C07.keyList keys).head?.join
        (x.conn c).source u.invitedTo) = .ok () ∧
      C07.Spec.quotaOk cfg u.channels.length = true)) :
    (processJoin cfg c [ch] keys x).w = x.w ∧ (processJoin cfg c [ch] keys x).queued = x.queued ∧
    (processJoin cfg c [ch] keys x).direct = x.direct ++
      (joinErrs cfg (C07.Spec.Request.mk C ch (C07.keyList keys).head?.join (x.conn c).source
        u.invitedTo) (x.conn c).clientName u.channels.length).map (C07.srvLine cfg) := by
  have hj : (C07.Spec.decideOne cfg x.w (x.conn c).source n (x.conn c).clientName u.invitedTo ch
      (C07.keyList keys).head?.join u.channels.length).join = false := by
    cases hj : (C07.Spec.decideOne cfg x.w (x.conn c).source n (x.conn c).clientName u.invitedTo ch
      (C07.keyList keys).head?.join u.channels.length).join with
    | false => rfl
    | true => exact absurd ((C07.join_iff cfg x.w _ n _ _ ch _ _ C hC hnm).mp hj) href
  have hdec : joinDecide cfg x.w (x.conn c) n u.invitedTo [ch] (C07.keyList keys)
      u.channels.length =
      ([(false, false)], joinErrs cfg (C07.Spec.Request.mk C ch (C07.keyList keys).head?.join
        (x.conn c).source u.invitedTo) (x.conn c).clientName u.channels.length,
        u.channels.length) := by
    rw [C07.joinDecide_cons]
    simp only [C07.joinDecide_nil, hj]
    cases hadm : C07.Spec.admit (C07.Spec.Request.mk C ch (C07.keyList keys).head?.join
        (x.conn c).source u.invitedTo) <;>
      simp [C07.Spec.decideOne, C07.Spec.chanErrs, hC, joinErrs, hadm]
  obtain ⟨h1, h2, h3, _⟩ := C07.processJoin_all_refused cfg c [ch] keys x n u hn hu
    (by rw [hdec]; simp)
  rw [hdec] at h3
  exact ⟨h1, h2, h3⟩

/-- `JOIN ch [key]` of ONE existing channel by a non-member, through `step` -/
theorem join_step (cfg : Cfg) {w : World} {c : Nat} {cn : Conn} {n : Str} (h : Client w c cn n)
    {s : Str} {msg : Message} {ch : Str} (keyOpt : Option Str)
    (hp : Message.parse s = .ok msg)
    (hcmd : Command.fromMessage msg = .ok (.JOIN [ch] (keyOpt.map (fun k => [k]))))
    {C : Channel} {u : User} (hC : Map.lookup ch w.channels = some C)
    (hu : Map.lookup n w.users = some u) (hnm : Map.contains n C.users = false) :
    (C07.Spec.admit (C07.Spec.Request.mk C ch keyOpt cn.source u.invitedTo) = .ok () ∧
        C07.Spec.quotaOk cfg u.channels.length = true →
      (step cfg w (.line c s)).w =
        { bumpCount w CmdId.JOIN.index with
          users := Map.modify n (C07.userJoined ch) w.users
          channels := Map.insert ch (C.addUser n) w.channels } ∧
      (step cfg w (.line c s)).events = [] ∧
      ∃ burst : List Str, (step cfg w (.line c s)).outs =
        (c, C07.joinLine cn.source ch) :: burst.map (fun l => (c, l)) ++
          (Map.keys C.users).map (fun m => (C01.Spec.ownerOf w m, C07.joinLine cn.source ch))) ∧
    (¬ (C07.Spec.admit (C07.Spec.Request.mk C ch keyOpt cn.source u.invitedTo) = .ok () ∧
        C07.Spec.quotaOk cfg u.channels.length = true) →
      (step cfg w (.line c s)).w = bumpCount w CmdId.JOIN.index ∧
      (step cfg w (.line c s)).events = [] ∧
      (step cfg w (.line c s)).outs =
        (joinErrs cfg (C07.Spec.Request.mk C ch keyOpt cn.source u.invitedTo) n
          u.channels.length).map (fun e => (c, C07.srvLine cfg e))) := by
  have hI := h.inv
  have hx : ({ w := bumpCount w CmdId.JOIN.index } : Ctx).conn c = cn := conn_of_conn? h.live [] []
  have hd : dispatch cfg c msg (Command.JOIN [ch] (keyOpt.map (fun k => [k])))
      { w := bumpCount w (Command.JOIN [ch] (keyOpt.map (fun k => [k]))).id.index } =
      processJoin cfg c [ch] (keyOpt.map (fun k => [k])) { w := bumpCount w CmdId.JOIN.index } := rfl
  rw [step_line_eq h.live (Or.inl h.auth) hp hcmd, hd]
  constructor
  · rintro ⟨hadm, hq⟩
    obtain ⟨a1, a2, a3⟩ := C07.processJoin_single_accepted cfg c ch (keyOpt.map (fun k => [k]))
      { w := bumpCount w CmdId.JOIN.index } n u C (by rw [hx]; exact h.nick) hu hC hnm
      (by rw [keyList_single, hx]; exact hadm) hq
      (fun m hm => hI.memberIsUser ch C m hC ((Map.contains_iff _ _).mpr ((Map.mem_keys_iff _ _).mp hm)))
    rw [finish_of_settled _ _ _ (by rw [a1]; exact hI.settled)]
    refine ⟨a1, rfl, (processJoin cfg c [ch] (keyOpt.map (fun k => [k]))
      { w := bumpCount w CmdId.JOIN.index }).direct.tail, ?_⟩
    show List.map _ _ ++ _ = _
    rw [a3, a2, hx]
    simp only [List.nil_append, List.map_cons, List.cons_append, List.tail_cons]
    rfl
  · intro href
    obtain ⟨a1, a2, a3⟩ := join_refused_handler cfg c ch (keyOpt.map (fun k => [k]))
      { w := bumpCount w CmdId.JOIN.index } n u C (by rw [hx]; exact h.nick) hu hC hnm
      (by rw [keyList_single, hx]; exact href)
    rw [finish_of_settled _ _ _ (by rw [a1]; exact hI.settled), a1, a2, a3, keyList_single, hx,
      h.clientName]
    refine ⟨rfl, rfl, ?_⟩
    simp


/-! ### the registration gate -/

/-- a well-formed command outside the pre-registration list on an unauthenticated live
    connection, through `step` (from `C03.gate`): one 451 line, only the counter changes -/
theorem gate_step (cfg : Cfg) {w : World} {c : Nat} {cn : Conn} {s : Str} {msg : Message}
    {cmd : Command} (hI : Inv w) (hc : w.conn? c = some cn) (ha : cn.authenticated = false)
    (hp : Message.parse s = .ok msg) (hcmd : Command.fromMessage msg = .ok cmd)
    (hg : allowedUnregistered cmd = false) :
    step cfg w (.line c s) =
      { w := bumpCount w cmd.id.index, outs := [(c, C03.line451 cfg.name cn)], events := [] } := by
  have hcn : ({ w := w } : Ctx).conn c = cn := conn_of_conn? hc [] []
  obtain ⟨g1, g2, g3, _⟩ := C03.gate cfg { w := w } c s msg cmd (by rw [hcn]; exact ha) hp hcmd hg
  have hst : step cfg w (.line c s) = finish cfg c (handleLine cfg c s { w := w }) := by
    unfold step; simp only [hc]
  rw [hst, finish_of_settled _ _ _ (by rw [g3]; exact hI.settled), g1, g2, g3, hcn]
  rfl

/-! ### NICK -/

/-- `NICK new` by a registered user, through `step` -/
theorem nick_step (cfg : Cfg) {w : World} {c : Nat} {cn : Conn} {n : Str} (h : Client w c cn n)
    {s v new : Str} (hp : Message.parse s = .ok ⟨none, v, [new]⟩)
    (hcmd : Command.fromMessage ⟨none, v, [new]⟩ = .ok (.NICK new)) (hnew : WfNick new)
    (hne : new ≠ n) {u : User} (hu : Map.lookup n w.users = some u) :
    (Map.contains new w.users = false →
      C15.IdentityMoved n new u (C15.sourceOf new cn.name cn.hostname) c
        (bumpCount w CmdId.NICK.index) (step cfg w (.line c s)).w ∧
      (step cfg w (.line c s)).events = [] ∧
      (step cfg w (.line c s)).outs = (Map.keys (step cfg w (.line c s)).w.users).map (fun m =>
        (ownerOf (step cfg w (.line c s)).w m, ':' :: (cn.source ++ ' ' :: (v ++ ' ' :: new)))) ∧
      (Map.keys (step cfg w (.line c s)).w.users).Nodup) ∧
    (Map.contains new w.users = true →
      (step cfg w (.line c s)).w = bumpCount w CmdId.NICK.index ∧
      (step cfg w (.line c s)).events = [] ∧
      (step cfg w (.line c s)).outs =
        [(c, str ":" ++ cfg.name ++ str " 433 " ++ n ++ str " " ++ new ++
          str " :Nickname is already in use")]) := by
  have hI := h.inv
  have hx : ({ w := bumpCount w CmdId.NICK.index } : Ctx).conn c = cn := conn_of_conn? h.live [] []
  have hR : C15.Registered ({ w := bumpCount w CmdId.NICK.index } : Ctx) c n u :=
    ⟨by rw [hx]; exact h.auth, by rw [hx]; exact h.nick, hu, invCore_bumpCount hI.toInvCore _⟩
  have hd : dispatch cfg c ⟨none, v, [new]⟩ (Command.NICK new)
      { w := bumpCount w (Command.NICK new).id.index } =
      processNick cfg c new ⟨none, v, [new]⟩ { w := bumpCount w CmdId.NICK.index } := rfl
  have hst := step_line_eq (cfg := cfg) h.live (Or.inl h.auth) hp hcmd
  constructor
  · intro hfree
    have hm := C15.nick_moves_identity (cfg := cfg) (msg := ⟨none, v, [new]⟩) hR hne hfree
    obtain ⟨a1, a2, a3⟩ := C15.nick_announced (cfg := cfg) (msg := ⟨none, v, [new]⟩) hR hne hfree
    have hs := dispatch_settled (cfg := cfg) (msg := ⟨none, v, [new]⟩) hI h.live (Or.inl h.auth)
      hcmd rfl rfl (by
        rw [hd]
        rintro ⟨cl, hcl⟩
        rw [a3] at hcl
        cases hcl)
    rw [hst, finish_of_settled _ _ _ hs, hd]
    refine ⟨?_, rfl, ?_, a2⟩
    · have : C15.newSource ({ w := bumpCount w CmdId.NICK.index } : Ctx) c new =
          C15.sourceOf new cn.name cn.hostname := by unfold C15.newSource; rw [hx]
      rw [← this]; exact hm
    · show List.map _ _ ++ _ = _
      rw [a3, a1, hx]
      simp only [List.map_nil, List.nil_append]
      apply List.map_congr_left
      intro m _
      simp [Message.render, hnew.renderParams]
  · intro hused
    obtain ⟨b1, b2, b3⟩ := C15.nick_refused (cfg := cfg) (msg := ⟨none, v, [new]⟩) hR hne hused
    rw [hst, hd, finish_of_settled _ _ _ (by rw [b1]; exact hI.settled), b1, b2, b3]
    exact ⟨rfl, rfl, rfl⟩

/-! ### OPER -/

/-- `OPER name pw` by a registered user, through `step` -/
theorem oper_step (cfg : Cfg) {w : World} {c : Nat} {cn : Conn} {n : Str} (h : Client w c cn n)
    {s : Str} {msg : Message} {name pw : Str} (hp : Message.parse s = .ok msg)
    (hcmd : Command.fromMessage msg = .ok (.OPER name pw)) {u : User}
    (hu : Map.lookup n w.users = some u) :
    (step cfg w (.line c s)).events = [] ∧
    (C11.OperGranted cfg cn.source name pw →
      (step cfg w (.line c s)).outs =
        [(c, ':' :: (cfg.name ++ ' ' :: RplYoureOper381 n))] ∧
      Map.lookup n (step cfg w (.line c s)).w.users =
        some { u with modes := { u.modes with oper := true } }) ∧
    (¬ C11.OperGranted cfg cn.source name pw →
      (step cfg w (.line c s)).w = bumpCount w CmdId.OPER.index ∧
      (step cfg w (.line c s)).outs = [(c, ':' :: (cfg.name ++ ' ' ::
        (if (∃ op, cfg.findOper name = some op ∧ cfg.pwOk pw op.password = false)
         then ErrPasswdMismatch464 n else ErrNoOperHost491 n)))]) ∧
    (C11.operOf (step cfg w (.line c s)).w n = true ↔
      (u.modes.oper = true ∨ C11.OperGranted cfg cn.source name pw)) ∧
    (∀ m, m ≠ n → Map.lookup m (step cfg w (.line c s)).w.users = Map.lookup m w.users) ∧
    (step cfg w (.line c s)).w.channels = w.channels ∧
    (step cfg w (.line c s)).w.conns = w.conns := by
  have hI := h.inv
  have hx : ({ w := bumpCount w CmdId.OPER.index } : Ctx).conn c = cn := conn_of_conn? h.live [] []
  have hd : dispatch cfg c msg (Command.OPER name pw)
      { w := bumpCount w (Command.OPER name pw).id.index } =
      processOper cfg c name pw { w := bumpCount w CmdId.OPER.index } := rfl
  obtain ⟨f1, f2, f3, _⟩ := C11.processOper_frame cfg c name pw { w := bumpCount w CmdId.OPER.index }
  obtain ⟨o1, o2, o3, _, o5, _⟩ := C11.oper_spec cfg c name pw { w := bumpCount w CmdId.OPER.index }
    n u (by rw [hx]; exact h.nick) hu
  rw [hx] at o1 o2 o3
  rw [h.clientName] at o1 o2
  rw [step_line_eq h.live (Or.inl h.auth) hp hcmd, hd,
    finish_of_settled _ _ _ (by rw [f2]; exact hI.settled)]
  refine ⟨rfl, ?_, ?_, o3, o5, f3, f2⟩
  · intro hg
    obtain ⟨d1, d2⟩ := o1 hg
    refine ⟨?_, d2⟩
    show List.map _ _ ++ _ = _
    rw [d1, f1]; rfl
  · intro hg
    have e := o2 hg
    refine ⟨?_, ?_⟩
    · show (processOper cfg c name pw _).w = _
      rw [e]; rfl
    · show List.map _ (processOper cfg c name pw _).direct ++ (processOper cfg c name pw _).queued = _
      rw [e]; rfl


/-! ### KICK (single victim), re-derived from `processKick`

`Irc.Props.C09` cannot be imported next to `Irc.Props.C15` (both define `Irc.ownerOf`), so the
single-victim case is proved here directly; `kickable` is `C09.Spec.kickable` verbatim. -/

/-- who may kick whom, in the words of the statement of C09 -/
def kickable (actor victim : ChanUserModes) : Bool :=
  -- issued by a member ranked half-operator or above
  (actor.founder || actor.prot || actor.operator || actor.halfOper) &&
  -- never removes a founder or protected member
  !(victim.founder || victim.prot) &&
  -- a mere half-operator cannot remove half-operators or above
  !((actor.halfOper && !actor.founder && !actor.prot && !actor.operator) &&
    (victim.founder || victim.prot || victim.operator || victim.halfOper))

theorem kickable_model (chum vm : ChanUserModes) (hH : chum.isHalfOperator = true) :
    (!vm.isProtected && (!vm.isHalfOperator || !chum.isOnlyHalfOperator)) = kickable chum vm := by
  obtain ⟨aq, aa, av, ao, ah⟩ := chum
  obtain ⟨mq, ma, mv, mo, mh⟩ := vm
  simp only [ChanUserModes.isHalfOperator] at hH
  simp only [kickable, ChanUserModes.isProtected, ChanUserModes.isHalfOperator,
    ChanUserModes.isOnlyHalfOperator]
  revert hH
  cases aq <;> cases aa <;> cases ao <;> cases ah <;> cases mq <;> cases ma <;> cases mo <;>
    cases mh <;> decide

theorem kickable_halfOp {chum vm : ChanUserModes} (h : kickable chum vm = true) :
    chum.isHalfOperator = true := by
  unfold kickable at h
  simp only [Bool.and_eq_true] at h
  exact h.1.1

/-- the KICK line as the clients see it -/
def kickLine (source ch v comment : Str) : Str :=
  str ":" ++ source ++ str " KICK " ++ ch ++ str " " ++ v ++ str " :" ++ comment

/-- the one error reply of a refused single-victim KICK on an existing channel `C`:
    442 issuer not on the channel, 482 issuer below half-operator, 441 victim not on the channel,
    972 victim may not be kicked by this issuer -/
def kickErr (client ch v n : Str) (C : Channel) : Str :=
  match Map.lookup n C.users with
  | none => ErrNotOnChannel442 client ch
  | some chum =>
    if chum.isHalfOperator then
      (match Map.lookup v C.users with
       | none => ErrUserNotInChannel441 client v ch
       | some _ => ErrCannotDoCommand972 client)
    else ErrChanOpPrivsNeeded482 client ch

theorem lookup_modify_owner (v : Str) (f : User → User) (hf : ∀ u, (f u).owner = u.owner)
    (users : Map User) (m : Str) :
    (Map.lookup m (Map.modify v f users)).map (·.owner) = (Map.lookup m users).map (·.owner) := by
  rw [Map.lookup_modify]
  split
  · cases Map.lookup m users <;> simp [hf]
  · rfl

theorem kick_ok_handler (cfg : Cfg) (c : Nat) (ch v comment : Str) (x : Ctx) (n : Str)
    (C : Channel) (chum vm : ChanUserModes)
    (hn : (x.conn c).nick = some n) (hC : Map.lookup ch x.w.channels = some C)
    (ha : Map.lookup n C.users = some chum) (hv : Map.lookup v C.users = some vm)
    (hk : kickable chum vm = true)
    (hmem : ∀ m, Map.contains m C.users = true → Map.contains m x.w.users = true) :
    (processKick cfg c ch [v] (some comment) x).w = x.w.removeUserFromChannel ch v ∧
    (processKick cfg c ch [v] (some comment) x).direct = x.direct ∧
    (processKick cfg c ch [v] (some comment) x).queued = x.queued ++
      ((Map.keys C.users).filter (· != v) ++ [v]).map (fun m =>
        (C01.Spec.ownerOf x.w m, kickLine (x.conn c).source ch v comment)) := by
  have hH := kickable_halfOp hk
  have hcond : (!vm.isProtected && (!vm.isHalfOperator || !chum.isOnlyHalfOperator)) = true := by
    rw [kickable_model chum vm hH]; exact hk
  have hvc : Map.contains v C.users = true := (Map.contains_iff _ _).mpr ⟨vm, hv⟩
  have hsel : kickSelect (x.conn c).clientName ch C chum.isOnlyHalfOperator [v] [] = ([v], []) := by
    simp [kickSelect, hv, hcond]
  have hw1 := Tear.removeUserFromChannel_eq' x.w ch v C hC hvc
  -- the members remaining on the channel after the removal
  have hlk : Map.lookup ch (x.w.removeUserFromChannel ch v).channels = Tear.chanDrop v C := by
    rw [hw1]
    show Map.lookup ch (Tear.chansAfterDrop ch v C x.w.channels) = _
    rw [Tear.lookup_chansAfterDrop, if_pos rfl]
  have hke : Map.keys (Tear.chanWithout C v).users = (Map.keys C.users).filter (· != v) :=
    Map.keys_erase v C.users
  have hknown : ∀ m ∈ (Map.keys C.users).filter (· != v) ++ [v],
      Map.contains m (x.w.removeUserFromChannel ch v).users = true := by
    intro m hm
    have hmC : Map.contains m C.users = true := by
      rcases List.mem_append.mp hm with hm | hm
      · exact (Map.contains_iff _ _).mpr ((Map.mem_keys_iff _ _).mp (List.mem_filter.mp hm).1)
      · rw [List.mem_singleton.mp hm]; exact hvc
    obtain ⟨um, hum⟩ := (Map.contains_iff _ _).mp (hmem m hmC)
    rw [hw1]
    show Map.contains m (Map.modify v _ x.w.users) = true
    rw [Map.contains_iff, Map.lookup_modify]
    split
    · exact ⟨_, by rw [hum]; rfl⟩
    · exact ⟨um, hum⟩
  have hfold : processKick cfg c ch [v] (some comment) x =
      (((Map.keys C.users).filter (· != v) ++ [v]).foldl (fun y m =>
        y.sendDisplay m (x.conn c).source
          (str "KICK " ++ ch ++ [' '] ++ v ++ str " :" ++ comment))
        (x.modifyW (fun w => w.removeUserFromChannel ch v))) := by
    unfold processKick
    simp only [hn, hC, ha, hH, if_true, hsel, List.foldl_nil, List.foldl_cons, Ctx.modifyW_w,
      Option.getD_some, List.foldl_append, hlk]
    cases hcd : Tear.chanDrop v C with
    | none =>
      have : (Map.keys C.users).filter (· != v) = [] := by
        unfold Tear.chanDrop at hcd
        split at hcd
        · rename_i he
          simp only [Bool.and_eq_true] at he
          rw [← hke, List.isEmpty_iff.mp he.1]; rfl
        · cases hcd
      rw [this]
    | some C' =>
      have : C' = Tear.chanWithout C v := (Tear.chanDrop_some hcd).1
      subst this
      simp only [hke]
  rw [hfold]
  refine ⟨?_, ?_, ?_⟩
  · rw [Msg.foldl_send_w_of_known _ _ _ _ hknown]; rfl
  · rw [Msg.foldl_send_direct]; rfl
  · rw [Msg.foldl_send_queued]
    show x.queued ++ _ = _
    congr 1
    have hline : (':' :: ((x.conn c).source ++ ' ' :: (str "KICK " ++ ch ++ [' '] ++ v ++ str " :" ++
        comment))) = kickLine (x.conn c).source ch v comment := by
      simp [kickLine, str]
    rw [hline]
    apply Msg.deliver_eq_map
    intro m hm
    obtain ⟨um, hum⟩ := (Map.contains_iff _ _).mp (hknown m hm)
    refine ⟨um, hum, ?_⟩
    have ho := lookup_modify_owner v (fun u => { u with channels := KSet.erase ch u.channels })
      (fun _ => rfl) x.w.users m
    have hum' : Map.lookup m (Map.modify v (fun u => { u with channels := KSet.erase ch u.channels })
        x.w.users) = some um := by
      have := hum
      rw [hw1] at this
      exact this
    rw [hum'] at ho
    simp only [C01.Spec.ownerOf]
    cases hl : Map.lookup m x.w.users with
    | none => rw [hl] at ho; cases ho
    | some u0 => rw [hl] at ho; simpa using ho

theorem kick_refused_handler (cfg : Cfg) (c : Nat) (ch v comment : Str) (x : Ctx) (n : Str)
    (C : Channel) (hn : (x.conn c).nick = some n) (hC : Map.lookup ch x.w.channels = some C)
    (href : ¬ ∃ chum vm, Map.lookup n C.users = some chum ∧ Map.lookup v C.users = some vm ∧
      kickable chum vm = true) :
    processKick cfg c ch [v] (some comment) x =
      x.reply cfg (kickErr (x.conn c).clientName ch v n C) := by
  unfold processKick kickErr
  simp only [hn, hC]
  cases ha : Map.lookup n C.users with
  | none => rfl
  | some chum =>
    cases hH : chum.isHalfOperator with
    | false => simp [hH]
    | true =>
      simp only [hH, if_true]
      cases hv : Map.lookup v C.users with
      | none => simp [kickSelect, hv]; rfl
      | some vm =>
        have hcond : (!vm.isProtected && (!vm.isHalfOperator || !chum.isOnlyHalfOperator)) = false := by
          rw [kickable_model chum vm hH]
          cases hk : kickable chum vm with
          | false => rfl
          | true => exact absurd ⟨chum, vm, ha, hv, hk⟩ href
        simp [kickSelect, hv, hcond]; rfl

/-- `KICK ch v :comment` on an existing channel, through `step` -/
theorem kick_step (cfg : Cfg) {w : World} {c : Nat} {cn : Conn} {n : Str} (h : Client w c cn n)
    {s : Str} {msg : Message} {ch v comment : Str} (hp : Message.parse s = .ok msg)
    (hcmd : Command.fromMessage msg = .ok (.KICK ch [v] (some comment)))
    {C : Channel} (hC : Map.lookup ch w.channels = some C) :
    ((∃ chum vm, Map.lookup n C.users = some chum ∧ Map.lookup v C.users = some vm ∧
        kickable chum vm = true) →
      (step cfg w (.line c s)).w = (bumpCount w CmdId.KICK.index).removeUserFromChannel ch v ∧
      (step cfg w (.line c s)).events = [] ∧
      (step cfg w (.line c s)).outs = ((Map.keys C.users).filter (· != v) ++ [v]).map (fun m =>
        (C01.Spec.ownerOf w m, kickLine cn.source ch v comment))) ∧
    ((¬ ∃ chum vm, Map.lookup n C.users = some chum ∧ Map.lookup v C.users = some vm ∧
        kickable chum vm = true) →
      (step cfg w (.line c s)).w = bumpCount w CmdId.KICK.index ∧
      (step cfg w (.line c s)).events = [] ∧
      (step cfg w (.line c s)).outs = [(c, C07.srvLine cfg (kickErr n ch v n C))]) := by
  have hI := h.inv
  have hx : ({ w := bumpCount w CmdId.KICK.index } : Ctx).conn c = cn := conn_of_conn? h.live [] []
  have hd : dispatch cfg c msg (Command.KICK ch [v] (some comment))
      { w := bumpCount w (Command.KICK ch [v] (some comment)).id.index } =
      processKick cfg c ch [v] (some comment) { w := bumpCount w CmdId.KICK.index } := rfl
  rw [step_line_eq h.live (Or.inl h.auth) hp hcmd, hd]
  constructor
  · rintro ⟨chum, vm, ha, hv, hk⟩
    obtain ⟨a1, a2, a3⟩ := kick_ok_handler cfg c ch v comment { w := bumpCount w CmdId.KICK.index }
      n C chum vm (by rw [hx]; exact h.nick) hC ha hv hk
      (fun m hm => hI.memberIsUser ch C m hC hm)
    have hconns : ((bumpCount w CmdId.KICK.index).removeUserFromChannel ch v).conns = w.conns :=
      C05.rufc_conns _ _ _
    rw [finish_of_settled _ _ _ (by rw [a1]; show ∀ y ∈ ((bumpCount w CmdId.KICK.index).removeUserFromChannel ch v).conns, _; rw [hconns]; exact hI.settled)]
    refine ⟨a1, rfl, ?_⟩
    show List.map _ _ ++ _ = _
    rw [a2, a3, hx]
    simp [C01.Spec.ownerOf, bumpCount_users]
  · intro href
    have e := kick_refused_handler cfg c ch v comment { w := bumpCount w CmdId.KICK.index } n C
      (by rw [hx]; exact h.nick) hC href
    rw [e, finish_of_settled _ _ _ (by exact hI.settled), hx, h.clientName]
    exact ⟨rfl, rfl, rfl⟩


/-! ### small facts used by the final statements -/

/-- `bumpCount` touches nothing but `cmdCounts` -/
theorem bumpCount_frame (w : World) (i : Nat) :
    (bumpCount w i).users = w.users ∧ (bumpCount w i).channels = w.channels ∧
    (bumpCount w i).wallops = w.wallops ∧ (bumpCount w i).invisibleCount = w.invisibleCount ∧
    (bumpCount w i).operatorsCount = w.operatorsCount ∧ (bumpCount w i).maxUsers = w.maxUsers ∧
    (bumpCount w i).histories = w.histories ∧ (bumpCount w i).conns = w.conns ∧
    (bumpCount w i).connsCount = w.connsCount ∧ (bumpCount w i).srvQuit = w.srvQuit ∧
    (bumpCount w i).panicked = w.panicked ∧
    (bumpCount w i).cmdCounts = w.cmdCounts.set i (w.cmdCounts.getD i 0 + 1) :=
  ⟨rfl, rfl, rfl, rfl, rfl, rfl, rfl, rfl, rfl, rfl, rfl, rfl⟩

theorem nodup_of_nodup_map {α β : Type} (f : α → β) : ∀ l : List α, (l.map f).Nodup → l.Nodup
  | [], _ => List.nodup_nil
  | a :: l, h => by
    rw [List.map_cons, List.nodup_cons] at h
    rw [List.nodup_cons]
    exact ⟨fun ha => h.1 (List.mem_map.mpr ⟨a, ha, rfl⟩), nodup_of_nodup_map f l h.2⟩

/-- "exactly once": in `direct lines to c ++ one line per member`, the line of a member owned by
    another connection occurs exactly once -/
theorem count_delivery (c : Nat) (jl : Str) (direct : List Str) (members : List Str)
    (owner : Str → Nat) (hnd : (members.map owner).Nodup) (hne : ∀ m ∈ members, owner m ≠ c)
    (m : Str) (hm : m ∈ members) :
    (direct.map (fun l => (c, l)) ++ members.map (fun m => (owner m, jl))).count (owner m, jl) = 1 := by
  have h1 : (owner m, jl) ∉ direct.map (fun l => (c, l)) := by
    intro h
    obtain ⟨l, _, hl⟩ := List.mem_map.mp h
    exact hne m hm (congrArg Prod.fst hl).symm
  have h2 : (members.map (fun m => (owner m, jl))).Nodup := by
    apply nodup_of_nodup_map Prod.fst
    rw [List.map_map]
    exact hnd
  rw [List.count_append, List.count_eq_zero.mpr h1, h2.count, if_pos (List.mem_map.mpr ⟨m, hm, rfl⟩)]

/-- the relayed PRIVMSG / NOTICE line is `C13.relayLine` of the `format!` text of the handler -/
theorem line_eq_relay (src : Str) (notice : Bool) (ch text : Str) :
    C01.Spec.line src notice ch text =
      C13.relayLine src ((if notice then str "NOTICE " else str "PRIVMSG ") ++ ch ++ str " :" ++ text) := by
  cases notice <;> simp [C01.Spec.line, C13.relayLine, Msg.str_colon, Msg.str_spNOTICE, Msg.str_spPRIVMSG]

/-- receiver side: the relayed line re-parses to the sender's source, the verb, the channel and
    the text exactly as sent (any text) -/
theorem relayed_parse (notice : Bool) {src ch : Str} (text : Str)
    (hs : C13.wellFormedSource src = true) (hch : WfChan ch) :
    Message.parse (C01.Spec.line src notice ch text) =
      .ok ⟨some src, if notice then str "NOTICE" else str "PRIVMSG", [ch, text]⟩ := by
  rw [line_eq_relay]
  exact C13.relay_privmsg_notice notice src ch text hs (C13.bools_of_word ch hch.word)

/-- `remove_user_from_channel` of a member, spelled out -/
theorem rufc_effect (w : World) (ch v : Str) (C : Channel)
    (hC : Map.lookup ch w.channels = some C) (hvc : Map.contains v C.users = true) :
    (∀ C', Map.lookup ch (w.removeUserFromChannel ch v).channels = some C' →
      C' = Tear.chanWithout C v) ∧
    (Map.lookup ch (w.removeUserFromChannel ch v).channels = none →
      C.preconfigured = false ∧ ∀ m, Map.contains m C.users = true → m = v) ∧
    (∀ ch', ch' ≠ ch →
      Map.lookup ch' (w.removeUserFromChannel ch v).channels = Map.lookup ch' w.channels) ∧
    (∀ m, Map.lookup m (w.removeUserFromChannel ch v).users =
      if v = m then (Map.lookup m w.users).map
        (fun u => { u with channels := KSet.erase ch u.channels })
      else Map.lookup m w.users) ∧
    (w.removeUserFromChannel ch v).conns = w.conns ∧
    (w.removeUserFromChannel ch v).wallops = w.wallops ∧
    (w.removeUserFromChannel ch v).histories = w.histories ∧
    (w.removeUserFromChannel ch v).cmdCounts = w.cmdCounts ∧
    (w.removeUserFromChannel ch v).panicked = w.panicked := by
  rw [Tear.removeUserFromChannel_eq' w ch v C hC hvc]
  have hlk : Map.lookup ch (Tear.chansAfterDrop ch v C w.channels) = Tear.chanDrop v C := by
    rw [Tear.lookup_chansAfterDrop, if_pos rfl]
  refine ⟨?_, ?_, ?_, ?_, rfl, rfl, rfl, rfl, rfl⟩
  · intro C' h
    have h : Map.lookup ch (Tear.chansAfterDrop ch v C w.channels) = some C' := h
    rw [hlk] at h
    exact (Tear.chanDrop_some h).1
  · intro h
    have h : Map.lookup ch (Tear.chansAfterDrop ch v C w.channels) = none := h
    rw [hlk] at h
    unfold Tear.chanDrop at h
    split at h
    · rename_i hcond
      simp only [Bool.and_eq_true, Bool.not_eq_eq_eq_not, Bool.not_true] at hcond
      refine ⟨hcond.2, ?_⟩
      intro m hmc
      have hemp : Map.erase v C.users = [] := List.isEmpty_iff.mp hcond.1
      cases hmn : decide (m = v) with
      | true => exact of_decide_eq_true hmn
      | false =>
        have hne : m ≠ v := of_decide_eq_false hmn
        obtain ⟨r, hr⟩ := (Map.contains_iff _ _).mp hmc
        have : Map.lookup m (Map.erase v C.users) = some r := by
          rw [Map.lookup_erase_ne m v C.users (fun e => hne e.symm)]; exact hr
        rw [hemp] at this
        cases this
    · cases h
  · intro ch' hne
    show Map.lookup ch' (Tear.chansAfterDrop ch v C w.channels) = _
    rw [Tear.lookup_chansAfterDrop, if_neg (fun e => hne e.symm)]
  · intro m
    exact Map.lookup_modify m v _ w.users

/-- the channel without `v`: `v` is neither a member nor in any rank list; everybody else and all
    settings are as before -/
theorem chanWithout_effect (C : Channel) (v : Str) :
    Map.lookup v (Tear.chanWithout C v).users = none ∧
    KSet.mem v (Tear.chanWithout C v).modes.founders = false ∧
    KSet.mem v (Tear.chanWithout C v).modes.protecteds = false ∧
    KSet.mem v (Tear.chanWithout C v).modes.operators = false ∧
    KSet.mem v (Tear.chanWithout C v).modes.halfOperators = false ∧
    KSet.mem v (Tear.chanWithout C v).modes.voices = false ∧
    Tear.ChanSameExcept v C (Tear.chanWithout C v) := by
  refine ⟨Map.lookup_erase_eq v C.users, ?_, ?_, ?_, ?_, ?_, Tear.chanSameExcept_without v C⟩ <;>
    (show KSet.mem v (KSet.erase v _) = false; rw [KSet.mem_erase]; simp)


end Irc.Wire
