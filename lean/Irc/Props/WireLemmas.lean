/-
  Helper lemmas for `Irc/Props/Wire.lean` (end-to-end theorems: wire text → parser → command →
  handler → state and deliveries).

  Contents
  * §0  vocabulary: well-formed pieces of a client line (`WfChan`, `WfNick`, `WfKey`, `WfWord`,
        `WfMsgChan`), verbs in any letter case (`Verb`), the canonical client lines (`lineJoin` ..)
  * §1  `Message.parse` / `Command.fromMessage` of the canonical lines
  * §2  `step` of a line = `finish` of `dispatch`; when the settling phase is the identity
  * §3  per-command helper facts used by the corollaries of `Wire.lean`

  Import note: `Irc.Props.C09` (KICK) and `Irc.Props.C15` (NICK) cannot be imported together
  (`Irc.ownerOf` is defined in both `ChanPrivLemmas` and `IdentLemmas`); C15 is imported and the
  single-victim KICK facts are re-derived here from the model (`processKick`).
-/
import Irc.InvProofs.Step
import Irc.Props.C13
import Irc.Props.C03
import Irc.Props.C07
import Irc.Props.C10
import Irc.Props.C01
import Irc.Props.C11
import Irc.Props.C15
import Irc.Props.C05
namespace Irc.Wire
open Irc Irc.Reply

/-! ## 0. vocabulary -/

/-- a channel name as a client may write it: accepted by `validate_channel` (non-empty, starts
    with `#` or `&`, no `:` and no `,`) and free of ASCII whitespace -/
def WfChan (ch : Str) : Prop := validateChannel ch = true ∧ C13.noAsciiWs ch = true

/-- a nickname: accepted by `validate_username` (this excludes blanks, control characters,
    `!`, `@`, `.`, `,`, `:` and a leading `#`/`&`) -/
def WfNick (n : Str) : Prop := validateUsername n = true

/-- a middle parameter (OPER password ..): non-empty, no ASCII whitespace, no leading `:` -/
def WfWord (p : Str) : Prop := C13.wellFormedMiddle p = true

/-- a channel key given with JOIN: a middle parameter without `,` -/
def WfKey (k : Str) : Prop := WfWord k ∧ containsChar ',' k = false

/-- the shape of a channel name that `get_privmsg_target_type` reads as a plain (no status
    prefix) channel target: `#x…`, or `&x…` with `x` none of `~ & @ % + #` -/
def plainChanShape : Str → Bool
  | c0 :: c1 :: _ =>
    c0 == '#' || (c0 == '&' && !(c1 == '~' || c1 == '&' || c1 == '@' || c1 == '%' || c1 == '+' ||
      c1 == '#'))
  | _ => false

/-- a channel name usable as the target of PRIVMSG / NOTICE -/
def WfMsgChan (ch : Str) : Prop := WfChan ch ∧ plainChanShape ch = true

/-- `v` is the verb `V` in some letter case (`V` is given in upper case) -/
def Verb (v V : Str) : Prop := asciiUpper v = V

/-! the canonical client lines -/

def lineJoin (v ch : Str) : Str := v ++ str " " ++ ch
def lineJoinKey (v ch key : Str) : Str := v ++ str " " ++ ch ++ str " " ++ key
def linePrivmsg (v tgt text : Str) : Str := v ++ str " " ++ tgt ++ str " :" ++ text
def lineKick (v ch nick comment : Str) : Str :=
  v ++ str " " ++ ch ++ str " " ++ nick ++ str " :" ++ comment
def lineTopic (v ch topic : Str) : Str := v ++ str " " ++ ch ++ str " :" ++ topic
def lineNick (v new : Str) : Str := v ++ str " " ++ new
def lineOper (v name pw : Str) : Str := v ++ str " " ++ name ++ str " " ++ pw
def linePart (v ch reason : Str) : Str := v ++ str " " ++ ch ++ str " :" ++ reason

/-! ## 1. parsing -/

/-! ### characters -/

theorem asciiUpperChar_of_not_lower (c : Char) (h : ¬ (97 ≤ c.toNat ∧ c.toNat ≤ 122)) :
    asciiUpperChar c = c := by
  unfold asciiUpperChar
  have ha : 'a'.toNat = 97 := rfl
  have hz : 'z'.toNat = 122 := rfl
  rw [ha, hz, if_neg h]

theorem not_lower_of_isWhitespace (c : Char) (h : isWhitespace c = true) :
    ¬ (97 ≤ c.toNat ∧ c.toNat ≤ 122) := by
  unfold isWhitespace at h
  simp only [Bool.or_eq_true, Bool.and_eq_true, decide_eq_true_eq, beq_iff_eq] at h
  omega

theorem isWhitespace_upper (c : Char) (h : isWhitespace (asciiUpperChar c) = false) :
    isWhitespace c = false := by
  cases hw : isWhitespace c with
  | false => rfl
  | true =>
    rw [asciiUpperChar_of_not_lower c (not_lower_of_isWhitespace c hw), hw] at h
    cases h

theorem ne_colon_upper (c : Char) (h : asciiUpperChar c ≠ ':') : c ≠ ':' := by
  intro e
  subst e
  exact h (by decide)

theorem isAscii_of_isWhitespace_false (c : Char) (h : isWhitespace c = false) :
    isAsciiWhitespace c = false := by
  cases ha : isAsciiWhitespace c with
  | false => rfl
  | true => rw [C13.isWhitespace_of_ascii c ha] at h; cases h

/-- what makes an (upper-case) verb literal usable: non-empty, no blank, no `:` -/
def VerbOK (V : Str) : Prop := V ≠ [] ∧ ∀ c ∈ V, isWhitespace c = false ∧ c ≠ ':'

instance (V : Str) : Decidable (VerbOK V) := by unfold VerbOK; infer_instance

/-- a verb in any letter case is a word whose first character survives `trim_start` -/
theorem verb_word {v V : Str} (h : Verb v V) (hV : VerbOK V) :
    C13.Word v ∧ ∃ c0 cs, v = c0 :: cs ∧ isWhitespace c0 = false := by
  unfold Verb asciiUpper at h
  subst h
  obtain ⟨hne, hall⟩ := hV
  have hall' : ∀ c ∈ v, isWhitespace c = false ∧ c ≠ ':' := fun c hc =>
    have := hall (asciiUpperChar c) (List.mem_map.mpr ⟨c, hc, rfl⟩)
    ⟨isWhitespace_upper c this.1, ne_colon_upper c this.2⟩
  cases v with
  | nil => exact absurd rfl hne
  | cons c0 cs =>
    refine ⟨⟨by simp, fun c hc => isAscii_of_isWhitespace_false c (hall' c hc).1, ?_⟩,
      c0, cs, rfl, (hall' c0 List.mem_cons_self).1⟩
    simp only [startsWithChar, beq_eq_false_iff_ne, ne_eq]
    exact (hall' c0 List.mem_cons_self).2

/-! ### a source-less canonical line -/

/-- `command (" " middle)* [" :" trailing]` (no source) parses to exactly its parts; no
    hypothesis on the trailing text. -/
theorem parse_nosrc (v : Str) (ms : List Str) (tr : Option Str) (hv : C13.Word v)
    (h0 : ∃ c0 cs, v = c0 :: cs ∧ isWhitespace c0 = false) (hms : ∀ m ∈ ms, C13.Word m) :
    Message.parse (v ++ (C13.middlesStr ms ++ C13.trailingStr tr)) =
      .ok ⟨none, v, ms ++ tr.toList⟩ := by
  obtain ⟨c0, cs, rfl, hw0⟩ := h0
  obtain ⟨_, hws, hcol⟩ := hv
  have hc0 : (c0 == ':') = false := by simpa [startsWithChar] using hcol
  have hT : trimStart (c0 :: cs ++ (C13.middlesStr ms ++ C13.trailingStr tr)) =
      c0 :: (cs ++ (C13.middlesStr ms ++ C13.trailingStr tr)) := by
    simp [trimStart, hw0]
  have hST := C13.splitTrailing_body cs ms tr c0 hws.tail (Or.inl hws.head) hms
  have hW := C13.saw_body (c0 :: cs) ms tr (by simp) hws hms
  unfold Message.parse
  rw [hT]
  simp only [hST, hc0, Bool.false_eq_true, if_false]
  rw [← List.cons_append, hW, C13.finish_cons]

/-! ### the well-formed pieces are words -/

theorem not_mem_of_containsChar {c : Char} {s : Str} (h : containsChar c s = false) : c ∉ s := by
  intro hm
  have : containsChar c s = true := by
    unfold containsChar
    exact List.any_eq_true.mpr ⟨c, hm, by simp⟩
  rw [h] at this; cases this

theorem validateChannel_iff (ch : Str) :
    validateChannel ch = true ↔
      ch ≠ [] ∧ containsChar ':' ch = false ∧ containsChar ',' ch = false ∧
        hasChannelPrefix ch = true := by
  unfold validateChannel
  cases ch <;> simp

theorem validateUsername_iff (u : Str) :
    validateUsername u = true ↔
      u ≠ [] ∧ hasChannelPrefix u = false ∧ u.any badUsernameChar = false ∧
        containsChar '.' u = false ∧ containsChar ':' u = false ∧ containsChar ',' u = false := by
  unfold validateUsername validateUsernameErr
  cases u with
  | nil => simp
  | cons c cs =>
    cases hasChannelPrefix (c :: cs) <;> cases (c :: cs).any badUsernameChar <;>
      cases containsChar '.' (c :: cs) <;> cases containsChar ':' (c :: cs) <;>
      cases containsChar ',' (c :: cs) <;> simp

theorem startsWith_of_not_contains {c : Char} {s : Str} (h : containsChar c s = false) :
    startsWithChar c s = false := by
  cases s with
  | nil => rfl
  | cons x xs =>
    have := not_mem_of_containsChar h
    simp only [List.mem_cons, not_or] at this
    simp only [startsWithChar, beq_eq_false_iff_ne, ne_eq]
    exact fun e => this.1 e.symm

theorem WfChan.word {ch : Str} (h : WfChan ch) : C13.Word ch := by
  obtain ⟨hv, hw⟩ := h
  obtain ⟨hne, hcol, _, _⟩ := (validateChannel_iff ch).mp hv
  exact ⟨hne, C13.wsFree_of_all ch hw, startsWith_of_not_contains hcol⟩

theorem WfChan.noComma {ch : Str} (h : WfChan ch) : ',' ∉ ch :=
  not_mem_of_containsChar ((validateChannel_iff ch).mp h.1).2.2.1

theorem WfNick.word {n : Str} (h : WfNick n) : C13.Word n := by
  obtain ⟨hne, _, hbad, _, hcol, _⟩ := (validateUsername_iff n).mp h
  refine ⟨hne, ?_, startsWith_of_not_contains hcol⟩
  intro c hc
  have hb : badUsernameChar c = false := by
    cases hb : badUsernameChar c with
    | false => rfl
    | true =>
      have : n.any badUsernameChar = true := List.any_eq_true.mpr ⟨c, hc, hb⟩
      rw [hbad] at this; cases this
  unfold badUsernameChar at hb
  simp only [Bool.or_eq_false_iff] at hb
  exact isAscii_of_isWhitespace_false c hb.1.1.1

theorem WfNick.noComma {n : Str} (h : WfNick n) : ',' ∉ n :=
  not_mem_of_containsChar ((validateUsername_iff n).mp h).2.2.2.2.2

theorem WfWord.word {p : Str} (h : WfWord p) : C13.Word p := C13.word_of_bools p h

theorem WfKey.word {k : Str} (h : WfKey k) : C13.Word k := h.1.word

theorem WfKey.noComma {k : Str} (h : WfKey k) : ',' ∉ k := not_mem_of_containsChar h.2

theorem splitComma_single {s : Str} (h : ',' ∉ s) : splitComma s = [s] :=
  C14.splitOnChar_free ',' s h

/-- a well-formed nickname is not touched by the `" :"` rule of `to_string_with_source` -/
theorem WfNick.renderParams {n : Str} (h : WfNick n) : renderParams [n] = ' ' :: n := by
  obtain ⟨hne, _, hbad, _, hcol, _⟩ := (validateUsername_iff n).mp h
  have hany : n.any (fun c => c == ':' || c == ' ' || c == '\t') = false := by
    rw [List.any_eq_false]
    intro c hc
    have hb : badUsernameChar c = false := by
      cases hb : badUsernameChar c with
      | false => rfl
      | true =>
        have : n.any badUsernameChar = true := List.any_eq_true.mpr ⟨c, hc, hb⟩
        rw [hbad] at this; cases this
    have hcc : c ≠ ':' := fun e => not_mem_of_containsChar hcol (e ▸ hc)
    unfold badUsernameChar at hb
    simp only [Bool.or_eq_false_iff] at hb
    have hw := hb.1.1.1
    intro hx
    simp only [Bool.or_eq_true, beq_iff_eq] at hx
    rcases hx with (hx | hx) | hx
    · exact hcc hx
    · subst hx; revert hw; decide
    · subst hx; revert hw; decide
  have hemp : n.isEmpty = false := by cases n <;> simp_all
  simp [Irc.renderParams, hany, hemp, str]

end Irc.Wire
