/-
  Counter-frame lemmas for C18, part 1: the handlers of `Irc/HConn.lean`.
-/
import Irc.Props.C18CountersLemmas0

namespace Irc.C18C
open Irc Irc.Conc

section
variable {cfg : Cfg} {i : Nat} {d : Nat} {x : Ctx}

@[bc_push] theorem sendIsupport_bc (client : Str) :
    sendIsupport cfg client (x.bc i) = (sendIsupport cfg client x).bc i := by
  unfold sendIsupport
  bcf

@[bc_push] theorem processLusers_bc (client : Str) :
    processLusers cfg client (x.bc i) = (processLusers cfg client x).bc i := by
  unfold processLusers
  bcf

@[bc_push] theorem unsupported_bc (client : Str) (s : String) :
    unsupported cfg client s (x.bc i) = (unsupported cfg client s x).bc i := rfl

@[bc_push] theorem processMotd_bc (client : Str) (t : Option Str) :
    processMotd cfg client t (x.bc i) = (processMotd cfg client t x).bc i := by
  unfold processMotd
  bcf

@[bc_push] theorem welcomeBurst_bc (cn' : Conn) (um : Str) :
    welcomeBurst cfg cn' um (x.bc i) = (welcomeBurst cfg cn' um x).bc i := by
  unfold welcomeBurst
  bcf

@[bc_push] theorem addUser_bcW (w : World) (nick : Str) (u : User) :
    (w.bcW i).addUser nick u = (w.addUser nick u).bcW i := C18G.addUser_bump w nick u i

@[bc_push] theorem authenticate_bc :
    authenticate cfg d (x.bc i) = (authenticate cfg d x).bc i := by
  unfold authenticate
  bcf

@[bc_push] theorem processCap_bc (sub : CapCommand) (caps : Option (List Str)) :
    processCap cfg d sub caps (x.bc i) = (processCap cfg d sub caps x).bc i := by
  unfold processCap
  bcf

@[bc_push] theorem processAuthenticate_bc :
    processAuthenticate cfg d (x.bc i) = (processAuthenticate cfg d x).bc i := by
  unfold processAuthenticate
  bcf

@[bc_push] theorem processPass_bc (p : Str) :
    processPass cfg d p (x.bc i) = (processPass cfg d p x).bc i := by
  unfold processPass
  bcf

@[bc_push] theorem processUser_bc (u r : Str) :
    processUser cfg d u r (x.bc i) = (processUser cfg d u r x).bc i := by
  unfold processUser
  bcf

@[bc_push] theorem renameInChannels_bcW (old new : Str) (chs : List Str) (w : World) :
    renameInChannels old new chs (w.bcW i) = (renameInChannels old new chs w).bcW i := by
  unfold renameInChannels
  bcf

@[bc_push] theorem pushHistory_bcW (w : World) (n : Str) (e : HistEntry) :
    (w.bcW i).pushHistory n e = (w.pushHistory n e).bcW i := rfl

@[bc_push] theorem processNick_bc (n : Str) (msg : Message) :
    processNick cfg d n msg (x.bc i) = (processNick cfg d n msg x).bc i := by
  unfold processNick
  bcf

@[bc_push] theorem processPing_bc (t : Str) :
    processPing cfg d t (x.bc i) = (processPing cfg d t x).bc i := rfl

@[bc_push] theorem processPong_bc :
    processPong cfg d (x.bc i) = (processPong cfg d x).bc i := by
  unfold processPong
  bcf

@[bc_push] theorem processOper_bc (n p : Str) :
    processOper cfg d n p (x.bc i) = (processOper cfg d n p x).bc i := by
  unfold processOper
  bcf

@[bc_push] theorem processQuit_bc :
    processQuit cfg d (x.bc i) = (processQuit cfg d x).bc i := by
  unfold processQuit
  bcf

end

end Irc.C18C
