/-
  Property C03 — the registration gate.

  "Until a connection has completed registration only CAP, PASS, NICK, USER, AUTHENTICATE and
   QUIT are acted on; every other command is answered with ERR_NOTREGISTERED and neither changes
   nor reveals anything.  Registration completes only when NICK and USER have been given, an
   opened capability negotiation has been ended, the source matches the configured user mask if
   there is one, and - whenever a server password or a password for that configured user exists -
   exactly that password was supplied with PASS; a wrong or missing password closes the
   connection and creates no user."

  Model: `Irc.handleLine` / `allowedUnregistered` (Step.lean), `Irc.authDecision`,
  `Irc.authenticate`, `processCap/Pass/Nick/User` (HConn.lean).  All theorems are for ALL
  configurations, worlds, connections and lines; nothing assumes the global invariant, and a
  slot `c` need not be live (`x.conn c` then is the blank record, which is never ready).
  Helper lemmas: `Irc/Props/C03Lemmas.lean`.

  Model oddities (details in the comments at the theorems):
  * a configured user WITHOUT own password falls back to the server password
    (`governingPw`); a configured user WITH own password is not asked for the server password.
  * the password / mask check runs before the nick-in-use check, and a wrong password closes
    the connection even when the nick is taken.
  * `authenticate` on a connection whose sender was already taken (excluded by invariant I6)
    marks the connection authenticated without creating a user, in a panicked world;
    hence the `hasSender && hasQuitSender` hypothesis where a user is promised.
-/
import Irc.Props.C03Lemmas
namespace Irc.C03
open Irc Irc.Reply

/-! ## 1. the gate -/

/-- the commands acted on before registration -/
def preRegistration : List CmdId := [.CAP, .AUTHENTICATE, .PASS, .NICK, .USER, .QUIT]

theorem allowed_list (cmd : Command) :
    allowedUnregistered cmd = true ↔ cmd.id ∈ preRegistration := by
  cases cmd <;> simp [allowedUnregistered, Command.id, preRegistration]

/-- `":<server> 451 <client> :You have not registered"`; a function of the server name and the
    connection's own nick / user name / host only. -/
def line451 (serverName : Str) (cn : Conn) : Str :=
  [':'] ++ serverName ++ [' '] ++ ErrNotRegistered451 cn.clientName

example : line451 (str "irc.irc") (Conn.new 3 (str "1.2.3.4")) =
    (str ":irc.irc " ++ Reply.ErrNotRegistered451 (client := str "1.2.3.4")) := by decide

/-- A well-formed command outside the pre-registration list, on an unauthenticated connection:
    exactly one line (451) to the sender, nothing to anybody else, and the world is unchanged
    except for the per-command counter (STATS m). -/
theorem gate (cfg : Cfg) (x : Ctx) (c : Nat) (s : Str) (msg : Message) (cmd : Command)
    (hauth : (x.conn c).authenticated = false)
    (hp : Message.parse s = .ok msg) (hc : Command.fromMessage msg = .ok cmd)
    (hg : allowedUnregistered cmd = false) :
    (handleLine cfg c s x).direct = x.direct ++ [line451 cfg.name (x.conn c)] ∧
    (handleLine cfg c s x).queued = x.queued ∧
    (handleLine cfg c s x).w =
      { x.w with cmdCounts :=
          x.w.cmdCounts.set cmd.id.index (x.w.cmdCounts.getD cmd.id.index 0 + 1) } ∧
    (handleLine cfg c s x).w.users = x.w.users ∧
    (handleLine cfg c s x).w.channels = x.w.channels ∧
    (handleLine cfg c s x).w.wallops = x.w.wallops ∧
    (handleLine cfg c s x).w.conns = x.w.conns ∧
    (handleLine cfg c s x).w.invisibleCount = x.w.invisibleCount ∧
    (handleLine cfg c s x).w.operatorsCount = x.w.operatorsCount ∧
    (handleLine cfg c s x).w.maxUsers = x.w.maxUsers ∧
    (handleLine cfg c s x).w.connsCount = x.w.connsCount ∧
    (handleLine cfg c s x).w.histories = x.w.histories ∧
    (handleLine cfg c s x).w.srvQuit = x.w.srvQuit ∧
    (handleLine cfg c s x).w.panicked = x.w.panicked := by
  rw [handleLine_gate cfg x c s msg cmd hauth hp hc hg]
  refine ⟨?_, rfl, rfl, rfl, rfl, rfl, rfl, rfl, rfl, rfl, rfl, rfl, rfl, rfl⟩
  simp [line451]

/-- The answer of the gate is the same in any two worlds that agree on the acting connection's
    own record (and on what was already in the output buffers): nothing about other users,
    channels or the configuration beyond the server name is revealed. -/
theorem gate_reveals_nothing (cfg₁ cfg₂ : Cfg) (x₁ x₂ : Ctx) (c : Nat) (s : Str) (msg : Message)
    (cmd : Command)
    (hname : cfg₁.name = cfg₂.name)
    (hconn : x₁.conn c = x₂.conn c) (hd : x₁.direct = x₂.direct) (hq : x₁.queued = x₂.queued)
    (hauth : (x₁.conn c).authenticated = false)
    (hp : Message.parse s = .ok msg) (hc : Command.fromMessage msg = .ok cmd)
    (hg : allowedUnregistered cmd = false) :
    (handleLine cfg₁ c s x₁).direct = (handleLine cfg₂ c s x₂).direct ∧
    (handleLine cfg₁ c s x₁).queued = (handleLine cfg₂ c s x₂).queued := by
  have h1 := gate cfg₁ x₁ c s msg cmd hauth hp hc hg
  have h2 := gate cfg₂ x₂ c s msg cmd (hconn ▸ hauth) hp hc hg
  rw [h1.1, h1.2.1, h2.1, h2.2.1, hname, hconn, hd, hq]
  exact ⟨rfl, rfl⟩

/-- Lines that are not a well-formed command (empty, bad source, unknown verb, bad parameters)
    change nothing at all in the world, whatever the registration state; they only append to the
    sender's own buffer. -/
theorem malformed_changes_nothing (cfg : Cfg) (x : Ctx) (c : Nat) (s : Str)
    (h : (∃ e, Message.parse s = .error e) ∨
         (∃ msg e, Message.parse s = .ok msg ∧ Command.fromMessage msg = .error e)) :
    ∃ l, handleLine cfg c s x = { x with direct := x.direct ++ l } := by
  rcases h with ⟨e, he⟩ | ⟨msg, e, hm, he⟩
  · exact handleLine_parse_error cfg c s x e he
  · exact ⟨_, handleLine_command_error cfg c s x msg e hm he⟩

/-! ## 2. the decision -/

/-- The password that governs a registration: the configured user's own password if it has one,
    else the server password (also for a configured user without own password). -/
def governingPw (cfg : Cfg) (u? : Option UserCfg) : Option Str :=
  (u?.bind (·.password)).or cfg.password

theorem governingPw_eq_some (cfg : Cfg) (u? : Option UserCfg) (pw : Str) :
    governingPw cfg u? = some pw ↔
      (∃ u, u? = some u ∧ u.password = some pw) ∨
      ((∀ u, u? = some u → u.password = none) ∧ cfg.password = some pw) := by
  unfold governingPw
  cases u? with
  | none => simp
  | some u => cases h : u.password <;> simp [h]

/-- "a server password or a password for that configured user exists" -/
theorem governingPw_isSome (cfg : Cfg) (u? : Option UserCfg) :
    (governingPw cfg u?).isSome = true ↔
      cfg.password.isSome = true ∨ ∃ u p, u? = some u ∧ u.password = some p := by
  unfold governingPw
  cases u? with
  | none => simp
  | some u => cases h : u.password <;> simp [h]

/-- the configured user has a mask and the connection's source does not match it (glob) -/
def MaskRefuses (u? : Option UserCfg) (source : Str) : Prop :=
  ∃ u mask, u? = some u ∧ u.mask = some mask ∧ glob mask source = false

/-- no password is required, or the one entered with PASS verifies against it -/
def PwGood (cfg : Cfg) (pw entered : Option Str) : Prop :=
  pw = none ∨ ∃ p e, pw = some p ∧ entered = some e ∧ cfg.pwOk e p = true

/-- `Cfg.findUser` is "the last configured user with that name". -/
theorem findUser_spec (cfg : Cfg) (name : Str) (u : UserCfg) :
    cfg.findUser name = some u ↔
      u.name = name ∧ ∃ pre post, cfg.users = pre ++ u :: post ∧ ∀ v ∈ post, v.name ≠ name := by
  unfold Cfg.findUser
  rw [List.find?_eq_some_iff_append]
  constructor
  · rintro ⟨hn, as, bs, hrev, hbs⟩
    refine ⟨by simpa using hn, bs.reverse, as.reverse, ?_, ?_⟩
    · have := congrArg List.reverse hrev
      simpa using this
    · intro v hv
      have := hbs v (by simpa using hv)
      simpa using this
  · rintro ⟨hn, pre, post, hus, hpost⟩
    refine ⟨by simpa using hn, post.reverse, pre.reverse, ?_, ?_⟩
    · rw [hus]; simp
    · intro v hv
      have := hpost v (by simpa using hv)
      simpa using this

theorem findUser_none (cfg : Cfg) (name : Str) :
    cfg.findUser name = none ↔ ∀ v ∈ cfg.users, v.name ≠ name := by
  unfold Cfg.findUser
  simp

theorem notReady_iff (cfg : Cfg) (cn : Conn) :
    authDecision cfg cn = .notReady ↔ (cn.capsNeg = true ∨ cn.nick = none ∨ cn.name = none) := by
  unfold authDecision
  simp only [C14.matchWildcard_eq_glob]
  cases h1 : cn.capsNeg <;> cases h2 : cn.nick <;> cases h3 : cn.name <;> simp
  rename_i nick name
  cases hu : cfg.findUser name with
  | none => simp; split <;> simp
  | some u =>
    simp
    cases hm : u.mask with
    | none => simp; split <;> simp
    | some m =>
      simp
      cases hg : glob m cn.source <;> simp
      split <;> simp

theorem maskMismatch_iff (cfg : Cfg) (cn : Conn) :
    authDecision cfg cn = .maskMismatch ↔
      cn.capsNeg = false ∧ cn.nick ≠ none ∧ ∃ name, cn.name = some name ∧
        MaskRefuses (cfg.findUser name) cn.source := by
  unfold authDecision MaskRefuses
  simp only [C14.matchWildcard_eq_glob]
  cases h1 : cn.capsNeg <;> cases h2 : cn.nick <;> cases h3 : cn.name <;> simp
  rename_i nick name
  cases hu : cfg.findUser name with
  | none => simp; split <;> simp
  | some u =>
    simp
    cases hm : u.mask with
    | none => simp; split <;> simp
    | some m =>
      simp
      cases hg : glob m cn.source <;> simp
      split <;> simp

theorem decided_iff (cfg : Cfg) (cn : Conn) (good reg : Bool) :
    authDecision cfg cn = .decided good reg ↔
      cn.capsNeg = false ∧ cn.nick ≠ none ∧ ∃ name, cn.name = some name ∧
        ¬ MaskRefuses (cfg.findUser name) cn.source ∧ reg = (cfg.findUser name).isSome ∧
        (good = true ↔ PwGood cfg (governingPw cfg (cfg.findUser name)) cn.password) := by
  unfold authDecision MaskRefuses governingPw PwGood
  simp only [C14.matchWildcard_eq_glob]
  cases h1 : cn.capsNeg <;> cases h2 : cn.nick <;> cases h3 : cn.name <;> simp
  rename_i nick name
  cases hu : cfg.findUser name with
  | none =>
    simp
    cases hp : cfg.password with
    | none => simp; exact And.comm
    | some p =>
      simp
      cases he : cn.password with
      | none => cases good <;> cases reg <;> simp
      | some e => cases hk : cfg.pwOk e p <;> cases good <;> cases reg <;> simp [hk]
  | some u =>
    simp
    cases hm : u.mask with
    | none =>
      simp
      cases hup : u.password with
      | some p =>
        simp
        cases he : cn.password with
        | none => cases good <;> cases reg <;> simp
        | some e => cases hk : cfg.pwOk e p <;> cases good <;> cases reg <;> simp [hk]
      | none =>
        simp
        cases hp : cfg.password with
        | none => cases good <;> cases reg <;> simp
        | some p =>
          simp
          cases he : cn.password with
          | none => cases good <;> cases reg <;> simp
          | some e => cases hk : cfg.pwOk e p <;> cases good <;> cases reg <;> simp [hk]
    | some m =>
      simp
      cases hg : glob m cn.source with
      | false => simp
      | true =>
        simp
        cases hup : u.password with
        | some p =>
          simp
          cases he : cn.password with
          | none => cases good <;> cases reg <;> simp
          | some e => cases hk : cfg.pwOk e p <;> cases good <;> cases reg <;> simp [hk]
        | none =>
          simp
          cases hp : cfg.password with
          | none => cases good <;> cases reg <;> simp
          | some p =>
            simp
            cases he : cn.password with
            | none => cases good <;> cases reg <;> simp
            | some e => cases hk : cfg.pwOk e p <;> cases good <;> cases reg <;> simp [hk]

/-- Exact characterisation of the decision taken by `authenticate`, in terms of `glob`,
    `Cfg.findUser` (last configured user of that name) and `governingPw`. -/
theorem authDecision_spec (cfg : Cfg) (cn : Conn) :
    (authDecision cfg cn = .notReady ↔ (cn.capsNeg = true ∨ cn.nick = none ∨ cn.name = none)) ∧
    (authDecision cfg cn = .maskMismatch ↔
      cn.capsNeg = false ∧ cn.nick ≠ none ∧ ∃ name, cn.name = some name ∧
        MaskRefuses (cfg.findUser name) cn.source) ∧
    (∀ good reg, authDecision cfg cn = .decided good reg ↔
      cn.capsNeg = false ∧ cn.nick ≠ none ∧ ∃ name, cn.name = some name ∧
        ¬ MaskRefuses (cfg.findUser name) cn.source ∧ reg = (cfg.findUser name).isSome ∧
        (good = true ↔ PwGood cfg (governingPw cfg (cfg.findUser name)) cn.password)) :=
  ⟨notReady_iff cfg cn, maskMismatch_iff cfg cn, decided_iff cfg cn⟩

/-! ## 3. what `authenticate` does with the decision -/

theorem not_ready_noop (cfg : Cfg) (c : Nat) (x : Ctx)
    (hd : authDecision cfg (x.conn c) = .notReady) : authenticate cfg c x = x :=
  authenticate_notReady cfg c x hd

/-- mask refused: one `ERROR` line, and nothing else happens (the connection stays open and
    unregistered, no user is created). -/
theorem mask_mismatch_no_user (cfg : Cfg) (c : Nat) (x : Ctx)
    (hd : authDecision cfg (x.conn c) = .maskMismatch) :
    (authenticate cfg c x).w = x.w ∧
    (authenticate cfg c x).w.users = x.w.users ∧
    (authenticate cfg c x).conn c = x.conn c ∧
    (authenticate cfg c x).direct =
      x.direct ++ [[':'] ++ cfg.name ++ [' '] ++ str "ERROR: user mask doesn't match"] ∧
    (authenticate cfg c x).queued = x.queued := by
  rw [authenticate_mask cfg c x hd]
  refine ⟨rfl, rfl, rfl, ?_, rfl⟩
  simp

/-- `":<server> 464 <client> :Password incorrect"` -/
def line464 (serverName : Str) (cn : Conn) : Str :=
  [':'] ++ serverName ++ [' '] ++ ErrPasswdMismatch464 cn.clientName

/-- wrong or missing password: the connection is marked for closing (`quit`; the settling phase
    of the same operation tears it down), stays unauthenticated, no user is created, nothing but
    the connection record changes, and the only output is one 464 line to the sender. -/
theorem bad_password_closes (cfg : Cfg) (c : Nat) (x : Ctx) (r : Bool)
    (hd : authDecision cfg (x.conn c) = .decided false r) :
    ((authenticate cfg c x).conn c).quit = true ∧
    ((authenticate cfg c x).conn c).authenticated = false ∧
    (authenticate cfg c x).w.users = x.w.users ∧
    (authenticate cfg c x).w.channels = x.w.channels ∧
    (authenticate cfg c x).w = x.w.setConn { x.conn c with authenticated := false, quit := true } ∧
    (authenticate cfg c x).direct = x.direct ++ [line464 cfg.name (x.conn c)] ∧
    (authenticate cfg c x).queued = x.queued := by
  have hlive : (x.w.conn? c).isSome = true := by
    cases hl : x.w.conn? c with
    | none => rw [authDecision_dead cfg x c hl] at hd; cases hd
    | some _ => rfl
  rw [authenticate_bad cfg c x r hd]
  have hid := conn_id x c
  rw [conn_reply, conn_setConn_live x _ c (by exact hid) hlive]
  refine ⟨rfl, rfl, rfl, rfl, rfl, ?_, rfl⟩
  simp [line464]

/-- Soundness: `authenticate` turns an unauthenticated connection into an authenticated one only
    if the decision was "password good", and the nick was free; the connection keeps its
    credentials, `registered` records whether it is a configured user, and (given the sender
    resources, invariant I6) exactly one user — that nick, owned by `c`, default modes plus `r`
    for a configured user — has been added. -/
theorem registration_only_when (cfg : Cfg) (c : Nat) (x : Ctx)
    (h0 : (x.conn c).authenticated = false)
    (h1 : ((authenticate cfg c x).conn c).authenticated = true) :
    ∃ r nick, authDecision cfg (x.conn c) = .decided true r ∧ (x.conn c).nick = some nick ∧
      Map.contains nick x.w.users = false ∧
      SameCreds ((authenticate cfg c x).conn c) (x.conn c) ∧
      ((authenticate cfg c x).conn c).registered = r ∧
      (((x.conn c).hasSender && (x.conn c).hasQuitSender) = true →
        ∃ u, Map.lookup nick (authenticate cfg c x).w.users = some u ∧ u.owner = c ∧
          u.modes = { cfg.defaultUserModes with
                      registered := cfg.defaultUserModes.registered || r } ∧
          u.source = (x.conn c).source ∧ u.hostname = (x.conn c).hostname ∧
          u.name = (x.conn c).name.getD [] ∧ u.channels = [] ∧ u.away = none ∧
          (∀ n, n ≠ nick →
            Map.lookup n (authenticate cfg c x).w.users = Map.lookup n x.w.users) ∧
          (authenticate cfg c x).w.channels = x.w.channels ∧
          (authenticate cfg c x).queued = x.queued) := by
  obtain ⟨r, nick, hd, hn, hu, hlive, hcr, hreg⟩ := authenticate_success_conn cfg c x h0 h1
  refine ⟨r, nick, hd, hn, hu, hcr, hreg, fun hs => ?_⟩
  refine ⟨newUser cfg c (x.conn c) r, ?_, rfl, rfl, rfl, rfl, rfl, rfl, rfl, ?_,
    authenticate_good_free_channels cfg c x r nick hd hn hu hs,
    authenticate_good_free_queued cfg c x r nick hd hn hu hs⟩
  · rw [authenticate_good_free_users cfg c x r nick hd hn hu hs]; simp
  · intro n hne
    rw [authenticate_good_free_users cfg c x r nick hd hn hu hs]
    exact Map.lookup_insert_ne n nick _ _ (fun e => hne e.symm)

/-- Completeness: a live connection with a good decision, a free nick and its sender resources
    does get registered. -/
theorem registration_complete (cfg : Cfg) (c : Nat) (x : Ctx) (r : Bool) (nick : Str)
    (hlive : (x.w.conn? c).isSome = true)
    (hd : authDecision cfg (x.conn c) = .decided true r) (hn : (x.conn c).nick = some nick)
    (hu : Map.contains nick x.w.users = false)
    (hs : ((x.conn c).hasSender && (x.conn c).hasQuitSender) = true) :
    ((authenticate cfg c x).conn c).authenticated = true ∧
    ((authenticate cfg c x).conn c).registered = r ∧
    ((authenticate cfg c x).conn c).quit = (x.conn c).quit ∧
    ∃ u, Map.lookup nick (authenticate cfg c x).w.users = some u ∧ u.owner = c := by
  rw [authenticate_good_free_conn cfg c x r nick hd hn hu hs hlive,
    authenticate_good_free_users cfg c x r nick hd hn hu hs]
  exact ⟨rfl, rfl, rfl, newUser cfg c (x.conn c) r, by simp, rfl⟩

/-- A good decision with the nick already taken: 433, the connection stays open and
    unauthenticated, no user is created. -/
theorem nick_in_use_no_user (cfg : Cfg) (c : Nat) (x : Ctx) (r : Bool) (nick : Str)
    (hd : authDecision cfg (x.conn c) = .decided true r) (hn : (x.conn c).nick = some nick)
    (hu : Map.contains nick x.w.users = true) :
    ((authenticate cfg c x).conn c).authenticated = false ∧
    (authenticate cfg c x).w.users = x.w.users ∧
    (authenticate cfg c x).queued = x.queued := by
  rw [authenticate_good_inuse cfg c x r nick hd hn hu]
  exact ⟨conn_setConn_unauth x _ c (conn_id x c) rfl, rfl, rfl⟩

/-! ## 4. only `authenticate` registers -/

/-- On an unauthenticated connection, a line makes the connection authenticated only by ending
    in a call of `authenticate` from CAP END / PASS / NICK / USER, on a context that differs from
    `x` only in the acting connection's record and the command counter; whenever the connection
    is still unauthenticated afterwards, the user table is unchanged. -/
theorem only_authenticate_registers (cfg : Cfg) (c : Nat) (s : Str) (x : Ctx)
    (h0 : (x.conn c).authenticated = false) :
    (((handleLine cfg c s x).conn c).authenticated = true →
      ∃ msg cmd x', Message.parse s = .ok msg ∧ Command.fromMessage msg = .ok cmd ∧
        cmd.id ∈ [CmdId.CAP, .PASS, .NICK, .USER] ∧
        (cmd.id = .CAP → ∃ caps v, cmd = .CAP .END caps v) ∧
        x'.w.users = x.w.users ∧ (x'.conn c).authenticated = false ∧
        x'.direct = x.direct ∧ x'.queued = x.queued ∧
        handleLine cfg c s x = authenticate cfg c x') ∧
    (((handleLine cfg c s x).conn c).authenticated = false →
      (handleLine cfg c s x).w.users = x.w.users) := by
  rcases handleLine_unauth cfg c s x h0 with ⟨h1, h2⟩ | ⟨msg, cmd, x', hp, hc, hr, pre, he, ha⟩
  · exact ⟨fun h => (by rw [h1] at h; cases h), fun _ => h2⟩
  · refine ⟨fun _ => ⟨msg, cmd, x', hp, hc, (isRegCmd_spec cmd hr).1, (isRegCmd_spec cmd hr).2,
      pre.users, pre.unauth, pre.direct, pre.queued, he⟩, fun h => ?_⟩
    rw [he, ha] at h; cases h

/-! ## 5. the password -/

/-- the model's `pwOk` (argon2 verification of the configured hash, abstracted) is equality of
    the plain texts -/
theorem pwOk_iff (cfg : Cfg) (e p : Str) : cfg.pwOk e p = true ↔ e = p := by
  unfold Cfg.pwOk; simp

/-- Whenever a password governs the registration (the configured user's own, else the server
    password), `authenticate` registers the connection only if exactly that password was
    supplied with PASS. -/
theorem password_required (cfg : Cfg) (c : Nat) (x : Ctx) (name pw : Str)
    (h0 : (x.conn c).authenticated = false)
    (hname : (x.conn c).name = some name)
    (hpw : governingPw cfg (cfg.findUser name) = some pw)
    (h1 : ((authenticate cfg c x).conn c).authenticated = true) :
    (x.conn c).password = some pw := by
  obtain ⟨r, nick, hd, _⟩ := authenticate_success_conn cfg c x h0 h1
  obtain ⟨_, _, name', hn', _, _, hg⟩ := (decided_iff cfg (x.conn c) true r).mp hd
  rw [hname] at hn'; cases hn'
  rcases hg.mp rfl with h | ⟨p, e, hp, he, hok⟩
  · rw [hpw] at h; cases h
  · rw [hpw] at hp; cases hp
    rw [he, (pwOk_iff cfg e pw).mp hok]

/-- … and a ready connection (NICK, USER, no open CAP negotiation, mask not refusing) that did
    not supply exactly that password is closed without a user being created. -/
theorem wrong_password_closes (cfg : Cfg) (c : Nat) (x : Ctx) (name pw : Str)
    (hcap : (x.conn c).capsNeg = false) (hnick : (x.conn c).nick ≠ none)
    (hname : (x.conn c).name = some name)
    (hmask : ¬ MaskRefuses (cfg.findUser name) (x.conn c).source)
    (hpw : governingPw cfg (cfg.findUser name) = some pw)
    (hwrong : (x.conn c).password ≠ some pw) :
    ((authenticate cfg c x).conn c).quit = true ∧
    ((authenticate cfg c x).conn c).authenticated = false ∧
    (authenticate cfg c x).w.users = x.w.users ∧
    (authenticate cfg c x).direct = x.direct ++ [line464 cfg.name (x.conn c)] ∧
    (authenticate cfg c x).queued = x.queued := by
  have hd : authDecision cfg (x.conn c) = .decided false (cfg.findUser name).isSome := by
    rw [decided_iff]
    refine ⟨hcap, hnick, name, hname, hmask, rfl, ?_⟩
    constructor
    · intro h; cases h
    · rintro (h | ⟨p, e, hp, he, hok⟩)
      · rw [hpw] at h; cases h
      · rw [hpw] at hp; cases hp
        rw [(pwOk_iff cfg e pw).mp hok] at he
        exact absurd he hwrong
  obtain ⟨h1, h2, h3, _, _, h6, h7⟩ := bad_password_closes cfg c x _ hd
  exact ⟨h1, h2, h3, h6, h7⟩

/-- End to end, for one received line: if a line turns an unauthenticated connection into an
    authenticated one, then the connection's record satisfies every clause of the property —
    capability negotiation not open, NICK and USER given, the nick was free, the mask (if any)
    matches the source, `registered` = "is a configured user", and if a password governs, it is
    exactly the one stored from PASS. -/
theorem registered_line_sound (cfg : Cfg) (c : Nat) (s : Str) (x : Ctx)
    (h0 : (x.conn c).authenticated = false)
    (h1 : ((handleLine cfg c s x).conn c).authenticated = true) :
    ∃ nick name, ((handleLine cfg c s x).conn c).capsNeg = false ∧
      ((handleLine cfg c s x).conn c).nick = some nick ∧
      ((handleLine cfg c s x).conn c).name = some name ∧
      Map.contains nick x.w.users = false ∧
      ¬ MaskRefuses (cfg.findUser name) ((handleLine cfg c s x).conn c).source ∧
      ((handleLine cfg c s x).conn c).registered = (cfg.findUser name).isSome ∧
      (∀ pw, governingPw cfg (cfg.findUser name) = some pw →
        ((handleLine cfg c s x).conn c).password = some pw) := by
  obtain ⟨msg, cmd, x', _, _, _, _, hus, hun, _, _, he⟩ :=
    (only_authenticate_registers cfg c s x h0).1 h1
  rw [he] at h1 ⊢
  obtain ⟨r, nick, hd, hn, hu, _, hcr, hreg⟩ := authenticate_success_conn cfg c x' hun h1
  obtain ⟨hcap, _, name, hname, hmask, hr, _⟩ := (decided_iff cfg (x'.conn c) true r).mp hd
  obtain ⟨c1, c2, c3, c4, c5, _, _⟩ := hcr
  refine ⟨nick, name, c1.trans hcap, c2.trans hn, c3.trans hname, hus ▸ hu, c4 ▸ hmask,
    hreg.trans hr, fun pw hpw => ?_⟩
  rw [c5]
  exact password_required cfg c x' name pw hun hname hpw h1

/-! ## 6. concrete instances (kernel-checked) -/

/-- server password only -/
def cfgA : Cfg := { password := some (str "secret") }
/-- server password; configured user `bob` with own password and a mask; configured user `eve`
    without either -/
def cfgB : Cfg :=
  { password := some (str "srv"),
    users := [{ name := str "bob", nick := str "bob", password := some (str "bobpw"),
                mask := some (str "*!*@10.*") },
              { name := str "eve", nick := str "eve", password := none, mask := none }] }

/-- connection 0 from `ip`, then the given lines on it -/
def runOn (cfg : Cfg) (ip : Str) (ls : List Str) : World :=
  run cfg (.connect 0 ip :: ls.map (.line 0))

def ip10 : Str := str "10.0.0.1"
def ip192 : Str := str "192.168.0.1"

/-- summary of a world: nicks of users, and (authenticated, registered) of connection 0 if live -/
def summary (w : World) : List Str × Option (Bool × Bool) :=
  (Map.keys w.users, (w.conn? 0).map (fun cn => (cn.authenticated, cn.registered)))

-- the gate: hypotheses of `gate` are satisfiable, and the conclusion is the 451 line
example : Message.parse (str "JOIN #x") = .ok ⟨none, str "JOIN", [str "#x"]⟩ := by decide
example : Command.fromMessage ⟨none, str "JOIN", [str "#x"]⟩ = .ok (.JOIN [str "#x"] none) := by
  decide
example : allowedUnregistered (.JOIN [str "#x"] none) = false := by decide
example : (({ w := runOn cfgA ip10 [str "NICK b"] } : Ctx).conn 0).authenticated = false := by
  decide
example : (step cfgA (runOn cfgA ip10 [str "NICK b"]) (.line 0 (str "JOIN #x"))).outs =
    [(0, (str ":irc.irc " ++ Reply.ErrNotRegistered451 (client := str "b")))] := by decide
example : summary (step cfgA (runOn cfgA ip10 [str "NICK b"]) (.line 0 (str "JOIN #x"))).w =
    ([], some (false, false)) := by decide

-- server password: missing / wrong password closes the connection, no user
example : summary (runOn cfgA ip10 [str "NICK a", str "USER a 0 * :A"]) = ([], none) := by decide
example : summary (runOn cfgA ip10 [str "PASS wrong", str "NICK a", str "USER a 0 * :A"]) =
    ([], none) := by decide
example : (step cfgA (runOn cfgA ip10 [str "NICK b"]) (.line 0 (str "USER bob 0 * :A"))).outs =
    [(0, (str ":irc.irc " ++ Reply.ErrPasswdMismatch464 (client := str "b")))] := by decide
-- right password, in any order, other commands in between are refused
example : summary (runOn cfgA ip10 [str "PASS secret", str "NICK a", str "USER a 0 * :A"]) =
    ([str "a"], some (true, false)) := by decide
example : summary (runOn cfgA ip10 [str "NICK a", str "JOIN #x", str "PRIVMSG a :hi",
    str "USER a 0 * :A", str "PASS secret"]) = ([], none) := by decide
example : summary (runOn cfgA ip10 [str "NICK a", str "JOIN #x", str "PASS secret",
    str "PRIVMSG a :hi", str "USER a 0 * :A"]) = ([str "a"], some (true, false)) := by decide
-- an opened capability negotiation must be ended first
example : summary (runOn cfgA ip10 [str "CAP LS", str "PASS secret", str "NICK a",
    str "USER a 0 * :A"]) = ([], some (false, false)) := by decide
example : summary (runOn cfgA ip10 [str "CAP LS", str "PASS secret", str "NICK a",
    str "USER a 0 * :A", str "CAP END"]) = ([str "a"], some (true, false)) := by decide
-- configured user: own password governs, server password is not accepted
example : governingPw cfgB (cfgB.findUser (str "bob")) = some (str "bobpw") := by decide
example : summary (runOn cfgB ip10 [str "PASS bobpw", str "NICK b", str "USER bob 0 * :A"]) =
    ([str "b"], some (true, true)) := by decide
example : summary (runOn cfgB ip10 [str "PASS srv", str "NICK b", str "USER bob 0 * :A"]) =
    ([], none) := by decide
-- configured user without own password falls back to the server password
example : governingPw cfgB (cfgB.findUser (str "eve")) = some (str "srv") := by decide
example : summary (runOn cfgB ip10 [str "PASS srv", str "NICK e", str "USER eve 0 * :A"]) =
    ([str "e"], some (true, true)) := by decide
example : summary (runOn cfgB ip10 [str "NICK e", str "USER eve 0 * :A"]) = ([], none) := by
  decide
-- mask: source b!~bob@192.168.0.1 does not match *!*@10.*; connection stays, no user
example : authDecision cfgB (({ w := runOn cfgB ip192 [str "PASS bobpw", str "NICK b",
    str "USER bob 0 * :A"] } : Ctx).conn 0) = .maskMismatch := by decide
example : summary (runOn cfgB ip192 [str "PASS bobpw", str "NICK b", str "USER bob 0 * :A"]) =
    ([], some (false, false)) := by decide
example : (step cfgB (runOn cfgB ip192 [str "PASS bobpw", str "NICK b"])
    (.line 0 (str "USER bob 0 * :A"))).outs =
    [(0, str ":irc.irc ERROR: user mask doesn't match")] := by decide
-- hypotheses of `bad_password_closes`, `registration_complete`, `password_required`
example : authDecision cfgA (({ w := runOn cfgA ip10 [str "NICK a"] } : Ctx).setConn
    ((({ w := runOn cfgA ip10 [str "NICK a"] } : Ctx).conn 0).setName (str "a")) |>.conn 0) =
    .decided false false := by decide
example : authDecision cfgA (({ w := runOn cfgA ip10 [str "PASS secret", str "NICK a"] } : Ctx).setConn
    ((({ w := runOn cfgA ip10 [str "PASS secret", str "NICK a"] } : Ctx).conn 0).setName (str "a"))
      |>.conn 0) = .decided true false := by decide

/-! ## 7. "closes the connection": the whole operation (`step`) -/

/-- A line on an unauthenticated connection never touches the record of any other connection. -/
theorem unregistered_line_frame (cfg : Cfg) (c : Nat) (s : Str) (x : Ctx)
    (h0 : (x.conn c).authenticated = false) :
    ∀ y : Conn, y.id ≠ c → (y ∈ (handleLine cfg c s x).w.conns ↔ y ∈ x.w.conns) :=
  handleLine_unauth_others cfg c s x h0

/-- If the handler leaves the (still unauthenticated) acting connection with `quit` set, the
    settling phase of the same operation removes exactly that connection — nothing else in the
    world changes after the handler, and the driver reports `closed c`.  (`hsettled` is the
    `settled` clause of the invariant `Inv`: between operations no connection is flagged.) -/
theorem unregistered_quit_closes (cfg : Cfg) (w : World) (c : Nat) (s : Str)
    (hsettled : ∀ cn ∈ w.conns, cn.quit = false ∧ cn.killedBy = none)
    (hlive : ∃ cn0, w.conn? c = some cn0)
    (h0 : (({ w := w } : Ctx).conn c).authenticated = false)
    (hq : ((handleLine cfg c s { w := w }).conn c).quit = true)
    (ha : ((handleLine cfg c s { w := w }).conn c).authenticated = false) :
    (step cfg w (.line c s)).w =
      { (handleLine cfg c s { w := w }).w with
        conns := (handleLine cfg c s { w := w }).w.conns.filter (·.id != c)
        connsCount := (handleLine cfg c s { w := w }).w.connsCount - 1 } ∧
    (step cfg w (.line c s)).w.conn? c = none ∧
    (step cfg w (.line c s)).w.users = (handleLine cfg c s { w := w }).w.users ∧
    (∀ y : Conn, y.id ≠ c → (y ∈ (step cfg w (.line c s)).w.conns ↔ y ∈ w.conns)) ∧
    (step cfg w (.line c s)).events = [str "closed " ++ natToStr c] ∧
    (step cfg w (.line c s)).outs =
      (handleLine cfg c s { w := w }).direct.map (fun l => (c, l)) ++
        (handleLine cfg c s { w := w }).queued := by
  have hoth := handleLine_unauth_others cfg c s { w := w } h0
  generalize hx : handleLine cfg c s { w := w } = x at *
  -- `c` is live after the handler (a blank record has `quit = false`)
  cases hc : x.w.conn? c with
  | none =>
    have : x.conn c = Conn.new c [] := by unfold Ctx.conn; rw [hc]; rfl
    rw [this] at hq; cases hq
  | some cn =>
    have hcn : x.conn c = cn := by unfold Ctx.conn; rw [hc]; rfl
    rw [hcn] at hq ha
    obtain ⟨cn0, hw⟩ := hlive
    have ho : ∀ y ∈ x.w.conns, y.id ≠ c → y.quit = false ∧ y.killedBy = none :=
      fun y hy hne => hsettled y ((hoth y hne).mp hy)
    have hst : step cfg w (.line c s) = finish cfg c x := by
      show (match w.conn? c with
        | none => _
        | some _ => finish cfg c (handleLine cfg c s { w := w })) = _
      rw [hw, hx]
    rw [hst]
    unfold finish
    simp only
    rw [settle_one cfg x.w _ [] c cn hc hq ha ho]
    refine ⟨rfl, conn?_filter_self x.w c, rfl, ?_, rfl, rfl⟩
    intro y hne
    simp only [List.mem_filter, bne_iff_ne, ne_eq]
    rw [hoth y hne]
    exact ⟨fun h => h.1, fun h => ⟨h, hne⟩⟩

/-- A wrong or missing password, seen over the whole operation: whenever the line's handler ends
    in `authenticate` (see `only_authenticate_registers`) on a connection record whose decision is
    "password bad", the operation ends with the connection gone, the user table as before, every
    other connection as before, a `closed` event, and the 464 line as last line to the sender. -/
theorem wrong_password_step (cfg : Cfg) (w : World) (c : Nat) (s : Str) (x' : Ctx) (r : Bool)
    (hsettled : ∀ cn ∈ w.conns, cn.quit = false ∧ cn.killedBy = none)
    (hlive : ∃ cn0, w.conn? c = some cn0)
    (h0 : (({ w := w } : Ctx).conn c).authenticated = false)
    (he : handleLine cfg c s { w := w } = authenticate cfg c x')
    (hus : x'.w.users = w.users)
    (hd : authDecision cfg (x'.conn c) = .decided false r) :
    (step cfg w (.line c s)).w.conn? c = none ∧
    (step cfg w (.line c s)).w.users = w.users ∧
    (∀ y : Conn, y.id ≠ c → (y ∈ (step cfg w (.line c s)).w.conns ↔ y ∈ w.conns)) ∧
    (step cfg w (.line c s)).events = [str "closed " ++ natToStr c] ∧
    (step cfg w (.line c s)).outs =
      (x'.direct ++ [line464 cfg.name (x'.conn c)]).map (fun l => (c, l)) ++ x'.queued := by
  obtain ⟨b1, b2, b3, _, _, b6, b7⟩ := bad_password_closes cfg c x' r hd
  obtain ⟨_, s2, s3, s4, s5, s6⟩ := unregistered_quit_closes cfg w c s hsettled hlive h0
    (by rw [he]; exact b1) (by rw [he]; exact b2)
  rw [he] at s3 s6
  exact ⟨s2, s3.trans (b3.trans hus), s4, s5, by rw [s6, b6, b7]⟩

-- hypotheses of `unregistered_quit_closes` / `wrong_password_step` on a concrete world
example : (step cfgA (runOn cfgA ip10 [str "NICK b"]) (.line 0 (str "USER bob 0 * :A"))).events =
    [str "closed 0"] := by decide
example : (step cfgA (runOn cfgA ip10 [str "NICK b"]) (.line 0 (str "USER bob 0 * :A"))).w.conns =
    [] := by decide
example : ∀ cn ∈ (runOn cfgA ip10 [str "NICK b"]).conns, cn.quit = false ∧ cn.killedBy = none := by
  decide

end Irc.C03
