/-
  Counter-frame lemmas for C18, part 5: `dispatch` and `handleLine`.
-/
import Irc.Props.C18CountersLemmas4

namespace Irc.C18C
open Irc Irc.Conc Irc.C18F Irc.C18G

/-- the command whose handler may read `World.cmdCounts`: `STATS m` -/
def cmdReadsCounters : Command → Bool
  | .STATS q _ => q == 'm'
  | _ => false

/-- sharper: `STATS m` without a target server (`STATS m <server>` is answered with
    "Server unsupported" before anything is read) -/
def cmdReadsCountersSharp : Command → Bool
  | .STATS q none => q == 'm'
  | _ => false

theorem cmdReadsCountersSharp_le {cmd : Command} (h : cmdReadsCounters cmd = false) :
    cmdReadsCountersSharp cmd = false := by
  cases cmd <;> try rfl
  rename_i q s
  cases s
  · exact h
  · rfl

section
variable {cfg : Cfg} {i : Nat} {d : Nat} {x : Ctx}

/-- the dispatcher pushes the bump outwards, for every command but `STATS m` (all 41 handlers) -/
theorem dispatch_bc (msg : Message) (cmd : Command) (h : cmdReadsCountersSharp cmd = false) :
    dispatch cfg d msg cmd (x.bc i) = (dispatch cfg d msg cmd x).bc i := by
  cases cmd
  case STATS q s =>
    cases s with
    | some s => exact processStats_bc_server q s
    | none =>
      refine processStats_bc q ?_ none
      intro e
      subst e
      exact absurd h (by decide)
  all_goals (clear h; simp only [dispatch]; bcf)

end

/-- the dispatcher of every command but `STATS m` commutes with the counter bumps -/
theorem bumpCommCmd_of_not_stats (cfg : Cfg) (c : Nat) (msg : Message) (cmd : Command)
    (h : cmdReadsCountersSharp cmd = false) : BumpCommCmd cfg c msg cmd :=
  fun i x => dispatch_bc (x := x) (i := i) msg cmd h

end Irc.C18C
