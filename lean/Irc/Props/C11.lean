/-
  Property C11.  "A user holds server-operator status only after an OPER command naming a
  configured operator with that operator's password from a source matching the operator's mask
  (or through the configured default user modes) and loses it by removing the mode or
  disconnecting; no other command sequence confers it, and no user can change another user's
  modes.  KILL, DIE and SQUIT act only for operators and WALLOPS and STATS only for (local)
  operators - everyone else gets a privilege error and nothing happens; when permitted, KILL
  disconnects exactly the named user telling it who did so, WALLOPS reaches exactly the users
  with mode +w, and DIE ends all sessions and stops the server."

  Model: `processOper`, `authenticate`, `processNick` (HConn), `umodeChar`, `processModeUser`,
  `processMode`, `processStats` (HQuery), `fireKill`, `processKill`, `processDie`,
  `processSquit`, `processWallops` (HRest), `dispatch`, `settleConn`, `teardown` (Step).
  Observations `operOf` / `localOperOf`, the spec predicate `OperGranted` and the helper lemmas
  are in `Irc/Props/C11Lemmas.lean`.  All statements are for ALL configurations and states.
-/
import Irc.Props.C11Lemmas
namespace Irc.C11
open Irc Reply

/-! ## a small configuration for the examples: one operator with a mask -/

def exCfg : Cfg :=
  { operators := [{ name := str "root", password := str "pw", mask := some (str "*!*@10.*") }] }

def exUser (owner : Nat) (src : String) (m : UserModes := {}) : User :=
  { hostname := str "h", name := str "u", realname := str "r", source := str src, modes := m,
    history := { username := str "u", hostname := str "h", realname := str "r" }, owner := owner }

def exConn (id : Nat) (nick src : String) : Conn :=
  { id := id, hostname := str "h", nick := some (str nick), name := some (str "u"),
    source := str src, authenticated := true, hasSender := false, hasQuitSender := false,
    hasPingSender := false }

/-- alice (conn 1, from 10.0.0.1), bob (conn 2, elsewhere, +w), carol (conn 3, +o +w) -/
def exWorld : World :=
  { users := [(str "alice", exUser 1 "alice!~u@10.0.0.1"),
              (str "bob", exUser 2 "bob!~u@192.168.1.1" { wallops := true }),
              (str "carol", exUser 3 "carol!~u@h" { oper := true, wallops := true })]
    conns := [exConn 1 "alice" "alice!~u@10.0.0.1", exConn 2 "bob" "bob!~u@192.168.1.1",
              exConn 3 "carol" "carol!~u@h"]
    wallops := [str "bob", str "carol"]
    operatorsCount := 1
    connsCount := 3 }

def exCtx : Ctx := { w := exWorld }

/-! ## 1. OPER -/

/-- OPER, for a registered sender `nick` (own user `u`):
    * if the specification `OperGranted` holds (configured operator, its password, mask matches
      the source as a glob) the sender gets one 381 line and its own entry becomes `u` with
      `oper := true`;
    * otherwise the whole effect is one error line (464 if the name is configured and the password
      is wrong, 491 in the other cases: unknown name, or mask mismatch) and the world is unchanged;
    * hence the sender is an operator afterwards iff it was one before or the spec holds;
    * in all cases nothing is queued, no other nick's entry changes, and the own entry changes at
      most in `modes.oper`. -/
theorem oper_spec (cfg : Cfg) (c : Nat) (name pw : Str) (x : Ctx) (nick : Str) (u : User)
    (hn : (x.conn c).nick = some nick) (hu : Map.lookup nick x.w.users = some u) :
    let x' := processOper cfg c name pw x
    (OperGranted cfg (x.conn c).source name pw →
       x'.direct = x.direct ++ [':' :: (cfg.name ++ ' ' :: RplYoureOper381 (x.conn c).clientName)] ∧
       Map.lookup nick x'.w.users = some { u with modes := { u.modes with oper := true } }) ∧
    (¬ OperGranted cfg (x.conn c).source name pw →
       x' = x.reply cfg
         (if (∃ op, cfg.findOper name = some op ∧ cfg.pwOk pw op.password = false)
          then ErrPasswdMismatch464 (x.conn c).clientName
          else ErrNoOperHost491 (x.conn c).clientName)) ∧
    (operOf x'.w nick = true ↔ (u.modes.oper = true ∨ OperGranted cfg (x.conn c).source name pw)) ∧
    x'.queued = x.queued ∧
    (∀ n, n ≠ nick → Map.lookup n x'.w.users = Map.lookup n x.w.users) ∧
    (∃ b, Map.lookup nick x'.w.users = some { u with modes := { u.modes with oper := b } }) := by
  intro x'
  have hfr := processOper_frame cfg c name pw x
  have hother : ∀ n, n ≠ nick → Map.lookup n x'.w.users = Map.lookup n x.w.users := by
    intro n hne
    exact hfr.2.2.2.2.2 n (by rw [hn]; intro e; cases e; exact hne rfl)
  by_cases hg : OperGranted cfg (x.conn c).source name pw
  · obtain ⟨h1, h2, _, _⟩ := processOper_granted hn hu hg
    refine ⟨fun _ => ⟨h1, h2⟩, fun h => absurd hg h, ?_, hfr.1, hother, ⟨true, h2⟩⟩
    show operOf (processOper cfg c name pw x).w nick = true ↔ _
    simp [operOf, h2, hg]
  · have h := processOper_refused hn hu hg
    have hx : x' = _ := h
    refine ⟨fun h' => absurd h' hg, fun _ => h, ?_, hfr.1, hother, ⟨u.modes.oper, ?_⟩⟩
    · rw [hx]; simp [operOf, hu, hg]
    · rw [hx]; simpa using hu

/-- OPER never touches any entry but the sender's own, whatever the state (even a broken one). -/
theorem oper_only_own (cfg : Cfg) (c : Nat) (name pw : Str) (x : Ctx) (n : Str)
    (h : (x.conn c).nick ≠ some n) :
    Map.lookup n (processOper cfg c name pw x).w.users = Map.lookup n x.w.users :=
  (processOper_frame cfg c name pw x).2.2.2.2.2 n h

/-- the mask test is exact glob semantics on the connection's source (C14) -/
example : OperGranted exCfg (exCtx.conn 1).source (str "root") (str "pw") :=
  ⟨_, rfl, by decide, Or.inr ⟨_, rfl, by decide⟩⟩

example : (processOper exCfg 1 (str "root") (str "pw") exCtx).direct =
    [(str ":irc.irc " ++ Reply.RplYoureOper381 (client := str "alice"))] := by decide
example : operOf (processOper exCfg 1 (str "root") (str "pw") exCtx).w (str "alice") = true := by decide
example : operOf exCtx.w (str "alice") = false := by decide
-- wrong password: 464
example : (processOper exCfg 1 (str "root") (str "no") exCtx).direct =
    [(str ":irc.irc " ++ Reply.ErrPasswdMismatch464 (client := str "alice"))] := by decide
-- unknown name: 491
example : (processOper exCfg 1 (str "toor") (str "pw") exCtx).direct =
    [(str ":irc.irc " ++ Reply.ErrNoOperHost491 (client := str "alice"))] := by decide
-- right name and password from a source the mask does not match: 491, still no operator
example : (processOper exCfg 2 (str "root") (str "pw") exCtx).direct =
    [(str ":irc.irc " ++ Reply.ErrNoOperHost491 (client := str "bob"))] := by decide
example : operOf (processOper exCfg 2 (str "root") (str "pw") exCtx).w (str "bob") = false := by decide

/-! ## 2. MODE never confers operator status -/

/-- one letter of a user MODE never raises `oper` or `localOper` -/
theorem umode_never_grants (cfg : Cfg) (cn : Conn) (nick : Str) (a : UModeAcc) (ch : Char) :
    ((umodeChar cfg cn nick a ch).modes.oper = true → a.modes.oper = true) ∧
    ((umodeChar cfg cn nick a ch).modes.localOper = true → a.modes.localOper = true) :=
  ⟨umodeChar_oper cfg cn nick a ch, fun h => by rwa [umodeChar_localOper] at h⟩

/-- a whole user MODE command never raises either flag, for any nick -/
theorem mode_user_never_grants (cfg : Cfg) (c : Nat) (target : Str) (modes : List (Str × List Str))
    (x : Ctx) (n : Str) :
    (operOf (processModeUser cfg c target modes x).w n = true → operOf x.w n = true) ∧
    (localOperOf (processModeUser cfg c target modes x).w n = true → localOperOf x.w n = true) :=
  processModeUser_noRise cfg c target modes x n

/-- `+o` by a user without `+o` (resp. `+O` without `+O`): exactly one 481 line, nothing else -/
theorem mode_user_plus_o_refused (cfg : Cfg) (c : Nat) (target : Str) (args : List Str) (x : Ctx)
    (u : User) (hu : Map.lookup target x.w.users = some u) :
    (u.modes.oper = false →
      processModeUser cfg c target [(['+', 'o'], args)] x =
        x.reply cfg (ErrNoPrivileges481 (x.conn c).clientName)) ∧
    (u.modes.localOper = false →
      processModeUser cfg c target [(['+', 'O'], args)] x =
        x.reply cfg (ErrNoPrivileges481 (x.conn c).clientName)) :=
  processModeUser_plus_refused cfg c target args x u hu

/-- one `+o` / `+O` letter, anywhere in a mode string: a 481 reply and no change of the modes -/
theorem umode_plus_o_refused (cfg : Cfg) (cn : Conn) (nick : Str) (a : UModeAcc) (hs : a.modeSet = true) :
    (a.modes.oper = false → umodeChar cfg cn nick a 'o' =
       { a with x := a.x.reply cfg (ErrNoPrivileges481 cn.clientName) }) ∧
    (a.modes.localOper = false → umodeChar cfg cn nick a 'O' =
       { a with x := a.x.reply cfg (ErrNoPrivileges481 cn.clientName) }) := by
  constructor <;> intro h <;> simp [umodeChar, hs, h]

example : (processModeUser exCfg 1 (str "alice") [(str "+o", [])] exCtx).direct =
    [(str ":irc.irc " ++ Reply.ErrNoPrivileges481 (client := str "alice"))] := by decide
example : operOf (processModeUser exCfg 1 (str "alice") [(str "+oO", []), (str "+o-i+O", [])] exCtx).w
    (str "alice") = false := by decide
-- an operator can drop the flag
example : operOf (processModeUser exCfg 3 (str "carol") [(str "-o", [])] exCtx).w (str "carol") = false := by
  decide

/-! ## 3. nobody changes another user's modes -/

/-- MODE with a non-channel target other than the sender's own nick: exactly one line
    (502 if the target is a user, 401 otherwise), the world is unchanged. -/
theorem modes_only_own (cfg : Cfg) (c : Nat) (t : Str) (modes : List (Str × List Str)) (x : Ctx)
    (nick : Str) (hn : (x.conn c).nick = some nick) (hc : validateChannel t = false) (hne : t ≠ nick) :
    processMode cfg c t modes x =
      x.reply cfg (if Map.contains t x.w.users then ErrUsersDontMatch502 (x.conn c).clientName
                   else ErrNoSuchNick401 (x.conn c).clientName t) :=
  processMode_foreign cfg c t modes x nick hn hc hne

/-- … and when MODE does act on a user (`processModeUser` is only reached with
    `target` = own nick), the only entry of `users` that changes is `target`'s, and there only
    `modes`; channels, connections, `srvQuit` and the queues are untouched. -/
theorem mode_user_only_target (cfg : Cfg) (c : Nat) (target : Str) (modes : List (Str × List Str))
    (x : Ctx) :
    let x' := processModeUser cfg c target modes x
    (∀ n, n ≠ target → Map.lookup n x'.w.users = Map.lookup n x.w.users) ∧
    (∀ u, Map.lookup target x.w.users = some u →
       ∃ m, Map.lookup target x'.w.users = some { u with modes := m }) ∧
    (Map.lookup target x.w.users = none → Map.lookup target x'.w.users = none) ∧
    x'.w.channels = x.w.channels ∧ x'.w.conns = x.w.conns ∧ x'.w.srvQuit = x.w.srvQuit ∧
    x'.queued = x.queued := by
  intro x'
  obtain ⟨m, _, hus, h1, h2, h3, h4⟩ := processModeUser_effect cfg c target modes x
  refine ⟨?_, ?_, ?_, h1, h2, h3, h4⟩
  · intro n hne
    show Map.lookup n (processModeUser cfg c target modes x).w.users = _
    rw [hus, Map.lookup_modify]; simp [Ne.symm hne]
  · intro u hu
    refine ⟨m, ?_⟩
    show Map.lookup target (processModeUser cfg c target modes x).w.users = _
    rw [hus, Map.lookup_modify]; simp [hu]
  · intro hu
    show Map.lookup target (processModeUser cfg c target modes x).w.users = _
    rw [hus, Map.lookup_modify]; simp [hu]

example : (processMode exCfg 1 (str "bob") [(str "+i", [])] exCtx).direct =
    [(str ":irc.irc " ++ Reply.ErrUsersDontMatch502 (client := str "alice"))] := by decide
example : (processMode exCfg 1 (str "zed") [(str "+i", [])] exCtx).direct =
    [(str ":irc.irc " ++ Reply.ErrNoSuchNick401 (client := str "alice") (nick := str "zed"))] := by decide
example : (processMode exCfg 3 (str "alice") [(str "+o", [])] exCtx).w.users = exWorld.users := by decide

/-! ## 5. privileged commands -/

/-- KILL, for a registered sender `nick` (own user `user`):
    * without `+o` (local operators included): one 481 line, nothing else;
    * with `+o`, unknown victim: one 401 line, nothing else;
    * with `+o`, victim `v` (whose quit signal has not been fired yet): no reply, nothing queued;
      exactly the victim's entry gets `killed := true`, exactly the connection owning the victim
      gets `killedBy := some (nick, comment)`; every other user and connection, and all channels,
      are unchanged. -/
theorem kill_requires_oper (cfg : Cfg) (c : Nat) (victim comment : Str) (x : Ctx) (nick : Str)
    (user : User) (hn : (x.conn c).nick = some nick) (hu : Map.lookup nick x.w.users = some user) :
    let x' := processKill cfg c victim comment x
    (user.modes.oper = false → x' = x.reply cfg (ErrNoPrivileges481 (x.conn c).clientName)) ∧
    (user.modes.oper = true → Map.lookup victim x.w.users = none →
       x' = x.reply cfg (ErrNoSuchNick401 (x.conn c).clientName victim)) ∧
    (user.modes.oper = true → ∀ v, Map.lookup victim x.w.users = some v → v.killed = false →
       x'.direct = x.direct ∧ x'.queued = x.queued ∧
       (∀ m, Map.lookup m x'.w.users =
          if m = victim then some { v with killed := true } else Map.lookup m x.w.users) ∧
       (∀ i, x'.w.conn? i =
          if i = v.owner then (x.w.conn? i).map (fun cn => { cn with killedBy := some (nick, comment) })
          else x.w.conn? i) ∧
       x'.w.channels = x.w.channels ∧ x'.w.wallops = x.w.wallops ∧ x'.w.srvQuit = x.w.srvQuit ∧
       x'.w.panicked = x.w.panicked) := by
  intro x'
  refine ⟨?_, ?_, ?_⟩
  · intro ho
    show processKill cfg c victim comment x = _
    unfold processKill; simp [hn, hu, ho]
  · intro ho hv
    show processKill cfg c victim comment x = _
    have : Map.contains victim x.w.users = false := (Map.contains_false_iff _ _).mpr hv
    unfold processKill; simp [hn, hu, ho, this]
  · intro ho v hv hk
    have hc : Map.contains victim x.w.users = true := (Map.contains_iff _ _).mpr ⟨v, hv⟩
    have e : x' = x.modifyW (fireKill nick comment victim) := by
      show processKill cfg c victim comment x = _
      unfold processKill; simp [hn, hu, ho, hc]
    obtain ⟨f1, f2, f3, f4, _⟩ := fireKill_frame nick comment victim x.w
    rw [e]
    refine ⟨rfl, rfl, ?_, ?_, f1, f2, f3, f4⟩
    · intro m
      simp only [Ctx.modifyW_w]
      rw [fireKill_users]
      by_cases hm : m = victim
      · subst hm; simp [hv]
      · simp [hm]
    · intro i
      simp only [Ctx.modifyW_w]
      rw [fireKill_conn?]
      by_cases hi : i = v.owner
      · subst hi
        simp [hv, hk]
        rfl
      · have hi' : ¬ v.owner = i := fun e => hi e.symm
        simp [hv, hi, hi']

/-- The killed connection is told who did it, then torn down: on a live connection with a
    pending signal `(k, cm)`, the settling phase writes
    `":" ++ server ++ " ERROR :User killed by " ++ k ++ ": " ++ cm` to that connection, removes
    the connection, and (if it was registered as `n`) removes user `n`. -/
theorem killed_is_told (cfg : Cfg) (w : World) (outs : List (Nat × Str)) (evs : List Str) (c : Nat)
    (cn : Conn) (k cm : Str) (hc : w.conn? c = some cn) (hq : cn.quit = false)
    (hk : cn.killedBy = some (k, cm)) :
    let r := settleConn cfg (w, outs, evs) c
    r.2.1 = outs ++ [(c, str ":" ++ cfg.name ++ str " ERROR :User killed by " ++ k ++ str ": " ++ cm)] ∧
    r.2.2 = evs ++ [str "closed " ++ natToStr c] ∧
    r.1 = teardown (w.setConn { cn with quit := true, killedBy := none }) c ∧
    r.1.conn? c = none ∧
    (∀ n, cn.authenticated = true → cn.nick = some n → Map.lookup n r.1.users = none) := by
  intro r
  have hid : cn.id = c := conn?_id hc
  have hr : r = (teardown (w.setConn { cn with quit := true, killedBy := none }) c,
      outs ++ [(c, ':' :: (cfg.name ++ ' ' :: (str "ERROR :User killed by " ++ k ++ str ": " ++ cm)))],
      evs ++ [str "closed " ++ natToStr c]) := by
    show settleConn cfg (w, outs, evs) c = _
    unfold settleConn
    simp [hc, hq, hk]
  have hcn' : (w.setConn { cn with quit := true, killedBy := none }).conn? c =
      some { cn with quit := true, killedBy := none } := by
    rw [conn?_setConn]; simp [hid, hc]
  refine ⟨?_, ?_, ?_, ?_, ?_⟩
  · rw [hr]; simp [str]
  · rw [hr]
  · rw [hr]
  · rw [hr]
    simp only
    unfold teardown
    rw [hcn']
    simp only [World.conn?]
    rw [List.find?_eq_none]
    intro y hy
    simp only [List.mem_filter] at hy
    simpa using hy.2
  · intro n ha hnk
    rw [hr]
    simp only
    unfold teardown
    rw [hcn']
    simp only [ha, hnk, ↓reduceIte]
    exact removeUser_lookup_self _ n

example : (processKill exCfg 1 (str "bob") (str "bye") exCtx).direct =
    [(str ":irc.irc " ++ Reply.ErrNoPrivileges481 (client := str "alice"))] := by decide
example : (processKill exCfg 3 (str "zed") (str "bye") exCtx).direct =
    [(str ":irc.irc " ++ Reply.ErrNoSuchNick401 (client := str "carol") (nick := str "zed"))] := by decide
example : ((processKill exCfg 3 (str "bob") (str "bye") exCtx).w.conns.map (·.killedBy)) =
    [none, some (str "carol", str "bye"), none] := by decide
example : (settleConn exCfg ((processKill exCfg 3 (str "bob") (str "bye") exCtx).w, [], []) 2).2.1 =
    [(2, str ":irc.irc ERROR :User killed by carol: bye")] := by decide
example : Map.keys (settleConn exCfg ((processKill exCfg 3 (str "bob") (str "bye") exCtx).w, [], []) 2).1.users =
    [str "alice", str "carol"] := by decide

/-- DIE, for a registered sender `nick` (own user `user`), with
    `msg = message.getD "Quitting from DIE"`:
    * without `+o`: one 483 line, nothing else;
    * with `+o`: no reply, nothing queued, `srvQuit` is set, EVERY user's quit signal is fired
      (`killed := true`), every connection owning a not-yet-signalled user gets
      `killedBy := some (nick, msg)` (so `killed_is_told` applies to each of them), connections
      owning no such user and all channels are unchanged. -/
theorem die_requires_oper (cfg : Cfg) (c : Nat) (message : Option Str) (x : Ctx) (nick : Str)
    (user : User) (hn : (x.conn c).nick = some nick) (hu : Map.lookup nick x.w.users = some user) :
    let x' := processDie cfg c message x
    let msg := message.getD (str "Quitting from DIE")
    (user.modes.oper = false → x' = x.reply cfg (ErrCantKillServer483 (x.conn c).clientName)) ∧
    (user.modes.oper = true →
       x'.direct = x.direct ∧ x'.queued = x.queued ∧ x'.w.srvQuit = true ∧
       (∀ m, Map.lookup m x'.w.users = (Map.lookup m x.w.users).map (fun v => { v with killed := true })) ∧
       (∀ i, (∃ n v, Map.lookup n x.w.users = some v ∧ v.killed = false ∧ v.owner = i) →
          x'.w.conn? i = (x.w.conn? i).map (fun cn => { cn with killedBy := some (nick, msg) })) ∧
       (∀ i, (¬ ∃ n v, Map.lookup n x.w.users = some v ∧ v.killed = false ∧ v.owner = i) →
          x'.w.conn? i = x.w.conn? i) ∧
       x'.w.channels = x.w.channels ∧ x'.w.wallops = x.w.wallops ∧ x'.w.panicked = x.w.panicked) := by
  intro x' msg
  constructor
  · intro ho
    show processDie cfg c message x = _
    unfold processDie; simp [hn, hu, ho]
  · intro ho
    have e : x' = x.modifyW (fun w => { killAll nick msg (Map.keys w.users) w with srvQuit := true }) := by
      show processDie cfg c message x = _
      unfold processDie; simp [hn, hu, ho]; rfl
    have hhit : ∀ i, Hit x.w (Map.keys x.w.users) i ↔
        ∃ n v, Map.lookup n x.w.users = some v ∧ v.killed = false ∧ v.owner = i := by
      intro i
      constructor
      · rintro ⟨n, _, v, h1, h2, h3⟩; exact ⟨n, v, h1, h2, h3⟩
      · rintro ⟨n, v, h1, h2, h3⟩
        exact ⟨n, (Map.mem_keys_iff _ _).mpr ⟨v, h1⟩, v, h1, h2, h3⟩
    obtain ⟨f1, f2, _, f4, _⟩ := killAll_frame nick msg (Map.keys x.w.users) x.w
    have hconn : ∀ (w' : World) i, World.conn? { w' with srvQuit := true } i = w'.conn? i := fun _ _ => rfl
    rw [e]
    refine ⟨rfl, rfl, rfl, ?_, ?_, ?_, f1, f2, f4⟩
    · intro m
      simp only [Ctx.modifyW_w]
      rw [killAll_users]
      split
      · rfl
      · rename_i hm
        rw [Map.lookup_none_of_not_mem_keys _ _ hm]; rfl
    · intro i hi
      simp only [Ctx.modifyW_w, hconn]
      rw [(killAll_conn? nick msg _ x.w i).1 ((hhit i).mpr hi)]; rfl
    · intro i hi
      simp only [Ctx.modifyW_w, hconn]
      rw [(killAll_conn? nick msg _ x.w i).2 (fun h => hi ((hhit i).mp h))]

/-- SQUIT naming another server is unsupported (one 400 line); SQUIT naming this server is DIE
    with the comment as message, so `die_requires_oper` applies: non-operators get 483. -/
theorem squit_requires_oper (cfg : Cfg) (c : Nat) (server comment : Str) (x : Ctx) :
    (cfg.name ≠ server → processSquit cfg c server comment x =
       x.reply cfg (ErrUnknownError400 (x.conn c).clientName (str "SQUIT") none (str "Server unsupported"))) ∧
    (cfg.name = server → processSquit cfg c server comment x = processDie cfg c (some comment) x) ∧
    (∀ nick user, (x.conn c).nick = some nick → Map.lookup nick x.w.users = some user →
       user.modes.oper = false → cfg.name = server →
       processSquit cfg c server comment x = x.reply cfg (ErrCantKillServer483 (x.conn c).clientName)) := by
  refine ⟨?_, ?_, ?_⟩
  · intro h; unfold processSquit; simp [h, unsupported, str]
  · intro h; unfold processSquit; simp [h]
  · intro nick user hn hu ho h
    have : processSquit cfg c server comment x = processDie cfg c (some comment) x := by
      unfold processSquit; simp [h]
    rw [this]
    exact (die_requires_oper cfg c (some comment) x nick user hn hu).1 ho

example : (processDie exCfg 1 none exCtx).direct = [(str ":irc.irc " ++ Reply.ErrCantKillServer483 (client := str "alice"))] := by
  decide
example : (processSquit exCfg 1 (str "irc.irc") (str "x") exCtx).direct =
    [(str ":irc.irc " ++ Reply.ErrCantKillServer483 (client := str "alice"))] := by decide
example : (processDie exCfg 3 none exCtx).w.srvQuit = true ∧
    (processDie exCfg 3 none exCtx).w.conns.map (·.killedBy) =
      [some (str "carol", str "Quitting from DIE"), some (str "carol", str "Quitting from DIE"),
       some (str "carol", str "Quitting from DIE")] := by decide

/-- WALLOPS, for a registered sender `nick` (own user `user`):
    * neither `+o` nor `+O`: one 481 line, nothing queued, nothing else;
    * otherwise: no reply; the line `msg.render source` is queued exactly once per entry of
      `wallops` (to the connection owning that user), in that order; under the invariant
      (`InvCore.wallopsSet`) the entries of `wallops` are exactly the users with mode `+w`, and
      the world is unchanged. -/
theorem wallops_audience (cfg : Cfg) (c : Nat) (msg : Message) (x : Ctx) (nick : Str)
    (user : User) (hn : (x.conn c).nick = some nick) (hu : Map.lookup nick x.w.users = some user) :
    let x' := processWallops cfg c msg x
    (user.modes.isLocalOper = false → x' = x.reply cfg (ErrNoPrivileges481 (x.conn c).clientName)) ∧
    (user.modes.isLocalOper = true →
       x'.direct = x.direct ∧ x'.w.users = x.w.users ∧
       x'.queued = x.queued ++ x.w.wallops.filterMap (fun n =>
         (Map.lookup n x.w.users).map (fun u => (u.owner, msg.render (x.conn c).source))) ∧
       (InvCore x.w →
          x'.w = x.w ∧
          (∀ n, n ∈ x.w.wallops ↔ ∃ u, Map.lookup n x.w.users = some u ∧ u.modes.wallops = true) ∧
          x'.queued = x.queued ++ x.w.wallops.filterMap (fun n =>
            (Map.lookup n x.w.users).bind (fun u =>
              if u.modes.wallops then some (u.owner, msg.render (x.conn c).source) else none)))) := by
  intro x'
  constructor
  · intro ho
    show processWallops cfg c msg x = _
    unfold processWallops; simp [hn, hu, ho]
  · intro ho
    have e : x' = x.sendAll x.w.wallops (msg.render (x.conn c).source) := by
      show processWallops cfg c msg x = _
      unfold processWallops; simp [hn, hu, ho]
    rw [e]
    refine ⟨sendAll_direct _ _ _, sendAll_users _ _ _, sendAll_queued _ _ _, ?_⟩
    intro inv
    have hw : ∀ n, n ∈ x.w.wallops ↔ ∃ u, Map.lookup n x.w.users = some u ∧ u.modes.wallops = true :=
      fun n => (KSet.mem_iff n _).symm.trans (inv.wallopsSet n)
    refine ⟨?_, hw, ?_⟩
    · apply sendAll_w
      intro n hm
      obtain ⟨u, h1, _⟩ := (hw n).mp hm
      exact ⟨u, h1⟩
    · rw [sendAll_queued]
      congr 1
      apply filterMap_congr'
      intro n hm
      obtain ⟨u, h1, h2⟩ := (hw n).mp hm
      simp [h1, h2]

example : (processWallops exCfg 1 (Message.mk none (str "WALLOPS") [str "hi"]) exCtx).direct =
    [(str ":irc.irc " ++ Reply.ErrNoPrivileges481 (client := str "alice"))] ∧
    (processWallops exCfg 1 (Message.mk none (str "WALLOPS") [str "hi"]) exCtx).queued = [] := by decide
example : (processWallops exCfg 3 (Message.mk none (str "WALLOPS") [str "hi"]) exCtx).queued =
    [(2, str ":carol!~u@h WALLOPS hi"), (3, str ":carol!~u@h WALLOPS hi")] := by decide

/-- STATS (own server), for a registered sender: neither `+o` nor `+O` → one 481 line, nothing
    else; otherwise only replies (world and queues unchanged), ending with 219. -/
theorem stats_requires_local_oper (cfg : Cfg) (c : Nat) (stat : Char) (x : Ctx) (nick : Str)
    (user : User) (hn : (x.conn c).nick = some nick) (hu : Map.lookup nick x.w.users = some user) :
    let x' := processStats cfg c stat none x
    (user.modes.isLocalOper = false → x' = x.reply cfg (ErrNoPrivileges481 (x.conn c).clientName)) ∧
    (user.modes.isLocalOper = true →
       x'.w = x.w ∧ x'.queued = x.queued ∧
       x'.direct.getLast? = some (':' :: (cfg.name ++ ' ' :: RplEndOfStats219 (x.conn c).clientName stat))) := by
  intro x'
  constructor
  · intro ho
    show processStats cfg c stat none x = _
    unfold processStats; simp [hn, hu, ho]
  · intro ho
    show (processStats cfg c stat none x).w = x.w ∧ (processStats cfg c stat none x).queued = x.queued ∧
      (processStats cfg c stat none x).direct.getLast? = _
    unfold processStats
    simp only [hn, hu, ho, ↓reduceIte]
    refine ⟨?_, ?_, ?_⟩
    · simp only [Ctx.reply_w]
      split
      · rfl
      · split
        · refine (foldl_w_queued _ ?_ _ x).1
          intro y b; split <;> exact ⟨rfl, rfl⟩
        · rfl
    · simp only [Ctx.reply_queued]
      split
      · rfl
      · split
        · refine (foldl_w_queued _ ?_ _ x).2
          intro y b; split <;> exact ⟨rfl, rfl⟩
        · rfl
    · simp

example : (processStats exCfg 1 'u' none exCtx).direct =
    [(str ":irc.irc " ++ Reply.ErrNoPrivileges481 (client := str "alice"))] := by decide
example : (processStats exCfg 3 'u' none exCtx).direct =
    [str ":irc.irc 242 carol :Server Up 0 days 0:00:00", str ":irc.irc 219 carol u :End of STATS report"] := by
  decide

/-! ## 4. operator status rises only through OPER (or default modes at registration) -/

/-- THE MAIN THEOREM, over all 41 commands.  If nick `n` is an operator after a dispatched command
    and was not one before, then
    (a) the command is `OPER name pw` sent by `n` itself (an existing user) and the specification
        `OperGranted` holds (configured operator, its password, mask matches the source); or
    (b) `n` was not a user before, and either
        - it was created by the registration (CAP/PASS/NICK/USER) of the acting, so far
          unauthenticated connection, which owns it, and `cfg.defaultUserModes.oper = true`; or
        - the command is `NICK n` by a registered connection whose old nick `o` was an operator:
          the entry moved from `o` (now gone) to `n` (status follows the identity, C15). -/
theorem oper_rises_only_by_oper (cfg : Cfg) (x : Ctx) (c : Nat) (msg : Message) (cmd : Command) (n : Str) :
    let x' := dispatch cfg c msg cmd x
    operOf x'.w n = true → operOf x.w n = false →
    (∃ name pw, cmd = .OPER name pw ∧ (x.conn c).nick = some n ∧
        (∃ u, Map.lookup n x.w.users = some u) ∧ OperGranted cfg (x.conn c).source name pw) ∨
    (Map.lookup n x.w.users = none ∧
      ((cfg.defaultUserModes.oper = true ∧ isRegCmd cmd = true ∧ (x.conn c).authenticated = false ∧
          ∃ u, Map.lookup n x'.w.users = some u ∧ u.owner = c) ∨
       (cmd = .NICK n ∧ (x.conn c).authenticated = true ∧
          ∃ o, (x.conn c).nick = some o ∧ operOf x.w o = true ∧ Map.lookup o x'.w.users = none))) := by
  intro x' h1 h0
  rcases dispatch_entry_cases cfg c msg cmd x n with hA | ⟨name, pw, u, hc, hn, hu, hg, _⟩ |
      ⟨hl, hr, ha, u, hu, ho, hm, _⟩ | ⟨hl, hc, ha, o, user, src, hn, hu, hnew, hold⟩
  · have := hA.1 h1; rw [h0] at this; cases this
  · exact Or.inl ⟨name, pw, hc, hn, ⟨u, hu⟩, hg⟩
  · right
    refine ⟨hl, Or.inl ⟨?_, hr, ha, u, hu, ho⟩⟩
    have : operOf x'.w n = u.modes.oper := by
      show operOf (dispatch cfg c msg cmd x).w n = _
      simp [operOf, hu]
    rw [← hm, ← this]; exact h1
  · right
    refine ⟨hl, Or.inr ⟨hc, ha, o, hn, ?_, hold⟩⟩
    have : operOf x'.w n = user.modes.oper := by
      show operOf (dispatch cfg c msg cmd x).w n = _
      simp [operOf, hnew]
    rw [this] at h1
    simp [operOf, hu, h1]

/-- The same for local-operator status (`+O`): no command confers it.  It can only appear on a
    nick that was not a user before: through the configured default modes at registration, or by
    moving with its owner's NICK change. -/
theorem local_oper_never_rises (cfg : Cfg) (x : Ctx) (c : Nat) (msg : Message) (cmd : Command) (n : Str) :
    let x' := dispatch cfg c msg cmd x
    localOperOf x'.w n = true → localOperOf x.w n = false →
    Map.lookup n x.w.users = none ∧
      ((cfg.defaultUserModes.localOper = true ∧ isRegCmd cmd = true ∧ (x.conn c).authenticated = false ∧
          ∃ u, Map.lookup n x'.w.users = some u ∧ u.owner = c) ∨
       (cmd = .NICK n ∧ (x.conn c).authenticated = true ∧
          ∃ o, (x.conn c).nick = some o ∧ localOperOf x.w o = true ∧ Map.lookup o x'.w.users = none)) := by
  intro x' h1 h0
  rcases dispatch_entry_cases cfg c msg cmd x n with hA | ⟨name, pw, u, hc, hn, hu, hg, hnew⟩ |
      ⟨hl, hr, ha, u, hu, ho, _, hm⟩ | ⟨hl, hc, ha, o, user, src, hn, hu, hnew, hold⟩
  · have := hA.2 h1; rw [h0] at this; cases this
  · -- OPER does not touch `localOper`
    exfalso
    have e1 : localOperOf x'.w n = u.modes.localOper := by
      show localOperOf (dispatch cfg c msg cmd x).w n = _
      simp [localOperOf, hnew]
    have e0 : localOperOf x.w n = u.modes.localOper := by simp [localOperOf, hu]
    rw [e1] at h1; rw [e0, h1] at h0; cases h0
  · refine ⟨hl, Or.inl ⟨?_, hr, ha, u, hu, ho⟩⟩
    have : localOperOf x'.w n = u.modes.localOper := by
      show localOperOf (dispatch cfg c msg cmd x).w n = _
      simp [localOperOf, hu]
    rw [← hm, ← this]; exact h1
  · refine ⟨hl, Or.inr ⟨hc, ha, o, hn, ?_, hold⟩⟩
    have : localOperOf x'.w n = user.modes.localOper := by
      show localOperOf (dispatch cfg c msg cmd x).w n = _
      simp [localOperOf, hnew]
    rw [this] at h1
    simp [localOperOf, hu, h1]

/-- per-command form for the 36 commands that are neither OPER nor a registration command:
    no operator flag of any nick rises. -/
theorem other_commands_never_grant (cfg : Cfg) (x : Ctx) (c : Nat) (msg : Message) (cmd : Command)
    (h : isSpecial cmd = false) (n : Str) :
    (operOf (dispatch cfg c msg cmd x).w n = true → operOf x.w n = true) ∧
    (localOperOf (dispatch cfg c msg cmd x).w n = true → localOperOf x.w n = true) :=
  dispatch_keeps_oper cfg c x msg cmd h n

/-- the same through `handleLine` (parse, count, registration gate, dispatch): a line that raises
    `n` to operator parses to a command for which `oper_rises_only_by_oper` applies. -/
theorem handleLine_oper_rise (cfg : Cfg) (c : Nat) (s : Str) (x : Ctx) (n : Str)
    (h1 : operOf (handleLine cfg c s x).w n = true) (h0 : operOf x.w n = false) :
    ∃ msg cmd, Message.parse s = .ok msg ∧ Command.fromMessage msg = .ok cmd ∧
      handleLine cfg c s x = dispatch cfg c msg cmd (x.modifyW (fun w => bumpCount w cmd.id.index)) := by
  have hno : ∀ y : Ctx, y.w.users = x.w.users → operOf y.w n = true → False := by
    intro y e h
    have : operOf y.w n = operOf x.w n := by unfold operOf; rw [e]
    rw [this, h0] at h; cases h
  cases hp : Message.parse s with
  | error e =>
    exfalso
    cases e <;> (unfold handleLine at h1; simp only [hp] at h1; exact hno _ rfl h1)
  | ok msg =>
    cases hc : Command.fromMessage msg with
    | error e =>
      exfalso
      unfold handleLine at h1; simp only [hp, hc] at h1; exact hno _ rfl h1
    | ok cmd =>
      refine ⟨msg, cmd, rfl, hc, ?_⟩
      unfold handleLine at h1 ⊢
      simp only [hp, hc] at h1 ⊢
      split
      · exfalso
        rename_i hg
        simp only [hg, ↓reduceIte] at h1
        exact hno _ rfl h1
      · rfl

-- examples: each disjunct of the conclusion occurs
example : operOf (dispatch exCfg 1 ⟨none, str "OPER", []⟩ (.OPER (str "root") (str "pw")) exCtx).w (str "alice") = true ∧
    operOf exCtx.w (str "alice") = false := by decide
-- registration with default `+o`
example :
    let cfg : Cfg := { defaultUserModes := { oper := true } }
    let w : World := { conns := [{ id := 7, hostname := str "h", name := some (str "u"), source := str "~u@h" }], connsCount := 1 }
    operOf (dispatch cfg 7 ⟨none, str "NICK", []⟩ (.NICK (str "dave")) { w := w }).w (str "dave") = true := by decide
-- rename of an operator
example : operOf (dispatch exCfg 3 ⟨none, str "NICK", [str "carla"]⟩ (.NICK (str "carla")) exCtx).w (str "carla") = true ∧
    operOf (dispatch exCfg 3 ⟨none, str "NICK", [str "carla"]⟩ (.NICK (str "carla")) exCtx).w (str "carol") = false := by
  decide

/-! ## losing operator status: `MODE -o`, disconnecting -/

/-- `MODE nick -o` (also spelled `-O`, see the note below) by an operator drops `+o`. -/
theorem oper_lost_by_minus_o (cfg : Cfg) (c : Nat) (target : Str) (args : List Str) (x : Ctx) :
    operOf (processModeUser cfg c target [(['-', 'o'], args)] x).w target = false ∧
    operOf (processModeUser cfg c target [(['-', 'O'], args)] x).w target = false := by
  constructor <;>
  · cases hu : Map.lookup target x.w.users with
    | none => simp [processModeUser, hu, operOf]
    | some u =>
      cases ho : u.modes.oper <;> cases hl : u.modes.localOper <;>
        simp [processModeUser, hu, umodeChar, ho, hl, operOf, Map.lookup_modify, Ctx.modifyW, ite_world_users]

/-- MODEL/CODE ODDITY (faithful to `srv_query_cmds.rs`): no MODE letter ever changes `localOper`
    (`-O` clears `oper` instead), so `+O` obtained from the default user modes can never be
    dropped by its holder; it ends only with the session. -/
theorem mode_user_localOper_unchanged (cfg : Cfg) (c : Nat) (target : Str) (modes : List (Str × List Str))
    (x : Ctx) (n : Str) :
    localOperOf (processModeUser cfg c target modes x).w n = localOperOf x.w n := by
  obtain ⟨m, hm, hus, _⟩ := processModeUser_effect cfg c target modes x
  unfold localOperOf
  rw [hus, Map.lookup_modify]
  by_cases ht : target = n
  · subst ht
    cases hl : Map.lookup target x.w.users with
    | none => simp
    | some u => simp [(hm u hl).2]
  · simp [ht]

/-- disconnecting: tearing down the connection registered as `n` removes user `n`, so `n` holds
    neither flag afterwards (a later user of that nick starts from the default modes). -/
theorem oper_lost_by_disconnect (w : World) (c : Nat) (cn : Conn) (n : Str)
    (hc : w.conn? c = some cn) (ha : cn.authenticated = true) (hn : cn.nick = some n) :
    Map.lookup n (teardown w c).users = none ∧
    operOf (teardown w c) n = false ∧ localOperOf (teardown w c) n = false := by
  have h : Map.lookup n (teardown w c).users = none := by
    unfold teardown
    simp only [hc, ha, hn, ↓reduceIte]
    exact removeUser_lookup_self _ n
  exact ⟨h, by simp [operOf, h], by simp [localOperOf, h]⟩

example : localOperOf (processModeUser exCfg 1 (str "a") [(str "-O", [])]
    { w := { users := [(str "a", exUser 1 "a!~u@h" { localOper := true })] } }).w (str "a") = true := by decide

end Irc.C11
