/-
  Property C15.  "An accepted NICK change by a registered user transfers everything attached
  to the old nickname to the new one - channel memberships and ranks, user modes including
  operator status and WALLOPS reception, away state, pending invitations - frees the old
  nickname for others, records it for WHOWAS, and is announced to the user itself and to
  everyone sharing a channel with it.  A NICK naming a nickname held by another user, or a
  syntactically invalid one, is refused with an error and changes nothing."

  Model: `Irc.processNick` (conn_cmds.rs `process_nick`), `Channel.renameUser`, `renameIn`,
  `World.pushHistory`; the syntactic check is `Command.validate` inside `Command.fromMessage`,
  reached through `handleLine`.  Helper lemmas: `Irc/Props/IdentLemmas.lean`.
  All statements are for ALL worlds satisfying the (mid-operation) invariant `InvCore`.
-/
import Irc.Props.IdentLemmas
namespace Irc.C15
open Irc

/-! ## 0. vocabulary of the statements -/

/-- The situation the theorems talk about: connection `c` is registered (authenticated) under
    the nickname `old`, whose user record is `u`, in a world satisfying the invariant. -/
structure Registered (x : Ctx) (c : Nat) (old : Str) (u : User) : Prop where
  auth : (x.conn c).authenticated = true
  nick : (x.conn c).nick = some old
  user : Map.lookup old x.w.users = some u
  inv : InvCore x.w

/-- `nick!~name@host` (the `~name` part only if a user name is known, which is always the case
    for a registered connection). -/
def sourceOf (nick : Str) (name : Option Str) (host : Str) : Str :=
  nick ++ ['!'] ++ (match name with | some n => '~' :: n | none => []) ++ ('@' :: host)

/-- the source string of connection `c` once it carries the nickname `new` -/
def newSource (x : Ctx) (c : Nat) (new : Str) : Str :=
  sourceOf new (x.conn c).name (x.conn c).hostname

theorem newSource_registered (x : Ctx) (c : Nat) (new nm : Str) (h : (x.conn c).name = some nm) :
    newSource x c new = new ++ str "!~" ++ nm ++ str "@" ++ (x.conn c).hostname := by
  simp [newSource, sourceOf, h, str]

/-- a set of names after `old` has been renamed to `new` -/
structure SetRenamed (old new : Str) (s s' : KSet) : Prop where
  new_iff_old : KSet.mem new s' = KSet.mem old s
  old_gone : KSet.mem old s' = false
  others : ∀ k, k ≠ old → k ≠ new → KSet.mem k s' = KSet.mem k s

/-- a channel after its member `old` has been renamed to `new`: same rank flags under the new
    name, the five rank lists follow, nothing else changes -/
structure ChannelRenamed (old new : Str) (C C' : Channel) : Prop where
  new_member : Map.lookup new C'.users = Map.lookup old C.users
  old_gone : Map.lookup old C'.users = none
  other_members : ∀ k, k ≠ old → k ≠ new → Map.lookup k C'.users = Map.lookup k C.users
  founders : SetRenamed old new C.modes.founders C'.modes.founders
  protecteds : SetRenamed old new C.modes.protecteds C'.modes.protecteds
  operators : SetRenamed old new C.modes.operators C'.modes.operators
  halfOperators : SetRenamed old new C.modes.halfOperators C'.modes.halfOperators
  voices : SetRenamed old new C.modes.voices C'.modes.voices
  topic : C'.topic = C.topic
  defaultModes : C'.defaultModes = C.defaultModes
  banInfo : C'.banInfo = C.banInfo
  preconfigured : C'.preconfigured = C.preconfigured
  lists : C'.modes.ban = C.modes.ban ∧ C'.modes.exception = C.modes.exception ∧
    C'.modes.inviteException = C.modes.inviteException
  keyLimit : C'.modes.key = C.modes.key ∧ C'.modes.clientLimit = C.modes.clientLimit
  flags : C'.modes.inviteOnly = C.modes.inviteOnly ∧ C'.modes.moderated = C.modes.moderated ∧
    C'.modes.secret = C.modes.secret ∧ C'.modes.protectedTopic = C.modes.protectedTopic ∧
    C'.modes.noExternalMessages = C.modes.noExternalMessages

/-- The whole effect of an accepted NICK on the world: `w` before, `w'` after, for the user
    record `u` of `old` owned by connection `c`, whose new source string is `src`. -/
structure IdentityMoved (old new : Str) (u : User) (src : Str) (c : Nat) (w w' : World) : Prop where
  /-- the old nickname is free -/
  old_free : Map.lookup old w'.users = none
  /-- the record moved as a whole: modes (oper, wallops, ..), away, channels, invitations,
      owner, WHOWAS entry; only the source string follows the new name -/
  new_user : Map.lookup new w'.users = some { u with source := src }
  other_users : ∀ k, k ≠ old → k ≠ new → Map.lookup k w'.users = Map.lookup k w.users
  /-- every channel of the user: member entry and rank lists renamed -/
  member_channels : ∀ ch C, KSet.mem ch u.channels = true → Map.lookup ch w.channels = some C →
    ∃ C', Map.lookup ch w'.channels = some C' ∧ ChannelRenamed old new C C'
  other_channels : ∀ ch, KSet.mem ch u.channels = false →
    Map.lookup ch w'.channels = Map.lookup ch w.channels
  no_new_channels : ∀ ch, Map.lookup ch w.channels = none → Map.lookup ch w'.channels = none
  wallops : SetRenamed old new w.wallops w'.wallops
  /-- WHOWAS: the history of the old nickname gets the user's entry appended -/
  whowas : Map.lookup old w'.histories =
    some ((Map.lookup old w.histories).getD [] ++ [u.history])
  other_histories : ∀ k, k ≠ old → Map.lookup k w'.histories = Map.lookup k w.histories
  counters : w'.invisibleCount = w.invisibleCount ∧ w'.operatorsCount = w.operatorsCount ∧
    w'.maxUsers = w.maxUsers ∧ w'.connsCount = w.connsCount ∧ w'.srvQuit = w.srvQuit ∧
    w'.cmdCounts = w.cmdCounts
  /-- the connection carries the new nickname and source; nothing else of it changes -/
  conn : ∃ cn, w.conn? c = some cn ∧
    w'.conn? c = some { cn with nick := some new, source := src }
  other_conns : ∀ c', c' ≠ c → w'.conn? c' = w.conn? c'
  conn_ids : w'.conns.map (·.id) = w.conns.map (·.id)

/-- refusal: exactly one line `:<server> 433 <old> <new> :Nickname is already in use` to the
    caller, no line to anybody else, the world is untouched -/
structure Refused433 (cfg : Cfg) (old new : Str) (x x' : Ctx) : Prop where
  world : x'.w = x.w
  queued : x'.queued = x.queued
  direct : x'.direct = x.direct ++
    [str ":" ++ cfg.name ++ str " 433 " ++ old ++ str " " ++ new ++ str " :Nickname is already in use"]

section
variable {cfg : Cfg} {c : Nat} {old new : Str} {msg : Message} {x : Ctx} {u : User}

/-! ## 1. acceptance -/

/-- NICK with a name held by somebody (anybody) else: one 433, nothing changes. -/
theorem nick_refused (h : Registered x c old u) (hne : new ≠ old)
    (hused : Map.contains new x.w.users = true) :
    Refused433 cfg old new x (processNick cfg c new msg x) := by
  rw [processNick_refuse h.auth h.nick hne hused]
  exact ⟨rfl, rfl, by simp [Reply.ErrNicknameInUse433, str]⟩

/-- NICK with the own current nickname is a no-op (no line, no change). -/
theorem nick_same_noop (h : Registered x c old u) : processNick cfg c old msg x = x :=
  processNick_same h.auth h.nick

/-- The registered branch renames iff the new name is not in use; if it is in use, the request
    is refused with 433 and nothing changes.  "Renames" is observed on the result: the
    connection carries the new name and the old name is no longer a user. -/
theorem nick_accepted_iff (h : Registered x c old u) (hne : new ≠ old) :
    (((processNick cfg c new msg x).conn c).nick = some new ∧
        Map.lookup old (processNick cfg c new msg x).w.users = none
      ↔ Map.contains new x.w.users = false) ∧
    (Map.contains new x.w.users = true →
      Refused433 cfg old new x (processNick cfg c new msg x)) := by
  refine ⟨?_, nick_refused h hne⟩
  constructor
  · intro ⟨_, hgone⟩
    cases hc : Map.contains new x.w.users with
    | false => rfl
    | true =>
      rw [processNick_refuse h.auth h.nick hne hc] at hgone
      simp only [Ctx.reply_w] at hgone
      rw [h.user] at hgone; cases hgone
  · intro hfree
    have hw := processNick_accept_w (cfg := cfg) (msg := msg) h.auth h.nick hne hfree h.user
    constructor
    · unfold Ctx.conn
      rw [hw]
      have hc : ((x.w.setConn ((x.conn c).setNick new)).conn? c) = some ((x.conn c).setNick new) :=
        World.setConn_conn?_same (Ctx.conn?_of_auth h.auth) (by simp [Ctx.conn_id])
      have : (nickWorld old new { u with source := ((x.conn c).setNick new).source }
          (x.w.setConn ((x.conn c).setNick new))).conn? c = some ((x.conn c).setNick new) := by
        unfold World.conn? at hc ⊢
        rw [(nickWorld_frame _ _ _ _).1]; exact hc
      rw [this]; rfl
    · rw [hw, nickWorld_users]
      rw [Map.lookup_insert_ne _ _ _ _ hne]; simp

/-! ## 2. the identity moves -/

theorem setRenamed_of (hne : new ≠ old) (s : KSet) (hnew : KSet.mem new s = false) :
    SetRenamed old new s (renameIn old new s) := by
  refine ⟨?_, ?_, ?_⟩
  · rw [mem_renameIn new s hne hnew]; simp
  · rw [mem_renameIn old s hne hnew]; simp [Ne.symm hne]
  · intro k h1 h2; rw [mem_renameIn k s hne hnew]; simp [h1, h2]

/-- `Channel.renameUser` meets its specification (on a channel whose rank lists mirror the
    member flags and which does not already have a member called `new`). -/
theorem renameUser_spec {C C' : Channel} (hne : new ≠ old) (hm : RankMirror C)
    (hnew : Map.lookup new C.users = none) (hr : C.renameUser old new = some C') :
    ChannelRenamed old new C C' := by
  obtain ⟨chum, hold⟩ := renameUser_eq_some_iff hr
  rw [renameUser_some hold] at hr
  cases hr
  have nomem : ∀ (f : ChanUserModes → Bool) (s : KSet),
      (∀ n, KSet.mem n s = true ↔ ∃ m, Map.lookup n C.users = some m ∧ f m = true) →
      KSet.mem new s = false := by
    intro f s hs
    cases hq : KSet.mem new s with
    | false => rfl
    | true => obtain ⟨m, hm1, _⟩ := (hs new).mp hq; rw [hnew] at hm1; cases hm1
  refine
    { new_member := ?_, old_gone := ?_, other_members := ?_
      founders := setRenamed_of hne _ (nomem (·.founder) _ hm.founders)
      protecteds := setRenamed_of hne _ (nomem (·.prot) _ hm.protecteds)
      operators := setRenamed_of hne _ (nomem (·.operator) _ hm.operators)
      halfOperators := setRenamed_of hne _ (nomem (·.halfOper) _ hm.halfOperators)
      voices := setRenamed_of hne _ (nomem (·.voice) _ hm.voices)
      topic := rfl, defaultModes := rfl, banInfo := rfl, preconfigured := rfl
      lists := ⟨rfl, rfl, rfl⟩, keyLimit := ⟨rfl, rfl⟩, flags := ⟨rfl, rfl, rfl, rfl, rfl⟩ }
  · simp [hold]
  · simp only; rw [lookup_rename_users _ _ hne]; simp [Ne.symm hne]
  · intro k h1 h2; simp only; rw [lookup_rename_users _ _ hne]; simp [h1, h2]

/-- **C15, main part.**  An accepted NICK moves the whole identity. -/
theorem nick_moves_identity (h : Registered x c old u) (hne : new ≠ old)
    (hfree : Map.contains new x.w.users = false) :
    IdentityMoved old new u (newSource x c new) c x.w (processNick cfg c new msg x).w := by
  have hw := processNick_accept_w (cfg := cfg) (msg := msg) h.auth h.nick hne hfree h.user
  have hsrc : ((x.conn c).setNick new).source = newSource x c new := rfl
  rw [hsrc] at hw
  rw [hw]
  have hnewW : KSet.mem new x.w.wallops = false := by
    cases hq : KSet.mem new x.w.wallops with
    | false => rfl
    | true =>
      obtain ⟨v, hv, _⟩ := (h.inv.wallopsSet new).mp hq
      rw [(Map.contains_false_iff _ _).mp hfree] at hv; cases hv
  have hchan : ∀ ch, Map.lookup ch (nickWorld old new { u with source := newSource x c new }
        (x.w.setConn ((x.conn c).setNick new))).channels =
      if ch ∈ u.channels then (Map.lookup ch x.w.channels).map (renOpt old new)
      else Map.lookup ch x.w.channels := by
    intro ch
    rw [nickWorld_channels, renameInChannels_lookup old new hne]; rfl
  refine
    { old_free := ?_, new_user := ?_, other_users := ?_, member_channels := ?_
      other_channels := ?_, no_new_channels := ?_, wallops := ?_, whowas := ?_
      other_histories := ?_, counters := ?_, conn := ?_, other_conns := ?_, conn_ids := ?_ }
  · rw [nickWorld_users, Map.lookup_insert_ne _ _ _ _ hne]; simp
  · rw [nickWorld_users]; simp
  · intro k h1 h2
    rw [nickWorld_users, Map.lookup_insert_ne _ _ _ _ (Ne.symm h2),
      Map.lookup_erase_ne _ _ _ (Ne.symm h1)]; rfl
  · intro ch C hmem hC
    have hin : ch ∈ u.channels := (KSet.mem_iff _ _).mp hmem
    obtain ⟨C0, hC0, hold⟩ := (h.inv.memberSym old u ch h.user).mp hmem
    rw [hC] at hC0; cases hC0
    obtain ⟨chum, hchum⟩ := (Map.contains_iff _ _).mp hold
    have hnewC : Map.lookup new C.users = none := by
      cases hq : Map.lookup new C.users with
      | none => rfl
      | some m =>
        have := h.inv.memberIsUser ch C new hC ((Map.contains_iff _ _).mpr ⟨m, hq⟩)
        rw [hfree] at this; cases this
    have hr := renameUser_some (new := new) hchum
    refine ⟨_, ?_, renameUser_spec hne (h.inv.rankMirror ch C hC) hnewC hr⟩
    rw [hchan, if_pos hin, hC]
    simp [renOpt, hr]
  · intro ch hmem
    have hnin : ch ∉ u.channels := (KSet.mem_eq_false_iff _ _).mp hmem
    rw [hchan, if_neg hnin]
  · intro ch hnone
    rw [hchan, hnone]; simp
  · rw [nickWorld_wallops]; exact setRenamed_of hne _ hnewW
  · rw [nickWorld_histories]; simp
  · intro k hk
    rw [nickWorld_histories, Map.lookup_insert_ne _ _ _ _ (Ne.symm hk)]; rfl
  · have f := nickWorld_frame old new { u with source := newSource x c new }
      (x.w.setConn ((x.conn c).setNick new))
    exact ⟨f.2.1, f.2.2.1, f.2.2.2.1, f.2.2.2.2.1, f.2.2.2.2.2.1, f.2.2.2.2.2.2⟩
  · refine ⟨x.conn c, Ctx.conn?_of_auth h.auth, ?_⟩
    have hc : ((x.w.setConn ((x.conn c).setNick new)).conn? c) = some ((x.conn c).setNick new) :=
      World.setConn_conn?_same (Ctx.conn?_of_auth h.auth) (by simp [Ctx.conn_id])
    unfold World.conn? at hc ⊢
    rw [(nickWorld_frame _ _ _ _).1]; exact hc
  · intro c' hc'
    have hc : ((x.w.setConn ((x.conn c).setNick new)).conn? c') = x.w.conn? c' :=
      World.setConn_conn?_other (by simp [Ctx.conn_id]; exact Ne.symm hc')
    unfold World.conn? at hc ⊢
    rw [(nickWorld_frame _ _ _ _).1]; exact hc
  · rw [(nickWorld_frame _ _ _ _).1]; exact World.setConn_ids _ _

/-- No `unwrap` of the Rust handler can fail on an accepted NICK (the panic flag stays clear). -/
theorem nick_no_panic (h : Registered x c old u) (hne : new ≠ old)
    (hfree : Map.contains new x.w.users = false) :
    (processNick cfg c new msg x).w.panicked = none := by
  rw [processNick_accept_w h.auth h.nick hne hfree h.user, nickWorld_panicked]
  · exact h.inv.noPanic
  · exact h.inv.userChansNodup old u h.user
  · intro ch hch
    exact (h.inv.memberSym old u ch h.user).mp ((KSet.mem_iff _ _).mpr hch)

/-! ### concrete instance (hypotheses satisfiable, conclusions non-trivial)

`Ex.w`: users alice (oper, wallops, away, invited to #inv, connection 1) and bob (connection 2),
both on the secret channel `#c` with a topic; alice is founder+operator, bob has voice. -/

def exX : Ctx := { w := Ex.w }
def exMsg (n : Str) : Message := ⟨none, str "NICK", [n]⟩

example : Registered exX 1 Ex.alice Ex.uAlice := ⟨by decide, by decide, by decide, Ex.inv⟩
example : Ex.carol ≠ Ex.alice ∧ Map.contains Ex.carol exX.w.users = false := by decide
example : Ex.bob ≠ Ex.alice ∧ Map.contains Ex.bob exX.w.users = true := by decide
example : newSource exX 1 Ex.carol = str "carol!~al@h1" := by decide

-- accepted: alice -> carol
example : Map.lookup Ex.alice (processNick {} 1 Ex.carol (exMsg Ex.carol) exX).w.users = none := by
  decide
example : Map.lookup Ex.carol (processNick {} 1 Ex.carol (exMsg Ex.carol) exX).w.users =
    some { Ex.uAlice with source := str "carol!~al@h1" } := by decide
example : Map.lookup Ex.chan (processNick {} 1 Ex.carol (exMsg Ex.carol) exX).w.channels =
    some { Ex.cChan with
      users := [(Ex.bob, { voice := true }), (Ex.carol, { founder := true, operator := true })]
      modes := { Ex.cChan.modes with founders := [Ex.carol], operators := [Ex.carol] } } := by
  decide
example : (processNick {} 1 Ex.carol (exMsg Ex.carol) exX).w.wallops = [Ex.carol] := by decide
example : Map.lookup Ex.alice (processNick {} 1 Ex.carol (exMsg Ex.carol) exX).w.histories =
    some [⟨str "al", str "h1", str "A"⟩] := by decide
example : ((processNick {} 1 Ex.carol (exMsg Ex.carol) exX).conn 1).nick = some Ex.carol := by decide
example : (processNick {} 1 Ex.carol (exMsg Ex.carol) exX).queued =
    [(2, str ":alice!~al@h1 NICK carol"), (1, str ":alice!~al@h1 NICK carol")] := by decide
example : (processNick {} 1 Ex.carol (exMsg Ex.carol) exX).direct = [] := by decide
-- refused: alice -> bob
example : (processNick {} 1 Ex.bob (exMsg Ex.bob) exX).direct =
    [(str ":irc.irc " ++ Reply.ErrNicknameInUse433 (client := str "alice") (nick := str "bob"))] := by decide
example : (processNick {} 1 Ex.bob (exMsg Ex.bob) exX).queued = [] := by decide

/-! ## 3. the announcement -/

/-- The line `:<old source> NICK <new>` (the received message re-rendered with the old source)
    is pushed, after everything queued before, once to every user of the new world, in key
    order, and the caller gets no direct reply.  `ownerOf w n` is the connection owning the
    queue of user `n`. -/
theorem nick_announced (h : Registered x c old u) (hne : new ≠ old)
    (hfree : Map.contains new x.w.users = false) :
    (processNick cfg c new msg x).queued =
      x.queued ++ (Map.keys (processNick cfg c new msg x).w.users).map
        (fun n => (ownerOf (processNick cfg c new msg x).w n, msg.render (x.conn c).source)) ∧
    (Map.keys (processNick cfg c new msg x).w.users).Nodup ∧
    (processNick cfg c new msg x).direct = x.direct := by
  refine ⟨processNick_accept_queued h.auth h.nick hne hfree h.user, ?_,
    processNick_accept_direct h.auth h.nick hne hfree h.user⟩
  rw [processNick_accept_w h.auth h.nick hne hfree h.user, nickWorld_users]
  exact Map.nodup_keys_insert (Map.nodup_keys_erase h.inv.usersNodup)

/-- the users of the new world are the old ones, with `old` replaced by `new` -/
theorem nick_recipients (h : Registered x c old u) (hne : new ≠ old)
    (hfree : Map.contains new x.w.users = false) (n : Str) :
    n ∈ Map.keys (processNick cfg c new msg x).w.users ↔
      n = new ∨ (n ≠ old ∧ n ∈ Map.keys x.w.users) := by
  have m := nick_moves_identity (cfg := cfg) (msg := msg) h hne hfree
  rw [Map.mem_keys_iff, Map.mem_keys_iff]
  by_cases h1 : n = new
  · subst h1; simp [m.new_user]
  · by_cases h2 : n = old
    · subst h2; simp [m.old_free, h1]
    · rw [m.other_users n h2 h1]; simp [h1, h2]

/-- ... which includes the user itself (on its own connection `c`) ... -/
theorem nick_announced_to_self (h : Registered x c old u) (hne : new ≠ old)
    (hfree : Map.contains new x.w.users = false) :
    (c, msg.render (x.conn c).source) ∈ (processNick cfg c new msg x).queued := by
  have m := nick_moves_identity (cfg := cfg) (msg := msg) h hne hfree
  rw [(nick_announced h hne hfree).1]
  apply List.mem_append_right
  apply List.mem_map.mpr
  refine ⟨new, (nick_recipients h hne hfree new).mpr (Or.inl rfl), ?_⟩
  have hown : u.owner = c := by
    obtain ⟨n, u0, hn, hu0, ho⟩ := h.inv.authOwns (x.conn c)
      (World.conn?_mem (Ctx.conn?_of_auth h.auth)) h.auth
    rw [h.nick] at hn; cases hn
    rw [h.user] at hu0; cases hu0
    rw [ho, Ctx.conn_id]
  simp [ownerOf, m.new_user, hown]

/-- ... and every other user of the server (each on the connection owning it) ... -/
theorem nick_announced_to_everyone (h : Registered x c old u) (hne : new ≠ old)
    (hfree : Map.contains new x.w.users = false) (n : Str) (v : User) (hno : n ≠ old)
    (hv : Map.lookup n x.w.users = some v) :
    (v.owner, msg.render (x.conn c).source) ∈ (processNick cfg c new msg x).queued := by
  have m := nick_moves_identity (cfg := cfg) (msg := msg) h hne hfree
  have hnn : n ≠ new := by
    intro e; subst e
    rw [(Map.contains_false_iff _ _).mp hfree] at hv; cases hv
  rw [(nick_announced h hne hfree).1]
  apply List.mem_append_right
  apply List.mem_map.mpr
  refine ⟨n, (nick_recipients h hne hfree n).mpr
    (Or.inr ⟨hno, (Map.mem_keys_iff _ _).mpr ⟨v, hv⟩⟩), ?_⟩
  simp [ownerOf, m.other_users n hno hnn, hv]

/-- ... in particular everyone sharing a channel with it. -/
theorem nick_announced_to_peers (h : Registered x c old u) (hne : new ≠ old)
    (hfree : Map.contains new x.w.users = false)
    (ch : Str) (C : Channel) (n : Str)
    (_hch : KSet.mem ch u.channels = true) (hC : Map.lookup ch x.w.channels = some C)
    (hn : Map.contains n C.users = true) (hno : n ≠ old) :
    ∃ v, Map.lookup n x.w.users = some v ∧
      (v.owner, msg.render (x.conn c).source) ∈ (processNick cfg c new msg x).queued := by
  obtain ⟨v, hv⟩ := (Map.contains_iff _ _).mp (h.inv.memberIsUser ch C n hC hn)
  exact ⟨v, hv, nick_announced_to_everyone h hne hfree n v hno hv⟩

/-! ## 4. the rank mirror survives the rename -/

theorem rename_preserves_rankMirror {C C' : Channel} (hm : RankMirror C)
    (hr : C.renameUser old new = some C') (hnew : Map.lookup new C.users = none) :
    RankMirror C' := by
  obtain ⟨chum, hold⟩ := renameUser_eq_some_iff hr
  have hne : new ≠ old := by
    intro e; subst e; rw [hnew] at hold; cases hold
  rw [renameUser_some hold] at hr
  cases hr
  exact
    { founders := rank_rename (·.founder) _ hne hold hnew hm.founders
      protecteds := rank_rename (·.prot) _ hne hold hnew hm.protecteds
      operators := rank_rename (·.operator) _ hne hold hnew hm.operators
      halfOperators := rank_rename (·.halfOper) _ hne hold hnew hm.halfOperators
      voices := rank_rename (·.voice) _ hne hold hnew hm.voices }

end

/-! ## 5. a syntactically invalid nickname never reaches the handler -/

/-- `Command::from_message` rejects a NICK whose (first) parameter is not a valid nickname;
    the verb is matched case-insensitively, extra parameters are ignored. -/
theorem nick_invalid_parse (m : Message) (n : Str) (rest : List Str)
    (hc : asciiUpper m.command = str "NICK") (hp : m.params = n :: rest)
    (hv : validateUsername n = false) :
    Command.fromMessage m = .error (.wrongParameter .NICK 0) := by
  have hid : CmdId.ofName? (str "NICK") = some .NICK := by decide
  unfold Command.fromMessage Command.parseFromMessage
  simp only [hc, hid, hp]
  simp [Command.validate, check, hv]

theorem nick_invalid_parse' (src : Option Str) (n : Str) (hv : validateUsername n = false) :
    Command.fromMessage ⟨src, str "NICK", [n]⟩ = .error (.wrongParameter .NICK 0) :=
  nick_invalid_parse _ n [] (by show asciiUpper (str "NICK") = str "NICK"; decide) rfl hv

/-- ... so `handleLine` answers with exactly one `ERROR :` line to the caller and changes
    nothing (world, other users' queues, not even the command counters). -/
theorem nick_invalid_refused (cfg : Cfg) (c : Nat) (s : Str) (x : Ctx) (m : Message) (n : Str)
    (rest : List Str) (hparse : Message.parse s = .ok m)
    (hc : asciiUpper m.command = str "NICK") (hp : m.params = n :: rest)
    (hv : validateUsername n = false) :
    (handleLine cfg c s x).w = x.w ∧ (handleLine cfg c s x).queued = x.queued ∧
    (handleLine cfg c s x).direct = x.direct ++
      [str ":" ++ cfg.name ++ str " ERROR :Wrong parameter 0 in command 'NICK'"] := by
  unfold handleLine
  simp only [hparse, nick_invalid_parse m n rest hc hp hv]
  refine ⟨rfl, rfl, ?_⟩
  simp only [Ctx.reply_direct, commandErrorReply]
  have : (CommandError.wrongParameter CmdId.NICK 0).render =
      str "Wrong parameter 0 in command 'NICK'" := by decide
  rw [this]
  simp [str]

example : Message.parse (str "nick a.b") = .ok ⟨none, str "nick", [str "a.b"]⟩ := by decide
example : asciiUpper (str "nick") = str "NICK" := by decide
example : validateUsername (str "a.b") = false := by decide
example : validateUsername (str "#chan") = false := by decide
example : validateUsername [] = false := by decide
-- end to end through `handleLine` on the example world
example : (handleLine {} 1 (str "NICK a.b") exX).direct =
      [str ":irc.irc ERROR :Wrong parameter 0 in command 'NICK'"] ∧
    (handleLine {} 1 (str "NICK a.b") exX).queued = [] := by decide
example : (handleLine {} 1 (str "NICK carol") exX).queued =
      [(2, str ":alice!~al@h1 NICK carol"), (1, str ":alice!~al@h1 NICK carol")] ∧
    Map.lookup Ex.carol (handleLine {} 1 (str "NICK carol") exX).w.users =
      some { Ex.uAlice with source := str "carol!~al@h1" } := by decide
example : (handleLine {} 1 (str "NICK bob") exX).direct =
      [(str ":irc.irc " ++ Reply.ErrNicknameInUse433 (client := str "alice") (nick := str "bob"))] := by decide

end Irc.C15
