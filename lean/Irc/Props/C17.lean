/-
  Property C17 (keep-alive).  "The server answers every PING of a registered client with a
  PONG carrying the same token.  After registration it sends the client a PING every
  ping_timeout seconds; a client that answers each of them with PONG is never disconnected
  for inactivity, while a client that stays silent is sent an ERROR and disconnected no later
  than pong_timeout (plus scheduling slack) after the first PING it failed to answer, with
  the clean-up of C06."

  Model: `Irc.Timer` (`Irc/Timer.lean`): discrete time in ms, `P = cfg.pingMs`,
  `T = cfg.pongMs`, `cfg.fixed = false` is the Rust code as it is (every server PING replaces
  the pending pong timer), `cfg.fixed = true` the repaired code (a server PING starts a timer
  only when none is pending).  A client `PONG` carries no token in the model because
  `process_pong` ignores it (`PONG <anything>` = `TEvent.pong`); other client traffic does not
  touch the timers and is not an event of the model.  Setting `quit` hands over to the
  teardown of the main model (C06); that part is not restated here.

  All statements are for ALL `P ≥ 1`, `T ≥ 1` (also `T ≥ P`), all registration times and all
  (unbounded) event lists.  Vocabulary (defined in `C17Lemmas.lean`, independent of `tStep`):
  `duration es` (time passing in `es`), `pongTimes t0 es` (clock values of the client's PONGs),
  `noPong es`, `pingTimes out` / `errorTimes out` (times of the PING / ERROR lines of an
  output), `timerOut out` (output without the PONG echoes).

  Summary of what is true:
    * `live_never_dropped`  — BOTH variants, every `P`, `T`: a client that sends, for every
      server PING, some PONG before that PING's own deadline is never dropped;
    * `silent_dropped`      — repaired variant, every `P`, `T`: ERROR exactly at
      (first unanswered PING) + T;
    * `unfixed_never_drops` — code as it is with `T > P`: NOBODY is ever dropped (defect).
-/
import Irc.Props.C17Lemmas
namespace Irc.C17
open Irc Irc.Timer

/-! ## 0. `advance` is additive (key structural lemma) -/

/-- Letting `a` ms pass and then `b` ms is the same as letting `a + b` ms pass: same final
    state, same output. -/
theorem advance_add (cfg : TCfg) (hP : 1 ≤ cfg.pingMs) (s : TState) (a b : Nat) :
    tRun cfg s [.advance a, .advance b] = tStep cfg s (.advance (a + b)) := by
  rw [tStep_advance_add cfg hP s a b]
  simp [tRun_cons, tRun_nil]

/-- the target-time form: for `t1 ≤ t2`, going to `t2` is going to `t1` and on to `t2`. -/
theorem adv_split (cfg : TCfg) (hP : 1 ≤ cfg.pingMs) (t1 t2 : Nat) (h : t1 ≤ t2) (s : TState) :
    adv cfg t2 s = ((adv cfg t2 (adv cfg t1 s).1).1,
      (adv cfg t1 s).2 ++ (adv cfg t2 (adv cfg t1 s).1).2) :=
  Timer.adv_split cfg hP t1 t2 h s

/-- a run is the run of a prefix followed by the run of the rest -/
theorem run_append (cfg : TCfg) (s : TState) (es1 es2 : List TEvent) :
    tRun cfg s (es1 ++ es2) =
      ((tRun cfg (tRun cfg s es1).1 es2).1,
        (tRun cfg s es1).2 ++ (tRun cfg (tRun cfg s es1).1 es2).2) :=
  tRun_append cfg s es1 es2

example : tRun ⟨1000, 1500, true⟩ (TState.start ⟨1000, 1500, true⟩ 7) [.advance 1200, .advance 2300]
    = tStep ⟨1000, 1500, true⟩ (TState.start ⟨1000, 1500, true⟩ 7) (.advance 3500) := by decide
/-- `pingMs ≥ 1` is needed (with `pingMs = 0` the loop is cut by the fuel). -/
example : tRun ⟨0, 5, true⟩ (TState.start ⟨0, 5, true⟩ 0) [.advance 1, .advance 1]
    ≠ tStep ⟨0, 5, true⟩ (TState.start ⟨0, 5, true⟩ 0) (.advance 2) := by decide

/-! ## 1. client PING is echoed with the same token -/

/-- A `PING tok` of a registered, not yet disconnected client is answered by exactly one
    `PONG … :tok` (same token, whatever it is) and changes nothing. -/
theorem ping_echo (cfg : TCfg) (s : TState) (tok : Str) (hq : s.quit = false)
    (hr : s.registered = true) :
    tStep cfg s (.pingCmd tok) = (s, [TOut.pongReply s.now tok]) :=
  tStep_pingCmd cfg s tok hq hr

/-- The same inside an arbitrary run after registration: whatever happened before (`es`), if
    the connection has not timed out, `PING tok` appends exactly the echo. -/
theorem ping_echo_in_run (cfg : TCfg) (hP : 1 ≤ cfg.pingMs) (hT : 1 ≤ cfg.pongMs)
    (regAt : Nat) (es : List TEvent) (tok : Str)
    (hq : (tRun cfg (TState.start cfg regAt) es).1.quit = false) :
    tRun cfg (TState.start cfg regAt) (es ++ [.pingCmd tok]) =
      ((tRun cfg (TState.start cfg regAt) es).1,
        (tRun cfg (TState.start cfg regAt) es).2 ++
          [TOut.pongReply (regAt + duration es) tok]) := by
  have hs := tRun_sched cfg hP hT regAt es _ [] (sched_start cfg hP regAt)
  have hnow := tRun_now cfg hP es (TState.start cfg regAt) hq
  rw [tRun_append, tRun_cons, tRun_nil, tStep_pingCmd cfg _ tok hq hs.1, hnow]
  rfl

example : tStep ⟨1000, 2000, false⟩ (TState.start ⟨1000, 2000, false⟩ 5) (.pingCmd (str "x y :z"))
    = (TState.start ⟨1000, 2000, false⟩ 5, [.pongReply 5 (str "x y :z")]) := by decide

/-! ## 5. `quit` is final -/

/-- After the timeout no event produces output or changes the state. -/
theorem quit_is_final (cfg : TCfg) (s : TState) (hq : s.quit = true) :
    (∀ e, tStep cfg s e = (s, [])) ∧ (∀ es, tRun cfg s es = (s, [])) :=
  ⟨fun e => tStep_quit cfg s e hq, fun es => tRun_quit cfg s es hq⟩

/-- hence `quit` is monotone along a run: once a prefix has quit, the whole run has. -/
theorem quit_monotone (cfg : TCfg) (s : TState) (es : List TEvent) (n : Nat)
    (h : (tRun cfg s (es.take n)).1.quit = true) : (tRun cfg s es).1.quit = true :=
  tRun_take_quit cfg s es n h

example : tRun ⟨2000, 1000, true⟩ (TState.start ⟨2000, 1000, true⟩ 0)
      [.advance 5000, .pong, .pingCmd (str "a"), .advance 9000]
    = tRun ⟨2000, 1000, true⟩ (TState.start ⟨2000, 1000, true⟩ 0) [.advance 5000] := by decide
example : (tRun ⟨2000, 1000, true⟩ (TState.start ⟨2000, 1000, true⟩ 0) [.advance 5000]).1.quit
    = true := by decide

/-! ## 4. the silent client -/

/-- REPAIRED VARIANT, every `P`, `T` (also `T ≥ P`).  In a state in which no pong timer is
    pending (`deadline = none`) let `p = s.nextPing` be the next server PING.  If the client
    sends no PONG from now on (`noPong es`; client PINGs and any splitting of the passage of
    time are allowed) then
      * as long as the clock has not reached `p + T` the connection is alive and no ERROR
        has been sent;
      * once it has, the connection has quit, the state is frozen at clock `p + T`, and the
        timer output is: the PINGs `p, p+P, …` that are `< p + T`, then ERROR at `p + T`.
    So the ERROR comes exactly `pong_timeout` after the first unanswered PING. -/
theorem silent_dropped (cfg : TCfg) (hP : 1 ≤ cfg.pingMs) (hT : 1 ≤ cfg.pongMs)
    (hfix : cfg.fixed = true) (s : TState) (es : List TEvent)
    (hq : s.quit = false) (hr : s.registered = true) (hnow : s.now < s.nextPing)
    (hd : s.deadline = none) (hnp : noPong es = true) :
    (s.now + duration es < s.nextPing + cfg.pongMs →
      (tRun cfg s es).1.quit = false ∧ errorTimes (tRun cfg s es).2 = []) ∧
    (s.nextPing + cfg.pongMs ≤ s.now + duration es →
      ∃ m, (tRun cfg s es).1 =
          { s with now := s.nextPing + cfg.pongMs, nextPing := s.nextPing + m * cfg.pingMs,
                   deadline := none, quit := true } ∧
        timerOut (tRun cfg s es).2 =
          (List.range m).map (fun j => TOut.ping (s.nextPing + j * cfg.pingMs)) ++
            [TOut.errorTimeout (s.nextPing + cfg.pongMs)] ∧
        (∀ j, j < m ↔ s.nextPing + j * cfg.pingMs < s.nextPing + cfg.pongMs)) := by
  obtain ⟨h1, h2⟩ := silent_core cfg hP hT hfix s es (s.nextPing + cfg.pongMs) hq hr hnow
    (Or.inr ⟨hd, rfl⟩) hnp
  refine ⟨h1, fun hle => ?_⟩
  obtain ⟨m, a, b, c⟩ := h2 hle
  exact ⟨m, a, by rw [b, pingList_eq_map, List.map_map]; rfl, c⟩

/-- REPAIRED VARIANT, a timer `D` already pending (some earlier PING is unanswered): without
    PONG the connection quits exactly at `D` — later PINGs do not postpone it. -/
theorem pending_silent_dropped (cfg : TCfg) (hP : 1 ≤ cfg.pingMs) (hT : 1 ≤ cfg.pongMs)
    (hfix : cfg.fixed = true) (s : TState) (es : List TEvent) (D : Nat)
    (hq : s.quit = false) (hr : s.registered = true) (hnow : s.now < s.nextPing)
    (hd : s.deadline = some D) (hD : s.now < D) (hnp : noPong es = true) :
    (s.now + duration es < D →
      (tRun cfg s es).1.quit = false ∧ errorTimes (tRun cfg s es).2 = []) ∧
    (D ≤ s.now + duration es →
      ∃ m, (tRun cfg s es).1 =
          { s with now := D, nextPing := s.nextPing + m * cfg.pingMs, deadline := none,
                   quit := true } ∧
        timerOut (tRun cfg s es).2 =
          (List.range m).map (fun j => TOut.ping (s.nextPing + j * cfg.pingMs)) ++
            [TOut.errorTimeout D] ∧
        (∀ j, j < m ↔ s.nextPing + j * cfg.pingMs < D)) := by
  obtain ⟨h1, h2⟩ := silent_core cfg hP hT hfix s es D hq hr hnow (Or.inl ⟨hd, hD⟩) hnp
  refine ⟨h1, fun hle => ?_⟩
  obtain ⟨m, a, b, c⟩ := h2 hle
  exact ⟨m, a, by rw [b, pingList_eq_map, List.map_map]; rfl, c⟩

/-- The same from registration: after any history `es1` that leaves the connection alive with
    no timer pending just before the `k`-th PING (`nextPing = regAt + k·P`), a client silent
    from then on (`es2`) is disconnected exactly at `regAt + k·P + T`, with exactly one ERROR
    in the whole run. -/
theorem silent_dropped_from_start (cfg : TCfg) (hP : 1 ≤ cfg.pingMs) (hT : 1 ≤ cfg.pongMs)
    (hfix : cfg.fixed = true) (regAt k : Nat) (es1 es2 : List TEvent)
    (hq : (tRun cfg (TState.start cfg regAt) es1).1.quit = false)
    (hd : (tRun cfg (TState.start cfg regAt) es1).1.deadline = none)
    (hk : (tRun cfg (TState.start cfg regAt) es1).1.nextPing = regAt + k * cfg.pingMs)
    (hnp : noPong es2 = true) :
    (regAt + duration (es1 ++ es2) < regAt + k * cfg.pingMs + cfg.pongMs →
      (tRun cfg (TState.start cfg regAt) (es1 ++ es2)).1.quit = false ∧
      errorTimes (tRun cfg (TState.start cfg regAt) (es1 ++ es2)).2 = []) ∧
    (regAt + k * cfg.pingMs + cfg.pongMs ≤ regAt + duration (es1 ++ es2) →
      (tRun cfg (TState.start cfg regAt) (es1 ++ es2)).1.quit = true ∧
      (tRun cfg (TState.start cfg regAt) (es1 ++ es2)).1.now
        = regAt + k * cfg.pingMs + cfg.pongMs ∧
      errorTimes (tRun cfg (TState.start cfg regAt) (es1 ++ es2)).2
        = [regAt + k * cfg.pingMs + cfg.pongMs]) := by
  have hs := tRun_sched cfg hP hT regAt es1 _ [] (sched_start cfg hP regAt)
  have hnow := tRun_now cfg hP es1 (TState.start cfg regAt) hq
  obtain ⟨hr, _, n, _, _, hA, _⟩ := hs
  obtain ⟨hA1, _, hA3⟩ := hA hq
  simp only [List.nil_append] at hA3
  obtain ⟨h1, h2⟩ := silent_dropped cfg hP hT hfix _ es2 hq hr hA1 hd hnp
  rw [hk, hnow] at h1 h2
  have hdur : (TState.start cfg regAt).now = regAt := rfl
  rw [hdur] at h1 h2
  rw [tRun_append, duration_append]
  constructor
  · intro hlt
    obtain ⟨a, b⟩ := h1 (by omega)
    exact ⟨a, by rw [errorTimes_append, hA3, b]; rfl⟩
  · intro hle
    obtain ⟨m, a, b, _⟩ := h2 (by omega)
    refine ⟨by rw [a], by rw [a], ?_⟩
    have hmp : ∀ (f : Nat → Nat) (l : List Nat),
        errorTimes (l.map (fun j => TOut.ping (f j))) = [] := by
      intro f l; induction l <;> simp_all [errorTimes]
    rw [errorTimes_append, hA3, ← errorTimes_timerOut, b, errorTimes_append, hmp]
    rfl

-- P = 2 s, T = 1 s: PING@2000, ERROR@3000
example : (tRun ⟨2000, 1000, true⟩ (TState.start ⟨2000, 1000, true⟩ 0) [.advance 10000]).2
    = [.ping 2000, .errorTimeout 3000] := by decide
-- P = 1 s, T = 3 s (T ≥ P), repaired: ERROR@4000 = first PING + T
example : (tRun ⟨1000, 3000, true⟩ (TState.start ⟨1000, 3000, true⟩ 0) [.advance 10000]).2
    = [.ping 1000, .ping 2000, .ping 3000, .errorTimeout 4000] := by decide
-- stops answering after 2 answers: ERROR at the third PING + T, time split arbitrarily
example : (tRun ⟨1000, 3000, true⟩ (TState.start ⟨1000, 3000, true⟩ 0)
    [.advance 1100, .pong, .advance 1000, .pong, .advance 700, .pingCmd (str "t"),
     .advance 5000]).2
    = [.ping 1000, .ping 2000, .pongReply 2800 (str "t"), .ping 3000, .ping 4000, .ping 5000,
       .errorTimeout 6000] := by decide
-- the hypotheses of `silent_dropped_from_start` are satisfiable (k = 3)
example : let cfg : TCfg := ⟨1000, 3000, true⟩
    let s1 := (tRun cfg (TState.start cfg 0) [.advance 1100, .pong, .advance 1000, .pong]).1
    s1.quit = false ∧ s1.deadline = none ∧ s1.nextPing = 0 + 3 * cfg.pingMs := by decide

/-- THE DEFECT.  Code as it is (`fixed = false`) with `pong_timeout > ping_timeout`: whatever
    the client does or does not do, from any state whose pending timer (if any) lies after the
    next PING, the connection is never disconnected for inactivity and no ERROR is sent. -/
theorem unfixed_never_drops_state (cfg : TCfg) (hP : 1 ≤ cfg.pingMs) (hfix : cfg.fixed = false)
    (hTP : cfg.pingMs < cfg.pongMs) (s : TState) (es : List TEvent) (hq : s.quit = false)
    (hd : ∀ d, s.deadline = some d → s.nextPing < d) :
    (tRun cfg s es).1.quit = false ∧ errorTimes (tRun cfg s es).2 = [] :=
  tRun_unfixed cfg hP hfix hTP es s hq hd

/-- … in particular from registration, for every event list (every prefix included, since
    `es` is arbitrary). -/
theorem unfixed_never_drops (cfg : TCfg) (hP : 1 ≤ cfg.pingMs) (hfix : cfg.fixed = false)
    (hTP : cfg.pingMs < cfg.pongMs) (regAt : Nat) (es : List TEvent) :
    (tRun cfg (TState.start cfg regAt) es).1.quit = false ∧
      errorTimes (tRun cfg (TState.start cfg regAt) es).2 = [] :=
  tRun_unfixed cfg hP hfix hTP es _ rfl (by simp [TState.start])

/-- … and in particular the client that never sends PONG, after any amount of time. -/
theorem silent_never_dropped_unfixed (cfg : TCfg) (hP : 1 ≤ cfg.pingMs)
    (hfix : cfg.fixed = false) (hTP : cfg.pingMs < cfg.pongMs) (regAt : Nat)
    (es : List TEvent) (_hnp : noPong es = true) :
    (tRun cfg (TState.start cfg regAt) es).1.quit = false ∧
      errorTimes (tRun cfg (TState.start cfg regAt) es).2 = [] :=
  unfixed_never_drops cfg hP hfix hTP regAt es

theorem silent_never_dropped_unfixed_advance (cfg : TCfg) (hP : 1 ≤ cfg.pingMs)
    (hfix : cfg.fixed = false) (hTP : cfg.pingMs < cfg.pongMs) (regAt ms : Nat) :
    (tStep cfg (TState.start cfg regAt) (.advance ms)).1.quit = false := by
  have := (unfixed_never_drops cfg hP hfix hTP regAt [.advance ms]).1
  simpa [tRun_cons, tRun_nil] using this

-- P = 1 s, T = 2 s, silent for 10 s: ten PINGs, no ERROR, still connected
example : tRun ⟨1000, 2000, false⟩ (TState.start ⟨1000, 2000, false⟩ 0) [.advance 10000]
    = ({ now := 10000, registered := true, regAt := 0, nextPing := 11000,
         deadline := some 12000, quit := false },
       [.ping 1000, .ping 2000, .ping 3000, .ping 4000, .ping 5000, .ping 6000, .ping 7000,
        .ping 8000, .ping 9000, .ping 10000]) := by decide
-- the repaired code drops the same client at 3000
example : (tRun ⟨1000, 2000, true⟩ (TState.start ⟨1000, 2000, true⟩ 0) [.advance 10000]).2
    = [.ping 1000, .ping 2000, .errorTimeout 3000] := by decide
-- `T > P` is sharp for the model's tie rule: with `T = P` the unfixed code does drop
example : (tRun ⟨1000, 1000, false⟩ (TState.start ⟨1000, 1000, false⟩ 0) [.advance 10000]).2
    = [.ping 1000, .errorTimeout 2000] := by decide
-- and with `T < P` it behaves like the repaired code
example : tRun ⟨2000, 1000, false⟩ (TState.start ⟨2000, 1000, false⟩ 0) [.advance 10000]
    = tRun ⟨2000, 1000, true⟩ (TState.start ⟨2000, 1000, false⟩ 0) [.advance 10000] := by decide

/-! ## 3. the answering client -/

/-- The client answers every server PING before that PING's own deadline: for every `k ≥ 1`
    whose deadline `regAt + k·P + T` falls into the run there is a client PONG at a clock value
    in `[regAt + k·P, regAt + k·P + T)` (by the order rules a PONG at exactly the PING's time
    is after the PING; `(…, …)` strict is a special case).  No relation between `T` and `P`,
    no condition that the PONG comes before the next PING. -/
def Answers (cfg : TCfg) (regAt : Nat) (es : List TEvent) : Prop :=
  ∀ k, 1 ≤ k → regAt + k * cfg.pingMs + cfg.pongMs ≤ regAt + duration es →
    ∃ t, t ∈ pongTimes regAt es ∧ regAt + k * cfg.pingMs ≤ t ∧
      t < regAt + k * cfg.pingMs + cfg.pongMs

/-- BOTH VARIANTS, every `P ≥ 1` and every `T`: an answering client is never disconnected for
    inactivity — after every prefix of the run the connection is alive and no ERROR was sent.
    (This is the strongest form: one PONG per PING, each before its own deadline.) -/
theorem live_never_dropped (cfg : TCfg) (hP : 1 ≤ cfg.pingMs) (regAt : Nat)
    (es : List TEvent) (h : Answers cfg regAt es) (n : Nat) :
    (tRun cfg (TState.start cfg regAt) (es.take n)).1.quit = false ∧
      errorTimes (tRun cfg (TState.start cfg regAt) (es.take n)).2 = [] := by
  have hcov : Covered cfg (TState.start cfg regAt) es := by
    constructor
    · intro d hd; simp [TState.start] at hd
    · intro j hle
      simp only [TState.start] at hle ⊢
      have := h (j + 1) (by omega) (by rw [Nat.succ_mul]; omega)
      rw [Nat.succ_mul] at this
      obtain ⟨t, ht, h1, h2⟩ := this
      exact ⟨t, ht, by omega, by omega⟩
  have hlive : Live (TState.start cfg regAt) := ⟨rfl, rfl, by simp [TState.start]; omega⟩
  obtain ⟨h1, h2⟩ := tRun_live cfg hP es _ hlive hcov
  constructor
  · cases hq : (tRun cfg (TState.start cfg regAt) (es.take n)).1.quit with
    | false => rfl
    | true => rw [tRun_take_quit cfg _ es n hq] at h1; exact h1
  · exact tRun_take_errorTimes cfg _ es n h2

/-- State form (any live state, any pending timer): it suffices that the pending deadline and
    the deadline of every future PING are preceded by a PONG (`Covered`). -/
theorem live_never_dropped_state (cfg : TCfg) (hP : 1 ≤ cfg.pingMs) (s : TState)
    (es : List TEvent) (hl : Live s) (hc : Covered cfg s es) :
    (tRun cfg s es).1.quit = false ∧ errorTimes (tRun cfg s es).2 = [] :=
  tRun_live cfg hP es s hl hc

/-- Response-delay form: the client that answers the `k`-th PING `δ k` ms after it, with
    `δ k < min T P`, for `n` rounds (`answering P δ n`), is alive after every prefix, for every
    `n`, in both variants. -/
theorem live_never_dropped_delay (cfg : TCfg) (hP : 1 ≤ cfg.pingMs) (regAt : Nat)
    (δ : Nat → Nat) (hδT : ∀ k, δ k < cfg.pongMs) (hδP : ∀ k, δ k < cfg.pingMs) (n i : Nat) :
    (tRun cfg (TState.start cfg regAt) ((answering cfg.pingMs δ n).take i)).1.quit = false ∧
      errorTimes (tRun cfg (TState.start cfg regAt) ((answering cfg.pingMs δ n).take i)).2
        = [] := by
  apply live_never_dropped cfg hP regAt
  intro k hk hle
  rw [duration_answering cfg.pingMs δ hδP n] at hle
  have hdl := delayAt_lt δ cfg.pingMs (by omega) hδP n
  have hkn : k ≤ n := by
    apply Nat.le_of_not_lt
    intro hlt
    have := Nat.mul_le_mul_right cfg.pingMs (show n + 1 ≤ k from hlt)
    rw [Nat.succ_mul] at this
    omega
  exact ⟨_, mem_pongTimes_answering cfg.pingMs δ hδP regAt n k hk hkn, by omega,
    by have := hδT k; omega⟩

-- answering client survives 5 periods (300 ms delay), both variants
example : tRun ⟨2000, 1000, false⟩ (TState.start ⟨2000, 1000, false⟩ 0)
      (answering 2000 (fun _ => 300) 5)
    = ({ now := 10300, registered := true, regAt := 0, nextPing := 12000, deadline := none,
         quit := false },
       [.ping 2000, .ping 4000, .ping 6000, .ping 8000, .ping 10000]) := by decide
example : (tRun ⟨2000, 1000, true⟩ (TState.start ⟨2000, 1000, true⟩ 0)
      (answering 2000 (fun _ => 300) 5)).1.quit = false := by decide
-- `Answers` is satisfiable with LATE answers (after the next PING; T = 2.5 P), both variants
example : (tRun ⟨1000, 2500, true⟩ (TState.start ⟨1000, 2500, true⟩ 0)
    [.advance 3400, .pong, .advance 1000, .pong, .advance 1000, .pong, .advance 1000]).1.quit
    = false := by decide
example : pongTimes 0 [.advance 3400, .pong, .advance 1000, .pong, .advance 1000, .pong,
    .advance 1000] = [3400, 4400, 5400] := by decide
-- an answer after the deadline is too late
example : (tRun ⟨2000, 1000, true⟩ (TState.start ⟨2000, 1000, true⟩ 0)
    [.advance 3000, .pong, .advance 100]).2 = [.ping 2000, .errorTimeout 3000] := by decide

/-! ## 2. the PING schedule -/

/-- In any run from registration in which the connection has not quit, the clock is
    `regAt + duration es` and the server PINGs sent so far are exactly
    `regAt + P, regAt + 2P, …, regAt + n·P` — in this order, each once — where `n·P` is the
    largest multiple with `regAt + n·P ≤ clock`.  Both variants, any client behaviour. -/
theorem ping_schedule (cfg : TCfg) (hP : 1 ≤ cfg.pingMs) (hT : 1 ≤ cfg.pongMs) (regAt : Nat)
    (es : List TEvent) (hq : (tRun cfg (TState.start cfg regAt) es).1.quit = false) :
    (tRun cfg (TState.start cfg regAt) es).1.now = regAt + duration es ∧
    ∃ n, pingTimes (tRun cfg (TState.start cfg regAt) es).2 =
        (List.range n).map (fun i => regAt + (i + 1) * cfg.pingMs) ∧
      regAt + n * cfg.pingMs ≤ regAt + duration es ∧
      regAt + duration es < regAt + (n + 1) * cfg.pingMs := by
  have hs := tRun_sched cfg hP hT regAt es _ [] (sched_start cfg hP regAt)
  have hnow := tRun_now cfg hP es (TState.start cfg regAt) hq
  have hdur : (TState.start cfg regAt).now = regAt := rfl
  rw [hdur] at hnow
  obtain ⟨_, _, n, hn, hp, hA, _⟩ := hs
  obtain ⟨hA1, hA2, _⟩ := hA hq
  simp only [List.nil_append] at hp
  refine ⟨hnow, n, ?_, ?_, ?_⟩
  · rw [hp, pingList_eq_map]
    apply List.map_congr_left
    intro j _; rw [Nat.succ_mul]; omega
  · rw [hn, hnow, Nat.succ_mul] at hA2; omega
  · rw [hn, hnow] at hA1; exact hA1

/-- membership form: a PING was sent at `t` iff `t = regAt + k·P` for some `k ≥ 1` and
    `t ≤` the clock. -/
theorem ping_schedule_mem (cfg : TCfg) (hP : 1 ≤ cfg.pingMs) (hT : 1 ≤ cfg.pongMs)
    (regAt : Nat) (es : List TEvent)
    (hq : (tRun cfg (TState.start cfg regAt) es).1.quit = false) (t : Nat) :
    t ∈ pingTimes (tRun cfg (TState.start cfg regAt) es).2 ↔
      ∃ k, 1 ≤ k ∧ t = regAt + k * cfg.pingMs ∧ t ≤ regAt + duration es := by
  obtain ⟨_, n, hp, h1, h2⟩ := ping_schedule cfg hP hT regAt es hq
  rw [hp]
  simp only [List.mem_map, List.mem_range]
  constructor
  · rintro ⟨i, hi, rfl⟩
    have := Nat.mul_le_mul_right cfg.pingMs (show i + 1 ≤ n from hi)
    exact ⟨i + 1, by omega, rfl, by omega⟩
  · rintro ⟨k, hk, rfl, hle⟩
    refine ⟨k - 1, ?_, by rw [Nat.sub_add_cancel hk]⟩
    apply Nat.lt_of_not_le
    intro hnk
    have := Nat.mul_le_mul_right cfg.pingMs (show n + 1 ≤ k by omega)
    omega

/-- the PING times are strictly increasing (so each occurs once) -/
theorem ping_schedule_increasing (cfg : TCfg) (hP : 1 ≤ cfg.pingMs) (hT : 1 ≤ cfg.pongMs)
    (regAt : Nat) (es : List TEvent)
    (hq : (tRun cfg (TState.start cfg regAt) es).1.quit = false) :
    List.Pairwise (· < ·) (pingTimes (tRun cfg (TState.start cfg regAt) es).2) := by
  obtain ⟨_, n, hp, _, _⟩ := ping_schedule cfg hP hT regAt es hq
  rw [hp, List.pairwise_map]
  apply List.Pairwise.imp _ List.pairwise_lt_range
  intro a b hab
  have := Nat.mul_le_mul_right cfg.pingMs (show a + 1 ≤ b from hab)
  rw [Nat.succ_mul] at this ⊢
  rw [Nat.succ_mul]; omega

/-- Runs that end in a timeout: the PINGs sent are exactly those strictly before the instant
    of the timeout (tie rule: deadline first), the state is frozen at that instant, and the
    output contains exactly one ERROR, at that instant. -/
theorem ping_schedule_quit (cfg : TCfg) (hP : 1 ≤ cfg.pingMs) (hT : 1 ≤ cfg.pongMs)
    (regAt : Nat) (es : List TEvent)
    (hq : (tRun cfg (TState.start cfg regAt) es).1.quit = true) :
    ∃ n, pingTimes (tRun cfg (TState.start cfg regAt) es).2 =
        (List.range n).map (fun i => regAt + (i + 1) * cfg.pingMs) ∧
      regAt + n * cfg.pingMs < (tRun cfg (TState.start cfg regAt) es).1.now ∧
      (tRun cfg (TState.start cfg regAt) es).1.now ≤ regAt + (n + 1) * cfg.pingMs ∧
      errorTimes (tRun cfg (TState.start cfg regAt) es).2 =
        [(tRun cfg (TState.start cfg regAt) es).1.now] := by
  have hs := tRun_sched cfg hP hT regAt es _ [] (sched_start cfg hP regAt)
  obtain ⟨_, _, n, hn, hp, _, hB⟩ := hs
  obtain ⟨hB1, hB2, hB3⟩ := hB hq
  simp only [List.nil_append] at hp hB3
  refine ⟨n, ?_, ?_, ?_, hB3⟩
  · rw [hp, pingList_eq_map]
    apply List.map_congr_left
    intro j _; rw [Nat.succ_mul]; omega
  · rw [hn, Nat.succ_mul] at hB2; omega
  · rw [hn] at hB1; exact hB1

/-- an ERROR is sent iff the connection quits, and then exactly once -/
theorem error_iff_quit (cfg : TCfg) (hP : 1 ≤ cfg.pingMs) (hT : 1 ≤ cfg.pongMs)
    (regAt : Nat) (es : List TEvent) :
    errorTimes (tRun cfg (TState.start cfg regAt) es).2 =
      if (tRun cfg (TState.start cfg regAt) es).1.quit
      then [(tRun cfg (TState.start cfg regAt) es).1.now] else [] := by
  have hs := tRun_sched cfg hP hT regAt es _ [] (sched_start cfg hP regAt)
  obtain ⟨_, _, n, _, _, hA, hB⟩ := hs
  simp only [List.nil_append] at hA hB
  cases hq : (tRun cfg (TState.start cfg regAt) es).1.quit with
  | false => simpa using (hA hq).2.2
  | true => simpa using (hB hq).2.2

example : pingTimes (tRun ⟨1000, 2500, true⟩ (TState.start ⟨1000, 2500, true⟩ 50)
    [.advance 3400, .pong, .pingCmd (str "q"), .advance 1000, .pong, .advance 700]).2
    = [1050, 2050, 3050, 4050, 5050] := by decide
example : (tRun ⟨1000, 2500, true⟩ (TState.start ⟨1000, 2500, true⟩ 50)
    [.advance 3400, .pong, .pingCmd (str "q"), .advance 1000, .pong, .advance 700]).1.quit
    = false := by decide

end Irc.C17
