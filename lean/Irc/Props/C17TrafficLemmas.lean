/-
  Lemmas for `Irc/Props/C17Traffic.lean`: other traffic does not touch the keep-alive state.

  The component of the world that is framed here is the projection

      w.pp d = (w.conn? d).map (·.pongPending)        (`World.pp`)

  i.e. the keep-alive flag of every connection number (what `conn?` finds: no hypothesis on the world,
  in particular not that connection numbers are unique).  One fact is proved for every context
  primitive, helper and handler `h` except `processPong`:

      KP c X (h X)      where  KP c X Y  :=  ∀ d, Y.w.pp d = X.w.pp d

  `c` is the ACTING connection; it does not occur in the definition and is there for the one rule
  that needs it, `KP.setConn`: a handler may rewrite its own record as long as the new record carries
  the flag that the record had when the handler started.  The method is (B) of
  `Irc/Props/C18FrameLemmas0.lean` (relation + tactic that peels the context operations off from the
  outside); the 31 handlers that never write a connection record are taken from there
  (`Keep c' X Y` for every `c'`, `KP.of_keep`).  New proofs: the registration helpers, CAP, PASS, NICK,
  USER, QUIT (own record rewritten) and KILL / DIE / SQUIT (`fireKill` writes `killedBy` into the
  record of the victim's owner).
-/
import Irc.Props.C18FrameLemmas5

namespace Irc

/-- the keep-alive flag of connection number `d` (`none`: no such connection) -/
def World.pp (w : World) (d : Nat) : Option Bool := (w.conn? d).map (·.pongPending)

namespace C17T
open Irc.Conc Irc.C18F

/-- `Y` has the keep-alive flags of `X`; `c` = the acting connection (see the header) -/
def KP (_c : Nat) (X Y : Ctx) : Prop := ∀ d, Y.w.pp d = X.w.pp d

/-! ### records -/

theorem find?_map_keepid (f : Conn → Conn) (hf : ∀ a, (f a).id = a.id) (l : List Conn) (d : Nat) :
    (l.map f).find? (·.id == d) = (l.find? (·.id == d)).map f := by
  induction l with
  | nil => rfl
  | cons a l ih =>
    simp only [List.map_cons, List.find?_cons, hf]
    split
    · rfl
    · exact ih

/-- what `setConn` does to the record that `conn?` finds -/
theorem conn?_setConn (w : World) (dn : Conn) (d : Nat) :
    (w.setConn dn).conn? d = (w.conn? d).map (fun x => if x.id == dn.id then dn else x) := by
  unfold World.setConn World.conn?
  apply find?_map_keepid
  intro a
  show (if a.id == dn.id then dn else a).id = a.id
  split
  · next h => exact (by simpa using h : a.id = dn.id).symm
  · rfl

/-- writing a record that carries the flag of the record it replaces -/
theorem pp_setConn_same {w : World} {dn : Conn}
    (h : ∀ cn, w.conn? dn.id = some cn → dn.pongPending = cn.pongPending) :
    (w.setConn dn).pp = w.pp := by
  funext d
  unfold World.pp
  rw [conn?_setConn]
  cases hd : w.conn? d with
  | none => rfl
  | some cn =>
    simp only [Option.map_some]
    split
    · next he =>
      have e1 : cn.id = dn.id := by simpa using he
      have e2 : cn.id = d := conn?_id hd
      rw [h cn (by rw [← e1, e2]; exact hd)]
    · rfl

theorem pp_congr {w w' : World} (h : w'.conns = w.conns) : w'.pp = w.pp := by
  funext d
  unfold World.pp World.conn?
  rw [h]

theorem conn_pp (x : Ctx) (d : Nat) : (x.conn d).pongPending = (x.w.pp d).getD false := by
  unfold Ctx.conn World.pp
  cases x.w.conn? d <;> rfl

/-! ### `KP` -/
section
variable {c : Nat} {X Y Z : Ctx}

theorem KP.refl (X : Ctx) : KP c X X := fun _ => rfl
theorem KP.trans (h1 : KP c X Y) (h2 : KP c Y Z) : KP c X Z := fun d => (h2 d).trans (h1 d)

theorem KP.of_keep (h : ∀ c', Keep c' X Y) : KP c X Y := by
  intro d
  unfold World.pp
  rw [h d]

theorem KP.post (h : KP c X Y) (hc : Z.w.conns = Y.w.conns) : KP c X Z := by
  intro d
  rw [pp_congr hc]; exact h d

theorem KP.post_pp (h : KP c X Y) (hc : Z.w.pp = Y.w.pp) : KP c X Z := by
  intro d
  rw [hc]; exact h d

/-- the flag that a handler reads through `Ctx.conn` -/
theorem KP.conn (h : KP c X Y) (d : Nat) : (Y.conn d).pongPending = (X.conn d).pongPending := by
  rw [conn_pp, conn_pp, h d]

theorem KP.reply (h : KP c X Y) {cfg : Cfg} {t : Str} : KP c X (Y.reply cfg t) := h
theorem KP.replySrc (h : KP c X Y) {s t : Str} : KP c X (Y.replySrc s t) := h
theorem KP.panic (h : KP c X Y) {s : String} : KP c X (Y.panic s) := h
theorem KP.send (h : KP c X Y) {n l : Str} : KP c X (Y.send n l) :=
  h.post (Ctx.send_conns ..)
theorem KP.sendDisplay (h : KP c X Y) {n s t : Str} : KP c X (Y.sendDisplay n s t) :=
  KP.send h
theorem KP.foldl {α : Type} {f : Ctx → α → Ctx} (hf : ∀ Y a, KP c Y (f Y a))
    (h : KP c X Y) (l : List α) : KP c X (l.foldl f Y) := by
  induction l generalizing Y with
  | nil => exact h
  | cons a l ih => exact ih (h.trans (hf Y a))
theorem KP.sendAll (h : KP c X Y) {ns : List Str} {l : Str} : KP c X (Y.sendAll ns l) :=
  KP.foldl (fun Y _ => KP.send (KP.refl Y)) h ns
theorem KP.modifyW (h : KP c X Y) {f : World → World} (hf : ∀ w, (f w).conns = w.conns) :
    KP c X (Y.modifyW f) := h.post (hf _)
theorem KP.modifyW_pp (h : KP c X Y) {f : World → World} (hf : ∀ w, (f w).pp = w.pp) :
    KP c X (Y.modifyW f) := h.post_pp (hf _)

/-- the acting connection rewrites its own record and keeps the flag it started with -/
theorem KP.setConn (h : KP c X Y) {dn : Conn} (hid : dn.id = c)
    (hp : dn.pongPending = (X.conn c).pongPending) : KP c X (Y.setConn dn) := by
  refine h.post_pp (pp_setConn_same ?_)
  intro cn hcn
  rw [hid] at hcn
  rw [hp, conn_pp, ← h c]
  unfold World.pp
  rw [hcn]; rfl

end

/-! ### the tactic -/

/-- side goal `dn.id = c` of `KP.setConn` -/
macro "kpp_id" : tactic =>
  `(tactic| first
    | exact ctx_conn_id _ _
    | (simp only [conn_id, setNick_id, setName_id]))

/-- hook: `KP c X Y → KP c X (helper … Y)` lemmas registered with `macro_rules` -/
syntax "kpp_lemma" : tactic
macro_rules | `(tactic| kpp_lemma) => `(tactic| fail "no KP lemma applies")

macro "kpp" : tactic =>
  `(tactic| repeat' (first
    | with_reducible exact KP.refl _
    | with_reducible assumption
    | with_reducible apply KP.reply
    | with_reducible apply KP.replySrc
    | with_reducible apply KP.sendDisplay
    | with_reducible apply KP.send
    | with_reducible apply KP.sendAll
    | with_reducible apply KP.panic
    | with_reducible apply KP.setConn
    | with_reducible apply KP.modifyW
    | (show (_ : Nat) = _; kpp_id; done)
    | (show (_ : Bool) = _; rfl)
    | (show ∀ _ : World, _ = _; kp_w; done)
    | (intro _ _; try dsimp only)
    | kpp_lemma
    | with_reducible apply KP.foldl
    | split))

/-! ### the helpers and handlers of `Irc/HConn.lean` -/
section
variable {cfg : Cfg} {c : Nat} {X Y : Ctx}

theorem KP.then_sendIsupport {client : Str} (h : KP c X Y) : KP c X (sendIsupport cfg client Y) :=
  h.trans (KP.of_keep fun _ => keep_sendIsupport)
macro_rules | `(tactic| kpp_lemma) => `(tactic| with_reducible apply KP.then_sendIsupport)

theorem KP.then_processLusers {client : Str} (h : KP c X Y) : KP c X (processLusers cfg client Y) :=
  h.trans (KP.of_keep fun _ => keep_processLusers)
macro_rules | `(tactic| kpp_lemma) => `(tactic| with_reducible apply KP.then_processLusers)

theorem KP.then_unsupported {client : Str} {s : String} (h : KP c X Y) :
    KP c X (unsupported cfg client s Y) := h
macro_rules | `(tactic| kpp_lemma) => `(tactic| with_reducible apply KP.then_unsupported)

theorem KP.then_processMotd {client : Str} {t : Option Str} (h : KP c X Y) :
    KP c X (processMotd cfg client t Y) :=
  h.trans (KP.of_keep fun _ => keep_processMotd)
macro_rules | `(tactic| kpp_lemma) => `(tactic| with_reducible apply KP.then_processMotd)

theorem KP.then_welcomeBurst {cn : Conn} {um : Str} (h : KP c X Y) :
    KP c X (welcomeBurst cfg cn um Y) :=
  h.trans (KP.of_keep fun _ => keep_welcomeBurst)
macro_rules | `(tactic| kpp_lemma) => `(tactic| with_reducible apply KP.then_welcomeBurst)

/-- registration (`authenticate`): rewrites the own record (flags `authenticated`, `registered`,
    `quit`, the three sender ghosts), never `pongPending` -/
theorem kp_authenticate : KP c X (authenticate cfg c X) := by
  unfold authenticate
  dsimp only
  kpp

/-- `authenticate` after something that kept the flags: the record it starts from is read from `Y` -/
theorem KP.then_authenticate (h : KP c X Y) : KP c X (authenticate cfg c Y) :=
  h.trans kp_authenticate
macro_rules | `(tactic| kpp_lemma) => `(tactic| with_reducible apply KP.then_authenticate)

theorem kp_processCap {sub : CapCommand} {caps : Option (List Str)} :
    KP c X (processCap cfg c sub caps X) := by
  unfold processCap
  dsimp only
  kpp

theorem kp_processPass {p : Str} : KP c X (processPass cfg c p X) := by
  unfold processPass
  dsimp only
  kpp

theorem kp_processUser {u r : Str} : KP c X (processUser cfg c u r X) := by
  unfold processUser
  dsimp only
  kpp

theorem kp_processNick {n : Str} {msg : Message} : KP c X (processNick cfg c n msg X) := by
  unfold processNick
  dsimp only
  kpp

theorem kp_processQuit : KP c X (processQuit cfg c X) := by
  unfold processQuit
  dsimp only
  kpp

end

/-! ### KILL / DIE / SQUIT: `killedBy` is written into the record of the victim's owner -/
section
variable {cfg : Cfg} {c : Nat} {X Y : Ctx}

theorem fireKill_pp (k cm n : Str) (w : World) : (fireKill k cm n w).pp = w.pp := by
  unfold fireKill
  split
  · rfl
  · next u hu =>
    split
    · rfl
    · dsimp only
      split
      · next cn' hc =>
        refine (pp_setConn_same ?_).trans (pp_congr rfl)
        intro cn0 h0
        have hid : cn'.id = u.owner := conn?_id hc
        have e : World.conn?
            { w with users := Map.insert n { u with killed := true } w.users } u.owner = some cn0 := by
          rw [← hid]; exact h0
        rw [hc] at e
        cases e
        rfl
      · rfl

theorem fireKill_foldl_pp (k cm : Str) (l : List Str) (w : World) :
    (l.foldl (fun w n => fireKill k cm n w) w).pp = w.pp := by
  induction l generalizing w with
  | nil => rfl
  | cons a l ih =>
    simp only [List.foldl_cons]
    rw [ih, fireKill_pp]

theorem kp_processKill {n cm : Str} : KP c X (processKill cfg c n cm X) := by
  unfold processKill
  dsimp only
  repeat' split
  all_goals first
    | exact (KP.refl _).modifyW_pp (fun w => fireKill_pp _ _ _ w)
    | (kpp; done)

theorem kp_processDie {m : Option Str} : KP c X (processDie cfg c m X) := by
  unfold processDie
  dsimp only
  repeat' split
  all_goals first
    | exact (KP.refl _).modifyW_pp (fun w => (pp_congr rfl).trans (fireKill_foldl_pp _ _ _ w))
    | (kpp; done)

theorem kp_processSquit {srv cm : Str} : KP c X (processSquit cfg c srv cm X) := by
  unfold processSquit
  split
  · exact (KP.refl X).then_unsupported
  · exact kp_processDie

end

end C17T
end Irc
