/-
  Property C18, the GENERAL serialisability theorem (`Irc/Props/C18General.lean`), part 0:
  the schedule semantics for MANY connections (`Sys`, `move`, `runSched`), the sequential reference
  (`seqStep`, `seqRun`), the bookkeeping of programs (`linesOf`), and the shape of `splitCore`.
-/
import Irc.Props.C18Frame
import Irc.InvProofs.Step

namespace Irc.C18G

open Irc Irc.Conc Reply

/-! ### the sections of a command without the relaxed-atomic counter -/

def isCount : Section → Bool
  | .count _ _ => true
  | _ => false

/-- the lock sections of a command proper: `splitCommand` without the `.count` section (the
    relaxed atomic `command_counts[i].fetch_add(1)`, whose only reader is `STATS m`) -/
def splitCore (auth : Bool) (c : Nat) (line : Str) : List Section :=
  (splitCommand auth c line).filter (fun s => !(isCount s))

/-- the line is a well-formed `NICK` -/
def isNickLine (line : Str) : Bool :=
  match C18F.lineCmd line with
  | some (.NICK _) => true
  | _ => false

/-! ### the system: a global state, a program and a pending section list per connection -/

/-- point update of a function on connection numbers -/
def upd {α : Type} (f : Nat → α) (c : Nat) (v : α) : Nat → α := fun d => if d = c then v else f d

@[simp] theorem upd_self {α : Type} (f : Nat → α) (c : Nat) (v : α) : upd f c v c = v := by
  simp [upd]

theorem upd_ne {α : Type} (f : Nat → α) {c d : Nat} (v : α) (h : d ≠ c) : upd f c v d = f d := by
  simp [upd, h]

structure Sys where
  /-- the state of the interleaved run -/
  σ : CState
  /-- command lines not yet started, per connection (the rest of its program) -/
  todo : Nat → List Str
  /-- the sections of the command in progress that are still to run -/
  pend : Nat → List Section := fun _ => []
  /-- the line of the command in progress (meaningful while `pend c ≠ []`) -/
  cur : Nat → Str := fun _ => []

/-- the connection's OWN `authenticated` flag (connection-local, so the task knows it) -/
def authOf (σ : CState) (c : Nat) : Bool := (({ w := σ.w } : Ctx).conn c).authenticated

/-- if nothing is pending, connection `c` takes the next line of its program and computes its
    section list from its own `authenticated` flag at this moment -/
def load (split : Bool → Nat → Str → List Section) (c : Nat) (S : Sys) : Sys :=
  match S.pend c, S.todo c with
  | [], line :: more =>
    { S with todo := upd S.todo c more
             pend := upd S.pend c (split (authOf S.σ c) c line)
             cur := upd S.cur c line }
  | _, _ => S

/-- connection `c` makes one move: (start the next command if none is in progress and) execute the
    next pending section.  `none` if `c` has nothing to do. -/
def move (cfg : Cfg) (split : Bool → Nat → Str → List Section) (c : Nat) (S : Sys) : Option Sys :=
  let S' := load split c S
  match S'.pend c with
  | [] => none
  | s :: rest => some { S' with σ := stepSection cfg s S'.σ, pend := upd S'.pend c rest }

/-- a schedule is the list of the connections in the order in which they are granted their next
    section; `none` if a picked connection has nothing to do -/
def runSched (cfg : Cfg) (split : Bool → Nat → Str → List Section) : List Nat → Sys → Option Sys
  | [], S => some S
  | c :: cs, S =>
    match move cfg split c S with
    | some S' => runSched cfg split cs S'
    | none => none

/-! ### the corner -/

/-- the move connection `c` is about to make is NOT the corner: if its next section is the A3 of a
    split `NICK` and A2 said "good" (`pc c = .toCommit r`), then the nick recorded in its
    connection record is free in the state A3 runs in.  (For `PASS` / `USER` / `CAP END` a taken
    nick at A3 is not a corner.) -/
def cornerFree (S : Sys) (c : Nat) : Bool :=
  match S.pend c, S.σ.pc c with
  | .authCommit d :: _, .toCommit _ =>
    if d = c ∧ isNickLine (S.cur c) = true then
      match (S.σ.w.conn? c).bind (·.nick) with
      | some n => !(Map.contains n S.σ.w.users)
      | none => true
    else true
  | _, _ => true

/-- the corner never occurs along the run of the schedule from `S` -/
def noCorner (cfg : Cfg) (split : Bool → Nat → Str → List Section) : List Nat → Sys → Bool
  | [], _ => true
  | c :: cs, S =>
    cornerFree S c &&
      (match move cfg split c S with
       | some S' => noCorner cfg split cs S'
       | none => true)

/-- a simulation argument along a schedule: a relation between the system and the list of the
    commands serialised so far that every corner-free move preserves is preserved by the run -/
theorem runSched_sim {cfg : Cfg} {split : Bool → Nat → Str → List Section}
    (R : Sys → List (Nat × Str) → Prop)
    (hstep : ∀ S done c S', R S done → cornerFree S c = true → move cfg split c S = some S' →
      ∃ done', R S' done') :
    ∀ (sched : List Nat) (S : Sys) (done : List (Nat × Str)) (S' : Sys), R S done →
      noCorner cfg split sched S = true → runSched cfg split sched S = some S' →
      ∃ done', R S' done' := by
  intro sched
  induction sched with
  | nil =>
    intro S done S' hR _ hrun
    simp only [runSched, Option.some.injEq] at hrun
    subst hrun
    exact ⟨done, hR⟩
  | cons c cs ih =>
    intro S done S' hR hnc hrun
    simp only [runSched] at hrun
    simp only [noCorner, Bool.and_eq_true] at hnc
    cases hm : move cfg split c S with
    | none => rw [hm] at hrun; cases hrun
    | some S1 =>
      rw [hm] at hrun
      obtain ⟨h1, h2⟩ := hnc
      rw [hm] at h2
      obtain ⟨done1, hR1⟩ := hstep S done c S1 hR h1 hm
      exact ih S1 done1 S' hR1 h2 hrun

/-! ### the sequential reference -/

/-- one whole command, its sections back to back -/
def seqStep (cfg : Cfg) (split : Bool → Nat → Str → List Section) (p : Nat × Str) (τ : CState) :
    CState :=
  runSections cfg (split (authOf τ p.1) p.1 p.2) τ

/-- whole commands one at a time -/
def seqRun (cfg : Cfg) (split : Bool → Nat → Str → List Section) (cmds : List (Nat × Str))
    (τ : CState) : CState :=
  cmds.foldl (fun τ p => seqStep cfg split p τ) τ

theorem seqRun_snoc (cfg : Cfg) (split : Bool → Nat → Str → List Section) (cmds : List (Nat × Str))
    (p : Nat × Str) (τ : CState) :
    seqRun cfg split (cmds ++ [p]) τ = seqStep cfg split p (seqRun cfg split cmds τ) := by
  simp [seqRun, List.foldl_append]

/-- the sequential model proper: `handleLine` folded over the commands -/
def seqWhole (cfg : Cfg) (cmds : List (Nat × Str)) (τ : CState) : CState :=
  cmds.foldl (fun τ p => stepSection cfg (.whole p.1 p.2) τ) τ

theorem seqWhole_snoc (cfg : Cfg) (cmds : List (Nat × Str)) (p : Nat × Str) (τ : CState) :
    seqWhole cfg (cmds ++ [p]) τ = stepSection cfg (.whole p.1 p.2) (seqWhole cfg cmds τ) := by
  simp [seqWhole, List.foldl_append]

/-- the lines of connection `c` in a list of commands, in order -/
def linesOf (c : Nat) (cmds : List (Nat × Str)) : List Str :=
  (cmds.filter (fun p => p.1 == c)).map (·.2)

theorem linesOf_snoc_self (c : Nat) (cmds : List (Nat × Str)) (l : Str) :
    linesOf c (cmds ++ [(c, l)]) = linesOf c cmds ++ [l] := by
  simp [linesOf, List.filter_append]

theorem linesOf_snoc_ne {c d : Nat} (cmds : List (Nat × Str)) (l : Str) (h : d ≠ c) :
    linesOf c (cmds ++ [(d, l)]) = linesOf c cmds := by
  simp [linesOf, List.filter_append, h]

/-! ### the shape of `splitCore` -/

theorem authOf_of {σ : CState} {c : Nat} {cn : Conn} (h : σ.w.conn? c = some cn) :
    authOf σ c = cn.authenticated := by
  simp [authOf, Ctx.conn, h]

/-- a command is one section (possibly followed by the identity section `touch`), or the
    connection is unauthenticated and the command is a `NICK` (three sections) or a
    `PASS` / `USER` / `CAP END` (two sections) -/
theorem splitCore_cases (auth : Bool) (c : Nat) (line : Str) :
    splitCore auth c line = [.whole c line] ∨
    splitCore auth c line = [.whole c line, .touch c] ∨
    (auth = false ∧ ∃ n, C18F.lineCmd line = some (.NICK n) ∧
      splitCore auth c line = nickSections c n) ∨
    (auth = false ∧ isNickLine line = false ∧ ∃ cmd, C18F.lineCmd line = some cmd ∧
      (∀ cn, ∃ cn', preludeConn cmd cn = some cn') ∧
      splitCore auth c line = [.prelude c cmd, .authCommit c]) := by
  cases hp : Message.parse line with
  | error e => left; simp [splitCore, splitCommand, hp, isCount]
  | ok msg =>
    cases hc : Command.fromMessage msg with
    | error e => left; simp [splitCore, splitCommand, hp, hc, isCount]
    | ok cmd =>
      have hl : C18F.lineCmd line = some cmd := by simp [C18F.lineCmd, hp, hc]
      cases auth with
      | true =>
        have : splitCore true c line = [.whole c line] ∨
            splitCore true c line = [.whole c line, .touch c] := by
          simp only [splitCore, splitCommand, hp, hc]
          split <;> simp [isCount]
        rcases this with h | h
        · exact .inl h
        · exact .inr (.inl h)
      | false =>
        cases cmd with
        | NICK n =>
          refine .inr (.inr (.inl ⟨rfl, n, hl, ?_⟩))
          simp [splitCore, splitCommand, hp, hc, isCount, nickSections]
        | PASS p =>
          refine .inr (.inr (.inr ⟨rfl, ?_, _, hl, fun cn => ⟨_, rfl⟩, ?_⟩))
          · simp [isNickLine, hl]
          · simp [splitCore, splitCommand, hp, hc, isCount]
        | USER u a b r =>
          refine .inr (.inr (.inr ⟨rfl, ?_, _, hl, fun cn => ⟨_, rfl⟩, ?_⟩))
          · simp [isNickLine, hl]
          · simp [splitCore, splitCommand, hp, hc, isCount]
        | CAP sub caps v =>
          cases sub with
          | END =>
            refine .inr (.inr (.inr ⟨rfl, ?_, _, hl, fun cn => ⟨_, rfl⟩, ?_⟩))
            · simp [isNickLine, hl]
            · simp [splitCore, splitCommand, hp, hc, isCount]
          | _ => left; simp [splitCore, splitCommand, hp, hc, isCount]
        | PRIVMSG ts t => right; left; simp [splitCore, splitCommand, hp, hc, isCount]
        | NOTICE ts t => right; left; simp [splitCore, splitCommand, hp, hc, isCount]
        | _ => left; simp [splitCore, splitCommand, hp, hc, isCount]

/-- `splitCommand` is `splitCore`, preceded by the counter section for the split commands -/
theorem splitCommand_eq (auth : Bool) (c : Nat) (line : Str) :
    splitCommand auth c line = splitCore auth c line ∨
    ∃ i, splitCommand auth c line = .count c i :: splitCore auth c line := by
  unfold splitCore splitCommand
  split
  · split
    · cases auth with
      | true => split <;> simp [isCount]
      | false => split <;> simp [isCount, nickSections]
    · simp [isCount]
  · simp [isCount]

/-! ### the shape of a section-list function, with or without the counter sections -/

/-- the optional counter section -/
def cntSec (c : Nat) : Option Nat → List Section
  | some i => [.count c i]
  | none => []

/-- what the refinement proof uses of `splitCommand` / `splitCore`: a command is one section
    (possibly followed by `touch`), or the connection is unauthenticated and the sections are —
    after an optional counter section — the three of `NICK` or the two of `PASS`/`USER`/`CAP END` -/
structure SplitShape (split : Bool → Nat → Str → List Section) : Prop where
  cases : ∀ auth c line,
    split auth c line = [.whole c line] ∨
    split auth c line = [.whole c line, .touch c] ∨
    (auth = false ∧ ∃ n cnt, C18F.lineCmd line = some (.NICK n) ∧
      split auth c line = cntSec c cnt ++ nickSections c n) ∨
    (auth = false ∧ isNickLine line = false ∧ ∃ cmd cnt, C18F.lineCmd line = some cmd ∧
      (∀ cn, ∃ cn', preludeConn cmd cn = some cn') ∧
      split auth c line = cntSec c cnt ++ [.prelude c cmd, .authCommit c])

/-- the section lists contain no counter section -/
def NoCount (split : Bool → Nat → Str → List Section) : Prop :=
  ∀ auth c line s, s ∈ split auth c line → isCount s = false

theorem splitCore_noCount : NoCount splitCore := by
  intro auth c line s hs
  simp only [splitCore, List.mem_filter, Bool.not_eq_true'] at hs
  exact hs.2

theorem splitCore_shape : SplitShape splitCore := by
  constructor
  intro auth c line
  rcases splitCore_cases auth c line with e | e | ⟨ha, n, hl, e⟩ | ⟨ha, hnl, cmd, hl, hpre, e⟩
  · exact .inl e
  · exact .inr (.inl e)
  · exact .inr (.inr (.inl ⟨ha, n, none, hl, e⟩))
  · exact .inr (.inr (.inr ⟨ha, hnl, cmd, none, hl, hpre, e⟩))

theorem splitCommand_shape : SplitShape splitCommand := by
  constructor
  intro auth c line
  cases hp : Message.parse line with
  | error e => left; simp [splitCommand, hp]
  | ok msg =>
    cases hc : Command.fromMessage msg with
    | error e => left; simp [splitCommand, hp, hc]
    | ok cmd =>
      have hl : C18F.lineCmd line = some cmd := by simp [C18F.lineCmd, hp, hc]
      cases auth with
      | true =>
        have : splitCommand true c line = [.whole c line] ∨
            splitCommand true c line = [.whole c line, .touch c] := by
          simp only [splitCommand, hp, hc]
          split <;> simp
        rcases this with h | h
        · exact .inl h
        · exact .inr (.inl h)
      | false =>
        cases cmd with
        | NICK n =>
          refine .inr (.inr (.inl ⟨rfl, n, some (Command.NICK n).id.index, hl, ?_⟩))
          simp [splitCommand, hp, hc, cntSec]
        | PASS p =>
          refine .inr (.inr (.inr ⟨rfl, ?_, _, some (Command.PASS p).id.index, hl,
            fun cn => ⟨_, rfl⟩, ?_⟩))
          · simp [isNickLine, hl]
          · simp [splitCommand, hp, hc, cntSec]
        | USER u a b r =>
          refine .inr (.inr (.inr ⟨rfl, ?_, _, some (Command.USER u a b r).id.index, hl,
            fun cn => ⟨_, rfl⟩, ?_⟩))
          · simp [isNickLine, hl]
          · simp [splitCommand, hp, hc, cntSec]
        | CAP sub caps v =>
          cases sub with
          | END =>
            refine .inr (.inr (.inr ⟨rfl, ?_, _, some (Command.CAP .END caps v).id.index, hl,
              fun cn => ⟨_, rfl⟩, ?_⟩))
            · simp [isNickLine, hl]
            · simp [splitCommand, hp, hc, cntSec]
          | _ => left; simp [splitCommand, hp, hc]
        | PRIVMSG ts t => right; left; simp [splitCommand, hp, hc]
        | NOTICE ts t => right; left; simp [splitCommand, hp, hc]
        | _ => left; simp [splitCommand, hp, hc]

end Irc.C18G
