/-
  Property C18, general serialisability, part 1: the warm-up — any number of connections, programs
  of ONE-SECTION commands only (`atomic_interleaving` of C18.lean from 2 to n connections, in the
  schedule semantics).  Also: how `move` unfolds.
-/
import Irc.Props.C18GeneralLemmas0

namespace Irc.C18G

open Irc Irc.Conc Reply

/-! ### how `move` unfolds -/

theorem move_pending {cfg : Cfg} {split : Bool → Nat → Str → List Section} {c : Nat} {S : Sys}
    {s : Section} {rest : List Section} (h : S.pend c = s :: rest) :
    move cfg split c S = some { S with σ := stepSection cfg s S.σ, pend := upd S.pend c rest } := by
  have hl : load split c S = S := by
    unfold load
    rw [h]
  unfold move
  simp only [hl, h]

theorem move_none {cfg : Cfg} {split : Bool → Nat → Str → List Section} {c : Nat} {S : Sys}
    (h : S.pend c = []) (ht : S.todo c = []) : move cfg split c S = none := by
  have hl : load split c S = S := by
    unfold load
    rw [h, ht]
  unfold move
  simp only [hl, h]

theorem move_start {cfg : Cfg} {split : Bool → Nat → Str → List Section} {c : Nat} {S : Sys}
    {line : Str} {more : List Str} {s : Section} {rest : List Section}
    (h : S.pend c = []) (ht : S.todo c = line :: more)
    (hs : split (authOf S.σ c) c line = s :: rest) :
    move cfg split c S = some
      { σ := stepSection cfg s S.σ, todo := upd S.todo c more, pend := upd S.pend c rest,
        cur := upd S.cur c line } := by
  have hl : load split c S =
      { S with todo := upd S.todo c more, pend := upd S.pend c (split (authOf S.σ c) c line),
               cur := upd S.cur c line } := by
    unfold load
    rw [h, ht]
  unfold move
  simp only [hl, upd_self, hs]
  congr 2
  funext d
  by_cases hd : d = c <;> simp [upd, hd]

theorem move_start_nil {cfg : Cfg} {split : Bool → Nat → Str → List Section} {c : Nat} {S : Sys}
    {line : Str} {more : List Str}
    (h : S.pend c = []) (ht : S.todo c = line :: more)
    (hs : split (authOf S.σ c) c line = []) : move cfg split c S = none := by
  have hl : load split c S =
      { S with todo := upd S.todo c more, pend := upd S.pend c (split (authOf S.σ c) c line),
               cur := upd S.cur c line } := by
    unfold load
    rw [h, ht]
  unfold move
  simp only [hl, upd_self, hs]

/-! ### programs of one-section commands -/

/-- the line is a one-section command whatever the connection's flag is (everything but `NICK`,
    `PASS`, `USER`, `CAP END`; `PRIVMSG` / `NOTICE` are followed by the identity section) -/
def OneSection (c : Nat) (line : Str) : Prop :=
  ∀ auth, splitCore auth c line = [.whole c line] ∨ splitCore auth c line = [.whole c line, .touch c]

theorem seqStep_oneSection {cfg : Cfg} {c : Nat} {line : Str} (h : OneSection c line) (τ : CState) :
    seqStep cfg splitCore (c, line) τ = stepSection cfg (.whole c line) τ := by
  unfold seqStep
  rcases h (authOf τ c) with e | e
  · simp only [e, runSections_cons, runSections_nil]
  · simp only [e, runSections_cons, runSections_nil, step_touch]

structure AtomicSim (cfg : Cfg) (σ₀ : CState) (prog : Nat → List Str) (S : Sys)
    (done : List (Nat × Str)) : Prop where
  state : S.σ = seqWhole cfg done σ₀
  progs : ∀ c, prog c = linesOf c done ++ S.todo c
  pend : ∀ c, ∀ s ∈ S.pend c, s = .touch c
  one : ∀ c, ∀ l ∈ S.todo c, OneSection c l

theorem atomicSim_step {cfg : Cfg} {σ₀ : CState} {prog : Nat → List Str} {S S' : Sys}
    {done : List (Nat × Str)} {c : Nat} (h : AtomicSim cfg σ₀ prog S done)
    (hm : move cfg splitCore c S = some S') : ∃ done', AtomicSim cfg σ₀ prog S' done' := by
  cases hp : S.pend c with
  | cons s rest =>
    rw [move_pending hp] at hm
    simp only [Option.some.injEq] at hm
    subst hm
    have hs : s = .touch c := h.pend c s (by rw [hp]; exact List.mem_cons_self)
    refine ⟨done, ⟨?_, h.progs, ?_, h.one⟩⟩
    · show stepSection cfg s S.σ = _
      rw [hs, step_touch]; exact h.state
    · intro d t ht
      dsimp only at ht
      by_cases hd : d = c
      · subst hd
        simp only [upd_self] at ht
        exact h.pend d t (by rw [hp]; exact List.mem_cons_of_mem _ ht)
      · rw [upd_ne _ _ hd] at ht
        exact h.pend d t ht
  | nil =>
    cases ht : S.todo c with
    | nil => rw [move_none hp ht] at hm; cases hm
    | cons line more =>
      have hone : OneSection c line := h.one c line (by rw [ht]; exact List.mem_cons_self)
      have key : ∀ rest, (∀ t ∈ rest, t = Section.touch c) →
          splitCore (authOf S.σ c) c line = .whole c line :: rest →
          ∃ done', AtomicSim cfg σ₀ prog S' done' := by
        intro rest hrest hs
        rw [move_start hp ht hs] at hm
        simp only [Option.some.injEq] at hm
        subst hm
        refine ⟨done ++ [(c, line)], ⟨?_, ?_, ?_, ?_⟩⟩
        · show stepSection cfg (.whole c line) S.σ = _
          rw [seqWhole_snoc, ← h.state]
        · intro d
          by_cases hd : d = c
          · subst hd
            simp only [upd_self]
            rw [linesOf_snoc_self, h.progs d, ht]
            simp
          · show prog d = _ ++ upd S.todo c more d
            rw [upd_ne _ _ hd, linesOf_snoc_ne _ _ (fun e => hd e.symm)]
            exact h.progs d
        · intro d t htm
          dsimp only at htm
          by_cases hd : d = c
          · subst hd
            simp only [upd_self] at htm
            exact hrest t htm
          · rw [upd_ne _ _ hd] at htm
            exact h.pend d t htm
        · intro d l hl
          dsimp only at hl
          by_cases hd : d = c
          · subst hd
            simp only [upd_self] at hl
            exact h.one d l (by rw [ht]; exact List.mem_cons_of_mem _ hl)
          · rw [upd_ne _ _ hd] at hl
            exact h.one d l hl
      rcases hone (authOf S.σ c) with e | e
      · exact key [] (by simp) e
      · exact key [.touch c] (by simp) e

/-- the same simulation argument without the corner condition -/
theorem runSched_sim' {cfg : Cfg} {split : Bool → Nat → Str → List Section}
    (R : Sys → List (Nat × Str) → Prop)
    (hstep : ∀ S done c S', R S done → move cfg split c S = some S' → ∃ done', R S' done') :
    ∀ (sched : List Nat) (S : Sys) (done : List (Nat × Str)) (S' : Sys), R S done →
      runSched cfg split sched S = some S' → ∃ done', R S' done' := by
  intro sched
  induction sched with
  | nil =>
    intro S done S' hR hrun
    simp only [runSched, Option.some.injEq] at hrun
    subst hrun
    exact ⟨done, hR⟩
  | cons c cs ih =>
    intro S done S' hR hrun
    simp only [runSched] at hrun
    cases hm : move cfg split c S with
    | none => rw [hm] at hrun; cases hrun
    | some S1 =>
      rw [hm] at hrun
      obtain ⟨done1, hR1⟩ := hstep S done c S1 hR hm
      exact ih S1 done1 S' hR1 hrun

end Irc.C18G
