/-
  C13 (numeric replies): every numeric reply the server can emit is a well-formed IRC message
  `:server NNN client ...`.

  Files
  * `C13RepliesLemmas.lean` — 1. the generic parser lemma `parse_numeric_line`, the shape
    predicate `NumericShape`, the uniform tactic `reply_shape`, and `parse_of_shape`.
  * `C13RepliesShapes.lean` — 2. `R_shape` for every one of the 100 definitions of the generated
    `Irc/Reply.lean`.
  * this file — 3. `reply_is_wellformed` (all 100 replies packaged as the inductive `NumReply`,
    guarded against `Reply.allNames`), and 4. the `decide`d examples.

  Independence of the wording: no statement and no proof below (or in the two files above)
  mentions a trailing text.  What IS used of the literals of reply.rs: the first literal of a
  reply is `NNN ++ " "` with `NNN` the three digits of the variant's name, and the literal
  following the client token starts with a space.  The examples of section 4 evaluate concrete
  replies whose parameters consist of ARGUMENTS only (no fixed text), so they survive a
  re-wording as well; where a reply with a fixed text is evaluated, only source, command and the
  first parameter(s) are compared.
-/
import Lean.Elab.Command
import Irc.Props.C13RepliesShapes
namespace Irc.C13
open Irc Irc.Reply

/-! ### the 100 replies as one type -/

/-- one constructor per definition of `Irc/Reply.lean`: same name, same arguments -/
inductive NumReply where
  | RplWelcome001 (client networkname nick user host : Str)
  | RplYourHost002 (client servername version : Str)
  | RplCreated003 (client datetime : Str)
  | RplMyInfo004 (client servername version avail_user_modes avail_chmodes : Str) (avail_chmodes_with_params : Option Str)
  | RplISupport005 (client tokens : Str)
  | RplStatsCommands212 (client command : Str) (count : Nat)
  | RplEndOfStats219 (client : Str) (stat : Char)
  | RplUModeIs221 (client user_modes : Str)
  | RplStatsUptime242 (client : Str) (seconds : Nat)
  | RplLUserClient251 (client : Str) (users_num inv_users_num servers_num : Nat)
  | RplLUserOp252 (client : Str) (ops_num : Nat)
  | RplLUserUnknown253 (client : Str) (conns_num : Nat)
  | RplLUserChannels254 (client : Str) (channels_num : Nat)
  | RplLUserMe255 (client : Str) (clients_num servers_num : Nat)
  | RplAdminMe256 (client server : Str)
  | RplAdminLoc1257 (client info : Str)
  | RplAdminLoc2258 (client info : Str)
  | RplAdminEmail259 (client email : Str)
  | RplLocalUsers265 (client : Str) (clients_num max_clients_num : Nat)
  | RplGlobalUsers266 (client : Str) (clients_num max_clients_num : Nat)
  | RplAway301 (client nick message : Str)
  | RplUserHost302 (client : Str) (replies : List Str)
  | RplIson303 (client : Str) (nicknames : List Str)
  | RplUnAway305 (client : Str)
  | RplNowAway306 (client : Str)
  | RplWhoReply352 (client channel username host server nick flags : Str) (hopcount : Nat) (realname : Str)
  | RplEndOfWho315 (client mask : Str)
  | RplWhoIsRegNick307 (client nick : Str)
  | RplWhoIsUser311 (client nick username host realname : Str)
  | RplWhoIsServer312 (client nick server server_info : Str)
  | RplWhoIsOperator313 (client nick : Str)
  | RplWhoWasUser314 (client nick username host realname : Str)
  | RplwhoIsIdle317 (client nick : Str) (secs signon : Nat)
  | RplEndOfWhoIs318 (client nick : Str)
  | RplWhoIsChannels319 (client nick : Str) (channels : List (Option Str × Str))
  | RplListStart321 (client : Str)
  | RplList322 (client channel : Str) (client_count : Nat) (topic : Str)
  | RplListEnd323 (client : Str)
  | RplChannelModeIs324 (client channel modestring : Str)
  | RplCreationTime329 (client channel : Str) (creation_time : Nat)
  | RplNoTopic331 (client channel : Str)
  | RplTopic332 (client channel topic : Str)
  | RplTopicWhoTime333 (client channel nick : Str) (setat : Nat)
  | RplInviting341 (client nick channel : Str)
  | RplInviteList346 (client channel mask : Str)
  | RplEndOfInviteList347 (client channel : Str)
  | RplExceptList348 (client channel mask : Str)
  | RplEndOfExceptList349 (client channel : Str)
  | RplVersion351 (client version server comments : Str)
  | RplNameReply353 (client symbol channel : Str) (replies : List (Str × Str))
  | RplEndOfNames366 (client channel : Str)
  | RplLinks364 (client mask server : Str) (hop_count : Nat) (server_info : Str)
  | RplEndOfLinks365 (client mask : Str)
  | RplBanList367 (client channel mask who : Str) (set_ts : Nat)
  | RplEndOfBanList368 (client channel : Str)
  | RplEndOfWhoWas369 (client nick : Str)
  | RplInfo371 (client info : Str)
  | RplEndOfInfo374 (client : Str)
  | RplMotdStart375 (client server : Str)
  | RplMotd372 (client motd : Str)
  | RplEndOfMotd376 (client : Str)
  | RplWhoIsHost378 (client nick host_info : Str)
  | RplWhoIsModes379 (client nick modes : Str)
  | RplYoureOper381 (client : Str)
  | RplTime391 (client server : Str) (timestamp : Nat) (ts_offset human_readable : Str)
  | ErrUnknownError400 (client command : Str) (subcommand : Option Str) (info : Str)
  | ErrNoSuchNick401 (client nick : Str)
  | ErrNoSuchChannel403 (client channel : Str)
  | ErrCannotSendToChain404 (client channel : Str)
  | ErrTooManyChannels405 (client channel : Str)
  | ErrWasNoSuchNick406 (client nick : Str)
  | ErrInputTooLong417 (client : Str)
  | ErrUnknownCommand421 (client command : Str)
  | ErrNicknameInUse433 (client nick : Str)
  | ErrUserNotInChannel441 (client nick channel : Str)
  | ErrNotOnChannel442 (client channel : Str)
  | ErrUserOnChannel443 (client nick channel : Str)
  | ErrNotRegistered451 (client : Str)
  | ErrNeedMoreParams461 (client command : Str)
  | ErrAlreadyRegistered462 (client : Str)
  | ErrPasswdMismatch464 (client : Str)
  | ErrChannelIsFull471 (client channel : Str)
  | ErrUnknownMode472 (client : Str) (modechar : Char) (channel : Str)
  | ErrInviteOnlyChan473 (client channel : Str)
  | ErrBannedFromChan474 (client channel : Str)
  | ErrBadChannelKey475 (client channel : Str)
  | ErrNoPrivileges481 (client : Str)
  | ErrChanOpPrivsNeeded482 (client channel : Str)
  | ErrCantKillServer483 (client : Str)
  | ErrYourConnRestricted484 (client : Str)
  | ErrNoOperHost491 (client : Str)
  | ErrUmodeUnknownFlag501 (client : Str)
  | ErrUsersDontMatch502 (client : Str)
  | ErrHelpNotFound524 (client subject : Str)
  | RplWhoIsSecure671 (client nick : Str)
  | ErrInvalidModeParam696 (client target : Str) (modechar : Char) (param description : Str)
  | RplHelpStart704 (client subject line : Str)
  | RplHelpTxt705 (client subject line : Str)
  | RplEndOfHelp706 (client subject line : Str)
  | ErrCannotDoCommand972 (client : Str)

namespace NumReply

/-- the text the reply definition produces -/
def render : NumReply → Str
  | .RplWelcome001 client networkname nick user host => Reply.RplWelcome001 client networkname nick user host
  | .RplYourHost002 client servername version => Reply.RplYourHost002 client servername version
  | .RplCreated003 client datetime => Reply.RplCreated003 client datetime
  | .RplMyInfo004 client servername version avail_user_modes avail_chmodes avail_chmodes_with_params => Reply.RplMyInfo004 client servername version avail_user_modes avail_chmodes avail_chmodes_with_params
  | .RplISupport005 client tokens => Reply.RplISupport005 client tokens
  | .RplStatsCommands212 client command count => Reply.RplStatsCommands212 client command count
  | .RplEndOfStats219 client stat => Reply.RplEndOfStats219 client stat
  | .RplUModeIs221 client user_modes => Reply.RplUModeIs221 client user_modes
  | .RplStatsUptime242 client seconds => Reply.RplStatsUptime242 client seconds
  | .RplLUserClient251 client users_num inv_users_num servers_num => Reply.RplLUserClient251 client users_num inv_users_num servers_num
  | .RplLUserOp252 client ops_num => Reply.RplLUserOp252 client ops_num
  | .RplLUserUnknown253 client conns_num => Reply.RplLUserUnknown253 client conns_num
  | .RplLUserChannels254 client channels_num => Reply.RplLUserChannels254 client channels_num
  | .RplLUserMe255 client clients_num servers_num => Reply.RplLUserMe255 client clients_num servers_num
  | .RplAdminMe256 client server => Reply.RplAdminMe256 client server
  | .RplAdminLoc1257 client info => Reply.RplAdminLoc1257 client info
  | .RplAdminLoc2258 client info => Reply.RplAdminLoc2258 client info
  | .RplAdminEmail259 client email => Reply.RplAdminEmail259 client email
  | .RplLocalUsers265 client clients_num max_clients_num => Reply.RplLocalUsers265 client clients_num max_clients_num
  | .RplGlobalUsers266 client clients_num max_clients_num => Reply.RplGlobalUsers266 client clients_num max_clients_num
  | .RplAway301 client nick message => Reply.RplAway301 client nick message
  | .RplUserHost302 client replies => Reply.RplUserHost302 client replies
  | .RplIson303 client nicknames => Reply.RplIson303 client nicknames
  | .RplUnAway305 client => Reply.RplUnAway305 client
  | .RplNowAway306 client => Reply.RplNowAway306 client
  | .RplWhoReply352 client channel username host server nick flags hopcount realname => Reply.RplWhoReply352 client channel username host server nick flags hopcount realname
  | .RplEndOfWho315 client mask => Reply.RplEndOfWho315 client mask
  | .RplWhoIsRegNick307 client nick => Reply.RplWhoIsRegNick307 client nick
  | .RplWhoIsUser311 client nick username host realname => Reply.RplWhoIsUser311 client nick username host realname
  | .RplWhoIsServer312 client nick server server_info => Reply.RplWhoIsServer312 client nick server server_info
  | .RplWhoIsOperator313 client nick => Reply.RplWhoIsOperator313 client nick
  | .RplWhoWasUser314 client nick username host realname => Reply.RplWhoWasUser314 client nick username host realname
  | .RplwhoIsIdle317 client nick secs signon => Reply.RplwhoIsIdle317 client nick secs signon
  | .RplEndOfWhoIs318 client nick => Reply.RplEndOfWhoIs318 client nick
  | .RplWhoIsChannels319 client nick channels => Reply.RplWhoIsChannels319 client nick channels
  | .RplListStart321 client => Reply.RplListStart321 client
  | .RplList322 client channel client_count topic => Reply.RplList322 client channel client_count topic
  | .RplListEnd323 client => Reply.RplListEnd323 client
  | .RplChannelModeIs324 client channel modestring => Reply.RplChannelModeIs324 client channel modestring
  | .RplCreationTime329 client channel creation_time => Reply.RplCreationTime329 client channel creation_time
  | .RplNoTopic331 client channel => Reply.RplNoTopic331 client channel
  | .RplTopic332 client channel topic => Reply.RplTopic332 client channel topic
  | .RplTopicWhoTime333 client channel nick setat => Reply.RplTopicWhoTime333 client channel nick setat
  | .RplInviting341 client nick channel => Reply.RplInviting341 client nick channel
  | .RplInviteList346 client channel mask => Reply.RplInviteList346 client channel mask
  | .RplEndOfInviteList347 client channel => Reply.RplEndOfInviteList347 client channel
  | .RplExceptList348 client channel mask => Reply.RplExceptList348 client channel mask
  | .RplEndOfExceptList349 client channel => Reply.RplEndOfExceptList349 client channel
  | .RplVersion351 client version server comments => Reply.RplVersion351 client version server comments
  | .RplNameReply353 client symbol channel replies => Reply.RplNameReply353 client symbol channel replies
  | .RplEndOfNames366 client channel => Reply.RplEndOfNames366 client channel
  | .RplLinks364 client mask server hop_count server_info => Reply.RplLinks364 client mask server hop_count server_info
  | .RplEndOfLinks365 client mask => Reply.RplEndOfLinks365 client mask
  | .RplBanList367 client channel mask who set_ts => Reply.RplBanList367 client channel mask who set_ts
  | .RplEndOfBanList368 client channel => Reply.RplEndOfBanList368 client channel
  | .RplEndOfWhoWas369 client nick => Reply.RplEndOfWhoWas369 client nick
  | .RplInfo371 client info => Reply.RplInfo371 client info
  | .RplEndOfInfo374 client => Reply.RplEndOfInfo374 client
  | .RplMotdStart375 client server => Reply.RplMotdStart375 client server
  | .RplMotd372 client motd => Reply.RplMotd372 client motd
  | .RplEndOfMotd376 client => Reply.RplEndOfMotd376 client
  | .RplWhoIsHost378 client nick host_info => Reply.RplWhoIsHost378 client nick host_info
  | .RplWhoIsModes379 client nick modes => Reply.RplWhoIsModes379 client nick modes
  | .RplYoureOper381 client => Reply.RplYoureOper381 client
  | .RplTime391 client server timestamp ts_offset human_readable => Reply.RplTime391 client server timestamp ts_offset human_readable
  | .ErrUnknownError400 client command subcommand info => Reply.ErrUnknownError400 client command subcommand info
  | .ErrNoSuchNick401 client nick => Reply.ErrNoSuchNick401 client nick
  | .ErrNoSuchChannel403 client channel => Reply.ErrNoSuchChannel403 client channel
  | .ErrCannotSendToChain404 client channel => Reply.ErrCannotSendToChain404 client channel
  | .ErrTooManyChannels405 client channel => Reply.ErrTooManyChannels405 client channel
  | .ErrWasNoSuchNick406 client nick => Reply.ErrWasNoSuchNick406 client nick
  | .ErrInputTooLong417 client => Reply.ErrInputTooLong417 client
  | .ErrUnknownCommand421 client command => Reply.ErrUnknownCommand421 client command
  | .ErrNicknameInUse433 client nick => Reply.ErrNicknameInUse433 client nick
  | .ErrUserNotInChannel441 client nick channel => Reply.ErrUserNotInChannel441 client nick channel
  | .ErrNotOnChannel442 client channel => Reply.ErrNotOnChannel442 client channel
  | .ErrUserOnChannel443 client nick channel => Reply.ErrUserOnChannel443 client nick channel
  | .ErrNotRegistered451 client => Reply.ErrNotRegistered451 client
  | .ErrNeedMoreParams461 client command => Reply.ErrNeedMoreParams461 client command
  | .ErrAlreadyRegistered462 client => Reply.ErrAlreadyRegistered462 client
  | .ErrPasswdMismatch464 client => Reply.ErrPasswdMismatch464 client
  | .ErrChannelIsFull471 client channel => Reply.ErrChannelIsFull471 client channel
  | .ErrUnknownMode472 client modechar channel => Reply.ErrUnknownMode472 client modechar channel
  | .ErrInviteOnlyChan473 client channel => Reply.ErrInviteOnlyChan473 client channel
  | .ErrBannedFromChan474 client channel => Reply.ErrBannedFromChan474 client channel
  | .ErrBadChannelKey475 client channel => Reply.ErrBadChannelKey475 client channel
  | .ErrNoPrivileges481 client => Reply.ErrNoPrivileges481 client
  | .ErrChanOpPrivsNeeded482 client channel => Reply.ErrChanOpPrivsNeeded482 client channel
  | .ErrCantKillServer483 client => Reply.ErrCantKillServer483 client
  | .ErrYourConnRestricted484 client => Reply.ErrYourConnRestricted484 client
  | .ErrNoOperHost491 client => Reply.ErrNoOperHost491 client
  | .ErrUmodeUnknownFlag501 client => Reply.ErrUmodeUnknownFlag501 client
  | .ErrUsersDontMatch502 client => Reply.ErrUsersDontMatch502 client
  | .ErrHelpNotFound524 client subject => Reply.ErrHelpNotFound524 client subject
  | .RplWhoIsSecure671 client nick => Reply.RplWhoIsSecure671 client nick
  | .ErrInvalidModeParam696 client target modechar param description => Reply.ErrInvalidModeParam696 client target modechar param description
  | .RplHelpStart704 client subject line => Reply.RplHelpStart704 client subject line
  | .RplHelpTxt705 client subject line => Reply.RplHelpTxt705 client subject line
  | .RplEndOfHelp706 client subject line => Reply.RplEndOfHelp706 client subject line
  | .ErrCannotDoCommand972 client => Reply.ErrCannotDoCommand972 client

/-- the reply's `client` argument -/
def client : NumReply → Str
  | .RplWelcome001 client _ _ _ _ => client
  | .RplYourHost002 client _ _ => client
  | .RplCreated003 client _ => client
  | .RplMyInfo004 client _ _ _ _ _ => client
  | .RplISupport005 client _ => client
  | .RplStatsCommands212 client _ _ => client
  | .RplEndOfStats219 client _ => client
  | .RplUModeIs221 client _ => client
  | .RplStatsUptime242 client _ => client
  | .RplLUserClient251 client _ _ _ => client
  | .RplLUserOp252 client _ => client
  | .RplLUserUnknown253 client _ => client
  | .RplLUserChannels254 client _ => client
  | .RplLUserMe255 client _ _ => client
  | .RplAdminMe256 client _ => client
  | .RplAdminLoc1257 client _ => client
  | .RplAdminLoc2258 client _ => client
  | .RplAdminEmail259 client _ => client
  | .RplLocalUsers265 client _ _ => client
  | .RplGlobalUsers266 client _ _ => client
  | .RplAway301 client _ _ => client
  | .RplUserHost302 client _ => client
  | .RplIson303 client _ => client
  | .RplUnAway305 client => client
  | .RplNowAway306 client => client
  | .RplWhoReply352 client _ _ _ _ _ _ _ _ => client
  | .RplEndOfWho315 client _ => client
  | .RplWhoIsRegNick307 client _ => client
  | .RplWhoIsUser311 client _ _ _ _ => client
  | .RplWhoIsServer312 client _ _ _ => client
  | .RplWhoIsOperator313 client _ => client
  | .RplWhoWasUser314 client _ _ _ _ => client
  | .RplwhoIsIdle317 client _ _ _ => client
  | .RplEndOfWhoIs318 client _ => client
  | .RplWhoIsChannels319 client _ _ => client
  | .RplListStart321 client => client
  | .RplList322 client _ _ _ => client
  | .RplListEnd323 client => client
  | .RplChannelModeIs324 client _ _ => client
  | .RplCreationTime329 client _ _ => client
  | .RplNoTopic331 client _ => client
  | .RplTopic332 client _ _ => client
  | .RplTopicWhoTime333 client _ _ _ => client
  | .RplInviting341 client _ _ => client
  | .RplInviteList346 client _ _ => client
  | .RplEndOfInviteList347 client _ => client
  | .RplExceptList348 client _ _ => client
  | .RplEndOfExceptList349 client _ => client
  | .RplVersion351 client _ _ _ => client
  | .RplNameReply353 client _ _ _ => client
  | .RplEndOfNames366 client _ => client
  | .RplLinks364 client _ _ _ _ => client
  | .RplEndOfLinks365 client _ => client
  | .RplBanList367 client _ _ _ _ => client
  | .RplEndOfBanList368 client _ => client
  | .RplEndOfWhoWas369 client _ => client
  | .RplInfo371 client _ => client
  | .RplEndOfInfo374 client => client
  | .RplMotdStart375 client _ => client
  | .RplMotd372 client _ => client
  | .RplEndOfMotd376 client => client
  | .RplWhoIsHost378 client _ _ => client
  | .RplWhoIsModes379 client _ _ => client
  | .RplYoureOper381 client => client
  | .RplTime391 client _ _ _ _ => client
  | .ErrUnknownError400 client _ _ _ => client
  | .ErrNoSuchNick401 client _ => client
  | .ErrNoSuchChannel403 client _ => client
  | .ErrCannotSendToChain404 client _ => client
  | .ErrTooManyChannels405 client _ => client
  | .ErrWasNoSuchNick406 client _ => client
  | .ErrInputTooLong417 client => client
  | .ErrUnknownCommand421 client _ => client
  | .ErrNicknameInUse433 client _ => client
  | .ErrUserNotInChannel441 client _ _ => client
  | .ErrNotOnChannel442 client _ => client
  | .ErrUserOnChannel443 client _ _ => client
  | .ErrNotRegistered451 client => client
  | .ErrNeedMoreParams461 client _ => client
  | .ErrAlreadyRegistered462 client => client
  | .ErrPasswdMismatch464 client => client
  | .ErrChannelIsFull471 client _ => client
  | .ErrUnknownMode472 client _ _ => client
  | .ErrInviteOnlyChan473 client _ => client
  | .ErrBannedFromChan474 client _ => client
  | .ErrBadChannelKey475 client _ => client
  | .ErrNoPrivileges481 client => client
  | .ErrChanOpPrivsNeeded482 client _ => client
  | .ErrCantKillServer483 client => client
  | .ErrYourConnRestricted484 client => client
  | .ErrNoOperHost491 client => client
  | .ErrUmodeUnknownFlag501 client => client
  | .ErrUsersDontMatch502 client => client
  | .ErrHelpNotFound524 client _ => client
  | .RplWhoIsSecure671 client _ => client
  | .ErrInvalidModeParam696 client _ _ _ _ => client
  | .RplHelpStart704 client _ _ => client
  | .RplHelpTxt705 client _ _ => client
  | .RplEndOfHelp706 client _ _ => client
  | .ErrCannotDoCommand972 client => client

/-- the numeric: the three digits that end the variant's name -/
def numeric : NumReply → Str
  | .RplWelcome001 .. => str "001"
  | .RplYourHost002 .. => str "002"
  | .RplCreated003 .. => str "003"
  | .RplMyInfo004 .. => str "004"
  | .RplISupport005 .. => str "005"
  | .RplStatsCommands212 .. => str "212"
  | .RplEndOfStats219 .. => str "219"
  | .RplUModeIs221 .. => str "221"
  | .RplStatsUptime242 .. => str "242"
  | .RplLUserClient251 .. => str "251"
  | .RplLUserOp252 .. => str "252"
  | .RplLUserUnknown253 .. => str "253"
  | .RplLUserChannels254 .. => str "254"
  | .RplLUserMe255 .. => str "255"
  | .RplAdminMe256 .. => str "256"
  | .RplAdminLoc1257 .. => str "257"
  | .RplAdminLoc2258 .. => str "258"
  | .RplAdminEmail259 .. => str "259"
  | .RplLocalUsers265 .. => str "265"
  | .RplGlobalUsers266 .. => str "266"
  | .RplAway301 .. => str "301"
  | .RplUserHost302 .. => str "302"
  | .RplIson303 .. => str "303"
  | .RplUnAway305 .. => str "305"
  | .RplNowAway306 .. => str "306"
  | .RplWhoReply352 .. => str "352"
  | .RplEndOfWho315 .. => str "315"
  | .RplWhoIsRegNick307 .. => str "307"
  | .RplWhoIsUser311 .. => str "311"
  | .RplWhoIsServer312 .. => str "312"
  | .RplWhoIsOperator313 .. => str "313"
  | .RplWhoWasUser314 .. => str "314"
  | .RplwhoIsIdle317 .. => str "317"
  | .RplEndOfWhoIs318 .. => str "318"
  | .RplWhoIsChannels319 .. => str "319"
  | .RplListStart321 .. => str "321"
  | .RplList322 .. => str "322"
  | .RplListEnd323 .. => str "323"
  | .RplChannelModeIs324 .. => str "324"
  | .RplCreationTime329 .. => str "329"
  | .RplNoTopic331 .. => str "331"
  | .RplTopic332 .. => str "332"
  | .RplTopicWhoTime333 .. => str "333"
  | .RplInviting341 .. => str "341"
  | .RplInviteList346 .. => str "346"
  | .RplEndOfInviteList347 .. => str "347"
  | .RplExceptList348 .. => str "348"
  | .RplEndOfExceptList349 .. => str "349"
  | .RplVersion351 .. => str "351"
  | .RplNameReply353 .. => str "353"
  | .RplEndOfNames366 .. => str "366"
  | .RplLinks364 .. => str "364"
  | .RplEndOfLinks365 .. => str "365"
  | .RplBanList367 .. => str "367"
  | .RplEndOfBanList368 .. => str "368"
  | .RplEndOfWhoWas369 .. => str "369"
  | .RplInfo371 .. => str "371"
  | .RplEndOfInfo374 .. => str "374"
  | .RplMotdStart375 .. => str "375"
  | .RplMotd372 .. => str "372"
  | .RplEndOfMotd376 .. => str "376"
  | .RplWhoIsHost378 .. => str "378"
  | .RplWhoIsModes379 .. => str "379"
  | .RplYoureOper381 .. => str "381"
  | .RplTime391 .. => str "391"
  | .ErrUnknownError400 .. => str "400"
  | .ErrNoSuchNick401 .. => str "401"
  | .ErrNoSuchChannel403 .. => str "403"
  | .ErrCannotSendToChain404 .. => str "404"
  | .ErrTooManyChannels405 .. => str "405"
  | .ErrWasNoSuchNick406 .. => str "406"
  | .ErrInputTooLong417 .. => str "417"
  | .ErrUnknownCommand421 .. => str "421"
  | .ErrNicknameInUse433 .. => str "433"
  | .ErrUserNotInChannel441 .. => str "441"
  | .ErrNotOnChannel442 .. => str "442"
  | .ErrUserOnChannel443 .. => str "443"
  | .ErrNotRegistered451 .. => str "451"
  | .ErrNeedMoreParams461 .. => str "461"
  | .ErrAlreadyRegistered462 .. => str "462"
  | .ErrPasswdMismatch464 .. => str "464"
  | .ErrChannelIsFull471 .. => str "471"
  | .ErrUnknownMode472 .. => str "472"
  | .ErrInviteOnlyChan473 .. => str "473"
  | .ErrBannedFromChan474 .. => str "474"
  | .ErrBadChannelKey475 .. => str "475"
  | .ErrNoPrivileges481 .. => str "481"
  | .ErrChanOpPrivsNeeded482 .. => str "482"
  | .ErrCantKillServer483 .. => str "483"
  | .ErrYourConnRestricted484 .. => str "484"
  | .ErrNoOperHost491 .. => str "491"
  | .ErrUmodeUnknownFlag501 .. => str "501"
  | .ErrUsersDontMatch502 .. => str "502"
  | .ErrHelpNotFound524 .. => str "524"
  | .RplWhoIsSecure671 .. => str "671"
  | .ErrInvalidModeParam696 .. => str "696"
  | .RplHelpStart704 .. => str "704"
  | .RplHelpTxt705 .. => str "705"
  | .RplEndOfHelp706 .. => str "706"
  | .ErrCannotDoCommand972 .. => str "972"

end NumReply

/- guard: the constructors of `NumReply` are exactly `Reply.allNames`, in that order; if
   reply.rs gains, loses or renames a variant, the build of this file fails here -/
open Lean Elab Command in
run_cmd do
  let env ← getEnv
  match env.find? ``NumReply with
  | some (.inductInfo i) =>
    let ctors := i.ctors.map (fun n => n.getString!)
    unless ctors == Irc.Reply.allNames do
      throwError "NumReply does not match Reply.allNames: {ctors}"
    unless ctors.length == 100 do
      throwError "expected 100 replies, found {ctors.length}"
  | _ => throwError "NumReply not found"

theorem allNames_length : Reply.allNames.length = 100 := by decide

/-! ### 2'. every reply has the shape `NNN client[ ...]` -/

theorem reply_shape_all (r : NumReply) : NumericShape r.numeric r.client r.render := by
  cases r with
  | RplWelcome001 client networkname nick user host => exact RplWelcome001_shape client networkname nick user host
  | RplYourHost002 client servername version => exact RplYourHost002_shape client servername version
  | RplCreated003 client datetime => exact RplCreated003_shape client datetime
  | RplMyInfo004 client servername version avail_user_modes avail_chmodes avail_chmodes_with_params => exact RplMyInfo004_shape client servername version avail_user_modes avail_chmodes avail_chmodes_with_params
  | RplISupport005 client tokens => exact RplISupport005_shape client tokens
  | RplStatsCommands212 client command count => exact RplStatsCommands212_shape client command count
  | RplEndOfStats219 client stat => exact RplEndOfStats219_shape client stat
  | RplUModeIs221 client user_modes => exact RplUModeIs221_shape client user_modes
  | RplStatsUptime242 client seconds => exact RplStatsUptime242_shape client seconds
  | RplLUserClient251 client users_num inv_users_num servers_num => exact RplLUserClient251_shape client users_num inv_users_num servers_num
  | RplLUserOp252 client ops_num => exact RplLUserOp252_shape client ops_num
  | RplLUserUnknown253 client conns_num => exact RplLUserUnknown253_shape client conns_num
  | RplLUserChannels254 client channels_num => exact RplLUserChannels254_shape client channels_num
  | RplLUserMe255 client clients_num servers_num => exact RplLUserMe255_shape client clients_num servers_num
  | RplAdminMe256 client server => exact RplAdminMe256_shape client server
  | RplAdminLoc1257 client info => exact RplAdminLoc1257_shape client info
  | RplAdminLoc2258 client info => exact RplAdminLoc2258_shape client info
  | RplAdminEmail259 client email => exact RplAdminEmail259_shape client email
  | RplLocalUsers265 client clients_num max_clients_num => exact RplLocalUsers265_shape client clients_num max_clients_num
  | RplGlobalUsers266 client clients_num max_clients_num => exact RplGlobalUsers266_shape client clients_num max_clients_num
  | RplAway301 client nick message => exact RplAway301_shape client nick message
  | RplUserHost302 client replies => exact RplUserHost302_shape client replies
  | RplIson303 client nicknames => exact RplIson303_shape client nicknames
  | RplUnAway305 client => exact RplUnAway305_shape client
  | RplNowAway306 client => exact RplNowAway306_shape client
  | RplWhoReply352 client channel username host server nick flags hopcount realname => exact RplWhoReply352_shape client channel username host server nick flags hopcount realname
  | RplEndOfWho315 client mask => exact RplEndOfWho315_shape client mask
  | RplWhoIsRegNick307 client nick => exact RplWhoIsRegNick307_shape client nick
  | RplWhoIsUser311 client nick username host realname => exact RplWhoIsUser311_shape client nick username host realname
  | RplWhoIsServer312 client nick server server_info => exact RplWhoIsServer312_shape client nick server server_info
  | RplWhoIsOperator313 client nick => exact RplWhoIsOperator313_shape client nick
  | RplWhoWasUser314 client nick username host realname => exact RplWhoWasUser314_shape client nick username host realname
  | RplwhoIsIdle317 client nick secs signon => exact RplwhoIsIdle317_shape client nick secs signon
  | RplEndOfWhoIs318 client nick => exact RplEndOfWhoIs318_shape client nick
  | RplWhoIsChannels319 client nick channels => exact RplWhoIsChannels319_shape client nick channels
  | RplListStart321 client => exact RplListStart321_shape client
  | RplList322 client channel client_count topic => exact RplList322_shape client channel client_count topic
  | RplListEnd323 client => exact RplListEnd323_shape client
  | RplChannelModeIs324 client channel modestring => exact RplChannelModeIs324_shape client channel modestring
  | RplCreationTime329 client channel creation_time => exact RplCreationTime329_shape client channel creation_time
  | RplNoTopic331 client channel => exact RplNoTopic331_shape client channel
  | RplTopic332 client channel topic => exact RplTopic332_shape client channel topic
  | RplTopicWhoTime333 client channel nick setat => exact RplTopicWhoTime333_shape client channel nick setat
  | RplInviting341 client nick channel => exact RplInviting341_shape client nick channel
  | RplInviteList346 client channel mask => exact RplInviteList346_shape client channel mask
  | RplEndOfInviteList347 client channel => exact RplEndOfInviteList347_shape client channel
  | RplExceptList348 client channel mask => exact RplExceptList348_shape client channel mask
  | RplEndOfExceptList349 client channel => exact RplEndOfExceptList349_shape client channel
  | RplVersion351 client version server comments => exact RplVersion351_shape client version server comments
  | RplNameReply353 client symbol channel replies => exact RplNameReply353_shape client symbol channel replies
  | RplEndOfNames366 client channel => exact RplEndOfNames366_shape client channel
  | RplLinks364 client mask server hop_count server_info => exact RplLinks364_shape client mask server hop_count server_info
  | RplEndOfLinks365 client mask => exact RplEndOfLinks365_shape client mask
  | RplBanList367 client channel mask who set_ts => exact RplBanList367_shape client channel mask who set_ts
  | RplEndOfBanList368 client channel => exact RplEndOfBanList368_shape client channel
  | RplEndOfWhoWas369 client nick => exact RplEndOfWhoWas369_shape client nick
  | RplInfo371 client info => exact RplInfo371_shape client info
  | RplEndOfInfo374 client => exact RplEndOfInfo374_shape client
  | RplMotdStart375 client server => exact RplMotdStart375_shape client server
  | RplMotd372 client motd => exact RplMotd372_shape client motd
  | RplEndOfMotd376 client => exact RplEndOfMotd376_shape client
  | RplWhoIsHost378 client nick host_info => exact RplWhoIsHost378_shape client nick host_info
  | RplWhoIsModes379 client nick modes => exact RplWhoIsModes379_shape client nick modes
  | RplYoureOper381 client => exact RplYoureOper381_shape client
  | RplTime391 client server timestamp ts_offset human_readable => exact RplTime391_shape client server timestamp ts_offset human_readable
  | ErrUnknownError400 client command subcommand info => exact ErrUnknownError400_shape client command subcommand info
  | ErrNoSuchNick401 client nick => exact ErrNoSuchNick401_shape client nick
  | ErrNoSuchChannel403 client channel => exact ErrNoSuchChannel403_shape client channel
  | ErrCannotSendToChain404 client channel => exact ErrCannotSendToChain404_shape client channel
  | ErrTooManyChannels405 client channel => exact ErrTooManyChannels405_shape client channel
  | ErrWasNoSuchNick406 client nick => exact ErrWasNoSuchNick406_shape client nick
  | ErrInputTooLong417 client => exact ErrInputTooLong417_shape client
  | ErrUnknownCommand421 client command => exact ErrUnknownCommand421_shape client command
  | ErrNicknameInUse433 client nick => exact ErrNicknameInUse433_shape client nick
  | ErrUserNotInChannel441 client nick channel => exact ErrUserNotInChannel441_shape client nick channel
  | ErrNotOnChannel442 client channel => exact ErrNotOnChannel442_shape client channel
  | ErrUserOnChannel443 client nick channel => exact ErrUserOnChannel443_shape client nick channel
  | ErrNotRegistered451 client => exact ErrNotRegistered451_shape client
  | ErrNeedMoreParams461 client command => exact ErrNeedMoreParams461_shape client command
  | ErrAlreadyRegistered462 client => exact ErrAlreadyRegistered462_shape client
  | ErrPasswdMismatch464 client => exact ErrPasswdMismatch464_shape client
  | ErrChannelIsFull471 client channel => exact ErrChannelIsFull471_shape client channel
  | ErrUnknownMode472 client modechar channel => exact ErrUnknownMode472_shape client modechar channel
  | ErrInviteOnlyChan473 client channel => exact ErrInviteOnlyChan473_shape client channel
  | ErrBannedFromChan474 client channel => exact ErrBannedFromChan474_shape client channel
  | ErrBadChannelKey475 client channel => exact ErrBadChannelKey475_shape client channel
  | ErrNoPrivileges481 client => exact ErrNoPrivileges481_shape client
  | ErrChanOpPrivsNeeded482 client channel => exact ErrChanOpPrivsNeeded482_shape client channel
  | ErrCantKillServer483 client => exact ErrCantKillServer483_shape client
  | ErrYourConnRestricted484 client => exact ErrYourConnRestricted484_shape client
  | ErrNoOperHost491 client => exact ErrNoOperHost491_shape client
  | ErrUmodeUnknownFlag501 client => exact ErrUmodeUnknownFlag501_shape client
  | ErrUsersDontMatch502 client => exact ErrUsersDontMatch502_shape client
  | ErrHelpNotFound524 client subject => exact ErrHelpNotFound524_shape client subject
  | RplWhoIsSecure671 client nick => exact RplWhoIsSecure671_shape client nick
  | ErrInvalidModeParam696 client target modechar param description => exact ErrInvalidModeParam696_shape client target modechar param description
  | RplHelpStart704 client subject line => exact RplHelpStart704_shape client subject line
  | RplHelpTxt705 client subject line => exact RplHelpTxt705_shape client subject line
  | RplEndOfHelp706 client subject line => exact RplEndOfHelp706_shape client subject line
  | ErrCannotDoCommand972 client => exact ErrCannotDoCommand972_shape client

/-- the form of the task text -/
theorem reply_shape_exists (r : NumReply) :
    ∃ num rest, r.render = num ++ ' ' :: (r.client ++ rest) ∧ num.length = 3 ∧
      num.all Char.isDigit = true ∧ (rest = [] ∨ rest.head? = some ' ') :=
  (reply_shape_all r).exists

theorem numeric_three_digits (r : NumReply) :
    r.numeric.length = 3 ∧ r.numeric.all Char.isDigit = true := by
  have := (reply_shape_all r).1
  simpa [isNumeric] using this

/-! ### 3. the combination -/

/-- **Every numeric reply is a well-formed message.**  For every one of the 100 replies `r`, a
    configuration whose server name is a well-formed source (non-empty, no whitespace, accepted
    by `validate_source`) and a well-formed client token (non-empty, no ASCII blank, not starting
    with ':'), the line `":" server " " reply` that `Ctx.reply` / `srvLine` emit parses to
    source = the server name, command = the numeric of `r`, first parameter = the client; the
    remaining parameters are whatever the parser makes of the text after the client token. -/
theorem reply_is_wellformed (cfg : Cfg) (r : NumReply)
    (hs : wellFormedSource cfg.name = true) (hc : wellFormedMiddle r.client = true) :
    Message.parse (Conc.srvLine cfg r.render) =
      .ok ⟨some cfg.name, r.numeric,
            r.client :: restParams (r.render.drop (4 + r.client.length))⟩ :=
  parse_of_shape cfg.name r.numeric r.client r.render (reply_shape_all r) hs hc

/-- the same for what `Ctx.reply` appends to the acting connection's buffer -/
theorem ctx_reply_is_wellformed (x : Ctx) (cfg : Cfg) (r : NumReply)
    (hs : wellFormedSource cfg.name = true) (hc : wellFormedMiddle r.client = true) :
    ∃ line ps, (x.reply cfg r.render).direct = x.direct ++ [line] ∧
      Message.parse line = .ok ⟨some cfg.name, r.numeric, r.client :: ps⟩ :=
  ⟨_, _, rfl, reply_is_wellformed cfg r hs hc⟩

/-- the three `srvLine`s of the development are the same function -/
example (cfg : Cfg) (t : Str) : Conc.srvLine cfg t = relayLine cfg.name t := rfl

/-- the hypothesis on the server name cannot be dropped: a ':' in it makes every reply
    unparsable (`validate_source`) -/
example : Message.parse (Conc.srvLine { name := str "irc:irc" } (ErrNotRegistered451 (str "*"))) =
    .error .wrongSource := by decide

/-- the hypothesis on the client token cannot be dropped: an empty client (a connection without
    a nick is addressed as `*` by the server for exactly this reason) shifts the parameters -/
example : (Message.parse (Conc.srvLine {} (RplUModeIs221 [] (str "+i")))).toOption.map (·.params) =
    some [str "+i"] := by decide

/-! instances, to show how the packaged theorem reads for one definition -/

example (cfg : Cfg) (client nick : Str)
    (hs : wellFormedSource cfg.name = true) (hc : wellFormedMiddle client = true) :
    ∃ ps, Message.parse (Conc.srvLine cfg (ErrNicknameInUse433 client nick)) =
      .ok ⟨some cfg.name, str "433", client :: ps⟩ :=
  ⟨_, reply_is_wellformed cfg (.ErrNicknameInUse433 client nick) hs hc⟩

example (cfg : Cfg) (client : Str) (secs : Nat)
    (hs : wellFormedSource cfg.name = true) (hc : wellFormedMiddle client = true) :
    ∃ ps, Message.parse (Conc.srvLine cfg (RplStatsUptime242 client secs)) =
      .ok ⟨some cfg.name, str "242", client :: ps⟩ :=
  ⟨_, reply_is_wellformed cfg (.RplStatsUptime242 client secs) hs hc⟩

/-! ### 4. non-vacuity: concrete replies, evaluated by the kernel -/

example : wellFormedSource ({} : Cfg).name = true ∧ wellFormedMiddle (str "bob") = true ∧
    wellFormedMiddle (str "*") = true := by decide

/-- an EMPTY trailing: `301 bob al :` -/
example : Message.parse (Conc.srvLine {} (RplAway301 (str "bob") (str "al") [])) =
    .ok ⟨some (str "irc.irc"), str "301", [str "bob", str "al", []]⟩ := by decide

/-- a ':' (and " :") INSIDE the trailing -/
example : Message.parse (Conc.srvLine {} (RplTopic332 (str "bob") (str "#c") (str "a: b :c  d"))) =
    .ok ⟨some (str "irc.irc"), str "332", [str "bob", str "#c", str "a: b :c  d"]⟩ := by decide

/-- `RplNameReply353` with two names -/
example : Message.parse (Conc.srvLine {} (RplNameReply353 (str "bob") (str "=") (str "#c")
      [(str "@", str "al"), ([], str "bob")])) =
    .ok ⟨some (str "irc.irc"), str "353", [str "bob", str "=", str "#c", str "@al bob"]⟩ := by
  decide

/-- no trailing at all -/
example : Message.parse (Conc.srvLine {} (RplUModeIs221 (str "bob") (str "+iw"))) =
    .ok ⟨some (str "irc.irc"), str "221", [str "bob", str "+iw"]⟩ := by decide

/-- the two branches of `RplMyInfo004` -/
example : Message.parse (Conc.srvLine {} (RplMyInfo004 (str "bob") (str "irc.irc") (str "v1")
      (str "iow") (str "imnst") none)) =
    .ok ⟨some (str "irc.irc"), str "004",
      [str "bob", str "irc.irc", str "v1", str "iow", str "imnst"]⟩ := by decide
example : Message.parse (Conc.srvLine {} (RplMyInfo004 (str "bob") (str "irc.irc") (str "v1")
      (str "iow") (str "imnst") (some (str "klbeI")))) =
    .ok ⟨some (str "irc.irc"), str "004",
      [str "bob", str "irc.irc", str "v1", str "iow", str "imnst", str "klbeI"]⟩ := by decide

/-- the two branches of `ErrUnknownError400` -/
example : Message.parse (Conc.srvLine {} (ErrUnknownError400 (str "bob") (str "MODE") none
      (str "x :y"))) =
    .ok ⟨some (str "irc.irc"), str "400", [str "bob", str "MODE", str "x :y"]⟩ := by decide
example : Message.parse (Conc.srvLine {} (ErrUnknownError400 (str "bob") (str "MODE")
      (some (str "SUB")) [])) =
    .ok ⟨some (str "irc.irc"), str "400", [str "bob", str "MODE", str "SUB", []]⟩ := by decide

/-- an unregistered connection is addressed as `*` -/
example : Message.parse (Conc.srvLine {} (RplIson303 (str "*") [str "al", str "bob"])) =
    .ok ⟨some (str "irc.irc"), str "303", [str "*", str "al bob"]⟩ := by decide

/-- replies with a fixed text: only source, command and the leading parameters are compared -/
example : (Message.parse (Conc.srvLine {} (ErrNicknameInUse433 (str "*") (str "al")))).toOption.map
      (fun m => (m.source, m.command, m.params.take 2)) =
    some (some (str "irc.irc"), str "433", [str "*", str "al"]) := by decide
example : (Message.parse (Conc.srvLine {} (RplStatsUptime242 (str "bob") 200000))).toOption.map
      (fun m => (m.source, m.command, m.params.take 1)) =
    some (some (str "irc.irc"), str "242", [str "bob"]) := by decide

/-- the packaged theorem applied to a concrete reply: its hypotheses are decidable -/
example : Message.parse (Conc.srvLine {} (NumReply.RplEndOfNames366 (str "bob") (str "#c")).render) =
    .ok ⟨some (str "irc.irc"), str "366", str "bob" ::
      restParams ((RplEndOfNames366 (str "bob") (str "#c")).drop (4 + 3))⟩ :=
  reply_is_wellformed {} (.RplEndOfNames366 (str "bob") (str "#c")) (by decide) (by decide)

end Irc.C13
