/-
  Frame lemmas for C18, part 2: the handlers of `Irc/HChannel.lean`.
-/
import Irc.Props.C18FrameLemmas1

namespace Irc.C18F
open Irc Irc.Conc

/-! ### (A) -/
section
variable {cfg : Cfg} {cn : Conn} {d : Nat} {x : Ctx}

@[fr_push] theorem namesLines_sc (cn' : Conn) (chname : Str) (ch : Channel) (users : Map User) :
    namesLines cfg cn' chname ch users (x.sc cn) = (namesLines cfg cn' chname ch users x).sc cn := by
  unfold namesLines
  fr

@[fr_push] theorem sendNamesFromChannel_sc (hne : cn.id ≠ d) (chname : Str) (ch : Channel) (e : Bool) :
    sendNamesFromChannel cfg d chname ch e (x.sc cn) =
      (sendNamesFromChannel cfg d chname ch e x).sc cn := by
  unfold sendNamesFromChannel
  fr

@[fr_push] theorem processNames_sc (hne : cn.id ≠ d) (chs : List Str) :
    processNames cfg d chs (x.sc cn) = (processNames cfg d chs x).sc cn := by
  unfold processNames
  fr

@[fr_read] theorem joinDecide_scW (w : World) (cn' : Conn) (nick : Str) (inv : KSet) (chs : List Str)
    (keys : List (Option Str)) (cnt : Nat) :
    joinDecide cfg (w.scW cn) cn' nick inv chs keys cnt = joinDecide cfg w cn' nick inv chs keys cnt := by
  induction chs generalizing keys cnt with
  | nil => rfl
  | cons a l ih =>
    simp only [joinDecide, scW_channels, ih]
    rfl

@[fr_push] theorem joinApply_scW (nick : Str) (ds : List (Bool × Bool)) (chs : List Str) (w : World) :
    joinApply nick ds chs (w.scW cn) = (joinApply nick ds chs w).scW cn := by
  fun_induction joinApply nick ds chs w with
  | case1 join create ds chn chs w w1 ih =>
    rw [joinApply, ← ih]
    congr 1
    simp only [w1]
    fr
  | case2 ds chs w h =>
    rw [joinApply]
    · intro a b c d e; exact h a b c d e

@[fr_push] theorem joinAnnounce_sc (hne : cn.id ≠ d) (nick : Str) (ds : List (Bool × Bool))
    (chs : List Str) :
    joinAnnounce cfg d nick ds chs (x.sc cn) = (joinAnnounce cfg d nick ds chs x).sc cn := by
  fun_induction joinAnnounce cfg d nick ds chs x with
  | case1 join create ds chn chs x x1 ih =>
    rw [joinAnnounce, ← ih]
    congr 1
    simp only [x1]
    fr
  | case2 ds chs x h =>
    rw [joinAnnounce]
    · intro a b c d e; exact h a b c d e

@[fr_push] theorem removeUserFromChannel_scW (w : World) (ch n : Str) :
    (w.scW cn).removeUserFromChannel ch n = (w.removeUserFromChannel ch n).scW cn := by
  unfold World.removeUserFromChannel
  fr

@[fr_push] theorem processJoin_sc (hne : cn.id ≠ d) (chs : List Str) (keys : Option (List Str)) :
    processJoin cfg d chs keys (x.sc cn) = (processJoin cfg d chs keys x).sc cn := by
  unfold processJoin
  fr

@[fr_push] theorem processPart_sc (hne : cn.id ≠ d) (chs : List Str) (r : Option Str) :
    processPart cfg d chs r (x.sc cn) = (processPart cfg d chs r x).sc cn := by
  unfold processPart
  fr

@[fr_push] theorem processTopic_sc (hne : cn.id ≠ d) (ch : Str) (t : Option Str) (msg : Message) :
    processTopic cfg d ch t msg (x.sc cn) = (processTopic cfg d ch t msg x).sc cn := by
  unfold processTopic
  fr

@[fr_push] theorem listLine_sc (client chn : Str) (ch : Channel) :
    listLine cfg client chn ch (x.sc cn) = (listLine cfg client chn ch x).sc cn := rfl

@[fr_push] theorem processList_sc (hne : cn.id ≠ d) (chs : List Str) (srv : Option Str) :
    processList cfg d chs srv (x.sc cn) = (processList cfg d chs srv x).sc cn := by
  unfold processList
  fr

@[fr_push] theorem processInvite_sc (hne : cn.id ≠ d) (n ch : Str) (msg : Message) :
    processInvite cfg d n ch msg (x.sc cn) = (processInvite cfg d n ch msg x).sc cn := by
  unfold processInvite
  fr

@[fr_push] theorem processKick_sc (hne : cn.id ≠ d) (ch : Str) (us : List Str) (cm : Option Str) :
    processKick cfg d ch us cm (x.sc cn) = (processKick cfg d ch us cm x).sc cn := by
  unfold processKick
  fr

end

/-! ### (B) -/
section
variable {cfg : Cfg} {c d : Nat} {X Y : Ctx}

@[kp] theorem rufc_conns (w : World) (ch n : Str) : (w.removeUserFromChannel ch n).conns = w.conns := by
  unfold World.removeUserFromChannel
  kp_w

@[kp] theorem rufc_foldl_conns (ch : Str) (l : List Str) (w : World) :
    (l.foldl (fun w ku => w.removeUserFromChannel ch ku) w).conns = w.conns := by
  induction l generalizing w with
  | nil => rfl
  | cons a l ih => rw [List.foldl_cons, ih, rufc_conns]

@[kp] theorem joinApply_conns (nick : Str) (ds : List (Bool × Bool)) (chs : List Str) (w : World) :
    (joinApply nick ds chs w).conns = w.conns := by
  fun_induction joinApply nick ds chs w with
  | case1 join create ds chn chs w w1 ih =>
    rw [ih]
    simp only [w1]
    kp_w
  | case2 => rfl

theorem keep_namesLines {cn : Conn} {chname : Str} {ch : Channel} {users : Map User} :
    Keep c X (namesLines cfg cn chname ch users X) := by
  unfold namesLines
  dsimp only
  kp
theorem Keep.then_namesLines {cn : Conn} {chname : Str} {ch : Channel} {users : Map User}
    (h : Keep c X Y) : Keep c X (namesLines cfg cn chname ch users Y) := h.trans keep_namesLines
macro_rules | `(tactic| kp_lemma) => `(tactic| with_reducible apply Keep.then_namesLines)

theorem keep_sendNamesFromChannel {chname : Str} {ch : Channel} {e : Bool} :
    Keep c X (sendNamesFromChannel cfg d chname ch e X) := by
  unfold sendNamesFromChannel
  dsimp only
  kp
theorem Keep.then_sendNamesFromChannel {chname : Str} {ch : Channel} {e : Bool}
    (h : Keep c X Y) : Keep c X (sendNamesFromChannel cfg d chname ch e Y) :=
  h.trans keep_sendNamesFromChannel
macro_rules | `(tactic| kp_lemma) => `(tactic| with_reducible apply Keep.then_sendNamesFromChannel)

theorem keep_processNames {chs : List Str} : Keep c X (processNames cfg d chs X) := by
  unfold processNames
  dsimp only
  kp

theorem keep_joinAnnounce {nick : Str} {ds : List (Bool × Bool)} {chs : List Str} :
    Keep c X (joinAnnounce cfg d nick ds chs X) := by
  fun_induction joinAnnounce cfg d nick ds chs X with
  | case1 join x ds chn chs X X1 ih =>
    refine Keep.trans ?_ ih
    simp only [X1]
    kp
  | case2 => exact Keep.refl _
theorem Keep.then_joinAnnounce {nick : Str} {ds : List (Bool × Bool)} {chs : List Str}
    (h : Keep c X Y) : Keep c X (joinAnnounce cfg d nick ds chs Y) := h.trans keep_joinAnnounce
macro_rules | `(tactic| kp_lemma) => `(tactic| with_reducible apply Keep.then_joinAnnounce)

theorem keep_processJoin {chs : List Str} {keys : Option (List Str)} :
    Keep c X (processJoin cfg d chs keys X) := by
  unfold processJoin
  dsimp only
  kp

theorem keep_processPart {chs : List Str} {r : Option Str} :
    Keep c X (processPart cfg d chs r X) := by
  unfold processPart
  dsimp only
  kp

theorem keep_processTopic {ch : Str} {t : Option Str} {msg : Message} :
    Keep c X (processTopic cfg d ch t msg X) := by
  unfold processTopic
  dsimp only
  kp

theorem keep_listLine {client chn : Str} {ch : Channel} : Keep c X (listLine cfg client chn ch X) := rfl
theorem Keep.then_listLine {client chn : Str} {ch : Channel} (h : Keep c X Y) :
    Keep c X (listLine cfg client chn ch Y) := h
macro_rules | `(tactic| kp_lemma) => `(tactic| with_reducible apply Keep.then_listLine)

theorem keep_processList {chs : List Str} {srv : Option Str} :
    Keep c X (processList cfg d chs srv X) := by
  unfold processList
  dsimp only
  kp

theorem keep_processInvite {n ch : Str} {msg : Message} :
    Keep c X (processInvite cfg d n ch msg X) := by
  unfold processInvite
  dsimp only
  kp

theorem keep_processKick {ch : Str} {us : List Str} {cm : Option Str} :
    Keep c X (processKick cfg d ch us cm X) := by
  unfold processKick
  dsimp only
  kp

end

end Irc.C18F
