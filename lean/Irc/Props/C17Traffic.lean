/-
  Property C17 (keep-alive), the part that `Irc/Props/C17.lean` leaves to a modelling decision:
  "… for every client response pattern AND ANY OTHER TRAFFIC on the connection in the meantime".

  `Irc/Timer.lean` has `pong`, `pingCmd` and the passage of time as its only events.  Here it is proved,
  on the main model, that this loses nothing: the keep-alive state of a connection — `Conn.pongPending`,
  the Rust `conn_state.pong_notifier.is_some()`, set by the ping waker's tick (`stepPingTick`), read by
  `stepPongTimeout` — is written by exactly two things, the tick of THAT connection and a `PONG` line
  of THAT connection, which must have passed the registration gate.  Everything else (CAP negotiation,
  registration, channel traffic, messages, MODE, AWAY, the client's own `PING`, anybody else's commands
  including `PONG`, `KILL`, `DIE`, `SQUIT`) leaves it as it is.

  All theorems are for EVERY configuration, context (no invariant is assumed, not even that connection
  numbers are unique), connection number and line.

    * `isPongLine`                  the line parses to the PONG command
    * `keepalive_frame`             a line that is not PONG keeps the flag of EVERY connection
    * `keepalive_frame_own`         … of the acting connection (item 2)
    * `keepalive_frame_other`       EVERY line keeps the flag of every OTHER connection (item 3)
    * `handleLine_keeps_records`    `handleLine` neither creates nor removes a record
    * `keepalive_frame_step`        the same for a whole harness operation `step … (.line c s)`, which
                                    includes the settling phase: every connection that is still there
                                    afterwards has the flag it had before; `step_line_conn?` says exactly
                                    which records are still there (the ones the handler left unflagged:
                                    `quit = false`, no kill signal pending) and that they are unchanged
    * `pong_clears`, `pong_gated`   PONG of a registered connection clears, PONG before registration
                                    is answered 451 and changes nothing
    * `pending_iff_last_event`      runs of lines and ticks WITHOUT the settling phase (`kstep`): the flag
                                    is determined by the last event among {tick of `c`, PONG line of `c`};
                                    `pending_iff_last_tick` the `↔` form; `pending_iff_last_event_settled`
                                    the same for runs of the real operations `step` / `stepPingTick`
    * section "not vacuous"         `decide`d examples

  Proof of the frame facts: `Irc/Props/C17TrafficLemmas.lean` (projection `World.pp`, relation `KP`,
  tactic `kpp`; the method of `Irc/Props/C18FrameLemmas0.lean` (B)).
-/
import Irc.Props.C17TrafficLemmas2
import Irc.Props.C18Frame
import Irc.StepTimer

namespace Irc.C17T

open Irc Irc.Conc Irc.C18F Reply

/-! ## 1. which lines are PONG -/

/-- the PONG command -/
def isPong : Command → Bool
  | .PONG _ => true
  | _ => false

/-- the line parses to the PONG command (`lineCmd`: `Message.parse` then `Command.fromMessage`) -/
def isPongLine (line : Str) : Bool :=
  match lineCmd line with
  | some cmd => isPong cmd
  | none => false

example : isPongLine (str "PONG :LALAL") = true ∧ isPongLine (str "pong x") = true ∧
    isPongLine (str ":a PONG x y") = true ∧ isPongLine (str "PONG") = false ∧
    isPongLine (str "PING x") = false ∧ isPongLine (str "PRIVMSG a :PONG x") = false ∧
    isPongLine (str "CAP LS 302") = false ∧ isPongLine [] = false := by decide

/-! ## 2. the frame: dispatch and `handleLine` -/
section
variable {cfg : Cfg} {c : Nat} {X : Ctx}

/-- every handler except PONG keeps all keep-alive flags -/
theorem kp_dispatch (msg : Message) (cmd : Command) (h : isPong cmd = false) :
    KP c X (dispatch cfg c msg cmd X) := by
  cases cmd
  case PONG => cases h
  case KILL n cm => exact kp_processKill
  case DIE m => exact kp_processDie
  case SQUIT s cm => exact kp_processSquit
  case CAP => exact kp_processCap
  case PASS => exact kp_processPass
  case NICK => exact kp_processNick
  case USER => exact kp_processUser
  case QUIT => exact kp_processQuit
  case AUTHENTICATE => exact KP.of_keep fun _ => keep_processAuthenticate
  case PING => exact KP.of_keep fun _ => keep_processPing (d := c)
  case OPER => exact KP.of_keep fun _ => keep_processOper
  case JOIN => exact KP.of_keep fun _ => keep_processJoin
  case PART => exact KP.of_keep fun _ => keep_processPart
  case TOPIC => exact KP.of_keep fun _ => keep_processTopic
  case NAMES => exact KP.of_keep fun _ => keep_processNames
  case LIST => exact KP.of_keep fun _ => keep_processList
  case INVITE => exact KP.of_keep fun _ => keep_processInvite
  case KICK => exact KP.of_keep fun _ => keep_processKick
  case MOTD => exact KP.of_keep fun _ => keep_processMotd
  case VERSION => exact KP.of_keep fun _ => keep_processVersion
  case ADMIN => exact KP.of_keep fun _ => keep_processAdmin
  case CONNECT => exact KP.of_keep fun _ => keep_unsupported
  case LUSERS => exact KP.of_keep fun _ => keep_processLusers
  case TIME => exact KP.of_keep fun _ => keep_processTime
  case STATS => exact KP.of_keep fun _ => keep_processStats
  case LINKS => exact KP.of_keep fun _ => keep_processLinks
  case HELP => exact KP.of_keep fun _ => keep_processHelp
  case INFO => exact KP.of_keep fun _ => keep_processInfo
  case MODE => exact KP.of_keep fun _ => keep_processMode
  case PRIVMSG => exact KP.of_keep fun _ => keep_processPrivmsgNotice
  case NOTICE => exact KP.of_keep fun _ => keep_processPrivmsgNotice
  case WHO => exact KP.of_keep fun _ => keep_processWho
  case WHOIS => exact KP.of_keep fun _ => keep_processWhois
  case WHOWAS => exact KP.of_keep fun _ => keep_processWhowas
  case REHASH => exact KP.of_keep fun _ => keep_unsupported
  case RESTART => exact KP.of_keep fun _ => keep_unsupported
  case AWAY => exact KP.of_keep fun _ => keep_processAway
  case USERHOST => exact KP.of_keep fun _ => keep_processUserhost
  case WALLOPS => exact KP.of_keep fun _ => keep_processWallops
  case ISON => exact KP.of_keep fun _ => keep_processIson

/-- one whole command that is not PONG keeps all keep-alive flags -/
theorem kp_handleLine (line : Str) (h : isPongLine line = false) :
    KP c X (handleLine cfg c line X) := by
  unfold handleLine
  unfold isPongLine lineCmd at h
  dsimp only
  split
  · exact fun _ => rfl
  · exact fun _ => rfl
  · exact fun _ => rfl
  · next msg hp =>
    simp only [hp] at h
    split
    · exact fun _ => rfl
    · next cmd hc =>
      simp only [hc] at h
      split
      · exact fun _ => rfl
      · exact KP.trans (Y := X.modifyW (fun w => bumpCount w cmd.id.index)) (fun _ => rfl)
          (kp_dispatch msg cmd h)

end

/-- **`keepalive_frame`**: a line that is not PONG leaves the keep-alive flag of EVERY connection — the
    acting one and all others — as it is.  (CAP, registration, JOIN, PRIVMSG, NICK, MODE, AWAY, the
    client's own PING, KILL, DIE, parse errors, the 451 of the registration gate, …) -/
theorem keepalive_frame (cfg : Cfg) (c : Nat) (line : Str) (x : Ctx) (h : isPongLine line = false)
    (d : Nat) :
    ((handleLine cfg c line x).w.conn? d).map (·.pongPending) = (x.w.conn? d).map (·.pongPending) :=
  kp_handleLine (cfg := cfg) (c := c) line h d

/-- **`keepalive_frame_own`** (item 2): a line that is not PONG leaves the acting connection's own
    keep-alive flag as it is.  `handleLine` never removes a record (`handleLine_keeps_records`), so there
    is no side condition here; what the settling phase of the same operation does to a session that the
    command ended is `keepalive_frame_step` below. -/
theorem keepalive_frame_own (cfg : Cfg) (c : Nat) (line : Str) (x : Ctx)
    (h : isPongLine line = false) :
    ((handleLine cfg c line x).w.conn? c).map (·.pongPending) = (x.w.conn? c).map (·.pongPending) :=
  keepalive_frame cfg c line x h c

/-- **`keepalive_frame_other`** (item 3): EVERY line of `c` — PONG, KILL, DIE, SQUIT included — leaves
    the keep-alive flag of every other connection as it is. -/
theorem keepalive_frame_other (cfg : Cfg) (c d : Nat) (line : Str) (x : Ctx) (hdc : d ≠ c) :
    ((handleLine cfg c line x).w.conn? d).map (·.pongPending) = (x.w.conn? d).map (·.pongPending) := by
  cases hp : isPongLine line with
  | false => exact keepalive_frame cfg c line x hp d
  | true =>
    -- a PONG line is not KILL / DIE / SQUIT: the foreign record is untouched as a whole
    have hk : C18.lineKills line = false := by
      unfold isPongLine at hp
      show C18F.lineKills line = false
      unfold C18F.lineKills
      cases hl : lineCmd line with
      | none => rfl
      | some cmd =>
        rw [hl] at hp
        cases cmd <;> first | rfl | cases hp
    rw [C18.whole_keeps cfg line x (fun e => hdc e.symm) (fun hh => by rw [hk] at hh; cases hh)]

/-! ## 3. PONG: cleared behind the registration gate -/
section
variable {cfg : Cfg} {c : Nat} {x : Ctx}

/-- `handleLine` on a line that parses to `cmd`: count, gate, dispatch -/
theorem handleLine_of_lineCmd {line : Str} {cmd : Command} (h : lineCmd line = some cmd) :
    ∃ msg, handleLine cfg c line x =
      if !(allowedUnregistered cmd) && !(x.conn c).authenticated then
        (x.modifyW (fun w => bumpCount w cmd.id.index)).reply cfg
          (ErrNotRegistered451 (x.conn c).clientName)
      else dispatch cfg c msg cmd (x.modifyW (fun w => bumpCount w cmd.id.index)) := by
  unfold lineCmd at h
  unfold handleLine
  cases hp : Message.parse line with
  | error e => simp only [hp] at h; cases h
  | ok msg =>
    cases hc : Command.fromMessage msg with
    | error e => simp only [hp, hc] at h; cases h
    | ok cmd' =>
      simp only [hp, hc] at h ⊢
      cases h
      exact ⟨msg, rfl⟩

theorem isPongLine_iff (line : Str) : isPongLine line = true ↔ ∃ t, lineCmd line = some (.PONG t) := by
  unfold isPongLine
  cases hl : lineCmd line with
  | none => simp
  | some cmd =>
    cases cmd <;> simp [isPong]

end

/-- what a well-formed `PONG <token>` of a registered connection does: the command counter, and the
    flag of the own record is cleared; nothing is sent. -/
theorem pong_registered (cfg : Cfg) (c : Nat) (line t : Str) (x : Ctx) (cn : Conn)
    (hl : lineCmd line = some (.PONG t)) (hc : x.w.conn? c = some cn) (ha : cn.authenticated = true) :
    handleLine cfg c line x =
      (x.modifyW (fun w => bumpCount w (Command.PONG t).id.index)).setConn
        { cn with pongPending := false } := by
  obtain ⟨msg, e⟩ := handleLine_of_lineCmd (cfg := cfg) (c := c) (x := x) hl
  rw [e]
  have hcn : x.conn c = cn := ctx_conn_of hc
  have hcn' : (x.modifyW (fun w => bumpCount w (Command.PONG t).id.index)).conn c = cn := hcn
  simp only [hcn, ha, Bool.not_true, Bool.and_false, Bool.false_eq_true, ↓reduceIte, dispatch,
    processPong, hcn']

/-- **`pong_clears`** (item 4, first half): after a well-formed `PONG <token>` of a registered
    connection its keep-alive flag is `false`. -/
theorem pong_clears (cfg : Cfg) (c : Nat) (line t : Str) (x : Ctx) (cn : Conn)
    (hl : lineCmd line = some (.PONG t)) (hc : x.w.conn? c = some cn) (ha : cn.authenticated = true) :
    ((handleLine cfg c line x).w.conn? c).map (·.pongPending) = some false := by
  rw [pong_registered cfg c line t x cn hl hc ha]
  have h' : (x.modifyW (fun w => bumpCount w (Command.PONG t).id.index)).w.conn? c = some cn := hc
  show (World.conn? (World.setConn _ _) c).map _ = _
  have hid : ({ cn with pongPending := false } : Conn).id = c := conn?_id (cn := cn) hc
  rw [conn?_setConn_self { cn with pongPending := false } h' hid]
  rfl

/-- **`pong_gated`** (item 4, second half): the PONG of a connection that is not registered is answered
    451 (`ERR_NOTREGISTERED`) and does nothing else but count the command; in particular every
    keep-alive flag stays as it is.  (No hypothesis that the record exists: `Ctx.conn` of a missing
    record is unauthenticated.) -/
theorem pong_gated (cfg : Cfg) (c : Nat) (line t : Str) (x : Ctx)
    (hl : lineCmd line = some (.PONG t)) (ha : (x.conn c).authenticated = false) :
    handleLine cfg c line x =
      (x.modifyW (fun w => bumpCount w (Command.PONG t).id.index)).reply cfg
        (ErrNotRegistered451 (x.conn c).clientName) ∧
    ∀ d, ((handleLine cfg c line x).w.conn? d).map (·.pongPending) =
      (x.w.conn? d).map (·.pongPending) := by
  obtain ⟨msg, e⟩ := handleLine_of_lineCmd (cfg := cfg) (c := c) (x := x) hl
  have e' : handleLine cfg c line x =
      (x.modifyW (fun w => bumpCount w (Command.PONG t).id.index)).reply cfg
        (ErrNotRegistered451 (x.conn c).clientName) := by
    rw [e]
    simp only [ha, allowedUnregistered, Bool.not_false, Bool.and_self, ↓reduceIte]
  refine ⟨e', fun d => ?_⟩
  rw [e']
  rfl

/-- `handleLine` neither creates nor removes a connection record (for every line, PONG included). -/
theorem handleLine_keeps_records (cfg : Cfg) (c d : Nat) (line : Str) (x : Ctx) :
    ((handleLine cfg c line x).w.conn? d).isSome = (x.w.conn? d).isSome := by
  have key : ∀ (o o' : Option Conn), o.map (·.pongPending) = o'.map (·.pongPending) →
      o.isSome = o'.isSome := by
    intro o o' h
    cases o <;> cases o' <;> simp at h ⊢
  cases hp : isPongLine line with
  | false => exact key _ _ (keepalive_frame cfg c line x hp d)
  | true =>
    obtain ⟨t, hl⟩ := (isPongLine_iff line).mp hp
    by_cases hdc : d = c
    · subst hdc
      cases ha : (x.conn d).authenticated with
      | false => exact key _ _ ((pong_gated cfg d line t x hl ha).2 d)
      | true =>
        cases hc : x.w.conn? d with
        | none =>
          have : x.conn d = Conn.new d [] := by unfold Ctx.conn; rw [hc]; rfl
          rw [this] at ha
          cases ha
        | some cn =>
          have hcn : x.conn d = cn := ctx_conn_of hc
          rw [hcn] at ha
          have := pong_clears cfg d line t x cn hl hc ha
          cases h2 : (handleLine cfg d line x).w.conn? d with
          | none => rw [h2] at this; cases this
          | some _ => rfl
    · exact key _ _ (keepalive_frame_other cfg c d line x hdc)

/-! ## 4. the whole harness operation (handler + settling phase) -/

/-- **`keepalive_frame_step`**: one operation `step cfg w (.line c line)` with a line that is not PONG.
    For every connection number `d` — the acting one included —, afterwards either there is no record
    of `d` any more (the command ended the session: QUIT, a failed password, KILL / DIE, … set `quit` or
    `killedBy`, and the settling phase `finish`/`settle` tears such a connection down and frees its
    slot; it does nothing else to connection records, `surv_finish`), or the record is there and has
    the keep-alive flag it had before. -/
theorem keepalive_frame_step (cfg : Cfg) (w : World) (c : Nat) (line : Str)
    (h : isPongLine line = false) (d : Nat) :
    (step cfg w (.line c line)).w.conn? d = none ∨
    ((step cfg w (.line c line)).w.conn? d).map (·.pongPending) = (w.conn? d).map (·.pongPending) := by
  unfold step
  dsimp only
  split
  · exact Or.inr rfl
  · rcases surv_finish cfg c (handleLine cfg c line { w := w }) [] d with h1 | h1
    · exact Or.inl h1
    · refine Or.inr ?_
      rw [h1]
      exact keepalive_frame cfg c line { w := w } h d

/-- the same for every line and every connection other than the acting one -/
theorem keepalive_frame_step_other (cfg : Cfg) (w : World) (c d : Nat) (line : Str) (hdc : d ≠ c) :
    (step cfg w (.line c line)).w.conn? d = none ∨
    ((step cfg w (.line c line)).w.conn? d).map (·.pongPending) = (w.conn? d).map (·.pongPending) := by
  unfold step
  dsimp only
  split
  · exact Or.inr rfl
  · rcases surv_finish cfg c (handleLine cfg c line { w := w }) [] d with h1 | h1
    · exact Or.inl h1
    · refine Or.inr ?_
      rw [h1]
      exact keepalive_frame_other cfg c d line { w := w } hdc

/-! ## 5. runs: the flag is determined by the last tick / PONG of the connection itself -/

/-- the events of a run: a line of connection `d` reaches `process_internal`; the ping waker of
    connection `d` ticks (`Some(_) = conn_state.ping_receiver.recv()`) -/
inductive KEvent
  | line (d : Nat) (l : Str)
  | tick (d : Nat)
  deriving DecidableEq, Repr

/-- one event on the world, WITHOUT the settling phase: the world that the handler (`handleLine`, as
    `step` calls it) resp. the tick branch of `stepPingTick` hands to `finish`.  `kstep_step` /
    `kstep_tick` say that the real operations are `finish` of exactly this. -/
def kstep (cfg : Cfg) (w : World) : KEvent → World
  | .line d l =>
    match w.conn? d with
    | none => w
    | some _ => (handleLine cfg d l { w := w }).w
  | .tick d =>
    match w.conn? d with
    | none => w
    | some cn => w.setConn { cn with pongPending := true }

/-- one event with the settling phase: the harness operations themselves -/
def kstepFull (cfg : Cfg) (w : World) : KEvent → World
  | .line d l => (step cfg w (.line d l)).w
  | .tick d => (stepPingTick cfg w d).w

theorem kstep_step (cfg : Cfg) (w : World) (d : Nat) (l : Str) (h : (w.conn? d).isSome = true) :
    step cfg w (.line d l) = finish cfg d (handleLine cfg d l { w := w }) ∧
    kstep cfg w (.line d l) = (handleLine cfg d l { w := w }).w := by
  cases hc : w.conn? d with
  | none => rw [hc] at h; cases h
  | some cn => refine ⟨?_, ?_⟩ <;> simp only [step, kstep, hc]

theorem kstep_tick (cfg : Cfg) (w : World) (d : Nat) (cn : Conn) (h : w.conn? d = some cn) :
    stepPingTick cfg w d =
      finish cfg d ((({ w := w } : Ctx).reply cfg (str "PING :LALAL")).setConn
        { cn with pongPending := true }) ∧
    kstep cfg w (.tick d) =
      ((({ w := w } : Ctx).reply cfg (str "PING :LALAL")).setConn { cn with pongPending := true }).w := by
  refine ⟨?_, ?_⟩ <;> simp only [stepPingTick, kstep, h] <;> rfl

/-- what one operation does to connection records, exactly: the handler runs, then the settling phase
    removes the flagged records (`quit` set — QUIT, a failed password, … — or a KILL / DIE signal
    pending, `unflagged`) and leaves every other record literally as the handler left it. -/
theorem step_line_conn? (cfg : Cfg) (w : World) (c : Nat) (line : Str) (hc : (w.conn? c).isSome = true)
    (d : Nat) :
    (step cfg w (.line c line)).w.conn? d = unflagged ((handleLine cfg c line { w := w }).w.conn? d) := by
  rw [(kstep_step cfg w c line hc).1]
  exact finish_conn? cfg c _ [] d

/-- the operations with the settling phase only remove records from what `kstep` produces -/
theorem surv_kstepFull (cfg : Cfg) (w : World) (e : KEvent) : Surv (kstep cfg w e) (kstepFull cfg w e) := by
  cases e with
  | line d l =>
    cases hc : w.conn? d with
    | none => simp only [kstep, kstepFull, step, hc]; exact Surv.refl w
    | some cn => simp only [kstep, kstepFull, step, hc]; exact surv_finish cfg d _ []
  | tick d =>
    cases hc : w.conn? d with
    | none => simp only [kstep, kstepFull, stepPingTick, hc]; exact Surv.refl w
    | some cn => simp only [kstep, kstepFull, stepPingTick, hc]; exact surv_finish cfg d _ []

/-- a run -/
def krun (f : World → KEvent → World) (w : World) (evs : List KEvent) : World := evs.foldl f w

/-- connection `c` is there and registered -/
def Reg (c : Nat) (w : World) : Prop := ∃ cn, w.conn? c = some cn ∧ cn.authenticated = true

/-- connection `c` is there and registered before every event of the run and at its end -/
def StaysReg (f : World → KEvent → World) (c : Nat) : World → List KEvent → Prop
  | w, [] => Reg c w
  | w, e :: es => Reg c w ∧ StaysReg f c (f w e) es

/-- the events that matter for the keep-alive flag of `c`: its own ticks and its own PONG lines -/
def KEvent.relevant (c : Nat) : KEvent → Bool
  | .tick d => d == c
  | .line d l => d == c && isPongLine l

/-- the last relevant event of a run (`lastRelevant_eq`: the last element of the filtered list) -/
def lastRelevant (c : Nat) : List KEvent → Option KEvent
  | [] => none
  | e :: es =>
    match lastRelevant c es with
    | some r => some r
    | none => if e.relevant c then some e else none

theorem lastRelevant_cons (c : Nat) (e : KEvent) (es : List KEvent) :
    lastRelevant c (e :: es) =
      match lastRelevant c es with
      | some r => some r
      | none => if e.relevant c then some e else none := rfl

theorem lastRelevant_eq (c : Nat) (evs : List KEvent) :
    lastRelevant c evs = (evs.filter (KEvent.relevant c)).getLast? := by
  induction evs with
  | nil => rfl
  | cons e es ih =>
    rw [lastRelevant_cons, ih, List.filter_cons]
    cases hr : e.relevant c with
    | false =>
      simp only [Bool.false_eq_true, ↓reduceIte]
      cases (es.filter (KEvent.relevant c)).getLast? <;> rfl
    | true =>
      simp only [↓reduceIte, List.getLast?_cons]
      cases (es.filter (KEvent.relevant c)).getLast? <;> rfl

/-- what the last relevant event says: a tick — pending; a PONG — not pending; none — as at the start -/
def verdict (init : Bool) : Option KEvent → Bool
  | none => init
  | some (.tick _) => true
  | some (.line _ _) => false

/-- the flag of `c` after one event, as a function of the flag before -/
def flagAfter (c : Nat) (e : KEvent) (b : Bool) : Bool :=
  match e with
  | .tick d => if d = c then true else b
  | .line d l => if d = c ∧ isPongLine l = true then false else b

theorem flagRun_eq (c : Nat) (evs : List KEvent) (b : Bool) :
    evs.foldl (fun b e => flagAfter c e b) b = verdict b (lastRelevant c evs) := by
  induction evs generalizing b with
  | nil => rfl
  | cons e es ih =>
    rw [List.foldl_cons, ih, lastRelevant_cons]
    cases hl : lastRelevant c es with
    | some r => cases r <;> rfl
    | none =>
      dsimp only
      cases e with
      | tick d =>
        unfold KEvent.relevant flagAfter
        by_cases hd : d = c
        · simp [hd, verdict]
        · simp [hd, verdict]
      | line d l =>
        unfold KEvent.relevant flagAfter
        by_cases hd : d = c
        · cases hp : isPongLine l <;> simp [hd, hp, verdict]
        · simp [hd, verdict]

/-- one event without settling: the flag of a registered connection `c` changes as `flagAfter` says,
    whatever the event is and whoever acts -/
theorem kstep_flag (cfg : Cfg) (w : World) (c : Nat) (cn : Conn) (e : KEvent)
    (hc : w.conn? c = some cn) (ha : cn.authenticated = true) :
    ((kstep cfg w e).conn? c).map (·.pongPending) = some (flagAfter c e cn.pongPending) := by
  cases e with
  | tick d =>
    unfold kstep flagAfter
    dsimp only
    cases hd : w.conn? d with
    | none =>
      have hdc : ¬ d = c := by intro e; rw [e, hc] at hd; cases hd
      simp only [hdc, ↓reduceIte, hc, Option.map_some]
    | some cn' =>
      dsimp only
      by_cases hdc : d = c
      · subst hdc
        have hid : ({ cn' with pongPending := true } : Conn).id = d := conn?_id (cn := cn') hd
        rw [conn?_setConn_self { cn' with pongPending := true } hd hid]
        simp
      · have hid : ({ cn' with pongPending := true } : Conn).id ≠ c := by
          rw [show ({ cn' with pongPending := true } : Conn).id = d from conn?_id (cn := cn') hd]
          exact hdc
        rw [conn?_setConn_ne w _ c hid, hc]
        simp [hdc]
  | line d l =>
    unfold kstep flagAfter
    dsimp only
    cases hd : w.conn? d with
    | none =>
      have hdc : ¬ d = c := by intro e; rw [e, hc] at hd; cases hd
      simp only [hdc, false_and, ↓reduceIte, hc, Option.map_some]
    | some cn' =>
      dsimp only
      cases hp : isPongLine l with
      | false =>
        rw [keepalive_frame cfg d l { w := w } hp c]
        simp [hc]
      | true =>
        by_cases hdc : d = c
        · subst hdc
          obtain ⟨t, hl⟩ := (isPongLine_iff l).mp hp
          rw [pong_clears cfg d l t { w := w } cn hl hc ha]
          simp
        · rw [keepalive_frame_other cfg d c l { w := w } (fun e => hdc e.symm)]
          simp [hc, hdc]

/-- the general form: `f` is any step function that does to connection records what `kstep` does and
    then possibly removes some (`kstep` itself; `kstepFull`, the operations with the settling phase) -/
theorem pending_run (cfg : Cfg) (f : World → KEvent → World)
    (hf : ∀ w e, Surv (kstep cfg w e) (f w e)) (c : Nat) (evs : List KEvent) (w : World) (cn : Conn)
    (hc : w.conn? c = some cn) (hs : StaysReg f c w evs) :
    ((krun f w evs).conn? c).map (·.pongPending) =
      some (evs.foldl (fun b e => flagAfter c e b) cn.pongPending) := by
  induction evs generalizing w cn with
  | nil => show (w.conn? c).map _ = _; rw [hc]; rfl
  | cons e es ih =>
    obtain ⟨⟨cn0, h0, ha⟩, hs'⟩ := hs
    rw [hc] at h0
    cases h0
    have hreg : Reg c (f w e) := by
      cases es with
      | nil => exact hs'
      | cons _ _ => exact hs'.1
    obtain ⟨cn1, h1, _⟩ := hreg
    have hk := kstep_flag cfg w c cn e hc ha
    have e1 : (kstep cfg w e).conn? c = some cn1 := by
      rcases hf w e c with h | h
      · rw [h1] at h; cases h
      · rw [← h, h1]
    rw [e1] at hk
    have hpp : cn1.pongPending = flagAfter c e cn.pongPending := by simpa using hk
    show ((krun f (f w e) es).conn? c).map _ = _
    rw [ih (f w e) cn1 h1 hs', hpp]
    rfl

/-- **`pending_iff_last_event`** (item 5), runs WITHOUT the settling phase (`kstep`).  `c` is registered
    throughout (`StaysReg`; without settling no record ever disappears, so "alive" is automatic);
    `cn` is its record at the start.  After ANY list of lines and ticks of ANY connections the flag of
    `c` is what the last event among {tick of `c`, PONG line of `c`} says, and the initial value if there
    is none.  All other events — other commands of `c`, everything of everybody else — are irrelevant. -/
theorem pending_iff_last_event (cfg : Cfg) (c : Nat) (evs : List KEvent) (w : World) (cn : Conn)
    (hc : w.conn? c = some cn) (hs : StaysReg (kstep cfg) c w evs) :
    ((krun (kstep cfg) w evs).conn? c).map (·.pongPending) =
      some (verdict cn.pongPending (lastRelevant c evs)) := by
  rw [pending_run cfg (kstep cfg) (fun w e => Surv.refl _) c evs w cn hc hs, flagRun_eq]

/-- the same for runs of the real operations (`step … (.line d l)`, `stepPingTick`), settling phase
    included; here `StaysReg` also says that `c` is not torn down on the way (alive). -/
theorem pending_iff_last_event_settled (cfg : Cfg) (c : Nat) (evs : List KEvent) (w : World) (cn : Conn)
    (hc : w.conn? c = some cn) (hs : StaysReg (kstepFull cfg) c w evs) :
    ((krun (kstepFull cfg) w evs).conn? c).map (·.pongPending) =
      some (verdict cn.pongPending (lastRelevant c evs)) := by
  rw [pending_run cfg (kstepFull cfg) (surv_kstepFull cfg) c evs w cn hc hs, flagRun_eq]

/-- the `↔` reading of `verdict` -/
theorem verdict_iff (init : Bool) (o : Option KEvent) :
    verdict init o = true ↔ (∃ d, o = some (.tick d)) ∨ (o = none ∧ init = true) := by
  cases o with
  | none => simp [verdict]
  | some e => cases e <;> simp [verdict]

/-- the last relevant event of `c` is a tick of `c` or a PONG line of `c` -/
theorem lastRelevant_relevant (c : Nat) (evs : List KEvent) (r : KEvent)
    (h : lastRelevant c evs = some r) : r.relevant c = true ∧ r ∈ evs := by
  induction evs with
  | nil => cases h
  | cons e es ih =>
    rw [lastRelevant_cons] at h
    cases hl : lastRelevant c es with
    | some r' =>
      rw [hl] at h
      cases h
      exact ⟨(ih hl).1, List.mem_cons_of_mem _ (ih hl).2⟩
    | none =>
      rw [hl] at h
      dsimp only at h
      split at h
      · next hr => cases h; exact ⟨hr, List.mem_cons_self⟩
      · cases h

/-- **`pending_iff_last_event`** in words: the flag is `true` after the run iff the last event among
    {tick of `c`, PONG line of `c`} was the tick, or there was none and it was `true` at the start. -/
theorem pending_iff_last_tick (cfg : Cfg) (c : Nat) (evs : List KEvent) (w : World) (cn : Conn)
    (hc : w.conn? c = some cn) (hs : StaysReg (kstep cfg) c w evs) :
    ((krun (kstep cfg) w evs).conn? c).map (·.pongPending) = some true ↔
      (lastRelevant c evs = some (.tick c)) ∨ (lastRelevant c evs = none ∧ cn.pongPending = true) := by
  rw [pending_iff_last_event cfg c evs w cn hc hs]
  simp only [Option.some.injEq]
  rw [verdict_iff]
  constructor
  · rintro (⟨d, hd⟩ | h)
    · have := (lastRelevant_relevant c evs _ hd).1
      have hdc : d = c := by simpa [KEvent.relevant] using this
      rw [hdc] at hd
      exact Or.inl hd
    · exact Or.inr h
  · rintro (h | h)
    · exact Or.inl ⟨c, h⟩
    · exact Or.inr h

/-! ## 6. not vacuous -/

/-- `Reg`, `StaysReg` as computations (for the examples) -/
def regB (c : Nat) (w : World) : Bool := (w.conn? c).map (·.authenticated) == some true

def staysRegB (f : World → KEvent → World) (c : Nat) : World → List KEvent → Bool
  | w, [] => regB c w
  | w, e :: es => regB c w && staysRegB f c (f w e) es

theorem reg_of_regB {c : Nat} {w : World} (h : regB c w = true) : Reg c w := by
  unfold regB at h
  cases hc : w.conn? c with
  | none => rw [hc] at h; cases h
  | some cn =>
    rw [hc] at h
    exact ⟨cn, hc, by simpa using h⟩

theorem staysReg_of_B {f : World → KEvent → World} {c : Nat} {w : World} {evs : List KEvent}
    (h : staysRegB f c w evs = true) : StaysReg f c w evs := by
  induction evs generalizing w with
  | nil => exact reg_of_regB h
  | cons e es ih =>
    unfold staysRegB at h
    rw [Bool.and_eq_true] at h
    exact ⟨reg_of_regB h.1, ih h.2⟩

namespace Demo
def ip : Str := str "10.0.0.1"
/-- a configuration with one operator block -/
def kcfg : Cfg := { operators := [{ name := str "op", password := str "pw", mask := none }] }
/-- `a` is registered on connection 1, the operator `b` on connection 2, connection 3 has connected -/
def w1 : World := run kcfg [.connect 1 ip, .line 1 (str "NICK a"), .line 1 (str "USER a 0 * :A"),
  .connect 2 ip, .line 2 (str "NICK b"), .line 2 (str "USER b 0 * :B"), .line 2 (str "OPER op pw"),
  .connect 3 ip]
/-- … and the ping waker of connection 1 has ticked: `PING :LALAL` is out, the pong timeout runs -/
def wp : World := (stepPingTick kcfg w1 1).w
def flag (w : World) (c : Nat) : Option Bool := (w.conn? c).map (·.pongPending)
/-- `wp` with the flag of the unregistered connection 3 set by hand -/
def wp3 : World :=
  match wp.conn? 3 with
  | some cn3 => wp.setConn { cn3 with pongPending := true }
  | none => wp
/-- the record of connection 1 in `w1` -/
def cn1 : Conn := (w1.conn? 1).getD (Conn.new 1 [])
/-- the handler's context for a line of `c` in `wp` -/
def afterX (c : Nat) (l : String) : Ctx := handleLine kcfg c (str l) { w := wp }
def after (c : Nat) (l : String) : World := (afterX c l).w
/-- the whole operation (with the settling phase) -/
def afterStep (c : Nat) (l : String) : World := (step kcfg wp (.line c (str l))).w
end Demo
open Demo

set_option maxRecDepth 16384 in
-- the demo world: 1 and 2 are registered, 3 is not; only the flag of 1 is pending
example : flag w1 1 = some false ∧ flag wp 1 = some true ∧ flag wp 2 = some false ∧
    flag wp 3 = some false ∧ regB 1 wp = true ∧ regB 2 wp = true ∧ regB 3 wp = false := by decide

set_option maxRecDepth 16384 in
-- other traffic of connection 1 itself leaves its pending flag pending …
example : ([ "CAP LS 302", "CAP REQ :multi-prefix", "CAP END", "JOIN #a", "PRIVMSG b :hi", "NICK aa",
    "MODE a +i", "AWAY :gone", "PING x", "WHOIS b", "USER x 0 * :X", "QUIT :bye", "FOO", "PONG", "" ].all
      (fun l => flag (after 1 l) 1 == some true)) = true := by decide

set_option maxRecDepth 16384 in
-- … and these commands do run: negotiation flag, channel, nick, away text, echo of the client's PING
example : ((after 1 "CAP LS 302").conn? 1).map (·.capsNeg) = some true ∧
    Map.keys (after 1 "JOIN #a").channels = [str "#a"] ∧
    ((after 1 "NICK aa").conn? 1).bind (·.nick) = some (str "aa") ∧
    (Map.lookup (str "a") (after 1 "AWAY :gone").users).bind (·.away) = some (str "gone") ∧
    (afterX 1 "PING x").direct = [str ":irc.irc PONG irc.irc :x"] ∧
    (afterX 1 "PRIVMSG b :hi").queued = [(2, str ":a!~a@10.0.0.1 PRIVMSG b :hi")] := by decide

set_option maxRecDepth 16384 in
-- its PONG clears the flag (any token; nothing is sent)
example : flag (after 1 "PONG :LALAL") 1 = some false ∧ flag (after 1 "PONG x") 1 = some false ∧
    (afterX 1 "PONG :LALAL").direct = [] := by decide

set_option maxRecDepth 16384 in
-- somebody else's PONG / KILL / DIE does not, although KILL and DIE do write into the record of 1
example : flag (after 2 "PONG :LALAL") 1 = some true ∧ flag (after 2 "KILL a :bye") 1 = some true ∧
    flag (after 2 "DIE") 1 = some true ∧ flag (after 2 "PRIVMSG a :PONG") 1 = some true ∧
    ((after 2 "KILL a :bye").conn? 1).map (·.killedBy) = some (some (str "b", str "bye")) := by decide

set_option maxRecDepth 16384 in
-- the gate: PONG of the unregistered connection 3 is answered 451 and clears nothing — not even if a
-- flag were pending there (`wp3`: the record of 3 with the flag set by hand)
example : (afterX 3 "PONG :LALAL").direct = [str ":irc.irc 451 10.0.0.1 :You have not registered"] ∧
    flag wp3 3 = some true ∧ regB 3 wp3 = false ∧
    flag (handleLine kcfg 3 (str "PONG :LALAL") { w := wp3 }).w 3 = some true := by decide

set_option maxRecDepth 16384 in
-- the whole operation (settling included): the flag survives as long as the connection does
example : flag (afterStep 1 "JOIN #a") 1 = some true ∧ flag (afterStep 1 "CAP LS 302") 1 = some true ∧
    flag (afterStep 1 "PONG :LALAL") 1 = some false ∧
    flag (after 1 "QUIT") 1 = some true ∧ ((after 1 "QUIT").conn? 1).map (·.quit) = some true ∧
    flag (afterStep 1 "QUIT") 1 = none ∧
    flag (afterStep 2 "KILL a :bye") 1 = none ∧ flag (afterStep 2 "PONG x") 1 = some true := by decide

set_option maxRecDepth 16384 in
-- CAP negotiation does not suppress the keep-alive: the tick sets the flag while `capsNeg` is on
example : ((step kcfg w1 (.line 1 (str "CAP LS 302"))).w.conn? 1).map (·.capsNeg) = some true ∧
    flag (stepPingTick kcfg (step kcfg w1 (.line 1 (str "CAP LS 302"))).w 1).w 1 = some true := by
  decide

namespace Demo
/-- a run: tick of 1, then traffic of 1 and of 2 -/
def evs1 : List KEvent := [.tick 1, .line 1 (str "JOIN #a"), .line 2 (str "PONG x"),
  .line 1 (str "PING y"), .tick 2, .line 2 (str "PRIVMSG a :hi"), .line 1 (str "CAP LS 302")]
end Demo

set_option maxRecDepth 16384 in
-- `pending_iff_last_event` applies to the demo world: hypotheses and both sides, for three runs
example : staysRegB (kstep kcfg) 1 w1 evs1 = true ∧
    lastRelevant 1 evs1 = some (.tick 1) ∧ flag (krun (kstep kcfg) w1 evs1) 1 = some true ∧
    lastRelevant 2 evs1 = some (.tick 2) ∧ flag (krun (kstep kcfg) w1 evs1) 2 = some true := by decide

set_option maxRecDepth 16384 in
example : staysRegB (kstep kcfg) 1 w1 (evs1 ++ [.line 1 (str "PONG :LALAL"), .line 1 (str "AWAY")]) = true ∧
    lastRelevant 1 (evs1 ++ [.line 1 (str "PONG :LALAL"), .line 1 (str "AWAY")]) =
      some (.line 1 (str "PONG :LALAL")) ∧
    flag (krun (kstep kcfg) w1 (evs1 ++ [.line 1 (str "PONG :LALAL"), .line 1 (str "AWAY")])) 1 =
      some false := by decide

set_option maxRecDepth 16384 in
-- the same run with the settling phase
example : staysRegB (kstepFull kcfg) 1 w1 evs1 = true ∧
    flag (krun (kstepFull kcfg) w1 evs1) 1 = some true := by decide

set_option maxRecDepth 16384 in
-- … and the theorem itself, used on the demo run
example : flag (krun (kstep kcfg) w1 evs1) 1 = some true :=
  (pending_iff_last_tick kcfg 1 evs1 w1 cn1 (by decide) (staysReg_of_B (by decide))).mpr (Or.inl (by decide))

end Irc.C17T
