/-
  C04, second sentence — "Every membership change made by JOIN, PART, KICK or NICK is announced to all
  members of the channel, the departing user included, so that the NAMES reply received on joining plus
  the announcements received since reconstruct the same roster (up to departures by disconnect, which
  this server does not announce)."

  (The first sentence — the membership relation, its history and the three views — is `Irc/Props/C04.lean`.)

  Model: `processJoin` / `processPart` / `processKick` (Irc/HChannel.lean), `processNick` (Irc/HConn.lean);
  `Ctx.queued : List (Nat × Str)` = lines pushed to the queue of the connection with that id,
  `Ctx.direct` = lines written to the acting connection's own socket.
  Vocabulary and helper lemmas: `Irc/Props/C04AnnounceLemmas.lean`
  (`members`, `partQueue`, `partReplies`, `joinQueue`, `joinBurst`, `namesReply`, `kickedOf`, `kickQueue`,
  the lines `partLine` / `C07.joinLine` / `kickLine` / `nickLine`, `ownerOf w m` = the `owner` field of user `m`).

  All theorems: for ALL worlds satisfying `InvCore`, all channel lists, member lists, reasons (no bounds).

  Contents:  1 `part_announced` (+ `_to_all_once`, `part_only_members`, `part_not_member_silent`);
  2 `join_announced` (+ `_to_others`, `_names`, `_single`, `join_refused_announces_nothing`);
  3 `kick_announced` (+ `kick_victims`, `_to_remaining_and_victim`, `kick_multi_not_seen_by_other_victims`);
  4 `nick_announced_to_channel_peers`, `nick_refused_announces_nothing`;
  5 `announcements_are_rendered`, `roster_step`, `roster_on_join`, `roster_invariant`,
    `roster_from_own_join` — all for arbitrary channel lists / victim lists (nothing is `_partial`);
  6 kernel-checked instances.
  Not covered (outside the statement): lines of other commands (PRIVMSG, MODE, TOPIC ..) interleaved with
  the four commands — they change no membership (`C04.membership_changes_only_by`) and carry no roster
  announcement; departures by disconnect (QUIT / KILL / error), which this server does not announce.

  Findings (each with a kernel-checked instance below):
  * `kick_multi_not_seen_by_other_victims` — with several victims in one KICK, all are removed first and
    each KICK line is then sent to the members remaining after ALL removals plus that one victim: a victim
    does not see the KICK lines of the other victims (its roster keeps them; harmless, it has left).
  * the PART line reaches the parting user through its own queue (like everybody else), the JOIN line
    and the NAMES reply reach the joiner through its socket buffer: the relative order of the two channels
    of delivery is not fixed by the handler.
  * a channel listed and accepted twice in one JOIN is announced twice (`C07`, `join_duplicate`);
    `join_announced` counts this precisely (`List.count ch accepted`).
  * the NICK line is the RECEIVED message re-rendered with the old source: `nick X extra` is announced as
    `:<old> nick X extra` (command word as typed, extra parameters included); it is the canonical
    `:<old> NICK <new>` exactly when the client sent `NICK <new>` (`nick_line_canonical`).
  * the NAMES reply lists a member only if its nickname is non-empty (hypothesis `hne` of
    `join_announced_names`, inherited from `C04.names_output`; NICK validation guarantees it, `InvCore`
    does not record it).
-/
import Irc.Props.C04AnnounceLemmas

namespace Irc.C04A
open Irc Reply Memb

/-! ## 0. the setting -/

/-- connection `c` is live and registered under the nickname `n`, in a world satisfying the invariant -/
structure Acting (x : Ctx) (c : Nat) (n : Str) : Prop where
  inv : InvCore x.w
  live : Live x.w c
  auth : (x.conn c).authenticated = true
  nick : (x.conn c).nick = some n

/-- every live authenticated connection is `Acting` under some nickname, whose user it owns -/
theorem acting_of_auth {x : Ctx} {c : Nat} (h : InvCore x.w) (hl : Live x.w c)
    (ha : (x.conn c).authenticated = true) :
    ∃ n u, Acting x c n ∧ Map.lookup n x.w.users = some u ∧ u.owner = c := by
  obtain ⟨n, u, hn, hu, ho⟩ := sender_of_auth h hl ha
  exact ⟨n, u, ⟨h, hl, ha, hn⟩, hu, ho⟩

theorem Acting.user {x : Ctx} {c : Nat} {n : Str} (a : Acting x c n) :
    ∃ u, Map.lookup n x.w.users = some u ∧ u.owner = c := by
  obtain ⟨n', u, hn, hu, ho⟩ := sender_of_auth a.inv a.live a.auth
  rw [a.nick] at hn; cases hn
  exact ⟨u, hu, ho⟩

theorem Acting.owner {x : Ctx} {c : Nat} {n : Str} (a : Acting x c n) : ownerOf x.w n = c := by
  obtain ⟨u, hu, ho⟩ := a.user
  rw [ownerOf_of_lookup hu, ho]

/-- `members` is the member list of C04 -/
theorem mem_members_iff_member (w : World) (ch m : Str) : m ∈ members w ch ↔ C04.Member w ch m :=
  mem_members_iff w ch m

/-! ## 1. PART -/

/-- **PART, the whole output.**  `n` = the parting user, `src` its source.
    * `queued`: exactly, in list order, for every listed channel of which `n` is a member at that moment
      (= is a member before the command and the channel was not listed earlier in it), the PART line to
      the owner of every member of that channel (`partQueue`, computed from the world BEFORE the command);
    * `direct`: exactly one 442/403 for every other listed occurrence (`partReplies`). -/
theorem part_announced {cfg : Cfg} {c : Nat} {channels : List Str} {reason : Option Str} {x : Ctx}
    {n : Str} (a : Acting x c n) :
    (processPart cfg c channels reason x).queued = x.queued ++
      partQueue x.w n (fun ch => partLine (x.conn c).source ch reason) [] channels ∧
    (processPart cfg c channels reason x).direct = x.direct ++
      (partReplies x.w n (x.conn c).clientName [] channels).map (srvLine cfg) :=
  ⟨processPart_queued a.inv a.nick, processPart_direct a.inv a.nick⟩

/-- **PART reaches every member, the parting user included, exactly once** — also when the channel is
    listed twice. -/
theorem part_announced_to_all_once {c : Nat} {channels : List Str} {reason : Option Str}
    {x : Ctx} {n : Str} (a : Acting x c n) {ch : Str} (hch : ch ∈ channels)
    (hn : C04.Member x.w ch n) :
    let new := partQueue x.w n (fun ch => partLine (x.conn c).source ch reason) [] channels
    (∀ m, C04.Member x.w ch m →
      List.count (ownerOf x.w m, partLine (x.conn c).source ch reason) new = 1) ∧
    List.count (c, partLine (x.conn c).source ch reason) new = 1 := by
  intro new
  have key : ∀ m, C04.Member x.w ch m →
      List.count (ownerOf x.w m, partLine (x.conn c).source ch reason) new = 1 := by
    intro m hm
    have := count_partQueue a.inv n (fun ch => partLine (x.conn c).source ch reason)
      (fun _ _ e => partLine_inj _ _ e) ((mem_members_iff _ _ _).mpr hn)
      ((mem_members_iff _ _ _).mpr hm) channels []
    rw [this]; simp [hch]
  refine ⟨key, ?_⟩
  have := key n hn
  rwa [a.owner] at this

/-- **PART announces nothing else**: every queued line is the PART line of a listed channel of which
    the user was a member, addressed to the owner of a member of that channel. -/
theorem part_only_members {c : Nat} {channels : List Str} {reason : Option Str} {x : Ctx}
    {n : Str} (_a : Acting x c n) (o : Nat) (l : Str)
    (h : (o, l) ∈ partQueue x.w n (fun ch => partLine (x.conn c).source ch reason) [] channels) :
    ∃ ch, ch ∈ channels ∧ C04.Member x.w ch n ∧ l = partLine (x.conn c).source ch reason ∧
      ∃ m, C04.Member x.w ch m ∧ ownerOf x.w m = o := by
  obtain ⟨ch, h1, _, h3, h4, m, hm, ho⟩ := (mem_partQueue_iff _ _ _ _ _ _ _).mp h
  exact ⟨ch, h1, (mem_members_iff _ _ _).mp h3, h4, m, (mem_members_iff _ _ _).mp hm, ho⟩

/-- **A PART of channels the user is not on is not announced**: nothing is queued, and every listed
    channel is answered with 442 (it exists) or 403 (it does not). -/
theorem part_not_member_silent {cfg : Cfg} {c : Nat} {channels : List Str} {reason : Option Str}
    {x : Ctx} {n : Str} (a : Acting x c n) (hnot : ∀ ch, ch ∈ channels → ¬ C04.Member x.w ch n) :
    (processPart cfg c channels reason x).queued = x.queued ∧
    (processPart cfg c channels reason x).direct = x.direct ++ channels.map (fun ch =>
      srvLine cfg (if Map.contains ch x.w.channels = true then ErrNotOnChannel442 (x.conn c).clientName ch
                   else ErrNoSuchChannel403 (x.conn c).clientName ch)) := by
  obtain ⟨hq, hd⟩ := part_announced (cfg := cfg) (channels := channels) (reason := reason) a
  have hq0 : ∀ (chs seen : List Str), (∀ ch, ch ∈ chs → ¬ C04.Member x.w ch n) →
      partQueue x.w n (fun ch => partLine (x.conn c).source ch reason) seen chs = [] := by
    intro chs
    induction chs with
    | nil => intros; rfl
    | cons b rest ih =>
      intro seen hno
      have hnb : n ∉ members x.w b := fun hm => hno b List.mem_cons_self ((mem_members_iff _ _ _).mp hm)
      simp only [partQueue, hnb, false_and, ↓reduceIte, List.nil_append]
      exact ih _ (fun ch hch => hno ch (List.mem_cons_of_mem _ hch))
  have hd0 : ∀ (chs seen : List Str), (∀ ch, ch ∈ chs → ¬ C04.Member x.w ch n) →
      partReplies x.w n (x.conn c).clientName seen chs = chs.map (fun ch =>
        if Map.contains ch x.w.channels = true then ErrNotOnChannel442 (x.conn c).clientName ch
        else ErrNoSuchChannel403 (x.conn c).clientName ch) := by
    intro chs
    induction chs with
    | nil => intros; rfl
    | cons b rest ih =>
      intro seen hno
      have hnb : n ∉ members x.w b := fun hm => hno b List.mem_cons_self ((mem_members_iff _ _ _).mp hm)
      simp only [partReplies, hnb, false_and, ↓reduceIte, List.map_cons, List.cons_append,
        List.nil_append]
      rw [ih _ (fun ch hch => hno ch (List.mem_cons_of_mem _ hch))]
  rw [hq, hd, hq0 channels [] hnot, hd0 channels [] hnot, List.append_nil, List.map_map]
  refine ⟨rfl, ?_⟩
  congr 1

/-! ## 2. JOIN -/

/-- **JOIN, the whole output** (any channel list).  With `ds` the admission decisions (`C07`) and
    `acc` the accepted channels in list order, `y` the result:
    * `queued`: for every accepted channel, the JOIN line to the owner of every member of the channel
      AFTER the join other than the joiner (`joinQueue`, all inserts happen before the first line is sent);
    * `direct`: the error replies of the refused channels, then per accepted channel the burst
      `JOIN line, [332], 353.., 366` (`joinBurst`, spelled out in `join_announced_names`);
    * the joiner is a member of every accepted channel afterwards, and `acc` are exactly the listed
      channels with a positive decision. -/
theorem join_announced {cfg : Cfg} {c : Nat} {channels : List Str} {keys : Option (List Str)} {x : Ctx}
    {n : Str} (a : Acting x c n) :
    ∃ u, Map.lookup n x.w.users = some u ∧
      let ds := joinDecisions cfg c channels keys x n u
      let errs := (joinDecide cfg x.w (x.conn c) n u.invitedTo channels (joinKeyList keys)
        u.channels.length).2.1
      let acc := accepted ds channels
      let y := processJoin cfg c channels keys x
      y.queued = x.queued ++ joinQueue y.w n (C07.joinLine (x.conn c).source) acc ∧
      y.direct = x.direct ++ errs.map (srvLine cfg) ++ acc.flatMap (joinBurst cfg c y.w) ∧
      (∀ ch, ch ∈ acc → C04.Member y.w ch n) ∧
      (∀ ch, ch ∈ acc ↔ ∃ p, p ∈ ds.zip channels ∧ p.1.1 = true ∧ p.2 = ch) ∧
      (∀ m, ownerOf y.w m = ownerOf x.w m) ∧ y.conn c = x.conn c := by
  obtain ⟨u, hu, _⟩ := a.user
  refine ⟨u, hu, ?_⟩
  intro ds errs acc y
  obtain ⟨h1, f1, e1, hd, hq⟩ := processJoin_closed (cfg := cfg) (channels := channels) (keys := keys)
    a.inv a.nick hu
  refine ⟨hq, hd, ?_, ?_, fun m => ownerOf_frame f1 m, conn_of_frame f1 c⟩
  · intro ch hch
    show (processJoin cfg c channels keys x).w.memOf ch n = true
    rw [e1, (mem_accepted_iff _ _ _).mp hch]; simp
  · intro ch
    rw [mem_accepted_iff]
    simp only [joined, List.any_eq_true, Bool.and_eq_true, decide_eq_true_eq]

/-- **JOIN reaches every OTHER member once per acceptance**, and nobody else; in particular a refused
    channel is not announced at all. -/
theorem join_announced_to_others {cfg : Cfg} {c : Nat} {channels : List Str} {keys : Option (List Str)}
    {x : Ctx} {n : Str} (a : Acting x c n) :
    ∃ u, Map.lookup n x.w.users = some u ∧
      let acc := accepted (joinDecisions cfg c channels keys x n u) channels
      let y := processJoin cfg c channels keys x
      let new := joinQueue y.w n (C07.joinLine (x.conn c).source) acc
      (∀ ch m, C04.Member y.w ch m → m ≠ n →
        List.count (ownerOf y.w m, C07.joinLine (x.conn c).source ch) new = List.count ch acc) ∧
      (∀ o l, (o, l) ∈ new → ∃ ch, ch ∈ acc ∧ l = C07.joinLine (x.conn c).source ch ∧
        ∃ m, C04.Member y.w ch m ∧ m ≠ n ∧ ownerOf y.w m = o) ∧
      (∀ ch o, ch ∉ acc → (o, C07.joinLine (x.conn c).source ch) ∉ new) := by
  obtain ⟨u, hu, _⟩ := a.user
  refine ⟨u, hu, ?_⟩
  intro acc y new
  have hy : InvCore y.w := (invCore_processJoin a.inv a.live a.auth).1
  refine ⟨?_, ?_, ?_⟩
  · intro ch m hm hne
    exact count_joinQueue hy n _ (fun _ _ e => joinLine_inj _ e) ((mem_members_iff _ _ _).mpr hm) hne acc
  · intro o l hl
    obtain ⟨ch, h1, h2, m, hm, hne, ho⟩ := (mem_joinQueue_iff _ _ _ _ _ _).mp hl
    exact ⟨ch, h1, h2, m, (mem_members_iff _ _ _).mp hm, hne, ho⟩
  · intro ch o hch hl
    obtain ⟨ch', h1, h2, _⟩ := (mem_joinQueue_iff _ _ _ _ _ _).mp hl
    rw [joinLine_inj _ h2] at hch
    exact hch h1

/-- **The burst of an accepted channel, spelled out**: the joiner is written the JOIN line, the topic if
    one is set, and a NAMES reply whose 353 lines carry, 20 per line, one `(prefix, nick)` entry for
    EVERY member of the channel after the join (the joiner is a member, so invisible members are listed
    too), in member order, closed by 366.  (`hne`: member nicknames are non-empty, see the header.) -/
theorem join_announced_names {cfg : Cfg} {c : Nat} {channels : List Str} {keys : Option (List Str)}
    {x : Ctx} {n : Str} (a : Acting x c n) {u : User} (hu : Map.lookup n x.w.users = some u) {ch : Str}
    (hch : ch ∈ accepted (joinDecisions cfg c channels keys x n u) channels)
    (hne : ∀ m, C04.Member (processJoin cfg c channels keys x).w ch m → m ≠ []) :
    let y := processJoin cfg c channels keys x
    ∃ C, Map.lookup ch y.w.channels = some C ∧
      let es := C04.namesEntries y.w (some n) (x.conn c).multiPrefix C
      joinBurst cfg c y.w ch = C07.joinLine (x.conn c).source ch ::
        ((match C.topic with
          | some t => [srvLine cfg (RplTopic332 (x.conn c).clientName ch t.topic)]
          | none => []) ++ namesReply cfg (x.conn c).clientName C.modes.secret ch es) ∧
      es.map (·.2) = members y.w ch := by
  intro y
  obtain ⟨u', hu', _, _, hmem, _, _, hconn⟩ := join_announced (cfg := cfg) (channels := channels) (keys := keys) a
  rw [hu] at hu'; cases hu'
  have hm := hmem ch hch
  obtain ⟨C, hC, hc⟩ := (World.memOf_iff _ _ _).mp hm
  have hy : InvCore y.w := (invCore_processJoin a.inv a.live a.auth).1
  have hcn : (({ w := y.w } : Ctx).conn c) = x.conn c := hconn
  have hb := joinBurst_names (cfg := cfg) (c := c) hy hC (n := n) (by rw [hcn]; exact a.nick) hc
    (fun m hm' => hne m ((World.memOf_iff _ _ _).mpr ⟨C, hC, hm'⟩))
  rw [hcn] at hb
  exact ⟨C, hC, hb⟩

/-- **A JOIN none of whose channels is accepted announces nothing**: nothing is queued, the joiner gets
    only the error replies. -/
theorem join_refused_announces_nothing {cfg : Cfg} {c : Nat} {channels : List Str}
    {keys : Option (List Str)} {x : Ctx} {n : Str} (a : Acting x c n) {u : User}
    (hu : Map.lookup n x.w.users = some u)
    (hall : accepted (joinDecisions cfg c channels keys x n u) channels = []) :
    (processJoin cfg c channels keys x).queued = x.queued ∧
    (processJoin cfg c channels keys x).direct = x.direct ++
      (joinDecide cfg x.w (x.conn c) n u.invitedTo channels (joinKeyList keys)
        u.channels.length).2.1.map (srvLine cfg) := by
  obtain ⟨u', hu', hq, hd, _⟩ := join_announced (cfg := cfg) (channels := channels) (keys := keys) a
  rw [hu] at hu'; cases hu'
  rw [hq, hd, hall]
  simp [joinQueue]

/-- **JOIN, single existing channel, everything explicit.**  If `JOIN ch` of an existing channel is
    accepted (`C07`: key, ban, invite, limit, quota): the JOIN line is queued exactly once to every member
    the channel had before, in member order, and to nobody else; afterwards the member list is the old
    one followed by the joiner (this is the list the NAMES reply carries, `join_announced_names`). -/
theorem join_announced_single {cfg : Cfg} {c : Nat} {ch : Str} {keys : Option (List Str)} {x : Ctx}
    {n : Str} (a : Acting x c n) {C : Channel} (hC : Map.lookup ch x.w.channels = some C)
    (hch : ch ∈ acceptedOf cfg c [ch] keys x) :
    let y := processJoin cfg c [ch] keys x
    y.queued = x.queued ++
      (members x.w ch).map (fun m => (ownerOf x.w m, C07.joinLine (x.conn c).source ch)) ∧
    members y.w ch = members x.w ch ++ [n] ∧ ¬ C04.Member x.w ch n := by
  intro y
  obtain ⟨u, hu, hq, _, _, _, hown, _⟩ := join_announced (cfg := cfg) (channels := [ch]) (keys := keys) a
  rw [acceptedOf_eq a.nick hu] at hch
  obtain ⟨hacc, hnot, hmem⟩ := processJoin_single_members (cfg := cfg) (keys := keys) a.inv a.nick hu hC hch
  refine ⟨?_, hmem, fun hm => hnot ((mem_members_iff _ _ _).mpr hm)⟩
  rw [show y.queued = _ from hq, hacc]
  simp only [joinQueue, List.flatMap_cons, List.flatMap_nil, List.append_nil]
  rw [show members (processJoin cfg c [ch] keys x).w ch = _ from hmem, List.filter_append,
    C07.filter_ne_of_not_mem _ _ hnot]
  simp only [List.filter_cons, bne_self_eq_false, Bool.false_eq_true, ↓reduceIte, List.filter_nil,
    List.append_nil]
  congr 1
  apply List.map_congr_left
  intro m _
  rw [hown m]

/-! ## 3. KICK -/

/-- **KICK, the whole queue.**  With `kicked` the selected victims (`kickedOf`: the listed members the
    issuer may kick, each once, see `kick_victims`) and `y` the result: for every victim `v` in turn,
    its KICK line to the owner of every member remaining after ALL the kicks of this command, then to the
    owner of `v` itself.  (A KICK by somebody without the rank selects nobody and queues nothing.) -/
theorem kick_announced {cfg : Cfg} {c : Nat} {channel : Str} {kickUsers : List Str}
    {comment : Option Str} {x : Ctx} {n : Str} (a : Acting x c n) :
    let y := processKick cfg c channel kickUsers comment x
    y.queued = x.queued ++ kickQueue x.w y.w channel
      (fun v => kickLine (x.conn c).source channel v comment) (kickedOf x c channel kickUsers) :=
  processKick_queued a.inv a.nick

/-- the victims: exactly the listed legitimate victims (`Memb.KickVictim`: issuer half-operator or
    above, victim a member that is not founder/protected, and below half-operator if the issuer is a mere
    half-operator), each once; they are the members that lose membership (`C04.kick_removes_exactly`). -/
theorem kick_victims {c : Nat} {channel : Str} {kickUsers : List Str} {x : Ctx} {n : Str}
    (a : Acting x c n) :
    (∀ v, v ∈ kickedOf x c channel kickUsers ↔ v ∈ kickUsers ∧ KickVictim x.w channel n v) ∧
    (kickedOf x c channel kickUsers).Nodup :=
  ⟨fun v => mem_kickedOf_iff a.nick channel kickUsers v, kickedOf_nodup x c channel kickUsers⟩

/-- **every KICK line reaches every remaining member and its own victim** -/
theorem kick_announced_to_remaining_and_victim {cfg : Cfg} {c : Nat} {channel : Str}
    {kickUsers : List Str} {comment : Option Str} {x : Ctx} {n : Str} (a : Acting x c n) {v : Str}
    (hv : v ∈ kickedOf x c channel kickUsers) :
    let y := processKick cfg c channel kickUsers comment x
    (ownerOf x.w v, kickLine (x.conn c).source channel v comment) ∈ y.queued ∧
    (∀ m, C04.Member y.w channel m →
      (ownerOf x.w m, kickLine (x.conn c).source channel v comment) ∈ y.queued) ∧
    ¬ C04.Member y.w channel v := by
  intro y
  have hq := kick_announced (cfg := cfg) (channel := channel) (kickUsers := kickUsers) (comment := comment) a
  refine ⟨?_, ?_, ?_⟩
  · rw [show y.queued = _ from hq]
    exact List.mem_append_right _ ((mem_kickQueue_iff _ _ _ _ _ _ _).mpr ⟨v, hv, rfl, v, Or.inr rfl, rfl⟩)
  · intro m hm
    rw [show y.queued = _ from hq]
    exact List.mem_append_right _ ((mem_kickQueue_iff _ _ _ _ _ _ _).mpr
      ⟨v, hv, rfl, m, Or.inl ((mem_members_iff _ _ _).mpr hm), rfl⟩)
  · obtain ⟨n', hn', e⟩ := C04.kick_removes_exactly (cfg := cfg) (channel := channel)
      (kickUsers := kickUsers) (comment := comment) a.inv a.live a.auth
    rw [a.nick] at hn'; cases hn'
    intro hm
    have := (e channel v).mp hm
    exact this.2 ⟨rfl, (mem_kickedOf_iff a.nick channel kickUsers v).mp hv⟩

/-- **Finding: a victim does not see the other victims' KICK lines.**  All selected victims are removed
    before the first line is sent, and each line goes to the members remaining at the end plus its own
    victim.  So with two different victims `v₁`, `v₂` in one KICK, `v₂`'s line is NOT sent to `v₁`
    (whose picture of the channel therefore still contains `v₂` — it has left the channel, so the roster
    property is not affected), whereas every remaining member is sent the lines of all victims
    (`kick_announced_to_remaining_and_victim`). -/
theorem kick_multi_not_seen_by_other_victims {cfg : Cfg} {c : Nat} {channel : Str}
    {kickUsers : List Str} {comment : Option Str} {x : Ctx} {n : Str} (a : Acting x c n) {v₁ v₂ : Str}
    (h1 : v₁ ∈ kickedOf x c channel kickUsers) (h2 : v₂ ∈ kickedOf x c channel kickUsers)
    (hne : v₁ ≠ v₂) :
    let y := processKick cfg c channel kickUsers comment x
    (ownerOf x.w v₁, kickLine (x.conn c).source channel v₂ comment) ∉
      kickQueue x.w y.w channel (fun v => kickLine (x.conn c).source channel v comment)
        (kickedOf x c channel kickUsers) := by
  intro y hmem
  obtain ⟨v, _, hl, m, hm, ho⟩ := (mem_kickQueue_iff _ _ _ _ _ _ _).mp hmem
  have hv : v₂ = v := kickLine_inj _ _ _ hl
  subst hv
  -- `m` and `v₁` are users of the old world with the same owner
  have hmemb : ∀ k, k ∈ kickedOf x c channel kickUsers → C04.Member x.w channel k := by
    intro k hk
    obtain ⟨_, C, _, cm, hC, _, _, hcm, _⟩ := (mem_kickedOf_iff a.nick channel kickUsers k).mp hk
    exact (World.memOf_iff _ _ _).mpr ⟨C, hC, Map.contains_of_lookup hcm⟩
  obtain ⟨n', hn', e⟩ := C04.kick_removes_exactly (cfg := cfg) (channel := channel)
    (kickUsers := kickUsers) (comment := comment) a.inv a.live a.auth
  rw [a.nick] at hn'; cases hn'
  have hM := InvCore.memInv a.inv
  have hm_user : Map.contains m x.w.users = true := by
    rcases hm with hm | rfl
    · exact hM.memberIsUser channel m ((e channel m).mp ((mem_members_iff _ _ _).mp hm)).1
    · exact hM.memberIsUser channel _ (hmemb _ h2)
  have hv1_user : Map.contains v₁ x.w.users = true := hM.memberIsUser channel _ (hmemb _ h1)
  have hmv : m = v₁ := ownerOf_inj a.inv hm_user hv1_user ho
  subst hmv
  rcases hm with hm | hm
  · exact ((e channel m).mp ((mem_members_iff _ _ _).mp hm)).2
      ⟨rfl, (mem_kickedOf_iff a.nick channel kickUsers m).mp h1⟩
  · exact hne hm

/-! ## 4. NICK -/

/-- **NICK is announced to the user itself and to everyone sharing a channel with it** (in fact to
    every user of the server): for an accepted NICK `old → new` of the registered connection `c` the
    line `msg.render <old source>` (`= :<old source> NICK <new>` for a canonical message,
    `nick_line_canonical`) is queued
    * to the connection `c` of the renamed user itself,
    * to the owner of every member `m ≠ old` of every channel `old` is on,
    and to nobody twice: the new part of the queue has one entry per user of the new world. -/
theorem nick_announced_to_channel_peers {cfg : Cfg} {c : Nat} {new : Str} {msg : Message} {x : Ctx}
    {old : Str} (a : Acting x c old) (hne : new ≠ old) (hfree : Map.contains new x.w.users = false) :
    let y := processNick cfg c new msg x
    let line := msg.render (x.conn c).source
    y.queued = x.queued ++ (Map.keys y.w.users).map (fun m => (ownerOf y.w m, line)) ∧
    (Map.keys y.w.users).Nodup ∧
    (c, line) ∈ y.queued ∧
    (∀ ch m, C04.Member x.w ch old → C04.Member x.w ch m → m ≠ old →
      (ownerOf x.w m, line) ∈ y.queued) ∧
    y.direct = x.direct := by
  intro y line
  obtain ⟨u, hu, ho⟩ := a.user
  obtain ⟨hq, hd⟩ := processNick_queued (cfg := cfg) (msg := msg) a.auth a.nick hne hfree hu
  have hrec := processNick_recipients (cfg := cfg) (msg := msg) a.inv a.auth a.nick hne hfree hu
  have hy : InvCore y.w := (invCore_processNick a.inv a.live).1
  refine ⟨hq, hy.usersNodup, ?_, ?_, hd⟩
  · rw [show y.queued = _ from hq]
    apply List.mem_append_right
    apply List.mem_map.mpr
    refine ⟨new, ((hrec new).1).mpr (Or.inl rfl), ?_⟩
    rw [(hrec new).2.1, a.owner]
  · intro ch m _ hm hmo
    have hmu : Map.contains m x.w.users = true := (InvCore.memInv a.inv).memberIsUser ch m hm
    have hmn : m ≠ new := fun e => by rw [e, hfree] at hmu; cases hmu
    rw [show y.queued = _ from hq]
    apply List.mem_append_right
    apply List.mem_map.mpr
    refine ⟨m, ((hrec m).1).mpr (Or.inr ⟨hmo, Map.mem_keys_of_contains hmu⟩), ?_⟩
    rw [(hrec m).2.2 hmo hmn]

/-- a registered NICK that is refused (nickname in use) or asks for the own nickname announces nothing -/
theorem nick_refused_announces_nothing {cfg : Cfg} {c : Nat} {new : Str} {msg : Message} {x : Ctx}
    {old : Str} (a : Acting x c old) (hno : new = old ∨ Map.contains new x.w.users = true) :
    (processNick cfg c new msg x).queued = x.queued ∧ (processNick cfg c new msg x).w = x.w :=
  processNick_noop_queued a.auth a.nick hno

/-! ## 5. the roster theorem

  The client side (`C04AnnounceLemmas`, section 5): `Ann` = what a client learns (NAMES reply, JOIN,
  PART, KICK, NICK line), `applyAnn ch` = how a client following channel `ch` updates its roster,
  `MCmd` = the four membership-changing commands, `MCmd.queuedAnns` / `MCmd.directAnns` = the structured
  announcements a command pushes into queues / writes to the acting connection, `MCmd.deliveredTo .. o` =
  what connection `o` is told.  These are tied to the actual output by `announcements_are_rendered`. -/

/-- **The lines the handlers emit ARE the renderings of the structured announcements.**
    Queue: entry by entry, `(recipient, render announcement)` (`MCmd.line`: `Ann.render` with the acting
    connection's source, PART reason and KICK comment; for NICK the received message re-rendered, which
    is `Ann.render` for a canonical message, `nick_line_canonical`).  Socket of a JOINing connection:
    per accepted channel the rendered JOIN line, the topic, and the NAMES reply carrying exactly the
    nicknames of the `Ann.names` announcement (`join_announced`, `join_announced_names`). -/
theorem announcements_are_rendered {cfg : Cfg} {c : Nat} (cmd : MCmd) {x : Ctx} {n : Str}
    (a : Acting x c n) :
    (cmd.run cfg c x).queued = x.queued ++
      (cmd.queuedAnns cfg c x).map (fun p => (p.1, cmd.line (x.conn c).source p.2)) :=
  queued_eq_rendered cmd a.inv a.live a.auth a.nick

theorem line_is_render (src : Str) (n new : Str) (chs us : List Str) (keys : Option (List Str))
    (reason comment : Option Str) (ch v : Str) :
    (MCmd.join chs keys).line src (Ann.join ch n) = C07.joinLine src ch ∧
    (MCmd.part chs reason).line src (Ann.part ch n) = partLine src ch reason ∧
    (MCmd.kick ch us comment).line src (Ann.kick ch v) = kickLine src ch v comment ∧
    (∀ msg : Message, msg.command = str "NICK" → msg.params = [new] →
      (new.any (fun ch => ch == ':' || ch == ' ' || ch == '\t') || new.isEmpty) = false →
      (MCmd.nick new msg).line src (Ann.nick n new) = nickLine src new) :=
  ⟨rfl, rfl, rfl, fun msg h1 h2 h3 => nick_line_canonical msg src new h1 h2 h3⟩

/-- **ROSTER STEP.**  Let the user of connection `o` be on `ch` before and after one JOIN / PART / KICK /
    NICK command issued on any connection `c` (possibly `o` itself; a NICK may rename `o`'s own user).
    If `o`'s roster of `ch` is, as a set, the member set before the command, then after applying the
    announcements the command delivers to `o` it is the member set after the command.
    (Any number of channels, victims; a channel listed twice; refused commands.) -/
theorem roster_step {cfg : Cfg} {c : Nat} {x : Ctx} {n : Str} (a : Acting x c n) (cmd : MCmd) (ch : Str)
    (o : Nat) (roster : List Str) (hbefore : OnChannel x.w ch o)
    (hafter : OnChannel (cmd.run cfg c x).w ch o) (hr : ∀ k, k ∈ roster ↔ C04.Member x.w ch k) (k : Str) :
    k ∈ applyAnns ch roster (cmd.deliveredTo cfg c x o) ↔ C04.Member (cmd.run cfg c x).w ch k := by
  cases cmd with
  | join chs keys => exact roster_join a.inv a.live a.auth a.nick ch o roster hbefore hr k
  | part chs reason => exact roster_part a.inv a.live a.auth a.nick ch o roster hbefore hr k
  | kick chn us comment => exact roster_kick a.inv a.live a.auth a.nick ch o roster hafter hr k
  | nick new msg => exact roster_nick a.inv a.live a.auth a.nick ch o roster hafter hr k

/-- **ROSTER ON JOIN.**  Right after its own accepted JOIN of `ch` — whatever it believed before — the
    client's roster is exactly the member list of `ch`: the burst it is sent consists of its JOIN line and
    the NAMES reply, and the nicknames carried by the 353 lines are that list (`join_announced_names`). -/
theorem roster_on_join {cfg : Cfg} {c : Nat} {chs : List Str} {keys : Option (List Str)} {x : Ctx}
    {n : Str} (a : Acting x c n) {ch : Str} (hch : ch ∈ acceptedOf cfg c chs keys x) (r : List Str) :
    applyAnns ch r ((MCmd.join chs keys).deliveredTo cfg c x c) =
      members (processJoin cfg c chs keys x).w ch ∧
    OnChannel (processJoin cfg c chs keys x).w ch c := by
  refine ⟨roster_own_join a.inv a.live a.auth a.nick hch r, ?_⟩
  obtain ⟨u, hu, ho⟩ := a.user
  obtain ⟨_, f1, e1, _, _⟩ := processJoin_closed (cfg := cfg) (channels := chs) (keys := keys) a.inv a.nick hu
  refine ⟨n, Obs.of_frame f1 ⟨u, hu, ho⟩, ?_⟩
  show (processJoin cfg c chs keys x).w.memOf ch n = true
  rw [acceptedOf_eq a.nick hu] at hch
  rw [e1, (mem_accepted_iff _ _ _).mp hch]; simp

/-- **ROSTER INVARIANT.**  Along any sequence of JOIN / PART / KICK / NICK commands by anybody during
    which `o`'s user stays on `ch`: a roster that is right (as a set) at the beginning is right at the
    end, when the client applies every announcement it is delivered. -/
theorem roster_invariant {cfg : Cfg} {ch : Str} {o : Nat} :
    ∀ (cmds : List (Nat × MCmd)) (x : Ctx) (roster : List Str), InvCore x.w → Follows cfg ch o cmds x →
      (∀ k, k ∈ roster ↔ C04.Member x.w ch k) →
      ∀ k, k ∈ applyAnns ch roster (deliveredAlong cfg o cmds x) ↔
        C04.Member (runCmds cfg cmds x).w ch k := by
  intro cmds
  induction cmds with
  | nil => intro x roster _ _ hr k; exact hr k
  | cons p rest ih =>
    intro x roster h hf hr k
    obtain ⟨c, cmd⟩ := p
    obtain ⟨hon, hl, ha, hrest⟩ := hf
    obtain ⟨n, u, hact, _, _⟩ := acting_of_auth h hl ha
    simp only [deliveredAlong, runCmds, applyAnns_append]
    exact ih (cmd.run cfg c x) _ (invCore_run cmd h hl ha) hrest
      (roster_step hact cmd ch o roster hon hrest.head hr) k

/-- **NAMES on joining plus the announcements since reconstruct the roster.**  Connection `c` joins
    `ch` (accepted) and stays on it while any JOIN / PART / KICK / NICK commands follow: whatever the
    client believed before its JOIN, at the end its roster is the member set of `ch`. -/
theorem roster_from_own_join {cfg : Cfg} {c : Nat} {chs : List Str} {keys : Option (List Str)} {x : Ctx}
    {n : Str} (a : Acting x c n) {ch : Str} (hch : ch ∈ acceptedOf cfg c chs keys x)
    (cmds : List (Nat × MCmd)) (hf : Follows cfg ch c cmds (processJoin cfg c chs keys x))
    (r0 : List Str) (k : Str) :
    k ∈ applyAnns ch r0 (deliveredAlong cfg c ((c, MCmd.join chs keys) :: cmds) x) ↔
      C04.Member (runCmds cfg ((c, MCmd.join chs keys) :: cmds) x).w ch k := by
  simp only [deliveredAlong, runCmds, applyAnns_append]
  rw [(roster_on_join a hch r0).1]
  exact roster_invariant cmds _ _ (invCore_run (MCmd.join chs keys) a.inv a.live a.auth) hf
    (fun k => mem_members_iff _ _ _) k

/-! ## 6. kernel-checked instances (`Ex.w3`: `#c` = al (founder, connection 1), bo (2), cy (3); `Ex.w2`:
    the same before cy joined).  They also show that the hypotheses of the theorems are satisfiable and
    the conclusions non-trivial. -/

namespace Ex

theorem acting_w3 (c : Nat) (n : Str) (hc : c = 1 ∨ c = 2 ∨ c = 3)
    (ha : ((ctx w3).conn c).authenticated = true) (hn : ((ctx w3).conn c).nick = some n) :
    Acting (ctx w3) c n := ⟨inv_w3.1, live_w3 c hc, ha, hn⟩

example : Acting (ctx w3) 1 al := acting_w3 1 al (by simp) (by decide) (by decide)
example : Acting (ctx w3) 2 bo := acting_w3 2 bo (by simp) (by decide) (by decide)
example : members w3 hc = [al, bo, cy] ∧ ownerOf w3 al = 1 ∧ ownerOf w3 bo = 2 ∧ ownerOf w3 cy = 3 := by
  decide

-- a PART with reason is seen by all three, the parting user included; a second listing of the channel
-- and an unknown channel are answered with 442 / 403 and announce nothing
example : (processPart cfg0 2 [hc, str "#x", hc] (some (str "bye now")) (ctx w3)).queued =
    [(1, str ":bo!~u@h PART #c :bye now"), (2, str ":bo!~u@h PART #c :bye now"),
     (3, str ":bo!~u@h PART #c :bye now")] := by decide
example : (processPart cfg0 2 [hc, str "#x", hc] (some (str "bye now")) (ctx w3)).direct =
    [(str ":irc.irc " ++ Reply.ErrNoSuchChannel403 (client := str "bo") (channel := str "#x")), (str ":irc.irc " ++ Reply.ErrNotOnChannel442 (client := str "bo") (channel := str "#c"))] := by
  decide
example : partQueue w3 bo (fun ch => partLine (str "bo!~u@h") ch (some (str "bye now"))) []
      [hc, str "#x", hc] =
    [(1, str ":bo!~u@h PART #c :bye now"), (2, str ":bo!~u@h PART #c :bye now"),
     (3, str ":bo!~u@h PART #c :bye now")] ∧
    partReplies w3 bo (str "bo") [] [hc, str "#x", hc] =
      [(Reply.ErrNoSuchChannel403 (client := str "bo") (channel := str "#x")), (Reply.ErrNotOnChannel442 (client := str "bo") (channel := str "#c"))] := by decide
-- the last member leaves an ad-hoc channel and lists it again: the channel is gone, 403
example : (processPart cfg0 1 [hc, hc] none (ctx w1)).direct = [(str ":irc.irc " ++ Reply.ErrNoSuchChannel403 (client := str "al") (channel := str "#c"))] ∧
    (processPart cfg0 1 [hc, hc] none (ctx w1)).queued = [(1, str ":al!~u@h PART #c")] := by decide
-- not on the channel: nothing is queued
example : (processPart cfg0 3 [hc] none (ctx w2)).queued = [] ∧
    (processPart cfg0 3 [hc] none (ctx w2)).direct =
      [(str ":irc.irc " ++ Reply.ErrNotOnChannel442 (client := str "cy") (channel := str "#c"))] := by decide

-- JOIN: the line goes to the two other members through their queues, to the joiner through its socket,
-- followed by the NAMES reply listing all three
example : (processJoin cfg0 3 [hc] none (ctx w2)).queued =
    [(1, str ":cy!~u@h JOIN #c"), (2, str ":cy!~u@h JOIN #c")] ∧
    (processJoin cfg0 3 [hc] none (ctx w2)).direct =
      [str ":cy!~u@h JOIN #c", str ":irc.irc 353 cy = #c :~al bo cy",
       (str ":irc.irc " ++ Reply.RplEndOfNames366 (client := str "cy") (channel := str "#c"))] := by decide
example : acceptedOf cfg0 3 [hc] none (ctx w2) = [hc] ∧ acceptedOf cfg0 3 [hc] none (ctx w3) = [] := by decide
-- a refused JOIN (already a member) announces nothing
example : (processJoin cfg0 3 [hc] none (ctx w3)).queued = [] ∧
    (processJoin cfg0 3 [hc] none (ctx w3)).direct = [] := by decide

-- a two-victim KICK by the founder: al (remaining) is sent both lines, each victim only its own
example : kickedOf (ctx w3) 1 hc [bo, cy] = [bo, cy] := by decide
example : (processKick cfg0 1 hc [bo, cy] none (ctx w3)).queued =
    [(1, str ":al!~u@h KICK #c bo :Kicked"), (2, str ":al!~u@h KICK #c bo :Kicked"),
     (1, str ":al!~u@h KICK #c cy :Kicked"), (3, str ":al!~u@h KICK #c cy :Kicked")] := by decide
-- the finding `kick_multi_not_seen_by_other_victims`, seen from the clients: the remaining member
-- reconstructs the right roster, the victim bo still believes cy to be on the channel
example : (MCmd.kick hc [bo, cy] none).deliveredTo cfg0 1 (ctx w3) 1 = [.kick hc bo, .kick hc cy] ∧
    (MCmd.kick hc [bo, cy] none).deliveredTo cfg0 1 (ctx w3) 2 = [.kick hc bo] ∧
    applyAnns hc [al, bo, cy] ((MCmd.kick hc [bo, cy] none).deliveredTo cfg0 1 (ctx w3) 1) = [al] ∧
    applyAnns hc [al, bo, cy] ((MCmd.kick hc [bo, cy] none).deliveredTo cfg0 1 (ctx w3) 2) = [al, cy] ∧
    members (processKick cfg0 1 hc [bo, cy] none (ctx w3)).w hc = [al] := by decide
-- somebody without rank kicks: nobody selected, nothing queued
example : kickedOf (ctx w3) 2 hc [cy] = [] ∧ (processKick cfg0 2 hc [cy] none (ctx w3)).queued = [] := by
  decide

-- a NICK change is seen by the channel peers and by the user itself
def nickMsg : Message := ⟨none, str "NICK", [str "bobby"]⟩
example : (processNick cfg0 2 (str "bobby") nickMsg (ctx w3)).queued =
    [(1, str ":bo!~u@h NICK bobby"), (3, str ":bo!~u@h NICK bobby"), (2, str ":bo!~u@h NICK bobby")] := by
  decide
example : nickMsg.render (str "bo!~u@h") = nickLine (str "bo!~u@h") (str "bobby") := by decide
-- the line is the received message re-rendered: lower-case command word and extra parameters survive
example : (processNick cfg0 2 (str "bobby") ⟨none, str "nick", [str "bobby", str "x"]⟩ (ctx w3)).queued =
    [(1, str ":bo!~u@h nick bobby x"), (3, str ":bo!~u@h nick bobby x"),
     (2, str ":bo!~u@h nick bobby x")] := by decide
example : (processNick cfg0 2 al nickMsg (ctx w3)).queued = [] := by decide

-- the roster: cy joins (NAMES gives all three), bo renames itself, al kicks cy, bobby parts; al (who
-- was there before) and its reconstruction agree at the end
def script : List (Nat × MCmd) :=
  [(3, .join [hc] none), (2, .nick (str "bobby") nickMsg), (1, .kick hc [cy] none), (2, .part [hc] none)]
example : deliveredAlong cfg0 1 script (ctx w2) =
    [.join hc cy, .nick bo (str "bobby"), .kick hc cy, .part hc (str "bobby")] := by decide
example : applyAnns hc [al, bo] (deliveredAlong cfg0 1 script (ctx w2)) = [al] ∧
    members (runCmds cfg0 script (ctx w2)).w hc = [al] := by decide
-- right after its own JOIN cy's roster is the NAMES reply, whatever it was before
example : (MCmd.join [hc] none).deliveredTo cfg0 3 (ctx w2) 3 = [.join hc cy, .names hc [al, bo, cy]] ∧
    applyAnns hc [str "junk"] ((MCmd.join [hc] none).deliveredTo cfg0 3 (ctx w2) 3) = [al, bo, cy] := by
  decide
-- the hypotheses of `roster_invariant` (al watches the first three commands of the script) and of
-- `roster_from_own_join` (cy joins, then the NICK follows) hold
theorem follows_ex : Follows cfg0 hc 1 (script.take 3) (ctx w2) :=
  ⟨onChannel_of (m := al) (by decide) (by decide), live_of (by decide), by decide,
   onChannel_of (m := al) (by decide) (by decide), live_of (by decide), by decide,
   onChannel_of (m := al) (by decide) (by decide), live_of (by decide), by decide,
   onChannel_of (m := al) (by decide) (by decide)⟩
example : Acting (ctx w2) 3 cy ∧ hc ∈ acceptedOf cfg0 3 [hc] none (ctx w2) ∧
    Follows cfg0 hc 3 [(2, .nick (str "bobby") nickMsg)] (processJoin cfg0 3 [hc] none (ctx w2)) :=
  ⟨⟨inv_w2.1, Live.of_same inv_w2.2 (Live.of_same inv_w1.2 (live_w0 3 (by simp))), by decide, by decide⟩,
   by decide,
   onChannel_of (m := cy) (by decide) (by decide), live_of (by decide), by decide,
   onChannel_of (m := cy) (by decide) (by decide)⟩

-- the theorems applied to the example world
example := part_announced_to_all_once (channels := [hc, hc]) (reason := some (str "bye"))
  (acting_w3 2 bo (by simp) (by decide) (by decide)) (ch := hc) (by simp) (by decide)
example := kick_multi_not_seen_by_other_victims (cfg := cfg0) (channel := hc) (kickUsers := [bo, cy])
  (comment := none) (acting_w3 1 al (by simp) (by decide) (by decide)) (v₁ := bo) (v₂ := cy)
  (by decide) (by decide) (by decide)
example := nick_announced_to_channel_peers (cfg := cfg0) (new := str "bobby") (msg := nickMsg)
  (acting_w3 2 bo (by simp) (by decide) (by decide)) (by decide) (by decide)
example (k : Str) : k ∈ applyAnns hc [al, bo] (deliveredAlong cfg0 1 (script.take 3) (ctx w2)) ↔
    C04.Member (runCmds cfg0 (script.take 3) (ctx w2)).w hc k :=
  roster_invariant (script.take 3) (ctx w2) [al, bo] inv_w2.1 follows_ex
    (fun k => by
      rw [← mem_members_iff_member]
      exact (by decide : members (ctx w2).w hc = [al, bo]) ▸ Iff.rfl) k

end Ex

end Irc.C04A
