/-
  Counter-frame lemmas for C18, part 3: the handlers of `Irc/HRest.lean`.

  (For the record of a foreign connection KILL / DIE / SQUIT needed the hypothesis `NoOwn`; for the
  counters they are ordinary handlers: `fireKill` does not touch `cmdCounts`.)
-/
import Irc.Props.C18CountersLemmas2

namespace Irc.C18C
open Irc Irc.Conc

section
variable {cfg : Cfg} {i : Nat} {d : Nat} {x : Ctx}

/-- a fold whose state is a context and one more component -/
@[bc_push] theorem bc_foldl_pair {α β : Type} (f : Ctx × β → α → Ctx × β)
    (hf : ∀ y b a, f (y.bc i, b) a = ((f (y, b) a).1.bc i, (f (y, b) a).2)) (l : List α) (b : β) :
    l.foldl f (x.bc i, b) = ((l.foldl f (x, b)).1.bc i, (l.foldl f (x, b)).2) := by
  induction l generalizing x b with
  | nil => rfl
  | cons a l ih => simp only [List.foldl_cons, hf, ih]

@[bc_push] theorem privmsgTarget_bc (nick : Str) (notice : Bool) (text target : Str) :
    privmsgTarget cfg d nick notice text target (x.bc i) =
      ((privmsgTarget cfg d nick notice text target x).1.bc i,
       (privmsgTarget cfg d nick notice text target x).2) := by
  unfold privmsgTarget
  bcf

@[bc_push] theorem processPrivmsgNotice_bc (ts : List Str) (t : Str) (notice : Bool) :
    processPrivmsgNotice cfg d ts t notice (x.bc i) =
      (processPrivmsgNotice cfg d ts t notice x).bc i := by
  unfold processPrivmsgNotice
  bcf

@[bc_push] theorem sendWhoInfo_bc (cn' : Conn) (chn : Option (Str × ChanUserModes)) (n : Str)
    (u cu : User) :
    sendWhoInfo cfg cn' chn n u cu (x.bc i) = (sendWhoInfo cfg cn' chn n u cu x).bc i := by
  unfold sendWhoInfo
  bcf

@[bc_push] theorem processWho_bc (mask : Str) :
    processWho cfg d mask (x.bc i) = (processWho cfg d mask x).bc i := by
  unfold processWho
  bcf

@[bc_push] theorem whoisOne_bc (cn' : Conn) (u : User) (n : Str) :
    whoisOne cfg cn' u n (x.bc i) = (whoisOne cfg cn' u n x).bc i := by
  unfold whoisOne
  bcf

@[bc_push] theorem processWhois_bc (t : Option Str) (ns : List Str) :
    processWhois cfg d t ns (x.bc i) = (processWhois cfg d t ns x).bc i := by
  unfold processWhois
  bcf

@[bc_push] theorem processWhowas_bc (n : Str) (cnt : Option Nat) (srv : Option Str) :
    processWhowas cfg d n cnt srv (x.bc i) = (processWhowas cfg d n cnt srv x).bc i := by
  unfold processWhowas
  bcf

@[bc_push] theorem processAway_bc (t : Option Str) :
    processAway cfg d t (x.bc i) = (processAway cfg d t x).bc i := by
  unfold processAway
  bcf

@[bc_push] theorem processUserhost_bc (ns : List Str) :
    processUserhost cfg d ns (x.bc i) = (processUserhost cfg d ns x).bc i := by
  unfold processUserhost
  bcf

@[bc_push] theorem processWallops_bc (msg : Message) :
    processWallops cfg d msg (x.bc i) = (processWallops cfg d msg x).bc i := by
  unfold processWallops
  bcf

@[bc_push] theorem processIson_bc (ns : List Str) :
    processIson cfg d ns (x.bc i) = (processIson cfg d ns x).bc i := by
  unfold processIson
  bcf

/-! KILL / DIE / SQUIT -/

@[bc_push] theorem fireKill_bcW (k cm n : Str) (w : World) :
    fireKill k cm n (w.bcW i) = (fireKill k cm n w).bcW i := by
  unfold fireKill
  bcf

@[bc_push] theorem processKill_bc (n cm : Str) :
    processKill cfg d n cm (x.bc i) = (processKill cfg d n cm x).bc i := by
  unfold processKill
  bcf

@[bc_push] theorem processDie_bc (m : Option Str) :
    processDie cfg d m (x.bc i) = (processDie cfg d m x).bc i := by
  unfold processDie
  bcf

@[bc_push] theorem processSquit_bc (srv cm : Str) :
    processSquit cfg d srv cm (x.bc i) = (processSquit cfg d srv cm x).bc i := by
  unfold processSquit
  bcf

end

end Irc.C18C
