/-
  Helper lemmas for property C12 (secret channels / invisible users are hidden from
  outsiders).  The final theorems are in `Irc/Props/C12.lean`.

  Method: a simulation relation `Sim` between a context `x` running in the real world and a
  context `y` running in the world with the hidden part removed.  The query handlers change
  the world only by `panic` (which leaves users / channels / connections alone), so the
  relation "x sees (U, Ch, K), y sees (U', Ch', K), both have produced the same replies" is
  preserved by every step, provided the step produces the same reply lines on both sides.
-/
import Irc.Inv
import Irc.InvCheck
import Irc.Lemmas.Map
import Irc.Lemmas.Frame

namespace Irc.C12
open Irc Irc.Reply

/-! ## the simulation relation -/

structure Sim (U U' : Map User) (Ch Ch' : Map Channel) (K : List Conn) (x y : Ctx) : Prop where
  xu : x.w.users = U
  xc : x.w.channels = Ch
  xk : x.w.conns = K
  yu : y.w.users = U'
  yc : y.w.channels = Ch'
  yk : y.w.conns = K
  direct : x.direct = y.direct

/-- the connection record the handlers of connection `c` read -/
def connOf (K : List Conn) (c : Nat) : Conn := (K.find? (·.id == c)).getD (Conn.new c [])

/-- `inChannel` as the handlers compute it -/
def inChan (cn : Conn) (members : Map ChanUserModes) : Bool :=
  match cn.nick with
  | some n => Map.contains n members
  | none => false

theorem inChan_false_of_outside (cn : Conn) (members : Map ChanUserModes)
    (hout : ∀ n, cn.nick = some n → Map.contains n members = false) : inChan cn members = false := by
  unfold inChan
  split
  · rename_i n hn; exact hout n hn
  · rfl

section sim
variable {U U' : Map User} {Ch Ch' : Map Channel} {K : List Conn} {x y : Ctx}

theorem Sim.reply (h : Sim U U' Ch Ch' K x y) (cfg : Cfg) (t : Str) :
    Sim U U' Ch Ch' K (x.reply cfg t) (y.reply cfg t) := by
  constructor <;> simp [h.xu, h.xc, h.xk, h.yu, h.yc, h.yk, h.direct]

theorem Sim.panicL (h : Sim U U' Ch Ch' K x y) (s : String) :
    Sim U U' Ch Ch' K (x.panic s) y := by
  constructor <;> simp [h.xu, h.xc, h.xk, h.yu, h.yc, h.yk, h.direct]

theorem Sim.panicR (h : Sim U U' Ch Ch' K x y) (s : String) :
    Sim U U' Ch Ch' K x (y.panic s) := by
  constructor <;> simp [h.xu, h.xc, h.xk, h.yu, h.yc, h.yk, h.direct]

theorem Sim.panic (h : Sim U U' Ch Ch' K x y) (s s' : String) :
    Sim U U' Ch Ch' K (x.panic s) (y.panic s') := (h.panicL s).panicR s'

/-- panics may happen on one side only: they do not show in the replies -/
theorem Sim.itePanic (h : Sim U U' Ch Ch' K x y) (b b' : Bool) (s s' : String) :
    Sim U U' Ch Ch' K (if b then x.panic s else x) (if b' then y.panic s' else y) := by
  cases b <;> cases b' <;> simp [h, h.panicL, h.panicR, h.panic]

theorem Sim.iteReply (h : Sim U U' Ch Ch' K x y) (b : Bool) (cfg : Cfg) (t : Str) :
    Sim U U' Ch Ch' K (if b then x.reply cfg t else x) (if b then y.reply cfg t else y) := by
  cases b <;> simp [h, h.reply]

theorem Sim.foldlReply {β : Type} (cfg : Cfg) (g : β → Str) (l : List β)
    (h : Sim U U' Ch Ch' K x y) :
    Sim U U' Ch Ch' K (l.foldl (fun x t => x.reply cfg (g t)) x)
      (l.foldl (fun x t => x.reply cfg (g t)) y) := by
  induction l generalizing x y with
  | nil => exact h
  | cons a l ih => exact ih (h.reply cfg (g a))

theorem Sim.conn (h : Sim U U' Ch Ch' K x y) (c : Nat) : y.conn c = x.conn c := by
  simp [Ctx.conn, World.conn?, h.xk, h.yk]

theorem Sim.connX (h : Sim U U' Ch Ch' K x y) (c : Nat) : x.conn c = connOf K c := by
  simp [Ctx.conn, World.conn?, h.xk, connOf]

theorem Sim.connY (h : Sim U U' Ch Ch' K x y) (c : Nat) : y.conn c = connOf K c := by
  simp [Ctx.conn, World.conn?, h.yk, connOf]

theorem Sim.init (w w' : World) (hk : w'.conns = w.conns) :
    Sim w.users w'.users w.channels w'.channels w.conns { w := w } { w := w' } :=
  ⟨rfl, rfl, rfl, rfl, rfl, hk, rfl⟩

end sim

/-! ## association lists with unique keys -/

theorem entry_of_lookup_nodup {α : Type} (k : Str) (v : α) (m : Map α)
    (hn : (Map.keys m).Nodup) (hl : Map.lookup k m = some v) :
    ∀ p ∈ m, p.1 = k → p.2 = v := by
  induction m with
  | nil => simp
  | cons q m ih =>
    obtain ⟨k', v'⟩ := q
    simp only [Map.keys, List.map_cons, List.nodup_cons] at hn
    intro p hp hk
    simp only [Map.lookup] at hl
    rcases List.mem_cons.mp hp with rfl | hp'
    · simp only at hk
      simp [hk] at hl
      exact hl
    · by_cases hkk : k' = k
      · subst hkk
        exact absurd (List.mem_map.mpr ⟨p, hp', hk⟩) hn.1
      · simp only [hkk, ↓reduceIte] at hl
        exact ih hn.2 hl p hp' hk

/-! ## hiding a channel: the users' channel sets -/

/-- `X` removed from every user's channel set -/
def stripChanUser (X : Str) (u : User) : User := { u with channels := KSet.erase X u.channels }

def stripChan (X : Str) (us : Map User) : Map User := us.map (fun p => (p.1, stripChanUser X p.2))

theorem lookup_stripChan (X k : Str) (us : Map User) :
    Map.lookup k (stripChan X us) = (Map.lookup k us).map (stripChanUser X) := by
  induction us with
  | nil => rfl
  | cons p us ih =>
    obtain ⟨k', v⟩ := p
    simp only [stripChan, List.map_cons, Map.lookup]
    split
    · rfl
    · exact ih

theorem contains_stripChan (X k : Str) (us : Map User) :
    Map.contains k (stripChan X us) = Map.contains k us := by
  simp [Map.contains, lookup_stripChan]

theorem keys_stripChan (X : Str) (us : Map User) : Map.keys (stripChan X us) = Map.keys us := by
  simp [Map.keys, stripChan, List.map_map, Function.comp_def]

/-! ## LIST -/

section list
variable {U U' : Map User} {Ch : Map Channel} {K : List Conn} {x y : Ctx}

theorem listLine_sim {Ch' : Map Channel} (cfg : Cfg) (client chn : Str) (ch : Channel)
    (h : Sim U U' Ch Ch' K x y) :
    Sim U U' Ch Ch' K (listLine cfg client chn ch x) (listLine cfg client chn ch y) :=
  h.reply cfg _

/-- the all-channels loop of LIST skips the erased entries because they are secret -/
theorem listAll_sim {Ch' : Map Channel} (cfg : Cfg) (client X : Str) (l : Map Channel)
    (hsec : ∀ p ∈ l, p.1 = X → p.2.modes.secret = true)
    (h : Sim U U' Ch Ch' K x y) :
    Sim U U' Ch Ch' K
      (l.foldl (fun x (p : Str × Channel) =>
        if !p.2.modes.secret then listLine cfg client p.1 p.2 x else x) x)
      ((Map.erase X l).foldl (fun x (p : Str × Channel) =>
        if !p.2.modes.secret then listLine cfg client p.1 p.2 x else x) y) := by
  induction l generalizing x y with
  | nil => exact h
  | cons p l ih =>
    obtain ⟨k, ch⟩ := p
    have hsec' : ∀ p ∈ l, p.1 = X → p.2.modes.secret = true :=
      fun p hp => hsec p (List.mem_cons_of_mem _ hp)
    simp only [Map.erase, List.foldl_cons]
    by_cases hk : k = X
    · have hs : ch.modes.secret = true := hsec (k, ch) List.mem_cons_self hk
      simp only [hk, ↓reduceIte, hs, Bool.not_true, Bool.false_eq_true]
      exact ih hsec' h
    · simp only [hk, ↓reduceIte, List.foldl_cons]
      apply ih hsec'
      split
      · exact listLine_sim cfg client k ch h
      · exact h

theorem listSome_sim (cfg : Cfg) (client X : Str) (C : Channel) (chs : List Str)
    (hX : Map.lookup X Ch = some C) (hs : C.modes.secret = true)
    (h : Sim U U' Ch (Map.erase X Ch) K x y) :
    Sim U U' Ch (Map.erase X Ch) K
      (chs.foldl (fun x chn =>
          match Map.lookup chn x.w.channels with
          | some ch => if !ch.modes.secret then listLine cfg client chn ch x else x
          | none => x) x)
      (chs.foldl (fun x chn =>
          match Map.lookup chn x.w.channels with
          | some ch => if !ch.modes.secret then listLine cfg client chn ch x else x
          | none => x) y) := by
  induction chs generalizing x y with
  | nil => exact h
  | cons chn chs ih =>
    simp only [List.foldl_cons]
    apply ih
    rw [h.xc, h.yc]
    by_cases hk : chn = X
    · subst hk
      simp [hX, hs, h]
    · rw [Map.lookup_erase_ne chn X Ch (Ne.symm hk)]
      split
      · split
        · exact listLine_sim cfg client chn _ h
        · exact h
      · exact h

theorem processList_sim (cfg : Cfg) (c : Nat) (X : Str) (C : Channel) (chs : List Str)
    (hX : Map.lookup X Ch = some C) (hs : C.modes.secret = true)
    (hn : (Map.keys Ch).Nodup)
    (h : Sim U U' Ch (Map.erase X Ch) K x y) :
    Sim U U' Ch (Map.erase X Ch) K (processList cfg c chs none x) (processList cfg c chs none y) := by
  unfold processList
  simp only [h.conn c]
  apply Sim.reply
  have h1 := h.reply cfg (RplListStart321 (x.conn c).clientName)
  split
  · exact listSome_sim cfg _ X C chs hX hs h1
  · simp only [Ctx.reply_w, h.xc, h.yc]
    apply listAll_sim cfg _ X Ch _ h1
    intro p hp hk
    rw [entry_of_lookup_nodup X C Ch hn hX p hp hk]; exact hs

end list

/-! ## NAMES -/

def namesVis (cn : Conn) (b : Bool) (users : Map User) (l : Map ChanUserModes) :
    List (Option (Str × Str)) :=
  l.map (fun (unick, chum) =>
    match Map.lookup unick users with
    | none => none
    | some u => if !u.modes.invisible || b
                then some (chum.prefixStr cn.multiPrefix, unick) else some ([], []))

def namesVisible (cn : Conn) (ch : Channel) (users : Map User) : List (Option (Str × Str)) :=
  namesVis cn (inChan cn ch.users) users ch.users

def namesFilter (l : List (Option (Str × Str))) : List (Str × Str) :=
  l.filterMap (fun o => match o with
    | some (p, n) => if n.isEmpty then none else some (p, n)
    | none => none)

def namesShown (cn : Conn) (ch : Channel) (users : Map User) : List (Str × Str) :=
  namesFilter (namesVisible cn ch users)

theorem namesLines_eq (cfg : Cfg) (cn : Conn) (chn : Str) (ch : Channel) (users : Map User) (x : Ctx) :
    namesLines cfg cn chn ch users x =
      (chunks 20 (namesShown cn ch users)).foldl (fun x chunk =>
        x.reply cfg (RplNameReply353 cn.clientName (if ch.modes.secret then ['@'] else ['=']) chn chunk))
        (if (namesVisible cn ch users).any (·.isNone) then x.panic "names: member without user" else x) :=
  rfl

theorem sendNames_eq (cfg : Cfg) (c : Nat) (chn : Str) (ch : Channel) (e : Bool) (x : Ctx) :
    sendNamesFromChannel cfg c chn ch e x =
      if !ch.modes.secret || inChan (x.conn c) ch.users then
        (if e then (namesLines cfg (x.conn c) chn ch x.w.users x).reply cfg
            (RplEndOfNames366 (x.conn c).clientName chn)
         else namesLines cfg (x.conn c) chn ch x.w.users x)
      else x := rfl

section names
variable {U U' : Map User} {Ch Ch' : Map Channel} {K : List Conn} {x y : Ctx}

theorem namesLines_sim (cfg : Cfg) (cn : Conn) (chn : Str) (ch ch' : Channel) (U1 U2 : Map User)
    (hshown : namesShown cn ch U1 = namesShown cn ch' U2)
    (hsec : ch.modes.secret = ch'.modes.secret)
    (h : Sim U U' Ch Ch' K x y) :
    Sim U U' Ch Ch' K (namesLines cfg cn chn ch U1 x) (namesLines cfg cn chn ch' U2 y) := by
  rw [namesLines_eq, namesLines_eq, hshown, hsec]
  exact Sim.foldlReply cfg _ _ (h.itePanic _ _ _ _)

theorem namesVisible_strip (X : Str) (cn : Conn) (ch : Channel) (U : Map User) :
    namesVisible cn ch (stripChan X U) = namesVisible cn ch U := by
  unfold namesVisible namesVis
  apply List.map_congr_left
  rintro ⟨unick, chum⟩ _
  simp only [lookup_stripChan]
  cases Map.lookup unick U <;> rfl

theorem namesShown_strip (X : Str) (cn : Conn) (ch : Channel) (U : Map User) :
    namesShown cn ch (stripChan X U) = namesShown cn ch U := by
  unfold namesShown; rw [namesVisible_strip]

/-- NAMES of one channel, same channel record on both sides, users differ by `stripChan` -/
theorem sendNames_sim_strip (cfg : Cfg) (c : Nat) (X chn : Str) (ch : Channel) (e : Bool)
    (h : Sim U (stripChan X U) Ch Ch' K x y) :
    Sim U (stripChan X U) Ch Ch' K
      (sendNamesFromChannel cfg c chn ch e x) (sendNamesFromChannel cfg c chn ch e y) := by
  rw [sendNames_eq, sendNames_eq, h.conn c, h.xu, h.yu]
  have hl := namesLines_sim cfg (x.conn c) chn ch ch (stripChan X U) U
    (namesShown_strip X _ ch U) rfl h
  have hl' := namesLines_sim cfg (x.conn c) chn ch ch U (stripChan X U)
    (namesShown_strip X _ ch U).symm rfl h
  split
  · cases e
    · simpa using hl'
    · simpa using hl'.reply cfg _
  · exact h

/-- NAMES of the secret channel, seen from outside: nothing -/
theorem sendNames_secret_outside (cfg : Cfg) (c : Nat) (chn : Str) (C : Channel) (e : Bool) (x : Ctx)
    (hs : C.modes.secret = true)
    (hout : ∀ n, (x.conn c).nick = some n → Map.contains n C.users = false) :
    sendNamesFromChannel cfg c chn C e x = x := by
  rw [sendNames_eq, inChan_false_of_outside _ _ hout, hs]; rfl

theorem namesAll_sim (cfg : Cfg) (c : Nat) (X : Str) (C : Channel) (l : Map Channel)
    (hC : ∀ p ∈ l, p.1 = X → p.2 = C) (hs : C.modes.secret = true)
    (hout : ∀ n, (connOf K c).nick = some n → Map.contains n C.users = false)
    (h : Sim U (stripChan X U) Ch Ch' K x y) :
    Sim U (stripChan X U) Ch Ch' K
      (l.foldl (fun x (p : Str × Channel) => sendNamesFromChannel cfg c p.1 p.2 false x) x)
      ((Map.erase X l).foldl (fun x (p : Str × Channel) =>
          sendNamesFromChannel cfg c p.1 p.2 false x) y) := by
  induction l generalizing x y with
  | nil => exact h
  | cons p l ih =>
    obtain ⟨k, ch⟩ := p
    have hC' : ∀ p ∈ l, p.1 = X → p.2 = C := fun p hp => hC p (List.mem_cons_of_mem _ hp)
    simp only [Map.erase, List.foldl_cons]
    by_cases hk : k = X
    · have hch : ch = C := hC (k, ch) List.mem_cons_self hk
      subst hch
      simp only [hk, ↓reduceIte]
      rw [sendNames_secret_outside cfg c X ch false x hs (by rw [h.connX]; exact hout)]
      exact ih hC' h
    · simp only [hk, ↓reduceIte, List.foldl_cons]
      exact ih hC' (sendNames_sim_strip cfg c X k ch false h)

theorem namesSome_sim (cfg : Cfg) (c : Nat) (X : Str) (chs : List Str) (client : Str)
    (hX : X ∉ chs)
    (h : Sim U (stripChan X U) Ch (Map.erase X Ch) K x y) :
    Sim U (stripChan X U) Ch (Map.erase X Ch) K
      (chs.foldl (fun x chn =>
          match Map.lookup chn x.w.channels with
          | some ch => sendNamesFromChannel cfg c chn ch true x
          | none => x.reply cfg (RplEndOfNames366 client chn)) x)
      (chs.foldl (fun x chn =>
          match Map.lookup chn x.w.channels with
          | some ch => sendNamesFromChannel cfg c chn ch true x
          | none => x.reply cfg (RplEndOfNames366 client chn)) y) := by
  induction chs generalizing x y with
  | nil => exact h
  | cons chn chs ih =>
    simp only [List.foldl_cons]
    have hne : X ≠ chn := fun e => hX (e ▸ List.mem_cons_self)
    apply ih (fun hm => hX (List.mem_cons_of_mem _ hm))
    rw [h.xc, h.yc, Map.lookup_erase_ne chn X Ch hne]
    split
    · exact sendNames_sim_strip cfg c X chn _ true h
    · exact h.reply cfg _

/-- explicit NAMES list: the secret channel's entries behave as if they had not been asked -/
theorem namesSome_sim_filter (cfg : Cfg) (c : Nat) (X : Str) (C : Channel) (chs : List Str)
    (client : Str)
    (hX : Map.lookup X Ch = some C) (hs : C.modes.secret = true)
    (hout : ∀ n, (connOf K c).nick = some n → Map.contains n C.users = false)
    (h : Sim U (stripChan X U) Ch (Map.erase X Ch) K x y) :
    Sim U (stripChan X U) Ch (Map.erase X Ch) K
      (chs.foldl (fun x chn =>
          match Map.lookup chn x.w.channels with
          | some ch => sendNamesFromChannel cfg c chn ch true x
          | none => x.reply cfg (RplEndOfNames366 client chn)) x)
      ((chs.filter (· != X)).foldl (fun x chn =>
          match Map.lookup chn x.w.channels with
          | some ch => sendNamesFromChannel cfg c chn ch true x
          | none => x.reply cfg (RplEndOfNames366 client chn)) y) := by
  induction chs generalizing x y with
  | nil => exact h
  | cons chn chs ih =>
    simp only [List.filter_cons, List.foldl_cons]
    by_cases hk : chn = X
    · subst hk
      simp only [bne_self_eq_false, Bool.false_eq_true, ↓reduceIte, h.xc, hX]
      rw [sendNames_secret_outside cfg c chn C true x hs (by rw [h.connX]; exact hout)]
      exact ih h
    · have : (chn != X) = true := by simp [hk]
      simp only [this, ↓reduceIte, List.foldl_cons]
      apply ih
      rw [h.xc, h.yc, Map.lookup_erase_ne chn X Ch (Ne.symm hk)]
      split
      · exact sendNames_sim_strip cfg c X chn _ true h
      · exact h.reply cfg _

theorem processNames_all_sim (cfg : Cfg) (c : Nat) (X : Str) (C : Channel)
    (hX : Map.lookup X Ch = some C) (hs : C.modes.secret = true) (hn : (Map.keys Ch).Nodup)
    (hout : ∀ n, (connOf K c).nick = some n → Map.contains n C.users = false)
    (h : Sim U (stripChan X U) Ch (Map.erase X Ch) K x y) :
    Sim U (stripChan X U) Ch (Map.erase X Ch) K
      (processNames cfg c [] x) (processNames cfg c [] y) := by
  unfold processNames
  simp only [h.conn c, List.isEmpty_nil, Bool.not_true, Bool.false_eq_true, ↓reduceIte, h.xc, h.yc]
  apply Sim.reply
  exact namesAll_sim cfg c X C Ch (entry_of_lookup_nodup X C Ch hn hX) hs hout h

theorem processNames_filter_sim (cfg : Cfg) (c : Nat) (X : Str) (C : Channel) (chs : List Str)
    (hX : Map.lookup X Ch = some C) (hs : C.modes.secret = true)
    (hout : ∀ n, (connOf K c).nick = some n → Map.contains n C.users = false)
    (hne : chs.filter (· != X) ≠ [])
    (h : Sim U (stripChan X U) Ch (Map.erase X Ch) K x y) :
    Sim U (stripChan X U) Ch (Map.erase X Ch) K
      (processNames cfg c chs x) (processNames cfg c (chs.filter (· != X)) y) := by
  have hne' : chs ≠ [] := by rintro rfl; exact hne rfl
  have e1 : chs.isEmpty = false := by cases chs <;> simp_all
  have e2 : (chs.filter (· != X)).isEmpty = false := by
    cases h : chs.filter (· != X) <;> simp_all
  unfold processNames
  simp only [h.conn c, e1, e2, Bool.not_false, ↓reduceIte]
  exact namesSome_sim_filter cfg c X C chs _ hX hs hout h

/-- an explicit NAMES list naming only the secret channel does nothing at all -/
theorem processNames_only_secret (cfg : Cfg) (c : Nat) (X : Str) (C : Channel) (chs : List Str)
    (x : Ctx) (hX : Map.lookup X x.w.channels = some C) (hs : C.modes.secret = true)
    (hout : ∀ n, (x.conn c).nick = some n → Map.contains n C.users = false)
    (hne : chs ≠ []) (hall : ∀ ch ∈ chs, ch = X) :
    processNames cfg c chs x = x := by
  have e1 : chs.isEmpty = false := by cases chs <;> simp_all
  unfold processNames
  simp only [e1, Bool.not_false, ↓reduceIte]
  clear e1 hne
  induction chs with
  | nil => rfl
  | cons a l ih =>
    have : a = X := hall a List.mem_cons_self
    subst this
    simp only [List.foldl_cons, hX]
    rw [sendNames_secret_outside cfg c a C true x hs hout]
    exact ih (fun ch hc => hall ch (List.mem_cons_of_mem _ hc))

theorem processNames_other_sim (cfg : Cfg) (c : Nat) (X : Str) (chs : List Str)
    (hne : chs ≠ []) (hX : X ∉ chs)
    (h : Sim U (stripChan X U) Ch (Map.erase X Ch) K x y) :
    Sim U (stripChan X U) Ch (Map.erase X Ch) K
      (processNames cfg c chs x) (processNames cfg c chs y) := by
  unfold processNames
  have : chs.isEmpty = false := by cases chs <;> simp_all
  simp only [h.conn c, this, Bool.not_false, ↓reduceIte]
  exact namesSome_sim cfg c X chs _ hX h

end names

/-! ## channel sets: erasing a channel the observer is not on does not change disjointness -/

theorem erase_of_not_mem (X : Str) (s : KSet) (h : KSet.mem X s = false) : KSet.erase X s = s := by
  unfold KSet.erase
  apply List.filter_eq_self.mpr
  intro a ha
  simp only [bne_iff_ne, ne_eq]
  rintro rfl
  have := (KSet.mem_iff a s).mpr ha
  simp [this] at h

theorem disjoint_erase_left (X : Str) (a b : KSet) (h : KSet.mem X b = false) :
    KSet.disjoint (KSet.erase X a) b = KSet.disjoint a b := by
  unfold KSet.disjoint KSet.erase
  induction a with
  | nil => rfl
  | cons z a ih =>
    simp only [List.filter_cons]
    by_cases hz : z = X
    · subst hz
      simp [ih, h]
    · have : (z != X) = true := by simp [hz]
      simp [this, ih]

theorem disjoint_erase (X : Str) (a b : KSet) (h : KSet.mem X b = false) :
    KSet.disjoint (KSet.erase X a) (KSet.erase X b) = KSet.disjoint a b := by
  rw [erase_of_not_mem X b h, disjoint_erase_left X a b h]

/-! ## WHO -/

section who
variable {U : Map User} {Ch Ch' : Map Channel} {K : List Conn} {x y : Ctx}

theorem sendWhoInfo_sim_strip {U' : Map User} (cfg : Cfg) (cn : Conn) (chan : Option (Str × ChanUserModes))
    (n X : Str) (u user : User) (hXu : KSet.mem X user.channels = false)
    (h : Sim U U' Ch Ch' K x y) :
    Sim U U' Ch Ch' K (sendWhoInfo cfg cn chan n u user x)
      (sendWhoInfo cfg cn chan n (stripChanUser X u) (stripChanUser X user) y) := by
  unfold sendWhoInfo
  simp only [stripChanUser, disjoint_erase X u.channels user.channels hXu]
  split
  · exact h.reply cfg _
  · exact h

theorem whoWild_sim_strip {U' : Map User} (cfg : Cfg) (cn : Conn) (mask X : Str) (user : User)
    (hXu : KSet.mem X user.channels = false) (l : Map User)
    (h : Sim U U' Ch Ch' K x y) :
    Sim U U' Ch Ch' K
      (l.foldl (fun x (p : Str × User) =>
        if matchWildcard mask p.1 || matchWildcard mask p.2.source || matchWildcard mask p.2.realname
        then sendWhoInfo cfg cn none p.1 p.2 user x else x) x)
      ((stripChan X l).foldl (fun x (p : Str × User) =>
        if matchWildcard mask p.1 || matchWildcard mask p.2.source || matchWildcard mask p.2.realname
        then sendWhoInfo cfg cn none p.1 p.2 (stripChanUser X user) x else x) y) := by
  induction l generalizing x y with
  | nil => exact h
  | cons p l ih =>
    obtain ⟨k, u⟩ := p
    simp only [stripChan, List.map_cons, List.foldl_cons]
    apply ih
    have e1 : (stripChanUser X u).source = u.source := rfl
    have e2 : (stripChanUser X u).realname = u.realname := rfl
    simp only [e1, e2]
    split
    · exact sendWhoInfo_sim_strip cfg cn none k X u user hXu h
    · exact h

theorem whoChan_sim_strip (cfg : Cfg) (cn : Conn) (mask X : Str) (user : User)
    (hXu : KSet.mem X user.channels = false) (l : Map ChanUserModes)
    (h : Sim U (stripChan X U) Ch Ch' K x y) :
    Sim U (stripChan X U) Ch Ch' K
      (l.foldl (fun x (p : Str × ChanUserModes) =>
        match Map.lookup p.1 x.w.users with
        | some uu => sendWhoInfo cfg cn (some (mask, p.2)) p.1 uu user x
        | none => x.panic "who: member without user") x)
      (l.foldl (fun x (p : Str × ChanUserModes) =>
        match Map.lookup p.1 x.w.users with
        | some uu => sendWhoInfo cfg cn (some (mask, p.2)) p.1 uu (stripChanUser X user) x
        | none => x.panic "who: member without user") y) := by
  induction l generalizing x y with
  | nil => exact h
  | cons p l ih =>
    obtain ⟨k, chum⟩ := p
    simp only [List.foldl_cons]
    apply ih
    rw [h.xu, h.yu, lookup_stripChan]
    cases Map.lookup k U with
    | none => exact h.panic _ _
    | some uu => exact sendWhoInfo_sim_strip cfg cn _ k X uu user hXu h

theorem processWho_sim_strip (cfg : Cfg) (c : Nat) (X : Str) (C : Channel) (mask : Str)
    (hX : Map.lookup X Ch = some C) (hs : C.modes.secret = true)
    (hout : ∀ n, (connOf K c).nick = some n → Map.contains n C.users = false)
    (hmem : ∀ n u, (connOf K c).nick = some n → Map.lookup n U = some u →
      KSet.mem X u.channels = false)
    (h : Sim U (stripChan X U) Ch (Map.erase X Ch) K x y) :
    Sim U (stripChan X U) Ch (Map.erase X Ch) K (processWho cfg c mask x) (processWho cfg c mask y) := by
  unfold processWho
  simp only [h.conn c]
  rw [h.connX c]
  cases hnick : (connOf K c).nick with
  | none => exact h.panic _ _
  | some nick =>
    simp only
    rw [h.xu, h.yu, lookup_stripChan]
    cases hlu : Map.lookup nick U with
    | none => exact h.panic _ _
    | some user =>
      have hXu := hmem nick user hnick hlu
      simp only [Option.map_some]
      apply Sim.reply
      by_cases hw : (containsChar '*' mask || containsChar '?' mask) = true
      · simp only [hw, ↓reduceIte]
        exact whoWild_sim_strip cfg _ mask X user hXu U h
      · simp only [hw, Bool.false_eq_true, ↓reduceIte]
        by_cases hc : validateChannel mask = true
        · simp only [hc, ↓reduceIte, h.xc, h.yc]
          by_cases hm : mask = X
          · subst hm
            simp only [hX, Map.lookup_erase_eq, hs, hout nick hnick]
            exact h
          · rw [Map.lookup_erase_ne mask X Ch (Ne.symm hm)]
            cases Map.lookup mask Ch with
            | none => exact h
            | some ch =>
              simp only
              split
              · exact whoChan_sim_strip cfg _ mask X user hXu ch.users h
              · exact h
        · simp only [hc, Bool.false_eq_true, ↓reduceIte]
          by_cases hu : validateUsername mask = true
          · simp only [hu, ↓reduceIte, lookup_stripChan]
            cases Map.lookup mask U with
            | none => exact h
            | some au => exact sendWhoInfo_sim_strip cfg _ none mask X au user hXu h
          · simp only [hu, Bool.false_eq_true, ↓reduceIte]
            exact h

end who

/-! ## WHOIS -/

def whoisChans (cn : Conn) (nick : Str) (chans : KSet) (Ch : Map Channel) :
    List (Option (Option Str × Str)) :=
  chans.map (fun chn =>
    match Map.lookup chn Ch with
    | none => none
    | some ch =>
      if !ch.modes.secret then
        match Map.lookup nick ch.users with
        | some chum => some (some (chum.prefixStr cn.multiPrefix), chn)
        | none => none
      else some (none, []))

def whoisShown (chans : List (Option (Option Str × Str))) : List (Option Str × Str) :=
  chans.filterMap (fun o => match o with
    | some (some p, chn) => some (some p, chn)
    | _ => none)

def whoisHead (cfg : Cfg) (cn : Conn) (nick : Str) (au : User) (x : Ctx) : Ctx :=
  let client := cn.clientName
  let x := if au.modes.registered then x.reply cfg (RplWhoIsRegNick307 client nick) else x
  let x := x.reply cfg (RplWhoIsUser311 client nick au.name au.hostname au.realname)
  let x := x.reply cfg (RplWhoIsServer312 client nick cfg.name cfg.info)
  if au.modes.isLocalOper then x.reply cfg (RplWhoIsOperator313 client nick) else x

def whoisTail (cfg : Cfg) (cn : Conn) (nick : Str) (au : User) (x : Ctx) : Ctx :=
  let client := cn.clientName
  let chans := whoisChans cn nick au.channels x.w.channels
  let x := if chans.any (·.isNone) then x.panic "whois: channel/member unwrap" else x
  let x := (chunks 30 (whoisShown chans)).foldl (fun x chunk =>
    x.reply cfg (RplWhoIsChannels319 client nick chunk)) x
  let x := x.reply cfg (RplwhoIsIdle317 client nick 0 0)
  if au.modes.isLocalOper then
    (x.reply cfg (RplWhoIsHost378 client nick au.hostname)).reply cfg
      (RplWhoIsModes379 client nick au.modes.render)
  else x

theorem whoisOne_eq (cfg : Cfg) (cn : Conn) (user : User) (nick : Str) (x : Ctx) :
    whoisOne cfg cn user nick x =
      match Map.lookup nick x.w.users with
      | none => x.panic "whois: users.get(nick).unwrap"
      | some au =>
        if au.modes.invisible && KSet.disjoint au.channels user.channels then x
        else whoisTail cfg cn nick au (whoisHead cfg cn nick au x) := rfl

section whois
variable {U U' : Map User} {Ch Ch' : Map Channel} {K : List Conn} {x y : Ctx}

theorem whoisHead_sim (cfg : Cfg) (cn : Conn) (nick : Str) (au au' : User)
    (hm : au'.modes = au.modes) (hn : au'.name = au.name) (hh : au'.hostname = au.hostname)
    (hr : au'.realname = au.realname)
    (h : Sim U U' Ch Ch' K x y) :
    Sim U U' Ch Ch' K (whoisHead cfg cn nick au x) (whoisHead cfg cn nick au' y) := by
  unfold whoisHead
  simp only [hm, hn, hh, hr]
  apply Sim.iteReply
  apply Sim.reply
  apply Sim.reply
  apply Sim.iteReply
  exact h

/-- `whoisTail` on both sides, given that the channels shown are the same -/
theorem whoisTail_sim (cfg : Cfg) (cn : Conn) (nick : Str) (au au' : User)
    (hm : au'.modes = au.modes) (hh : au'.hostname = au.hostname)
    (hshown : whoisShown (whoisChans cn nick au'.channels Ch') =
      whoisShown (whoisChans cn nick au.channels Ch))
    (h : Sim U U' Ch Ch' K x y) :
    Sim U U' Ch Ch' K (whoisTail cfg cn nick au x) (whoisTail cfg cn nick au' y) := by
  unfold whoisTail
  simp only [hm, hh, h.xc, h.yc, hshown]
  have h1 := (Sim.foldlReply cfg (fun chunk => RplWhoIsChannels319 cn.clientName nick chunk)
    (chunks 30 (whoisShown (whoisChans cn nick au.channels Ch)))
    (h.itePanic ((whoisChans cn nick au.channels Ch).any (·.isNone))
      ((whoisChans cn nick au'.channels Ch').any (·.isNone))
      "whois: channel/member unwrap" "whois: channel/member unwrap")).reply cfg
      (RplwhoIsIdle317 cn.clientName nick 0 0)
  split
  · exact (h1.reply cfg _).reply cfg _
  · exact h1

theorem whoisShown_strip (cn : Conn) (nick X : Str) (C : Channel) (chans : KSet) (Ch : Map Channel)
    (hX : Map.lookup X Ch = some C) (hs : C.modes.secret = true) :
    whoisShown (whoisChans cn nick (KSet.erase X chans) (Map.erase X Ch)) =
      whoisShown (whoisChans cn nick chans Ch) := by
  unfold whoisShown whoisChans KSet.erase
  induction chans with
  | nil => rfl
  | cons chn chans ih =>
    simp only [List.filter_cons]
    by_cases hk : chn = X
    · subst hk
      simp only [bne_self_eq_false, Bool.false_eq_true, ↓reduceIte, List.map_cons, hX, hs,
        Bool.not_true, List.filterMap_cons]
      exact ih
    · have : (chn != X) = true := by simp [hk]
      simp only [this, ↓reduceIte, List.map_cons, List.filterMap_cons,
        Map.lookup_erase_ne chn X Ch (Ne.symm hk)]
      rw [ih]

theorem whoisOne_sim_strip (cfg : Cfg) (cn : Conn) (user : User) (nick X : Str) (C : Channel)
    (hX : Map.lookup X Ch = some C) (hs : C.modes.secret = true)
    (hXu : KSet.mem X user.channels = false)
    (h : Sim U (stripChan X U) Ch (Map.erase X Ch) K x y) :
    Sim U (stripChan X U) Ch (Map.erase X Ch) K
      (whoisOne cfg cn user nick x) (whoisOne cfg cn (stripChanUser X user) nick y) := by
  rw [whoisOne_eq, whoisOne_eq, h.xu, h.yu, lookup_stripChan]
  cases Map.lookup nick U with
  | none => exact h.panic _ _
  | some au =>
    simp only [Option.map_some]
    have e1 : (stripChanUser X au).modes = au.modes := rfl
    have e2 : (stripChanUser X au).channels = KSet.erase X au.channels := rfl
    have e3 : (stripChanUser X user).channels = KSet.erase X user.channels := rfl
    rw [e1, e2, e3, disjoint_erase X au.channels user.channels hXu]
    split
    · exact h
    · apply whoisTail_sim cfg cn nick au (stripChanUser X au) rfl rfl
      · exact whoisShown_strip cn nick X C au.channels Ch hX hs
      · exact whoisHead_sim cfg cn nick au (stripChanUser X au) rfl rfl rfl rfl h

theorem whoisFold_sim_strip (cfg : Cfg) (cn : Conn) (user : User) (X : Str) (C : Channel)
    (hX : Map.lookup X Ch = some C) (hs : C.modes.secret = true)
    (hXu : KSet.mem X user.channels = false) (nicks : List Str)
    (h : Sim U (stripChan X U) Ch (Map.erase X Ch) K x y) :
    Sim U (stripChan X U) Ch (Map.erase X Ch) K
      (nicks.foldl (fun x n => whoisOne cfg cn user n x) x)
      (nicks.foldl (fun x n => whoisOne cfg cn (stripChanUser X user) n x) y) := by
  induction nicks generalizing x y with
  | nil => exact h
  | cons n nicks ih =>
    exact ih (whoisOne_sim_strip cfg cn user n X C hX hs hXu h)

theorem processWhois_sim_strip (cfg : Cfg) (c : Nat) (X : Str) (C : Channel) (masks : List Str)
    (hX : Map.lookup X Ch = some C) (hs : C.modes.secret = true)
    (hmem : ∀ n u, (connOf K c).nick = some n → Map.lookup n U = some u →
      KSet.mem X u.channels = false)
    (h : Sim U (stripChan X U) Ch (Map.erase X Ch) K x y) :
    Sim U (stripChan X U) Ch (Map.erase X Ch) K
      (processWhois cfg c none masks x) (processWhois cfg c none masks y) := by
  unfold processWhois
  simp only [h.conn c]
  rw [h.connX c]
  cases hnick : (connOf K c).nick with
  | none => exact h.panic _ _
  | some nick =>
    simp only
    rw [h.xu, h.yu, lookup_stripChan]
    cases hlu : Map.lookup nick U with
    | none => exact h.panic _ _
    | some user =>
      have hXu := hmem nick user hnick hlu
      simp only [Option.map_some, contains_stripChan, keys_stripChan]
      apply Sim.reply
      exact whoisFold_sim_strip cfg _ user X C hX hs hXu _ h

end whois

/-! ## PRIVMSG / NOTICE into a secret channel from outside -/

theorem canSend_secret_outside (C : Channel) (nick src : Str)
    (hs : C.modes.secret = true) (hout : Map.contains nick C.users = false) :
    canSend C nick src = false := by
  have hl : Map.lookup nick C.users = none := (Map.contains_false_iff nick C.users).mp hout
  simp [canSend, hs, hl]

theorem privmsgTarget_secret_outside (cfg : Cfg) (c : Nat) (nick : Str) (notice : Bool)
    (text target X : Str) (C : Channel) (x : Ctx)
    (htt : (getPrivmsgTargetType target).1.channel = true)
    (hname : (getPrivmsgTargetType target).2 = X)
    (hX : Map.lookup X x.w.channels = some C)
    (hs : C.modes.secret = true) (hout : Map.contains nick C.users = false) :
    privmsgTarget cfg c nick notice text target x =
      (if !notice then x.reply cfg (ErrCannotSendToChain404 (x.conn c).clientName X) else x, false) := by
  unfold privmsgTarget
  rcases hg : getPrivmsgTargetType target with ⟨tt, chanStr⟩
  rw [hg] at htt hname
  simp only at htt hname
  subst hname
  simp only [htt, ↓reduceIte, hX, canSend_secret_outside C nick _ hs hout, Bool.false_eq_true]

theorem mem_of_mem_dedup (t : Str) (l : List Str) (h : t ∈ dedup l) : t ∈ l := by
  induction l with
  | nil => simp [dedup] at h
  | cons a l ih =>
    simp only [dedup, List.mem_cons, List.mem_filter] at h
    rcases h with h | h
    · exact h ▸ List.mem_cons_self
    · exact List.mem_cons_of_mem _ (ih h.1)

theorem privmsgFold_secret_outside (cfg : Cfg) (c : Nat) (nick : Str) (notice : Bool)
    (text X : Str) (C : Channel) (hs : C.modes.secret = true)
    (hout : Map.contains nick C.users = false) (l : List Str)
    (hl : ∀ t ∈ l, (getPrivmsgTargetType t).1.channel = true ∧ (getPrivmsgTargetType t).2 = X)
    (x : Ctx) (d : Bool) (hX : Map.lookup X x.w.channels = some C) :
    let r := l.foldl (fun (p : Ctx × Bool) t =>
      ((privmsgTarget cfg c nick notice text t p.1).1,
        p.2 || (privmsgTarget cfg c nick notice text t p.1).2)) (x, d)
    r.1.w = x.w ∧ r.1.queued = x.queued ∧ r.2 = d := by
  induction l generalizing x with
  | nil => exact ⟨rfl, rfl, rfl⟩
  | cons t l ih =>
    have ht := hl t List.mem_cons_self
    simp only [List.foldl_cons]
    rw [privmsgTarget_secret_outside cfg c nick notice text t X C x ht.1 ht.2 hX hs hout]
    simp only [Bool.or_false]
    cases notice
    · have := ih (fun t ht => hl t (List.mem_cons_of_mem _ ht))
        (x.reply cfg (ErrCannotSendToChain404 (x.conn c).clientName X)) (by simpa using hX)
      simpa using this
    · have := ih (fun t ht => hl t (List.mem_cons_of_mem _ ht)) x hX
      simpa using this

theorem processPrivmsgNotice_secret_outside (cfg : Cfg) (c : Nat) (notice : Bool)
    (text X : Str) (C : Channel) (targets : List Str) (x : Ctx)
    (hX : Map.lookup X x.w.channels = some C) (hs : C.modes.secret = true)
    (hout : ∀ n, (x.conn c).nick = some n → Map.contains n C.users = false)
    (hl : ∀ t ∈ targets,
      (getPrivmsgTargetType t).1.channel = true ∧ (getPrivmsgTargetType t).2 = X) :
    (processPrivmsgNotice cfg c targets text notice x).queued = x.queued ∧
    (processPrivmsgNotice cfg c targets text notice x).w.channels = x.w.channels ∧
    (processPrivmsgNotice cfg c targets text notice x).w.users = x.w.users := by
  unfold processPrivmsgNotice
  cases hn : (x.conn c).nick with
  | none => simp
  | some nick =>
    have := privmsgFold_secret_outside cfg c nick notice text X C hs (hout nick hn) (dedup targets)
      (fun t ht => hl t (mem_of_mem_dedup t targets ht)) x false hX
    obtain ⟨h1, h2, h3⟩ := this
    simp only
    rw [h3]
    simp [h1, h2]

/-! ## hiding a user -/

/-- `v` removed from the member map and the five rank lists of a channel -/
def stripMember (v : Str) (ch : Channel) : Channel :=
  { ch with
    users := Map.erase v ch.users
    modes := { ch.modes with operators := KSet.erase v ch.modes.operators
                             halfOperators := KSet.erase v ch.modes.halfOperators
                             voices := KSet.erase v ch.modes.voices
                             founders := KSet.erase v ch.modes.founders
                             protecteds := KSet.erase v ch.modes.protecteds } }

def stripUserC (v : Str) (cs : Map Channel) : Map Channel := cs.map (fun p => (p.1, stripMember v p.2))

theorem lookup_stripUserC (v k : Str) (cs : Map Channel) :
    Map.lookup k (stripUserC v cs) = (Map.lookup k cs).map (stripMember v) := by
  induction cs with
  | nil => rfl
  | cons p cs ih =>
    obtain ⟨k', ch⟩ := p
    simp only [stripUserC, List.map_cons, Map.lookup]
    split
    · rfl
    · exact ih

theorem contains_erase {α : Type} (k v : Str) (m : Map α) :
    Map.contains k (Map.erase v m) = (k != v && Map.contains k m) := by
  unfold Map.contains
  by_cases h : k = v
  · subst h; simp
  · rw [Map.lookup_erase_ne k v m (Ne.symm h)]; simp [h]

theorem inChan_erase (cn : Conn) (v : Str) (l : Map ChanUserModes) (hne : cn.nick ≠ some v) :
    inChan cn (Map.erase v l) = inChan cn l := by
  unfold inChan
  split
  · rename_i n hn
    have : n ≠ v := fun e => hne (e ▸ hn)
    simp [contains_erase, this]
  · rfl

theorem sendWhoInfo_hidden (cfg : Cfg) (cn : Conn) (chan : Option (Str × ChanUserModes)) (n : Str)
    (vu user : User) (x : Ctx) (hinv : vu.modes.invisible = true)
    (hdis : KSet.disjoint vu.channels user.channels = true) :
    sendWhoInfo cfg cn chan n vu user x = x := by
  simp [sendWhoInfo, hinv, hdis]

section hideUser
variable {U : Map User} {Ch : Map Channel} {K : List Conn} {x y : Ctx}

/-! ### NAMES -/

theorem namesVis_hideUser (cn : Conn) (v : Str) (vu : User) (hv : Map.lookup v U = some vu)
    (hinv : vu.modes.invisible = true) (b : Bool) (l : Map ChanUserModes)
    (hb : (∃ p ∈ l, p.1 = v) → b = false) :
    namesFilter (namesVis cn b (Map.erase v U) (Map.erase v l)) = namesFilter (namesVis cn b U l) := by
  unfold namesFilter namesVis
  induction l with
  | nil => rfl
  | cons p l ih =>
    obtain ⟨k, chum⟩ := p
    have hb' : (∃ p ∈ l, p.1 = v) → b = false := fun ⟨p, hp, e⟩ => hb ⟨p, List.mem_cons_of_mem _ hp, e⟩
    simp only [Map.erase]
    by_cases hk : k = v
    · subst hk
      have hbf : b = false := hb ⟨(k, chum), List.mem_cons_self, rfl⟩
      have IH := ih hb'
      subst hbf
      simp only [↓reduceIte, List.map_cons, hv, hinv, List.filterMap_cons]
      simpa using IH
    · simp only [hk, ↓reduceIte, List.map_cons, List.filterMap_cons,
        Map.lookup_erase_ne k v U (Ne.symm hk)]
      rw [ih hb']

theorem namesShown_hideUser (cn : Conn) (v : Str) (vu : User) (ch : Channel)
    (hv : Map.lookup v U = some vu) (hinv : vu.modes.invisible = true)
    (hne : cn.nick ≠ some v)
    (hb : Map.contains v ch.users = true → inChan cn ch.users = false) :
    namesShown cn (stripMember v ch) (Map.erase v U) = namesShown cn ch U := by
  unfold namesShown namesVisible
  have e : (stripMember v ch).users = Map.erase v ch.users := rfl
  rw [e, inChan_erase cn v ch.users hne]
  apply namesVis_hideUser cn v vu hv hinv
  rintro ⟨p, hp, hk⟩
  apply hb
  rw [Map.contains_iff]
  exact (Map.mem_keys_iff v ch.users).mp (hk ▸ List.mem_map.mpr ⟨p, hp, rfl⟩)

theorem sendNames_sim_hideUser {Ch' : Map Channel} (cfg : Cfg) (c : Nat) (v chn : Str) (vu : User)
    (ch : Channel) (e : Bool)
    (hv : Map.lookup v U = some vu) (hinv : vu.modes.invisible = true)
    (hne : (connOf K c).nick ≠ some v)
    (hb : Map.contains v ch.users = true → inChan (connOf K c) ch.users = false)
    (h : Sim U (Map.erase v U) Ch Ch' K x y) :
    Sim U (Map.erase v U) Ch Ch' K
      (sendNamesFromChannel cfg c chn ch e x) (sendNamesFromChannel cfg c chn (stripMember v ch) e y) := by
  rw [sendNames_eq, sendNames_eq, h.conn c, h.xu, h.yu, h.connX c]
  have e1 : (stripMember v ch).users = Map.erase v ch.users := rfl
  have e2 : (stripMember v ch).modes.secret = ch.modes.secret := rfl
  rw [e1, e2, inChan_erase _ v ch.users hne]
  have hl := namesLines_sim cfg (connOf K c) chn ch (stripMember v ch) U (Map.erase v U)
    (namesShown_hideUser (connOf K c) v vu ch hv hinv hne hb).symm rfl h
  split
  · cases e
    · simpa using hl
    · simpa using hl.reply cfg _
  · exact h

theorem namesAll_sim_hideUser {Ch' : Map Channel} (cfg : Cfg) (c : Nat) (v : Str) (vu : User)
    (hv : Map.lookup v U = some vu) (hinv : vu.modes.invisible = true)
    (hne : (connOf K c).nick ≠ some v) (l : Map Channel)
    (hb : ∀ p ∈ l, Map.contains v p.2.users = true → inChan (connOf K c) p.2.users = false)
    (h : Sim U (Map.erase v U) Ch Ch' K x y) :
    Sim U (Map.erase v U) Ch Ch' K
      (l.foldl (fun x (p : Str × Channel) => sendNamesFromChannel cfg c p.1 p.2 false x) x)
      ((stripUserC v l).foldl (fun x (p : Str × Channel) =>
          sendNamesFromChannel cfg c p.1 p.2 false x) y) := by
  induction l generalizing x y with
  | nil => exact h
  | cons p l ih =>
    obtain ⟨k, ch⟩ := p
    simp only [stripUserC, List.map_cons, List.foldl_cons]
    apply ih (fun p hp => hb p (List.mem_cons_of_mem _ hp))
    exact sendNames_sim_hideUser cfg c v k vu ch false hv hinv hne (hb (k, ch) List.mem_cons_self) h

theorem namesSome_sim_hideUser (cfg : Cfg) (c : Nat) (v : Str) (vu : User)
    (hv : Map.lookup v U = some vu) (hinv : vu.modes.invisible = true)
    (hne : (connOf K c).nick ≠ some v)
    (hb : ∀ chn ch, Map.lookup chn Ch = some ch → Map.contains v ch.users = true →
      inChan (connOf K c) ch.users = false)
    (chs : List Str) (client : Str)
    (h : Sim U (Map.erase v U) Ch (stripUserC v Ch) K x y) :
    Sim U (Map.erase v U) Ch (stripUserC v Ch) K
      (chs.foldl (fun x chn =>
          match Map.lookup chn x.w.channels with
          | some ch => sendNamesFromChannel cfg c chn ch true x
          | none => x.reply cfg (RplEndOfNames366 client chn)) x)
      (chs.foldl (fun x chn =>
          match Map.lookup chn x.w.channels with
          | some ch => sendNamesFromChannel cfg c chn ch true x
          | none => x.reply cfg (RplEndOfNames366 client chn)) y) := by
  induction chs generalizing x y with
  | nil => exact h
  | cons chn chs ih =>
    simp only [List.foldl_cons]
    apply ih
    rw [h.xc, h.yc, lookup_stripUserC]
    cases hl : Map.lookup chn Ch with
    | none => exact h.reply cfg _
    | some ch => exact sendNames_sim_hideUser cfg c v chn vu ch true hv hinv hne (hb chn ch hl) h

theorem lookup_of_mem_nodup {α : Type} (m : Map α) (hn : (Map.keys m).Nodup) (p : Str × α)
    (hp : p ∈ m) : Map.lookup p.1 m = some p.2 := by
  induction m with
  | nil => simp at hp
  | cons q m ih =>
    obtain ⟨k', v'⟩ := q
    simp only [Map.keys, List.map_cons, List.nodup_cons] at hn
    simp only [Map.lookup]
    rcases List.mem_cons.mp hp with rfl | hp'
    · simp
    · have : k' ≠ p.1 := fun e => hn.1 (e ▸ List.mem_map.mpr ⟨p, hp', rfl⟩)
      simp only [this, ↓reduceIte]
      exact ih hn.2 hp'

theorem processNames_sim_hideUser (cfg : Cfg) (c : Nat) (v : Str) (vu : User)
    (hv : Map.lookup v U = some vu) (hinv : vu.modes.invisible = true)
    (hne : (connOf K c).nick ≠ some v) (hn : (Map.keys Ch).Nodup)
    (hb : ∀ chn ch, Map.lookup chn Ch = some ch → Map.contains v ch.users = true →
      inChan (connOf K c) ch.users = false)
    (chs : List Str)
    (h : Sim U (Map.erase v U) Ch (stripUserC v Ch) K x y) :
    Sim U (Map.erase v U) Ch (stripUserC v Ch) K
      (processNames cfg c chs x) (processNames cfg c chs y) := by
  unfold processNames
  simp only [h.conn c]
  split
  · exact namesSome_sim_hideUser cfg c v vu hv hinv hne hb chs _ h
  · simp only [h.xc, h.yc]
    apply Sim.reply
    apply namesAll_sim_hideUser cfg c v vu hv hinv hne Ch _ h
    intro p hp
    exact hb p.1 p.2 (lookup_of_mem_nodup Ch hn p hp)

/-! ### WHO -/

theorem whoWild_sim_hideUser {Ch' : Map Channel} (cfg : Cfg) (cn : Conn) (mask v : Str)
    (vu user : User) (hinv : vu.modes.invisible = true)
    (hdis : KSet.disjoint vu.channels user.channels = true) (l : Map User)
    (hl : ∀ p ∈ l, p.1 = v → p.2 = vu)
    (h : Sim U (Map.erase v U) Ch Ch' K x y) :
    Sim U (Map.erase v U) Ch Ch' K
      (l.foldl (fun x (p : Str × User) =>
        if matchWildcard mask p.1 || matchWildcard mask p.2.source || matchWildcard mask p.2.realname
        then sendWhoInfo cfg cn none p.1 p.2 user x else x) x)
      ((Map.erase v l).foldl (fun x (p : Str × User) =>
        if matchWildcard mask p.1 || matchWildcard mask p.2.source || matchWildcard mask p.2.realname
        then sendWhoInfo cfg cn none p.1 p.2 user x else x) y) := by
  induction l generalizing x y with
  | nil => exact h
  | cons p l ih =>
    obtain ⟨k, u⟩ := p
    have hl' : ∀ p ∈ l, p.1 = v → p.2 = vu := fun p hp => hl p (List.mem_cons_of_mem _ hp)
    simp only [Map.erase, List.foldl_cons]
    by_cases hk : k = v
    · have hu : u = vu := hl (k, u) List.mem_cons_self hk
      subst hu
      simp only [hk, ↓reduceIte, sendWhoInfo_hidden cfg cn none v u user x hinv hdis, ite_self]
      exact ih hl' h
    · simp only [hk, ↓reduceIte, List.foldl_cons]
      apply ih hl'
      split
      · unfold sendWhoInfo
        split
        · exact h.reply cfg _
        · exact h
      · exact h

theorem whoChan_sim_hideUser {Ch' : Map Channel} (cfg : Cfg) (cn : Conn) (mask v : Str)
    (vu user : User) (hv : Map.lookup v U = some vu) (hinv : vu.modes.invisible = true)
    (hdis : KSet.disjoint vu.channels user.channels = true) (l : Map ChanUserModes)
    (h : Sim U (Map.erase v U) Ch Ch' K x y) :
    Sim U (Map.erase v U) Ch Ch' K
      (l.foldl (fun x (p : Str × ChanUserModes) =>
        match Map.lookup p.1 x.w.users with
        | some uu => sendWhoInfo cfg cn (some (mask, p.2)) p.1 uu user x
        | none => x.panic "who: member without user") x)
      ((Map.erase v l).foldl (fun x (p : Str × ChanUserModes) =>
        match Map.lookup p.1 x.w.users with
        | some uu => sendWhoInfo cfg cn (some (mask, p.2)) p.1 uu user x
        | none => x.panic "who: member without user") y) := by
  induction l generalizing x y with
  | nil => exact h
  | cons p l ih =>
    obtain ⟨k, chum⟩ := p
    simp only [Map.erase, List.foldl_cons]
    by_cases hk : k = v
    · subst hk
      simp only [↓reduceIte, h.xu, hv, sendWhoInfo_hidden cfg cn _ k vu user x hinv hdis]
      exact ih h
    · simp only [hk, ↓reduceIte, List.foldl_cons]
      apply ih
      rw [h.xu, h.yu, Map.lookup_erase_ne k v U (Ne.symm hk)]
      cases Map.lookup k U with
      | none => exact h.panic _ _
      | some uu =>
        simp only
        unfold sendWhoInfo
        split
        · exact h.reply cfg _
        · exact h

theorem processWho_sim_hideUser (cfg : Cfg) (c : Nat) (v : Str) (vu : User) (mask : Str)
    (hv : Map.lookup v U = some vu) (hinv : vu.modes.invisible = true)
    (hnd : (Map.keys U).Nodup)
    (hobs : ∀ n, (connOf K c).nick = some n → n ≠ v ∧
      ∀ u, Map.lookup n U = some u → KSet.disjoint vu.channels u.channels = true)
    (h : Sim U (Map.erase v U) Ch (stripUserC v Ch) K x y) :
    Sim U (Map.erase v U) Ch (stripUserC v Ch) K (processWho cfg c mask x) (processWho cfg c mask y) := by
  unfold processWho
  simp only [h.conn c]
  rw [h.connX c]
  cases hnick : (connOf K c).nick with
  | none => exact h.panic _ _
  | some nick =>
    obtain ⟨hne, hd⟩ := hobs nick hnick
    simp only
    rw [h.xu, h.yu, Map.lookup_erase_ne nick v U (Ne.symm hne)]
    cases hlu : Map.lookup nick U with
    | none => exact h.panic _ _
    | some user =>
      have hdis := hd user hlu
      simp only
      apply Sim.reply
      by_cases hw : (containsChar '*' mask || containsChar '?' mask) = true
      · simp only [hw, ↓reduceIte]
        exact whoWild_sim_hideUser cfg _ mask v vu user hinv hdis U
          (entry_of_lookup_nodup v vu U hnd hv) h
      · simp only [hw, Bool.false_eq_true, ↓reduceIte]
        by_cases hc : validateChannel mask = true
        · simp only [hc, ↓reduceIte, h.xc, h.yc, lookup_stripUserC]
          cases Map.lookup mask Ch with
          | none => exact h
          | some ch =>
            have e1 : (stripMember v ch).users = Map.erase v ch.users := rfl
            have e2 : (stripMember v ch).modes.secret = ch.modes.secret := rfl
            have hbne : (nick != v) = true := by simp [hne]
            simp only [Option.map_some, e1, e2, contains_erase, hbne, Bool.true_and]
            split
            · exact whoChan_sim_hideUser cfg _ mask v vu user hv hinv hdis ch.users h
            · exact h
        · simp only [hc, Bool.false_eq_true, ↓reduceIte]
          by_cases hu : validateUsername mask = true
          · simp only [hu, ↓reduceIte]
            by_cases hm : mask = v
            · subst hm
              simp only [hv, Map.lookup_erase_eq, sendWhoInfo_hidden cfg _ none mask vu user x hinv hdis]
              exact h
            · rw [Map.lookup_erase_ne mask v U (Ne.symm hm)]
              cases Map.lookup mask U with
              | none => exact h
              | some au =>
                simp only
                unfold sendWhoInfo
                split
                · exact h.reply cfg _
                · exact h
          · simp only [hu, Bool.false_eq_true, ↓reduceIte]
            exact h

/-! ### WHOIS -/

def whoisNicks (masks : List Str) (U : Map User) : List Str :=
  let isMask (m : Str) : Bool := containsChar '*' m || containsChar '?' m
  let realMasks := masks.filter isMask
  let direct := masks.filter (fun m => !isMask m && Map.contains m U)
  let byMask := if realMasks.isEmpty then [] else
    (Map.keys U).filter (fun n => realMasks.any (fun m => matchWildcard m n))
  dedup (direct ++ byMask)

theorem processWhois_eq (cfg : Cfg) (c : Nat) (masks : List Str) (x : Ctx) :
    processWhois cfg c none masks x =
      let cn := x.conn c
      match cn.nick with
      | none => x.panic "whois: own nick unwrap"
      | some myNick =>
        match Map.lookup myNick x.w.users with
        | none => x.panic "whois: users.get(nick).unwrap"
        | some user =>
          ((whoisNicks masks x.w.users).foldl (fun x n => whoisOne cfg cn user n x) x).reply cfg
            (RplEndOfWhoIs318 cn.clientName (joinWith [','] masks)) := rfl

theorem dedup_filter (q : Str → Bool) (l : List Str) : dedup (l.filter q) = (dedup l).filter q := by
  induction l with
  | nil => rfl
  | cons a l ih =>
    simp only [List.filter_cons, dedup]
    cases hq : q a with
    | true =>
      simp only [↓reduceIte, dedup, ih, List.filter_filter]
      congr 1
      apply List.filter_congr
      intro z _
      exact Bool.and_comm _ _
    | false =>
      simp only [Bool.false_eq_true, ↓reduceIte, ih, List.filter_filter]
      apply List.filter_congr
      intro z _
      by_cases hz : z = a
      · subst hz; simp [hq]
      · simp [hz]

theorem whoisNicks_erase (masks : List Str) (v : Str) (U : Map User) :
    whoisNicks masks (Map.erase v U) = (whoisNicks masks U).filter (· != v) := by
  unfold whoisNicks
  simp only
  rw [← dedup_filter, List.filter_append]
  congr 2
  · rw [List.filter_filter]
    apply List.filter_congr
    intro m _
    rw [contains_erase]
    cases (containsChar '*' m || containsChar '?' m) <;> cases (m != v) <;> simp
  · split
    · rfl
    · rw [Map.keys_erase, List.filter_filter, List.filter_filter]
      apply List.filter_congr
      intro z _
      exact Bool.and_comm _ _

theorem whoisChans_hideUser (cn : Conn) (nick v : Str) (hne : nick ≠ v) (chans : KSet) :
    whoisChans cn nick chans (stripUserC v Ch) = whoisChans cn nick chans Ch := by
  unfold whoisChans
  apply List.map_congr_left
  intro chn _
  rw [lookup_stripUserC]
  cases Map.lookup chn Ch with
  | none => rfl
  | some ch =>
    have e1 : (stripMember v ch).users = Map.erase v ch.users := rfl
    have e2 : (stripMember v ch).modes.secret = ch.modes.secret := rfl
    simp only [Option.map_some, e1, e2, Map.lookup_erase_ne nick v ch.users (Ne.symm hne)]

theorem whoisOne_hidden (cfg : Cfg) (cn : Conn) (user vu : User) (v : Str) (x : Ctx)
    (hv : Map.lookup v x.w.users = some vu) (hinv : vu.modes.invisible = true)
    (hdis : KSet.disjoint vu.channels user.channels = true) :
    whoisOne cfg cn user v x = x := by
  rw [whoisOne_eq, hv]
  simp [hinv, hdis]

theorem whoisOne_sim_hideUser (cfg : Cfg) (cn : Conn) (user : User) (n v : Str) (hne : n ≠ v)
    (h : Sim U (Map.erase v U) Ch (stripUserC v Ch) K x y) :
    Sim U (Map.erase v U) Ch (stripUserC v Ch) K
      (whoisOne cfg cn user n x) (whoisOne cfg cn user n y) := by
  rw [whoisOne_eq, whoisOne_eq, h.xu, h.yu, Map.lookup_erase_ne n v U (Ne.symm hne)]
  cases Map.lookup n U with
  | none => exact h.panic _ _
  | some au =>
    simp only
    split
    · exact h
    · apply whoisTail_sim cfg cn n au au rfl rfl
      · rw [whoisChans_hideUser cn n v hne]
      · exact whoisHead_sim cfg cn n au au rfl rfl rfl rfl h

theorem whoisFold_sim_hideUser (cfg : Cfg) (cn : Conn) (user vu : User) (v : Str)
    (hv : Map.lookup v U = some vu) (hinv : vu.modes.invisible = true)
    (hdis : KSet.disjoint vu.channels user.channels = true) (nicks : List Str)
    (h : Sim U (Map.erase v U) Ch (stripUserC v Ch) K x y) :
    Sim U (Map.erase v U) Ch (stripUserC v Ch) K
      (nicks.foldl (fun x n => whoisOne cfg cn user n x) x)
      ((nicks.filter (· != v)).foldl (fun x n => whoisOne cfg cn user n x) y) := by
  induction nicks generalizing x y with
  | nil => exact h
  | cons n nicks ih =>
    simp only [List.filter_cons, List.foldl_cons]
    by_cases hk : n = v
    · subst hk
      simp only [bne_self_eq_false, Bool.false_eq_true, ↓reduceIte]
      rw [whoisOne_hidden cfg cn user vu n x (by rw [h.xu]; exact hv) hinv hdis]
      exact ih h
    · have : (n != v) = true := by simp [hk]
      simp only [this, ↓reduceIte, List.foldl_cons]
      exact ih (whoisOne_sim_hideUser cfg cn user n v hk h)

theorem processWhois_sim_hideUser (cfg : Cfg) (c : Nat) (v : Str) (vu : User) (masks : List Str)
    (hv : Map.lookup v U = some vu) (hinv : vu.modes.invisible = true)
    (hobs : ∀ n, (connOf K c).nick = some n → n ≠ v ∧
      ∀ u, Map.lookup n U = some u → KSet.disjoint vu.channels u.channels = true)
    (h : Sim U (Map.erase v U) Ch (stripUserC v Ch) K x y) :
    Sim U (Map.erase v U) Ch (stripUserC v Ch) K
      (processWhois cfg c none masks x) (processWhois cfg c none masks y) := by
  rw [processWhois_eq, processWhois_eq]
  simp only [h.conn c]
  rw [h.connX c]
  cases hnick : (connOf K c).nick with
  | none => exact h.panic _ _
  | some nick =>
    obtain ⟨hne, hd⟩ := hobs nick hnick
    simp only
    rw [h.xu, h.yu, Map.lookup_erase_ne nick v U (Ne.symm hne)]
    cases hlu : Map.lookup nick U with
    | none => exact h.panic _ _
    | some user =>
      simp only
      apply Sim.reply
      rw [whoisNicks_erase]
      exact whoisFold_sim_hideUser cfg _ user vu v hv hinv (hd user hlu) _ h

end hideUser

/-! ## a channel without members is unobservable (except by explicit NAMES when it is secret)

  Used for the reading of "the invisible user is not connected" in which the ad-hoc channels
  that only `v` was on do not exist either. -/

section emptyChan
variable {U : Map User} {Ch : Map Channel} {K : List Conn} {x y : Ctx}

theorem sendWhoInfo_sim_same {U' : Map User} {Ch' : Map Channel} (cfg : Cfg) (cn : Conn)
    (chan : Option (Str × ChanUserModes)) (n : Str) (u user : User)
    (h : Sim U U' Ch Ch' K x y) :
    Sim U U' Ch Ch' K (sendWhoInfo cfg cn chan n u user x) (sendWhoInfo cfg cn chan n u user y) := by
  unfold sendWhoInfo
  split
  · exact h.reply cfg _
  · exact h

theorem sendNames_empty (cfg : Cfg) (c : Nat) (chn : Str) (E : Channel) (x : Ctx)
    (hE : E.users = []) : sendNamesFromChannel cfg c chn E false x = x := by
  rw [sendNames_eq, namesLines_eq]
  simp [namesShown, namesVisible, namesVis, namesFilter, hE, chunks, chunksAux]

theorem sendNames_empty_end (cfg : Cfg) (c : Nat) (chn : Str) (E : Channel) (x : Ctx)
    (hE : E.users = []) (hs : E.modes.secret = false) :
    sendNamesFromChannel cfg c chn E true x =
      x.reply cfg (RplEndOfNames366 (x.conn c).clientName chn) := by
  rw [sendNames_eq, namesLines_eq]
  simp [namesShown, namesVisible, namesVis, namesFilter, hE, hs, chunks, chunksAux]

theorem sendNames_sim_same {Ch' : Map Channel} (cfg : Cfg) (c : Nat) (chn : Str) (ch : Channel)
    (e : Bool) (h : Sim U U Ch Ch' K x y) :
    Sim U U Ch Ch' K (sendNamesFromChannel cfg c chn ch e x) (sendNamesFromChannel cfg c chn ch e y) := by
  rw [sendNames_eq, sendNames_eq, h.conn c, h.xu, h.yu]
  have hl := namesLines_sim cfg (x.conn c) chn ch ch U U rfl rfl h
  split
  · cases e
    · simpa using hl
    · simpa using hl.reply cfg _
  · exact h

theorem namesAll_sim_empty {Ch' : Map Channel} (cfg : Cfg) (c : Nat) (Y : Str) (l : Map Channel)
    (hE : ∀ p ∈ l, p.1 = Y → p.2.users = [])
    (h : Sim U U Ch Ch' K x y) :
    Sim U U Ch Ch' K
      (l.foldl (fun x (p : Str × Channel) => sendNamesFromChannel cfg c p.1 p.2 false x) x)
      ((Map.erase Y l).foldl (fun x (p : Str × Channel) =>
          sendNamesFromChannel cfg c p.1 p.2 false x) y) := by
  induction l generalizing x y with
  | nil => exact h
  | cons p l ih =>
    obtain ⟨k, ch⟩ := p
    have hE' : ∀ p ∈ l, p.1 = Y → p.2.users = [] := fun p hp => hE p (List.mem_cons_of_mem _ hp)
    simp only [Map.erase, List.foldl_cons]
    by_cases hk : k = Y
    · simp only [hk, ↓reduceIte]
      rw [sendNames_empty cfg c Y ch x (hE (k, ch) List.mem_cons_self hk)]
      exact ih hE' h
    · simp only [hk, ↓reduceIte, List.foldl_cons]
      exact ih hE' (sendNames_sim_same cfg c k ch false h)

theorem namesSome_sim_empty (cfg : Cfg) (c : Nat) (Y : Str) (E : Channel) (chs : List Str)
    (hY : Map.lookup Y Ch = some E) (hE : E.users = [])
    (hok : E.modes.secret = false ∨ Y ∉ chs)
    (h : Sim U U Ch (Map.erase Y Ch) K x y) :
    Sim U U Ch (Map.erase Y Ch) K
      (chs.foldl (fun x chn =>
          match Map.lookup chn x.w.channels with
          | some ch => sendNamesFromChannel cfg c chn ch true x
          | none => x.reply cfg (RplEndOfNames366 (connOf K c).clientName chn)) x)
      (chs.foldl (fun x chn =>
          match Map.lookup chn x.w.channels with
          | some ch => sendNamesFromChannel cfg c chn ch true x
          | none => x.reply cfg (RplEndOfNames366 (connOf K c).clientName chn)) y) := by
  induction chs generalizing x y with
  | nil => exact h
  | cons chn chs ih =>
    simp only [List.foldl_cons]
    have hok' : E.modes.secret = false ∨ Y ∉ chs := by
      rcases hok with h1 | h2
      · exact Or.inl h1
      · exact Or.inr (fun hm => h2 (List.mem_cons_of_mem _ hm))
    apply ih hok'
    rw [h.xc, h.yc]
    by_cases hk : chn = Y
    · subst hk
      have hs : E.modes.secret = false := by
        rcases hok with h1 | h2
        · exact h1
        · exact absurd List.mem_cons_self h2
      simp only [hY, Map.lookup_erase_eq]
      rw [sendNames_empty_end cfg c chn E x hE hs, h.connX c]
      exact h.reply cfg _
    · rw [Map.lookup_erase_ne chn Y Ch (Ne.symm hk)]
      split
      · exact sendNames_sim_same cfg c chn _ true h
      · exact h.reply cfg _

theorem processNames_sim_empty (cfg : Cfg) (c : Nat) (Y : Str) (E : Channel) (chs : List Str)
    (hY : Map.lookup Y Ch = some E) (hE : E.users = []) (hn : (Map.keys Ch).Nodup)
    (hok : E.modes.secret = false ∨ Y ∉ chs)
    (h : Sim U U Ch (Map.erase Y Ch) K x y) :
    Sim U U Ch (Map.erase Y Ch) K (processNames cfg c chs x) (processNames cfg c chs y) := by
  unfold processNames
  simp only [h.conn c]
  rw [h.connX c]
  split
  · exact namesSome_sim_empty cfg c Y E chs hY hE hok h
  · simp only [h.xc, h.yc]
    apply Sim.reply
    apply namesAll_sim_empty cfg c Y Ch _ h
    intro p hp hk
    rw [entry_of_lookup_nodup Y E Ch hn hY p hp hk]; exact hE

theorem whoWild_sim_same {Ch' : Map Channel} (cfg : Cfg) (cn : Conn) (mask : Str) (user : User)
    (l : Map User) (h : Sim U U Ch Ch' K x y) :
    Sim U U Ch Ch' K
      (l.foldl (fun x (p : Str × User) =>
        if matchWildcard mask p.1 || matchWildcard mask p.2.source || matchWildcard mask p.2.realname
        then sendWhoInfo cfg cn none p.1 p.2 user x else x) x)
      (l.foldl (fun x (p : Str × User) =>
        if matchWildcard mask p.1 || matchWildcard mask p.2.source || matchWildcard mask p.2.realname
        then sendWhoInfo cfg cn none p.1 p.2 user x else x) y) := by
  induction l generalizing x y with
  | nil => exact h
  | cons p l ih =>
    simp only [List.foldl_cons]
    apply ih
    split
    · exact sendWhoInfo_sim_same cfg cn none _ _ user h
    · exact h

theorem whoChan_sim_same {Ch' : Map Channel} (cfg : Cfg) (cn : Conn) (mask : Str) (user : User)
    (l : Map ChanUserModes) (h : Sim U U Ch Ch' K x y) :
    Sim U U Ch Ch' K
      (l.foldl (fun x (p : Str × ChanUserModes) =>
        match Map.lookup p.1 x.w.users with
        | some uu => sendWhoInfo cfg cn (some (mask, p.2)) p.1 uu user x
        | none => x.panic "who: member without user") x)
      (l.foldl (fun x (p : Str × ChanUserModes) =>
        match Map.lookup p.1 x.w.users with
        | some uu => sendWhoInfo cfg cn (some (mask, p.2)) p.1 uu user x
        | none => x.panic "who: member without user") y) := by
  induction l generalizing x y with
  | nil => exact h
  | cons p l ih =>
    simp only [List.foldl_cons]
    apply ih
    rw [h.xu, h.yu]
    cases Map.lookup p.1 U with
    | none => exact h.panic _ _
    | some uu => exact sendWhoInfo_sim_same cfg cn _ _ uu user h

theorem processWho_sim_empty (cfg : Cfg) (c : Nat) (Y : Str) (E : Channel) (mask : Str)
    (hY : Map.lookup Y Ch = some E) (hE : E.users = [])
    (h : Sim U U Ch (Map.erase Y Ch) K x y) :
    Sim U U Ch (Map.erase Y Ch) K (processWho cfg c mask x) (processWho cfg c mask y) := by
  unfold processWho
  simp only [h.conn c]
  rw [h.connX c]
  cases (connOf K c).nick with
  | none => exact h.panic _ _
  | some nick =>
    simp only
    rw [h.xu, h.yu]
    cases Map.lookup nick U with
    | none => exact h.panic _ _
    | some user =>
      simp only
      apply Sim.reply
      by_cases hw : (containsChar '*' mask || containsChar '?' mask) = true
      · simp only [hw, ↓reduceIte]
        exact whoWild_sim_same cfg _ mask user U h
      · simp only [hw, Bool.false_eq_true, ↓reduceIte]
        by_cases hc : validateChannel mask = true
        · simp only [hc, ↓reduceIte, h.xc, h.yc]
          by_cases hm : mask = Y
          · subst hm
            simp only [hY, Map.lookup_erase_eq, hE, List.foldl_nil, ite_self]
            exact h
          · rw [Map.lookup_erase_ne mask Y Ch (Ne.symm hm)]
            cases Map.lookup mask Ch with
            | none => exact h
            | some ch =>
              simp only
              split
              · exact whoChan_sim_same cfg _ mask user ch.users h
              · exact h
        · simp only [hc, Bool.false_eq_true, ↓reduceIte]
          by_cases hu : validateUsername mask = true
          · simp only [hu, ↓reduceIte]
            cases Map.lookup mask U with
            | none => exact h
            | some au => exact sendWhoInfo_sim_same cfg _ none mask au user h
          · simp only [hu, Bool.false_eq_true, ↓reduceIte]
            exact h

theorem whoisShown_empty (cn : Conn) (nick Y : Str) (E : Channel) (chans : KSet)
    (hY : Map.lookup Y Ch = some E) (hE : E.users = []) :
    whoisShown (whoisChans cn nick chans (Map.erase Y Ch)) =
      whoisShown (whoisChans cn nick chans Ch) := by
  unfold whoisShown whoisChans
  induction chans with
  | nil => rfl
  | cons chn chans ih =>
    simp only [List.map_cons, List.filterMap_cons]
    rw [ih]
    by_cases hk : chn = Y
    · subst hk
      simp only [Map.lookup_erase_eq, hY, hE, Map.lookup_nil]
      cases E.modes.secret <;> rfl
    · rw [Map.lookup_erase_ne chn Y Ch (Ne.symm hk)]

theorem whoisFold_sim_empty (cfg : Cfg) (cn : Conn) (user : User) (Y : Str) (E : Channel)
    (hY : Map.lookup Y Ch = some E) (hE : E.users = []) (nicks : List Str)
    (h : Sim U U Ch (Map.erase Y Ch) K x y) :
    Sim U U Ch (Map.erase Y Ch) K
      (nicks.foldl (fun x n => whoisOne cfg cn user n x) x)
      (nicks.foldl (fun x n => whoisOne cfg cn user n x) y) := by
  induction nicks generalizing x y with
  | nil => exact h
  | cons n nicks ih =>
    simp only [List.foldl_cons]
    apply ih
    rw [whoisOne_eq, whoisOne_eq, h.xu, h.yu]
    cases Map.lookup n U with
    | none => exact h.panic _ _
    | some au =>
      simp only
      split
      · exact h
      · apply whoisTail_sim cfg cn n au au rfl rfl
        · exact whoisShown_empty cn n Y E au.channels hY hE
        · exact whoisHead_sim cfg cn n au au rfl rfl rfl rfl h

theorem processWhois_sim_empty (cfg : Cfg) (c : Nat) (Y : Str) (E : Channel) (masks : List Str)
    (hY : Map.lookup Y Ch = some E) (hE : E.users = [])
    (h : Sim U U Ch (Map.erase Y Ch) K x y) :
    Sim U U Ch (Map.erase Y Ch) K
      (processWhois cfg c none masks x) (processWhois cfg c none masks y) := by
  rw [processWhois_eq, processWhois_eq]
  simp only [h.conn c]
  rw [h.connX c]
  cases (connOf K c).nick with
  | none => exact h.panic _ _
  | some nick =>
    simp only
    rw [h.xu, h.yu]
    cases Map.lookup nick U with
    | none => exact h.panic _ _
    | some user =>
      simp only
      apply Sim.reply
      exact whoisFold_sim_empty cfg _ user Y E hY hE _ h

end emptyChan

theorem keys_stripUserC (v : Str) (cs : Map Channel) : Map.keys (stripUserC v cs) = Map.keys cs := by
  simp [Map.keys, stripUserC, List.map_map, Function.comp_def]

/-! ## what the invariant gives about the observer -/

/-- an outsider of channel `X` does not have `X` in its own channel set (membership symmetry) -/
theorem not_mem_of_outside {w : World} (hI : InvCore w) (X : Str) (C : Channel) (c : Nat)
    (hX : Map.lookup X w.channels = some C)
    (hout : ∀ n, (connOf w.conns c).nick = some n → Map.contains n C.users = false) :
    ∀ n u, (connOf w.conns c).nick = some n → Map.lookup n w.users = some u →
      KSet.mem X u.channels = false := by
  intro n u hn hu
  cases hm : KSet.mem X u.channels with
  | false => rfl
  | true =>
    obtain ⟨C', hC', hc⟩ := (hI.memberSym n u X hu).mp hm
    rw [hX] at hC'
    cases hC'
    rw [hout n hn] at hc
    exact absurd hc (by simp)

theorem mem_false_of_disjoint (a b : KSet) (z : Str) (hd : KSet.disjoint a b = true)
    (hz : KSet.mem z a = true) : KSet.mem z b = false := by
  unfold KSet.disjoint at hd
  have := List.all_eq_true.mp hd z ((KSet.mem_iff z a).mp hz)
  simpa using this

/-- a stranger to `v` is on none of `v`'s channels -/
theorem inChan_false_of_stranger {w : World} (hI : InvCore w) (v : Str) (vu : User) (c : Nat)
    (hv : Map.lookup v w.users = some vu)
    (hobs : ∀ n, (connOf w.conns c).nick = some n → n ≠ v ∧
      ∀ u, Map.lookup n w.users = some u → KSet.disjoint vu.channels u.channels = true) :
    ∀ chn ch, Map.lookup chn w.channels = some ch → Map.contains v ch.users = true →
      inChan (connOf w.conns c) ch.users = false := by
  intro chn ch hch hvin
  unfold inChan
  split
  · rename_i n hn
    cases hc : Map.contains n ch.users with
    | false => rfl
    | true =>
      obtain ⟨u, hu⟩ := (Map.contains_iff n w.users).mp (hI.memberIsUser chn ch n hch hc)
      have h1 : KSet.mem chn u.channels = true := (hI.memberSym n u chn hu).mpr ⟨ch, hch, hc⟩
      have h2 : KSet.mem chn vu.channels = true := (hI.memberSym v vu chn hv).mpr ⟨ch, hch, hvin⟩
      have := mem_false_of_disjoint _ _ chn ((hobs n hn).2 u hu) h2
      rw [h1] at this
      exact absurd this (by simp)
  · rfl

/-! ## the executable invariant check is sound -/

theorem ite_nil_iff (b : Bool) (s : String) :
    (if b = true then ([] : List String) else [s]) = [] ↔ b = true := by
  cases b <;> simp

theorem nodup_of_nodupStrs (l : List Str) (h : nodupStrs l = true) : l.Nodup := by
  induction l with
  | nil => exact List.nodup_nil
  | cons a l ih =>
    simp only [nodupStrs, Bool.and_eq_true, Bool.not_eq_true', List.any_eq_false, beq_iff_eq] at h
    exact List.nodup_cons.mpr ⟨fun hm => h.1 a hm rfl, ih h.2⟩

theorem nodup_of_nodupNats (l : List Nat) (h : nodupNats l = true) : l.Nodup := by
  induction l with
  | nil => exact List.nodup_nil
  | cons a l ih =>
    simp only [nodupNats, Bool.and_eq_true, Bool.not_eq_true', List.any_eq_false, beq_iff_eq] at h
    exact List.nodup_cons.mpr ⟨fun hm => h.1 a hm rfl, ih h.2⟩

theorem mem_of_lookup {α : Type} (k : Str) (v : α) (m : Map α) (h : Map.lookup k m = some v) :
    (k, v) ∈ m := by
  induction m with
  | nil => simp at h
  | cons p m ih =>
    obtain ⟨k', v'⟩ := p
    simp only [Map.lookup] at h
    split at h
    · rename_i e; cases h; subst e; exact List.mem_cons_self
    · exact List.mem_cons_of_mem _ (ih h)

theorem all_lookup {α : Type} (m : Map α) (f : Str × α → Bool) (h : m.all f = true)
    (k : Str) (v : α) (hl : Map.lookup k m = some v) : f (k, v) = true :=
  List.all_eq_true.mp h (k, v) (mem_of_lookup k v m hl)

theorem rank_iff_of_check (lst : KSet) (users : Map ChanUserModes) (flag : ChanUserModes → Bool)
    (h : (lst.all (fun n => match Map.lookup n users with | some m => flag m | none => false) &&
      users.all (fun p => !flag p.2 || KSet.mem p.1 lst)) = true) (n : Str) :
    KSet.mem n lst = true ↔ ∃ m, Map.lookup n users = some m ∧ flag m = true := by
  rw [Bool.and_eq_true] at h
  constructor
  · intro hm
    have := List.all_eq_true.mp h.1 n ((KSet.mem_iff n lst).mp hm)
    cases hl : Map.lookup n users with
    | none => simp [hl] at this
    | some m => exact ⟨m, rfl, by simpa [hl] using this⟩
  · rintro ⟨m, hl, hf⟩
    have := all_lookup users _ h.2 n m hl
    simpa [hf] using this

theorem rankMirror_of_check (C : Channel) (h : rankMirrorCheck C = true) : RankMirror C := by
  unfold rankMirrorCheck at h
  simp only [Bool.and_eq_true] at h
  obtain ⟨⟨⟨⟨⟨h1a, h1b⟩, h2a, h2b⟩, h3a, h3b⟩, h4a, h4b⟩, h5a, h5b⟩ := h
  exact
    { founders := rank_iff_of_check _ _ (·.founder) (by rw [Bool.and_eq_true]; exact ⟨h1a, h1b⟩)
      protecteds := rank_iff_of_check _ _ (·.prot) (by rw [Bool.and_eq_true]; exact ⟨h2a, h2b⟩)
      operators := rank_iff_of_check _ _ (·.operator) (by rw [Bool.and_eq_true]; exact ⟨h3a, h3b⟩)
      halfOperators := rank_iff_of_check _ _ (·.halfOper) (by rw [Bool.and_eq_true]; exact ⟨h4a, h4b⟩)
      voices := rank_iff_of_check _ _ (·.voice) (by rw [Bool.and_eq_true]; exact ⟨h5a, h5b⟩) }

/-- The executable check `invCoreCheck` (run by the driver on every model state) is sound for
    `InvCore`, given additionally that no user has a fired quit signal (the check does not
    look at `killedFlagged`). -/
theorem invCore_of_check (w : World) (h : invCoreCheck w = [])
    (hk : w.users.all (fun p => !p.2.killed) = true) : InvCore w := by
  unfold invCoreCheck at h
  simp only [List.append_eq_nil_iff, ite_nil_iff] at h
  obtain ⟨⟨⟨⟨⟨⟨⟨⟨⟨⟨⟨⟨⟨⟨⟨⟨⟨h1, h2⟩, h3⟩, h4⟩, h5⟩, h6⟩, h7⟩, h8⟩, h9⟩, h10⟩, h11⟩, h12⟩, h13⟩, h14⟩,
    h15⟩, h16⟩, h17⟩, h18⟩ := h
  refine
    { noPanic := by simpa using h1
      usersNodup := nodup_of_nodupStrs _ h2
      chansNodup := nodup_of_nodupStrs _ h3
      connsNodup := nodup_of_nodupNats _ h4
      membersNodup := fun ch C hl => nodup_of_nodupStrs _ (all_lookup _ _ h5 ch C hl)
      userChansNodup := fun n u hl => nodup_of_nodupStrs _ (all_lookup _ _ h6 n u hl)
      authOwns := ?_
      userOwned := ?_
      memberSym := ?_
      memberIsUser := ?_
      rankMirror := fun ch C hl => rankMirror_of_check C (all_lookup _ _ h11 ch C hl)
      noEmptyAdHoc := ?_
      invisibleCount := by simpa using h13
      operatorsCount := by simpa using h14
      wallopsSet := ?_
      maxUsers := by simpa using h16
      resources := ?_
      slots := by simpa using h18
      killedFlagged := ?_ }
  · intro cn hcn ha
    have := List.all_eq_true.mp h7 cn hcn
    simp only [ha, Bool.not_true, Bool.false_or] at this
    cases hn : cn.nick with
    | none => simp [hn] at this
    | some n =>
      cases hl : Map.lookup n w.users with
      | none => simp [hn, hl] at this
      | some u => exact ⟨n, u, rfl, hl, by simpa [hn, hl] using this⟩
  · intro n u hl
    have := all_lookup _ _ h8 n u hl
    obtain ⟨cn, hcn, hc⟩ := List.any_eq_true.mp this
    simp only [Bool.and_eq_true, beq_iff_eq] at hc
    exact ⟨cn, hcn, hc.1.1, hc.1.2, hc.2⟩
  · intro n u ch hl
    have := all_lookup _ _ h9 n u hl
    rw [Bool.and_eq_true] at this
    constructor
    · intro hm
      have h' := List.all_eq_true.mp this.1 ch ((KSet.mem_iff ch u.channels).mp hm)
      cases hc : Map.lookup ch w.channels with
      | none => simp [hc] at h'
      | some C => exact ⟨C, rfl, by simpa [hc] using h'⟩
    · rintro ⟨C, hc, hin⟩
      have h' := all_lookup _ _ this.2 ch C hc
      simpa [hin] using h'
  · intro ch C n hl hin
    have h' := all_lookup _ _ h10 ch C hl
    obtain ⟨m, hm⟩ := (Map.contains_iff n C.users).mp hin
    exact all_lookup _ _ h' n m hm
  · intro ch C hl he
    have h' := all_lookup _ _ h12 ch C hl
    simpa [he] using h'
  · intro n
    rw [Bool.and_eq_true] at h15
    constructor
    · intro hm
      have h' := List.all_eq_true.mp h15.1 n ((KSet.mem_iff n w.wallops).mp hm)
      cases hl : Map.lookup n w.users with
      | none => simp [hl] at h'
      | some u => exact ⟨u, rfl, by simpa [hl] using h'⟩
    · rintro ⟨u, hl, hw⟩
      have h' := all_lookup _ _ h15.2 n u hl
      simpa [hw] using h'
  · intro cn hcn ha
    have := List.all_eq_true.mp h17 cn hcn
    simp only [ha, Bool.false_or, Bool.and_eq_true] at this
    exact ⟨this.1.1, this.1.2, this.2⟩
  · intro n u hl hkk
    have := all_lookup _ _ hk n u hl
    simp [hkk] at this

end Irc.C12
