/-
  Property C10.  "A channel message is delivered only if the sender is a member or the channel
  accepts outside messages (neither +n nor +s), the sender's nick!user@host is not banned
  (unless excepted) and, on a moderated (+m) channel, the sender has voice or a higher rank;
  otherwise nobody receives it and a PRIVMSG sender is told ERR_CANNOTSENDTOCHAN.  A
  well-formed NOTICE is never answered with an error or an automatic reply whatever its target
  or outcome, whereas a PRIVMSG to a user who is away is answered with that user's away text."

  Model: `Irc.canSend`, `Irc.privmsgTarget`, `Irc.processPrivmsgNotice` (rest_cmds.rs
  `process_privmsg_notice`).  Helper lemmas: `Irc/Props/MsgLemmas.lean`.

  Theorems (all for ALL contexts/worlds, no invariant needed):
    `canSend_iff`                 the model's test = `Spec.maySpeak` (over `glob`, `Map.lookup`)
    `rejected_nobody_receives`    not allowed to speak: queue/world untouched, 404 iff PRIVMSG
    `delivered_only_if_maySpeak`  contrapositive
    `notice_silent(_target)`      NOTICE never writes to the sender's buffer
    `away_reply`, `notice_to_user`, `unknown_nick`, `unknown_channel`
    `privmsg_answers`             whole command: the sender's buffer grows by exactly the
                                  per-target answers (403 / 404 / 401 / 301 / nothing), in order
-/
import Irc.Props.MsgLemmas
namespace Irc.C10
open Irc Irc.Reply

/-! ## 1. who may speak on a channel -/

/-- The three conditions of the statement, written over `Map.lookup` and the spec `glob`. -/
def Spec.maySpeak (C : Channel) (nick source : Str) : Prop :=
  ((∃ m, Map.lookup nick C.users = some m) ∨
      ¬ (C.modes.noExternalMessages = true ∨ C.modes.secret = true)) ∧
  ¬ (∃ b ∈ C.modes.ban, glob b source = true ∧
      ¬ ∃ e ∈ C.modes.exception, glob e source = true) ∧
  (¬ C.modes.moderated = true ∨
    ∃ m, Map.lookup nick C.users = some m ∧
      (m.voice = true ∨ m.halfOper = true ∨ m.operator = true ∨ m.prot = true ∨
        m.founder = true))

theorem canSend_iff (C : Channel) (nick source : Str) :
    canSend C nick source = true ↔ Spec.maySpeak C nick source := by
  have hb := Msg.banned_iff C.modes source
  have hb' : (∃ b ∈ C.modes.ban, glob b source = true ∧
      ¬ ∃ e ∈ C.modes.exception, glob e source = true) ↔ C.modes.banned source = true := by
    rw [hb]
    constructor
    · rintro ⟨b, hb1, hb2, hb3⟩; exact ⟨⟨b, hb1, hb2⟩, hb3⟩
    · rintro ⟨⟨b, hb1, hb2⟩, hb3⟩; exact ⟨b, hb1, hb2, hb3⟩
  unfold canSend Spec.maySpeak
  rw [hb']
  cases hl : Map.lookup nick C.users with
  | none =>
    cases C.modes.noExternalMessages <;> cases C.modes.secret <;>
      cases C.modes.banned source <;> cases C.modes.moderated <;> simp
  | some m =>
    cases C.modes.noExternalMessages <;> cases C.modes.secret <;>
      cases C.modes.banned source <;> cases C.modes.moderated <;>
      simp [ChanUserModes.isVoice] <;> grind

example : Spec.maySpeak Msg.Demo.chanC (str "bob") (str "bob!~u@h") :=
  (canSend_iff _ _ _).mp (by decide)
/-- carol has no rank on the moderated `#m`; bob is banned there and not a member. -/
example : ¬ Spec.maySpeak Msg.Demo.chanM (str "carol") (str "carol!~u@h") :=
  fun h => absurd ((canSend_iff _ _ _).mpr h) (by decide)
example : ¬ Spec.maySpeak Msg.Demo.chanM (str "bob") (str "bob!~u@h") :=
  fun h => absurd ((canSend_iff _ _ _).mpr h) (by decide)
example : Spec.maySpeak Msg.Demo.chanM (str "alice") (str "alice!~u@h") :=
  (canSend_iff _ _ _).mp (by decide)

/-! ## 2. a rejected channel message: nobody receives it, PRIVMSG gets 404, NOTICE nothing -/

/-- `:<server> 404 <client> <channel> :Cannot send to channel` -/
def Spec.err404 (cfg : Cfg) (client chan : Str) : Str :=
  str ":" ++ cfg.name ++ str " 404 " ++ client ++ str " " ++ chan ++ str " :Cannot send to channel"

/-- `:<server> 403 <client> <channel> :No such channel` -/
def Spec.err403 (cfg : Cfg) (client chan : Str) : Str :=
  str ":" ++ cfg.name ++ str " 403 " ++ client ++ str " " ++ chan ++ str " :No such channel"

/-- `:<server> 401 <client> <nick> :No such nick/channel` -/
def Spec.err401 (cfg : Cfg) (client nick : Str) : Str :=
  str ":" ++ cfg.name ++ str " 401 " ++ client ++ str " " ++ nick ++ str " :No such nick/channel"

/-- `:<server> 301 <client> <nick> :<away text>` -/
def Spec.rpl301 (cfg : Cfg) (client nick away : Str) : Str :=
  str ":" ++ cfg.name ++ str " 301 " ++ client ++ str " " ++ nick ++ str " :" ++ away

/-- the relayed line `:<source> PRIVMSG|NOTICE <target> :<text>` -/
def Spec.line (source : Str) (notice : Bool) (target text : Str) : Str :=
  str ":" ++ source ++ (if notice then str " NOTICE " else str " PRIVMSG ") ++ target ++
    str " :" ++ text

section
variable (cfg : Cfg) (c : Nat) (nick : Str) (notice : Bool) (text target : Str) (x : Ctx)

/-- For a channel target whose channel exists and on which the sender may not speak: nothing
    is queued to anybody, the world is untouched, and the sender's own buffer grows by exactly
    the 404 line for PRIVMSG and by nothing for NOTICE. -/
theorem rejected_nobody_receives {C : Channel}
    (hc : (getPrivmsgTargetType target).1.channel = true)
    (hl : Map.lookup (getPrivmsgTargetType target).2 x.w.channels = some C)
    (hs : ¬ Spec.maySpeak C nick (x.conn c).source) :
    (privmsgTarget cfg c nick notice text target x).1.queued = x.queued ∧
    (privmsgTarget cfg c nick notice text target x).1.w = x.w ∧
    (privmsgTarget cfg c nick notice text target x).2 = false ∧
    (privmsgTarget cfg c nick notice text target x).1.direct =
      x.direct ++ (if notice = true then []
        else [Spec.err404 cfg (x.conn c).clientName (getPrivmsgTargetType target).2]) := by
  have hs' : canSend C nick (x.conn c).source = false := by
    rw [← canSend_iff] at hs; simpa using hs
  rw [Msg.privmsgTarget_chan_rejected cfg c nick notice text target x hc hl hs']
  cases notice
  · simp [Spec.err404, ErrCannotSendToChain404, Msg.str_colon, Msg.str_sp404]
  · simp

/-- contrapositive: if a channel target (existing channel) makes the queue grow at all, the
    sender was allowed to speak. -/
theorem delivered_only_if_maySpeak {C : Channel}
    (hc : (getPrivmsgTargetType target).1.channel = true)
    (hl : Map.lookup (getPrivmsgTargetType target).2 x.w.channels = some C)
    (hq : (privmsgTarget cfg c nick notice text target x).1.queued ≠ x.queued) :
    Spec.maySpeak C nick (x.conn c).source := by
  apply Classical.byContradiction
  intro hs
  exact hq (rejected_nobody_receives cfg c nick notice text target x hc hl hs).1

end

open Msg.Demo in
/-- the hypotheses are satisfiable: carol (no rank) speaks on the moderated `#m` -/
example : (getPrivmsgTargetType (str "#m")).1.channel = true ∧
    Map.lookup (getPrivmsgTargetType (str "#m")).2 x.w.channels = some chanM ∧
    canSend chanM (str "carol") (x.conn 3).source = false := by decide
open Msg.Demo in
example : (privmsgTarget cfg 3 (str "carol") false (str "hi") (str "#m") x).1.direct =
    [(str ":irc.irc " ++ Reply.ErrCannotSendToChain404 (client := str "carol") (channel := str "#m"))] ∧
    (privmsgTarget cfg 3 (str "carol") false (str "hi") (str "#m") x).1.queued = [] := by decide
open Msg.Demo in
example : (privmsgTarget cfg 3 (str "carol") true (str "hi") (str "#m") x).1.direct = [] ∧
    (privmsgTarget cfg 3 (str "carol") true (str "hi") (str "#m") x).1.queued = [] := by decide
open Msg.Demo in
/-- ... whereas the operator alice is heard by the other member -/
example : (privmsgTarget cfg 1 (str "alice") false (str "hi") (str "#m") x).1.queued =
    [(3, str ":alice!~u@h PRIVMSG #m :hi")] := by decide

/-! ## 3. NOTICE is never answered -/

/-- For EVERY context, target list and text: a NOTICE writes nothing at all to the sender's
    own socket buffer - no error numeric, no away reply.  (The sender's own *queue* can get a
    line only if the sender addresses itself by nick; that is a delivery, not a reply, and is
    described by C01.) -/
theorem notice_silent (cfg : Cfg) (c : Nat) (targets : List Str) (text : Str) (x : Ctx) :
    (processPrivmsgNotice cfg c targets text true x).direct = x.direct := by
  rw [Msg.processPrivmsgNotice_eq]
  split
  · rfl
  · rename_i nick _
    simp only
    split
    · rw [Ctx.panic_direct]; exact Msg.pmFold_notice_direct cfg c nick text _ _
    · exact Msg.pmFold_notice_direct cfg c nick text _ _

/-- the same per target, whatever the target is and whatever happens to it -/
theorem notice_silent_target (cfg : Cfg) (c : Nat) (nick text target : Str) (x : Ctx) :
    (privmsgTarget cfg c nick true text target x).1.direct = x.direct :=
  Msg.privmsgTarget_notice_direct cfg c nick text target x

open Msg.Demo in
/-- a NOTICE to: a channel that rejects it, an unknown channel, an unknown nick, an away user,
    and the sender itself: no reply; the two deliverable ones are queued. -/
example : (processPrivmsgNotice cfg 3 [str "#m", str "#nope", str "nobody", str "carol", str "bob"]
      (str "hi") true x).direct = [] ∧
    (processPrivmsgNotice cfg 3 [str "#m", str "#nope", str "nobody", str "carol", str "bob"]
      (str "hi") true x).queued =
      [(3, str ":carol!~u@h NOTICE carol :hi"), (2, str ":carol!~u@h NOTICE bob :hi")] := by
  decide
open Msg.Demo in
/-- the same targets as PRIVMSG: 404, 403, 401 and the away text -/
example : (processPrivmsgNotice cfg 3 [str "#m", str "#nope", str "nobody", str "carol", str "bob"]
      (str "hi") false x).direct =
      [(str ":irc.irc " ++ Reply.ErrCannotSendToChain404 (client := str "carol") (channel := str "#m")),
       (str ":irc.irc " ++ Reply.ErrNoSuchChannel403 (client := str "carol") (channel := str "#nope")),
       (str ":irc.irc " ++ Reply.ErrNoSuchNick401 (client := str "carol") (nick := str "nobody")),
       (str ":irc.irc " ++ Reply.RplAway301 (client := str "carol") (nick := str "carol") (message := str "gone fishing"))] := by
  decide

/-! ## 4. PRIVMSG to a user: away text; unknown targets -/

section
variable (cfg : Cfg) (c : Nat) (nick : Str) (notice : Bool) (text target : Str) (x : Ctx)

/-- PRIVMSG to an existing user `u`: exactly one line is queued, to `u`'s connection; the
    sender gets exactly the 301 line with `u`'s away text if `u` is away, and nothing otherwise. -/
theorem away_reply {u : User}
    (hc : (getPrivmsgTargetType target).1.channel = false)
    (hl : Map.lookup target x.w.users = some u) :
    (privmsgTarget cfg c nick false text target x).1.queued =
      x.queued ++ [(u.owner, Spec.line (x.conn c).source false target text)] ∧
    (privmsgTarget cfg c nick false text target x).1.w = x.w ∧
    (privmsgTarget cfg c nick false text target x).2 = true ∧
    (privmsgTarget cfg c nick false text target x).1.direct =
      x.direct ++ (match u.away with
        | some a => [Spec.rpl301 cfg (x.conn c).clientName target a]
        | none => []) := by
  rw [Msg.privmsgTarget_nick_ok cfg c nick false text target x hc hl]
  have hline : (':' :: ((x.conn c).source ++ ' ' :: Msg.msgBody false target text)) =
      Spec.line (x.conn c).source false target text := by
    simp [Spec.line, Msg.msgBody, Msg.str_colon, Msg.str_spPRIVMSG]
  cases ha : u.away with
  | none =>
    simp [Ctx.sendDisplay, Ctx.send_w_of_lookup x target _ hl, hline]
  | some a =>
    simp [Ctx.sendDisplay, Ctx.send_w_of_lookup x target _ hl, hline, Spec.rpl301, RplAway301,
      Msg.str_colon, Msg.str_sp301]

/-- the NOTICE counterpart: the line is delivered, nothing is answered even if `u` is away -/
theorem notice_to_user {u : User}
    (hc : (getPrivmsgTargetType target).1.channel = false)
    (hl : Map.lookup target x.w.users = some u) :
    (privmsgTarget cfg c nick true text target x).1.queued =
      x.queued ++ [(u.owner, Spec.line (x.conn c).source true target text)] ∧
    (privmsgTarget cfg c nick true text target x).1.w = x.w ∧
    (privmsgTarget cfg c nick true text target x).2 = true ∧
    (privmsgTarget cfg c nick true text target x).1.direct = x.direct := by
  rw [Msg.privmsgTarget_nick_ok cfg c nick true text target x hc hl]
  have hline : (':' :: ((x.conn c).source ++ ' ' :: Msg.msgBody true target text)) =
      Spec.line (x.conn c).source true target text := by
    simp [Spec.line, Msg.msgBody, Msg.str_colon, Msg.str_spNOTICE]
  simp [Ctx.sendDisplay, Ctx.send_w_of_lookup x target _ hl, hline]

/-- unknown nickname: PRIVMSG => exactly one 401, NOTICE => nothing; nothing queued. -/
theorem unknown_nick
    (hc : (getPrivmsgTargetType target).1.channel = false)
    (hl : Map.lookup target x.w.users = none) :
    (privmsgTarget cfg c nick notice text target x).1.queued = x.queued ∧
    (privmsgTarget cfg c nick notice text target x).1.w = x.w ∧
    (privmsgTarget cfg c nick notice text target x).2 = false ∧
    (privmsgTarget cfg c nick notice text target x).1.direct =
      x.direct ++ (if notice = true then []
        else [Spec.err401 cfg (x.conn c).clientName target]) := by
  rw [Msg.privmsgTarget_nick_missing cfg c nick notice text target x hc hl]
  cases notice
  · simp [Spec.err401, ErrNoSuchNick401, Msg.str_colon, Msg.str_sp401]
  · simp

/-- unknown channel: PRIVMSG => exactly one 403, NOTICE => nothing; nothing queued. -/
theorem unknown_channel
    (hc : (getPrivmsgTargetType target).1.channel = true)
    (hl : Map.lookup (getPrivmsgTargetType target).2 x.w.channels = none) :
    (privmsgTarget cfg c nick notice text target x).1.queued = x.queued ∧
    (privmsgTarget cfg c nick notice text target x).1.w = x.w ∧
    (privmsgTarget cfg c nick notice text target x).2 = false ∧
    (privmsgTarget cfg c nick notice text target x).1.direct =
      x.direct ++ (if notice = true then []
        else [Spec.err403 cfg (x.conn c).clientName (getPrivmsgTargetType target).2]) := by
  rw [Msg.privmsgTarget_chan_missing cfg c nick notice text target x hc hl]
  cases notice
  · simp [Spec.err403, ErrNoSuchChannel403, Msg.str_colon, Msg.str_sp403]
  · simp

end

open Msg.Demo in
example : (getPrivmsgTargetType (str "carol")).1.channel = false ∧
    (Map.lookup (str "carol") x.w.users).map (·.away) = some (some (str "gone fishing")) := by
  decide
open Msg.Demo in
example : (privmsgTarget cfg 1 (str "alice") false (str "hi") (str "carol") x).1.direct =
      [(str ":irc.irc " ++ Reply.RplAway301 (client := str "alice") (nick := str "carol") (message := str "gone fishing"))] ∧
    (privmsgTarget cfg 1 (str "alice") false (str "hi") (str "carol") x).1.queued =
      [(3, str ":alice!~u@h PRIVMSG carol :hi")] := by decide
open Msg.Demo in
example : (privmsgTarget cfg 1 (str "alice") false (str "hi") (str "bob") x).1.direct = [] := by
  decide
open Msg.Demo in
example : (getPrivmsgTargetType (str "nobody")).1.channel = false ∧
    Map.lookup (str "nobody") x.w.users = none ∧
    (getPrivmsgTargetType (str "#nope")).1.channel = true ∧
    Map.lookup (getPrivmsgTargetType (str "#nope")).2 x.w.channels = none := by decide

/-! ## 5. the whole PRIVMSG command: what the sender is told, in total -/

/-- `a` is the answer the sender of a PRIVMSG gets for `target` (written from the statement). -/
def Spec.answers (cfg : Cfg) (w : World) (client nick source target : Str) (a : List Str) : Prop :=
  if (getPrivmsgTargetType target).1.channel = true then
    (Map.lookup (getPrivmsgTargetType target).2 w.channels = none ∧
      a = [Spec.err403 cfg client (getPrivmsgTargetType target).2]) ∨
    (∃ C, Map.lookup (getPrivmsgTargetType target).2 w.channels = some C ∧
      ((Spec.maySpeak C nick source ∧ a = []) ∨
       (¬ Spec.maySpeak C nick source ∧
          a = [Spec.err404 cfg client (getPrivmsgTargetType target).2])))
  else
    (Map.lookup target w.users = none ∧ a = [Spec.err401 cfg client target]) ∨
    (∃ u, Map.lookup target w.users = some u ∧
      ((u.away = none ∧ a = []) ∨
       (∃ txt, u.away = some txt ∧ a = [Spec.rpl301 cfg client target txt])))

/-- For EVERY context: the sender's buffer grows by exactly the answers for the distinct
    targets, in order - nothing else is ever written by PRIVMSG. -/
theorem privmsg_answers (cfg : Cfg) (c : Nat) (targets : List Str) (text : Str) (x : Ctx)
    {nick : Str} (hn : (x.conn c).nick = some nick) :
    ∃ ans : Str → List Str,
      (∀ t, Spec.answers cfg x.w (x.conn c).clientName nick (x.conn c).source t (ans t)) ∧
      (processPrivmsgNotice cfg c targets text false x).direct =
        x.direct ++ (dedup targets).flatMap ans := by
  refine ⟨fun t => Msg.repliesOf cfg x.w (x.conn c).clientName nick (x.conn c).source t, ?_,
    Msg.ppn_privmsg_direct cfg c text targets x hn⟩
  intro t
  unfold Spec.answers Msg.repliesOf
  by_cases hc : (getPrivmsgTargetType t).1.channel = true
  · simp only [hc, if_true]
    cases hl : Map.lookup (getPrivmsgTargetType t).2 x.w.channels with
    | none =>
      left
      simp [Spec.err403, ErrNoSuchChannel403, Msg.str_colon, Msg.str_sp403]
    | some C =>
      right
      refine ⟨C, rfl, ?_⟩
      by_cases hs : canSend C nick (x.conn c).source = true
      · left; exact ⟨(canSend_iff _ _ _).mp hs, by simp [hs]⟩
      · right
        refine ⟨fun h => hs ((canSend_iff _ _ _).mpr h), ?_⟩
        simp [hs, Spec.err404, ErrCannotSendToChain404, Msg.str_colon, Msg.str_sp404]
  · have hc' : (getPrivmsgTargetType t).1.channel = false := by simpa using hc
    simp only [hc', Bool.false_eq_true, if_false]
    cases hl : Map.lookup t x.w.users with
    | none =>
      left
      simp [Spec.err401, ErrNoSuchNick401, Msg.str_colon, Msg.str_sp401]
    | some u =>
      right
      refine ⟨u, rfl, ?_⟩
      cases ha : u.away with
      | none => left; simp [ha]
      | some a =>
        right
        exact ⟨a, rfl, by simp [ha, Spec.rpl301, RplAway301, Msg.str_colon, Msg.str_sp301]⟩

open Msg.Demo in
/-- hypothesis satisfiable; the conclusion on the demo world is the PRIVMSG example of section 3
    (404, 403, 401, 301 in target order). -/
example : (x.conn 3).nick = some (str "carol") := by decide

/-- an unregistered connection (no nick; unreachable through `dispatch`) gets nothing -/
theorem privmsg_no_nick (cfg : Cfg) (c : Nat) (targets : List Str) (text : Str) (notice : Bool)
    (x : Ctx) (hn : (x.conn c).nick = none) :
    (processPrivmsgNotice cfg c targets text notice x).direct = x.direct ∧
    (processPrivmsgNotice cfg c targets text notice x).queued = x.queued := by
  rw [Msg.processPrivmsgNotice_eq]
  simp only [hn]
  exact ⟨rfl, rfl⟩

end Irc.C10
