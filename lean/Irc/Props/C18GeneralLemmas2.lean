/-
  Property C18, general serialisability, part 2: LOCAL UPDATES of a connection (`Upd`: its record,
  its reply buffer, its program counter; plus the pending bump of a command counter), the
  simultaneous local updates of many connections (`applyOn`), and the fact that a section of
  connection `c` commutes with the local updates of all other connections (for KILL / DIE / SQUIT:
  where these connections own no user; for a pending counter bump: if the section commutes with
  `bumpCount`).
-/
import Irc.Props.C18GeneralLemmas1

namespace Irc.C18G

open Irc Irc.Conc Reply Irc.C18F

/-! ### local updates -/

/-- a local update of one connection: replace its record, append to its reply buffer, set its
    program counter (each optional) -/
structure Upd where
  conn : Option Conn := none
  dir : List Str := []
  pc : Option Pc := none
  /-- the relaxed-atomic counter bump of a split command that is not yet serialised: not a local
      component, but it commutes with every section that is not a `STATS m` -/
  cnt : Option Nat := none

def idU : Upd := {}

/-- `command_counts[i].fetch_add(1)` on the state of the run -/
def bumpW (i : Nat) (σ : CState) : CState := { σ with w := bumpCount σ.w i }

def bumpO (o : Option Nat) (σ : CState) : CState :=
  match o with
  | some i => bumpW i σ
  | none => σ

def setConnO (o : Option Conn) (σ : CState) : CState :=
  match o with
  | some cn => σ.setConn cn
  | none => σ

def setPcO (c : Nat) (o : Option Pc) (σ : CState) : CState :=
  match o with
  | some p => σ.setPc c p
  | none => σ

def Upd.app (u : Upd) (c : Nat) (σ : CState) : CState :=
  setPcO c u.pc ((setConnO u.conn (bumpO u.cnt σ)).addDir c u.dir)

/-- the record written is one of connection `c` -/
def Upd.Proper (u : Upd) (c : Nat) : Prop := ∀ cn, u.conn = some cn → cn.id = c

theorem idU_proper (c : Nat) : idU.Proper c := by
  intro cn h; cases h

theorem idU_app (c : Nat) (σ : CState) : idU.app c σ = σ := by
  simp only [Upd.app, idU, setPcO, setConnO, bumpO]
  exact CState.addDir_nil σ c

/-! ### what a pending bump leaves alone -/

@[simp] theorem bumpO_users (o : Option Nat) (σ : CState) : (bumpO o σ).w.users = σ.w.users := by
  cases o <;> rfl
@[simp] theorem bumpO_sent (o : Option Nat) (σ : CState) : (bumpO o σ).sent = σ.sent := by
  cases o <;> rfl
@[simp] theorem bumpO_pc (o : Option Nat) (σ : CState) : (bumpO o σ).pc = σ.pc := by
  cases o <;> rfl
@[simp] theorem bumpO_dir (o : Option Nat) (σ : CState) : (bumpO o σ).dir = σ.dir := by
  cases o <;> rfl
@[simp] theorem bumpO_conn (o : Option Nat) (σ : CState) (d : Nat) :
    (bumpO o σ).w.conn? d = σ.w.conn? d := by
  cases o <;> rfl

theorem bumpO_setConn (o : Option Nat) (σ : CState) (cn : Conn) :
    bumpO o (σ.setConn cn) = (bumpO o σ).setConn cn := by
  cases o <;> rfl

theorem Upd.app_users (u : Upd) (c : Nat) (σ : CState) : (u.app c σ).w.users = σ.w.users := by
  unfold Upd.app setPcO setConnO
  cases u.pc <;> cases u.conn <;> simp

theorem Upd.app_sent (u : Upd) (c : Nat) (σ : CState) : (u.app c σ).sent = σ.sent := by
  unfold Upd.app setPcO setConnO
  cases u.pc <;> cases u.conn <;> simp

theorem Upd.app_pc_ne (u : Upd) {c d : Nat} (σ : CState) (h : d ≠ c) :
    (u.app c σ).pc d = σ.pc d := by
  unfold Upd.app setPcO setConnO
  cases u.pc <;> cases u.conn <;> simp [CState.setPc, CState.addDir, h]

theorem Upd.app_dir_ne (u : Upd) {c d : Nat} (σ : CState) (h : d ≠ c) :
    (u.app c σ).dir d = σ.dir d := by
  unfold Upd.app setPcO setConnO
  cases u.pc <;> cases u.conn <;> simp [CState.setPc, CState.addDir, h]

theorem Upd.app_conn_ne {u : Upd} {c d : Nat} (hu : u.Proper c) (σ : CState) (h : d ≠ c) :
    (u.app c σ).w.conn? d = σ.w.conn? d := by
  unfold Upd.app setPcO setConnO
  cases hc : u.conn with
  | none => cases u.pc <;> exact bumpO_conn _ _ _
  | some cn =>
    have hid : cn.id ≠ d := by rw [hu cn hc]; exact fun e => h e.symm
    cases u.pc <;> exact (conn?_setConn_ne _ _ _ hid).trans (bumpO_conn _ _ _)

theorem Upd.app_pc_self (u : Upd) (c : Nat) (σ : CState) :
    (u.app c σ).pc c = u.pc.getD (σ.pc c) := by
  unfold Upd.app setPcO setConnO
  cases u.pc <;> cases u.conn <;> simp [CState.setPc, CState.addDir]

theorem Upd.app_dir_self (u : Upd) (c : Nat) (σ : CState) :
    (u.app c σ).dir c = σ.dir c ++ u.dir := by
  unfold Upd.app setPcO setConnO
  cases u.pc <;> cases u.conn <;> simp [CState.setPc, CState.addDir]

theorem Upd.app_conn_self {u : Upd} {c : Nat} (hu : u.Proper c) {σ : CState} {cn0 : Conn}
    (h : σ.w.conn? c = some cn0) :
    (u.app c σ).w.conn? c = some (u.conn.getD cn0) := by
  have h' : (bumpO u.cnt σ).w.conn? c = some cn0 := (bumpO_conn _ _ _).trans h
  unfold Upd.app setPcO setConnO
  cases hc : u.conn with
  | none => cases u.pc <;> exact h'
  | some cn => cases u.pc <;> exact conn?_setConn_self cn h' (hu cn hc)

/-! ### updates of different connections commute -/

theorem bumpCount_comm (w : World) (i j : Nat) :
    bumpCount (bumpCount w i) j = bumpCount (bumpCount w j) i := by
  unfold bumpCount
  simp only
  congr 1
  by_cases h : i = j
  · subst h; rfl
  · have h' : j ≠ i := fun e => h e.symm
    rw [List.getD_eq_getElem?_getD, List.getD_eq_getElem?_getD, List.getD_eq_getElem?_getD,
      List.getD_eq_getElem?_getD, List.getElem?_set_ne h, List.getElem?_set_ne h',
      List.set_comm _ _ h]

/-- the effect of an update on the world -/
def worldOf (conn : Option Conn) (cnt : Option Nat) (w : World) : World :=
  let w := match cnt with
    | some i => bumpCount w i
    | none => w
  match conn with
  | some cn => w.setConn cn
  | none => w

theorem Upd.app_w (u : Upd) (c : Nat) (σ : CState) :
    (u.app c σ).w = worldOf u.conn u.cnt σ.w := by
  unfold Upd.app setPcO setConnO bumpO worldOf
  cases u.pc <;> cases u.conn <;> cases u.cnt <;> rfl

theorem bump_setConn (w : World) (cn : Conn) (i : Nat) :
    bumpCount (w.setConn cn) i = (bumpCount w i).setConn cn := rfl

theorem worldOf_comm {a b : Option Conn} {i j : Option Nat}
    (h : ∀ x y, a = some x → b = some y → x.id ≠ y.id) (w : World) :
    worldOf a i (worldOf b j w) = worldOf b j (worldOf a i w) := by
  have hb : ∀ w : World, ∀ i j, bumpCount (bumpCount w i) j = bumpCount (bumpCount w j) i :=
    bumpCount_comm
  cases a with
  | none =>
    cases b <;> cases i <;> cases j <;> simp only [worldOf, bump_setConn] <;>
      first | rfl | rw [hb]
  | some x =>
    cases b with
    | none =>
      cases i <;> cases j <;> simp only [worldOf, bump_setConn] <;> first | rfl | rw [hb]
    | some y =>
      have hxy := h x y rfl rfl
      have e : ∀ w : World, (w.setConn y).setConn x = (w.setConn x).setConn y :=
        fun w => setConn_comm w y x (fun e => hxy e.symm)
      cases i <;> cases j <;> simp only [worldOf, bump_setConn, e] <;> first | rfl | rw [hb]

theorem Upd.app_pc (u : Upd) (c : Nat) (σ : CState) :
    (u.app c σ).pc = fun d => if d = c then u.pc.getD (σ.pc d) else σ.pc d := by
  funext d
  by_cases h : d = c
  · subst h; simp [Upd.app_pc_self]
  · simp [Upd.app_pc_ne _ _ h, h]

theorem Upd.app_dir (u : Upd) (c : Nat) (σ : CState) :
    (u.app c σ).dir = fun d => if d = c then σ.dir d ++ u.dir else σ.dir d := by
  funext d
  by_cases h : d = c
  · subst h; simp [Upd.app_dir_self]
  · simp [Upd.app_dir_ne _ _ h, h]

theorem Upd.app_comm {u v : Upd} {c d : Nat} (hu : u.Proper c) (hv : v.Proper d) (h : c ≠ d)
    (σ : CState) : u.app c (v.app d σ) = v.app d (u.app c σ) := by
  ext e
  · rw [Upd.app_w, Upd.app_w, Upd.app_w, Upd.app_w]
    exact worldOf_comm (fun x y hx hy => by rw [hu x hx, hv y hy]; exact h) _
  · simp only [Upd.app_pc]
    by_cases h1 : e = c
    · subst h1; simp [h]
    · simp [h1]
  · simp only [Upd.app_dir]
    by_cases h1 : e = c
    · subst h1; simp [h]
    · simp [h1]
  · simp only [Upd.app_sent]

/-! ### simultaneous local updates -/

/-- apply the local update `e c` of every connection `c` of the list -/
def applyOn (cs : List Nat) (e : Nat → Upd) (ρ : CState) : CState :=
  cs.foldr (fun c acc => (e c).app c acc) ρ

theorem applyOn_nil (e : Nat → Upd) (ρ : CState) : applyOn [] e ρ = ρ := rfl

theorem applyOn_cons (a : Nat) (cs : List Nat) (e : Nat → Upd) (ρ : CState) :
    applyOn (a :: cs) e ρ = (e a).app a (applyOn cs e ρ) := rfl

theorem applyOn_users (cs : List Nat) (e : Nat → Upd) (ρ : CState) :
    (applyOn cs e ρ).w.users = ρ.w.users := by
  induction cs with
  | nil => rfl
  | cons a cs ih => rw [applyOn_cons, Upd.app_users, ih]

theorem applyOn_sent (cs : List Nat) (e : Nat → Upd) (ρ : CState) :
    (applyOn cs e ρ).sent = ρ.sent := by
  induction cs with
  | nil => rfl
  | cons a cs ih => rw [applyOn_cons, Upd.app_sent, ih]

theorem applyOn_congr {cs : List Nat} {e e' : Nat → Upd} (h : ∀ d ∈ cs, e d = e' d) (ρ : CState) :
    applyOn cs e ρ = applyOn cs e' ρ := by
  induction cs with
  | nil => rfl
  | cons a cs ih =>
    rw [applyOn_cons, applyOn_cons, h a List.mem_cons_self,
      ih (fun d hd => h d (List.mem_cons_of_mem _ hd))]

theorem applyOn_idU (cs : List Nat) (ρ : CState) : applyOn cs (fun _ => idU) ρ = ρ := by
  induction cs with
  | nil => rfl
  | cons a cs ih => rw [applyOn_cons, ih, idU_app]

theorem applyOn_all_id {cs : List Nat} {e : Nat → Upd} (h : ∀ d ∈ cs, e d = idU) (ρ : CState) :
    applyOn cs e ρ = ρ := by
  rw [applyOn_congr (e' := fun _ => idU) h, applyOn_idU]

/-- the local components of a connection whose update is the identity (or which is not in the
    list) are untouched -/
theorem applyOn_pc_id {cs : List Nat} {e : Nat → Upd} {c : Nat} (h : e c = idU) (ρ : CState) :
    (applyOn cs e ρ).pc c = ρ.pc c := by
  induction cs with
  | nil => rfl
  | cons a cs ih =>
    rw [applyOn_cons]
    by_cases ha : c = a
    · subst ha; rw [h, idU_app, ih]
    · rw [Upd.app_pc_ne _ _ ha, ih]

theorem applyOn_dir_id {cs : List Nat} {e : Nat → Upd} {c : Nat} (h : e c = idU) (ρ : CState) :
    (applyOn cs e ρ).dir c = ρ.dir c := by
  induction cs with
  | nil => rfl
  | cons a cs ih =>
    rw [applyOn_cons]
    by_cases ha : c = a
    · subst ha; rw [h, idU_app, ih]
    · rw [Upd.app_dir_ne _ _ ha, ih]

theorem applyOn_conn_id {cs : List Nat} {e : Nat → Upd} {c : Nat} (hp : ∀ d, (e d).Proper d)
    (h : e c = idU) (ρ : CState) : (applyOn cs e ρ).w.conn? c = ρ.w.conn? c := by
  induction cs with
  | nil => rfl
  | cons a cs ih =>
    rw [applyOn_cons]
    by_cases ha : c = a
    · subst ha; rw [h, idU_app, ih]
    · rw [Upd.app_conn_ne (hp a) _ ha, ih]

theorem app_applyOn_comm {cs : List Nat} {e : Nat → Upd} {u : Upd} {c : Nat}
    (hp : ∀ d, (e d).Proper d) (hu : u.Proper c) (hc : c ∉ cs) (ρ : CState) :
    u.app c (applyOn cs e ρ) = applyOn cs e (u.app c ρ) := by
  induction cs with
  | nil => rfl
  | cons a cs ih =>
    have hne : c ≠ a := fun e' => hc (by rw [e']; exact List.mem_cons_self)
    rw [applyOn_cons, applyOn_cons, Upd.app_comm hu (hp a) hne,
      ih (fun h => hc (List.mem_cons_of_mem _ h))]

/-- take the update of `c` out: it can be applied to the base state first -/
theorem applyOn_extract {cs : List Nat} {e : Nat → Upd} {c : Nat} (hp : ∀ d, (e d).Proper d)
    (hnd : cs.Nodup) (hc : c ∈ cs) (ρ : CState) :
    applyOn cs e ρ = applyOn cs (upd e c idU) ((e c).app c ρ) := by
  have hp' : ∀ d, (upd e c idU d).Proper d := by
    intro d
    by_cases hd : d = c
    · subst hd; rw [upd_self]; exact idU_proper d
    · rw [upd_ne _ _ hd]; exact hp d
  induction cs with
  | nil => cases hc
  | cons a cs ih =>
    have hnd' := List.nodup_cons.mp hnd
    by_cases ha : a = c
    · subst ha
      rw [applyOn_cons, applyOn_cons, upd_self, idU_app,
        applyOn_congr (e := upd e a idU) (e' := e) (fun d hd => upd_ne _ _ (by
          intro e'; subst e'; exact hnd'.1 hd)),
        app_applyOn_comm hp (hp a) hnd'.1]
    · have hc' : c ∈ cs := by
        rcases List.mem_cons.mp hc with e' | e'
        · exact absurd e'.symm ha
        · exact e'
      rw [applyOn_cons, applyOn_cons, ih hnd'.2 hc', upd_ne _ _ ha]

/-- the local components of `c` after all updates are those after its own update -/
theorem applyOn_pc_self {cs : List Nat} {e : Nat → Upd} {c : Nat} (hp : ∀ d, (e d).Proper d)
    (hnd : cs.Nodup) (hc : c ∈ cs) (ρ : CState) :
    (applyOn cs e ρ).pc c = (e c).pc.getD (ρ.pc c) := by
  rw [applyOn_extract hp hnd hc, applyOn_pc_id (upd_self _ _ _), Upd.app_pc_self]

theorem applyOn_conn_self {cs : List Nat} {e : Nat → Upd} {c : Nat} (hp : ∀ d, (e d).Proper d)
    (hnd : cs.Nodup) (hc : c ∈ cs) {ρ : CState} {cn0 : Conn} (h : ρ.w.conn? c = some cn0) :
    (applyOn cs e ρ).w.conn? c = some ((e c).conn.getD cn0) := by
  have hp' : ∀ d, (upd e c idU d).Proper d := by
    intro d
    by_cases hd : d = c
    · subst hd; rw [upd_self]; exact idU_proper d
    · rw [upd_ne _ _ hd]; exact hp d
  rw [applyOn_extract hp hnd hc, applyOn_conn_id hp' (upd_self _ _ _),
    Upd.app_conn_self (hp c) h]

/-! ### a section of another connection commutes with a local update -/

/-- a section that occurs in programs (everything but `teardown`) -/
def isProg : Section → Bool
  | .teardown _ => false
  | _ => true

/-- a whole command (`handleLine`) -/
def isWhole : Section → Bool
  | .whole _ _ => true
  | _ => false

/-- the section commutes with every bump of a command counter (false exactly for `STATS m`) -/
def BumpComm (cfg : Cfg) (s : Section) : Prop :=
  ∀ i σ, stepSection cfg s (bumpW i σ) = bumpW i (stepSection cfg s σ)

theorem step_comm_pc (cfg : Cfg) {s : Section} {d : Nat} (hne : s.conn ≠ d) (σ : CState) (p : Pc) :
    stepSection cfg s (σ.setPc d p) = (stepSection cfg s σ).setPc d p := by
  simp only [stepSection, sectionCtx, CState.setPc, hne, ↓reduceIte]
  ext e
  · rfl
  · simp only
    by_cases hd : e = d
    · subst hd
      have : ¬ e = s.conn := fun e' => hne e'.symm
      simp [this]
    · simp [hd]
  · rfl
  · rfl

theorem step_comm_dir (cfg : Cfg) {s : Section} {d : Nat} (hne : s.conn ≠ d) (σ : CState)
    (ls : List Str) :
    stepSection cfg s (σ.addDir d ls) = (stepSection cfg s σ).addDir d ls := by
  simp only [stepSection, sectionCtx, CState.addDir]
  ext e
  · rfl
  · rfl
  · simp only
    by_cases hd : e = d
    · subst hd
      have : ¬ e = s.conn := fun e' => hne e'.symm
      simp [this]
    · simp [hd]
  · rfl

theorem step_pc_ne (cfg : Cfg) {s : Section} {d : Nat} (hne : s.conn ≠ d) (σ : CState) :
    (stepSection cfg s σ).pc d = σ.pc d := by
  have : ¬ d = s.conn := fun e => hne e.symm
  simp [stepSection, this]

theorem step_dir_ne (cfg : Cfg) {s : Section} {d : Nat} (hne : s.conn ≠ d) (σ : CState) :
    (stepSection cfg s σ).dir d = σ.dir d := by
  have : ¬ d = s.conn := fun e => hne e.symm
  simp [stepSection, this]

/-- a program section of another connection is independent of `d`, or it is a whole command -/
theorem secIndep_or_whole (cfg : Cfg) {s : Section} {d : Nat} (hne : s.conn ≠ d)
    (hp : isProg s = true) : SecIndep cfg d s ∨ ∃ c line, s = .whole c line := by
  cases s with
  | whole c line => exact .inr ⟨c, line, rfl⟩
  | count c i => exact .inl (secIndep_count cfg i hne)
  | nickCheck c n => exact .inl (secIndep_nickCheck cfg n hne)
  | prelude c cmd => exact .inl (secIndep_prelude cfg cmd hne)
  | authDecide c => exact .inl (secIndep_authDecide cfg hne)
  | authCommit c => exact .inl (secIndep_authCommit cfg hne)
  | touch c => exact .inl (secIndep_touch cfg hne)
  | teardown c => cases hp

/-- … with every replacement of the record of `d`; for a whole command: where `d` owns no user -/
theorem step_comm_conn (cfg : Cfg) {s : Section} {d : Nat} (hne : s.conn ≠ d)
    (hp : isProg s = true) {σ : CState} (hown : isWhole s = true → NoOwn d σ.w) (cn : Conn)
    (hid : cn.id = d) :
    stepSection cfg s (σ.setConn cn) = (stepSection cfg s σ).setConn cn := by
  rcases secIndep_or_whole cfg hne hp with h | ⟨c, line, rfl⟩
  · exact h.indepT.comm_conn σ cn hid
  · have hne' : c ≠ d := hne
    have e := C18.whole_commutes cfg line ({ w := σ.w } : Ctx) cn hne' hid (fun _ => hown rfl)
    simp only [stepSection, sectionCtx, execSection, CState.setConn, Section.conn]
    have e0 : ({ w := σ.w.setConn cn } : Ctx) = ({ w := σ.w } : Ctx).setConn cn := rfl
    rw [e0, e]
    rfl

theorem step_conn_ne (cfg : Cfg) {s : Section} {d : Nat} (hne : s.conn ≠ d)
    (hp : isProg s = true) {σ : CState} (hown : isWhole s = true → NoOwn d σ.w) :
    (stepSection cfg s σ).w.conn? d = σ.w.conn? d := by
  rcases secIndep_or_whole cfg hne hp with h | ⟨c, line, rfl⟩
  · exact h.indepT.conn_eq σ
  · have hne' : c ≠ d := hne
    exact C18.whole_keeps cfg line ({ w := σ.w } : Ctx) hne' (fun _ => hown rfl)

theorem step_comm_app (cfg : Cfg) {s : Section} {d : Nat} (hne : s.conn ≠ d)
    (hp : isProg s = true) {σ : CState} (hown : isWhole s = true → NoOwn d σ.w) {u : Upd}
    (hu : u.Proper d) (hb : u.cnt = none ∨ BumpComm cfg s) :
    stepSection cfg s (u.app d σ) = u.app d (stepSection cfg s σ) := by
  have hbump : stepSection cfg s (bumpO u.cnt σ) = bumpO u.cnt (stepSection cfg s σ) := by
    cases hc : u.cnt with
    | none => rfl
    | some i =>
      rcases hb with e | e
      · rw [hc] at e; cases e
      · exact e i σ
  have hown' : isWhole s = true → NoOwn d (bumpO u.cnt σ).w := by
    intro hw n usr hl
    rw [bumpO_users] at hl
    exact hown hw n usr hl
  unfold Upd.app setPcO setConnO
  cases hc : u.conn with
  | none =>
    cases u.pc with
    | none => simp only [step_comm_dir cfg hne, hbump]
    | some p => simp only [step_comm_pc cfg hne, step_comm_dir cfg hne, hbump]
  | some cn =>
    cases u.pc with
    | none =>
      simp only [step_comm_dir cfg hne, step_comm_conn cfg hne hp hown' cn (hu cn hc), hbump]
    | some p =>
      simp only [step_comm_pc cfg hne, step_comm_dir cfg hne,
        step_comm_conn cfg hne hp hown' cn (hu cn hc), hbump]

/-- a section of `c` commutes with the local updates of all other connections -/
theorem step_comm_applyOn (cfg : Cfg) {s : Section} (hp : isProg s = true) {cs : List Nat}
    {e : Nat → Upd} {ρ : CState}
    (h : ∀ d ∈ cs, e d = idU ∨
      (s.conn ≠ d ∧ (e d).Proper d ∧ (isWhole s = true → NoOwn d ρ.w) ∧
        ((e d).cnt = none ∨ BumpComm cfg s))) :
    stepSection cfg s (applyOn cs e ρ) = applyOn cs e (stepSection cfg s ρ) := by
  induction cs with
  | nil => rfl
  | cons a cs ih =>
    rw [applyOn_cons, applyOn_cons]
    have ih' := ih (fun d hd => h d (List.mem_cons_of_mem _ hd))
    rcases h a List.mem_cons_self with e0 | ⟨hne, hpr, hown, hb⟩
    · rw [e0, idU_app, idU_app, ih']
    · have hown' : isWhole s = true → NoOwn a (applyOn cs e ρ).w := by
        intro hw n u hl
        rw [applyOn_users] at hl
        exact hown hw n u hl
      rw [step_comm_app cfg hne hp hown' hpr hb, ih']

/-- a list of sections of `c` none of which is a whole command (the registration path) commutes
    with the local updates of all other connections that carry no pending bump -/
theorem run_comm_applyOn (cfg : Cfg) {c : Nat} {L : List Section}
    (hL : ∀ s ∈ L, isProg s = true ∧ isWhole s = false ∧ s.conn = c) {cs : List Nat}
    {e : Nat → Upd} (h : ∀ d ∈ cs, e d = idU ∨ (c ≠ d ∧ (e d).Proper d ∧ (e d).cnt = none))
    (ρ : CState) :
    runSections cfg L (applyOn cs e ρ) = applyOn cs e (runSections cfg L ρ) := by
  induction L generalizing ρ with
  | nil => rfl
  | cons s L ih =>
    obtain ⟨h1, h2, h3⟩ := hL s List.mem_cons_self
    rw [runSections_cons, runSections_cons, step_comm_applyOn cfg h1 (fun d hd => by
      rcases h d hd with e0 | ⟨hne, hpr, hcn⟩
      · exact .inl e0
      · exact .inr ⟨by rw [h3]; exact hne, hpr, (fun hw => by rw [h2] at hw; cases hw), .inl hcn⟩),
      ih (fun t ht => hL t (List.mem_cons_of_mem _ ht))]

end Irc.C18G
