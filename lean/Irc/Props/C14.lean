/-
  Property C14.  "Mask matching is exact glob semantics and always terminates with an
  answer; a list mask given without all three parts is completed with wildcards
  (nick -> nick!*@*, nick@host -> nick!*@host, nick!user -> nick!user@*)."

  Model: `Irc.matchWildcard` (utils.rs `match_wildcard`), spec: `Irc.glob`,
  completion: `Irc.normalizeSourcemask` (utils.rs `normalize_sourcemask`).
  All statements are for ALL masks and texts.  Helper lemmas: `Irc/Props/C14Lemmas.lean`.
-/
import Irc.Props.C14Lemmas
namespace Irc.C14
open Irc

/-! ## 1. the implementation computes exactly the glob specification -/

/-- The full statement of "mask matching is exact glob semantics". -/
def matchWildcard_eq_glob_full : Prop := ∀ p t : Str, matchWildcard p t = glob p t

theorem matchWildcard_eq_glob (p t : Str) : matchWildcard p t = glob p t :=
  matchWildcard_eq_glob' p t

theorem matchWildcard_eq_glob_full_holds : matchWildcard_eq_glob_full :=
  matchWildcard_eq_glob

example : matchWildcard (str "a*b?c*") (str "axxbycdd") = true := by decide
example : glob (str "a*b?c*") (str "axxbycdd") = true := by decide
example : matchWildcard (str "a*b?c") (str "axxbycdd") = false := by decide
example : matchWildcard (str "*ab*ab") (str "abab") = true := by decide
example : matchWildcard (str "*!*@*.example.org") (str "nick!user@host.example.org") = true := by
  decide

/-! ## 2. totality: every input gets an answer -/

/-- `matchWildcard` is a total function into `Bool`: for every pattern and text there is an
    answer, and it is `true` or `false`; with the exact boundary cases. -/
theorem matchWildcard_total :
    (∀ p t : Str, ∃ b : Bool, matchWildcard p t = b ∧ (b = true ∨ b = false)) ∧
    (∀ t : Str, matchWildcard [] t = t.isEmpty) ∧
    (∀ p : Str, matchWildcard p [] = p.all (· == '*')) ∧
    (∀ t : Str, matchWildcard ['*'] t = true) := by
  refine ⟨fun p t => ⟨matchWildcard p t, rfl, by cases matchWildcard p t <;> simp⟩,
    fun t => rfl, fun p => ?_, fun t => ?_⟩
  · rw [matchWildcard_eq_glob, glob_nil_text]
  · rw [matchWildcard_eq_glob]
    exact (glob_star_cons_iff [] t).mpr ⟨t, [], by simp, rfl⟩

theorem matchWildcard_nil (t : Str) : matchWildcard [] t = t.isEmpty := rfl

theorem matchWildcard_nil_text (p : Str) : matchWildcard p [] = p.all (· == '*') :=
  matchWildcard_total.2.2.1 p

theorem matchWildcard_star (t : Str) : matchWildcard ['*'] t = true :=
  matchWildcard_total.2.2.2 t

example : matchWildcard (str "***") [] = true := by decide
example : matchWildcard (str "*a*") [] = false := by decide

/-! ## 3. the specification `glob` is the intended one (not vacuous) -/

/-- `*` alone matches everything. -/
theorem glob_star (t : Str) : glob ['*'] t = true :=
  (glob_star_cons_iff [] t).mpr ⟨t, [], by simp, rfl⟩

/-- the empty pattern matches exactly the empty text. -/
theorem glob_nil (t : Str) : glob [] t = true ↔ t = [] := glob_nil_iff t

/-- a pattern without wildcards matches exactly itself. -/
theorem glob_literal (p t : Str) (hp : ∀ c ∈ p, c ≠ '*' ∧ c ≠ '?') :
    glob p t = decide (p = t) := by
  induction p generalizing t with
  | nil => cases t <;> simp [glob]
  | cons c p ih =>
    have hc := hp c List.mem_cons_self
    have ih' := fun t => ih t (fun d hd => hp d (List.mem_cons_of_mem _ hd))
    cases t with
    | nil => simp [glob, hc.1]
    | cons x t =>
      have hq : (c == '?') = false := by simp [hc.2]
      by_cases hcx : c = x
      · subst hcx; simp [glob, hc.1, hq, ih']
      · simp [glob, hc.1, hq, ih', hcx]

example : (∀ c ∈ str "nick", c ≠ '*' ∧ c ≠ '?') := by decide
example : glob (str "nick") (str "nick") = true := by decide
example : glob (str "nick") (str "nicks") = false := by decide

/-- `?` matches exactly one (arbitrary) character. -/
theorem glob_question (q t : Str) :
    glob ('?' :: q) t = true ↔ ∃ x t', t = x :: t' ∧ glob q t' = true := by
  rw [glob_cons_iff '?' (by decide)]
  constructor
  · rintro ⟨x, t', h, _, hg⟩; exact ⟨x, t', h, hg⟩
  · rintro ⟨x, t', h, hg⟩; exact ⟨x, t', h, Or.inl rfl, hg⟩

/-- a literal character matches exactly itself. -/
theorem glob_char (c : Char) (hc : c ≠ '*' ∧ c ≠ '?') (q t : Str) :
    glob (c :: q) t = true ↔ ∃ t', t = c :: t' ∧ glob q t' = true := by
  rw [glob_cons_iff c hc.1]
  constructor
  · rintro ⟨x, t', h, hx, hg⟩
    rcases hx with hx | hx
    · exact absurd hx hc.2
    · subst hx; exact ⟨t', h, hg⟩
  · rintro ⟨t', h, hg⟩; exact ⟨c, t', h, Or.inr rfl, hg⟩

example : ('n' : Char) ≠ '*' ∧ ('n' : Char) ≠ '?' := by decide
example : glob (str "n?ck") (str "nick") = true := by decide
example : glob (str "n?ck") (str "mick") = false := by decide

/-- `*` matches any (possibly empty) run of characters. -/
theorem glob_star_cons (q t : Str) :
    glob ('*' :: q) t = true ↔ ∃ a b, t = a ++ b ∧ glob q b = true :=
  glob_star_cons_iff q t

/-- concatenation of patterns = concatenation of matched texts. -/
theorem glob_append (p q t : Str) :
    glob (p ++ q) t = true ↔ ∃ a b, t = a ++ b ∧ glob p a = true ∧ glob q b = true :=
  glob_append_iff p q t

/-- Independent relational definition of glob matching. -/
inductive Matches : Str → Str → Prop
  | nil : Matches [] []
  | starSkip {q t} : Matches q t → Matches ('*' :: q) t
  | starEat {q t} (c : Char) : Matches ('*' :: q) t → Matches ('*' :: q) (c :: t)
  | question {q t} (c : Char) : Matches q t → Matches ('?' :: q) (c :: t)
  | lit {q t} (c : Char) : c ≠ '*' → c ≠ '?' → Matches q t → Matches (c :: q) (c :: t)

/-- the executable spec `glob` decides the relational one. -/
theorem glob_iff_Matches (p t : Str) : glob p t = true ↔ Matches p t := by
  constructor
  · intro h
    induction p generalizing t with
    | nil => rw [glob_nil_iff] at h; subst h; exact .nil
    | cons c q ih =>
      by_cases hc : c = '*'
      · subst hc
        induction t with
        | nil =>
          rw [glob_star_cons_iff] at h
          obtain ⟨a, b, hab, hb⟩ := h
          obtain ⟨rfl, rfl⟩ := List.nil_eq_append_iff.mp hab
          exact .starSkip (ih _ hb)
        | cons x xs iht =>
          rw [glob_star_cons_cons, Bool.or_eq_true] at h
          rcases h with h | h
          · exact .starSkip (ih _ h)
          · exact .starEat x (iht h)
      · obtain ⟨x, t', rfl, hx, hg⟩ := (glob_cons_iff c hc q t).mp h
        rcases hx with hx | hx
        · subst hx; exact .question x (ih _ hg)
        · subst hx
          by_cases hq : c = '?'
          · subst hq; exact .question _ (ih _ hg)
          · exact .lit c hc hq (ih _ hg)
  · intro h
    induction h with
    | nil => rfl
    | starSkip _ ih => exact (glob_star_cons_iff _ _).mpr ⟨[], _, rfl, ih⟩
    | starEat c _ ih => rw [glob_star_cons_cons, ih, Bool.or_true]
    | question c _ ih => exact (glob_question _ _).mpr ⟨c, _, rfl, ih⟩
    | lit c h1 h2 _ ih => exact (glob_char c ⟨h1, h2⟩ _ _).mpr ⟨_, rfl, ih⟩

/-- hence the implementation decides the relational spec. -/
theorem matchWildcard_iff_Matches (p t : Str) : matchWildcard p t = true ↔ Matches p t := by
  rw [matchWildcard_eq_glob, glob_iff_Matches]

/-! ## 4. completion of list masks -/

/-- a complete mask: it contains '!' and an '@' occurs after the first '!'. -/
def normalized (m : Str) : Prop :=
  ∃ i, findChar '!' m = some i ∧ '@' ∈ m.drop (i + 1)

/-- `normalized` in terms of the three parts. -/
theorem normalized_iff (m : Str) :
    normalized m ↔ ∃ nick user host, m = nick ++ '!' :: (user ++ '@' :: host) ∧ '!' ∉ nick := by
  constructor
  · rintro ⟨i, h1, h2⟩
    obtain ⟨user, host, huh⟩ := List.append_of_mem h2
    refine ⟨m.take i, user, host, ?_, (findChar_some _ _ _ h1).1⟩
    rw [← huh]; exact findChar_some_split _ _ _ h1
  · rintro ⟨nick, user, host, rfl, hn⟩
    refine ⟨nick.length, findChar_append_cons _ _ _ hn, ?_⟩
    rw [drop_length_succ]; simp

/-- rule 1 (`nick -> nick!*@*`): neither '!' nor '@'. -/
theorem normalize_nick (m : Str) (h1 : '!' ∉ m) (h2 : '@' ∉ m) :
    normalizeSourcemask m = m ++ str "!*@*" := by
  unfold normalizeSourcemask
  rw [(findChar_none_iff _ _).mpr h1, (findChar_none_iff _ _).mpr h2]

example : '!' ∉ str "nick" ∧ '@' ∉ str "nick" := by decide
example : normalizeSourcemask (str "nick") = str "nick!*@*" := by decide

/-- rule 2, index form: no '!', first '@' at position `i`:  `mask[..i] ++ "!*" ++ mask[i..]`. -/
theorem normalize_at_index (m : Str) (i : Nat) (h1 : '!' ∉ m) (h2 : findChar '@' m = some i) :
    normalizeSourcemask m = m.take i ++ str "!*" ++ m.drop i := by
  unfold normalizeSourcemask
  rw [(findChar_none_iff _ _).mpr h1, h2]

example : '!' ∉ str "nick@host" ∧ findChar '@' (str "nick@host") = some 4 := by decide

/-- rule 2 (`nick@host -> nick!*@host`). -/
theorem normalize_nick_host (nick host : Str) (h1 : '!' ∉ nick) (h2 : '@' ∉ nick)
    (h3 : '!' ∉ host) :
    normalizeSourcemask (nick ++ '@' :: host) = nick ++ str "!*" ++ '@' :: host := by
  have hb : '!' ∉ nick ++ '@' :: host := by
    intro h
    rcases List.mem_append.mp h with h | h
    · exact h1 h
    · rcases List.mem_cons.mp h with h | h
      · exact absurd h (by decide)
      · exact h3 h
  rw [normalize_at_index _ nick.length hb (findChar_append_cons _ _ _ h2)]
  simp

example : '!' ∉ str "nick" ∧ '@' ∉ str "nick" ∧ '!' ∉ str "host" := by decide
example : normalizeSourcemask (str "nick@host") = str "nick!*@host" := by decide

/-- rule 3, index form: first '!' at position `i`, no '@' after it: `mask ++ "@*"`. -/
theorem normalize_bang_index (m : Str) (i : Nat) (h1 : findChar '!' m = some i)
    (h2 : '@' ∉ m.drop (i + 1)) : normalizeSourcemask m = m ++ str "@*" := by
  unfold normalizeSourcemask
  simp only [h1]
  rw [(findChar_none_iff _ _).mpr h2]
  rfl

example : findChar '!' (str "nick!user") = some 4 ∧ '@' ∉ (str "nick!user").drop (4 + 1) := by
  decide

/-- rule 3 (`nick!user -> nick!user@*`). -/
theorem normalize_nick_user (nick user : Str) (h1 : '!' ∉ nick) (h2 : '@' ∉ user) :
    normalizeSourcemask (nick ++ '!' :: user) = nick ++ '!' :: user ++ str "@*" := by
  apply normalize_bang_index _ nick.length (findChar_append_cons _ _ _ h1)
  rw [drop_length_succ]; exact h2

example : '!' ∉ str "nick" ∧ '@' ∉ str "user" := by decide
example : normalizeSourcemask (str "nick!user") = str "nick!user@*" := by decide
/-- an '@' BEFORE the first '!' does not count (it is part of the nick). -/
example : normalizeSourcemask (str "a@b!u") = str "a@b!u@*" := by decide

/-- rule 4: a complete mask is left unchanged. -/
theorem normalize_of_normalized (m : Str) (h : normalized m) : normalizeSourcemask m = m := by
  obtain ⟨i, h1, h2⟩ := h
  exact normalize_fixed m i h1 h2

theorem normalize_nick_user_host (nick user host : Str) (h1 : '!' ∉ nick) :
    normalizeSourcemask (nick ++ '!' :: (user ++ '@' :: host))
      = nick ++ '!' :: (user ++ '@' :: host) :=
  normalize_of_normalized _ ((normalized_iff _).mpr ⟨nick, user, host, rfl, h1⟩)

example : normalized (str "nick!user@host") := ⟨4, by decide, by decide⟩
example : normalizeSourcemask (str "nick!user@host") = str "nick!user@host" := by decide

/-- link to `containsChar`: a complete mask contains '!' and '@'. -/
theorem normalized_contains (m : Str) (h : normalized m) :
    containsChar '!' m = true ∧ containsChar '@' m = true := by
  obtain ⟨i, h1, h2⟩ := h
  simp only [containsChar, List.any_eq_true, beq_iff_eq]
  exact ⟨⟨'!', mem_of_findChar_some _ _ _ h1, rfl⟩, ⟨'@', List.mem_of_mem_drop h2, rfl⟩⟩

/-- the four rules cover every mask. -/
theorem normalize_cases (m : Str) :
    ('!' ∉ m ∧ '@' ∉ m) ∨
    (∃ nick host, m = nick ++ '@' :: host ∧ '!' ∉ nick ∧ '@' ∉ nick ∧ '!' ∉ host) ∨
    (∃ nick user, m = nick ++ '!' :: user ∧ '!' ∉ nick ∧ '@' ∉ user) ∨
    normalized m := by
  cases h1 : findChar '!' m with
  | none =>
    have hb := (findChar_none_iff _ _).mp h1
    cases h2 : findChar '@' m with
    | none => exact Or.inl ⟨hb, (findChar_none_iff _ _).mp h2⟩
    | some j =>
      refine Or.inr (Or.inl ⟨m.take j, m.drop (j + 1), findChar_some_split _ _ _ h2,
        fun h => hb (List.mem_of_mem_take h), (findChar_some _ _ _ h2).1,
        fun h => hb (List.mem_of_mem_drop h)⟩)
  | some i =>
    by_cases h2 : '@' ∈ m.drop (i + 1)
    · exact Or.inr (Or.inr (Or.inr ⟨i, h1, h2⟩))
    · exact Or.inr (Or.inr (Or.inl ⟨m.take i, m.drop (i + 1), findChar_some_split _ _ _ h1,
        (findChar_some _ _ _ h1).1, h2⟩))

/-- the result of completion is always a complete mask. -/
theorem normalized_normalize (m : Str) : normalized (normalizeSourcemask m) :=
  normalize_result_normalized m

/-- completion is idempotent (no hypothesis needed). -/
theorem normalize_idem (m : Str) :
    normalizeSourcemask (normalizeSourcemask m) = normalizeSourcemask m :=
  normalize_of_normalized _ (normalized_normalize m)

/-- the fixed points of completion are exactly the complete masks. -/
theorem normalize_eq_self_iff (m : Str) : normalizeSourcemask m = m ↔ normalized m := by
  constructor
  · intro h; rw [← h]; exact normalized_normalize m
  · exact normalize_of_normalized m

/-- a completed bare nick matches every source with that nick. -/
example : matchWildcard (normalizeSourcemask (str "nick")) (str "nick!user@host") = true := by
  decide

end Irc.C14
