/-
  Helper lemmas for property C14 (mask matching = glob semantics, sourcemask completion).
-/
import Irc.Wildcard
namespace Irc.C14
open Irc

/-! ### `anySuffix` and basic `glob` characterisations -/

theorem anySuffix_iff (f : Str → Bool) (t : Str) :
    anySuffix f t = true ↔ ∃ a b, t = a ++ b ∧ f b = true := by
  induction t with
  | nil =>
    simp only [anySuffix]
    constructor
    · intro h; exact ⟨[], [], rfl, h⟩
    · rintro ⟨a, b, h, hf⟩
      have hb : b = [] := (List.nil_eq_append_iff.mp h).2
      subst hb; exact hf
  | cons c t ih =>
    simp only [anySuffix, Bool.or_eq_true, ih]
    constructor
    · rintro (h | ⟨a, b, rfl, hf⟩)
      · exact ⟨[], _, rfl, h⟩
      · exact ⟨c :: a, b, rfl, hf⟩
    · rintro ⟨a, b, h, hf⟩
      cases a with
      | nil => left; simp at h; subst h; exact hf
      | cons x a =>
        right
        simp at h
        exact ⟨a, b, h.2, hf⟩

theorem glob_nil_iff (t : Str) : glob [] t = true ↔ t = [] := by
  simp [glob]

theorem glob_star_cons_iff (q t : Str) :
    glob ('*' :: q) t = true ↔ ∃ a b, t = a ++ b ∧ glob q b = true := by
  simp only [glob, beq_self_eq_true, if_true]
  exact anySuffix_iff _ _

theorem glob_cons_iff (c : Char) (hc : c ≠ '*') (q t : Str) :
    glob (c :: q) t = true ↔
      ∃ x t', t = x :: t' ∧ (c = '?' ∨ c = x) ∧ glob q t' = true := by
  cases t with
  | nil => simp [glob, hc]
  | cons x t' =>
    simp only [glob, beq_iff_eq, hc, if_false, Bool.and_eq_true, Bool.or_eq_true]
    constructor
    · rintro ⟨h1, h2⟩; exact ⟨x, t', rfl, h1, h2⟩
    · rintro ⟨y, t'', h, h1, h2⟩
      cases h; exact ⟨h1, h2⟩


theorem glob_append_iff (p q t : Str) :
    glob (p ++ q) t = true ↔ ∃ a b, t = a ++ b ∧ glob p a = true ∧ glob q b = true := by
  induction p generalizing t with
  | nil =>
    simp only [List.nil_append]
    constructor
    · intro h; exact ⟨[], t, rfl, by simp [glob], h⟩
    · rintro ⟨a, b, rfl, ha, hb⟩
      rw [glob_nil_iff] at ha; subst ha; exact hb
  | cons c p ih =>
    by_cases hc : c = '*'
    · subst hc
      simp only [List.cons_append, glob_star_cons_iff]
      constructor
      · rintro ⟨x, y, rfl, h⟩
        obtain ⟨a, b, rfl, ha, hb⟩ := (ih _).mp h
        exact ⟨x ++ a, b, by simp, ⟨x, a, rfl, ha⟩, hb⟩
      · rintro ⟨a, b, rfl, ⟨x, y, rfl, hy⟩, hb⟩
        exact ⟨x, y ++ b, by simp, (ih _).mpr ⟨y, b, rfl, hy, hb⟩⟩
    · simp only [List.cons_append, glob_cons_iff c hc]
      constructor
      · rintro ⟨x, t', rfl, hx, h⟩
        obtain ⟨a, b, rfl, ha, hb⟩ := (ih _).mp h
        exact ⟨x :: a, b, rfl, ⟨x, a, rfl, hx, ha⟩, hb⟩
      · rintro ⟨a, b, rfl, ⟨x, a', rfl, hx, ha⟩, hb⟩
        exact ⟨x, a' ++ b, rfl, hx, (ih _).mpr ⟨a', b, rfl, ha, hb⟩⟩

/-! ### `startsSingleWildcards` -/

theorem sw_length (m t : Str) (h : startsSingleWildcards m t = true) :
    m.length ≤ t.length := by
  induction m generalizing t with
  | nil => simp
  | cons c m ih =>
    cases t with
    | nil => simp [startsSingleWildcards] at h
    | cons x t =>
      simp only [startsSingleWildcards, Bool.and_eq_true] at h
      have := ih t h.2
      simp; omega

theorem sw_append_of_le (m a b : Str) (h : m.length ≤ a.length) :
    startsSingleWildcards m (a ++ b) = startsSingleWildcards m a := by
  induction m generalizing a with
  | nil => simp [startsSingleWildcards]
  | cons c m ih =>
    cases a with
    | nil => simp at h
    | cons x a =>
      simp only [List.cons_append, startsSingleWildcards]
      rw [ih a (by simpa using h)]

theorem sw_take (m t : Str) (h : startsSingleWildcards m t = true) :
    startsSingleWildcards m (t.take m.length) = true := by
  have hl := sw_length m t h
  have := sw_append_of_le m (t.take m.length) (t.drop m.length)
    (by rw [List.length_take]; omega)
  rw [List.take_append_drop] at this
  rw [← this]; exact h

theorem glob_starfree_iff (m : Str) (hm : '*' ∉ m) (t : Str) :
    glob m t = true ↔ t.length = m.length ∧ startsSingleWildcards m t = true := by
  induction m generalizing t with
  | nil =>
    rw [glob_nil_iff]
    simp [startsSingleWildcards]
  | cons c m ih =>
    have hc : c ≠ '*' := fun h => hm (by rw [h]; exact List.mem_cons_self)
    have hm' : '*' ∉ m := fun h => hm (List.mem_cons_of_mem _ h)
    rw [glob_cons_iff c hc]
    cases t with
    | nil => simp [startsSingleWildcards]
    | cons x t =>
      simp only [startsSingleWildcards, Bool.and_eq_true, Bool.or_eq_true, beq_iff_eq,
        List.length_cons, Nat.add_right_cancel_iff]
      constructor
      · rintro ⟨y, t', h, hx, hg⟩
        cases h
        have := (ih hm' t).mp hg
        exact ⟨this.1, hx, this.2⟩
      · rintro ⟨hl, hx, hs⟩
        exact ⟨x, t, rfl, hx, (ih hm' t).mpr ⟨hl, hs⟩⟩

/-- `glob` on a pattern whose first segment `m` is '*'-free: prefix test, then the rest. -/
theorem glob_seg_append_iff (m : Str) (hm : '*' ∉ m) (q t : Str) :
    glob (m ++ q) t = true ↔
      startsSingleWildcards m t = true ∧ glob q (t.drop m.length) = true := by
  rw [glob_append_iff]
  constructor
  · rintro ⟨a, b, rfl, ha, hb⟩
    obtain ⟨hl, hs⟩ := (glob_starfree_iff m hm a).mp ha
    refine ⟨?_, ?_⟩
    · rw [sw_append_of_le m a b (by omega)]; exact hs
    · rw [List.drop_left' hl]; exact hb
  · rintro ⟨hs, hg⟩
    refine ⟨t.take m.length, t.drop m.length, (List.take_append_drop _ _).symm, ?_, hg⟩
    rw [glob_starfree_iff m hm]
    have := sw_length m t hs
    exact ⟨by rw [List.length_take]; omega, sw_take m t hs⟩


/-! ### monotonicity, greedy (leftmost) search, suffix test -/

theorem glob_star_cons_cons (q : Str) (c : Char) (cs : Str) :
    glob ('*' :: q) (c :: cs) = (glob q (c :: cs) || glob ('*' :: q) cs) := by
  simp only [glob, anySuffix, beq_self_eq_true, if_true]

theorem glob_star_mono (q x s : Str) (h : glob ('*' :: q) s = true) :
    glob ('*' :: q) (x ++ s) = true := by
  rw [glob_star_cons_iff] at *
  obtain ⟨a, b, rfl, hb⟩ := h
  exact ⟨x ++ a, b, by simp, hb⟩

theorem find_nil (t : Str) : findSingleWildcards [] t = some t := by
  cases t <;> simp [findSingleWildcards, startsSingleWildcards]

/-- the greedy lemma: the LEFTMOST occurrence of a '*'-free middle segment suffices. -/
theorem find_greedy (m : Str) (hm : '*' ∉ m) (rest t : Str) :
    glob ('*' :: (m ++ '*' :: rest)) t = true ↔
      ∃ r, findSingleWildcards m t = some r ∧ glob ('*' :: rest) r = true := by
  induction t with
  | nil =>
    rw [glob_star_cons_iff]
    simp only [findSingleWildcards]
    constructor
    · rintro ⟨a, b, h, hb⟩
      obtain ⟨rfl, rfl⟩ := List.nil_eq_append_iff.mp h
      obtain ⟨hs, hg⟩ := (glob_seg_append_iff m hm _ _).mp hb
      rw [if_pos hs]; exact ⟨[], rfl, by simpa using hg⟩
    · rintro ⟨r, hr, hg⟩
      split at hr
      · next hs =>
        cases hr
        exact ⟨[], [], rfl, (glob_seg_append_iff m hm _ _).mpr ⟨hs, by simpa using hg⟩⟩
      · cases hr
  | cons c cs ih =>
    simp only [findSingleWildcards]
    by_cases hs : startsSingleWildcards m (c :: cs) = true
    · rw [if_pos hs]
      constructor
      · intro h
        refine ⟨_, rfl, ?_⟩
        obtain ⟨x, y, hxy, hy⟩ := (glob_star_cons_iff _ _).mp h
        obtain ⟨hs', hg⟩ := (glob_seg_append_iff m hm _ _).mp hy
        rw [hxy]
        have hl := sw_length m y hs'
        have : (x ++ y).drop m.length
            = (x ++ y.take m.length).drop m.length ++ y.drop m.length := by
          conv => lhs; rw [← List.take_append_drop m.length y, ← List.append_assoc]
          rw [List.drop_append_of_le_length]
          simp; omega
        rw [this]; exact glob_star_mono _ _ _ hg
      · rintro ⟨r, hr, hg⟩
        cases hr
        exact (glob_star_cons_iff _ _).mpr
          ⟨[], _, rfl, (glob_seg_append_iff m hm _ _).mpr ⟨hs, hg⟩⟩
    · rw [if_neg hs, ← ih]
      have hn : glob (m ++ '*' :: rest) (c :: cs) = false := by
        cases hq : glob (m ++ '*' :: rest) (c :: cs) with
        | false => rfl
        | true => exact absurd ((glob_seg_append_iff m hm _ _).mp hq).1 hs
      rw [glob_star_cons_cons, hn, Bool.false_or]

/-- last segment = suffix match. -/
theorem glob_star_last_iff (m : Str) (hm : '*' ∉ m) (t : Str) :
    glob ('*' :: m) t = true ↔ endsSingleWildcards m t = true := by
  rw [glob_star_cons_iff]
  simp only [endsSingleWildcards, Bool.and_eq_true, decide_eq_true_eq]
  constructor
  · rintro ⟨a, b, rfl, hb⟩
    obtain ⟨hl, hs⟩ := (glob_starfree_iff m hm b).mp hb
    refine ⟨by simp; omega, ?_⟩
    rw [List.drop_left' (by simp; omega)]; exact hs
  · rintro ⟨hl, hs⟩
    refine ⟨t.take (t.length - m.length), t.drop (t.length - m.length),
      (List.take_append_drop _ _).symm, ?_⟩
    rw [glob_starfree_iff m hm]
    exact ⟨by rw [List.length_drop]; omega, hs⟩

/-! ### `splitOnChar` versus the decomposition at the first separator -/

theorem splitOnChar_ne_nil (c : Char) (s : Str) : splitOnChar c s ≠ [] := by
  induction s with
  | nil => simp [splitOnChar]
  | cons x xs ih =>
    simp only [splitOnChar]
    split
    · simp
    · split <;> simp

theorem splitOnChar_free (c : Char) (m : Str) (hm : c ∉ m) : splitOnChar c m = [m] := by
  induction m with
  | nil => rfl
  | cons x xs ih =>
    have hx : x ≠ c := fun h => hm (by rw [h]; exact List.mem_cons_self)
    have := ih (fun h => hm (List.mem_cons_of_mem _ h))
    simp [splitOnChar, this, hx]

theorem splitOnChar_append (c : Char) (m rest : Str) (hm : c ∉ m) :
    splitOnChar c (m ++ c :: rest) = m :: splitOnChar c rest := by
  induction m with
  | nil =>
    simp only [List.nil_append, splitOnChar]
    split
    · next h => exact absurd h (splitOnChar_ne_nil _ _)
    · next p ps h => simp [h]
  | cons x xs ih =>
    have hx : x ≠ c := fun h => hm (by rw [h]; exact List.mem_cons_self)
    have := ih (fun h => hm (List.mem_cons_of_mem _ h))
    simp [splitOnChar, this, hx]

/-- induction principle: a pattern is a '*'-free segment, or such a segment followed by
    '*' and a shorter pattern. -/
theorem star_induction {P : Str → Prop}
    (h1 : ∀ m, '*' ∉ m → P m)
    (h2 : ∀ m rest, '*' ∉ m → P rest → P (m ++ '*' :: rest)) : ∀ p, P p := by
  have key : ∀ rest m, '*' ∉ m → P (m ++ rest) := by
    intro rest
    induction rest with
    | nil => intro m hm; simpa using h1 m hm
    | cons x xs ih =>
      intro m hm
      by_cases hx : x = '*'
      · subst hx
        exact h2 m xs hm (by simpa using ih [] (by simp))
      · have : m ++ x :: xs = (m ++ [x]) ++ xs := by simp
        rw [this]
        apply ih
        intro h
        rcases List.mem_append.mp h with h | h
        · exact hm h
        · simp at h; exact hx h.symm
  intro p
  simpa using key p [] (by simp)


/-! ### `endsWithStar` -/

theorem endsWithStar_append_star (a b : Str) :
    endsWithStar (a ++ '*' :: b) = endsWithStar ('*' :: b) := by
  simp [endsWithStar, List.getLast?_append, List.getLast?_cons]

theorem endsWithStar_free (m : Str) (hm : '*' ∉ m) : endsWithStar m = false := by
  cases h : endsWithStar m with
  | false => rfl
  | true =>
    simp only [endsWithStar, beq_iff_eq] at h
    exact absurd (List.mem_of_getLast? h) hm

theorem endsWithStar_star_free (m : Str) (hm : '*' ∉ m) (hne : m ≠ []) :
    endsWithStar ('*' :: m) = false := by
  cases m with
  | nil => exact absurd rfl hne
  | cons x xs =>
    have : '*' :: x :: xs = ['*'] ++ (x :: xs) := rfl
    have h2 := endsWithStar_free (x :: xs) hm
    simp only [endsWithStar] at h2 ⊢
    rw [this, List.getLast?_append]
    simp only [List.getLast?_cons] at h2 ⊢
    simpa using h2

/-! ### the loop over the remaining segments -/

/-- what `matchWildcard` computes after the first segment, for the rest `q` of the pattern
    (the part after the first '*'). -/
def restOk (q t : Str) : Bool :=
  match matchRestSegments (splitOnChar '*' q) t with
  | none => false
  | some t' => endsWithStar ('*' :: q) || t'.isEmpty

theorem restOk_free (m : Str) (hm : '*' ∉ m) (t : Str) :
    restOk m t = glob ('*' :: m) t := by
  unfold restOk
  rw [splitOnChar_free _ m hm]
  cases m with
  | nil =>
    have : glob ['*'] t = true := (glob_star_cons_iff [] t).mpr ⟨t, [], by simp, rfl⟩
    simp [matchRestSegments, endsWithStar, this]
  | cons x xs =>
    rw [endsWithStar_star_free _ hm (by simp)]
    rw [Bool.eq_iff_iff, glob_star_last_iff _ hm]
    simp only [matchRestSegments, List.isEmpty_cons, Bool.false_eq_true, if_false]
    split <;> simp_all

theorem restOk_star (m : Str) (hm : '*' ∉ m) (rest t : Str) :
    restOk (m ++ '*' :: rest) t =
      match findSingleWildcards m t with
      | some r => restOk rest r
      | none => false := by
  unfold restOk
  rw [splitOnChar_append _ m rest hm]
  have hE : endsWithStar ('*' :: (m ++ '*' :: rest)) = endsWithStar ('*' :: rest) := by
    have := endsWithStar_append_star ('*' :: m) rest
    simpa using this
  rw [hE]
  obtain ⟨m', ms', hsp⟩ : ∃ m' ms', splitOnChar '*' rest = m' :: ms' := by
    cases h : splitOnChar '*' rest with
    | nil => exact absurd h (splitOnChar_ne_nil _ _)
    | cons a b => exact ⟨a, b, rfl⟩
  rw [hsp]
  cases m with
  | nil => simp [matchRestSegments, find_nil]
  | cons x xs =>
    simp only [matchRestSegments, List.isEmpty_cons, Bool.false_eq_true, if_false]
    cases findSingleWildcards (x :: xs) t <;> rfl

theorem restOk_eq_glob : ∀ q t, restOk q t = glob ('*' :: q) t := by
  intro q
  induction q using star_induction with
  | h1 m hm => exact restOk_free m hm
  | h2 m rest hm ih =>
    intro t
    rw [restOk_star m hm, Bool.eq_iff_iff, find_greedy m hm]
    cases h : findSingleWildcards m t with
    | none => simp
    | some r => simp [ih r]

/-! ### the first segment -/

theorem matchFirstSegment_eq (m t : Str) :
    matchFirstSegment m t =
      if startsSingleWildcards m t then some (t.drop m.length) else none := by
  cases m with
  | nil => simp [matchFirstSegment, startsSingleWildcards]
  | cons x xs => simp [matchFirstSegment]

theorem matchWildcard_free (m : Str) (hm : '*' ∉ m) (t : Str) :
    matchWildcard m t = glob m t := by
  unfold matchWildcard
  rw [splitOnChar_free _ m hm]
  simp only [matchFirstSegment_eq, matchRestSegments, endsWithStar_free m hm, Bool.false_or]
  rw [Bool.eq_iff_iff, glob_starfree_iff m hm]
  by_cases hs : startsSingleWildcards m t = true
  · have := sw_length m t hs
    simp only [hs, if_true, List.isEmpty_iff, List.drop_eq_nil_iff, and_true]
    omega
  · simp [hs]

theorem matchWildcard_split (m : Str) (hm : '*' ∉ m) (rest t : Str) :
    matchWildcard (m ++ '*' :: rest) t =
      match matchFirstSegment m t with
      | none => false
      | some t1 => restOk rest t1 := by
  unfold matchWildcard restOk
  rw [splitOnChar_append _ m rest hm, endsWithStar_append_star]
  rfl

theorem matchWildcard_eq_glob' (p t : Str) : matchWildcard p t = glob p t := by
  induction p using star_induction generalizing t with
  | h1 m hm => exact matchWildcard_free m hm t
  | h2 m rest hm _ =>
    rw [matchWildcard_split m hm, matchFirstSegment_eq, Bool.eq_iff_iff,
      glob_seg_append_iff m hm]
    by_cases hs : startsSingleWildcards m t = true
    · simp [hs, restOk_eq_glob]
    · simp [hs]


/-! ### `glob` on the empty text, relational spec -/

theorem glob_nil_text (p : Str) : glob p [] = p.all (· == '*') := by
  induction p with
  | nil => rfl
  | cons c ps ih =>
    by_cases hc : c = '*'
    · subst hc; simp [glob, anySuffix, ih]
    · simp [glob, hc]

/-! ### `findChar` -/

theorem findChar_none_iff (c : Char) (s : Str) : findChar c s = none ↔ c ∉ s := by
  induction s with
  | nil => simp [findChar]
  | cons x xs ih =>
    by_cases h : x = c
    · simp [findChar, h]
    · have h' : ¬ c = x := fun e => h e.symm
      simp [findChar, h, h', ih]

theorem findChar_append_cons (c : Char) (a b : Str) (ha : c ∉ a) :
    findChar c (a ++ c :: b) = some a.length := by
  induction a with
  | nil => simp [findChar]
  | cons x xs ih =>
    have hx : x ≠ c := fun h => ha (by rw [h]; exact List.mem_cons_self)
    have := ih (fun h => ha (List.mem_cons_of_mem _ h))
    simp [findChar, hx, this]

theorem findChar_some (c : Char) (s : Str) (i : Nat) (h : findChar c s = some i) :
    c ∉ s.take i ∧ s.drop i = c :: s.drop (i + 1) := by
  induction s generalizing i with
  | nil => simp [findChar] at h
  | cons x xs ih =>
    by_cases hx : x = c
    · simp [findChar, hx] at h; subst h; simp [hx]
    · simp only [findChar, hx, if_false, Option.map_eq_some_iff] at h
      obtain ⟨j, hj, rfl⟩ := h
      obtain ⟨h1, h2⟩ := ih j hj
      have h' : ¬ c = x := fun e => hx e.symm
      simp [h1, h', ← h2]

theorem findChar_some_lt (c : Char) (s : Str) (i : Nat) (h : findChar c s = some i) :
    i < s.length := by
  have := (findChar_some c s i h).2
  have hl := congrArg List.length this
  simp at hl; omega

theorem findChar_some_split (c : Char) (s : Str) (i : Nat) (h : findChar c s = some i) :
    s = s.take i ++ c :: s.drop (i + 1) := by
  have := (findChar_some c s i h).2
  rw [← this, List.take_append_drop]

theorem findChar_append_some (c : Char) (s x : Str) (i : Nat) (h : findChar c s = some i) :
    findChar c (s ++ x) = some i := by
  have hs := findChar_some_split c s i h
  have hl := findChar_some_lt c s i h
  have h1 := (findChar_some c s i h).1
  have : s ++ x = s.take i ++ c :: (s.drop (i + 1) ++ x) := by
    conv => lhs; rw [hs]
    simp
  rw [this, findChar_append_cons c _ _ h1, List.length_take]
  congr 1; omega

theorem str_bang_star_at_star : str "!*@*" = ['!', '*', '@', '*'] := by decide
theorem str_bang_star : str "!*" = ['!', '*'] := by decide
theorem str_at_star : str "@*" = ['@', '*'] := by decide


/-! ### `normalizeSourcemask` -/

theorem drop_length_succ {α} (a : List α) (x : α) (b : List α) :
    (a ++ x :: b).drop (a.length + 1) = b := by
  induction a with
  | nil => rfl
  | cons y ys ih => simp

theorem mem_of_findChar_some (c : Char) (s : Str) (j : Nat) (h : findChar c s = some j) :
    c ∈ s := by
  apply Classical.byContradiction
  intro hn
  rw [← findChar_none_iff] at hn
  rw [hn] at h; cases h

theorem normalize_fixed (m : Str) (i : Nat) (h1 : findChar '!' m = some i)
    (h2 : '@' ∈ m.drop (i + 1)) : normalizeSourcemask m = m := by
  unfold normalizeSourcemask
  simp only [h1]
  cases h3 : findChar '@' (m.drop (i + 1)) with
  | none => exact absurd h2 ((findChar_none_iff _ _).mp h3)
  | some j => simp

theorem normalize_result_normalized (m : Str) :
    ∃ i, findChar '!' (normalizeSourcemask m) = some i ∧
      '@' ∈ (normalizeSourcemask m).drop (i + 1) := by
  unfold normalizeSourcemask
  cases h1 : findChar '!' m with
  | some i =>
    simp only
    cases h2 : findChar '@' (m.drop (i + 1)) with
    | none =>
      simp only [Option.isNone_none, if_true]
      refine ⟨i, findChar_append_some _ _ _ _ h1, ?_⟩
      have hl := findChar_some_lt _ _ _ h1
      rw [List.drop_append_of_le_length (by omega)]
      simp [str_at_star]
    | some j =>
      simp only [Option.isNone_some, Bool.false_eq_true, if_false]
      exact ⟨i, h1, mem_of_findChar_some _ _ _ h2⟩
  | none =>
    simp only
    have hb := (findChar_none_iff _ _).mp h1
    cases h2 : findChar '@' m with
    | none =>
      simp only
      rw [str_bang_star_at_star]
      refine ⟨m.length, findChar_append_cons _ _ _ hb, ?_⟩
      rw [drop_length_succ]; simp
    | some j =>
      simp only
      rw [str_bang_star]
      have e : m.take j ++ ['!', '*'] ++ m.drop j = m.take j ++ '!' :: ('*' :: m.drop j) := by
        simp
      rw [e]
      refine ⟨(m.take j).length,
        findChar_append_cons _ _ _ (fun h => hb (List.mem_of_mem_take h)), ?_⟩
      rw [drop_length_succ, (findChar_some _ _ _ h2).2]
      simp

end Irc.C14
