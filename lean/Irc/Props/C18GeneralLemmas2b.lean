/-
  Property C18, general serialisability, part 2b: the sections of the registration path (and the
  counter and `touch` sections) commute with every bump of a command counter (`BumpComm`): none of
  them reads `cmdCounts`.  For a whole command this is the hypothesis `BumpCommLine` (false for
  `STATS m`, whose reply shows the counters).
-/
import Irc.Props.C18GeneralLemmas2

namespace Irc.C18G

open Irc Irc.Conc Reply Irc.C18F

/-- the bump on the handler context -/
def bmp (i : Nat) (x : Ctx) : Ctx := x.modifyW (fun w => bumpCount w i)

/-- **the hypothesis on a program line** for the semantics WITH the counter sections: the handler of
    the line commutes with `command_counts[i].fetch_add(1)` (it neither reads the counters nor
    is it disturbed by them; true for every command except `STATS m`) -/
def BumpCommLine (cfg : Cfg) (c : Nat) (line : Str) : Prop :=
  ∀ i x, handleLine cfg c line (bmp i x) = bmp i (handleLine cfg c line x)

theorem addUser_bump (w : World) (nick : Str) (u : User) (i : Nat) :
    (bumpCount w i).addUser nick u = bumpCount (w.addUser nick u) i := by
  rcases w with ⟨users, channels, wallops, ic, oc, mu, hist, conns, cc, sq, cmdc, pan⟩
  cases h1 : u.modes.invisible <;> cases h2 : u.modes.wallops <;> cases h3 : u.modes.isLocalOper <;>
  simp only [World.addUser, bumpCount, h1, h2, h3, ↓reduceIte, Bool.false_eq_true] <;>
  (split <;> rfl)

section
variable (cfg : Cfg) (i : Nat) (y : Ctx)
theorem bmp_reply (t : Str) : (bmp i y).reply cfg t = bmp i (y.reply cfg t) := rfl
theorem bmp_setConn (cn : Conn) : (bmp i y).setConn cn = bmp i (y.setConn cn) := rfl
theorem bmp_panic (s : String) : (bmp i y).panic s = bmp i (y.panic s) := rfl
theorem bmp_users : (bmp i y).w.users = y.w.users := rfl
theorem bmp_conn (c : Nat) : (bmp i y).conn c = y.conn c := rfl
theorem bmp_direct : (bmp i y).direct = y.direct := rfl
theorem bmp_queued : (bmp i y).queued = y.queued := rfl
theorem bmp_w : (bmp i y).w = bumpCount y.w i := rfl
theorem bmp_addUser (nick : Str) (u : User) :
    (bmp i y).modifyW (fun w => w.addUser nick u) =
      bmp i (y.modifyW (fun w => w.addUser nick u)) := by
  simp only [Ctx.modifyW, bmp, addUser_bump]
theorem bmp_bmp (j : Nat) : bmp j (bmp i y) = bmp i (bmp j y) := by
  simp only [bmp, Ctx.modifyW, bumpCount_comm]
end

theorem sendIsupport_bmp (cfg : Cfg) (client : Str) (x : Ctx) (i : Nat) :
    sendIsupport cfg client (bmp i x) = bmp i (sendIsupport cfg client x) := by
  unfold sendIsupport
  generalize chunks 10 (sortStrs (supportTokens cfg)) = l
  induction l generalizing x with
  | nil => rfl
  | cons t l ih => simp only [List.foldl_cons]; rw [← ih, bmp_reply]

theorem processLusers_bmp (cfg : Cfg) (client : Str) (x : Ctx) (i : Nat) :
    processLusers cfg client (bmp i x) = bmp i (processLusers cfg client x) := by
  unfold processLusers
  have e1 : (bmp i x).w.users = x.w.users := rfl
  have e2 : (bmp i x).w.invisibleCount = x.w.invisibleCount := rfl
  have e3 : (bmp i x).w.operatorsCount = x.w.operatorsCount := rfl
  have e4 : (bmp i x).w.channels = x.w.channels := rfl
  have e5 : (bmp i x).w.maxUsers = x.w.maxUsers := rfl
  simp only [e1, e2, e3, e4, e5]
  by_cases h : x.w.invisibleCount > x.w.users.length
  · simp only [h, ↓reduceIte, bmp_panic, bmp_reply]
  · simp only [h, ↓reduceIte, bmp_reply]

theorem processMotd_bmp (cfg : Cfg) (client : Str) (x : Ctx) (i : Nat) :
    processMotd cfg client none (bmp i x) = bmp i (processMotd cfg client none x) := by
  simp only [processMotd, bmp_reply]

theorem welcomeBurst_bmp (cfg : Cfg) (cn' : Conn) (um : Str) (x : Ctx) (i : Nat) :
    welcomeBurst cfg cn' um (bmp i x) = bmp i (welcomeBurst cfg cn' um x) := by
  unfold welcomeBurst
  simp only [bmp_reply, sendIsupport_bmp, processLusers_bmp, processMotd_bmp]

theorem commitWith_bmp (cfg : Cfg) (d : Nat) (r : Bool) (cnd : Conn) (x : Ctx) (i : Nat) :
    commitWith cfg d r cnd (bmp i x) = bmp i (commitWith cfg d r cnd x) := by
  unfold commitWith
  cases cnd.nick with
  | none => exact bmp_panic i x _
  | some nick =>
    simp only [bmp_users]
    split
    · split
      · simp only [bmp_setConn, bmp_panic]
      · simp only [bmp_setConn, bmp_addUser, welcomeBurst_bmp]
        split
        · rfl
        · simp only [bmp_panic]
    · simp only [bmp_setConn, bmp_reply]

theorem decideStep_bmp (cfg : Cfg) (c : Nat) (x : Ctx) (i : Nat) :
    decideStep cfg c (bmp i x) = ⟨(decideStep cfg c x).pc, bmp i (decideStep cfg c x).x⟩ := by
  unfold decideStep
  simp only [bmp_conn]
  cases authDecision cfg (x.conn c) with
  | notReady => rfl
  | maskMismatch => rfl
  | decided good r => cases good <;> rfl

/-- the context-level statement: the section does to `bmp i x` what it does to `x` -/
def CtxBump (cfg : Cfg) (s : Section) : Prop :=
  ∀ i p x, execSection cfg s ⟨p, bmp i x⟩ =
    ⟨(execSection cfg s ⟨p, x⟩).pc, bmp i (execSection cfg s ⟨p, x⟩).x⟩

theorem bumpComm_of_ctx {cfg : Cfg} {s : Section} (h : CtxBump cfg s) : BumpComm cfg s := by
  intro i σ
  have e0 : ({ w := (bumpW i σ).w } : Ctx) = bmp i { w := σ.w } := rfl
  have hc := h i (σ.pc s.conn) { w := σ.w }
  simp only [stepSection, sectionCtx, e0]
  have e1 : (bumpW i σ).pc = σ.pc := rfl
  have e2 : (bumpW i σ).dir = σ.dir := rfl
  have e3 : (bumpW i σ).sent = σ.sent := rfl
  rw [e1, e2, e3, hc]
  rfl

theorem ctxBump_touch (cfg : Cfg) (c : Nat) : CtxBump cfg (.touch c) := fun _ _ _ => rfl

theorem ctxBump_count (cfg : Cfg) (c j : Nat) : CtxBump cfg (.count c j) := by
  intro i p x
  simp only [execSection]
  exact congrArg (TCtx.mk p) (bmp_bmp i x j)

theorem ctxBump_nickCheck (cfg : Cfg) (c : Nat) (n : Str) : CtxBump cfg (.nickCheck c n) := by
  intro i p x
  simp only [execSection, nickCheckStep, bmp_conn, bmp_users]
  by_cases h1 : (x.conn c).authenticated = true
  · simp only [h1, ↓reduceIte]
  · simp only [h1]
    by_cases h2 : Map.contains n x.w.users = true
    · simp only [h2, ↓reduceIte]; rfl
    · simp only [h2]; rfl

theorem ctxBump_authDecide (cfg : Cfg) (c : Nat) : CtxBump cfg (.authDecide c) := by
  intro i p x
  simp only [execSection]
  split
  · exact decideStep_bmp cfg c x i
  · rfl

theorem ctxBump_authCommit (cfg : Cfg) (c : Nat) : CtxBump cfg (.authCommit c) := by
  intro i p x
  simp only [execSection]
  split
  · simp only [commitStep_eq, bmp_conn, commitWith_bmp]
  · rfl

theorem preludeStep_eq (cfg : Cfg) (c : Nat) (cmd : Command) (t : TCtx) :
    preludeStep cfg c cmd t =
      if (t.x.conn c).authenticated then t else
      match preludeConn cmd (t.x.conn c) with
      | some cn' => decideStep cfg c (t.x.setConn cn')
      | none => t := by
  unfold preludeStep preludeConn
  by_cases h : (t.x.conn c).authenticated = true
  · simp only [h, ↓reduceIte]
  · simp only [h]
    cases cmd <;> try rfl
    rename_i sub _ _
    cases sub <;> rfl

theorem ctxBump_prelude (cfg : Cfg) (c : Nat) (cmd : Command) : CtxBump cfg (.prelude c cmd) := by
  intro i p x
  simp only [execSection, preludeStep_eq, bmp_conn]
  by_cases h1 : (x.conn c).authenticated = true
  · simp only [h1, ↓reduceIte]
  · simp only [h1]
    cases preludeConn cmd (x.conn c) with
    | none => rfl
    | some cn' => simp only [bmp_setConn]; exact decideStep_bmp cfg c _ i

/-- every section of the registration path, the counter and the `touch` section commute with the
    counter bumps -/
theorem bumpComm_reg (cfg : Cfg) {s : Section} (hp : isProg s = true) (hw : isWhole s = false) :
    BumpComm cfg s := by
  cases s with
  | whole c line => cases hw
  | count c i => exact bumpComm_of_ctx (ctxBump_count cfg c i)
  | nickCheck c n => exact bumpComm_of_ctx (ctxBump_nickCheck cfg c n)
  | prelude c cmd => exact bumpComm_of_ctx (ctxBump_prelude cfg c cmd)
  | authDecide c => exact bumpComm_of_ctx (ctxBump_authDecide cfg c)
  | authCommit c => exact bumpComm_of_ctx (ctxBump_authCommit cfg c)
  | touch c => exact bumpComm_of_ctx (ctxBump_touch cfg c)
  | teardown c => cases hp

theorem bumpComm_whole {cfg : Cfg} {c : Nat} {line : Str} (h : BumpCommLine cfg c line) :
    BumpComm cfg (.whole c line) := by
  apply bumpComm_of_ctx
  intro i p x
  simp only [execSection, h i x]

end Irc.C18G
