/-
  Helper lemmas for property C18 (Irc/Props/C18.lean): the algebra of the interleaving
  semantics of Irc/Conc.lean.
-/
import Irc.Conc
import Irc.Lemmas.Frame

namespace Irc.Conc

open Irc Reply

/-! ### connection records -/

theorem conn?_id {w : World} {c : Nat} {cn : Conn} (h : w.conn? c = some cn) : cn.id = c := by
  unfold World.conn? at h
  have := List.find?_some h
  simpa using this

theorem find_map_ne (l : List Conn) (cn : Conn) (c : Nat) (h : cn.id ≠ c) :
    (l.map (fun x => if x.id == cn.id then cn else x)).find? (·.id == c) = l.find? (·.id == c) := by
  induction l with
  | nil => rfl
  | cons a l ih =>
    simp only [List.map_cons, List.find?_cons]
    by_cases ha : a.id = cn.id
    · have h1 : (a.id == c) = false := by simp [ha, h]
      have h2 : (cn.id == c) = false := by simp [h]
      have h3 : (a.id == cn.id) = true := by simp [ha]
      simp only [h3, ↓reduceIte, h2, h1]
      exact ih
    · have : (a.id == cn.id) = false := by simp [ha]
      simp only [this, Bool.false_eq_true, ↓reduceIte]
      split
      · rfl
      · exact ih

theorem conn?_setConn_ne (w : World) (cn : Conn) (c : Nat) (h : cn.id ≠ c) :
    (w.setConn cn).conn? c = w.conn? c := find_map_ne w.conns cn c h

theorem find_map_self (l : List Conn) (cn cn0 : Conn) (c : Nat) (hid : cn.id = c)
    (h : l.find? (·.id == c) = some cn0) :
    (l.map (fun x => if x.id == cn.id then cn else x)).find? (·.id == c) = some cn := by
  induction l with
  | nil => simp at h
  | cons a l ih =>
    simp only [List.map_cons, List.find?_cons] at h ⊢
    by_cases ha : a.id = c
    · have h3 : (a.id == cn.id) = true := by simp [ha, hid]
      have h4 : (cn.id == c) = true := by simp [hid]
      simp only [h3, ↓reduceIte, h4]
    · have h1 : (a.id == c) = false := by simp [ha]
      have h2 : (a.id == cn.id) = false := by simp [hid, ha]
      simp only [h1, h2, Bool.false_eq_true, ↓reduceIte] at h ⊢
      exact ih h

theorem conn?_setConn_self {w : World} {c : Nat} {cn0 : Conn} (cn : Conn)
    (h : w.conn? c = some cn0) (hid : cn.id = c) : (w.setConn cn).conn? c = some cn :=
  find_map_self w.conns cn cn0 c hid h

theorem setConn_setConn_same (w : World) (a b : Conn) (h : a.id = b.id) :
    (w.setConn a).setConn b = w.setConn b := by
  unfold World.setConn
  simp only [List.map_map]
  congr 1
  apply List.map_congr_left
  intro x _
  simp only [Function.comp]
  by_cases hx : x.id = a.id
  · simp [hx, h]
  · simp [hx]

theorem setConn_comm (w : World) (a b : Conn) (h : a.id ≠ b.id) :
    (w.setConn a).setConn b = (w.setConn b).setConn a := by
  unfold World.setConn
  simp only [List.map_map]
  congr 1
  apply List.map_congr_left
  intro x _
  simp only [Function.comp]
  by_cases hx : x.id = a.id
  · simp [hx, h]
  · by_cases hy : x.id = b.id
    · have : ¬ b.id = a.id := fun e => h e.symm
      simp [hx, hy, this]
    · simp [hx, hy]

theorem ctx_conn_of {x : Ctx} {c : Nat} {cn : Conn} (h : x.w.conn? c = some cn) : x.conn c = cn := by
  simp [Ctx.conn, h]

theorem ctx_conn_setConn_ne (x : Ctx) (cn : Conn) (c : Nat) (h : cn.id ≠ c) :
    (x.setConn cn).conn c = x.conn c := by
  simp [Ctx.conn, conn?_setConn_ne _ _ _ h]

/-! ### the algebra of `CState` updates -/

namespace CState
variable (σ : CState) (c d : Nat) (p q : Pc) (cn cn' : Conn) (ls ls' : List Str)

@[simp] theorem setConn_w : (σ.setConn cn).w = σ.w.setConn cn := rfl
@[simp] theorem setConn_pc : (σ.setConn cn).pc = σ.pc := rfl
@[simp] theorem setConn_dir : (σ.setConn cn).dir = σ.dir := rfl
@[simp] theorem setConn_sent : (σ.setConn cn).sent = σ.sent := rfl
@[simp] theorem setPc_w : (σ.setPc c p).w = σ.w := rfl
@[simp] theorem setPc_dir : (σ.setPc c p).dir = σ.dir := rfl
@[simp] theorem setPc_sent : (σ.setPc c p).sent = σ.sent := rfl
@[simp] theorem setPc_pc_self : (σ.setPc c p).pc c = p := by simp [setPc]
theorem setPc_pc_ne (h : d ≠ c) : (σ.setPc c p).pc d = σ.pc d := by simp [setPc, h]
@[simp] theorem addDir_w : (σ.addDir c ls).w = σ.w := rfl
@[simp] theorem addDir_pc : (σ.addDir c ls).pc = σ.pc := rfl
@[simp] theorem addDir_sent : (σ.addDir c ls).sent = σ.sent := rfl
@[simp] theorem addDir_dir_self : (σ.addDir c ls).dir c = σ.dir c ++ ls := by simp [addDir]
theorem addDir_dir_ne (h : d ≠ c) : (σ.addDir c ls).dir d = σ.dir d := by simp [addDir, h]

@[simp] theorem setPc_setPc : (σ.setPc c p).setPc c q = σ.setPc c q := by
  ext d <;> simp only [setPc]
  split <;> rfl

theorem setPc_self (h : σ.pc c = p) : σ.setPc c p = σ := by
  ext d <;> simp only [setPc]
  split
  · rename_i e; rw [e, h]
  · rfl

theorem setPc_setConn : (σ.setPc c p).setConn cn = (σ.setConn cn).setPc c p := rfl
theorem setPc_addDir : (σ.setPc c p).addDir d ls = (σ.addDir d ls).setPc c p := rfl
theorem addDir_setConn : (σ.addDir c ls).setConn cn = (σ.setConn cn).addDir c ls := rfl

theorem setConn_setConn (h : cn.id = cn'.id) : (σ.setConn cn).setConn cn' = σ.setConn cn' := by
  simp only [setConn, setConn_setConn_same _ _ _ h]

theorem addDir_nil : σ.addDir c [] = σ := by
  ext d <;> simp only [addDir]
  split <;> simp

theorem addDir_addDir : (σ.addDir c ls).addDir c ls' = σ.addDir c (ls ++ ls') := by
  ext d <;> simp only [addDir]
  split <;> simp

end CState

/-! ### one step, written with the updates -/

/-- the state after a section of `c` that ended in the context `t` -/
def lift (σ : CState) (c : Nat) (t : TCtx) : CState :=
  { w := t.x.w
    pc := fun d => if d = c then t.pc else σ.pc d
    dir := fun d => if d = c then σ.dir d ++ t.x.direct else σ.dir d
    sent := σ.sent ++ t.x.queued.map (fun p => (c, p.1, p.2)) }

theorem stepSection_eq (cfg : Cfg) (s : Section) (σ : CState) :
    stepSection cfg s σ = lift σ s.conn (sectionCtx cfg s σ) := rfl

theorem lift_silent (σ : CState) (c : Nat) (p : Pc) (w' : World) :
    lift σ c ⟨p, { w := w' }⟩ = ({ σ with w := w' } : CState).setPc c p := by
  ext d <;> simp [lift, CState.setPc]

theorem lift_lines (σ : CState) (c : Nat) (p : Pc) (w' : World) (ls : List Str) :
    lift σ c ⟨p, { w := w', direct := ls }⟩ =
      (({ σ with w := w' } : CState).addDir c ls).setPc c p := by
  ext d <;> simp [lift, CState.setPc, CState.addDir]

/-- `lift` only uses the output components and the other connections' counters of `σ` -/
theorem lift_congr {σ σ' : CState} (c : Nat) (t : TCtx) (hpc : ∀ d, d ≠ c → σ.pc d = σ'.pc d)
    (hdir : σ.dir = σ'.dir) (hsent : σ.sent = σ'.sent) : lift σ c t = lift σ' c t := by
  ext d <;> simp only [lift, hdir, hsent]
  split
  · rfl
  · rename_i h; exact hpc d h

theorem runSections_nil (cfg : Cfg) (σ : CState) : runSections cfg [] σ = σ := rfl

theorem runSections_cons (cfg : Cfg) (s : Section) (ss : List Section) (σ : CState) :
    runSections cfg (s :: ss) σ = runSections cfg ss (stepSection cfg s σ) := rfl

theorem runSections_append (cfg : Cfg) (ss ss' : List Section) (σ : CState) :
    runSections cfg (ss ++ ss') σ = runSections cfg ss' (runSections cfg ss σ) := by
  simp [runSections, List.foldl_append]

/-! ### independence is closed under composition -/

theorem IndepT.id (c : Nat) : IndepT c (fun σ => σ) :=
  ⟨fun _ _ _ => rfl, fun _ _ => rfl, fun _ _ => rfl, fun _ => rfl, fun _ => rfl⟩

theorem IndepT.comp {c : Nat} {f g : CState → CState} (hf : IndepT c f) (hg : IndepT c g) :
    IndepT c (fun σ => g (f σ)) where
  comm_conn σ cn h := by simp only [hf.comm_conn σ cn h, hg.comm_conn _ cn h]
  comm_pc σ p := by simp only [hf.comm_pc, hg.comm_pc]
  comm_dir σ ls := by simp only [hf.comm_dir, hg.comm_dir]
  conn_eq σ := by simp only [hg.conn_eq, hf.conn_eq]
  pc_eq σ := by simp only [hg.pc_eq, hf.pc_eq]

theorem SecIndep.indepT {cfg : Cfg} {c : Nat} {s : Section} (h : SecIndep cfg c s) :
    IndepT c (stepSection cfg s) where
  comm_conn σ cn hid := by
    have hc := h.comm (σ.pc s.conn) { w := σ.w } cn hid
    simp only [stepSection, sectionCtx, CState.setConn] at hc ⊢
    have e : ({ w := σ.w.setConn cn } : Ctx) = ({ w := σ.w } : Ctx).setConn cn := rfl
    rw [e, hc]
    rfl
  comm_pc σ p := by
    have hne := h.other
    simp only [stepSection, sectionCtx, CState.setPc, hne, ↓reduceIte]
    ext d
    · rfl
    · simp only
      by_cases hd : d = c
      · subst hd
        have : ¬ d = s.conn := fun e => hne e.symm
        simp [this]
      · simp [hd]
    · rfl
    · rfl
  comm_dir σ ls := by
    have hne := h.other
    simp only [stepSection, sectionCtx, CState.addDir]
    ext d
    · rfl
    · rfl
    · simp only
      by_cases hd : d = c
      · subst hd
        have : ¬ d = s.conn := fun e => hne e.symm
        simp [this]
      · simp [hd]
    · rfl
  conn_eq σ := by
    simp only [stepSection, sectionCtx]
    exact h.conn_eq _ _
  pc_eq σ := by
    have : ¬ c = s.conn := fun e => h.other e.symm
    simp [stepSection, this]

theorem indepT_run {cfg : Cfg} {c : Nat} {ss : List Section} (h : ∀ s ∈ ss, SecIndep cfg c s) :
    IndepT c (runSections cfg ss) := by
  induction ss with
  | nil => exact IndepT.id c
  | cons s ss ih =>
    have h1 := (h s List.mem_cons_self).indepT
    have h2 := ih (fun s hs => h s (List.mem_cons_of_mem _ hs))
    exact IndepT.comp (f := stepSection cfg s) (g := runSections cfg ss) h1 h2

/-! ### the sections of the registration path, written with the updates -/

theorem lift_id (σ : CState) (c : Nat) : lift σ c ⟨σ.pc c, { w := σ.w }⟩ = σ := by
  rw [lift_silent]
  exact CState.setPc_self _ _ _ rfl

theorem step_touch (cfg : Cfg) (c : Nat) (σ : CState) : stepSection cfg (.touch c) σ = σ :=
  lift_id σ c

theorem step_nickCheck_auth {cfg : Cfg} {c : Nat} {n : Str} {σ : CState} {cn : Conn}
    (h : σ.w.conn? c = some cn) (ha : cn.authenticated = true) :
    stepSection cfg (.nickCheck c n) σ = σ := by
  have hc : ({ w := σ.w } : Ctx).conn c = cn := ctx_conn_of h
  rw [stepSection_eq]
  simp only [sectionCtx, Section.conn, execSection, nickCheckStep, hc, ha, ↓reduceIte]
  exact lift_id σ c

theorem step_nickCheck_taken {cfg : Cfg} {c : Nat} {n : Str} {σ : CState} {cn : Conn}
    (h : σ.w.conn? c = some cn) (ha : cn.authenticated = false)
    (ht : Map.contains n σ.w.users = true) :
    stepSection cfg (.nickCheck c n) σ =
      (σ.addDir c [srvLine cfg (ErrNicknameInUse433 cn.clientName n)]).setPc c .idle := by
  have hc : ({ w := σ.w } : Ctx).conn c = cn := ctx_conn_of h
  rw [stepSection_eq]
  simp only [sectionCtx, Section.conn, execSection, nickCheckStep, hc, ha, ht, ↓reduceIte,
    Bool.false_eq_true]
  exact lift_lines σ c .idle σ.w _

theorem step_nickCheck_free {cfg : Cfg} {c : Nat} {n : Str} {σ : CState} {cn : Conn}
    (h : σ.w.conn? c = some cn) (ha : cn.authenticated = false)
    (ht : Map.contains n σ.w.users = false) :
    stepSection cfg (.nickCheck c n) σ = (σ.setConn (cn.setNick n)).setPc c .toDecide := by
  have hc : ({ w := σ.w } : Ctx).conn c = cn := ctx_conn_of h
  rw [stepSection_eq]
  simp only [sectionCtx, Section.conn, execSection, nickCheckStep, hc, ha, ht, ↓reduceIte,
    Bool.false_eq_true]
  exact lift_silent σ c .toDecide _

/-- the state after A2 of connection `c` whose record is `cn` -/
def decideOut (cfg : Cfg) (c : Nat) (cn : Conn) (σ : CState) : CState :=
  match authDecision cfg cn with
  | .notReady => σ.setPc c .idle
  | .maskMismatch => (σ.addDir c [srvLine cfg (str "ERROR: user mask doesn't match")]).setPc c .idle
  | .decided true r => (σ.setConn { cn with authenticated := true }).setPc c (.toCommit r)
  | .decided false _ =>
    ((σ.setConn { cn with authenticated := false, quit := true }).addDir c
      [srvLine cfg (ErrPasswdMismatch464 cn.clientName)]).setPc c .idle

theorem lift_decideStep {cfg : Cfg} {c : Nat} {σ : CState} {cn : Conn}
    (h : σ.w.conn? c = some cn) :
    lift σ c (decideStep cfg c { w := σ.w }) = decideOut cfg c cn σ := by
  have hc : ({ w := σ.w } : Ctx).conn c = cn := ctx_conn_of h
  simp only [decideStep, decideOut, hc]
  cases authDecision cfg cn with
  | notReady => exact lift_silent σ c .idle _
  | maskMismatch => exact lift_lines σ c .idle σ.w _
  | decided good r =>
    cases good with
    | true => exact lift_silent σ c (.toCommit r) _
    | false => exact lift_lines σ c .idle _ _

theorem step_authDecide {cfg : Cfg} {c : Nat} {σ : CState} {cn : Conn}
    (hpc : σ.pc c = .toDecide) (h : σ.w.conn? c = some cn) :
    stepSection cfg (.authDecide c) σ = decideOut cfg c cn σ := by
  rw [stepSection_eq]
  simp only [sectionCtx, Section.conn, execSection, hpc]
  exact lift_decideStep h

theorem step_authDecide_skip {cfg : Cfg} {c : Nat} {σ : CState} (hpc : σ.pc c ≠ .toDecide) :
    stepSection cfg (.authDecide c) σ = σ := by
  rw [stepSection_eq]
  simp only [sectionCtx, Section.conn, execSection]
  exact lift_id σ c

theorem step_authCommit {cfg : Cfg} {c : Nat} {σ : CState} {r : Bool}
    (hpc : σ.pc c = .toCommit r) :
    stepSection cfg (.authCommit c) σ = lift σ c ⟨.idle, commitStep cfg c r { w := σ.w }⟩ := by
  rw [stepSection_eq]
  simp only [sectionCtx, Section.conn, execSection, hpc]

theorem step_authCommit_skip {cfg : Cfg} {c : Nat} {σ : CState} (hpc : ∀ r, σ.pc c ≠ .toCommit r) :
    stepSection cfg (.authCommit c) σ = σ := by
  rw [stepSection_eq]
  simp only [sectionCtx, Section.conn, execSection]
  exact lift_id σ c

theorem step_authCommit_taken {cfg : Cfg} {c : Nat} {σ : CState} {r : Bool} {cn : Conn} {n : Str}
    (hpc : σ.pc c = .toCommit r) (h : σ.w.conn? c = some cn) (hn : cn.nick = some n)
    (ht : Map.contains n σ.w.users = true) :
    stepSection cfg (.authCommit c) σ =
      ((σ.setConn { cn with registered := r, authenticated := false }).addDir c
        [srvLine cfg (ErrNicknameInUse433 n n)]).setPc c .idle := by
  have hc : ({ w := σ.w } : Ctx).conn c = cn := ctx_conn_of h
  rw [step_authCommit hpc]
  simp only [commitStep, hc, hn, ht, Bool.not_true, Bool.false_eq_true, ↓reduceIte, Conn.clientName]
  exact lift_lines σ c .idle _ _

/-! ### `authenticate` = A2 ; A3, unregistered NICK = A1 ; A2 ; A3 -/

theorem authDecision_decided_nick {cfg : Cfg} {cn : Conn} {g r : Bool}
    (h : authDecision cfg cn = .decided g r) : ∃ n, cn.nick = some n := by
  unfold authDecision at h
  split at h
  · cases h
  · split at h
    · cases h
    · rename_i n hn; exact ⟨n, hn⟩

theorem ctx_setConn_setConn (x : Ctx) (a b : Conn) (h : a.id = b.id) :
    (x.setConn a).setConn b = x.setConn b := by
  simp only [Ctx.setConn, setConn_setConn_same _ _ _ h]

theorem ctx_conn_setConn_self {x : Ctx} {c : Nat} {cn0 : Conn} (cn : Conn)
    (h : x.w.conn? c = some cn0) (hid : cn.id = c) : (x.setConn cn).conn c = cn := by
  simp [Ctx.conn, conn?_setConn_self cn h hid]

/-- A3 with the connection record given explicitly -/
def commitWith (cfg : Cfg) (c : Nat) (registered : Bool) (cn : Conn) (x : Ctx) : Ctx :=
  match cn.nick with
  | none => x.panic "authenticate: nick unwrap"
  | some nick =>
    let cn := { cn with registered := registered }
    if !(Map.contains nick x.w.users) then
      if !cn.hasSender || !cn.hasQuitSender then
        (x.setConn cn).panic "authenticate: sender taken twice"
      else
        let modes := { cfg.defaultUserModes with
                       registered := cfg.defaultUserModes.registered || cn.registered }
        let name := cn.name.getD []
        let realname := cn.realname.getD []
        let u : User :=
          { hostname := cn.hostname, name := name, realname := realname, source := cn.source,
            modes := modes, history := { username := name, hostname := cn.hostname, realname := realname },
            owner := c }
        let cn := { cn with hasSender := false, hasQuitSender := false }
        let x := x.setConn cn
        let x := x.modifyW (fun w => w.addUser nick u)
        let x := welcomeBurst cfg cn modes.render x
        if cn.hasPingSender then x.setConn { cn with hasPingSender := false }
        else x.panic "Ping waker ran!"
    else
      let cn := { cn with authenticated := false }
      let x := x.setConn cn
      x.reply cfg (ErrNicknameInUse433 cn.clientName nick)

theorem commitStep_eq (cfg : Cfg) (c : Nat) (r : Bool) (x : Ctx) :
    commitStep cfg c r x = commitWith cfg c r (x.conn c) x := rfl

theorem commitWith_setConn {cfg : Cfg} {c : Nat} {r : Bool} {cnG cn' : Conn} {n : Str} (x : Ctx)
    (hn : cnG.nick = some n) (hid : cn'.id = cnG.id) :
    commitWith cfg c r cnG (x.setConn cn') = commitWith cfg c r cnG x := by
  unfold commitWith
  simp only [hn, Ctx.setConn_w, World.setConn_users]
  split
  · split
    · rw [ctx_setConn_setConn]; exact hid
    · rw [ctx_setConn_setConn]; exact hid
  · rw [ctx_setConn_setConn]; exact hid

theorem authenticate_good {cfg : Cfg} {c : Nat} {x : Ctx} {r : Bool}
    (hd : authDecision cfg (x.conn c) = .decided true r) :
    authenticate cfg c x = commitWith cfg c r { x.conn c with authenticated := true } x := by
  simp only [authenticate, hd]
  rfl

/-- `authenticate` is A2 followed, if A2 says so, by A3 -/
theorem authenticate_split {cfg : Cfg} {c : Nat} {x : Ctx} {cn : Conn}
    (h : x.w.conn? c = some cn) :
    authenticate cfg c x =
      match decideStep cfg c x with
      | ⟨.toCommit r, x'⟩ => commitStep cfg c r x'
      | ⟨_, x'⟩ => x' := by
  have hc : x.conn c = cn := ctx_conn_of h
  have hid : cn.id = c := conn?_id h
  cases hd : authDecision cfg cn with
  | notReady => simp only [authenticate, decideStep, hc, hd]
  | maskMismatch => simp only [authenticate, decideStep, hc, hd]
  | decided good r =>
    cases good with
    | false => simp only [authenticate, decideStep, hc, hd]; rfl
    | true =>
      obtain ⟨n, hn⟩ := authDecision_decided_nick hd
      rw [authenticate_good (hc ▸ hd)]
      simp only [decideStep, hc, hd, ↓reduceIte, commitStep_eq]
      rw [ctx_conn_setConn_self { cn with authenticated := true } h hid]
      exact (commitWith_setConn (cnG := { cn with authenticated := true })
        (cn' := { cn with authenticated := true }) (n := n) x hn rfl).symm


/-- A2 then A3 on the handler context = `authenticate` -/
theorem decide_commit_ctx {cfg : Cfg} {c : Nat} {x : Ctx} {cn : Conn} (h : x.w.conn? c = some cn) :
    execSection cfg (.authCommit c) (decideStep cfg c x) = ⟨.idle, authenticate cfg c x⟩ := by
  have hc : x.conn c = cn := ctx_conn_of h
  rw [authenticate_split h]
  simp only [decideStep, hc]
  cases authDecision cfg cn with
  | notReady => rfl
  | maskMismatch => rfl
  | decided good r => cases good <;> rfl

theorem nick_split_ctx {cfg : Cfg} {c : Nat} {n : Str} {x : Ctx} {cn : Conn} (msg : Message) (p : Pc)
    (h : x.w.conn? c = some cn) (ha : cn.authenticated = false) :
    execSection cfg (.authCommit c) (execSection cfg (.authDecide c)
      (execSection cfg (.nickCheck c n) ⟨p, x⟩)) = ⟨.idle, processNick cfg c n msg x⟩ := by
  have hc : x.conn c = cn := ctx_conn_of h
  have hid : cn.id = c := conn?_id h
  simp only [processNick, hc, ha, execSection, nickCheckStep, Bool.not_false, ↓reduceIte,
    Bool.false_eq_true]
  cases ht : Map.contains n x.w.users with
  | true => simp
  | false =>
    simp only [Bool.not_false, ↓reduceIte, Bool.false_eq_true]
    have h1 : (x.setConn (cn.setNick n)).w.conn? c = some (cn.setNick n) :=
      conn?_setConn_self _ h hid
    exact decide_commit_ctx h1


theorem run_decide_commit {cfg : Cfg} {c : Nat} {σ : CState} {cn : Conn}
    (h : σ.w.conn? c = some cn) (hpc : σ.pc c = .toDecide) :
    stepSection cfg (.authCommit c) (stepSection cfg (.authDecide c) σ) =
      lift σ c ⟨.idle, authenticate cfg c { w := σ.w }⟩ := by
  have hid : cn.id = c := conn?_id h
  have hc : ({ w := σ.w } : Ctx).conn c = cn := ctx_conn_of h
  rw [step_authDecide hpc h]
  unfold decideOut
  cases hd : authDecision cfg cn with
  | notReady =>
    rw [step_authCommit_skip (by intro r; simp)]
    simp only [authenticate, hc, hd]
    rw [lift_silent]
  | maskMismatch =>
    rw [step_authCommit_skip (by intro r; simp)]
    simp only [authenticate, hc, hd]
    exact (lift_lines σ c .idle σ.w _).symm
  | decided good r =>
    cases good with
    | false =>
      simp only
      rw [step_authCommit_skip (by intro r; simp)]
      simp only [authenticate, hc, hd]
      exact (lift_lines σ c .idle _ _).symm
    | true =>
      obtain ⟨n, hn⟩ := authDecision_decided_nick hd
      simp only
      rw [step_authCommit (r := r) (by simp)]
      rw [authenticate_good (hc.symm ▸ hd), commitStep_eq]
      have e1 : ({ w := ((σ.setConn { cn with authenticated := true }).setPc c (.toCommit r)).w } : Ctx) =
          ({ w := σ.w } : Ctx).setConn { cn with authenticated := true } := rfl
      rw [e1, ctx_conn_setConn_self { cn with authenticated := true } h hid, hc]
      rw [commitWith_setConn (cnG := { cn with authenticated := true })
        (cn' := { cn with authenticated := true }) (n := n) _ hn rfl]
      apply lift_congr
      · intro d hd'; simp [CState.setPc, hd']
      · rfl
      · rfl

theorem run_nickSections {cfg : Cfg} {c : Nat} {n : Str} {σ : CState} {cn : Conn} (msg : Message)
    (h : σ.w.conn? c = some cn) (ha : cn.authenticated = false) :
    runSections cfg (nickSections c n) σ = lift σ c ⟨.idle, processNick cfg c n msg { w := σ.w }⟩ := by
  have hid : cn.id = c := conn?_id h
  have hc : ({ w := σ.w } : Ctx).conn c = cn := ctx_conn_of h
  simp only [nickSections, runSections_cons, runSections_nil]
  cases ht : Map.contains n σ.w.users with
  | true =>
    rw [step_nickCheck_taken h ha ht, step_authDecide_skip (by simp), step_authCommit_skip (by simp)]
    simp only [processNick, hc, ha, ht, Bool.not_false, ↓reduceIte, Bool.not_true, Bool.false_eq_true]
    exact (lift_lines σ c .idle σ.w _).symm
  | false =>
    rw [step_nickCheck_free h ha ht]
    have h1 : ((σ.setConn (cn.setNick n)).setPc c .toDecide).w.conn? c = some (cn.setNick n) :=
      conn?_setConn_self _ h hid
    rw [run_decide_commit h1 (by simp)]
    simp only [processNick, hc, ha, ht, Bool.not_false, ↓reduceIte]
    apply lift_congr
    · intro d hd'; simp [CState.setPc, hd']
    · rfl
    · rfl

/-! ### PASS / USER / CAP END, and the split of a whole line -/

/-- the connection-local update of an unregistered PASS / USER / CAP END -/
def preludeConn (cmd : Command) (cn : Conn) : Option Conn :=
  match cmd with
  | .PASS p => some { cn with password := some p }
  | .USER u _ _ r => some { cn.setName u with realname := some r }
  | .CAP .END _ _ => some { cn with capsNeg := false }
  | _ => none

theorem preludeConn_id {cmd : Command} {cn cn' : Conn} (h : preludeConn cmd cn = some cn') :
    cn'.id = cn.id := by
  unfold preludeConn at h
  split at h <;> simp at h <;> subst h <;> rfl

theorem decideOut_setPc (cfg : Cfg) (c : Nat) (cn : Conn) (σ : CState) (p : Pc) :
    decideOut cfg c cn (σ.setPc c p) = decideOut cfg c cn σ := by
  unfold decideOut
  cases authDecision cfg cn with
  | notReady => simp
  | maskMismatch => simp [← CState.setPc_addDir]
  | decided good r =>
    cases good with
    | true => simp [CState.setPc_setConn]
    | false => simp [CState.setPc_setConn, ← CState.setPc_addDir]

theorem step_prelude {cfg : Cfg} {c : Nat} {cmd : Command} {σ : CState} {cn cn' : Conn}
    (h : σ.w.conn? c = some cn) (ha : cn.authenticated = false) (hp : preludeConn cmd cn = some cn') :
    stepSection cfg (.prelude c cmd) σ =
      stepSection cfg (.authDecide c) ((σ.setConn cn').setPc c .toDecide) := by
  have hid : cn.id = c := conn?_id h
  have hc : ({ w := σ.w } : Ctx).conn c = cn := ctx_conn_of h
  have h1 : ((σ.setConn cn').setPc c .toDecide).w.conn? c = some cn' :=
    conn?_setConn_self _ h ((preludeConn_id hp).trans hid)
  rw [step_authDecide (by simp) h1, decideOut_setPc, ← lift_decideStep (σ := σ.setConn cn') h1]
  rw [stepSection_eq]
  have e : lift σ c (decideStep cfg c (({ w := σ.w } : Ctx).setConn cn')) =
      lift (σ.setConn cn') c (decideStep cfg c { w := (σ.setConn cn').w }) := by
    apply lift_congr <;> intros <;> rfl
  rw [← e]
  have e2 : sectionCtx cfg (.prelude c cmd) σ = decideStep cfg c (({ w := σ.w } : Ctx).setConn cn') := by
    unfold preludeConn at hp
    simp only [sectionCtx, Section.conn, execSection, preludeStep, hc]
    rw [if_neg (by simp [ha])]
    split at hp <;> simp at hp <;> subst hp <;> rfl
  rw [e2]; rfl


theorem run_prelude_commit {cfg : Cfg} {c : Nat} {cmd : Command} {σ : CState} {cn cn' : Conn}
    (h : σ.w.conn? c = some cn) (ha : cn.authenticated = false) (hp : preludeConn cmd cn = some cn') :
    runSections cfg [.prelude c cmd, .authCommit c] σ =
      lift σ c ⟨.idle, authenticate cfg c (({ w := σ.w } : Ctx).setConn cn')⟩ := by
  have hid : cn.id = c := conn?_id h
  have h1 : ((σ.setConn cn').setPc c .toDecide).w.conn? c = some cn' :=
    conn?_setConn_self _ h ((preludeConn_id hp).trans hid)
  simp only [runSections_cons, runSections_nil]
  rw [step_prelude h ha hp, run_decide_commit h1 (by simp)]
  apply lift_congr
  · intro d hd'; simp [CState.setPc, hd']
  · rfl
  · rfl

theorem step_count (cfg : Cfg) (c i : Nat) (σ : CState) :
    stepSection cfg (.count c i) σ = { σ with w := bumpCount σ.w i } := by
  rw [stepSection_eq]
  simp only [sectionCtx, Section.conn, execSection]
  have : (({ w := σ.w } : Ctx).modifyW fun w => bumpCount w i) = { w := bumpCount σ.w i } := rfl
  rw [this, lift_silent]
  exact CState.setPc_self _ _ _ rfl

theorem handleLine_allowed {cfg : Cfg} {c : Nat} {line : Str} {x : Ctx} {msg : Message}
    {cmd : Command} (hp : Message.parse line = .ok msg) (hc : Command.fromMessage msg = .ok cmd)
    (ha : allowedUnregistered cmd = true) :
    handleLine cfg c line x = dispatch cfg c msg cmd (x.modifyW (fun w => bumpCount w cmd.id.index)) := by
  simp only [handleLine, hp, hc, ha, Bool.not_true, Bool.false_and, Bool.false_eq_true, ↓reduceIte]

theorem step_whole {cfg : Cfg} {c : Nat} {line : Str} {σ : CState} (hpc : σ.pc c = .idle) :
    stepSection cfg (.whole c line) σ = lift σ c ⟨.idle, handleLine cfg c line { w := σ.w }⟩ := by
  rw [stepSection_eq]
  simp only [sectionCtx, Section.conn, execSection, hpc]

theorem lift_bump (σ : CState) (c i : Nat) (t : TCtx) :
    lift ({ σ with w := bumpCount σ.w i } : CState) c t = lift σ c t := by
  apply lift_congr <;> intros <;> rfl

/-- **the sections of one command, executed back to back, are the command** -/
theorem split_is_sequential_aux {cfg : Cfg} {c : Nat} {line : Str} {σ : CState} {cn : Conn}
    (h : σ.w.conn? c = some cn) (hpc : σ.pc c = .idle) :
    runSections cfg (splitCommand cn.authenticated c line) σ = stepSection cfg (.whole c line) σ := by
  unfold splitCommand
  split
  · rename_i msg hp
    split
    · rename_i cmd hcm
      have hcb : ∀ i, (({ w := σ.w } : Ctx).modifyW fun w => bumpCount w i).conn c = cn :=
        fun _ => ctx_conn_of h
      cases ha : cn.authenticated with
      | true => split <;> first | rfl | (simp only [runSections_cons, runSections_nil, step_touch])
      | false =>
        have hpre : ∀ cn', preludeConn cmd cn = some cn' →
            runSections cfg [.count c cmd.id.index, .prelude c cmd, .authCommit c] σ =
              lift σ c ⟨.idle, authenticate cfg c
                ((({ w := σ.w } : Ctx).modifyW fun w => bumpCount w cmd.id.index).setConn cn')⟩ := by
          intro cn' hpc'
          rw [runSections_cons, step_count,
            run_prelude_commit (σ := { σ with w := bumpCount σ.w cmd.id.index }) (cn := cn) h ha hpc',
            lift_bump]
          rfl
        split
        · rename_i n
          simp only [Bool.false_eq_true, ↓reduceIte]
          rw [runSections_cons, step_count,
            run_nickSections msg (σ := { σ with w := bumpCount σ.w (Command.NICK n).id.index })
              (cn := cn) h ha, lift_bump,
            step_whole hpc, handleLine_allowed hp hcm rfl]
          rfl
        · rename_i p
          simp only [Bool.false_eq_true, ↓reduceIte]
          rw [hpre _ rfl, step_whole hpc, handleLine_allowed hp hcm rfl]
          simp only [dispatch, processPass, hcb, ha, Bool.not_false, ↓reduceIte]
        · rename_i u _ _ r
          simp only [Bool.false_eq_true, ↓reduceIte]
          rw [hpre _ rfl, step_whole hpc, handleLine_allowed hp hcm rfl]
          simp only [dispatch, processUser, hcb, ha, Bool.not_false, ↓reduceIte]
        · simp only [Bool.false_eq_true, ↓reduceIte]
          rw [hpre _ rfl, step_whole hpc, handleLine_allowed hp hcm rfl]
          simp only [dispatch, processCap, hcb, ha, Bool.not_false, ↓reduceIte]
        · simp only [runSections_cons, runSections_nil, step_touch]
        · simp only [runSections_cons, runSections_nil, step_touch]
        · rfl
    · rfl
  · rfl

end Irc.Conc
