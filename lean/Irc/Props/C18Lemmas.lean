/-
  Helper lemmas for property C18 (Irc/Props/C18.lean): the algebra of the interleaving
  semantics of Irc/Conc.lean.
-/
import Irc.Conc
import Irc.Lemmas.Frame

namespace Irc.Conc

open Irc Reply

/-! ### connection records -/

theorem conn?_id {w : World} {c : Nat} {cn : Conn} (h : w.conn? c = some cn) : cn.id = c := by
  unfold World.conn? at h
  have := List.find?_some h
  simpa using this

theorem find_map_ne (l : List Conn) (cn : Conn) (c : Nat) (h : cn.id ≠ c) :
    (l.map (fun x => if x.id == cn.id then cn else x)).find? (·.id == c) = l.find? (·.id == c) := by
  induction l with
  | nil => rfl
  | cons a l ih =>
    simp only [List.map_cons, List.find?_cons]
    by_cases ha : a.id = cn.id
    · have h1 : (a.id == c) = false := by simp [ha, h]
      have h2 : (cn.id == c) = false := by simp [h]
      have h3 : (a.id == cn.id) = true := by simp [ha]
      simp only [h3, ↓reduceIte, h2, h1]
      exact ih
    · have : (a.id == cn.id) = false := by simp [ha]
      simp only [this, Bool.false_eq_true, ↓reduceIte]
      split
      · rfl
      · exact ih

theorem conn?_setConn_ne (w : World) (cn : Conn) (c : Nat) (h : cn.id ≠ c) :
    (w.setConn cn).conn? c = w.conn? c := find_map_ne w.conns cn c h

theorem find_map_self (l : List Conn) (cn cn0 : Conn) (c : Nat) (hid : cn.id = c)
    (h : l.find? (·.id == c) = some cn0) :
    (l.map (fun x => if x.id == cn.id then cn else x)).find? (·.id == c) = some cn := by
  induction l with
  | nil => simp at h
  | cons a l ih =>
    simp only [List.map_cons, List.find?_cons] at h ⊢
    by_cases ha : a.id = c
    · have h3 : (a.id == cn.id) = true := by simp [ha, hid]
      have h4 : (cn.id == c) = true := by simp [hid]
      simp only [h3, ↓reduceIte, h4]
    · have h1 : (a.id == c) = false := by simp [ha]
      have h2 : (a.id == cn.id) = false := by simp [hid, ha]
      simp only [h1, h2, Bool.false_eq_true, ↓reduceIte] at h ⊢
      exact ih h

theorem conn?_setConn_self {w : World} {c : Nat} {cn0 : Conn} (cn : Conn)
    (h : w.conn? c = some cn0) (hid : cn.id = c) : (w.setConn cn).conn? c = some cn :=
  find_map_self w.conns cn cn0 c hid h

theorem setConn_setConn_same (w : World) (a b : Conn) (h : a.id = b.id) :
    (w.setConn a).setConn b = w.setConn b := by
  unfold World.setConn
  simp only [List.map_map]
  congr 1
  apply List.map_congr_left
  intro x _
  simp only [Function.comp]
  by_cases hx : x.id = a.id
  · simp [hx, h]
  · have : ¬ x.id = b.id := by rw [← h]; exact hx
    simp [hx, this]

theorem setConn_comm (w : World) (a b : Conn) (h : a.id ≠ b.id) :
    (w.setConn a).setConn b = (w.setConn b).setConn a := by
  unfold World.setConn
  simp only [List.map_map]
  congr 1
  apply List.map_congr_left
  intro x _
  simp only [Function.comp]
  by_cases hx : x.id = a.id
  · simp [hx, h]
  · by_cases hy : x.id = b.id
    · have : ¬ b.id = a.id := fun e => h e.symm
      simp [hy, this]
    · simp [hx, hy]

theorem ctx_conn_of {x : Ctx} {c : Nat} {cn : Conn} (h : x.w.conn? c = some cn) : x.conn c = cn := by
  simp [Ctx.conn, h]

theorem ctx_conn_setConn_ne (x : Ctx) (cn : Conn) (c : Nat) (h : cn.id ≠ c) :
    (x.setConn cn).conn c = x.conn c := by
  simp [Ctx.conn, conn?_setConn_ne _ _ _ h]

/-! ### the algebra of `CState` updates -/

namespace CState
variable (σ : CState) (c d : Nat) (p q : Pc) (cn cn' : Conn) (ls ls' : List Str)

@[simp] theorem setConn_w : (σ.setConn cn).w = σ.w.setConn cn := rfl
@[simp] theorem setConn_pc : (σ.setConn cn).pc = σ.pc := rfl
@[simp] theorem setConn_dir : (σ.setConn cn).dir = σ.dir := rfl
@[simp] theorem setConn_sent : (σ.setConn cn).sent = σ.sent := rfl
@[simp] theorem setPc_w : (σ.setPc c p).w = σ.w := rfl
@[simp] theorem setPc_dir : (σ.setPc c p).dir = σ.dir := rfl
@[simp] theorem setPc_sent : (σ.setPc c p).sent = σ.sent := rfl
@[simp] theorem setPc_pc_self : (σ.setPc c p).pc c = p := by simp [setPc]
theorem setPc_pc_ne (h : d ≠ c) : (σ.setPc c p).pc d = σ.pc d := by simp [setPc, h]
@[simp] theorem addDir_w : (σ.addDir c ls).w = σ.w := rfl
@[simp] theorem addDir_pc : (σ.addDir c ls).pc = σ.pc := rfl
@[simp] theorem addDir_sent : (σ.addDir c ls).sent = σ.sent := rfl
@[simp] theorem addDir_dir_self : (σ.addDir c ls).dir c = σ.dir c ++ ls := by simp [addDir]
theorem addDir_dir_ne (h : d ≠ c) : (σ.addDir c ls).dir d = σ.dir d := by simp [addDir, h]

@[simp] theorem setPc_setPc : (σ.setPc c p).setPc c q = σ.setPc c q := by
  ext d <;> simp only [setPc]
  split <;> rfl

theorem setPc_self (h : σ.pc c = p) : σ.setPc c p = σ := by
  ext d <;> simp only [setPc]
  split
  · rename_i e; rw [e, h]
  · rfl

theorem setPc_setConn : (σ.setPc c p).setConn cn = (σ.setConn cn).setPc c p := rfl
theorem setPc_addDir : (σ.setPc c p).addDir d ls = (σ.addDir d ls).setPc c p := rfl
theorem addDir_setConn : (σ.addDir c ls).setConn cn = (σ.setConn cn).addDir c ls := rfl

theorem setConn_setConn (h : cn.id = cn'.id) : (σ.setConn cn).setConn cn' = σ.setConn cn' := by
  simp only [setConn, setConn_setConn_same _ _ _ h]

theorem addDir_nil : σ.addDir c [] = σ := by
  ext d <;> simp only [addDir]
  split <;> simp

theorem addDir_addDir : (σ.addDir c ls).addDir c ls' = σ.addDir c (ls ++ ls') := by
  ext d <;> simp only [addDir]
  split <;> simp

end CState

/-! ### one step, written with the updates -/

/-- the state after a section of `c` that ended in the context `t` -/
def lift (σ : CState) (c : Nat) (t : TCtx) : CState :=
  { w := t.x.w
    pc := fun d => if d = c then t.pc else σ.pc d
    dir := fun d => if d = c then σ.dir d ++ t.x.direct else σ.dir d
    sent := σ.sent ++ t.x.queued.map (fun p => (c, p.1, p.2)) }

theorem stepSection_eq (cfg : Cfg) (s : Section) (σ : CState) :
    stepSection cfg s σ = lift σ s.conn (sectionCtx cfg s σ) := rfl

theorem lift_silent (σ : CState) (c : Nat) (p : Pc) (w' : World) :
    lift σ c ⟨p, { w := w' }⟩ = ({ σ with w := w' } : CState).setPc c p := by
  ext d <;> simp [lift, CState.setPc]

theorem lift_lines (σ : CState) (c : Nat) (p : Pc) (w' : World) (ls : List Str) :
    lift σ c ⟨p, { w := w', direct := ls }⟩ =
      (({ σ with w := w' } : CState).addDir c ls).setPc c p := by
  ext d <;> simp [lift, CState.setPc, CState.addDir]

/-- `lift` only uses the output components and the other connections' counters of `σ` -/
theorem lift_congr {σ σ' : CState} (c : Nat) (t : TCtx) (hpc : ∀ d, d ≠ c → σ.pc d = σ'.pc d)
    (hdir : σ.dir = σ'.dir) (hsent : σ.sent = σ'.sent) : lift σ c t = lift σ' c t := by
  ext d <;> simp only [lift, hdir, hsent]
  split
  · rfl
  · rename_i h; exact hpc d h

theorem runSections_nil (cfg : Cfg) (σ : CState) : runSections cfg [] σ = σ := rfl

theorem runSections_cons (cfg : Cfg) (s : Section) (ss : List Section) (σ : CState) :
    runSections cfg (s :: ss) σ = runSections cfg ss (stepSection cfg s σ) := rfl

theorem runSections_append (cfg : Cfg) (ss ss' : List Section) (σ : CState) :
    runSections cfg (ss ++ ss') σ = runSections cfg ss' (runSections cfg ss σ) := by
  simp [runSections, List.foldl_append]

/-! ### independence is closed under composition -/

theorem IndepT.id (c : Nat) : IndepT c (fun σ => σ) :=
  ⟨fun _ _ _ => rfl, fun _ _ => rfl, fun _ _ => rfl, fun _ => rfl, fun _ => rfl⟩

theorem IndepT.comp {c : Nat} {f g : CState → CState} (hf : IndepT c f) (hg : IndepT c g) :
    IndepT c (fun σ => g (f σ)) where
  comm_conn σ cn h := by simp only [hf.comm_conn σ cn h, hg.comm_conn _ cn h]
  comm_pc σ p := by simp only [hf.comm_pc, hg.comm_pc]
  comm_dir σ ls := by simp only [hf.comm_dir, hg.comm_dir]
  conn_eq σ := by simp only [hg.conn_eq, hf.conn_eq]
  pc_eq σ := by simp only [hg.pc_eq, hf.pc_eq]

theorem SecIndep.indepT {cfg : Cfg} {c : Nat} {s : Section} (h : SecIndep cfg c s) :
    IndepT c (stepSection cfg s) where
  comm_conn σ cn hid := by
    have hc := h.comm (σ.pc s.conn) { w := σ.w } cn hid
    simp only [stepSection, sectionCtx, CState.setConn] at hc ⊢
    have e : ({ w := σ.w.setConn cn } : Ctx) = ({ w := σ.w } : Ctx).setConn cn := rfl
    rw [e, hc]
    rfl
  comm_pc σ p := by
    have hne := h.other
    simp only [stepSection, sectionCtx, CState.setPc, hne, ↓reduceIte]
    ext d
    · rfl
    · simp only
      by_cases hd : d = c
      · subst hd
        have : ¬ d = s.conn := fun e => hne e.symm
        simp [this]
      · simp [hd]
    · rfl
    · rfl
  comm_dir σ ls := by
    have hne := h.other
    simp only [stepSection, sectionCtx, CState.addDir]
    ext d
    · rfl
    · rfl
    · simp only
      by_cases hd : d = c
      · subst hd
        have : ¬ d = s.conn := fun e => hne e.symm
        simp [this]
      · simp [hd]
    · rfl
  conn_eq σ := by
    simp only [stepSection, sectionCtx]
    exact h.conn_eq _ _
  pc_eq σ := by
    have : ¬ c = s.conn := fun e => h.other e.symm
    simp [stepSection, this]

theorem indepT_run {cfg : Cfg} {c : Nat} {ss : List Section} (h : ∀ s ∈ ss, SecIndep cfg c s) :
    IndepT c (runSections cfg ss) := by
  induction ss with
  | nil => exact IndepT.id c
  | cons s ss ih =>
    have h1 := (h s List.mem_cons_self).indepT
    have h2 := ih (fun s hs => h s (List.mem_cons_of_mem _ hs))
    exact IndepT.comp (f := stepSection cfg s) (g := runSections cfg ss) h1 h2

/-! ### the sections of the registration path, written with the updates -/

theorem lift_id (σ : CState) (c : Nat) : lift σ c ⟨σ.pc c, { w := σ.w }⟩ = σ := by
  rw [lift_silent]
  exact CState.setPc_self _ _ _ rfl

theorem step_touch (cfg : Cfg) (c : Nat) (σ : CState) : stepSection cfg (.touch c) σ = σ :=
  lift_id σ c

theorem step_nickCheck_auth {cfg : Cfg} {c : Nat} {n : Str} {σ : CState} {cn : Conn}
    (h : σ.w.conn? c = some cn) (ha : cn.authenticated = true) :
    stepSection cfg (.nickCheck c n) σ = σ := by
  have hc : ({ w := σ.w } : Ctx).conn c = cn := ctx_conn_of h
  rw [stepSection_eq]
  simp only [sectionCtx, Section.conn, execSection, nickCheckStep, hc, ha, ↓reduceIte]
  exact lift_id σ c

theorem step_nickCheck_taken {cfg : Cfg} {c : Nat} {n : Str} {σ : CState} {cn : Conn}
    (h : σ.w.conn? c = some cn) (ha : cn.authenticated = false)
    (ht : Map.contains n σ.w.users = true) :
    stepSection cfg (.nickCheck c n) σ =
      (σ.addDir c [srvLine cfg (ErrNicknameInUse433 cn.clientName n)]).setPc c .idle := by
  have hc : ({ w := σ.w } : Ctx).conn c = cn := ctx_conn_of h
  rw [stepSection_eq]
  simp only [sectionCtx, Section.conn, execSection, nickCheckStep, hc, ha, ht, ↓reduceIte,
    Bool.false_eq_true]
  exact lift_lines σ c .idle σ.w _

theorem step_nickCheck_free {cfg : Cfg} {c : Nat} {n : Str} {σ : CState} {cn : Conn}
    (h : σ.w.conn? c = some cn) (ha : cn.authenticated = false)
    (ht : Map.contains n σ.w.users = false) :
    stepSection cfg (.nickCheck c n) σ = (σ.setConn (cn.setNick n)).setPc c .toDecide := by
  have hc : ({ w := σ.w } : Ctx).conn c = cn := ctx_conn_of h
  rw [stepSection_eq]
  simp only [sectionCtx, Section.conn, execSection, nickCheckStep, hc, ha, ht, ↓reduceIte,
    Bool.false_eq_true]
  exact lift_silent σ c .toDecide _

/-- the state after A2 of connection `c` whose record is `cn` -/
def decideOut (cfg : Cfg) (c : Nat) (cn : Conn) (σ : CState) : CState :=
  match authDecision cfg cn with
  | .notReady => σ.setPc c .idle
  | .maskMismatch => (σ.addDir c [srvLine cfg (str "ERROR: user mask doesn't match")]).setPc c .idle
  | .decided true r => (σ.setConn { cn with authenticated := true }).setPc c (.toCommit r)
  | .decided false _ =>
    ((σ.setConn { cn with authenticated := false, quit := true }).addDir c
      [srvLine cfg (ErrPasswdMismatch464 cn.clientName)]).setPc c .idle

theorem lift_decideStep {cfg : Cfg} {c : Nat} {σ : CState} {cn : Conn}
    (h : σ.w.conn? c = some cn) :
    lift σ c (decideStep cfg c { w := σ.w }) = decideOut cfg c cn σ := by
  have hc : ({ w := σ.w } : Ctx).conn c = cn := ctx_conn_of h
  simp only [decideStep, decideOut, hc]
  cases authDecision cfg cn with
  | notReady => exact lift_silent σ c .idle _
  | maskMismatch => exact lift_lines σ c .idle σ.w _
  | decided good r =>
    cases good with
    | true => exact lift_silent σ c (.toCommit r) _
    | false => exact lift_lines σ c .idle _ _

theorem step_authDecide {cfg : Cfg} {c : Nat} {σ : CState} {cn : Conn}
    (hpc : σ.pc c = .toDecide) (h : σ.w.conn? c = some cn) :
    stepSection cfg (.authDecide c) σ = decideOut cfg c cn σ := by
  rw [stepSection_eq]
  simp only [sectionCtx, Section.conn, execSection, hpc]
  exact lift_decideStep h

theorem step_authDecide_skip {cfg : Cfg} {c : Nat} {σ : CState} (hpc : σ.pc c ≠ .toDecide) :
    stepSection cfg (.authDecide c) σ = σ := by
  rw [stepSection_eq]
  simp only [sectionCtx, Section.conn, execSection]
  exact lift_id σ c

theorem step_authCommit {cfg : Cfg} {c : Nat} {σ : CState} {r : Bool}
    (hpc : σ.pc c = .toCommit r) :
    stepSection cfg (.authCommit c) σ = lift σ c ⟨.idle, commitStep cfg c r { w := σ.w }⟩ := by
  rw [stepSection_eq]
  simp only [sectionCtx, Section.conn, execSection, hpc]

theorem step_authCommit_skip {cfg : Cfg} {c : Nat} {σ : CState} (hpc : ∀ r, σ.pc c ≠ .toCommit r) :
    stepSection cfg (.authCommit c) σ = σ := by
  rw [stepSection_eq]
  simp only [sectionCtx, Section.conn, execSection]
  exact lift_id σ c

theorem step_authCommit_taken {cfg : Cfg} {c : Nat} {σ : CState} {r : Bool} {cn : Conn} {n : Str}
    (hpc : σ.pc c = .toCommit r) (h : σ.w.conn? c = some cn) (hn : cn.nick = some n)
    (ht : Map.contains n σ.w.users = true) :
    stepSection cfg (.authCommit c) σ =
      ((σ.setConn { cn with registered := r, authenticated := false }).addDir c
        [srvLine cfg (ErrNicknameInUse433 n n)]).setPc c .idle := by
  have hc : ({ w := σ.w } : Ctx).conn c = cn := ctx_conn_of h
  rw [step_authCommit hpc]
  simp only [commitStep, hc, hn, ht, Bool.not_true, Bool.false_eq_true, ↓reduceIte, Conn.clientName]
  exact lift_lines σ c .idle _ _

/-! ### `authenticate` = A2 ; A3, unregistered NICK = A1 ; A2 ; A3 -/

theorem authDecision_decided_nick {cfg : Cfg} {cn : Conn} {g r : Bool}
    (h : authDecision cfg cn = .decided g r) : ∃ n, cn.nick = some n := by
  unfold authDecision at h
  split at h
  · cases h
  · split at h
    · cases h
    · rename_i n hn; exact ⟨n, hn⟩

theorem ctx_setConn_setConn (x : Ctx) (a b : Conn) (h : a.id = b.id) :
    (x.setConn a).setConn b = x.setConn b := by
  simp only [Ctx.setConn, setConn_setConn_same _ _ _ h]

theorem ctx_conn_setConn_self {x : Ctx} {c : Nat} {cn0 : Conn} (cn : Conn)
    (h : x.w.conn? c = some cn0) (hid : cn.id = c) : (x.setConn cn).conn c = cn := by
  simp [Ctx.conn, conn?_setConn_self cn h hid]

/-- A3 with the connection record given explicitly -/
def commitWith (cfg : Cfg) (c : Nat) (registered : Bool) (cn : Conn) (x : Ctx) : Ctx :=
  match cn.nick with
  | none => x.panic "authenticate: nick unwrap"
  | some nick =>
    let cn := { cn with registered := registered }
    if !(Map.contains nick x.w.users) then
      if !cn.hasSender || !cn.hasQuitSender then
        (x.setConn cn).panic "authenticate: sender taken twice"
      else
        let modes := { cfg.defaultUserModes with
                       registered := cfg.defaultUserModes.registered || cn.registered }
        let name := cn.name.getD []
        let realname := cn.realname.getD []
        let u : User :=
          { hostname := cn.hostname, name := name, realname := realname, source := cn.source,
            modes := modes, history := { username := name, hostname := cn.hostname, realname := realname },
            owner := c }
        let cn := { cn with hasSender := false, hasQuitSender := false }
        let x := x.setConn cn
        let x := x.modifyW (fun w => w.addUser nick u)
        let x := welcomeBurst cfg cn modes.render x
        if cn.hasPingSender then x.setConn { cn with hasPingSender := false }
        else x.panic "Ping waker ran!"
    else
      let cn := { cn with authenticated := false }
      let x := x.setConn cn
      x.reply cfg (ErrNicknameInUse433 cn.clientName nick)

theorem commitStep_eq (cfg : Cfg) (c : Nat) (r : Bool) (x : Ctx) :
    commitStep cfg c r x = commitWith cfg c r (x.conn c) x := rfl

theorem commitWith_setConn {cfg : Cfg} {c : Nat} {r : Bool} {cnG cn' : Conn} {n : Str} (x : Ctx)
    (hn : cnG.nick = some n) (hid : cn'.id = cnG.id) :
    commitWith cfg c r cnG (x.setConn cn') = commitWith cfg c r cnG x := by
  unfold commitWith
  simp only [hn, Ctx.setConn_w, World.setConn_users]
  split
  · split
    · rw [ctx_setConn_setConn]; exact hid
    · rw [ctx_setConn_setConn]; exact hid
  · rw [ctx_setConn_setConn]; exact hid

theorem authenticate_good {cfg : Cfg} {c : Nat} {x : Ctx} {r : Bool}
    (hd : authDecision cfg (x.conn c) = .decided true r) :
    authenticate cfg c x = commitWith cfg c r { x.conn c with authenticated := true } x := by
  simp only [authenticate, hd]
  rfl

/-- `authenticate` is A2 followed, if A2 says so, by A3 -/
theorem authenticate_split {cfg : Cfg} {c : Nat} {x : Ctx} {cn : Conn}
    (h : x.w.conn? c = some cn) :
    authenticate cfg c x =
      match decideStep cfg c x with
      | ⟨.toCommit r, x'⟩ => commitStep cfg c r x'
      | ⟨_, x'⟩ => x' := by
  have hc : x.conn c = cn := ctx_conn_of h
  have hid : cn.id = c := conn?_id h
  cases hd : authDecision cfg cn with
  | notReady => simp only [authenticate, decideStep, hc, hd]
  | maskMismatch => simp only [authenticate, decideStep, hc, hd]
  | decided good r =>
    cases good with
    | false => simp only [authenticate, decideStep, hc, hd]; rfl
    | true =>
      obtain ⟨n, hn⟩ := authDecision_decided_nick hd
      rw [authenticate_good (hc ▸ hd)]
      simp only [decideStep, hc, hd, ↓reduceIte, commitStep_eq]
      rw [ctx_conn_setConn_self { cn with authenticated := true } h hid]
      exact (commitWith_setConn (cnG := { cn with authenticated := true })
        (cn' := { cn with authenticated := true }) (n := n) x hn rfl).symm


/-- A2 then A3 on the handler context = `authenticate` -/
theorem decide_commit_ctx {cfg : Cfg} {c : Nat} {x : Ctx} {cn : Conn} (h : x.w.conn? c = some cn) :
    execSection cfg (.authCommit c) (decideStep cfg c x) = ⟨.idle, authenticate cfg c x⟩ := by
  have hc : x.conn c = cn := ctx_conn_of h
  rw [authenticate_split h]
  simp only [decideStep, hc]
  cases authDecision cfg cn with
  | notReady => rfl
  | maskMismatch => rfl
  | decided good r => cases good <;> rfl

theorem nick_split_ctx {cfg : Cfg} {c : Nat} {n : Str} {x : Ctx} {cn : Conn} (msg : Message) (p : Pc)
    (h : x.w.conn? c = some cn) (ha : cn.authenticated = false) :
    execSection cfg (.authCommit c) (execSection cfg (.authDecide c)
      (execSection cfg (.nickCheck c n) ⟨p, x⟩)) = ⟨.idle, processNick cfg c n msg x⟩ := by
  have hc : x.conn c = cn := ctx_conn_of h
  have hid : cn.id = c := conn?_id h
  simp only [processNick, hc, ha, execSection, nickCheckStep, Bool.not_false, ↓reduceIte,
    Bool.false_eq_true]
  cases ht : Map.contains n x.w.users with
  | true => simp
  | false =>
    simp only [Bool.not_false, ↓reduceIte, Bool.false_eq_true]
    have h1 : (x.setConn (cn.setNick n)).w.conn? c = some (cn.setNick n) :=
      conn?_setConn_self _ h hid
    exact decide_commit_ctx h1


theorem run_decide_commit {cfg : Cfg} {c : Nat} {σ : CState} {cn : Conn}
    (h : σ.w.conn? c = some cn) (hpc : σ.pc c = .toDecide) :
    stepSection cfg (.authCommit c) (stepSection cfg (.authDecide c) σ) =
      lift σ c ⟨.idle, authenticate cfg c { w := σ.w }⟩ := by
  have hid : cn.id = c := conn?_id h
  have hc : ({ w := σ.w } : Ctx).conn c = cn := ctx_conn_of h
  rw [step_authDecide hpc h]
  unfold decideOut
  cases hd : authDecision cfg cn with
  | notReady =>
    rw [step_authCommit_skip (by intro r; simp)]
    simp only [authenticate, hc, hd]
    rw [lift_silent]
  | maskMismatch =>
    rw [step_authCommit_skip (by intro r; simp)]
    simp only [authenticate, hc, hd]
    exact (lift_lines σ c .idle σ.w _).symm
  | decided good r =>
    cases good with
    | false =>
      simp only
      rw [step_authCommit_skip (by intro r; simp)]
      simp only [authenticate, hc, hd]
      exact (lift_lines σ c .idle _ _).symm
    | true =>
      obtain ⟨n, hn⟩ := authDecision_decided_nick hd
      simp only
      rw [step_authCommit (r := r) (by simp)]
      rw [authenticate_good (hc.symm ▸ hd), commitStep_eq]
      have e1 : ({ w := ((σ.setConn { cn with authenticated := true }).setPc c (.toCommit r)).w } : Ctx) =
          ({ w := σ.w } : Ctx).setConn { cn with authenticated := true } := rfl
      rw [e1, ctx_conn_setConn_self { cn with authenticated := true } h hid, hc]
      rw [commitWith_setConn (cnG := { cn with authenticated := true })
        (cn' := { cn with authenticated := true }) (n := n) _ hn rfl]
      apply lift_congr
      · intro d hd'; simp [CState.setPc, hd']
      · rfl
      · rfl

theorem run_nickSections {cfg : Cfg} {c : Nat} {n : Str} {σ : CState} {cn : Conn} (msg : Message)
    (h : σ.w.conn? c = some cn) (ha : cn.authenticated = false) :
    runSections cfg (nickSections c n) σ = lift σ c ⟨.idle, processNick cfg c n msg { w := σ.w }⟩ := by
  have hid : cn.id = c := conn?_id h
  have hc : ({ w := σ.w } : Ctx).conn c = cn := ctx_conn_of h
  simp only [nickSections, runSections_cons, runSections_nil]
  cases ht : Map.contains n σ.w.users with
  | true =>
    rw [step_nickCheck_taken h ha ht, step_authDecide_skip (by simp), step_authCommit_skip (by simp)]
    simp only [processNick, hc, ha, ht, Bool.not_false, ↓reduceIte, Bool.not_true, Bool.false_eq_true]
    exact (lift_lines σ c .idle σ.w _).symm
  | false =>
    rw [step_nickCheck_free h ha ht]
    have h1 : ((σ.setConn (cn.setNick n)).setPc c .toDecide).w.conn? c = some (cn.setNick n) :=
      conn?_setConn_self _ h hid
    rw [run_decide_commit h1 (by simp)]
    simp only [processNick, hc, ha, ht, Bool.not_false, ↓reduceIte]
    apply lift_congr
    · intro d hd'; simp [CState.setPc, hd']
    · rfl
    · rfl

/-! ### PASS / USER / CAP END, and the split of a whole line -/

/-- the connection-local update of an unregistered PASS / USER / CAP END -/
def preludeConn (cmd : Command) (cn : Conn) : Option Conn :=
  match cmd with
  | .PASS p => some { cn with password := some p }
  | .USER u _ _ r => some { cn.setName u with realname := some r }
  | .CAP .END _ _ => some { cn with capsNeg := false }
  | _ => none

theorem preludeConn_id {cmd : Command} {cn cn' : Conn} (h : preludeConn cmd cn = some cn') :
    cn'.id = cn.id := by
  unfold preludeConn at h
  split at h <;> simp at h <;> subst h <;> rfl

theorem decideOut_setPc (cfg : Cfg) (c : Nat) (cn : Conn) (σ : CState) (p : Pc) :
    decideOut cfg c cn (σ.setPc c p) = decideOut cfg c cn σ := by
  unfold decideOut
  cases authDecision cfg cn with
  | notReady => simp
  | maskMismatch => simp [← CState.setPc_addDir]
  | decided good r =>
    cases good with
    | true => simp [CState.setPc_setConn]
    | false => simp [CState.setPc_setConn, ← CState.setPc_addDir]

theorem step_prelude {cfg : Cfg} {c : Nat} {cmd : Command} {σ : CState} {cn cn' : Conn}
    (h : σ.w.conn? c = some cn) (ha : cn.authenticated = false) (hp : preludeConn cmd cn = some cn') :
    stepSection cfg (.prelude c cmd) σ =
      stepSection cfg (.authDecide c) ((σ.setConn cn').setPc c .toDecide) := by
  have hid : cn.id = c := conn?_id h
  have hc : ({ w := σ.w } : Ctx).conn c = cn := ctx_conn_of h
  have h1 : ((σ.setConn cn').setPc c .toDecide).w.conn? c = some cn' :=
    conn?_setConn_self _ h ((preludeConn_id hp).trans hid)
  rw [step_authDecide (by simp) h1, decideOut_setPc, ← lift_decideStep (σ := σ.setConn cn') h1]
  rw [stepSection_eq]
  have e : lift σ c (decideStep cfg c (({ w := σ.w } : Ctx).setConn cn')) =
      lift (σ.setConn cn') c (decideStep cfg c { w := (σ.setConn cn').w }) := by
    apply lift_congr <;> intros <;> rfl
  rw [← e]
  have e2 : sectionCtx cfg (.prelude c cmd) σ = decideStep cfg c (({ w := σ.w } : Ctx).setConn cn') := by
    unfold preludeConn at hp
    simp only [sectionCtx, Section.conn, execSection, preludeStep, hc]
    rw [if_neg (by simp [ha])]
    split at hp <;> simp at hp <;> subst hp <;> rfl
  rw [e2]; rfl


theorem run_prelude_commit {cfg : Cfg} {c : Nat} {cmd : Command} {σ : CState} {cn cn' : Conn}
    (h : σ.w.conn? c = some cn) (ha : cn.authenticated = false) (hp : preludeConn cmd cn = some cn') :
    runSections cfg [.prelude c cmd, .authCommit c] σ =
      lift σ c ⟨.idle, authenticate cfg c (({ w := σ.w } : Ctx).setConn cn')⟩ := by
  have hid : cn.id = c := conn?_id h
  have h1 : ((σ.setConn cn').setPc c .toDecide).w.conn? c = some cn' :=
    conn?_setConn_self _ h ((preludeConn_id hp).trans hid)
  simp only [runSections_cons, runSections_nil]
  rw [step_prelude h ha hp, run_decide_commit h1 (by simp)]
  apply lift_congr
  · intro d hd'; simp [CState.setPc, hd']
  · rfl
  · rfl

theorem step_count (cfg : Cfg) (c i : Nat) (σ : CState) :
    stepSection cfg (.count c i) σ = { σ with w := bumpCount σ.w i } := by
  rw [stepSection_eq]
  simp only [sectionCtx, Section.conn, execSection]
  have : (({ w := σ.w } : Ctx).modifyW fun w => bumpCount w i) = { w := bumpCount σ.w i } := rfl
  rw [this, lift_silent]
  exact CState.setPc_self _ _ _ rfl

theorem handleLine_allowed {cfg : Cfg} {c : Nat} {line : Str} {x : Ctx} {msg : Message}
    {cmd : Command} (hp : Message.parse line = .ok msg) (hc : Command.fromMessage msg = .ok cmd)
    (ha : allowedUnregistered cmd = true) :
    handleLine cfg c line x = dispatch cfg c msg cmd (x.modifyW (fun w => bumpCount w cmd.id.index)) := by
  simp only [handleLine, hp, hc, ha, Bool.not_true, Bool.false_and, Bool.false_eq_true, ↓reduceIte]

theorem step_whole {cfg : Cfg} {c : Nat} {line : Str} {σ : CState} (hpc : σ.pc c = .idle) :
    stepSection cfg (.whole c line) σ = lift σ c ⟨.idle, handleLine cfg c line { w := σ.w }⟩ := by
  rw [stepSection_eq]
  simp only [sectionCtx, Section.conn, execSection, hpc]

theorem lift_bump (σ : CState) (c i : Nat) (t : TCtx) :
    lift ({ σ with w := bumpCount σ.w i } : CState) c t = lift σ c t := by
  apply lift_congr <;> intros <;> rfl

/-- **the sections of one command, executed back to back, are the command** -/
theorem split_is_sequential_aux {cfg : Cfg} {c : Nat} {line : Str} {σ : CState} {cn : Conn}
    (h : σ.w.conn? c = some cn) (hpc : σ.pc c = .idle) :
    runSections cfg (splitCommand cn.authenticated c line) σ = stepSection cfg (.whole c line) σ := by
  unfold splitCommand
  split
  · rename_i msg hp
    split
    · rename_i cmd hcm
      have hcb : ∀ i, (({ w := σ.w } : Ctx).modifyW fun w => bumpCount w i).conn c = cn :=
        fun _ => ctx_conn_of h
      cases ha : cn.authenticated with
      | true => split <;> first | rfl | (simp only [runSections_cons, runSections_nil, step_touch])
      | false =>
        have hpre : ∀ cn', preludeConn cmd cn = some cn' →
            runSections cfg [.count c cmd.id.index, .prelude c cmd, .authCommit c] σ =
              lift σ c ⟨.idle, authenticate cfg c
                ((({ w := σ.w } : Ctx).modifyW fun w => bumpCount w cmd.id.index).setConn cn')⟩ := by
          intro cn' hpc'
          rw [runSections_cons, step_count,
            run_prelude_commit (σ := { σ with w := bumpCount σ.w cmd.id.index }) (cn := cn) h ha hpc',
            lift_bump]
          rfl
        split
        · rename_i n
          simp only [Bool.false_eq_true, ↓reduceIte]
          rw [runSections_cons, step_count,
            run_nickSections msg (σ := { σ with w := bumpCount σ.w (Command.NICK n).id.index })
              (cn := cn) h ha, lift_bump,
            step_whole hpc, handleLine_allowed hp hcm rfl]
          rfl
        · rename_i p
          simp only [Bool.false_eq_true, ↓reduceIte]
          rw [hpre _ rfl, step_whole hpc, handleLine_allowed hp hcm rfl]
          simp only [dispatch, processPass, hcb, ha, Bool.not_false, ↓reduceIte]
        · rename_i u _ _ r
          simp only [Bool.false_eq_true, ↓reduceIte]
          rw [hpre _ rfl, step_whole hpc, handleLine_allowed hp hcm rfl]
          simp only [dispatch, processUser, hcb, ha, Bool.not_false, ↓reduceIte]
        · simp only [Bool.false_eq_true, ↓reduceIte]
          rw [hpre _ rfl, step_whole hpc, handleLine_allowed hp hcm rfl]
          simp only [dispatch, processCap, hcb, ha, Bool.not_false, ↓reduceIte]
        · simp only [runSections_cons, runSections_nil, step_touch]
        · simp only [runSections_cons, runSections_nil, step_touch]
        · rfl
    · rfl
  · rfl


theorem ctx_conn_id (x : Ctx) (d : Nat) : (x.conn d).id = d := by
  unfold Ctx.conn
  cases h : x.w.conn? d with
  | none => rfl
  | some cn => exact conn?_id h

theorem ctx_setConn_comm (x : Ctx) (a b : Conn) (h : a.id ≠ b.id) :
    (x.setConn a).setConn b = (x.setConn b).setConn a := by
  simp only [Ctx.setConn, setConn_comm _ _ _ h]

/-! ### the welcome burst does not look at connection records -/

theorem sendIsupport_setConn (cfg : Cfg) (client : Str) (x : Ctx) (cn : Conn) :
    sendIsupport cfg client (x.setConn cn) = (sendIsupport cfg client x).setConn cn := by
  unfold sendIsupport
  generalize chunks 10 (sortStrs (supportTokens cfg)) = l
  induction l generalizing x with
  | nil => rfl
  | cons t l ih => simp only [List.foldl_cons]; rw [← ih]; rfl

theorem processLusers_setConn (cfg : Cfg) (client : Str) (x : Ctx) (cn : Conn) :
    processLusers cfg client (x.setConn cn) = (processLusers cfg client x).setConn cn := by
  unfold processLusers
  simp only [Ctx.setConn_w, World.setConn_users, World.setConn_invisibleCount,
    World.setConn_operatorsCount, World.setConn_channels, World.setConn_maxUsers]
  by_cases h : x.w.invisibleCount > x.w.users.length <;> simp only [h, ↓reduceIte] <;> rfl

theorem welcomeBurst_setConn (cfg : Cfg) (cn' : Conn) (um : Str) (x : Ctx) (cn : Conn) :
    welcomeBurst cfg cn' um (x.setConn cn) = (welcomeBurst cfg cn' um x).setConn cn := by
  unfold welcomeBurst
  simp only
  have e : ∀ (y : Ctx) t, (y.setConn cn).reply cfg t = (y.reply cfg t).setConn cn := fun _ _ => rfl
  simp only [e, sendIsupport_setConn, processLusers_setConn]
  rfl

theorem sendIsupport_w (cfg : Cfg) (client : Str) (x : Ctx) : (sendIsupport cfg client x).w = x.w := by
  unfold sendIsupport
  generalize chunks 10 (sortStrs (supportTokens cfg)) = l
  induction l generalizing x with
  | nil => rfl
  | cons t l ih => simp only [List.foldl_cons]; rw [ih]; rfl

theorem processLusers_w (cfg : Cfg) (client : Str) (x : Ctx) :
    (processLusers cfg client x).w = x.w ∨
    (processLusers cfg client x).w = x.w.panic "lusers: users - invisible underflow" := by
  unfold processLusers
  simp only [Ctx.reply_w]
  split
  · right; rfl
  · left; rfl

theorem welcomeBurst_w (cfg : Cfg) (cn' : Conn) (um : Str) (x : Ctx) :
    (welcomeBurst cfg cn' um x).w = x.w ∨
    (welcomeBurst cfg cn' um x).w = x.w.panic "lusers: users - invisible underflow" := by
  unfold welcomeBurst processMotd
  simp only [Ctx.reply_w]
  rcases processLusers_w cfg cn'.clientName
    (sendIsupport cfg cn'.clientName ((((x.reply cfg _).reply cfg _).reply cfg _).reply cfg _)) with h | h
  · left; rw [h, sendIsupport_w]; rfl
  · right; rw [h, sendIsupport_w]; rfl

theorem welcomeBurst_conns (cfg : Cfg) (cn' : Conn) (um : Str) (x : Ctx) :
    (welcomeBurst cfg cn' um x).w.conns = x.w.conns := by
  rcases welcomeBurst_w cfg cn' um x with h | h <;> rw [h] <;> rfl

theorem welcomeBurst_users (cfg : Cfg) (cn' : Conn) (um : Str) (x : Ctx) :
    (welcomeBurst cfg cn' um x).w.users = x.w.users := by
  rcases welcomeBurst_w cfg cn' um x with h | h <;> rw [h] <;> rfl

theorem welcomeBurst_queued (cfg : Cfg) (cn' : Conn) (um : Str) (x : Ctx) :
    (welcomeBurst cfg cn' um x).queued = x.queued := by
  have e1 : ∀ (client : Str) (y : Ctx), (sendIsupport cfg client y).queued = y.queued := by
    intro client y
    unfold sendIsupport
    generalize chunks 10 (sortStrs (supportTokens cfg)) = l
    induction l generalizing y with
    | nil => rfl
    | cons t l ih => simp only [List.foldl_cons]; rw [ih]; rfl
  have e2 : ∀ (client : Str) (y : Ctx), (processLusers cfg client y).queued = y.queued := by
    intro client y
    unfold processLusers
    simp only [Ctx.reply_queued]
    split <;> rfl
  unfold welcomeBurst processMotd
  simp only [Ctx.reply_queued, e2, e1]


/-! ### the sections of the registration path are independent of every other connection -/

theorem addUser_setConn (w : World) (nick : Str) (u : User) (cn : Conn) :
    (w.setConn cn).addUser nick u = (w.addUser nick u).setConn cn := by
  rcases w with ⟨users, channels, wallops, ic, oc, mu, hist, conns, cc, sq, cmdc, pan⟩
  cases h1 : u.modes.invisible <;> cases h2 : u.modes.wallops <;> cases h3 : u.modes.isLocalOper <;>
  simp only [World.addUser, World.setConn, h1, h2, h3, ↓reduceIte, Bool.false_eq_true] <;>
  (split <;> rfl)

theorem commitWith_comm (cfg : Cfg) (d : Nat) (r : Bool) (cnd : Conn) (x : Ctx) (cn : Conn)
    (h : cn.id ≠ cnd.id) :
    commitWith cfg d r cnd (x.setConn cn) = (commitWith cfg d r cnd x).setConn cn := by
  unfold commitWith
  cases cnd.nick with
  | none => rfl
  | some nick =>
    simp only [Ctx.setConn_w, World.setConn_users]
    split
    · split
      · rw [ctx_setConn_comm]
        · rfl
        · exact h
      · have e : ∀ (y : Ctx) (nick : Str) (u : User),
            (y.setConn cn).modifyW (fun w => w.addUser nick u) =
              (y.modifyW (fun w => w.addUser nick u)).setConn cn := by
          intro y nick u; simp only [Ctx.modifyW, Ctx.setConn, addUser_setConn]
        rw [ctx_setConn_comm _ _ _ (by exact h), e, welcomeBurst_setConn]
        split
        · rw [ctx_setConn_comm]; exact h
        · rfl
    · rw [ctx_setConn_comm]
      · rfl
      · exact h


theorem welcomeBurst_conn? (cfg : Cfg) (cn' : Conn) (um : Str) (x : Ctx) (c : Nat) :
    (welcomeBurst cfg cn' um x).w.conn? c = x.w.conn? c := by
  unfold World.conn?; rw [welcomeBurst_conns]

theorem addUser_conn? (w : World) (nick : Str) (u : User) (c : Nat) :
    (w.addUser nick u).conn? c = w.conn? c := by
  rcases w with ⟨users, channels, wallops, ic, oc, mu, hist, conns, cc, sq, cmdc, pan⟩
  cases h1 : u.modes.invisible <;> cases h2 : u.modes.wallops <;> cases h3 : u.modes.isLocalOper <;>
  simp only [World.addUser, h1, h2, h3, ↓reduceIte, Bool.false_eq_true] <;>
  (split <;> rfl)

theorem panic_conn? (w : World) (s : String) (c : Nat) : (w.panic s).conn? c = w.conn? c := rfl

theorem commitWith_conns (cfg : Cfg) (d : Nat) (r : Bool) (cnd : Conn) (x : Ctx) (c : Nat)
    (h : cnd.id ≠ c) : (commitWith cfg d r cnd x).w.conn? c = x.w.conn? c := by
  unfold commitWith
  cases cnd.nick with
  | none => rfl
  | some nick =>
    simp only
    split
    · split
      · simp only [Ctx.panic_w, panic_conn?, Ctx.setConn_w]
        rw [conn?_setConn_ne]; exact h
      · split
        · simp only [Ctx.setConn_w]
          rw [conn?_setConn_ne]
          · rw [welcomeBurst_conn?]
            simp only [Ctx.modifyW_w, Ctx.setConn_w, addUser_conn?]
            rw [conn?_setConn_ne]; exact h
          · exact h
        · simp only [Ctx.panic_w, panic_conn?]
          rw [welcomeBurst_conn?]
          simp only [Ctx.modifyW_w, Ctx.setConn_w, addUser_conn?]
          rw [conn?_setConn_ne]; exact h
    · simp only [Ctx.reply_w, Ctx.setConn_w]
      rw [conn?_setConn_ne]; exact h

theorem decideStep_comm (cfg : Cfg) (d : Nat) (x : Ctx) (cn : Conn) (h : cn.id ≠ d) :
    decideStep cfg d (x.setConn cn) =
      ⟨(decideStep cfg d x).pc, (decideStep cfg d x).x.setConn cn⟩ := by
  have hid := ctx_conn_id x d
  unfold decideStep
  simp only [ctx_conn_setConn_ne x cn d h]
  cases authDecision cfg (x.conn d) with
  | notReady => rfl
  | maskMismatch => rfl
  | decided good r =>
    cases good with
    | true =>
      simp only [↓reduceIte]
      rw [ctx_setConn_comm]
      exact fun e => h (e.trans hid)
    | false =>
      simp only [Bool.false_eq_true, ↓reduceIte]
      rw [ctx_setConn_comm]
      · rfl
      · exact fun e => h (e.trans hid)

theorem decideStep_conns (cfg : Cfg) (d : Nat) (x : Ctx) (c : Nat) (h : d ≠ c) :
    (decideStep cfg d x).x.w.conn? c = x.w.conn? c := by
  have hid := ctx_conn_id x d
  unfold decideStep
  simp only
  cases authDecision cfg (x.conn d) with
  | notReady => rfl
  | maskMismatch => rfl
  | decided good r =>
    cases good with
    | true => exact conn?_setConn_ne _ _ _ (by simpa [hid] using h)
    | false => exact conn?_setConn_ne _ _ _ (by simpa [hid] using h)

theorem secIndep_touch (cfg : Cfg) {c d : Nat} (h : d ≠ c) : SecIndep cfg c (.touch d) :=
  ⟨h, fun _ _ _ _ => rfl, fun _ _ => rfl⟩

theorem secIndep_count (cfg : Cfg) {c d : Nat} (i : Nat) (h : d ≠ c) : SecIndep cfg c (.count d i) :=
  ⟨h, fun _ _ _ _ => rfl, fun _ _ => rfl⟩

theorem secIndep_nickCheck (cfg : Cfg) {c d : Nat} (n : Str) (h : d ≠ c) :
    SecIndep cfg c (.nickCheck d n) where
  other := h
  comm p x cn hcn := by
    have hne : cn.id ≠ d := hcn ▸ h.symm
    have hid := ctx_conn_id x d
    simp only [execSection, nickCheckStep, ctx_conn_setConn_ne x cn d hne, Ctx.setConn_w,
      World.setConn_users]
    split
    · rfl
    · split
      · rfl
      · simp only
        rw [ctx_setConn_comm]
        exact fun e => hne (e.trans hid)
  conn_eq p x := by
    have hid := ctx_conn_id x d
    simp only [execSection, nickCheckStep]
    split
    · rfl
    · split
      · rfl
      · exact conn?_setConn_ne _ _ _ (by simpa [Conn.setNick, Conn.updateSource, hid] using h)

theorem secIndep_authDecide (cfg : Cfg) {c d : Nat} (h : d ≠ c) : SecIndep cfg c (.authDecide d) where
  other := h
  comm p x cn hcn := by
    have hne : cn.id ≠ d := hcn ▸ h.symm
    simp only [execSection]
    split
    · exact decideStep_comm cfg d x cn hne
    · rfl
  conn_eq p x := by
    simp only [execSection]
    split
    · exact decideStep_conns cfg d x c h
    · rfl

theorem secIndep_authCommit (cfg : Cfg) {c d : Nat} (h : d ≠ c) : SecIndep cfg c (.authCommit d) where
  other := h
  comm p x cn hcn := by
    have hne : cn.id ≠ d := hcn ▸ h.symm
    have hid := ctx_conn_id x d
    simp only [execSection]
    split
    · simp only [commitStep_eq, ctx_conn_setConn_ne x cn d hne]
      rw [commitWith_comm]
      exact fun e => hne (e.trans hid)
    · rfl
  conn_eq p x := by
    have hid := ctx_conn_id x d
    simp only [execSection]
    split
    · simp only [commitStep_eq]
      exact commitWith_conns cfg d _ _ x c (by simpa [hid] using h)
    · rfl

theorem secIndep_prelude (cfg : Cfg) {c d : Nat} (cmd : Command) (h : d ≠ c) :
    SecIndep cfg c (.prelude d cmd) where
  other := h
  comm p x cn hcn := by
    have hne : cn.id ≠ d := hcn ▸ h.symm
    have hid := ctx_conn_id x d
    have hne' : ∀ cn' : Conn, cn'.id = (x.conn d).id → cn.id ≠ cn'.id :=
      fun cn' e e' => hne (e'.trans (e.trans hid))
    simp only [execSection, preludeStep, ctx_conn_setConn_ne x cn d hne]
    split
    · rfl
    · split
      · rw [ctx_setConn_comm]
        · exact decideStep_comm cfg d _ cn hne
        · exact hne' _ rfl
      · rw [ctx_setConn_comm]
        · exact decideStep_comm cfg d _ cn hne
        · exact hne' _ rfl
      · rw [ctx_setConn_comm]
        · exact decideStep_comm cfg d _ cn hne
        · exact hne' _ rfl
      · rfl
  conn_eq p x := by
    have hid := ctx_conn_id x d
    have key : ∀ cn' : Conn, cn'.id = (x.conn d).id → (x.setConn cn').w.conn? c = x.w.conn? c :=
      fun cn' e => conn?_setConn_ne _ _ _ (by rw [e, hid]; exact h)
    simp only [execSection, preludeStep]
    split
    · rfl
    · split
      · rw [decideStep_conns cfg d _ c h]; refine key _ ?_; rfl
      · rw [decideStep_conns cfg d _ c h]; refine key _ ?_; rfl
      · rw [decideStep_conns cfg d _ c h]; refine key _ ?_; rfl
      · rfl

/-- the three sections of another connection's unregistered NICK are independent of `c` -/
theorem secIndep_nickSections (cfg : Cfg) {c d : Nat} (n : Str) (h : d ≠ c) :
    ∀ s ∈ nickSections d n, SecIndep cfg c s := by
  intro s hs
  simp only [nickSections, List.mem_cons, List.not_mem_nil, or_false] at hs
  rcases hs with rfl | rfl | rfl
  · exact secIndep_nickCheck cfg n h
  · exact secIndep_authDecide cfg h
  · exact secIndep_authCommit cfg h


/-! ### serialisability of the unregistered NICK -/

theorem decideOut_comm {cfg : Cfg} {c : Nat} {cn : Conn} {f : CState → CState} (hf : IndepT c f)
    (hid : cn.id = c) (σ : CState) : f (decideOut cfg c cn σ) = decideOut cfg c cn (f σ) := by
  unfold decideOut
  cases authDecision cfg cn with
  | notReady => simp only [hf.comm_pc]
  | maskMismatch => simp only [hf.comm_pc, hf.comm_dir]
  | decided good r =>
    cases good with
    | true => simp only [hf.comm_pc]; rw [hf.comm_conn]; exact hid
    | false => simp only [hf.comm_pc, hf.comm_dir]; rw [hf.comm_conn]; exact hid

theorem decideOut_pc_idle {cfg : Cfg} {c : Nat} {cn : Conn}
    (h : ∀ r, authDecision cfg cn ≠ .decided true r) (σ : CState) :
    (decideOut cfg c cn σ).pc c = .idle := by
  unfold decideOut
  cases hd : authDecision cfg cn with
  | notReady => simp
  | maskMismatch => simp
  | decided good r =>
    cases good with
    | true => exact absurd hd (h r)
    | false => simp

theorem decideOut_good {cfg : Cfg} {c : Nat} {cn : Conn} {r : Bool}
    (h : authDecision cfg cn = .decided true r) (σ : CState) :
    decideOut cfg c cn σ = (σ.setConn { cn with authenticated := true }).setPc c (.toCommit r) := by
  unfold decideOut; rw [h]

/-- A1 (nick free), then sections independent of `c`, then A2 -/
theorem run_a_f_b {cfg : Cfg} {c : Nat} {n : Str} {σ : CState} {cn : Conn} {f : CState → CState}
    (hf : IndepT c f) (h : σ.w.conn? c = some cn) (ha : cn.authenticated = false)
    (ht : Map.contains n σ.w.users = false) :
    stepSection cfg (.authDecide c) (f (stepSection cfg (.nickCheck c n) σ)) =
      decideOut cfg c (cn.setNick n) ((f σ).setConn (cn.setNick n)) := by
  have hid : cn.id = c := conn?_id h
  have hid1 : (cn.setNick n).id = c := hid
  rw [step_nickCheck_free h ha ht, hf.comm_pc, hf.comm_conn _ _ hid1]
  have h1 : (((f σ).setConn (cn.setNick n)).setPc c .toDecide).w.conn? c = some (cn.setNick n) :=
    conn?_setConn_self _ ((hf.conn_eq σ).trans h) hid
  rw [step_authDecide (by simp) h1, decideOut_setPc]

theorem serial_first {cfg : Cfg} {c : Nat} {n : Str} {σ : CState} {cn : Conn} {F G : List Section}
    (hF : ∀ s ∈ F, SecIndep cfg c s) (hG : ∀ s ∈ G, SecIndep cfg c s)
    (h : σ.w.conn? c = some cn) (hpc : σ.pc c = .idle) (he : Early cfg n cn σ.w) :
    runSections cfg (nickInterleaved c n F G) σ =
      runSections cfg (nickSections c n ++ F ++ G) σ := by
  have iF := indepT_run hF
  have iG := indepT_run hG
  have hid : cn.id = c := conn?_id h
  simp only [nickInterleaved, nickSections, List.cons_append, List.nil_append, runSections_cons,
    runSections_append, runSections_nil]
  cases ha : cn.authenticated with
  | true =>
    rw [step_nickCheck_auth h ha]
    have p1 : (runSections cfg F σ).pc c = .idle := (iF.pc_eq σ).trans hpc
    rw [step_authDecide_skip (σ := runSections cfg F σ) (by rw [p1]; simp)]
    have p2 : (runSections cfg G (runSections cfg F σ)).pc c = .idle := (iG.pc_eq _).trans p1
    rw [step_authCommit_skip (σ := runSections cfg G _) (by rw [p2]; simp)]
    rw [step_authDecide_skip (σ := σ) (by rw [hpc]; simp),
      step_authCommit_skip (σ := σ) (by rw [hpc]; simp)]
  | false =>
    cases ht : Map.contains n σ.w.users with
    | true =>
      rw [step_nickCheck_taken h ha ht]
      generalize (σ.addDir c [srvLine cfg (ErrNicknameInUse433 cn.clientName n)]) = σ'
      rw [iF.comm_pc]
      rw [step_authDecide_skip (σ := (runSections cfg F σ').setPc c .idle) (by simp)]
      rw [iG.comm_pc]
      rw [step_authCommit_skip (σ := (runSections cfg G _).setPc c .idle) (by simp)]
      rw [step_authDecide_skip (σ := σ'.setPc c .idle) (by simp),
        step_authCommit_skip (σ := σ'.setPc c .idle) (by simp), iF.comm_pc, iG.comm_pc]
    | false =>
      have hng : ∀ r, authDecision cfg (cn.setNick n) ≠ .decided true r := by
        rcases he with e | e | e
        · rw [ha] at e; cases e
        · rw [ht] at e; cases e
        · exact e
      have hid1 : (cn.setNick n).id = c := hid
      rw [run_a_f_b iF h ha ht, decideOut_comm iG hid1,
        step_authCommit_skip (by intro r; rw [decideOut_pc_idle hng]; simp)]
      have := run_a_f_b (cfg := cfg) (f := fun σ => σ) (IndepT.id c) h ha ht
      rw [this, step_authCommit_skip (by intro r; rw [decideOut_pc_idle hng]; simp),
        decideOut_comm iF hid1, decideOut_comm iG hid1, iF.comm_conn _ _ hid1, iG.comm_conn _ _ hid1]


/-- A1 (free), others, A2 (good), others: the state just before A3 -/
theorem run_before_commit {cfg : Cfg} {c : Nat} {n : Str} {σ : CState} {cn : Conn} {r : Bool}
    {f g : CState → CState} (hf : IndepT c f) (hg : IndepT c g)
    (h : σ.w.conn? c = some cn) (ha : cn.authenticated = false)
    (ht : Map.contains n σ.w.users = false)
    (hd : authDecision cfg (cn.setNick n) = .decided true r) :
    g (stepSection cfg (.authDecide c) (f (stepSection cfg (.nickCheck c n) σ))) =
      ((g (f σ)).setConn { cn.setNick n with authenticated := true }).setPc c (.toCommit r) := by
  have hid : cn.id = c := conn?_id h
  have hid2 : ({ cn.setNick n with authenticated := true } : Conn).id = c := hid
  have hid1 : (cn.setNick n).id = c := hid
  rw [run_a_f_b hf h ha ht, decideOut_good hd, hg.comm_pc, hg.comm_conn _ _ hid2,
    hg.comm_conn _ _ hid1, CState.setConn_setConn]
  rfl

theorem serial_last {cfg : Cfg} {c : Nat} {n : Str} {σ : CState} {cn : Conn} {F G : List Section}
    {r : Bool} (hF : ∀ s ∈ F, SecIndep cfg c s) (hG : ∀ s ∈ G, SecIndep cfg c s)
    (h : σ.w.conn? c = some cn) (ha : cn.authenticated = false)
    (ht : Map.contains n σ.w.users = false)
    (hd : authDecision cfg (cn.setNick n) = .decided true r)
    (ht2 : Map.contains n (runSections cfg (F ++ G) σ).w.users = false) :
    runSections cfg (nickInterleaved c n F G) σ =
      runSections cfg (F ++ G ++ nickSections c n) σ := by
  have iF := indepT_run hF
  have iG := indepT_run hG
  simp only [nickInterleaved, nickSections, runSections_cons, runSections_append,
    runSections_nil, List.append_assoc] at ht2 ⊢
  have h2 : (runSections cfg G (runSections cfg F σ)).w.conn? c = some cn :=
    (iG.conn_eq _).trans ((iF.conn_eq _).trans h)
  rw [run_before_commit iF iG h ha ht hd]
  rw [run_before_commit (f := fun σ => σ) (g := fun σ => σ) (IndepT.id c) (IndepT.id c) h2 ha ht2 hd]

theorem serial_corner {cfg : Cfg} {c : Nat} {n : Str} {σ : CState} {cn : Conn} {F G : List Section}
    {r : Bool} (hF : ∀ s ∈ F, SecIndep cfg c s) (hG : ∀ s ∈ G, SecIndep cfg c s)
    (h : σ.w.conn? c = some cn) (hpc : σ.pc c = .idle) (ha : cn.authenticated = false)
    (ht : Map.contains n σ.w.users = false)
    (hd : authDecision cfg (cn.setNick n) = .decided true r)
    (ht2 : Map.contains n (runSections cfg (F ++ G) σ).w.users = true) :
    runSections cfg (nickInterleaved c n F G) σ =
      ((runSections cfg (F ++ G) σ).setConn (cornerConn cn n r)).addDir c
        [srvLine cfg (ErrNicknameInUse433 n n)] ∧
    runSections cfg (F ++ G ++ nickSections c n) σ =
      (runSections cfg (F ++ G) σ).addDir c [srvLine cfg (ErrNicknameInUse433 cn.clientName n)] := by
  have iF := indepT_run hF
  have iG := indepT_run hG
  simp only [nickInterleaved, nickSections, runSections_cons, runSections_append,
    runSections_nil, List.append_assoc] at ht2 ⊢
  have h2 : (runSections cfg G (runSections cfg F σ)).w.conn? c = some cn :=
    (iG.conn_eq _).trans ((iF.conn_eq _).trans h)
  have p2 : (runSections cfg G (runSections cfg F σ)).pc c = .idle :=
    (iG.pc_eq _).trans ((iF.pc_eq _).trans hpc)
  have hid : cn.id = c := conn?_id h
  constructor
  · rw [run_before_commit iF iG h ha ht hd]
    generalize runSections cfg G (runSections cfg F σ) = σ2 at *
    have hid2 : ({ cn.setNick n with authenticated := true } : Conn).id = c := hid
    have h3 : ((σ2.setConn { cn.setNick n with authenticated := true }).setPc c (.toCommit r)).w.conn? c
        = some { cn.setNick n with authenticated := true } := conn?_setConn_self _ h2 hid2
    rw [step_authCommit_taken (r := r) (n := n) (by simp) h3 rfl ht2]
    simp only [CState.setPc_setConn, CState.setPc_addDir, CState.setPc_setPc]
    rw [CState.setPc_self _ _ _ (by simpa using p2), CState.setConn_setConn]
    · simp only [cornerConn, Conn.setNick, Conn.updateSource, ha]
    · rfl
  · generalize runSections cfg G (runSections cfg F σ) = σ2 at *
    rw [step_nickCheck_taken h2 ha ht2, step_authDecide_skip (by simp), step_authCommit_skip (by simp)]
    rw [← CState.setPc_addDir, CState.setPc_self _ _ _ p2]


/-! ### interleavings -/

section Ilv
variable {α : Type}

theorem Interleave.nil_left : ∀ (ys : List α), Interleave [] ys ys
  | [] => .nil
  | _ :: ys => .right (Interleave.nil_left ys)

theorem Interleave.nil_right : ∀ (xs : List α), Interleave xs [] xs
  | [] => .nil
  | _ :: xs => .left (Interleave.nil_right xs)

theorem Interleave.eq_of_nil_right {xs l : List α} (h : Interleave xs [] l) : l = xs := by
  generalize hy : ([] : List α) = ys at h
  induction h with
  | nil => rfl
  | left _ ih => rw [ih hy]
  | right _ _ => cases hy

theorem Interleave.eq_of_nil_left {ys l : List α} (h : Interleave [] ys l) : l = ys := by
  generalize hx : ([] : List α) = xs at h
  induction h with
  | nil => rfl
  | left _ _ => cases hx
  | right _ ih => rw [ih hx]

theorem Interleave.symm {xs ys l : List α} (h : Interleave xs ys l) : Interleave ys xs l := by
  induction h with
  | nil => exact .nil
  | left _ ih => exact .right ih
  | right _ ih => exact .left ih

theorem interleavingsAux_spec (x : α) (xs : List α) (rec : List α → List (List α))
    (hrec : ∀ ys l, l ∈ rec ys ↔ Interleave xs ys l) (ys l : List α) :
    l ∈ interleavingsAux x xs rec ys ↔ Interleave (x :: xs) ys l := by
  induction ys generalizing l with
  | nil =>
    simp only [interleavingsAux, List.mem_singleton]
    constructor
    · rintro rfl; exact Interleave.nil_right _
    · exact fun h => h.eq_of_nil_right
  | cons y ys ih =>
    simp only [interleavingsAux, List.mem_append, List.mem_map]
    constructor
    · rintro (⟨l', hl', rfl⟩ | ⟨l', hl', rfl⟩)
      · exact .left ((hrec _ _).mp hl')
      · exact .right ((ih _).mp hl')
    · intro h
      cases h with
      | left h' => exact .inl ⟨_, (hrec _ _).mpr h', rfl⟩
      | right h' => exact .inr ⟨_, (ih _).mpr h', rfl⟩

theorem mem_interleavings (xs ys l : List α) : l ∈ interleavings xs ys ↔ Interleave xs ys l := by
  induction xs generalizing ys l with
  | nil =>
    simp only [interleavings, List.mem_singleton]
    constructor
    · rintro rfl; exact Interleave.nil_left _
    · exact fun h => h.eq_of_nil_left
  | cons x xs ih =>
    simp only [interleavings]
    exact interleavingsAux_spec x xs _ (fun ys l => ih ys l) ys l

theorem Interleave.snoc_left {xs ys l : List α} (x : α) (h : Interleave xs ys l) :
    Interleave (xs ++ [x]) ys (l ++ [x]) := by
  induction h with
  | nil => exact .left .nil
  | left _ ih => exact .left ih
  | right _ ih => exact .right ih

theorem Interleave.snoc_right {xs ys l : List α} (y : α) (h : Interleave xs ys l) :
    Interleave xs (ys ++ [y]) (l ++ [y]) := (h.symm.snoc_left y).symm

theorem Interleave.reverse {xs ys l : List α} (h : Interleave xs ys l) :
    Interleave xs.reverse ys.reverse l.reverse := by
  induction h with
  | nil => exact .nil
  | left _ ih => simp only [List.reverse_cons]; exact ih.snoc_left _
  | right _ ih => simp only [List.reverse_cons]; exact ih.snoc_right _

/-- the last section of an interleaving is the last of one of the two lists -/
theorem Interleave.last_cases {xs ys l : List α} {x y : α}
    (h : Interleave (xs ++ [x]) (ys ++ [y]) l) :
    (∃ l', l = l' ++ [y] ∧ Interleave (xs ++ [x]) ys l') ∨
    (∃ l', l = l' ++ [x] ∧ Interleave xs (ys ++ [y]) l') := by
  have hr := h.reverse
  simp only [List.reverse_append, List.reverse_cons, List.reverse_nil, List.nil_append,
    List.singleton_append] at hr
  generalize hl : l.reverse = lr at hr
  have hl' : l = lr.reverse := by rw [← hl, List.reverse_reverse]
  cases hr with
  | left h' =>
    right
    refine ⟨_, by rw [hl', List.reverse_cons], ?_⟩
    have := h'.reverse
    simpa using this
  | right h' =>
    left
    refine ⟨_, by rw [hl', List.reverse_cons], ?_⟩
    have := h'.reverse
    simpa using this

/-- where the head of the second list sits -/
theorem Interleave.split_right {xs ys l : List α} {y : α} (h : Interleave xs (y :: ys) l) :
    ∃ p xs' l', xs = p ++ xs' ∧ l = p ++ y :: l' ∧ Interleave xs' ys l' := by
  generalize hy : y :: ys = ys0 at h
  induction h with
  | nil => cases hy
  | left h' ih =>
    rename_i x xs ys' zs
    obtain ⟨p, xs', l', e1, e2, e3⟩ := ih hy
    exact ⟨x :: p, xs', l', by rw [e1]; rfl, by rw [e2]; rfl, e3⟩
  | right h' _ =>
    cases hy
    exact ⟨[], _, _, rfl, rfl, h'⟩

end Ilv


/-! ### the race of two connections for one nick -/

theorem run_nick_taken {cfg : Cfg} {c : Nat} {n : Str} {σ : CState} {cn : Conn}
    (h : σ.w.conn? c = some cn) (ha : cn.authenticated = false) (hpc : σ.pc c = .idle)
    (ht : Map.contains n σ.w.users = true) :
    runSections cfg (nickSections c n) σ =
      σ.addDir c [srvLine cfg (ErrNicknameInUse433 cn.clientName n)] := by
  simp only [nickSections, runSections_cons, runSections_nil]
  rw [step_nickCheck_taken h ha ht, step_authDecide_skip (by simp), step_authCommit_skip (by simp),
    CState.setPc_self _ _ _ (by simpa using hpc)]

theorem lift_others (σ : CState) (c : Nat) (t : TCtx) (d : Nat) (h : d ≠ c) :
    (lift σ c t).pc d = σ.pc d ∧ (lift σ c t).dir d = σ.dir d := by
  simp [lift, h]

theorem addUser_users (w : World) (nick : Str) (u : User) :
    (w.addUser nick u).users = Map.insert nick u w.users := by
  rcases w with ⟨users, channels, wallops, ic, oc, mu, hist, conns, cc, sq, cmdc, pan⟩
  cases h1 : u.modes.invisible <;> cases h2 : u.modes.wallops <;> cases h3 : u.modes.isLocalOper <;>
  simp only [World.addUser, h1, h2, h3, ↓reduceIte, Bool.false_eq_true] <;>
  (split <;> rfl)

theorem addUser_conns (w : World) (nick : Str) (u : User) :
    (w.addUser nick u).conns = w.conns := by
  rcases w with ⟨users, channels, wallops, ic, oc, mu, hist, conns, cc, sq, cmdc, pan⟩
  cases h1 : u.modes.invisible <;> cases h2 : u.modes.wallops <;> cases h3 : u.modes.isLocalOper <;>
  simp only [World.addUser, h1, h2, h3, ↓reduceIte, Bool.false_eq_true] <;>
  (split <;> rfl)

theorem setConn_conns_congr {w w' : World} (cn : Conn) (h : w.conns = w'.conns) :
    (w.setConn cn).conns = (w'.setConn cn).conns := by
  simp only [World.setConn, h]

theorem conn?_congr {w w' : World} (h : w.conns = w'.conns) (d : Nat) : w.conn? d = w'.conn? d := by
  simp only [World.conn?, h]

/-- A3 in a world where the nick is free and the one-shot senders are still there -/
theorem commitWith_win {cfg : Cfg} {c : Nat} {r : Bool} {cnG : Conn} {n : Str} (x : Ctx)
    (hn : cnG.nick = some n) (ht : Map.contains n x.w.users = false)
    (hs : cnG.hasSender = true) (hq : cnG.hasQuitSender = true) :
    (∃ u : User, u.owner = c ∧ (commitWith cfg c r cnG x).w.users = Map.insert n u x.w.users) ∧
    (∃ cn' : Conn, cn'.id = cnG.id ∧ cn'.authenticated = cnG.authenticated ∧ cn'.nick = some n ∧
      (commitWith cfg c r cnG x).w.conns = (x.w.setConn cn').conns) := by
  rcases cnG with ⟨id, hostname, nick, name, realname, password, source, authenticated, registered,
    capsNeg, multiPrefix, quit, hasSender, hasQuitSender, hasPingSender, pongPending, killedBy⟩
  simp only at hn hs hq
  subst hn hs hq
  unfold commitWith
  simp only [ht, Bool.not_false, Bool.not_true, Bool.or_self, Bool.false_eq_true, ↓reduceIte]
  let u : User :=
    { hostname := hostname, name := name.getD [], realname := realname.getD [], source := source,
      modes := { cfg.defaultUserModes with registered := cfg.defaultUserModes.registered || r },
      history := { username := name.getD [], hostname := hostname, realname := realname.getD [] },
      owner := c }
  let cnW : Bool → Conn := fun b =>
    { id := id, hostname := hostname, nick := some n, name := name, realname := realname,
      password := password, source := source, authenticated := authenticated, registered := r,
      capsNeg := capsNeg, multiPrefix := multiPrefix, quit := quit, hasSender := false,
      hasQuitSender := false, hasPingSender := b, pongPending := pongPending, killedBy := killedBy }
  split
  · refine ⟨⟨u, rfl, ?_⟩, ⟨cnW false, rfl, rfl, rfl, ?_⟩⟩
    · simp only [Ctx.setConn_w, World.setConn_users, welcomeBurst_users, Ctx.modifyW_w,
        addUser_users]
      rfl
    · simp only [Ctx.setConn_w]
      rw [setConn_conns_congr _ (welcomeBurst_conns _ _ _ _)]
      simp only [Ctx.modifyW_w, Ctx.setConn_w]
      rw [setConn_conns_congr _ (addUser_conns _ _ _), setConn_setConn_same]
      rfl
  · refine ⟨⟨u, rfl, ?_⟩, ⟨cnW hasPingSender, rfl, rfl, rfl, ?_⟩⟩
    · simp only [Ctx.panic_w, World.panic_users, welcomeBurst_users, Ctx.modifyW_w, Ctx.setConn_w,
        addUser_users, World.setConn_users]
      rfl
    · simp only [Ctx.panic_w, World.panic_conns, welcomeBurst_conns, Ctx.modifyW_w, Ctx.setConn_w,
        addUser_conns]
      rfl

theorem run_nick_win {cfg : Cfg} {c : Nat} {n : Str} {σ : CState} {cn : Conn} {r : Bool}
    (h : σ.w.conn? c = some cn) (ha : cn.authenticated = false)
    (ht : Map.contains n σ.w.users = false)
    (hd : authDecision cfg (cn.setNick n) = .decided true r)
    (hs : cn.hasSender = true) (hq : cn.hasQuitSender = true) :
    Won c n σ (runSections cfg (nickSections c n) σ) := by
  have hid : cn.id = c := conn?_id h
  simp only [nickSections, runSections_cons, runSections_nil]
  have hb := run_before_commit (cfg := cfg) (f := fun σ => σ) (g := fun σ => σ)
    (IndepT.id c) (IndepT.id c) h ha ht hd
  rw [hb, step_authCommit (r := r) (by simp), commitStep_eq]
  have hid2 : ({ cn.setNick n with authenticated := true } : Conn).id = c := hid
  have e1 : ({ w := ((σ.setConn { cn.setNick n with authenticated := true }).setPc c
      (.toCommit r)).w } : Ctx) =
      ({ w := σ.w } : Ctx).setConn { cn.setNick n with authenticated := true } := rfl
  have h0 : ({ w := σ.w } : Ctx).w.conn? c = some cn := h
  rw [e1, ctx_conn_setConn_self _ h0 hid2]
  obtain ⟨⟨u, hu, husers⟩, ⟨cn', hid', hauth', hnick', hconns⟩⟩ :=
    commitWith_win (cfg := cfg) (c := c) (r := r)
      (cnG := { cn.setNick n with authenticated := true }) (n := n)
      (({ w := σ.w } : Ctx).setConn { cn.setNick n with authenticated := true })
      rfl ht hs hq
  have hidc : cn'.id = c := hid'.trans hid
  have hcG : (σ.w.setConn { cn.setNick n with authenticated := true }).conn? c =
      some { cn.setNick n with authenticated := true } := conn?_setConn_self _ h hid2
  refine ⟨?_, ⟨u, ?_, hu⟩, ⟨cn', ?_, hauth', hnick'⟩, ?_⟩
  · show Map.contains n (commitWith cfg c r _ _).w.users = true
    rw [husers]; simp [Map.contains]
  · show Map.lookup n (commitWith cfg c r _ _).w.users = some u
    rw [husers]; simp
  · show (commitWith cfg c r _ _).w.conn? c = some cn'
    rw [conn?_congr hconns]
    exact conn?_setConn_self _ hcG hidc
  · intro d hdc
    refine ⟨?_, ?_⟩
    · show (commitWith cfg c r _ _).w.conn? d = σ.w.conn? d
      rw [conn?_congr hconns, Ctx.setConn_w, conn?_setConn_ne _ _ _ (by rw [hidc]; exact hdc.symm),
        conn?_setConn_ne _ _ _ (by rw [hid2]; exact hdc.symm)]
    · have := lift_others ((σ.setConn { cn.setNick n with authenticated := true }).setPc c
        (.toCommit r)) c ⟨.idle, commitWith cfg c r { cn.setNick n with authenticated := true }
          (({ w := σ.w } : Ctx).setConn { cn.setNick n with authenticated := true })⟩ d hdc
      rw [this.1, this.2]
      exact ⟨CState.setPc_pc_ne _ _ _ _ hdc, rfl⟩


theorem race_last {cfg : Cfg} {c d : Nat} {n : Str} {σ0 : CState} {cnc cnd : Conn} {rc rd : Bool}
    {p0 p1 p2 : List Section} (hcd : c ≠ d)
    (hc : σ0.w.conn? c = some cnc) (hac : cnc.authenticated = false)
    (hd : σ0.w.conn? d = some cnd) (had : cnd.authenticated = false) (hpd : σ0.pc d = .idle)
    (ht : Map.contains n σ0.w.users = false)
    (hdc : authDecision cfg (cnc.setNick n) = .decided true rc)
    (hdd : authDecision cfg (cnd.setNick n) = .decided true rd)
    (hs : cnc.hasSender = true) (hq : cnc.hasQuitSender = true)
    (hp : p0 ++ p1 ++ p2 = nickSections c n) :
    Won c n σ0 (runSections cfg (nickSections c n) σ0) ∧
    runSections cfg (nickSections c n ++ nickSections d n) σ0 =
      (runSections cfg (nickSections c n) σ0).addDir d
        [srvLine cfg (ErrNicknameInUse433 cnd.clientName n)] ∧
    (runSections cfg (p0 ++ nickInterleaved d n p1 p2) σ0 =
        (runSections cfg (nickSections c n) σ0).addDir d
          [srvLine cfg (ErrNicknameInUse433 cnd.clientName n)] ∨
     runSections cfg (p0 ++ nickInterleaved d n p1 p2) σ0 =
        ((runSections cfg (nickSections c n) σ0).setConn (cornerConn cnd n rd)).addDir d
          [srvLine cfg (ErrNicknameInUse433 n n)]) := by
  have hwon := run_nick_win (cfg := cfg) hc hac ht hdc hs hq
  have hdc' : d ≠ c := fun e => hcd e.symm
  obtain ⟨hWd, hWpc, _⟩ := hwon.others d hdc'
  have hWd' := hWd.trans hd
  have hWpc' := hWpc.trans hpd
  have hind : ∀ s ∈ nickSections c n, SecIndep cfg d s := secIndep_nickSections cfg n hcd
  have hi0 : ∀ s ∈ p0, SecIndep cfg d s := fun s hs' => hind s (by rw [← hp]; simp [hs'])
  have hi1 : ∀ s ∈ p1, SecIndep cfg d s := fun s hs' => hind s (by rw [← hp]; simp [hs'])
  have hi2 : ∀ s ∈ p2, SecIndep cfg d s := fun s hs' => hind s (by rw [← hp]; simp [hs'])
  have i0 := indepT_run hi0
  have hW : runSections cfg (p1 ++ p2) (runSections cfg p0 σ0) =
      runSections cfg (nickSections c n) σ0 := by
    rw [← runSections_append, ← List.append_assoc, hp]
  have hS : runSections cfg (nickSections c n ++ nickSections d n) σ0 =
      (runSections cfg (nickSections c n) σ0).addDir d
        [srvLine cfg (ErrNicknameInUse433 cnd.clientName n)] := by
    rw [runSections_append, run_nick_taken hWd' had hWpc' hwon.taken]
  refine ⟨hwon, hS, ?_⟩
  have h' : (runSections cfg p0 σ0).w.conn? d = some cnd := (i0.conn_eq _).trans hd
  have hp' : (runSections cfg p0 σ0).pc d = .idle := (i0.pc_eq _).trans hpd
  rw [runSections_append]
  cases ht' : Map.contains n (runSections cfg p0 σ0).w.users with
  | true =>
    left
    rw [serial_first hi1 hi2 h' hp' (Or.inr (Or.inl ht')), List.append_assoc, runSections_append,
      run_nick_taken h' had hp' ht', (indepT_run (c := d) (ss := p1 ++ p2) (by
        intro s hs'; rcases List.mem_append.mp hs' with e | e
        · exact hi1 s e
        · exact hi2 s e)).comm_dir, hW]
  | false =>
    right
    have ht2 : Map.contains n (runSections cfg (p1 ++ p2) (runSections cfg p0 σ0)).w.users = true := by
      rw [hW]; exact hwon.taken
    rw [(serial_corner hi1 hi2 h' hp' had ht' hdd ht2).1, hW]


theorem race_decompose_aux {c d : Nat} {n : Str} {l : List Section}
    (h : Interleave (nickSections c n) [.nickCheck d n, .authDecide d] l) :
    ∃ p0 p1 p2, p0 ++ p1 ++ p2 = nickSections c n ∧
      l ++ [.authCommit d] = p0 ++ nickInterleaved d n p1 p2 := by
  obtain ⟨p0, X1, l1, e1, e2, h1⟩ := h.split_right
  obtain ⟨p1, X2, l2, e3, e4, h2⟩ := h1.split_right
  have e5 := h2.eq_of_nil_right
  refine ⟨p0, p1, X2, ?_, ?_⟩
  · rw [e1, e3, List.append_assoc]
  · rw [e2, e4, e5]; simp [nickInterleaved]

theorem race_decompose {c d : Nat} {n : Str} {l : List Section}
    (h : Interleave (nickSections c n) (nickSections d n) l) :
    (∃ p0 p1 p2, p0 ++ p1 ++ p2 = nickSections c n ∧ l = p0 ++ nickInterleaved d n p1 p2) ∨
    (∃ q0 q1 q2, q0 ++ q1 ++ q2 = nickSections d n ∧ l = q0 ++ nickInterleaved c n q1 q2) := by
  have hc : nickSections c n = [.nickCheck c n, .authDecide c] ++ [.authCommit c] := rfl
  have hd : nickSections d n = [.nickCheck d n, .authDecide d] ++ [.authCommit d] := rfl
  have h' := h
  rw [hc, hd] at h'
  rcases h'.last_cases with ⟨l', rfl, hl⟩ | ⟨l', rfl, hl⟩
  · left; rw [← hc] at hl; exact race_decompose_aux hl
  · right; rw [← hd] at hl; exact race_decompose_aux hl.symm


/-! ### movers -/

theorem lift_decideStep' (cfg : Cfg) (c : Nat) (σ : CState) :
    lift σ c (decideStep cfg c { w := σ.w }) =
      decideOut cfg c (({ w := σ.w } : Ctx).conn c) σ := by
  simp only [decideStep, decideOut]
  cases authDecision cfg (({ w := σ.w } : Ctx).conn c) with
  | notReady => exact lift_silent σ c .idle _
  | maskMismatch => exact lift_lines σ c .idle σ.w _
  | decided good r =>
    cases good with
    | true => exact lift_silent σ c (.toCommit r) _
    | false => exact lift_lines σ c .idle _ _

theorem ctx_conn_congr {w w' : World} (c : Nat) (h : w'.conn? c = w.conn? c) :
    ({ w := w' } : Ctx).conn c = ({ w := w } : Ctx).conn c := by
  simp only [Ctx.conn, h]

/-- A2 commutes with everything that does not touch the local components of `c` -/
theorem authDecide_mover' {cfg : Cfg} {c : Nat} {f : CState → CState} (hf : IndepT c f)
    (σ : CState) :
    stepSection cfg (.authDecide c) (f σ) = f (stepSection cfg (.authDecide c) σ) := by
  by_cases hpc : σ.pc c = .toDecide
  · have hpc' : (f σ).pc c = .toDecide := (hf.pc_eq σ).trans hpc
    have e1 : stepSection cfg (.authDecide c) (f σ) =
        lift (f σ) c (decideStep cfg c { w := (f σ).w }) := by
      rw [stepSection_eq]; simp only [sectionCtx, Section.conn, execSection, hpc']
    have e2 : stepSection cfg (.authDecide c) σ = lift σ c (decideStep cfg c { w := σ.w }) := by
      rw [stepSection_eq]; simp only [sectionCtx, Section.conn, execSection, hpc]
    rw [e1, e2, lift_decideStep', lift_decideStep', ctx_conn_congr c (hf.conn_eq σ),
      decideOut_comm hf (ctx_conn_id _ c)]
  · have hpc' : (f σ).pc c ≠ .toDecide := by rw [hf.pc_eq σ]; exact hpc
    rw [step_authDecide_skip hpc', step_authDecide_skip hpc]

/-- A1 commutes with everything that does not touch the local components of `c` and does not
    change whether the nick is taken -/
theorem nickCheck_mover' {cfg : Cfg} {c : Nat} {n : Str} {f : CState → CState} (hf : IndepT c f)
    {σ : CState} {cn : Conn} (h : σ.w.conn? c = some cn)
    (hsame : Map.contains n (f σ).w.users = Map.contains n σ.w.users) :
    stepSection cfg (.nickCheck c n) (f σ) = f (stepSection cfg (.nickCheck c n) σ) := by
  have h' : (f σ).w.conn? c = some cn := (hf.conn_eq σ).trans h
  have hid0 : cn.id = c := conn?_id h
  have hid : (cn.setNick n).id = c := hid0
  cases ha : cn.authenticated with
  | true => rw [step_nickCheck_auth h' ha, step_nickCheck_auth h ha]
  | false =>
    cases ht : Map.contains n σ.w.users with
    | true =>
      rw [step_nickCheck_taken h' ha (hsame.trans ht), step_nickCheck_taken h ha ht, hf.comm_pc,
        hf.comm_dir]
    | false =>
      rw [step_nickCheck_free h' ha (hsame.trans ht), step_nickCheck_free h ha ht, hf.comm_pc,
        hf.comm_conn _ _ hid]

/-! ### A3 decides on the state at commit time -/

theorem step_authCommit_free {cfg : Cfg} {c : Nat} {σ : CState} {r : Bool} {cn : Conn} {n : Str}
    (hpc : σ.pc c = .toCommit r) (h : σ.w.conn? c = some cn) (hn : cn.nick = some n)
    (ht : Map.contains n σ.w.users = false) (hs : cn.hasSender = true)
    (hq : cn.hasQuitSender = true) :
    (∃ u : User, u.owner = c ∧
      (stepSection cfg (.authCommit c) σ).w.users = Map.insert n u σ.w.users) ∧
    (∃ cn' : Conn, (stepSection cfg (.authCommit c) σ).w.conn? c = some cn' ∧
      cn'.authenticated = cn.authenticated ∧ cn'.nick = some n) := by
  have hid : cn.id = c := conn?_id h
  have hc : ({ w := σ.w } : Ctx).conn c = cn := ctx_conn_of h
  rw [step_authCommit hpc, commitStep_eq, hc]
  obtain ⟨⟨u, hu, husers⟩, ⟨cn', hid', hauth', hnick', hconns⟩⟩ :=
    commitWith_win (cfg := cfg) (c := c) (r := r) (cnG := cn) (n := n) ({ w := σ.w } : Ctx)
      hn ht hs hq
  refine ⟨⟨u, hu, husers⟩, ⟨cn', ?_, hauth', hnick'⟩⟩
  show (commitWith cfg c r cn { w := σ.w }).w.conn? c = some cn'
  rw [conn?_congr hconns]
  exact conn?_setConn_self _ h (hid'.trans hid)

/-! ### output streams -/

theorem run_dir (cfg : Cfg) (d : Nat) (dl : List Section → CState → List Str)
    (hnil : ∀ σ, dl [] σ = [])
    (hcons : ∀ s ss σ, dl (s :: ss) σ =
      (if s.conn = d then (sectionCtx cfg s σ).x.direct else []) ++ dl ss (stepSection cfg s σ))
    (ss : List Section) (σ : CState) :
    (runSections cfg ss σ).dir d = σ.dir d ++ dl ss σ := by
  induction ss generalizing σ with
  | nil => simp [runSections_nil, hnil]
  | cons s ss ih =>
    rw [runSections_cons, ih, hcons]
    by_cases h : s.conn = d
    · simp [stepSection, h]
    · have h' : ¬ d = s.conn := fun e => h e.symm
      simp [stepSection, h, h']

theorem Interleave.append {α : Type} {a b l a' b' l' : List α} (h : Interleave a b l)
    (h' : Interleave a' b' l') : Interleave (a ++ a') (b ++ b') (l ++ l') := by
  induction h with
  | nil => exact h'
  | left _ ih => exact .left ih
  | right _ ih => exact .right ih

theorem Interleave.concat {α : Type} (a b : List α) : Interleave a b (a ++ b) := by
  have := Interleave.append (Interleave.nil_right a) (Interleave.nil_left b)
  simpa using this


/-! ### JOIN: what the three loops do to the channel table -/

theorem foldl_reply_w (cfg : Cfg) (es : List Str) (x : Ctx) :
    (es.foldl (fun x e => x.reply cfg e) x).w = x.w := by
  induction es generalizing x with
  | nil => rfl
  | cons e es ih => simp only [List.foldl_cons]; rw [ih]; rfl

theorem ite_panic_channels (b : Prop) [Decidable b] (x : Ctx) (s : String) :
    (if b then x.panic s else x).w.channels = x.w.channels := by
  split <;> rfl

theorem namesLines_channels (cfg : Cfg) (cn : Conn) (chn : Str) (ch : Channel) (us : Map User)
    (x : Ctx) : (namesLines cfg cn chn ch us x).w.channels = x.w.channels := by
  unfold namesLines
  simp only
  generalize chunks 20 _ = l
  have : ∀ (y : Ctx), (l.foldl (fun x chunk => x.reply cfg
      (RplNameReply353 cn.clientName (if ch.modes.secret = true then ['@'] else ['=']) chn chunk)) y).w
      = y.w := by
    intro y
    induction l generalizing y with
    | nil => rfl
    | cons e es ih => simp only [List.foldl_cons]; rw [ih]; rfl
  rw [this]
  exact ite_panic_channels _ _ _

theorem ite_w_channels {b : Prop} [Decidable b] {y z : Ctx} {cs : Map Channel}
    (hy : y.w.channels = cs) (hz : z.w.channels = cs) : (if b then y else z).w.channels = cs := by
  split <;> assumption

theorem sendNames_channels (cfg : Cfg) (c : Nat) (chn : Str) (ch : Channel) (e : Bool) (x : Ctx) :
    (sendNamesFromChannel cfg c chn ch e x).w.channels = x.w.channels := by
  unfold sendNamesFromChannel
  simp only
  refine ite_w_channels (ite_w_channels ?_ ?_) rfl
  · simp only [Ctx.reply_w, namesLines_channels]
  · exact namesLines_channels ..

theorem foldl_sendDisplay_channels (nick src t : Str) (l : List Str) (y : Ctx) :
    (l.foldl (fun x n => if (n != nick) = true then x.sendDisplay n src t else x) y).w.channels
      = y.w.channels := by
  induction l generalizing y with
  | nil => rfl
  | cons a l ih =>
    simp only [List.foldl_cons]
    rw [ih]
    exact ite_w_channels (by simp) rfl

theorem joinAnnounce_channels (cfg : Cfg) (c : Nat) (nick : Str) (ds : List (Bool × Bool))
    (chs : List Str) (x : Ctx) :
    (joinAnnounce cfg c nick ds chs x).w.channels = x.w.channels := by
  induction ds generalizing chs x with
  | nil => cases chs <;> rfl
  | cons d ds ih =>
    obtain ⟨join, create⟩ := d
    cases chs with
    | nil => rfl
    | cons chn chs =>
      simp only [joinAnnounce]
      rw [ih]
      cases join with
      | false => rfl
      | true =>
        simp only [↓reduceIte]
        cases Map.lookup chn x.w.channels with
        | none => rfl
        | some ch =>
          simp only
          rw [foldl_sendDisplay_channels, sendNames_channels]
          cases ch.topic <;> rfl


/-- the key list the handler builds -/
def joinKeys (keys : Option (List Str)) : List (Option Str) :=
  match keys with
  | some ks => ks.map some
  | none => []

theorem processJoin_channels (cfg : Cfg) (c : Nat) (chs : List Str) (keys : Option (List Str))
    (x : Ctx) :
    (processJoin cfg c chs keys x).w.channels =
      match (x.conn c).nick with
      | none => x.w.channels
      | some nick =>
        match Map.lookup nick x.w.users with
        | none => x.w.channels
        | some user =>
          (joinApply nick (joinDecide cfg x.w (x.conn c) nick user.invitedTo chs (joinKeys keys)
            user.channels.length).1 chs x.w).channels := by
  unfold processJoin
  simp only
  cases (x.conn c).nick with
  | none => rfl
  | some nick =>
    simp only
    cases Map.lookup nick x.w.users with
    | none => rfl
    | some user =>
      simp only [joinAnnounce_channels, Ctx.modifyW_w, foldl_reply_w]
      rfl

theorem join_bool_aux (do3 notFull mem : Bool)
    (h : ((do3 && (!do3 || notFull)) && !mem) = true) : mem = false ∧ notFull = true := by
  cases do3 <;> cases notFull <;> cases mem <;> simp_all

/-- an accepted JOIN to an existing channel: not yet a member, and below the limit -/
theorem joinCheckExisting_join {ch : Channel} {chn : Str} {key : Option (Option Str)}
    {src nick client : Str} {inv : KSet}
    (h : (joinCheckExisting ch chn key src nick client inv).1 = true) :
    Map.contains nick ch.users = false ∧ ∀ l, ch.modes.clientLimit = some l → ch.users.length < l := by
  unfold joinCheckExisting at h
  simp only at h
  obtain ⟨hm, hnf⟩ := join_bool_aux _ _ _ h
  refine ⟨hm, fun l hl => ?_⟩
  rw [hl] at hnf
  simpa using hnf

/-- what the first loop guarantees about its decisions, w.r.t. the pre-state `w` -/
def DecSpec (w : World) (nick : Str) : List (Bool × Bool) → List Str → Prop
  | (j, cr) :: ds, chn :: chs =>
    (match Map.lookup chn w.channels with
     | some C => cr = false ∧ (j = true → Map.contains nick C.users = false ∧
         ∀ l, C.modes.clientLimit = some l → C.users.length < l)
     | none => cr = true) ∧ DecSpec w nick ds chs
  | _, _ => True

theorem joinDecide_spec (cfg : Cfg) (w : World) (cn : Conn) (nick : Str) (inv : KSet) :
    ∀ (chs : List Str) (keys : List (Option Str)) (cnt : Nat),
      DecSpec w nick (joinDecide cfg w cn nick inv chs keys cnt).1 chs := by
  intro chs
  induction chs with
  | nil => intro keys cnt; trivial
  | cons chn rest ih =>
    intro keys cnt
    unfold joinDecide
    simp only
    cases hl : Map.lookup chn w.channels with
    | none =>
      simp only
      cases cfg.maxJoins with
      | none => simp only [DecSpec, hl]; exact ⟨trivial, ih _ _⟩
      | some mj => simp only [DecSpec, hl]; exact ⟨trivial, ih _ _⟩
    | some C =>
      simp only
      cases cfg.maxJoins with
      | none =>
        simp only [DecSpec, hl]
        exact ⟨⟨trivial, fun hj => joinCheckExisting_join hj⟩, ih _ _⟩
      | some mj =>
        simp only [DecSpec, hl, Bool.and_eq_true]
        exact ⟨⟨trivial, fun hj => joinCheckExisting_join hj.1⟩, ih _ _⟩


theorem Map.insert_insert' {α : Type} (k : Str) (v v' : α) (m : Map α) :
    Map.insert k v (Map.insert k v' m) = Map.insert k v m := by
  induction m with
  | nil => simp [Map.insert]
  | cons p m ih =>
    obtain ⟨k', v''⟩ := p
    by_cases h : k' = k
    · simp [Map.insert, h]
    · simp [Map.insert, h, ih]

theorem Map.length_insert_none {α : Type} (k : Str) (v : α) (m : Map α)
    (h : Map.lookup k m = none) : (Map.insert k v m).length = m.length + 1 := by
  induction m with
  | nil => rfl
  | cons p m ih =>
    obtain ⟨k', v'⟩ := p
    by_cases hk : k' = k
    · simp [Map.lookup, hk] at h
    · simp only [Map.lookup, hk, ↓reduceIte] at h
      simp [Map.insert, hk, ih h]

theorem KSet.insert_idem' (k : Str) (s : KSet) : KSet.insert k (KSet.insert k s) = KSet.insert k s := by
  unfold KSet.insert
  by_cases h : KSet.mem k s = true
  · simp [h]
  · have : KSet.mem k (s ++ [k]) = true := by simp [KSet.mem]
    simp [h, this]

theorem Channel.addUser_idem' (C : Channel) (n : Str) : (C.addUser n).addUser n = C.addUser n := by
  unfold Channel.addUser
  simp only [Map.insert_insert']
  cases KSet.mem n C.defaultModes.halfOperators <;> cases KSet.mem n C.defaultModes.operators <;>
    cases KSet.mem n C.defaultModes.founders <;> cases KSet.mem n C.defaultModes.voices <;>
    cases KSet.mem n C.defaultModes.protecteds <;> simp [KSet.insert_idem']

/-- the state of channel `ch` during the second loop of a JOIN by `nick`, relative to its state
    `C0` before the command: untouched, or `nick` was accepted (not a member, below the limit)
    and added once -/
def ChanStep (nick : Str) (C0 C : Channel) : Prop :=
  C = C0 ∨
   (Map.contains nick C0.users = false ∧
    (∀ l, C0.modes.clientLimit = some l → C0.users.length < l) ∧ C = C0.addUser nick)

theorem joinApply_existing {w0 : World} {nick ch : Str} {C0 : Channel}
    (h0 : Map.lookup ch w0.channels = some C0) :
    ∀ (ds : List (Bool × Bool)) (chs : List Str) (w : World), DecSpec w0 nick ds chs →
      (∃ C, Map.lookup ch w.channels = some C ∧ ChanStep nick C0 C) →
      ∃ C, Map.lookup ch (joinApply nick ds chs w).channels = some C ∧ ChanStep nick C0 C := by
  intro ds
  induction ds with
  | nil => intro chs w _ h; cases chs <;> exact h
  | cons d ds ih =>
    obtain ⟨j, cr⟩ := d
    intro chs w hspec hinv
    cases chs with
    | nil => exact hinv
    | cons chn chs =>
      simp only [DecSpec] at hspec
      obtain ⟨hd, hrest⟩ := hspec
      simp only [joinApply]
      apply ih chs _ hrest
      cases j with
      | false => exact hinv
      | true =>
        simp only [↓reduceIte]
        obtain ⟨C, hC, hus⟩ := hinv
        by_cases hch : chn = ch
        · subst hch
          rw [h0] at hd
          obtain ⟨hcr, hj⟩ := hd
          obtain ⟨hmem, hfull⟩ := hj rfl
          subst hcr
          simp only [Bool.false_eq_true, ↓reduceIte, hC]
          refine ⟨C.addUser nick, by simp, .inr ⟨hmem, hfull, ?_⟩⟩
          rcases hus with e | ⟨_, _, e⟩
          · rw [e]
          · rw [e, Channel.addUser_idem']
        · cases cr with
          | true =>
            simp only [↓reduceIte]
            exact ⟨C, by rw [Map.lookup_insert_ne _ _ _ _ hch]; exact hC, hus⟩
          | false =>
            simp only [Bool.false_eq_true, ↓reduceIte]
            cases Map.lookup chn w.channels with
            | none => exact ⟨C, hC, hus⟩
            | some Cc =>
              exact ⟨C, by simp only; rw [Map.lookup_insert_ne _ _ _ _ hch]; exact hC, hus⟩

theorem joinApply_absent {w0 : World} {nick ch : Str}
    (h0 : Map.lookup ch w0.channels = none) :
    ∀ (ds : List (Bool × Bool)) (chs : List Str) (w : World), DecSpec w0 nick ds chs →
      (∀ C, Map.lookup ch w.channels = some C → C = Channel.newOnUserJoin nick) →
      ∀ C, Map.lookup ch (joinApply nick ds chs w).channels = some C →
        C = Channel.newOnUserJoin nick := by
  intro ds
  induction ds with
  | nil => intro chs w _ h; cases chs <;> exact h
  | cons d ds ih =>
    obtain ⟨j, cr⟩ := d
    intro chs w hspec hinv
    cases chs with
    | nil => exact hinv
    | cons chn chs =>
      simp only [DecSpec] at hspec
      obtain ⟨hd, hrest⟩ := hspec
      simp only [joinApply]
      apply ih chs _ hrest
      cases j with
      | false => exact hinv
      | true =>
        simp only [↓reduceIte]
        by_cases hch : chn = ch
        · subst hch
          rw [h0] at hd
          simp only at hd
          subst hd
          simp only [↓reduceIte]
          intro C hC
          simpa using hC.symm
        · cases cr with
          | true =>
            simp only [↓reduceIte]
            intro C hC
            rw [Map.lookup_insert_ne _ _ _ _ hch] at hC
            exact hinv C hC
          | false =>
            simp only [Bool.false_eq_true, ↓reduceIte]
            cases Map.lookup chn w.channels with
            | none => exact hinv
            | some Cc =>
              intro C hC
              simp only at hC
              rw [Map.lookup_insert_ne _ _ _ _ hch] at hC
              exact hinv C hC


/-- **JOIN and one existing channel**: after the whole command the channel is as before, or the
    joining nick (not a member before, limit not reached before) has been added exactly once -/
theorem processJoin_existing {cfg : Cfg} {c : Nat} {chs : List Str} {keys : Option (List Str)}
    {x : Ctx} {ch : Str} {C0 : Channel} (h0 : Map.lookup ch x.w.channels = some C0) :
    ∃ C, Map.lookup ch (processJoin cfg c chs keys x).w.channels = some C ∧
      (C = C0 ∨ ∃ nick, (x.conn c).nick = some nick ∧ ChanStep nick C0 C) := by
  rw [processJoin_channels]
  cases hn : (x.conn c).nick with
  | none => exact ⟨C0, h0, .inl rfl⟩
  | some nick =>
    simp only
    cases Map.lookup nick x.w.users with
    | none => exact ⟨C0, h0, .inl rfl⟩
    | some user =>
      simp only
      obtain ⟨C, hC, hs⟩ := joinApply_existing h0 _ chs x.w (joinDecide_spec cfg x.w (x.conn c) nick
        user.invitedTo chs (joinKeys keys) user.channels.length) ⟨C0, h0, .inl rfl⟩
      exact ⟨C, hC, .inr ⟨nick, rfl, hs⟩⟩

/-- **JOIN and one absent channel**: if it exists afterwards it is the freshly created one, whose
    only member, founder and operator is the joining nick -/
theorem processJoin_absent {cfg : Cfg} {c : Nat} {chs : List Str} {keys : Option (List Str)}
    {x : Ctx} {ch : Str} (h0 : Map.lookup ch x.w.channels = none) {C : Channel}
    (hC : Map.lookup ch (processJoin cfg c chs keys x).w.channels = some C) :
    ∃ nick, (x.conn c).nick = some nick ∧ C = Channel.newOnUserJoin nick := by
  rw [processJoin_channels] at hC
  cases hn : (x.conn c).nick with
  | none => rw [hn] at hC; simp only at hC; rw [h0] at hC; cases hC
  | some nick =>
    rw [hn] at hC
    simp only at hC
    cases hu : Map.lookup nick x.w.users with
    | none => rw [hu] at hC; simp only at hC; rw [h0] at hC; cases hC
    | some user =>
      rw [hu] at hC
      simp only at hC
      exact ⟨nick, rfl, joinApply_absent h0 _ chs x.w (joinDecide_spec cfg x.w (x.conn c) nick
        user.invitedTo chs (joinKeys keys) user.channels.length)
        (fun C' h' => by rw [h0] at h'; cases h') C hC⟩

theorem ChanStep.limit {nick : Str} {C0 C : Channel} (h : ChanStep nick C0 C) :
    C.modes.clientLimit = C0.modes.clientLimit ∧
    ∀ l, C0.modes.clientLimit = some l → C0.users.length ≤ l → C.users.length ≤ l := by
  rcases h with rfl | ⟨hm, hf, rfl⟩
  · exact ⟨rfl, fun _ _ h => h⟩
  · refine ⟨rfl, fun l hl _ => ?_⟩
    have hnone : Map.lookup nick C0.users = none := (Map.contains_false_iff _ _).mp hm
    show (Map.insert nick _ C0.users).length ≤ l
    rw [Map.length_insert_none _ _ _ hnone]
    exact hf l hl

end Irc.Conc
