/-
  Irc.Props.Wire — END-TO-END theorems: from the text a client puts on the wire to the state and
  the deliveries the per-property theorems (C01, C03, C07, C09, C10, C11, C13, C15) describe.

      line ──Message.parse──▶ message ──Command.fromMessage──▶ command
           ──handleLine / dispatch──▶ handler ──finish / settle──▶ StepOut (world, outs, events)

  Every theorem of sections 3 and 4 is stated for the WIRE TEXT (a `Str` built from a verb in any
  letter case, well-formed channel / nick / key pieces and ARBITRARY trailing texts) and the
  `StepOut` of `step cfg w (.line c line)`; nothing is left to "reading" in between.

  Setting (`Client w c cn n`): a world `w` with the invariant `Inv w` (section 4: a `Reachable`
  world), a live connection `c` whose record is `cn`, authenticated, registered under nick `n`.

  Sections
    0  a concrete reachable world (two users register through their NICK/USER lines, `#c` +k)
    1  `canonical_parses`: `Message.parse` and `Command.fromMessage` of the canonical client lines
    2  `step_line_is_handler`: `step` of a parsed line = `finish` of `dispatch`; settling = identity
    3  `privmsg_wire`, `notice_wire`, `privmsg_wire_received`, `join_wire`, `unregistered_wire`,
       `nick_wire`, `kick_wire`, `oper_wire` (+ the general forms `msg_wire_of_parsed`,
       `join_wire_of_parsed` for ANY spelling of the line that parses to that command)
    4  `join_wire_reachable`, `privmsg_wire_reachable`, the `decide`-checked run

  Remarks
  * Trailing texts: NO hypothesis at all (not even "contains no line break"): `Message.parse`
    takes everything after the first `" :"`.  The one-line property is what the framing layer
    guarantees, the parser does not need it.
  * Receiver side (`privmsg_wire_received`): needs `C13.wellFormedSource cn.source` as a
    hypothesis — the invariant does not constrain host names (the model accepts any `ip` text in
    `connect`), and a source with a blank in it would not re-parse.
  * `kick_wire` is proved from the model directly (single victim): `Irc.Props.C09` and
    `Irc.Props.C15` cannot be imported together (both lemma files define `Irc.ownerOf`);
    `Wire.kickable` is `C09.Spec.kickable` verbatim.
  * Oddities seen end to end: the relayed NICK line carries the verb in the sender's letter case
    (`:old NICK new` only if the client wrote `NICK`; `nick` is relayed as `nick`), see
    `nick_wire`; a channel name such as `&#x` or `&~x` is a valid JOIN target but is read by
    PRIVMSG as a status-prefixed target (`WfMsgChan` excludes these shapes; `#x…` is always fine).

  Helper lemmas: `Irc/Props/WireLemmas.lean`.
-/
import Irc.Props.WireLemmas
namespace Irc.Wire
open Irc Irc.Reply

/-! ## 0. a concrete reachable world for the non-vacuity examples -/

namespace Demo

def cfg : Cfg := {}

/-- alice and bob register through their NICK / USER lines (bob writes `nick` in lower case),
    alice creates `#c` and sets `+k sesame` -/
def evs : List Event :=
  [ .connect 1 (str "10.0.0.1"),
    .line 1 (str "NICK alice"),
    .line 1 (str "USER alice 0 * :Alice A"),
    .connect 2 (str "10.0.0.2"),
    .line 2 (str "nick bob"),
    .line 2 (str "USER bob 0 * :Bob B"),
    .line 1 (str "JOIN #c"),
    .line 1 (str "MODE #c +k sesame") ]

def w0 : World := run cfg evs

theorem sched : SchedAll cfg evs := by decide
theorem reach0 : Reachable cfg w0 := ⟨evs, sched, rfl⟩
theorem inv0 : Inv w0 := inv_reachable reach0

def alice : Str := str "alice"
def bob : Str := str "bob"
def chan : Str := str "#c"
def aliceConn : Conn := (w0.conn? 1).getD default
def bobConn : Conn := (w0.conn? 2).getD default
def bobUser : User := (Map.lookup bob w0.users).getD default
/-- `#c` before bob joins: alice alone (founder, operator), key `sesame` -/
def chanC : Channel := (Map.lookup chan w0.channels).getD default

theorem aliceClient : Client w0 1 aliceConn alice := ⟨inv0, by decide, by decide, by decide⟩
theorem bobClient : Client w0 2 bobConn bob := ⟨inv0, by decide, by decide, by decide⟩

/-- bob joins with the key (verb in lower case) -/
def joinText : Str := str "join #c sesame"
def w1 : World := (step cfg w0 (.line 2 joinText)).w
theorem reach1 : Reachable cfg w1 := reach0.step trivial
/-- `#c` after bob has joined -/
def chanC1 : Channel := (Map.lookup chan w1.channels).getD default
theorem aliceClient1 : Client w1 1 aliceConn alice :=
  ⟨inv_reachable reach1, by decide, by decide, by decide⟩
theorem bobClient1 : Client w1 2 bobConn bob :=
  ⟨inv_reachable reach1, by decide, by decide, by decide⟩

/-- a text with a leading colon, double blanks and a colon inside -/
def text : Str := str ":-) hello  there: all"

/-- alice makes `#c` moderated -/
def w2 : World := (step cfg w1 (.line 1 (str "MODE #c +m"))).w

end Demo

/-! ## 1. parsing of the canonical client lines -/

/-- The canonical client lines: `Canonical line msg cmd` = "`line` is one of the lines below,
    built from a verb in any letter case and well-formed pieces, `msg` is its parsed message and
    `cmd` its command".  Trailing texts (`text`, `comment`, `topic`, `reason`) are arbitrary. -/
inductive Canonical : Str → Message → Command → Prop
  | join {v ch : Str} : Verb v (str "JOIN") → WfChan ch →
      Canonical (lineJoin v ch) ⟨none, v, [ch]⟩ (.JOIN [ch] none)
  | joinKey {v ch key : Str} : Verb v (str "JOIN") → WfChan ch → WfKey key →
      Canonical (lineJoinKey v ch key) ⟨none, v, [ch, key]⟩ (.JOIN [ch] (some [key]))
  | privmsg {v ch : Str} (text : Str) : Verb v (str "PRIVMSG") → WfMsgChan ch →
      Canonical (linePrivmsg v ch text) ⟨none, v, [ch, text]⟩ (.PRIVMSG [ch] text)
  | privmsgNick {v n : Str} (text : Str) : Verb v (str "PRIVMSG") → WfNick n →
      Canonical (linePrivmsg v n text) ⟨none, v, [n, text]⟩ (.PRIVMSG [n] text)
  | notice {v ch : Str} (text : Str) : Verb v (str "NOTICE") → WfMsgChan ch →
      Canonical (linePrivmsg v ch text) ⟨none, v, [ch, text]⟩ (.NOTICE [ch] text)
  | kick {v ch nick : Str} (comment : Str) : Verb v (str "KICK") → WfChan ch → WfNick nick →
      Canonical (lineKick v ch nick comment) ⟨none, v, [ch, nick, comment]⟩
        (.KICK ch [nick] (some comment))
  | topic {v ch : Str} (topic : Str) : Verb v (str "TOPIC") → WfChan ch →
      Canonical (lineTopic v ch topic) ⟨none, v, [ch, topic]⟩ (.TOPIC ch (some topic))
  | nick {v new : Str} : Verb v (str "NICK") → WfNick new →
      Canonical (lineNick v new) ⟨none, v, [new]⟩ (.NICK new)
  | oper {v name pw : Str} : Verb v (str "OPER") → WfNick name → WfWord pw →
      Canonical (lineOper v name pw) ⟨none, v, [name, pw]⟩ (.OPER name pw)
  | part {v ch : Str} (reason : Str) : Verb v (str "PART") → WfChan ch →
      Canonical (linePart v ch reason) ⟨none, v, [ch, reason]⟩ (.PART [ch] (some reason))

/-- **Parsing.**  Every canonical client line is parsed by `Message.parse` to exactly its parts
    (no source, the verb as written, the parameters — the trailing text EXACTLY as sent, whatever
    it contains) and `Command.fromMessage` accepts it (all validators pass) as the expected
    `Command` constructor, for any letter case of the verb. -/
theorem canonical_parses {line : Str} {msg : Message} {cmd : Command} (h : Canonical line msg cmd) :
    Message.parse line = .ok msg ∧ Command.fromMessage msg = .ok cmd := by
  cases h with
  | join hv hch => exact ⟨parse_join hv hch, cmd_join hv hch none⟩
  | joinKey hv hch hk => exact ⟨parse_joinKey hv hch hk, cmd_joinKey hv hch hk none⟩
  | privmsg text hv hch => exact ⟨parse_privmsg hv hch.1.word text, cmd_privmsg hv hch none text⟩
  | privmsgNick text hv hn => exact ⟨parse_privmsg hv hn.word text, cmd_privmsg_nick hv hn none text⟩
  | notice text hv hch => exact ⟨parse_notice hv hch.1.word text, cmd_notice hv hch none text⟩
  | kick comment hv hch hn => exact ⟨parse_kick hv hch hn comment, cmd_kick hv hch hn none comment⟩
  | topic t hv hch => exact ⟨parse_topic hv hch t, cmd_topic hv hch none t⟩
  | nick hv hn => exact ⟨parse_nick hv hn, cmd_nick hv hn none⟩
  | oper hv hn hp => exact ⟨parse_oper hv hn hp, cmd_oper hv hn none⟩
  | part r hv hch => exact ⟨parse_part hv hch r, cmd_part hv hch none r⟩

/-- with the verb written in upper case the line builders are the literal texts
    `"JOIN " ++ ch`, `"PRIVMSG " ++ tgt ++ " :" ++ text`, … -/
theorem lines_literal (ch key tgt text nick comment topic new name pw reason : Str) :
    lineJoin (str "JOIN") ch = str "JOIN " ++ ch ∧
    lineJoinKey (str "JOIN") ch key = str "JOIN " ++ ch ++ str " " ++ key ∧
    linePrivmsg (str "PRIVMSG") tgt text = str "PRIVMSG " ++ tgt ++ str " :" ++ text ∧
    linePrivmsg (str "NOTICE") tgt text = str "NOTICE " ++ tgt ++ str " :" ++ text ∧
    lineKick (str "KICK") ch nick comment =
      str "KICK " ++ ch ++ str " " ++ nick ++ str " :" ++ comment ∧
    lineTopic (str "TOPIC") ch topic = str "TOPIC " ++ ch ++ str " :" ++ topic ∧
    lineNick (str "NICK") new = str "NICK " ++ new ∧
    lineOper (str "OPER") name pw = str "OPER " ++ name ++ str " " ++ pw ∧
    linePart (str "PART") ch reason = str "PART " ++ ch ++ str " :" ++ reason :=
  ⟨rfl, rfl, rfl, rfl, rfl, rfl, rfl, rfl, rfl⟩

/-- e.g. `Message.parse (str "JOIN " ++ ch) = .ok ⟨none, str "JOIN", [ch]⟩` and
    `Message.parse (str "PRIVMSG " ++ tgt ++ str " :" ++ text) = .ok ⟨none, "PRIVMSG", [tgt, text]⟩`
    for EVERY text -/
theorem parse_join_literal {ch : Str} (hch : WfChan ch) :
    Message.parse (str "JOIN " ++ ch) = .ok ⟨none, str "JOIN", [ch]⟩ ∧
    Command.fromMessage ⟨none, str "JOIN", [ch]⟩ = .ok (.JOIN [ch] none) :=
  canonical_parses (.join (v := str "JOIN") (by decide) hch)

theorem parse_privmsg_literal {ch : Str} (hch : WfMsgChan ch) (text : Str) :
    Message.parse (str "PRIVMSG " ++ ch ++ str " :" ++ text) =
      .ok ⟨none, str "PRIVMSG", [ch, text]⟩ ∧
    Command.fromMessage ⟨none, str "PRIVMSG", [ch, text]⟩ = .ok (.PRIVMSG [ch] text) :=
  canonical_parses (.privmsg (v := str "PRIVMSG") text (by decide) hch)

/-- the line builders are plain concatenation -/
example : lineJoinKey (str "join") (str "#c") (str "sesame") = str "join #c sesame" ∧
    linePrivmsg (str "pRiVmSg") (str "#c") (str ":-) a  b: c ") = str "pRiVmSg #c ::-) a  b: c " ∧
    lineKick (str "KICK") (str "#c") (str "bob") (str "") = str "KICK #c bob :" := by decide

/-- hypotheses satisfiable, conclusion non-trivial: mixed-case verb, a text that starts with a
    colon and contains double blanks, colons and a trailing blank -/
example : Verb (str "pRiVmSg") (str "PRIVMSG") ∧ WfMsgChan (str "#c") ∧ WfMsgChan (str "&loc") ∧
    WfChan (str "&#x") ∧ ¬ WfMsgChan (str "&#x") ∧ ¬ WfMsgChan (str "#") ∧
    WfNick (str "bob") ∧ ¬ WfNick (str "b,c") ∧ WfKey (str "se:same") ∧ ¬ WfKey (str "a,b") := by
  decide
example : Message.parse (linePrivmsg (str "pRiVmSg") (str "#c") (str ":-) a  b: c ")) =
      .ok ⟨none, str "pRiVmSg", [str "#c", str ":-) a  b: c "]⟩ ∧
    Command.fromMessage ⟨none, str "pRiVmSg", [str "#c", str ":-) a  b: c "]⟩ =
      .ok (.PRIVMSG [str "#c"] (str ":-) a  b: c ")) :=
  canonical_parses (.privmsg _ (by decide) (by decide))

/-! ## 2. `step` of a line = `finish` of the handler; when settling is the identity -/

/-- **`step_line_is_handler`.**  For a live authenticated connection and a line that parses to
    the command `cmd`:
    (i)   the operation is exactly `finish` of `dispatch cfg c msg cmd` applied to the context
          whose world is `w` with the counter of `cmd` bumped;
    (ii)  if no connection is flagged (`quit` / `killedBy`) in the handler's world, the settling
          phase is the identity: the resulting world is the handler's world, the output is the
          handler's direct replies (to `c`) followed by its queued lines, and no event is reported;
    (iii) that condition holds for every command other than QUIT / KILL / DIE / SQUIT whose
          handler has not written a 464 reply (failed registration password).  For OPER (which
          also uses 464) it holds too, see `oper_wire`. -/
theorem step_line_is_handler (cfg : Cfg) {w : World} {c : Nat} {cn : Conn} {n : Str}
    (h : Client w c cn n) {line : Str} {msg : Message} {cmd : Command}
    (hp : Message.parse line = .ok msg) (hcmd : Command.fromMessage msg = .ok cmd) :
    step cfg w (.line c line) =
      finish cfg c (dispatch cfg c msg cmd { w := bumpCount w cmd.id.index }) ∧
    ((∀ y ∈ (dispatch cfg c msg cmd { w := bumpCount w cmd.id.index }).w.conns,
        y.quit = false ∧ y.killedBy = none) →
      step cfg w (.line c line) =
        { w := (dispatch cfg c msg cmd { w := bumpCount w cmd.id.index }).w
          outs := (dispatch cfg c msg cmd { w := bumpCount w cmd.id.index }).direct.map
              (fun l => (c, l)) ++
            (dispatch cfg c msg cmd { w := bumpCount w cmd.id.index }).queued
          events := [] }) ∧
    (C05.mayKill cmd = false → C05.isQuit cmd = false →
      ¬ C05.Said464 cfg (dispatch cfg c msg cmd { w := bumpCount w cmd.id.index }) →
      ∀ y ∈ (dispatch cfg c msg cmd { w := bumpCount w cmd.id.index }).w.conns,
        y.quit = false ∧ y.killedBy = none) := by
  have hst := step_line_eq (cfg := cfg) h.live (Or.inl h.auth) hp hcmd
  refine ⟨hst, fun hs => ?_, fun hk hq h464 =>
    dispatch_settled h.inv h.live (Or.inl h.auth) hcmd hk hq h464⟩
  rw [hst, finish_of_settled _ _ _ hs]

/-- instance: bob's `join #c sesame` in the demo world — the line parses, and the conclusion of
    (ii) is the four delivered lines -/
example : Message.parse Demo.joinText = .ok ⟨none, str "join", [str "#c", str "sesame"]⟩ ∧
    Command.fromMessage ⟨none, str "join", [str "#c", str "sesame"]⟩ =
      .ok (.JOIN [str "#c"] (some [str "sesame"])) ∧
    C05.mayKill (.JOIN [str "#c"] (some [str "sesame"])) = false ∧
    C05.isQuit (.JOIN [str "#c"] (some [str "sesame"])) = false := by decide
example : (step Demo.cfg Demo.w0 (.line 2 Demo.joinText)).outs =
    [(2, str ":bob!~bob@10.0.0.2 JOIN #c"),
     (2, str ":irc.irc 353 bob = #c :~alice bob"),
     (2, (str ":irc.irc " ++ Reply.RplEndOfNames366 (client := str "bob") (channel := str "#c"))),
     (1, str ":bob!~bob@10.0.0.2 JOIN #c")] := by decide

/-! ## 3. end-to-end corollaries -/

/-! ### PRIVMSG / NOTICE to a channel -/

/-- the relayed line and the 404 reply, spelled out -/
theorem relayed_line_eq (src ch text : Str) :
    C01.Spec.line src false ch text = str ":" ++ src ++ str " PRIVMSG " ++ ch ++ str " :" ++ text ∧
    C01.Spec.line src true ch text = str ":" ++ src ++ str " NOTICE " ++ ch ++ str " :" ++ text :=
  ⟨rfl, rfl⟩

theorem err404_eq (cfg : Cfg) (n ch : Str) :
    C10.Spec.err404 cfg n ch =
      str ":" ++ cfg.name ++ str " 404 " ++ n ++ str " " ++ ch ++ str " :Cannot send to channel" := rfl

/-- The statement of `privmsg_wire` (`notice = false`) and `notice_wire` (`notice = true`), for
    the wire line `line` (canonically `linePrivmsg v ch text` = `v ++ " " ++ ch ++ " :" ++ text`)
    sent by `c` (nick `n`) to the existing channel `ch` (= `C` in `w`).  With `others` = the members of `C` other than
    `n`, in member order:
    * the world is unchanged except for the command counter (`bumpCount`, see `bumpCount_frame`),
      nothing is closed;
    * if `n` may speak (`C10.Spec.maySpeak`): the output is exactly one copy of
      `":" ++ cn.source ++ " PRIVMSG " ++ ch ++ " :" ++ text` (resp. `" NOTICE "`; always the
      upper-case verb, see `relayed_line_eq`) for each of `others`, addressed to the connection
      owning that user — and no line at all goes to `c`;
    * otherwise: exactly one 404 line to `c` for PRIVMSG, nothing at all for NOTICE;
    * `others` has no repetition, its owners are pairwise different connections, none is `c`. -/
def MsgWire (cfg : Cfg) (notice : Bool) (w : World) (c : Nat) (cn : Conn) (n line ch text : Str)
    (C : Channel) : Prop :=
  let out := step cfg w (.line c line)
  let others := (Map.keys C.users).filter (· != n)
  out.w = bumpCount w (if notice then CmdId.NOTICE.index else CmdId.PRIVMSG.index) ∧
  out.events = [] ∧
  (C10.Spec.maySpeak C n cn.source →
    out.outs = others.map (fun m =>
      (C01.Spec.ownerOf w m, C01.Spec.line cn.source notice ch text)) ∧
    (∀ e ∈ out.outs, e.1 ≠ c)) ∧
  (¬ C10.Spec.maySpeak C n cn.source →
    out.outs = if notice = true then [] else [(c, C10.Spec.err404 cfg n ch)]) ∧
  others.Nodup ∧ (∀ m, m ∈ others ↔ (∃ r, Map.lookup m C.users = some r) ∧ m ≠ n) ∧
  (others.map (C01.Spec.ownerOf w)).Nodup ∧ (∀ m ∈ others, C01.Spec.ownerOf w m ≠ c)

/-- **General form**: ANY line (not only the canonical spelling: extra blanks, a TAB as
    separator, a source prefix ..) that parses to PRIVMSG / NOTICE with the single target `ch` and
    the text `text`. -/
theorem msg_wire_of_parsed (cfg : Cfg) {w : World} {c : Nat} {cn : Conn} {n : Str}
    (h : Client w c cn n) (notice : Bool) {line ch : Str} (text : Str) {msg : Message}
    (hp : Message.parse line = .ok msg)
    (hcmd : Command.fromMessage msg =
      .ok (if notice then .NOTICE [ch] text else .PRIVMSG [ch] text))
    (hch : WfMsgChan ch) {C : Channel} (hC : Map.lookup ch w.channels = some C) :
    MsgWire cfg notice w c cn n line ch text C := by
  obtain ⟨s1, s2, s3, s4⟩ := msg_step cfg h notice text hp hcmd hch hC
  obtain ⟨o1, o2, o3, o4⟩ := others_facts h hC
  simp only [MsgWire]
  refine ⟨s1, s2, fun hs => ⟨s3 hs, ?_⟩, s4, o1, o2, o3, o4⟩
  intro e he
  rw [s3 hs] at he
  obtain ⟨m, hm, rfl⟩ := List.mem_map.mp he
  exact o4 m hm

/-- the general form covers non-canonical spellings: a (discarded) source prefix, doubled blanks,
    a TAB as separator -/
example : Message.parse (str ":x  privmsg\t#c   :hi") =
      .ok ⟨some (str "x"), str "privmsg", [str "#c", str "hi"]⟩ ∧
    Command.fromMessage ⟨some (str "x"), str "privmsg", [str "#c", str "hi"]⟩ =
      .ok (.PRIVMSG [str "#c"] (str "hi")) := by decide

/-- **`privmsg_wire`** — `PRIVMSG ch :text` (verb in any letter case, any text) to an existing
    channel, see `MsgWire`. -/
theorem privmsg_wire (cfg : Cfg) {w : World} {c : Nat} {cn : Conn} {n : Str} (h : Client w c cn n)
    {v ch : Str} (hv : Verb v (str "PRIVMSG")) (hch : WfMsgChan ch) (text : Str) {C : Channel}
    (hC : Map.lookup ch w.channels = some C) :
    MsgWire cfg false w c cn n (linePrivmsg v ch text) ch text C :=
  msg_wire_of_parsed cfg h false text (parse_privmsg hv hch.1.word text) (cmd_privmsg hv hch none text)
    hch hC

/-- **`notice_wire`** — the same for `NOTICE ch :text`; a refused NOTICE is not answered at all. -/
theorem notice_wire (cfg : Cfg) {w : World} {c : Nat} {cn : Conn} {n : Str} (h : Client w c cn n)
    {v ch : Str} (hv : Verb v (str "NOTICE")) (hch : WfMsgChan ch) (text : Str) {C : Channel}
    (hC : Map.lookup ch w.channels = some C) :
    MsgWire cfg true w c cn n (linePrivmsg v ch text) ch text C :=
  msg_wire_of_parsed cfg h true text (parse_notice hv hch.1.word text) (cmd_notice hv hch none text)
    hch hC

/-- **Receiver side.**  Every line delivered by an accepted PRIVMSG / NOTICE, re-parsed by its
    receiver (`Message.parse`, then `Command.fromMessage`), yields the sender's `nick!user@host`
    as source, the verb, the channel and the text EXACTLY as sent.  (`hs`: the sender's source is a
    well-formed source — no blanks, accepted by `validate_source`; not implied by `Inv`, see the
    header.) -/
theorem privmsg_wire_received (cfg : Cfg) {w : World} {c : Nat} {cn : Conn} {n : Str}
    (notice : Bool) {line ch text : Str} {C : Channel}
    (hW : MsgWire cfg notice w c cn n line ch text C)
    (hch : WfMsgChan ch) (hs : C13.wellFormedSource cn.source = true)
    (hsp : C10.Spec.maySpeak C n cn.source) :
    ∀ e ∈ (step cfg w (.line c line)).outs,
      Message.parse e.2 =
        .ok ⟨some cn.source, if notice then str "NOTICE" else str "PRIVMSG", [ch, text]⟩ ∧
      Command.fromMessage ⟨some cn.source, if notice then str "NOTICE" else str "PRIVMSG",
        [ch, text]⟩ = .ok (if notice then .NOTICE [ch] text else .PRIVMSG [ch] text) := by
  simp only [MsgWire] at hW
  obtain ⟨_, _, h3, _⟩ := hW
  intro e he
  rw [(h3 hsp).1] at he
  obtain ⟨m, _, rfl⟩ := List.mem_map.mp he
  refine ⟨relayed_parse notice text hs hch.1, ?_⟩
  cases notice
  · exact cmd_privmsg (v := str "PRIVMSG") (by decide) hch _ text
  · exact cmd_notice (v := str "NOTICE") (by decide) hch _ text

/-- instance (demo world after bob has joined): alice's `PRIVMSG #c ::-) hello  there: all`;
    all hypotheses hold, bob (connection 2) gets exactly the one line, with the text intact -/
example : Client Demo.w1 1 Demo.aliceConn Demo.alice := Demo.aliceClient1
example : Verb (str "PRIVMSG") (str "PRIVMSG") ∧ WfMsgChan Demo.chan ∧
    Map.lookup Demo.chan Demo.w1.channels = some Demo.chanC1 ∧
    C13.wellFormedSource Demo.aliceConn.source = true := by decide
example : C10.Spec.maySpeak Demo.chanC1 Demo.alice Demo.aliceConn.source :=
  (C10.canSend_iff _ _ _).mp (by decide)
example : (step Demo.cfg Demo.w1 (.line 1 (linePrivmsg (str "PRIVMSG") Demo.chan Demo.text))).outs =
    [(2, str ":alice!~alice@10.0.0.1 PRIVMSG #c ::-) hello  there: all")] := by decide
/-- a non-member may speak on a channel that is neither +n nor +s: bob's `notice` in `w0` -/
example : (step Demo.cfg Demo.w0 (.line 2 (linePrivmsg (str "notice") Demo.chan Demo.text))).outs =
    [(1, str ":bob!~bob@10.0.0.2 NOTICE #c ::-) hello  there: all")] := by decide
/-- refused: after alice's `MODE #c +m` bob (no voice) may not speak: one 404 for PRIVMSG,
    nothing for NOTICE, nobody receives anything -/
example : ¬ C10.Spec.maySpeak ((Map.lookup Demo.chan Demo.w2.channels).getD default) Demo.bob
    Demo.bobConn.source := fun h => absurd ((C10.canSend_iff _ _ _).mpr h) (by decide)
example : (step Demo.cfg Demo.w2 (.line 2 (linePrivmsg (str "PRIVMSG") Demo.chan Demo.text))).outs =
      [(2, (str ":irc.irc " ++ Reply.ErrCannotSendToChain404 (client := str "bob") (channel := str "#c")))] ∧
    (step Demo.cfg Demo.w2 (.line 2 (linePrivmsg (str "NOTICE") Demo.chan Demo.text))).outs = [] := by
  decide

/-! ### JOIN -/

/-- the JOIN line with or without a key -/
def joinText (v ch : Str) : Option Str → Str
  | none => lineJoin v ch
  | some k => lineJoinKey v ch k

/-- The statement of `join_wire`, for the wire line `line` (canonically `joinText v ch key` =
    `JOIN ch [key]`) sent by `c` (nick `n`, user record `u`), a NON-member of the existing
    channel `ch` (= `C` in `w`).  With
    `R` = the admission request (`C07.Spec.Request`: channel, supplied key, source, invitations),
    `ok` = `C07.Spec.admit R = .ok ()` ∧ quota (`u` is in fewer than `max_joins` channels):
    * afterwards `n` is a member of `ch` iff `ok`; nothing is closed;
    * refused: the world is unchanged except for the command counter and the output is exactly
      the error line(s) `joinErrs` (475 / 474 / 473 / 471, then 405), at least one, all to `c`;
    * accepted: the world is `w` with `n` inserted into `ch` (default ranks) and `ch` into `n`'s
      channel list (invitation used up); the output is the JOIN line to `c`, the topic / NAMES
      burst to `c`, then the JOIN line to the owner of every other member — these owners are
      pairwise different connections, none is `c`, so each of them gets the line exactly once. -/
def JoinWire (cfg : Cfg) (w : World) (c : Nat) (cn : Conn) (n line ch : Str) (key : Option Str)
    (C : Channel) (u : User) : Prop :=
  let out := step cfg w (.line c line)
  let R : C07.Spec.Request := ⟨C, ch, key, cn.source, u.invitedTo⟩
  let ok := C07.Spec.admit R = .ok () ∧ C07.Spec.quotaOk cfg u.channels.length = true
  let jl := C07.joinLine cn.source ch
  ((∃ C', Map.lookup ch out.w.channels = some C' ∧ Map.contains n C'.users = true) ↔ ok) ∧
  out.events = [] ∧
  (¬ ok →
    out.w = bumpCount w CmdId.JOIN.index ∧
    out.outs = (joinErrs cfg R n u.channels.length).map (fun e => (c, C07.srvLine cfg e)) ∧
    joinErrs cfg R n u.channels.length ≠ []) ∧
  (ok →
    out.w = { bumpCount w CmdId.JOIN.index with
              users := Map.modify n (C07.userJoined ch) w.users
              channels := Map.insert ch (C.addUser n) w.channels } ∧
    (∃ burst : List Str, out.outs = (jl :: burst).map (fun l => (c, l)) ++
      (Map.keys C.users).map (fun m => (C01.Spec.ownerOf w m, jl))) ∧
    ((Map.keys C.users).map (C01.Spec.ownerOf w)).Nodup ∧
    (∀ m ∈ Map.keys C.users,
      C01.Spec.ownerOf w m ≠ c ∧ out.outs.count (C01.Spec.ownerOf w m, jl) = 1) ∧
    (c, jl) ∈ out.outs)

theorem joinLine_eq (src ch : Str) : C07.joinLine src ch = str ":" ++ src ++ str " JOIN " ++ ch := rfl

/-- **General form**: ANY line that parses to a JOIN of the single channel `ch` (with the single
    key `key`, if any). -/
theorem join_wire_of_parsed (cfg : Cfg) {w : World} {c : Nat} {cn : Conn} {n : Str}
    (h : Client w c cn n) {line ch : Str} (key : Option Str) {msg : Message}
    (hp : Message.parse line = .ok msg)
    (hcmd : Command.fromMessage msg = .ok (.JOIN [ch] (key.map (fun k => [k]))))
    {C : Channel} {u : User} (hC : Map.lookup ch w.channels = some C)
    (hu : Map.lookup n w.users = some u) (hnm : Map.contains n C.users = false) :
    JoinWire cfg w c cn n line ch key C u := by
  obtain ⟨hA, hB⟩ := join_step cfg h key hp hcmd hC hu hnm
  have hnk : n ∉ Map.keys C.users := fun hk => by
    have := (Map.contains_iff _ _).mpr ((Map.mem_keys_iff _ _).mp hk)
    rw [hnm] at this; cases this
  obtain ⟨_, _, o3, o4⟩ := others_facts h hC
  rw [C07.filter_ne_of_not_mem n _ hnk] at o3 o4
  simp only [JoinWire]
  refine ⟨?_, ?_, ?_, ?_⟩
  · constructor
    · rintro ⟨C', hC', hm⟩
      apply Classical.byContradiction
      intro hno
      rw [(hB hno).1] at hC'
      have : Map.lookup ch w.channels = some C' := hC'
      rw [hC] at this; cases this
      rw [hnm] at hm; cases hm
    · intro hok
      rw [(hA hok).1]
      exact ⟨C.addUser n, Map.lookup_insert_eq _ _ _, (C07.addUser_effect C n).1⟩
  · by_cases hok : C07.Spec.admit ⟨C, ch, key, cn.source, u.invitedTo⟩ = .ok () ∧
        C07.Spec.quotaOk cfg u.channels.length = true
    · exact (hA hok).2.1
    · exact (hB hok).2.1
  · intro hno
    exact ⟨(hB hno).1, (hB hno).2.2, joinErrs_ne_nil cfg _ n _ hno⟩
  · intro hok
    obtain ⟨a1, _, burst, a3⟩ := hA hok
    have a3' : (step cfg w (.line c line)).outs =
        (C07.joinLine cn.source ch :: burst).map (fun l => (c, l)) ++
        (Map.keys C.users).map (fun m => (C01.Spec.ownerOf w m, C07.joinLine cn.source ch)) := by
      rw [a3]; rfl
    refine ⟨a1, ⟨burst, a3'⟩, o3, fun m hm => ⟨o4 m hm, ?_⟩, ?_⟩
    · rw [a3']
      exact count_delivery c _ _ _ _ o3 o4 m hm
    · rw [a3']; simp

/-- **`join_wire`** — `JOIN ch` / `JOIN ch key` (verb in any letter case) by a non-member of the
    existing channel `ch`, see `JoinWire`. -/
theorem join_wire (cfg : Cfg) {w : World} {c : Nat} {cn : Conn} {n : Str} (h : Client w c cn n)
    {v ch : Str} (hv : Verb v (str "JOIN")) (hch : WfChan ch) (key : Option Str)
    (hk : ∀ k, key = some k → WfKey k) {C : Channel} {u : User}
    (hC : Map.lookup ch w.channels = some C) (hu : Map.lookup n w.users = some u)
    (hnm : Map.contains n C.users = false) :
    JoinWire cfg w c cn n (joinText v ch key) ch key C u := by
  cases key with
  | none => exact join_wire_of_parsed cfg h none (parse_join hv hch) (cmd_join hv hch none) hC hu hnm
  | some k =>
    exact join_wire_of_parsed cfg h (some k) (parse_joinKey hv hch (hk k rfl))
      (cmd_joinKey hv hch (hk k rfl) none) hC hu hnm

/-- instance (demo world): bob, not on `#c` (+k sesame), joins with the right key — accepted … -/
example : Client Demo.w0 2 Demo.bobConn Demo.bob := Demo.bobClient
example : Verb (str "join") (str "JOIN") ∧ WfChan Demo.chan ∧ WfKey (str "sesame") ∧
    Map.lookup Demo.chan Demo.w0.channels = some Demo.chanC ∧
    Map.lookup Demo.bob Demo.w0.users = some Demo.bobUser ∧
    Map.contains Demo.bob Demo.chanC.users = false ∧
    C07.Spec.admit ⟨Demo.chanC, Demo.chan, some (str "sesame"), Demo.bobConn.source,
      Demo.bobUser.invitedTo⟩ = .ok () ∧
    C07.Spec.quotaOk Demo.cfg Demo.bobUser.channels.length = true ∧
    joinText (str "join") Demo.chan (some (str "sesame")) = Demo.joinText := by decide
/-- … and with a wrong key or none — refused with 475, world untouched but for the counter -/
example : C07.Spec.admit ⟨Demo.chanC, Demo.chan, some (str "wrong"), Demo.bobConn.source,
      Demo.bobUser.invitedTo⟩ = .error .badKey ∧
    (step Demo.cfg Demo.w0 (.line 2 (joinText (str "JOIN") Demo.chan (some (str "wrong"))))).outs =
      [(2, (str ":irc.irc " ++ Reply.ErrBadChannelKey475 (client := str "bob") (channel := str "#c")))] ∧
    (step Demo.cfg Demo.w0 (.line 2 (joinText (str "JOIN") Demo.chan none))).outs =
      [(2, (str ":irc.irc " ++ Reply.ErrBadChannelKey475 (client := str "bob") (channel := str "#c")))] ∧
    (step Demo.cfg Demo.w0 (.line 2 (joinText (str "JOIN") Demo.chan none))).w.channels =
      Demo.w0.channels := by decide

/-! ### the registration gate -/

theorem line451_eq (cfg : Cfg) (cn : Conn) :
    C03.line451 cfg.name cn =
      str ":" ++ cfg.name ++ str " " ++ ErrNotRegistered451 cn.clientName := rfl

/-- **`unregistered_wire`** (from `C03.gate`) — on a live connection that has NOT completed
    registration, every line that parses to a command outside CAP / AUTHENTICATE / PASS / NICK /
    USER / QUIT yields exactly one 451 line to `c` and changes nothing but the command counter;
    nothing is closed. -/
theorem unregistered_wire (cfg : Cfg) {w : World} {c : Nat} {cn : Conn} (hI : Inv w)
    (hc : w.conn? c = some cn) (ha : cn.authenticated = false) {line : Str} {msg : Message}
    {cmd : Command} (hp : Message.parse line = .ok msg) (hcmd : Command.fromMessage msg = .ok cmd)
    (hg : allowedUnregistered cmd = false) :
    step cfg w (.line c line) =
      { w := bumpCount w cmd.id.index, outs := [(c, C03.line451 cfg.name cn)], events := [] } :=
  gate_step cfg hI hc ha hp hcmd hg

/-- … in particular each canonical client line of section 1 other than NICK: JOIN (with or
    without key), PRIVMSG, NOTICE, KICK, TOPIC, OPER, PART. -/
theorem unregistered_wire_canonical (cfg : Cfg) {w : World} {c : Nat} {cn : Conn} (hI : Inv w)
    (hc : w.conn? c = some cn) (ha : cn.authenticated = false) {line : Str} {msg : Message}
    {cmd : Command} (hcan : Canonical line msg cmd) (hnn : ∀ new, cmd ≠ .NICK new) :
    step cfg w (.line c line) =
      { w := bumpCount w cmd.id.index, outs := [(c, C03.line451 cfg.name cn)], events := [] } := by
  obtain ⟨hp, hcmd⟩ := canonical_parses hcan
  refine unregistered_wire cfg hI hc ha hp hcmd ?_
  cases hcan <;> first | rfl | exact absurd rfl (hnn _)

/-- instance: connection 2 of the demo run after its `nick bob` only (no USER yet) -/
def Demo.wU : World := run Demo.cfg (Demo.evs.take 5)
example : Inv Demo.wU := inv_run (by decide)
example : ((Demo.wU.conn? 2).map (·.authenticated)) = some false := by decide
example : (step Demo.cfg Demo.wU (.line 2 (lineJoin (str "JOIN") Demo.chan))).outs =
      [(2, (str ":irc.irc " ++ Reply.ErrNotRegistered451 (client := str "bob")))] ∧
    (step Demo.cfg Demo.wU (.line 2 (linePrivmsg (str "privmsg") Demo.chan Demo.text))).outs =
      [(2, (str ":irc.irc " ++ Reply.ErrNotRegistered451 (client := str "bob")))] ∧
    (step Demo.cfg Demo.wU (.line 2 (lineJoin (str "JOIN") Demo.chan))).w.users = Demo.wU.users := by
  decide

/-! ### NICK -/

/-- **`nick_wire`** — `NICK new` (valid, different from the current nick) by a registered user
    with record `u`:
    * `new` free: the identity moves (`C15.IdentityMoved`: the old key is gone, the new key holds
      the same record up to `source`, channel memberships / ranks / WALLOPS / history follow, the
      connection carries the new nick); nothing is closed; the output is the line
      `":" ++ old source ++ " " ++ v ++ " " ++ new` (the verb as the client wrote it) once to every
      user of the new world, the renamed user included;
    * `new` taken: exactly one 433 to `c`, the world unchanged except for the command counter. -/
theorem nick_wire (cfg : Cfg) {w : World} {c : Nat} {cn : Conn} {n : Str} (h : Client w c cn n)
    {v new : Str} (hv : Verb v (str "NICK")) (hnew : WfNick new) (hne : new ≠ n) {u : User}
    (hu : Map.lookup n w.users = some u) :
    (Map.lookup new w.users = none →
      C15.IdentityMoved n new u (C15.sourceOf new cn.name cn.hostname) c
        (bumpCount w CmdId.NICK.index) (step cfg w (.line c (lineNick v new))).w ∧
      Map.lookup n (step cfg w (.line c (lineNick v new))).w.users = none ∧
      Map.lookup new (step cfg w (.line c (lineNick v new))).w.users =
        some { u with source := C15.sourceOf new cn.name cn.hostname } ∧
      (step cfg w (.line c (lineNick v new))).events = [] ∧
      (step cfg w (.line c (lineNick v new))).outs =
        (Map.keys (step cfg w (.line c (lineNick v new))).w.users).map (fun m =>
          (ownerOf (step cfg w (.line c (lineNick v new))).w m,
            str ":" ++ cn.source ++ str " " ++ v ++ str " " ++ new)) ∧
      (Map.keys (step cfg w (.line c (lineNick v new))).w.users).Nodup) ∧
    ((∃ o, Map.lookup new w.users = some o) →
      (step cfg w (.line c (lineNick v new))).w = bumpCount w CmdId.NICK.index ∧
      (step cfg w (.line c (lineNick v new))).events = [] ∧
      (step cfg w (.line c (lineNick v new))).outs =
        [(c, str ":" ++ cfg.name ++ str " 433 " ++ n ++ str " " ++ new ++
          str " :Nickname is already in use")]) := by
  obtain ⟨hA, hB⟩ := nick_step cfg h (parse_nick hv hnew) (cmd_nick hv hnew none) hnew hne hu
  constructor
  · intro hfree
    obtain ⟨a1, a2, a3, a4⟩ := hA ((Map.contains_false_iff _ _).mpr hfree)
    refine ⟨a1, a1.old_free, a1.new_user, a2, ?_, a4⟩
    rw [a3]
    apply List.map_congr_left
    intro m _
    simp [str]
  · intro hused
    exact hB ((Map.contains_iff _ _).mpr hused)

/-- instance (demo world after bob's JOIN): alice renames to `carol`, bob tries `alice` -/
example : Verb (str "nick") (str "NICK") ∧ WfNick (str "carol") ∧ str "carol" ≠ Demo.alice ∧
    Map.lookup (str "carol") Demo.w1.users = none := by decide
example : (step Demo.cfg Demo.w1 (.line 1 (lineNick (str "nick") (str "carol")))).outs =
      [(2, str ":alice!~alice@10.0.0.1 nick carol"), (1, str ":alice!~alice@10.0.0.1 nick carol")] ∧
    Map.keys (step Demo.cfg Demo.w1 (.line 1 (lineNick (str "nick") (str "carol")))).w.users =
      [str "bob", str "carol"] := by decide
example : (step Demo.cfg Demo.w1 (.line 2 (lineNick (str "NICK") Demo.alice))).outs =
    [(2, (str ":irc.irc " ++ Reply.ErrNicknameInUse433 (client := str "bob") (nick := str "alice")))] := by decide

/-! ### KICK -/

theorem kickLine_eq (src ch v comment : Str) :
    kickLine src ch v comment =
      str ":" ++ src ++ str " KICK " ++ ch ++ str " " ++ v ++ str " :" ++ comment := rfl

/-- **`kick_wire`** — `KICK ch victim :comment` (single victim, any comment) on an existing
    channel `ch` (= `C` in `w`).  With `ok` = "the issuer `n` is a member with flags `chum`, the
    victim is a member with flags `vm`, and `kickable chum vm`" (`kickable` = issuer ranked
    half-operator or above, victim neither founder nor protected, a mere half-operator cannot
    remove half-operators or above):
    * the victim is removed (was a member, is none afterwards) iff `ok`; nothing is closed;
    * `ok`: the world is `w` after `remove_user_from_channel ch victim`: the channel loses the
      victim's member entry and rank-list entries and nothing else (it disappears only if the
      victim was its only member and it is not preconfigured), other channels are untouched, the
      victim's own channel list loses `ch`, every other user is untouched; the output is the line
      `":" ++ source ++ " KICK " ++ ch ++ " " ++ victim ++ " :" ++ comment` once to every remaining
      member (in member order) and then to the victim;
    * not `ok`: the world is unchanged except for the command counter and the output is exactly
      one error line to `c` (`kickErr`: 442 / 482 / 441 / 972). -/
theorem kick_wire (cfg : Cfg) {w : World} {c : Nat} {cn : Conn} {n : Str} (h : Client w c cn n)
    {v ch victim : Str} (hv : Verb v (str "KICK")) (hch : WfChan ch) (hvic : WfNick victim)
    (comment : Str) {C : Channel} (hC : Map.lookup ch w.channels = some C) :
    (((∃ vm, Map.lookup victim C.users = some vm) ∧
        ∀ C', Map.lookup ch (step cfg w (.line c (lineKick v ch victim comment))).w.channels =
          some C' → Map.lookup victim C'.users = none) ↔
      ∃ chum vm, Map.lookup n C.users = some chum ∧ Map.lookup victim C.users = some vm ∧
        kickable chum vm = true) ∧
    (step cfg w (.line c (lineKick v ch victim comment))).events = [] ∧
    ((∃ chum vm, Map.lookup n C.users = some chum ∧ Map.lookup victim C.users = some vm ∧
        kickable chum vm = true) →
      (step cfg w (.line c (lineKick v ch victim comment))).w =
        (bumpCount w CmdId.KICK.index).removeUserFromChannel ch victim ∧
      (step cfg w (.line c (lineKick v ch victim comment))).outs =
        ((Map.keys C.users).filter (· != victim) ++ [victim]).map (fun m =>
          (C01.Spec.ownerOf w m, kickLine cn.source ch victim comment)) ∧
      (∀ C', Map.lookup ch (step cfg w (.line c (lineKick v ch victim comment))).w.channels =
          some C' →
        C' = Tear.chanWithout C victim ∧ Map.lookup victim C'.users = none ∧
        KSet.mem victim C'.modes.founders = false ∧ KSet.mem victim C'.modes.protecteds = false ∧
        KSet.mem victim C'.modes.operators = false ∧
        KSet.mem victim C'.modes.halfOperators = false ∧ KSet.mem victim C'.modes.voices = false ∧
        Tear.ChanSameExcept victim C C') ∧
      (Map.lookup ch (step cfg w (.line c (lineKick v ch victim comment))).w.channels = none →
        C.preconfigured = false ∧ ∀ m, Map.contains m C.users = true → m = victim) ∧
      (∀ ch', ch' ≠ ch →
        Map.lookup ch' (step cfg w (.line c (lineKick v ch victim comment))).w.channels =
          Map.lookup ch' w.channels) ∧
      (∀ m, Map.lookup m (step cfg w (.line c (lineKick v ch victim comment))).w.users =
        if victim = m then (Map.lookup m w.users).map
          (fun u => { u with channels := KSet.erase ch u.channels })
        else Map.lookup m w.users) ∧
      (step cfg w (.line c (lineKick v ch victim comment))).w.conns = w.conns) ∧
    ((¬ ∃ chum vm, Map.lookup n C.users = some chum ∧ Map.lookup victim C.users = some vm ∧
        kickable chum vm = true) →
      (step cfg w (.line c (lineKick v ch victim comment))).w = bumpCount w CmdId.KICK.index ∧
      (step cfg w (.line c (lineKick v ch victim comment))).outs =
        [(c, C07.srvLine cfg (kickErr n ch victim n C))]) := by
  obtain ⟨hA, hB⟩ := kick_step cfg h (parse_kick hv hch hvic comment)
    (cmd_kick hv hch hvic none comment) hC
  have hCb : Map.lookup ch (bumpCount w CmdId.KICK.index).channels = some C := hC
  refine ⟨?_, ?_, ?_, fun hno => ⟨(hB hno).1, (hB hno).2.2⟩⟩
  · constructor
    · rintro ⟨⟨vm, hvm⟩, hgone⟩
      apply Classical.byContradiction
      intro hno
      have := hgone C (by rw [(hB hno).1]; exact hC)
      rw [hvm] at this; cases this
    · rintro ⟨chum, vm, ha, hvm, hk⟩
      refine ⟨⟨vm, hvm⟩, fun C' hC' => ?_⟩
      rw [(hA ⟨chum, vm, ha, hvm, hk⟩).1] at hC'
      have := (rufc_effect _ ch victim C hCb ((Map.contains_iff _ _).mpr ⟨vm, hvm⟩)).1 C' hC'
      rw [this]
      exact (chanWithout_effect C victim).1
  · by_cases hok : ∃ chum vm, Map.lookup n C.users = some chum ∧
        Map.lookup victim C.users = some vm ∧ kickable chum vm = true
    · exact (hA hok).2.1
    · exact (hB hok).2.1
  · rintro ⟨chum, vm, ha, hvm, hk⟩
    obtain ⟨a1, _, a3⟩ := hA ⟨chum, vm, ha, hvm, hk⟩
    obtain ⟨r1, r2, r3, r4, r5, _⟩ :=
      rufc_effect (bumpCount w CmdId.KICK.index) ch victim C hCb
        ((Map.contains_iff _ _).mpr ⟨vm, hvm⟩)
    rw [a1]
    refine ⟨rfl, a3, fun C' hC' => ?_, r2, r3, r4, r5⟩
    have e := r1 C' hC'
    subst e
    exact ⟨rfl, chanWithout_effect C victim⟩

/-- instance (demo world after bob's JOIN): alice (founder, operator) kicks bob; bob (no rank)
    cannot kick alice (482), and an absent victim gives 441 -/
example : (∃ chum vm, Map.lookup Demo.alice Demo.chanC1.users = some chum ∧
    Map.lookup Demo.bob Demo.chanC1.users = some vm ∧ kickable chum vm = true) :=
  ⟨{ founder := true, operator := true }, {}, by decide, by decide, by decide⟩
example : (step Demo.cfg Demo.w1 (.line 1 (lineKick (str "kick") Demo.chan Demo.bob (str "out: now ")))).outs =
      [(1, str ":alice!~alice@10.0.0.1 KICK #c bob :out: now "),
       (2, str ":alice!~alice@10.0.0.1 KICK #c bob :out: now ")] ∧
    ((Map.lookup Demo.chan (step Demo.cfg Demo.w1 (.line 1
      (lineKick (str "kick") Demo.chan Demo.bob (str "out: now ")))).w.channels).map
        (fun C => Map.keys C.users)) = some [str "alice"] := by decide
example : (step Demo.cfg Demo.w1 (.line 2 (lineKick (str "KICK") Demo.chan Demo.alice (str "x")))).outs =
      [(2, (str ":irc.irc " ++ Reply.ErrChanOpPrivsNeeded482 (client := str "bob") (channel := str "#c")))] ∧
    (step Demo.cfg Demo.w1 (.line 1 (lineKick (str "KICK") Demo.chan (str "zed") (str "x")))).outs =
      [(1, (str ":irc.irc " ++ Reply.ErrUserNotInChannel441 (client := str "alice") (nick := str "zed") (channel := str "#c")))] := by decide

/-! ### OPER -/

/-- **`oper_wire`** — `OPER name pw` by a registered user with record `u`: the user holds `+o`
    afterwards iff it held it before or `C11.OperGranted` (configured operator of that name, its
    password, its mask matching the source as a glob).  Granted: one 381 line to `c`, the own
    entry becomes `u` with `oper := true`; refused: one 464 (wrong password) or 491 line to `c`
    and the world is unchanged except for the command counter.  In both cases nothing is closed,
    nothing is sent to anybody else, no other user, no channel and no connection changes. -/
theorem oper_wire (cfg : Cfg) {w : World} {c : Nat} {cn : Conn} {n : Str} (h : Client w c cn n)
    {v name pw : Str} (hv : Verb v (str "OPER")) (hname : WfNick name) (hpw : WfWord pw) {u : User}
    (hu : Map.lookup n w.users = some u) :
    (C11.operOf (step cfg w (.line c (lineOper v name pw))).w n = true ↔
      (u.modes.oper = true ∨ C11.OperGranted cfg cn.source name pw)) ∧
    (step cfg w (.line c (lineOper v name pw))).events = [] ∧
    (C11.OperGranted cfg cn.source name pw →
      (step cfg w (.line c (lineOper v name pw))).outs =
        [(c, str ":" ++ cfg.name ++ str " " ++ RplYoureOper381 n)] ∧
      Map.lookup n (step cfg w (.line c (lineOper v name pw))).w.users =
        some { u with modes := { u.modes with oper := true } }) ∧
    (¬ C11.OperGranted cfg cn.source name pw →
      (step cfg w (.line c (lineOper v name pw))).w = bumpCount w CmdId.OPER.index ∧
      (step cfg w (.line c (lineOper v name pw))).outs = [(c, str ":" ++ cfg.name ++ str " " ++
        (if (∃ op, cfg.findOper name = some op ∧ cfg.pwOk pw op.password = false)
         then ErrPasswdMismatch464 n else ErrNoOperHost491 n))]) ∧
    (∀ m, m ≠ n →
      Map.lookup m (step cfg w (.line c (lineOper v name pw))).w.users = Map.lookup m w.users) ∧
    (step cfg w (.line c (lineOper v name pw))).w.channels = w.channels ∧
    (step cfg w (.line c (lineOper v name pw))).w.conns = w.conns := by
  obtain ⟨s1, s2, s3, s4, s5, s6, s7⟩ :=
    oper_step cfg h (parse_oper hv hname hpw) (cmd_oper hv hname none) hu
  refine ⟨s4, s1, fun hg => ?_, fun hg => ?_, s5, s6, s7⟩
  · obtain ⟨a, b⟩ := s2 hg
    exact ⟨by rw [a]; simp [str], b⟩
  · obtain ⟨a, b⟩ := s3 hg
    exact ⟨a, by rw [b]; simp [str]⟩

/-- instance: a configuration with one operator whose mask is `*!*@10.*`; alice and bob as in
    the demo run -/
def Demo.cfgO : Cfg :=
  { operators := [{ name := str "root", password := str "pw", mask := some (str "*!*@10.*") }] }
def Demo.wO : World := run Demo.cfgO (Demo.evs.take 6)
example : Inv Demo.wO := inv_run (by decide)
example : C11.OperGranted Demo.cfgO (str "alice!~alice@10.0.0.1") (str "root") (str "pw") :=
  ⟨_, rfl, by decide, Or.inr ⟨_, rfl, by decide⟩⟩
example : (step Demo.cfgO Demo.wO (.line 1 (lineOper (str "oper") (str "root") (str "pw")))).outs =
      [(1, (str ":irc.irc " ++ Reply.RplYoureOper381 (client := str "alice")))] ∧
    C11.operOf (step Demo.cfgO Demo.wO (.line 1 (lineOper (str "oper") (str "root") (str "pw")))).w
      (str "alice") = true ∧
    (step Demo.cfgO Demo.wO (.line 1 (lineOper (str "OPER") (str "root") (str "no")))).outs =
      [(1, (str ":irc.irc " ++ Reply.ErrPasswdMismatch464 (client := str "alice")))] ∧
    (step Demo.cfgO Demo.wO (.line 1 (lineOper (str "OPER") (str "toor") (str "pw")))).outs =
      [(1, (str ":irc.irc " ++ Reply.ErrNoOperHost491 (client := str "alice")))] := by decide

/-! ## 4. reachable worlds -/

/-- in a reachable world every live, authenticated connection with a nick is a `Client` -/
theorem Client.ofReachable {cfg : Cfg} {w : World} {c : Nat} {cn : Conn} {n : Str}
    (hr : Reachable cfg w) (hc : w.conn? c = some cn) (ha : cn.authenticated = true)
    (hn : cn.nick = some n) : Client w c cn n := ⟨inv_reachable hr, hc, ha, hn⟩

/-- a `line` event is always schedulable: the world after it is reachable again, so the
    theorems of this file apply to it in turn -/
theorem reachable_line {cfg : Cfg} {w : World} (hr : Reachable cfg w) (c : Nat) (line : Str) :
    Reachable cfg (step cfg w (.line c line)).w := hr.step trivial

/-- **`join_wire_reachable`** — `join_wire` for every state the server can reach (from
    `World.init cfg` by any well-scheduled sequence of events), via `inv_reachable`. -/
theorem join_wire_reachable {cfg : Cfg} {w : World} (hr : Reachable cfg w) {c : Nat} {cn : Conn}
    {n : Str} (hc : w.conn? c = some cn) (ha : cn.authenticated = true) (hn : cn.nick = some n)
    {v ch : Str} (hv : Verb v (str "JOIN")) (hch : WfChan ch) (key : Option Str)
    (hk : ∀ k, key = some k → WfKey k) {C : Channel} {u : User}
    (hC : Map.lookup ch w.channels = some C) (hu : Map.lookup n w.users = some u)
    (hnm : Map.contains n C.users = false) :
    JoinWire cfg w c cn n (joinText v ch key) ch key C u ∧
    Reachable cfg (step cfg w (.line c (joinText v ch key))).w :=
  ⟨join_wire cfg (Client.ofReachable hr hc ha hn) hv hch key hk hC hu hnm, reachable_line hr _ _⟩

/-- **`privmsg_wire_reachable`** — `privmsg_wire` (with the receiver side) for every reachable
    state. -/
theorem privmsg_wire_reachable {cfg : Cfg} {w : World} (hr : Reachable cfg w) {c : Nat}
    {cn : Conn} {n : Str} (hc : w.conn? c = some cn) (ha : cn.authenticated = true)
    (hn : cn.nick = some n) {v ch : Str} (hv : Verb v (str "PRIVMSG")) (hch : WfMsgChan ch)
    (text : Str) {C : Channel} (hC : Map.lookup ch w.channels = some C) :
    MsgWire cfg false w c cn n (linePrivmsg v ch text) ch text C ∧
    (C13.wellFormedSource cn.source = true → C10.Spec.maySpeak C n cn.source →
      ∀ e ∈ (step cfg w (.line c (linePrivmsg v ch text))).outs,
        Message.parse e.2 = .ok ⟨some cn.source, str "PRIVMSG", [ch, text]⟩) ∧
    Reachable cfg (step cfg w (.line c (linePrivmsg v ch text))).w := by
  have hW := privmsg_wire cfg (Client.ofReachable hr hc ha hn) hv hch text hC
  exact ⟨hW, fun hs hsp e he => (privmsg_wire_received cfg false hW hch hs hsp e he).1,
    reachable_line hr _ _⟩

/-! ### the concrete run: every hypothesis is satisfiable end to end

`Demo.evs`: alice and bob register through their NICK / USER lines (`nick bob` in lower case),
alice creates `#c` and sets `+k sesame`.  Then bob joins with the key and alice's PRIVMSG is
delivered to him.  Everything below is checked by `decide` (kernel evaluation of `run`/`step`). -/

/-- the run is well scheduled, so its worlds are reachable -/
example : SchedAll Demo.cfg Demo.evs := Demo.sched
example : Reachable Demo.cfg Demo.w0 ∧ Reachable Demo.cfg Demo.w1 := ⟨Demo.reach0, Demo.reach1⟩

/-- the state after the eight events: both users registered, alice alone on `#c` (+k) -/
example : Map.keys Demo.w0.users = [str "alice", str "bob"] ∧
    Demo.w0.conns.map (·.id) = [1, 2] ∧
    Demo.chanC.modes.key = some (str "sesame") ∧ Map.keys Demo.chanC.users = [str "alice"] ∧
    Demo.w0.panicked = none := by decide

/-- hypotheses of `join_wire_reachable` for bob's `join #c sesame` -/
example : Demo.w0.conn? 2 = some Demo.bobConn ∧ Demo.bobConn.authenticated = true ∧
    Demo.bobConn.nick = some Demo.bob ∧ Verb (str "join") (str "JOIN") ∧ WfChan Demo.chan ∧
    WfKey (str "sesame") ∧ Map.lookup Demo.chan Demo.w0.channels = some Demo.chanC ∧
    Map.lookup Demo.bob Demo.w0.users = some Demo.bobUser ∧
    Map.contains Demo.bob Demo.chanC.users = false := by decide

/-- … its conclusion, instantiated -/
example : JoinWire Demo.cfg Demo.w0 2 Demo.bobConn Demo.bob
    (joinText (str "join") Demo.chan (some (str "sesame"))) Demo.chan
    (some (str "sesame")) Demo.chanC Demo.bobUser :=
  (join_wire_reachable Demo.reach0 (by decide) (by decide) (by decide) (by decide) (by decide) _
    (by intro k hk; cases hk; decide) (by decide) (by decide) (by decide)).1

/-- … and what it says here: bob is admitted, gets the JOIN line and the NAMES burst, alice
    (connection 1) gets the JOIN line once -/
example : (step Demo.cfg Demo.w0 (.line 2 (joinText (str "join") Demo.chan (some (str "sesame"))))).outs =
      [(2, str ":bob!~bob@10.0.0.2 JOIN #c"),
       (2, str ":irc.irc 353 bob = #c :~alice bob"),
       (2, (str ":irc.irc " ++ Reply.RplEndOfNames366 (client := str "bob") (channel := str "#c"))),
       (1, str ":bob!~bob@10.0.0.2 JOIN #c")] ∧
    Map.keys Demo.chanC1.users = [str "alice", str "bob"] := by decide

/-- hypotheses of `privmsg_wire_reachable` for alice's PRIVMSG in the resulting world -/
example : Demo.w1.conn? 1 = some Demo.aliceConn ∧ Demo.aliceConn.authenticated = true ∧
    Demo.aliceConn.nick = some Demo.alice ∧ WfMsgChan Demo.chan ∧
    Map.lookup Demo.chan Demo.w1.channels = some Demo.chanC1 ∧
    C13.wellFormedSource Demo.aliceConn.source = true ∧
    canSend Demo.chanC1 Demo.alice Demo.aliceConn.source = true := by decide

/-- … its conclusion: exactly one line, to bob's connection, which re-parses to alice's source,
    `PRIVMSG`, `#c` and the text exactly as sent -/
example : (step Demo.cfg Demo.w1 (.line 1 (linePrivmsg (str "PRIVMSG") Demo.chan Demo.text))).outs =
      [(2, str ":alice!~alice@10.0.0.1 PRIVMSG #c ::-) hello  there: all")] ∧
    Message.parse (str ":alice!~alice@10.0.0.1 PRIVMSG #c ::-) hello  there: all") =
      .ok ⟨some (str "alice!~alice@10.0.0.1"), str "PRIVMSG", [str "#c", Demo.text]⟩ := by decide

end Irc.Wire
