/-
  C19 — "LUSERS reports the actual numbers of registered users, invisible users, operators and
  channels and a maximum that is the true high-water mark; ISON and USERHOST list exactly the queried
  nicknames that are currently registered, with correct operator and away flags.  With
  max_connections configured never more than that many connections are served at once, and every
  connection that ends - however it ends - frees its slot."

  Helper lemmas: Irc/Props/InvPropsLemmas.lean.
-/
import Irc.Props.InvPropsLemmas

namespace Irc.C19
open Irc Reply

/-! ### LUSERS -/

/-- the ground truth, counted from the user and channel tables -/
def Spec.users (w : World) : Nat := w.users.length
def Spec.invisible (w : World) : Nat := (w.users.filter (fun p => p.2.modes.invisible)).length
def Spec.visible (w : World) : Nat := (w.users.filter (fun p => !p.2.modes.invisible)).length
def Spec.operators (w : World) : Nat := (w.users.filter (fun p => p.2.modes.oper || p.2.modes.localOper)).length
def Spec.channels (w : World) : Nat := w.channels.length

/-- the initial world has no users -/
theorem init_no_users (cfg : Cfg) : (World.init cfg).users = [] := rfl

theorem Spec.visible_add_invisible (w : World) : Spec.visible w + Spec.invisible w = Spec.users w :=
  IP.filter_partition_length (fun p : Str × User => p.2.modes.invisible) w.users

/-- the user table has one entry per nickname, so its length is the number of registered users -/
theorem users_counted_once {w : World} (h : InvCore w) : (Map.keys w.users).Nodup ∧
    (Map.keys w.users).length = Spec.users w ∧ (Map.keys w.channels).Nodup ∧
    (Map.keys w.channels).length = Spec.channels w :=
  ⟨h.usersNodup, by simp [Map.keys, Spec.users], h.chansNodup, by simp [Map.keys, Spec.channels]⟩

/-- the counters the server keeps are the true counts -/
theorem counters_true {w : World} (h : InvCore w) :
    w.invisibleCount = Spec.invisible w ∧ w.operatorsCount = Spec.operators w ∧
    Spec.users w - w.invisibleCount = Spec.visible w ∧ Spec.users w ≤ w.maxUsers := by
  have hop : w.operatorsCount = Spec.operators w := by
    rw [h.operatorsCount]
    unfold Spec.operators
    congr 2
    funext p
    simp only [UserModes.isLocalOper, Bool.or_comm]
  refine ⟨h.invisibleCount, hop, ?_, h.maxUsers⟩
  have := Spec.visible_add_invisible w
  rw [h.invisibleCount]
  unfold Spec.invisible at *
  omega

/-- **LUSERS tells the truth.**  In every world satisfying the invariant the seven reply lines carry:
    251 the number of visible and of invisible users, 252 the number of operators (global or local),
    253 zero unknown connections, 254 the number of channels, 255 the number of users, 265/266 the
    number of users and the stored maximum, which is at least the number of users.  The world is not
    changed (in particular the checked subtraction does not underflow). -/
theorem lusers_true {cfg : Cfg} {client : Str} {x : Ctx} (h : InvCore x.w) :
    (processLusers cfg client x).direct = x.direct ++
      [ srvLine cfg (RplLUserClient251 client (Spec.visible x.w) (Spec.invisible x.w) 1),
        srvLine cfg (RplLUserOp252 client (Spec.operators x.w)),
        srvLine cfg (RplLUserUnknown253 client 0),
        srvLine cfg (RplLUserChannels254 client (Spec.channels x.w)),
        srvLine cfg (RplLUserMe255 client (Spec.users x.w) 1),
        srvLine cfg (RplLocalUsers265 client (Spec.users x.w) x.w.maxUsers),
        srvLine cfg (RplGlobalUsers266 client (Spec.users x.w) x.w.maxUsers) ] ∧
    Spec.users x.w ≤ x.w.maxUsers ∧
    (processLusers cfg client x).w = x.w := by
  obtain ⟨c1, c2, c3, c4⟩ := counters_true h
  refine ⟨?_, c4, processLusers_world_unchanged h⟩
  rw [lusers_output, ← c3, ← c2]
  rw [show Spec.invisible x.w = x.w.invisibleCount from c1.symm]
  rfl

/-! ### the maximum -/

/-- the largest number of simultaneously registered users seen along a run that starts in `w` -/
def highWaterFrom (cfg : Cfg) : World → List Event → Nat
  | w, [] => w.users.length
  | w, e :: es => max w.users.length (highWaterFrom cfg (step cfg w e).w es)

/-- the high-water mark of a run from the initial world (a ghost quantity: the server does not store
    the history) -/
def highWater (cfg : Cfg) (evs : List Event) : Nat := highWaterFrom cfg (World.init cfg) evs

/-- the maximum reported by LUSERS is never below the current number of users -/
theorem maxUsers_ge_users {w : World} (h : InvCore w) : Spec.users w ≤ w.maxUsers := h.maxUsers

/-- the stored maximum is a running maximum: after every operation it is the larger of its previous
    value and the new number of registered users (it only moves when a registration completes) -/
theorem maxUsers_running_max {cfg : Cfg} {w : World} (h : Inv w) {e : Event} (hs : Sched w e) :
    (step cfg w e).w.maxUsers = max w.maxUsers (Spec.users (step cfg w e).w) :=
  IP.step_maxUsers h hs

/-- no operation decreases the stored maximum -/
theorem maxUsers_monotone {cfg : Cfg} {w : World} (h : Inv w) {e : Event} (hs : Sched w e) :
    w.maxUsers ≤ (step cfg w e).w.maxUsers := by
  rw [maxUsers_running_max h hs]; exact Nat.le_max_left _ _

theorem highWaterFrom_ge (cfg : Cfg) (w : World) (evs : List Event) :
    w.users.length ≤ highWaterFrom cfg w evs := by
  cases evs with
  | nil => exact Nat.le_refl _
  | cons e es => exact Nat.le_max_left _ _

theorem maxUsers_from {cfg : Cfg} (evs : List Event) {w : World} (h : Inv w) (hs : SchedFrom cfg w evs) :
    (evs.foldl (fun w e => (step cfg w e).w) w).maxUsers = max w.maxUsers (highWaterFrom cfg w evs) := by
  induction evs generalizing w with
  | nil =>
    have := h.maxUsers
    show w.maxUsers = max w.maxUsers w.users.length
    omega
  | cons e es ih =>
    rw [List.foldl_cons, ih (inv_step h hs.1) hs.2, maxUsers_running_max h hs.1]
    have h1 := highWaterFrom_ge cfg (step cfg w e).w es
    have h2 := h.maxUsers
    show _ = max w.maxUsers (max w.users.length (highWaterFrom cfg (step cfg w e).w es))
    unfold Spec.users
    omega

/-- **the maximum reported by LUSERS is the true high-water mark**: in the state reached by any
    well-scheduled sequence of events, `maxUsers` equals the largest number of simultaneously
    registered users observed at any operation boundary of that run -/
theorem maxUsers_is_high_water {cfg : Cfg} {evs : List Event} (hs : SchedAll cfg evs) :
    (run cfg evs).maxUsers = highWater cfg evs := by
  have := maxUsers_from evs (inv_init cfg) hs
  unfold run highWater
  rw [this]
  exact Nat.max_eq_right (Nat.zero_le _)

/-! ### ISON / USERHOST -/

/-- the queried nicknames that are registered, in query order -/
def Spec.present (w : World) (nicks : List Str) : List Str :=
  nicks.filter (fun n => (Map.lookup n w.users).isSome)

/-- one USERHOST entry: `nick[*]=(+|-)~user@host`, `*` iff (local) operator, `-` iff away -/
def Spec.userhostEntry (n : Str) (u : User) : Str :=
  n ++ (if u.modes.oper || u.modes.localOper then str "*" else []) ++ str "=" ++
    (if u.away = none then str "+" else str "-") ++ str "~" ++ u.name ++ str "@" ++ u.hostname

/-- the entries for the queried nicknames that are registered, in query order -/
def Spec.userhostEntries (w : World) (nicks : List Str) : List Str :=
  nicks.filterMap (fun n => (Map.lookup n w.users).map (Spec.userhostEntry n))

theorem spec_userhostEntry_eq (n : Str) (u : User) : Spec.userhostEntry n u = Irc.userhostEntry n u := by
  unfold Spec.userhostEntry Irc.userhostEntry UserModes.isLocalOper
  rw [Bool.or_comm]
  cases u.away <;> rfl

theorem spec_userhostEntries_eq (w : World) (nicks : List Str) :
    Spec.userhostEntries w nicks = Irc.userhostEntries w.users nicks := by
  unfold Spec.userhostEntries Irc.userhostEntries
  congr 1
  funext n
  cases Map.lookup n w.users with
  | none => rfl
  | some u => simp [spec_userhostEntry_eq]

/-- **ISON.**  The reply consists of one 303 line per group of 20 queried nicknames; each lists exactly
    the registered ones of its group; over all lines exactly the queried registered nicknames are
    listed, in order.  The world is unchanged. -/
theorem ison_exact {cfg : Cfg} {c : Nat} {nicknames : List Str} {x : Ctx} :
    (processIson cfg c nicknames x).direct = x.direct ++
      (chunks 20 nicknames).map (fun nicks =>
        srvLine cfg (RplIson303 (x.conn c).clientName (Spec.present x.w nicks))) ∧
    ((chunks 20 nicknames).map (Spec.present x.w)).flatten = Spec.present x.w nicknames ∧
    (∀ n, n ∈ Spec.present x.w nicknames ↔ (n ∈ nicknames ∧ ∃ u, Map.lookup n x.w.users = some u)) ∧
    (processIson cfg c nicknames x).w = x.w := by
  refine ⟨ison_output_chunks, ison_listed x.w.users nicknames, ?_, processIson_world_unchanged⟩
  intro n
  simp only [Spec.present, List.mem_filter, Option.isSome_iff_exists]

/-- the usual case of at most 20 nicknames: a single 303 line -/
theorem ison_exact_one {cfg : Cfg} {c : Nat} {nicknames : List Str} {x : Ctx}
    (hne : nicknames ≠ []) (hlen : nicknames.length ≤ 20) :
    (processIson cfg c nicknames x).direct = x.direct ++
      [srvLine cfg (RplIson303 (x.conn c).clientName (Spec.present x.w nicknames))] :=
  ison_output hne hlen

/-- **USERHOST.**  One 302 line per group of 20 queried nicknames; over all lines exactly the entries
    of the queried registered nicknames, in order; an entry carries `*` iff the user is a (local)
    operator and `-` iff the user is away. -/
theorem userhost_exact {cfg : Cfg} {c : Nat} {nicknames : List Str} {x : Ctx} :
    (processUserhost cfg c nicknames x).direct = x.direct ++
      (chunks 20 nicknames).map (fun nicks =>
        srvLine cfg (RplUserHost302 (x.conn c).clientName (Spec.userhostEntries x.w nicks))) ∧
    ((chunks 20 nicknames).map (Spec.userhostEntries x.w)).flatten = Spec.userhostEntries x.w nicknames ∧
    (∀ e, e ∈ Spec.userhostEntries x.w nicknames ↔
      ∃ n u, n ∈ nicknames ∧ Map.lookup n x.w.users = some u ∧ e = Spec.userhostEntry n u) ∧
    (processUserhost cfg c nicknames x).w = x.w := by
  refine ⟨?_, ?_, ?_, processUserhost_world_unchanged⟩
  · rw [userhost_output_chunks]
    simp only [spec_userhostEntries_eq]
  · have e : Spec.userhostEntries x.w = Irc.userhostEntries x.w.users :=
      funext (spec_userhostEntries_eq x.w)
    rw [e]
    exact userhost_listed x.w.users nicknames
  · intro e
    rw [spec_userhostEntries_eq, mem_userhostEntries]
    simp only [spec_userhostEntry_eq]

theorem userhost_exact_one {cfg : Cfg} {c : Nat} {nicknames : List Str} {x : Ctx}
    (hne : nicknames ≠ []) (hlen : nicknames.length ≤ 20) :
    (processUserhost cfg c nicknames x).direct = x.direct ++
      [srvLine cfg (RplUserHost302 (x.conn c).clientName (Spec.userhostEntries x.w nicknames))] := by
  rw [userhost_output hne hlen, spec_userhostEntries_eq]

/-- the flags of an entry, spelled out -/
theorem userhost_flags (n : Str) (u : User) :
    Spec.userhostEntry n u =
      n ++ (if u.modes.oper = true ∨ u.modes.localOper = true then ['*'] else []) ++
        '=' :: (if u.away = none then '+' else '-') :: '~' :: (u.name ++ '@' :: u.hostname) := by
  unfold Spec.userhostEntry
  cases u.modes.oper <;> cases u.modes.localOper <;> cases u.away <;> simp [str]

/-! ### connection slots -/

/-- `connect` with `max_connections = m`: the connection is refused (nothing changes) iff `m`
    connections are already being served; otherwise it gets a slot -/
theorem connect_refused_iff {cfg : Cfg} {w : World} (h : InvCore w) {m : Nat}
    (hm : cfg.maxConnections = some m) (c : Nat) (ip : Str) :
    (m ≤ w.conns.length ∧
      step cfg w (.connect c ip) = { w := w, events := [str "refused " ++ natToStr c] }) ∨
    (w.conns.length < m ∧
      (step cfg w (.connect c ip)).w =
        { w with conns := w.conns ++ [Conn.new c ip], connsCount := w.connsCount + 1 } ∧
      (step cfg w (.connect c ip)).events = []) := by
  rcases IP.step_connect_cases cfg w c ip with ⟨⟨m', hm', hle⟩, e⟩ | ⟨hlt, e⟩
  · rw [hm] at hm'; cases hm'
    left; rw [← h.slots]; exact ⟨hle, e⟩
  · right; rw [← h.slots]; exact ⟨hlt m hm, by rw [e], by rw [e]⟩

/-- without `max_connections` nobody is refused -/
theorem connect_unlimited {cfg : Cfg} {w : World} (hm : cfg.maxConnections = none) (c : Nat) (ip : Str) :
    (step cfg w (.connect c ip)).w =
      { w with conns := w.conns ++ [Conn.new c ip], connsCount := w.connsCount + 1 } := by
  rcases IP.step_connect_cases cfg w c ip with ⟨⟨m', hm', _⟩, _⟩ | ⟨_, e⟩
  · rw [hm] at hm'; cases hm'
  · rw [e]

/-- only `connect` adds a connection -/
theorem conns_grow_only_by_connect {cfg : Cfg} {w : World} (h : Inv w) {e : Event}
    (hne : ∀ c ip, e ≠ .connect c ip) : (step cfg w e).w.conns.length ≤ w.conns.length :=
  IP.step_conns_length_le h hne

/-- **never more than `max_connections` connections**: the bound is preserved by every step -/
theorem slots_bounded {cfg : Cfg} {w : World} (h : Inv w) {m : Nat} (hm : cfg.maxConnections = some m)
    (hb : w.conns.length ≤ m) (e : Event) : (step cfg w e).w.conns.length ≤ m := by
  by_cases hc : ∃ c ip, e = .connect c ip
  · obtain ⟨c, ip, rfl⟩ := hc
    rcases connect_refused_iff h.toInvCore hm c ip with ⟨_, e⟩ | ⟨hlt, e, _⟩
    · rw [e]; exact hb
    · rw [e]
      show (w.conns ++ [Conn.new c ip]).length ≤ m
      rw [List.length_append]
      exact hlt
  · exact Nat.le_trans (conns_grow_only_by_connect h (fun c ip e' => hc ⟨c, ip, e'⟩)) hb

/-- the slot counter always equals the number of live connections -/
theorem slot_counter_exact {w : World} (h : InvCore w) : w.connsCount = w.conns.length := h.slots

/-- however a connection ends, its slot is freed: one `teardown` lowers both the counter and the
    number of live connections by exactly one -/
theorem slot_freed_on_every_end {w : World} (h : InvCore w) {cn : Conn} (hm : cn ∈ w.conns) :
    (teardown w cn.id).connsCount + 1 = w.connsCount ∧
    (teardown w cn.id).conns.length + 1 = w.conns.length ∧
    (teardown w cn.id).connsCount = (teardown w cn.id).conns.length :=
  let ⟨a, b, c⟩ := IP.teardown_connsCount h hm
  ⟨a, c, b⟩

/-- the same at `step` level for EOF, reset, undecodable input, over-long line and QUIT -/
theorem slot_freed_step {cfg : Cfg} {w : World} (h : Inv w) {cn : Conn} (hm : cn ∈ w.conns) {e : Event}
    (he : IP.EndsItself cn.id e) :
    (step cfg w e).w.connsCount + 1 = w.connsCount ∧
    (step cfg w e).w.conns.length + 1 = w.conns.length := by
  have q := IP.step_self_end (cfg := cfg) h hm he
  obtain ⟨a, b, _⟩ := slot_freed_on_every_end h.toInvCore hm
  rw [q.connsCount, q.conns]
  exact ⟨a, b⟩

/-- and for the settling phase with any number of connections ending at once (KILL, DIE) -/
theorem slots_freed_settle {w : World} (h : InvCore w) (cfg : Cfg) (outs : List (Nat × Str)) (evs : List Str) :
    (settle cfg w outs evs).1.connsCount = (settle cfg w outs evs).1.conns.length ∧
    (settle cfg w outs evs).1.connsCount + (w.conns.filter (fun y => y.quit || y.killedBy.isSome)).length
      = w.connsCount :=
  let ⟨a, _, c⟩ := IP.settle_slots h cfg outs evs
  ⟨a, c⟩

/-! ### non-vacuity (`RO.Ex.x`: alice — invisible operator, away — and bob, both on `#c`) -/

example : InvCore RO.Ex.x.w := RO.Ex.inv
example : Spec.users RO.Ex.x.w = 2 ∧ Spec.invisible RO.Ex.x.w = 1 ∧ Spec.visible RO.Ex.x.w = 1 ∧
    Spec.operators RO.Ex.x.w = 1 ∧ Spec.channels RO.Ex.x.w = 1 ∧ RO.Ex.x.w.maxUsers = 2 := by decide
example : ((processLusers RO.Ex.cfg (str "alice") RO.Ex.x).direct.map String.ofList).take 2 =
    [":irc.irc 251 alice :There are 1 users and 1 invisible on 1 servers",
     ":irc.irc 252 alice 1 :operator(s) online"] := by decide
example : Spec.present RO.Ex.x.w [RO.Ex.bob, str "zed", RO.Ex.alice] = [RO.Ex.bob, RO.Ex.alice] := by decide
example : (Spec.userhostEntries RO.Ex.x.w [RO.Ex.bob, str "zed", RO.Ex.alice]).map String.ofList =
    ["bob=+~bo@h2", "alice*=-~al@h1"] := by decide
example : (processUserhost RO.Ex.cfg 1 [RO.Ex.bob, str "zed", RO.Ex.alice] RO.Ex.x).direct.map String.ofList =
    [":irc.irc 302 alice :bob=+~bo@h2 alice*=-~al@h1"] := by decide

/-- `max_connections = 1` -/
def exCfg : Cfg := { maxConnections := some 1 }
-- the second connection is refused, after the first one ended the slot is free again
example : (run exCfg [.connect 1 (str "a"), .connect 2 (str "b")]).conns.map (·.id) = [1] ∧
    (step exCfg (run exCfg [.connect 1 (str "a")]) (.connect 2 (str "b"))).events = [str "refused 2"] ∧
    (run exCfg [.connect 1 (str "a"), .eof 1, .connect 2 (str "b")]).conns.map (·.id) = [2] ∧
    (run exCfg [.connect 1 (str "a"), .line 1 (str "QUIT"), .connect 2 (str "b")]).conns.map (·.id) = [2] ∧
    (run exCfg [.connect 1 (str "a"), .tooLong 1, .connect 2 (str "b")]).connsCount = 1 := by decide
example : highWater {} [.connect 1 (str "a"), .line 1 (str "NICK a"), .line 1 (str "USER a 0 * :r"), .eof 1] = 1 ∧
    (run {} [.connect 1 (str "a"), .line 1 (str "NICK a"), .line 1 (str "USER a 0 * :r"), .eof 1]).maxUsers = 1 ∧
    (run {} [.connect 1 (str "a"), .line 1 (str "NICK a"), .line 1 (str "USER a 0 * :r"), .eof 1]).users = [] := by
  decide

/-! ### reachable worlds -/
section Reachable

theorem reachable_lusers_true {cfg : Cfg} {evs : List Event} (hs : SchedAll cfg evs) (client : Str) :
    (processLusers cfg client { w := run cfg evs }).direct =
      [ srvLine cfg (RplLUserClient251 client (Spec.visible (run cfg evs)) (Spec.invisible (run cfg evs)) 1),
        srvLine cfg (RplLUserOp252 client (Spec.operators (run cfg evs))),
        srvLine cfg (RplLUserUnknown253 client 0),
        srvLine cfg (RplLUserChannels254 client (Spec.channels (run cfg evs))),
        srvLine cfg (RplLUserMe255 client (Spec.users (run cfg evs)) 1),
        srvLine cfg (RplLocalUsers265 client (Spec.users (run cfg evs)) (run cfg evs).maxUsers),
        srvLine cfg (RplGlobalUsers266 client (Spec.users (run cfg evs)) (run cfg evs).maxUsers) ] ∧
    Spec.users (run cfg evs) ≤ (run cfg evs).maxUsers :=
  let r := lusers_true (cfg := cfg) (client := client) (x := { w := run cfg evs }) (inv_run hs).toInvCore
  ⟨r.1, r.2.1⟩

/-- with `max_connections = m`, in every reachable state at most `m` connections are served -/
theorem reachable_slots_bounded {cfg : Cfg} {m : Nat} (hm : cfg.maxConnections = some m)
    {evs : List Event} (hs : SchedAll cfg evs) :
    (run cfg evs).conns.length ≤ m ∧ (run cfg evs).connsCount = (run cfg evs).conns.length := by
  refine ⟨?_, (inv_run hs).slots⟩
  have key : ∀ (evs : List Event) (w : World), Inv w → SchedFrom cfg w evs → w.conns.length ≤ m →
      (evs.foldl (fun w e => (step cfg w e).w) w).conns.length ≤ m := by
    intro evs
    induction evs with
    | nil => intro w _ _ hb; exact hb
    | cons e es ih =>
      intro w hi hsf hb
      rw [List.foldl_cons]
      exact ih _ (inv_step hi hsf.1) hsf.2 (slots_bounded hi hm hb e)
  exact key evs _ (inv_init cfg) hs (Nat.zero_le _)

end Reachable

end Irc.C19
