/-
  Irc.Props.ReachE — reachability corollaries, part E: the announcement theorems of
  `Irc/Props/C04Announce.lean` (namespace `Irc.C04A`: JOIN / PART / KICK / NICK are announced to
  exactly the right connections; a client that applies the announcements keeps a correct roster).

  Two theorems there take `InvCore x.w` directly (`acting_of_auth`, `roster_invariant`); all the
  others take the bundle `Acting x c n` = "`InvCore x.w`, `c` is live, authenticated and
  carries the nickname `n`".  `acting_of_reachable` builds that bundle from
  `Reachable cfg x.w`, and every `Acting` theorem is restated with the bundle spelled out
  (`hreach hlive hauth hnick`) — so no invariant hypothesis is left anywhere.

  (This file cannot be imported together with `ReachF.lean`: `C04AnnounceLemmas` and the lemma
  file of C15 / C16 both define `Irc.ownerOf`, see the header of `Irc/Props/Wire.lean`.)
-/
import Irc.Props.ReachA
import Irc.Props.C04Announce

namespace Irc.Reach.C04A
open Irc Reply Memb Irc.C04A

/-- the `Acting` bundle in a reachable world -/
theorem acting_of_reachable {cfg : Cfg} {x : Ctx} {c : Nat} {n : Str}
    (hreach : Reachable cfg x.w) (hlive : Live x.w c)
    (hauth : (x.conn c).authenticated = true) (hnick : (x.conn c).nick = some n) :
    Acting x c n :=
  ⟨core_reachable hreach, hlive, hauth, hnick⟩

theorem acting_of_auth_reachable {cfg : Cfg} {x : Ctx} {c : Nat} (hr : Reachable cfg x.w)
    (hl : Live x.w c) (ha : (x.conn c).authenticated = true) :
    ∃ n u, Acting x c n ∧ Map.lookup n x.w.users = some u ∧ u.owner = c :=
  acting_of_auth (core_reachable hr) hl ha

theorem roster_invariant_reachable {cfg : Cfg} {ch : Str} {o : Nat} :
    ∀ (cmds : List (Nat × MCmd)) (x : Ctx) (roster : List Str), Reachable cfg x.w →
      Follows cfg ch o cmds x →
      (∀ k, k ∈ roster ↔ C04.Member x.w ch k) →
      ∀ k, k ∈ applyAnns ch roster (deliveredAlong cfg o cmds x) ↔
        C04.Member (runCmds cfg cmds x).w ch k :=
  fun cmds x roster hr => roster_invariant cmds x roster (core_reachable hr)

/-! ### the theorems stated with the bundle `Acting x c n` -/

theorem Acting.user_reachable
    {cfg : Cfg} {x : Ctx} {c : Nat} {n : Str}
    (hreach : Reachable cfg x.w) (hlive : Live x.w c)
    (hauth : (x.conn c).authenticated = true) (hnick : (x.conn c).nick = some n) :
    ∃ u, Map.lookup n x.w.users = some u ∧ u.owner = c :=
  Acting.user (acting_of_reachable hreach hlive hauth hnick)

theorem Acting.owner_reachable
    {cfg : Cfg} {x : Ctx} {c : Nat} {n : Str}
    (hreach : Reachable cfg x.w) (hlive : Live x.w c)
    (hauth : (x.conn c).authenticated = true) (hnick : (x.conn c).nick = some n) :
    ownerOf x.w n = c :=
  Acting.owner (acting_of_reachable hreach hlive hauth hnick)

theorem part_announced_reachable
    {cfg : Cfg} {c : Nat} {channels : List Str} {reason : Option Str} {x : Ctx} {n : Str}
    (hreach : Reachable cfg x.w) (hlive : Live x.w c)
    (hauth : (x.conn c).authenticated = true) (hnick : (x.conn c).nick = some n) :
    (processPart cfg c channels reason x).queued = x.queued ++
      partQueue x.w n (fun ch => partLine (x.conn c).source ch reason) [] channels ∧
    (processPart cfg c channels reason x).direct = x.direct ++
      (partReplies x.w n (x.conn c).clientName [] channels).map (srvLine cfg) :=
  part_announced (acting_of_reachable hreach hlive hauth hnick)

theorem part_announced_to_all_once_reachable
    {cfg : Cfg} {c : Nat} {channels : List Str} {reason : Option Str} {x : Ctx} {n : Str}
    (hreach : Reachable cfg x.w) (hlive : Live x.w c)
    (hauth : (x.conn c).authenticated = true) (hnick : (x.conn c).nick = some n)
    {ch : Str} (hch : ch ∈ channels) (hn : C04.Member x.w ch n) :
    let new := partQueue x.w n (fun ch => partLine (x.conn c).source ch reason) [] channels
    (∀ m, C04.Member x.w ch m →
      List.count (ownerOf x.w m, partLine (x.conn c).source ch reason) new = 1) ∧
    List.count (c, partLine (x.conn c).source ch reason) new = 1 :=
  part_announced_to_all_once (acting_of_reachable hreach hlive hauth hnick) hch hn

theorem part_only_members_reachable
    {cfg : Cfg} {c : Nat} {channels : List Str} {reason : Option Str} {x : Ctx} {n : Str}
    (hreach : Reachable cfg x.w) (hlive : Live x.w c)
    (hauth : (x.conn c).authenticated = true) (hnick : (x.conn c).nick = some n)
    (o : Nat) (l : Str)
    (h : (o, l) ∈ partQueue x.w n (fun ch => partLine (x.conn c).source ch reason) [] channels) :
    ∃ ch, ch ∈ channels ∧ C04.Member x.w ch n ∧ l = partLine (x.conn c).source ch reason ∧
      ∃ m, C04.Member x.w ch m ∧ ownerOf x.w m = o :=
  part_only_members (acting_of_reachable hreach hlive hauth hnick) o l h

theorem part_not_member_silent_reachable
    {cfg : Cfg} {c : Nat} {channels : List Str} {reason : Option Str} {x : Ctx} {n : Str}
    (hreach : Reachable cfg x.w) (hlive : Live x.w c)
    (hauth : (x.conn c).authenticated = true) (hnick : (x.conn c).nick = some n)
    (hnot : ∀ ch, ch ∈ channels → ¬ C04.Member x.w ch n) :
    (processPart cfg c channels reason x).queued = x.queued ∧
    (processPart cfg c channels reason x).direct = x.direct ++ channels.map (fun ch =>
      srvLine cfg (if Map.contains ch x.w.channels = true then ErrNotOnChannel442 (x.conn c).clientName ch
                   else ErrNoSuchChannel403 (x.conn c).clientName ch)) :=
  part_not_member_silent (acting_of_reachable hreach hlive hauth hnick) hnot

theorem join_announced_reachable
    {cfg : Cfg} {c : Nat} {channels : List Str} {keys : Option (List Str)} {x : Ctx} {n : Str}
    (hreach : Reachable cfg x.w) (hlive : Live x.w c)
    (hauth : (x.conn c).authenticated = true) (hnick : (x.conn c).nick = some n) :
    ∃ u, Map.lookup n x.w.users = some u ∧
      let ds := joinDecisions cfg c channels keys x n u
      let errs := (joinDecide cfg x.w (x.conn c) n u.invitedTo channels (joinKeyList keys)
        u.channels.length).2.1
      let acc := accepted ds channels
      let y := processJoin cfg c channels keys x
      y.queued = x.queued ++ joinQueue y.w n (C07.joinLine (x.conn c).source) acc ∧
      y.direct = x.direct ++ errs.map (srvLine cfg) ++ acc.flatMap (joinBurst cfg c y.w) ∧
      (∀ ch, ch ∈ acc → C04.Member y.w ch n) ∧
      (∀ ch, ch ∈ acc ↔ ∃ p, p ∈ ds.zip channels ∧ p.1.1 = true ∧ p.2 = ch) ∧
      (∀ m, ownerOf y.w m = ownerOf x.w m) ∧ y.conn c = x.conn c :=
  join_announced (acting_of_reachable hreach hlive hauth hnick)

theorem join_announced_to_others_reachable
    {cfg : Cfg} {c : Nat} {channels : List Str} {keys : Option (List Str)} {x : Ctx} {n : Str}
    (hreach : Reachable cfg x.w) (hlive : Live x.w c)
    (hauth : (x.conn c).authenticated = true) (hnick : (x.conn c).nick = some n) :
    ∃ u, Map.lookup n x.w.users = some u ∧
      let acc := accepted (joinDecisions cfg c channels keys x n u) channels
      let y := processJoin cfg c channels keys x
      let new := joinQueue y.w n (C07.joinLine (x.conn c).source) acc
      (∀ ch m, C04.Member y.w ch m → m ≠ n →
        List.count (ownerOf y.w m, C07.joinLine (x.conn c).source ch) new = List.count ch acc) ∧
      (∀ o l, (o, l) ∈ new → ∃ ch, ch ∈ acc ∧ l = C07.joinLine (x.conn c).source ch ∧
        ∃ m, C04.Member y.w ch m ∧ m ≠ n ∧ ownerOf y.w m = o) ∧
      (∀ ch o, ch ∉ acc → (o, C07.joinLine (x.conn c).source ch) ∉ new) :=
  join_announced_to_others (acting_of_reachable hreach hlive hauth hnick)

theorem join_announced_names_reachable
    {cfg : Cfg} {c : Nat} {channels : List Str} {keys : Option (List Str)} {x : Ctx} {n : Str}
    (hreach : Reachable cfg x.w) (hlive : Live x.w c)
    (hauth : (x.conn c).authenticated = true) (hnick : (x.conn c).nick = some n)
    {u : User} (hu : Map.lookup n x.w.users = some u) {ch : Str}
    (hch : ch ∈ accepted (joinDecisions cfg c channels keys x n u) channels)
    (hne : ∀ m, C04.Member (processJoin cfg c channels keys x).w ch m → m ≠ []) :
    let y := processJoin cfg c channels keys x
    ∃ C, Map.lookup ch y.w.channels = some C ∧
      let es := C04.namesEntries y.w (some n) (x.conn c).multiPrefix C
      joinBurst cfg c y.w ch = C07.joinLine (x.conn c).source ch ::
        ((match C.topic with
          | some t => [srvLine cfg (RplTopic332 (x.conn c).clientName ch t.topic)]
          | none => []) ++ namesReply cfg (x.conn c).clientName C.modes.secret ch es) ∧
      es.map (·.2) = members y.w ch :=
  join_announced_names (acting_of_reachable hreach hlive hauth hnick) hu hch hne

theorem join_refused_announces_nothing_reachable
    {cfg : Cfg} {c : Nat} {channels : List Str} {keys : Option (List Str)} {x : Ctx} {n : Str}
    (hreach : Reachable cfg x.w) (hlive : Live x.w c)
    (hauth : (x.conn c).authenticated = true) (hnick : (x.conn c).nick = some n)
    {u : User} (hu : Map.lookup n x.w.users = some u)
    (hall : accepted (joinDecisions cfg c channels keys x n u) channels = []) :
    (processJoin cfg c channels keys x).queued = x.queued ∧
    (processJoin cfg c channels keys x).direct = x.direct ++
      (joinDecide cfg x.w (x.conn c) n u.invitedTo channels (joinKeyList keys)
        u.channels.length).2.1.map (srvLine cfg) :=
  join_refused_announces_nothing (acting_of_reachable hreach hlive hauth hnick) hu hall

theorem join_announced_single_reachable
    {cfg : Cfg} {c : Nat} {ch : Str} {keys : Option (List Str)} {x : Ctx} {n : Str}
    (hreach : Reachable cfg x.w) (hlive : Live x.w c)
    (hauth : (x.conn c).authenticated = true) (hnick : (x.conn c).nick = some n)
    {C : Channel} (hC : Map.lookup ch x.w.channels = some C)
    (hch : ch ∈ acceptedOf cfg c [ch] keys x) :
    let y := processJoin cfg c [ch] keys x
    y.queued = x.queued ++
      (members x.w ch).map (fun m => (ownerOf x.w m, C07.joinLine (x.conn c).source ch)) ∧
    members y.w ch = members x.w ch ++ [n] ∧ ¬ C04.Member x.w ch n :=
  join_announced_single (acting_of_reachable hreach hlive hauth hnick) hC hch

theorem kick_announced_reachable
    {cfg : Cfg} {c : Nat} {channel : Str} {kickUsers : List Str} {comment : Option Str} {x : Ctx}
    {n : Str}
    (hreach : Reachable cfg x.w) (hlive : Live x.w c)
    (hauth : (x.conn c).authenticated = true) (hnick : (x.conn c).nick = some n) :
    let y := processKick cfg c channel kickUsers comment x
    y.queued = x.queued ++ kickQueue x.w y.w channel
      (fun v => kickLine (x.conn c).source channel v comment) (kickedOf x c channel kickUsers) :=
  kick_announced (acting_of_reachable hreach hlive hauth hnick)

theorem kick_victims_reachable
    {cfg : Cfg} {c : Nat} {channel : Str} {kickUsers : List Str} {x : Ctx} {n : Str}
    (hreach : Reachable cfg x.w) (hlive : Live x.w c)
    (hauth : (x.conn c).authenticated = true) (hnick : (x.conn c).nick = some n) :
    (∀ v, v ∈ kickedOf x c channel kickUsers ↔ v ∈ kickUsers ∧ KickVictim x.w channel n v) ∧
    (kickedOf x c channel kickUsers).Nodup :=
  kick_victims (acting_of_reachable hreach hlive hauth hnick)

theorem kick_announced_to_remaining_and_victim_reachable
    {cfg : Cfg} {c : Nat} {channel : Str} {kickUsers : List Str} {comment : Option Str} {x : Ctx}
    {n : Str}
    (hreach : Reachable cfg x.w) (hlive : Live x.w c)
    (hauth : (x.conn c).authenticated = true) (hnick : (x.conn c).nick = some n)
    {v : Str} (hv : v ∈ kickedOf x c channel kickUsers) :
    let y := processKick cfg c channel kickUsers comment x
    (ownerOf x.w v, kickLine (x.conn c).source channel v comment) ∈ y.queued ∧
    (∀ m, C04.Member y.w channel m →
      (ownerOf x.w m, kickLine (x.conn c).source channel v comment) ∈ y.queued) ∧
    ¬ C04.Member y.w channel v :=
  kick_announced_to_remaining_and_victim (acting_of_reachable hreach hlive hauth hnick) hv

theorem kick_multi_not_seen_by_other_victims_reachable
    {cfg : Cfg} {c : Nat} {channel : Str} {kickUsers : List Str} {comment : Option Str} {x : Ctx}
    {n : Str}
    (hreach : Reachable cfg x.w) (hlive : Live x.w c)
    (hauth : (x.conn c).authenticated = true) (hnick : (x.conn c).nick = some n)
    {v₁ v₂ : Str} (h1 : v₁ ∈ kickedOf x c channel kickUsers)
    (h2 : v₂ ∈ kickedOf x c channel kickUsers) (hne : v₁ ≠ v₂) :
    let y := processKick cfg c channel kickUsers comment x
    (ownerOf x.w v₁, kickLine (x.conn c).source channel v₂ comment) ∉
      kickQueue x.w y.w channel (fun v => kickLine (x.conn c).source channel v comment)
        (kickedOf x c channel kickUsers) :=
  kick_multi_not_seen_by_other_victims (acting_of_reachable hreach hlive hauth hnick) h1 h2 hne

theorem nick_announced_to_channel_peers_reachable
    {cfg : Cfg} {c : Nat} {new : Str} {msg : Message} {x : Ctx} {old : Str}
    (hreach : Reachable cfg x.w) (hlive : Live x.w c)
    (hauth : (x.conn c).authenticated = true) (hnick : (x.conn c).nick = some old)
    (hne : new ≠ old) (hfree : Map.contains new x.w.users = false) :
    let y := processNick cfg c new msg x
    let line := msg.render (x.conn c).source
    y.queued = x.queued ++ (Map.keys y.w.users).map (fun m => (ownerOf y.w m, line)) ∧
    (Map.keys y.w.users).Nodup ∧
    (c, line) ∈ y.queued ∧
    (∀ ch m, C04.Member x.w ch old → C04.Member x.w ch m → m ≠ old →
      (ownerOf x.w m, line) ∈ y.queued) ∧
    y.direct = x.direct :=
  nick_announced_to_channel_peers (acting_of_reachable hreach hlive hauth hnick) hne hfree

theorem nick_refused_announces_nothing_reachable
    {cfg : Cfg} {c : Nat} {new : Str} {msg : Message} {x : Ctx} {old : Str}
    (hreach : Reachable cfg x.w) (hlive : Live x.w c)
    (hauth : (x.conn c).authenticated = true) (hnick : (x.conn c).nick = some old)
    (hno : new = old ∨ Map.contains new x.w.users = true) :
    (processNick cfg c new msg x).queued = x.queued ∧ (processNick cfg c new msg x).w = x.w :=
  nick_refused_announces_nothing (acting_of_reachable hreach hlive hauth hnick) hno

theorem announcements_are_rendered_reachable
    {cfg : Cfg} {c : Nat} (cmd : MCmd) {x : Ctx} {n : Str}
    (hreach : Reachable cfg x.w) (hlive : Live x.w c)
    (hauth : (x.conn c).authenticated = true) (hnick : (x.conn c).nick = some n) :
    (cmd.run cfg c x).queued = x.queued ++
      (cmd.queuedAnns cfg c x).map (fun p => (p.1, cmd.line (x.conn c).source p.2)) :=
  announcements_are_rendered cmd (acting_of_reachable hreach hlive hauth hnick)

theorem roster_step_reachable
    {cfg : Cfg} {c : Nat} {x : Ctx} {n : Str}
    (hreach : Reachable cfg x.w) (hlive : Live x.w c)
    (hauth : (x.conn c).authenticated = true) (hnick : (x.conn c).nick = some n)
    (cmd : MCmd) (ch : Str) (o : Nat) (roster : List Str) (hbefore : OnChannel x.w ch o)
    (hafter : OnChannel (cmd.run cfg c x).w ch o) (hr : ∀ k, k ∈ roster ↔ C04.Member x.w ch k)
    (k : Str) :
    k ∈ applyAnns ch roster (cmd.deliveredTo cfg c x o) ↔ C04.Member (cmd.run cfg c x).w ch k :=
  roster_step (acting_of_reachable hreach hlive hauth hnick) cmd ch o roster hbefore hafter hr k

theorem roster_on_join_reachable
    {cfg : Cfg} {c : Nat} {chs : List Str} {keys : Option (List Str)} {x : Ctx} {n : Str}
    (hreach : Reachable cfg x.w) (hlive : Live x.w c)
    (hauth : (x.conn c).authenticated = true) (hnick : (x.conn c).nick = some n)
    {ch : Str} (hch : ch ∈ acceptedOf cfg c chs keys x) (r : List Str) :
    applyAnns ch r ((MCmd.join chs keys).deliveredTo cfg c x c) =
      members (processJoin cfg c chs keys x).w ch ∧
    OnChannel (processJoin cfg c chs keys x).w ch c :=
  roster_on_join (acting_of_reachable hreach hlive hauth hnick) hch r

theorem roster_from_own_join_reachable
    {cfg : Cfg} {c : Nat} {chs : List Str} {keys : Option (List Str)} {x : Ctx} {n : Str}
    (hreach : Reachable cfg x.w) (hlive : Live x.w c)
    (hauth : (x.conn c).authenticated = true) (hnick : (x.conn c).nick = some n)
    {ch : Str} (hch : ch ∈ acceptedOf cfg c chs keys x) (cmds : List (Nat × MCmd))
    (hf : Follows cfg ch c cmds (processJoin cfg c chs keys x)) (r0 : List Str) (k : Str) :
    k ∈ applyAnns ch r0 (deliveredAlong cfg c ((c, MCmd.join chs keys) :: cmds) x) ↔
      C04.Member (runCmds cfg ((c, MCmd.join chs keys) :: cmds) x).w ch k :=
  roster_from_own_join (acting_of_reachable hreach hlive hauth hnick) hch cmds hf r0 k

/-! ### trace-level forms -/

/-- **roster correctness over whole executions.**  After any well-scheduled event list, let
    connection `c` (registered as `n`) issue an accepted JOIN of `ch` and stay on it while any
    JOIN / PART / KICK / NICK commands `cmds` by anybody follow (`Follows`): whatever the client
    believed before, applying the announcements it is delivered yields exactly the member set
    of `ch`. -/
theorem roster_from_own_join_run {cfg : Cfg} (evs : List Event) (hs : SchedAll cfg evs) {c : Nat}
    {chs : List Str} {keys : Option (List Str)} {n : Str}
    (hlive : Live (run cfg evs) c)
    (hauth : (Ctx.conn { w := run cfg evs } c).authenticated = true)
    (hnick : (Ctx.conn { w := run cfg evs } c).nick = some n)
    {ch : Str} (hch : ch ∈ acceptedOf cfg c chs keys { w := run cfg evs })
    (cmds : List (Nat × MCmd))
    (hf : Follows cfg ch c cmds (processJoin cfg c chs keys { w := run cfg evs }))
    (r0 : List Str) (k : Str) :
    k ∈ applyAnns ch r0
        (deliveredAlong cfg c ((c, MCmd.join chs keys) :: cmds) { w := run cfg evs }) ↔
      C04.Member (runCmds cfg ((c, MCmd.join chs keys) :: cmds) { w := run cfg evs }).w ch k :=
  roster_from_own_join_reachable (x := { w := run cfg evs }) (reachable_run hs) hlive hauth hnick
    hch cmds hf r0 k

end Irc.Reach.C04A
