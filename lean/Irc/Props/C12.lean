/-
  Property C12.  "A client that is not a member of a secret (+s) channel cannot learn from
  LIST, NAMES, WHO or WHOIS that the channel exists or who is on it, and cannot speak into it.
  A user with mode +i is not revealed by WHO, NAMES or WHOIS to clients sharing no channel with
  it.  The answers an outside client gets to these queries are the same as they would be if the
  secret channel did not exist, respectively the invisible user were not connected."

  This is a non-interference property between two worlds: the real world `w` and the world
  with the hidden part removed (`hideChannel X w`, `hideUser v w`).  What the querying
  connection receives is `replyOf handler w` (the lines written to its own socket).  Every
  theorem is for ALL worlds satisfying the invariant `InvCore`, all configurations, all
  connections `c` that are outsiders, and all arguments of the query (explicit names, lists,
  wildcard masks, no argument).  Helper lemmas: `Irc/Props/C12Lemmas.lean`.

  Result in short: everything holds EXCEPT the explicit form `NAMES #secret`, which answers
  nothing at all where a non-existent channel gets a 366 line (`names_explicit_secret_diff`,
  `names_hides_secret_explicit_full_false`; the same defect shows again for a secret channel
  on which an invisible user is alone, `names_hides_invisible_gone_full_false`).  Outside the
  letter of C12: LIST counts invisible members (`list_hides_invisible_full_false`), and the
  error reply to PRIVMSG tells a secret channel (404) from a non-existent one (403).

  Observers: `Outside w c C` / `Stranger w c v vu` are weaker than "`c` is a registered client
  with nick `obs`, `obs` not on `C` / sharing no channel with `v`" (`outside_of_observer`,
  `stranger_of_observer`), so the theorems also cover connections without a nick.
-/
import Irc.Props.C12Lemmas
import Irc.InvCheck
namespace Irc.C12
open Irc Irc.Reply

/-! ## the two worlds and the observation -/

/-- the world without channel `X`: the channel record is gone and no user has `X` in its
    channel set (invitations are left alone). -/
def hideChannel (X : Str) (w : World) : World :=
  { w with
    channels := Map.erase X w.channels
    users := w.users.map (fun p => (p.1, { p.2 with channels := KSet.erase X p.2.channels })) }

/-- the world without user `v`: no user record, not a member of any channel, in no rank list,
    not in the wallops set. -/
def hideUser (v : Str) (w : World) : World :=
  { w with
    users := Map.erase v w.users
    channels := w.channels.map (fun p => (p.1,
      { p.2 with
        users := Map.erase v p.2.users
        modes := { p.2.modes with operators := KSet.erase v p.2.modes.operators
                                  halfOperators := KSet.erase v p.2.modes.halfOperators
                                  voices := KSet.erase v p.2.modes.voices
                                  founders := KSet.erase v p.2.modes.founders
                                  protecteds := KSet.erase v p.2.modes.protecteds } }))
    wallops := KSet.erase v w.wallops }

/-- what the querying connection gets back from handler `f` in world `w` -/
def replyOf (f : Ctx → Ctx) (w : World) : List Str := (f { w := w }).direct

/-- Connection `c` is outside channel `C`: whatever nick it carries is not a member.
    (Covers registered users on other channels or on none, operators, and connections that
    have no nick yet.) -/
def Outside (w : World) (c : Nat) (C : Channel) : Prop :=
  ∀ n, (Ctx.conn { w := w } c).nick = some n → Map.contains n C.users = false

/-- Connection `c` is a stranger to user `v` (record `vu`): it is not `v` itself and the user it
    is registered as shares no channel with `v` (the test the code uses:
    `user.channels.disjoint(cmd_user.channels)`). -/
def Stranger (w : World) (c : Nat) (v : Str) (vu : User) : Prop :=
  ∀ n, (Ctx.conn { w := w } c).nick = some n →
    n ≠ v ∧ ∀ u, Map.lookup n w.users = some u → KSet.disjoint vu.channels u.channels = true

/-- the usual way to be an outsider: a live connection whose nick is not a member -/
theorem outside_of_observer {w : World} {c : Nat} {cn : Conn} {obs : Str} {C : Channel}
    (hc : w.conn? c = some cn) (hn : cn.nick = some obs)
    (hout : Map.contains obs C.users = false) : Outside w c C := by
  intro n h
  simp only [Ctx.conn, hc, Option.getD_some, hn, Option.some.injEq] at h
  exact h ▸ hout

/-- the usual way to be a stranger: a registered observer `obs ≠ v` sharing no channel with `v` -/
theorem stranger_of_observer {w : World} {c : Nat} {cn : Conn} {obs v : Str} {ou vu : User}
    (hc : w.conn? c = some cn) (hn : cn.nick = some obs) (hne : obs ≠ v)
    (hou : Map.lookup obs w.users = some ou)
    (hdis : KSet.disjoint vu.channels ou.channels = true) : Stranger w c v vu := by
  intro n h
  simp only [Ctx.conn, hc, Option.getD_some, hn, Option.some.injEq] at h
  subst h
  refine ⟨hne, fun u hu => ?_⟩
  rw [hou] at hu
  cases hu
  exact hdis

private theorem simC (X : Str) (w : World) :
    Sim w.users (stripChan X w.users) w.channels (Map.erase X w.channels) w.conns
      { w := w } { w := hideChannel X w } :=
  ⟨rfl, rfl, rfl, rfl, rfl, rfl, rfl⟩

private theorem simU (v : Str) (w : World) :
    Sim w.users (Map.erase v w.users) w.channels (stripUserC v w.channels) w.conns
      { w := w } { w := hideUser v w } :=
  ⟨rfl, rfl, rfl, rfl, rfl, rfl, rfl⟩


/-! ## a small concrete world for the examples

  `alice` (connection 1, the observer) is on `#pub`; `bob` (2) is on `#pub`, `#sec`, `#oth`;
  `carol` (3, mode +i) is on `#sec` and `#oth`.  `#sec` is secret.  So alice is an outsider of
  `#sec` and a stranger to carol; bob is neither. -/

def mkUser (nick : Str) (owner : Nat) (chans : KSet) (inv : Bool := false) : User :=
  { hostname := str "h", name := nick, realname := str "R",
    source := nick ++ str "!~" ++ nick ++ str "@h",
    modes := { invisible := inv }, channels := chans,
    history := { username := nick, hostname := str "h", realname := str "R" }, owner := owner }

def mkConn (id : Nat) (nick : Str) : Conn :=
  { id := id, hostname := str "h", nick := some nick, name := some nick, realname := some (str "R"),
    source := nick ++ str "!~" ++ nick ++ str "@h", authenticated := true, registered := true,
    hasSender := false, hasQuitSender := false, hasPingSender := false }

def demoCarol : User := mkUser (str "carol") 3 [str "#sec", str "#oth"] true

def demoSec : Channel :=
  { users := [(str "bob", ChanUserModes.createdChannel), (str "carol", {})],
    modes := { secret := true, operators := [str "bob"], founders := [str "bob"] } }

def demo : World :=
  { users := [(str "alice", mkUser (str "alice") 1 [str "#pub"]),
              (str "bob", mkUser (str "bob") 2 [str "#pub", str "#sec", str "#oth"]),
              (str "carol", demoCarol)]
    channels :=
      [(str "#pub", { users := [(str "alice", ChanUserModes.createdChannel), (str "bob", {})],
                      modes := { operators := [str "alice"], founders := [str "alice"] } }),
       (str "#sec", demoSec),
       (str "#oth", { users := [(str "carol", ChanUserModes.createdChannel), (str "bob", {})],
                      modes := { operators := [str "carol"], founders := [str "carol"] } })]
    invisibleCount := 1
    maxUsers := 3
    conns := [mkConn 1 (str "alice"), mkConn 2 (str "bob"), mkConn 3 (str "carol")]
    connsCount := 3 }

/-- the demo world satisfies the invariant (via the sound executable check) -/
theorem demo_inv : InvCore demo := invCore_of_check demo (by decide) (by decide)

theorem demo_outside : Outside demo 1 demoSec :=
  outside_of_observer (cn := mkConn 1 (str "alice")) (obs := str "alice") rfl rfl (by decide)

theorem demo_stranger : Stranger demo 1 (str "carol") demoCarol :=
  stranger_of_observer (cn := mkConn 1 (str "alice")) (obs := str "alice")
    (ou := mkUser (str "alice") 1 [str "#pub"]) rfl rfl (by decide) rfl (by decide)

example : Map.lookup (str "#sec") demo.channels = some demoSec ∧ demoSec.modes.secret = true ∧
    Map.lookup (str "carol") demo.users = some demoCarol ∧ demoCarol.modes.invisible = true := by
  decide
example : (hideChannel (str "#sec") demo).channels.length = 2 ∧
    Map.lookup (str "bob") (hideChannel (str "#sec") demo).users =
      some (mkUser (str "bob") 2 [str "#pub", str "#oth"]) := by decide
example : (hideUser (str "carol") demo).users.length = 2 ∧
    ((hideUser (str "carol") demo).channels.map (fun p => Map.keys p.2.users)) =
      [[str "alice", str "bob"], [str "bob"], [str "bob"]] := by decide

/-! ## 1. LIST does not show a secret channel (to anybody) -/

/-- LIST, with any list of channel names (also the empty list = all channels), answers the same
    in `w` and in the world without the secret channel `X`.  (No hypothesis on the observer is
    needed: LIST hides secret channels even from their members.) -/
theorem list_hides_secret (cfg : Cfg) (w : World) (hI : InvCore w) (X : Str) (C : Channel)
    (hX : Map.lookup X w.channels = some C) (hs : C.modes.secret = true)
    (c : Nat) (chs : List Str) :
    replyOf (processList cfg c chs none) w = replyOf (processList cfg c chs none) (hideChannel X w) :=
  (processList_sim cfg c X C chs hX hs hI.chansNodup (simC X w)).direct

example : replyOf (processList {} 1 [] none) demo =
    replyOf (processList {} 1 [] none) (hideChannel (str "#sec") demo) :=
  list_hides_secret {} demo demo_inv (str "#sec") demoSec rfl rfl 1 []
example : replyOf (processList {} 1 [] none) demo =
    [(str ":irc.irc " ++ Reply.RplListStart321 (client := str "alice")), (str ":irc.irc " ++ Reply.RplList322 (client := str "alice") (channel := str "#pub") (client_count := 2) (topic := str "")),
     (str ":irc.irc " ++ Reply.RplList322 (client := str "alice") (channel := str "#oth") (client_count := 2) (topic := str "")), (str ":irc.irc " ++ Reply.RplListEnd323 (client := str "alice"))] := by decide
example : replyOf (processList {} 1 [str "#sec", str "#pub"] none) demo =
    [(str ":irc.irc " ++ Reply.RplListStart321 (client := str "alice")), (str ":irc.irc " ++ Reply.RplList322 (client := str "alice") (channel := str "#pub") (client_count := 2) (topic := str "")),
     (str ":irc.irc " ++ Reply.RplListEnd323 (client := str "alice"))] := by decide

/-! ## 2. NAMES -/

/-- `NAMES` without argument: same answer with and without the secret channel. -/
theorem names_hides_secret_all (cfg : Cfg) (w : World) (hI : InvCore w) (X : Str) (C : Channel)
    (hX : Map.lookup X w.channels = some C) (hs : C.modes.secret = true)
    (c : Nat) (ho : Outside w c C) :
    replyOf (processNames cfg c []) w = replyOf (processNames cfg c []) (hideChannel X w) :=
  (processNames_all_sim cfg c X C hX hs hI.chansNodup ho (simC X w)).direct

example : replyOf (processNames {} 1 []) demo =
    replyOf (processNames {} 1 []) (hideChannel (str "#sec") demo) :=
  names_hides_secret_all {} demo demo_inv (str "#sec") demoSec rfl rfl 1 demo_outside
example : replyOf (processNames {} 1 []) demo =
    [str ":irc.irc 353 alice = #pub :~alice bob", str ":irc.irc 353 alice = #oth :bob",
     (str ":irc.irc " ++ Reply.RplEndOfNames366 (client := str "alice") (channel := str "*"))] := by decide
/-- a member (bob, connection 2) does see the secret channel: the hypothesis `Outside` matters -/
example : replyOf (processNames {} 2 []) demo =
    [str ":irc.irc 353 bob = #pub :~alice bob", str ":irc.irc 353 bob @ #sec :~bob carol",
     str ":irc.irc 353 bob = #oth :~carol bob",
     (str ":irc.irc " ++ Reply.RplEndOfNames366 (client := str "bob") (channel := str "*"))] := by decide

/-- `NAMES a,b,..` (explicit, non-empty list) for names other than `X`: same answer with and
    without `X`.  (Needs nothing about the observer or the invariant.) -/
theorem names_explicit_other (cfg : Cfg) (w : World) (X : Str) (c : Nat) (chs : List Str)
    (hne : chs ≠ []) (hX : X ∉ chs) :
    replyOf (processNames cfg c chs) w = replyOf (processNames cfg c chs) (hideChannel X w) :=
  (processNames_other_sim cfg c X chs hne hX (simC X w)).direct

example : replyOf (processNames {} 1 [str "#pub", str "#nope"]) demo =
    [str ":irc.irc 353 alice = #pub :~alice bob", (str ":irc.irc " ++ Reply.RplEndOfNames366 (client := str "alice") (channel := str "#pub")),
     (str ":irc.irc " ++ Reply.RplEndOfNames366 (client := str "alice") (channel := str "#nope"))] := by decide

/-- The exact behaviour of the explicit form on ANY list: in the real world the entries naming
    the secret channel are skipped silently, i.e. the answer is the one the world without `X`
    gives to the list with those entries removed … -/
theorem names_explicit_general (cfg : Cfg) (w : World) (X : Str) (C : Channel)
    (hX : Map.lookup X w.channels = some C) (hs : C.modes.secret = true)
    (c : Nat) (ho : Outside w c C) (chs : List Str) (hne : chs.filter (· != X) ≠ []) :
    replyOf (processNames cfg c chs) w =
      replyOf (processNames cfg c (chs.filter (· != X))) (hideChannel X w) :=
  (processNames_filter_sim cfg c X C chs hX hs ho hne (simC X w)).direct

example : replyOf (processNames {} 1 [str "#sec", str "#pub", str "#sec"]) demo =
    replyOf (processNames {} 1 [str "#pub"]) (hideChannel (str "#sec") demo) :=
  names_explicit_general {} demo (str "#sec") demoSec rfl rfl 1 demo_outside
    [str "#sec", str "#pub", str "#sec"] (by decide)

/-- … and if the list names only the secret channel the answer is empty. -/
theorem names_explicit_only_secret (cfg : Cfg) (w : World) (X : Str) (C : Channel)
    (hX : Map.lookup X w.channels = some C) (hs : C.modes.secret = true)
    (c : Nat) (ho : Outside w c C) (chs : List Str) (hne : chs ≠ [])
    (hall : ∀ ch ∈ chs, ch = X) :
    replyOf (processNames cfg c chs) w = [] :=
  congrArg Ctx.direct (processNames_only_secret cfg c X C chs { w := w } hX hs ho hne hall)

/-- the 366 line a client gets for a channel that does not exist -/
def endOfNamesLine (cfg : Cfg) (w : World) (c : Nat) (X : Str) : Str :=
  ':' :: (cfg.name ++ ' ' :: RplEndOfNames366 (Ctx.conn { w := w } c).clientName X)

/-- KNOWN FINDING.  `NAMES X` for the secret channel `X` from outside: the real world answers
    NOTHING (not even the 366 end line), the world without `X` answers the single 366 line.
    So an outsider can tell a secret channel from a non-existent one. -/
theorem names_explicit_secret_diff (cfg : Cfg) (w : World) (X : Str) (C : Channel)
    (hX : Map.lookup X w.channels = some C) (hs : C.modes.secret = true)
    (c : Nat) (ho : Outside w c C) :
    replyOf (processNames cfg c [X]) w = [] ∧
    replyOf (processNames cfg c [X]) (hideChannel X w) = [endOfNamesLine cfg w c X] := by
  refine ⟨names_explicit_only_secret cfg w X C hX hs c ho [X] (by simp) (by simp), ?_⟩
  simp [replyOf, processNames, hideChannel, endOfNamesLine, Ctx.conn, World.conn?]

example : replyOf (processNames {} 1 [str "#sec"]) demo = [] ∧
    replyOf (processNames {} 1 [str "#sec"]) (hideChannel (str "#sec") demo) =
      [(str ":irc.irc " ++ Reply.RplEndOfNames366 (client := str "alice") (channel := str "#sec"))] := by decide

/-- The full statement one would like for the explicit form; it is FALSE
    (`names_hides_secret_explicit_full_false` below). -/
def names_hides_secret_explicit_full : Prop :=
  ∀ (cfg : Cfg) (w : World) (X : Str) (C : Channel) (c : Nat) (chs : List Str),
    InvCore w → Map.lookup X w.channels = some C → C.modes.secret = true → Outside w c C →
    replyOf (processNames cfg c chs) w = replyOf (processNames cfg c chs) (hideChannel X w)

/-- concrete counterexample: alice asks `NAMES #sec` in the demo world -/
theorem names_hides_secret_explicit_full_false : ¬ names_hides_secret_explicit_full := by
  intro h
  have := h {} demo (str "#sec") demoSec 1 [str "#sec"] demo_inv rfl rfl demo_outside
  exact absurd this (by decide)

/-! ## 3. WHO -/

/-- WHO with any mask — the secret channel's own name, another channel's name, a nick name, a
    wildcard mask, anything else — answers the same with and without the secret channel. -/
theorem who_hides_secret (cfg : Cfg) (w : World) (hI : InvCore w) (X : Str) (C : Channel)
    (hX : Map.lookup X w.channels = some C) (hs : C.modes.secret = true)
    (c : Nat) (ho : Outside w c C) (m : Str) :
    replyOf (processWho cfg c m) w = replyOf (processWho cfg c m) (hideChannel X w) :=
  (processWho_sim_strip cfg c X C m hX hs ho (not_mem_of_outside hI X C c hX ho) (simC X w)).direct

example (m : Str) : replyOf (processWho {} 1 m) demo =
    replyOf (processWho {} 1 m) (hideChannel (str "#sec") demo) :=
  who_hides_secret {} demo demo_inv (str "#sec") demoSec rfl rfl 1 demo_outside m
example : replyOf (processWho {} 1 (str "#sec")) demo =
    [(str ":irc.irc " ++ Reply.RplEndOfWho315 (client := str "alice") (mask := str "#sec"))] := by decide
example : replyOf (processWho {} 1 (str "#pub")) demo =
    [(str ":irc.irc " ++ Reply.RplWhoReply352 (client := str "alice") (channel := str "#pub") (username := str "alice") (host := str "h") (server := str "irc.irc") (nick := str "alice") (flags := str "H~") (hopcount := 0) (realname := str "R")),
     (str ":irc.irc " ++ Reply.RplWhoReply352 (client := str "alice") (channel := str "#pub") (username := str "bob") (host := str "h") (server := str "irc.irc") (nick := str "bob") (flags := str "H") (hopcount := 0) (realname := str "R")),
     (str ":irc.irc " ++ Reply.RplEndOfWho315 (client := str "alice") (mask := str "#pub"))] := by decide
/-- a member gets the member list -/
example : replyOf (processWho {} 2 (str "#sec")) demo =
    [(str ":irc.irc " ++ Reply.RplWhoReply352 (client := str "bob") (channel := str "#sec") (username := str "bob") (host := str "h") (server := str "irc.irc") (nick := str "bob") (flags := str "H~") (hopcount := 0) (realname := str "R")),
     (str ":irc.irc " ++ Reply.RplWhoReply352 (client := str "bob") (channel := str "#sec") (username := str "carol") (host := str "h") (server := str "irc.irc") (nick := str "carol") (flags := str "H") (hopcount := 0) (realname := str "R")),
     (str ":irc.irc " ++ Reply.RplEndOfWho315 (client := str "bob") (mask := str "#sec"))] := by decide

/-! ## 4. WHOIS -/

/-- WHOIS with any list of nicks / nick masks answers the same with and without the secret
    channel (319 never lists it; the +i test is not influenced by it). -/
theorem whois_hides_secret (cfg : Cfg) (w : World) (hI : InvCore w) (X : Str) (C : Channel)
    (hX : Map.lookup X w.channels = some C) (hs : C.modes.secret = true)
    (c : Nat) (ho : Outside w c C) (masks : List Str) :
    replyOf (processWhois cfg c none masks) w =
      replyOf (processWhois cfg c none masks) (hideChannel X w) :=
  (processWhois_sim_strip cfg c X C masks hX hs (not_mem_of_outside hI X C c hX ho) (simC X w)).direct

example (masks : List Str) : replyOf (processWhois {} 1 none masks) demo =
    replyOf (processWhois {} 1 none masks) (hideChannel (str "#sec") demo) :=
  whois_hides_secret {} demo demo_inv (str "#sec") demoSec rfl rfl 1 demo_outside masks
/-- bob is on `#pub`, `#sec`, `#oth`; alice's WHOIS shows only the two public ones -/
example : replyOf (processWhois {} 1 none [str "b*"]) demo =
    [(str ":irc.irc " ++ Reply.RplWhoIsUser311 (client := str "alice") (nick := str "bob") (username := str "bob") (host := str "h") (realname := str "R")), (str ":irc.irc " ++ Reply.RplWhoIsServer312 (client := str "alice") (nick := str "bob") (server := str "irc.irc") (server_info := str "This is IRC server")),
     str ":irc.irc 319 alice bob :#pub #oth",
     (str ":irc.irc " ++ Reply.RplwhoIsIdle317 (client := str "alice") (nick := str "bob") (secs := 0) (signon := 0)),
     (str ":irc.irc " ++ Reply.RplEndOfWhoIs318 (client := str "alice") (nick := str "b*"))] := by decide

/-! ## 5. an outsider cannot speak into a secret channel -/

/-- every way of addressing channel `X` in PRIVMSG/NOTICE: `X` itself or `X` with status
    prefixes (`@X`, `+X`, ...) -/
def Addresses (target X : Str) : Prop :=
  (getPrivmsgTargetType target).1.channel = true ∧ (getPrivmsgTargetType target).2 = X

instance (target X : Str) : Decidable (Addresses target X) := by
  unfold Addresses; infer_instance

/-- The speaking test fails for an outsider of a secret channel, and a PRIVMSG or NOTICE whose
    targets all address `X` delivers nothing to anybody (and changes neither users nor
    channels). -/
theorem cannot_speak_into_secret (cfg : Cfg) (w : World) (X : Str) (C : Channel)
    (hX : Map.lookup X w.channels = some C) (hs : C.modes.secret = true)
    (c : Nat) (ho : Outside w c C) :
    (∀ obs src, (Ctx.conn { w := w } c).nick = some obs → canSend C obs src = false) ∧
    (∀ (notice : Bool) (text : Str) (targets : List Str), (∀ t ∈ targets, Addresses t X) →
      (processPrivmsgNotice cfg c targets text notice { w := w }).queued = [] ∧
      (processPrivmsgNotice cfg c targets text notice { w := w }).w.channels = w.channels ∧
      (processPrivmsgNotice cfg c targets text notice { w := w }).w.users = w.users) := by
  refine ⟨fun obs src hn => canSend_secret_outside C obs src hs (ho obs hn), ?_⟩
  intro notice text targets ht
  exact processPrivmsgNotice_secret_outside cfg c notice text X C targets { w := w } hX hs ho ht

example : Addresses (str "#sec") (str "#sec") ∧ Addresses (str "@#sec") (str "#sec") ∧
    Addresses (str "~+#sec") (str "#sec") := by decide
example : (processPrivmsgNotice {} 1 [str "#sec", str "@#sec"] (str "hi") false { w := demo }).queued = [] :=
  ((cannot_speak_into_secret {} demo (str "#sec") demoSec rfl rfl 1 demo_outside).2 false (str "hi")
    [str "#sec", str "@#sec"] (by decide)).1
/-- a member's message is delivered -/
example : (processPrivmsgNotice {} 2 [str "#sec"] (str "hi") false { w := demo }).queued =
    [(3, str ":bob!~bob@h PRIVMSG #sec :hi")] := by decide
/-- Oddity outside the letter of C12 (PRIVMSG is not one of the four queries): the sender's error
    reply distinguishes a secret channel (404) from a non-existent one (403). -/
example : replyOf (processPrivmsgNotice {} 1 [str "#sec"] (str "hi") false) demo =
      [(str ":irc.irc " ++ Reply.ErrCannotSendToChain404 (client := str "alice") (channel := str "#sec"))] ∧
    replyOf (processPrivmsgNotice {} 1 [str "#sec"] (str "hi") false) (hideChannel (str "#sec") demo) =
      [(str ":irc.irc " ++ Reply.ErrNoSuchChannel403 (client := str "alice") (channel := str "#sec"))] := by decide

/-- one target, seen at the level of `privmsgTarget`: nothing queued, "not delivered", and the
    sender gets 404 (PRIVMSG) or nothing (NOTICE) -/
theorem privmsgTarget_into_secret (cfg : Cfg) (w : World) (X : Str) (C : Channel)
    (hX : Map.lookup X w.channels = some C) (hs : C.modes.secret = true)
    (c : Nat) (obs : Str) (hout : Map.contains obs C.users = false)
    (notice : Bool) (text target : Str) (ht : Addresses target X) :
    privmsgTarget cfg c obs notice text target { w := w } =
      (if !notice then
         ({ w := w } : Ctx).reply cfg (ErrCannotSendToChain404 (Ctx.conn { w := w } c).clientName X)
       else { w := w }, false) :=
  privmsgTarget_secret_outside cfg c obs notice text target X C { w := w } ht.1 ht.2 hX hs hout

/-! ## 6. invisible users -/

/-- WHO with any mask (a channel `v` is on, `v`'s own nick, a wildcard mask matching `v`, ...)
    answers a stranger the same with and without the invisible user `v`. -/
theorem who_hides_invisible (cfg : Cfg) (w : World) (hI : InvCore w) (v : Str) (vu : User)
    (hv : Map.lookup v w.users = some vu) (hinv : vu.modes.invisible = true)
    (c : Nat) (hst : Stranger w c v vu) (m : Str) :
    replyOf (processWho cfg c m) w = replyOf (processWho cfg c m) (hideUser v w) :=
  (processWho_sim_hideUser cfg c v vu m hv hinv hI.usersNodup hst (simU v w)).direct

example (m : Str) : replyOf (processWho {} 1 m) demo =
    replyOf (processWho {} 1 m) (hideUser (str "carol") demo) :=
  who_hides_invisible {} demo demo_inv (str "carol") demoCarol rfl rfl 1 demo_stranger m
/-- `#oth` = {carol (+i), bob}: alice sees only bob, by channel name, by nick, by wildcard -/
example : replyOf (processWho {} 1 (str "#oth")) demo =
    [(str ":irc.irc " ++ Reply.RplWhoReply352 (client := str "alice") (channel := str "#oth") (username := str "bob") (host := str "h") (server := str "irc.irc") (nick := str "bob") (flags := str "H") (hopcount := 0) (realname := str "R")),
     (str ":irc.irc " ++ Reply.RplEndOfWho315 (client := str "alice") (mask := str "#oth"))] := by decide
example : replyOf (processWho {} 1 (str "carol")) demo =
    [(str ":irc.irc " ++ Reply.RplEndOfWho315 (client := str "alice") (mask := str "carol"))] := by decide
example : replyOf (processWho {} 1 (str "*")) demo =
    [(str ":irc.irc " ++ Reply.RplWhoReply352 (client := str "alice") (channel := str "*") (username := str "alice") (host := str "h") (server := str "irc.irc") (nick := str "alice") (flags := str "H") (hopcount := 0) (realname := str "R")),
     (str ":irc.irc " ++ Reply.RplWhoReply352 (client := str "alice") (channel := str "*") (username := str "bob") (host := str "h") (server := str "irc.irc") (nick := str "bob") (flags := str "H") (hopcount := 0) (realname := str "R")),
     (str ":irc.irc " ++ Reply.RplEndOfWho315 (client := str "alice") (mask := str "*"))] := by decide
/-- bob shares a channel with carol and sees her -/
example : replyOf (processWho {} 2 (str "carol")) demo =
    [(str ":irc.irc " ++ Reply.RplWhoReply352 (client := str "bob") (channel := str "*") (username := str "carol") (host := str "h") (server := str "irc.irc") (nick := str "carol") (flags := str "H") (hopcount := 0) (realname := str "R")),
     (str ":irc.irc " ++ Reply.RplEndOfWho315 (client := str "bob") (mask := str "carol"))] := by decide

/-- WHOIS with any list of nicks / masks: same with and without `v`. -/
theorem whois_hides_invisible (cfg : Cfg) (w : World) (v : Str) (vu : User)
    (hv : Map.lookup v w.users = some vu) (hinv : vu.modes.invisible = true)
    (c : Nat) (hst : Stranger w c v vu) (masks : List Str) :
    replyOf (processWhois cfg c none masks) w =
      replyOf (processWhois cfg c none masks) (hideUser v w) :=
  (processWhois_sim_hideUser cfg c v vu masks hv hinv hst (simU v w)).direct

example (masks : List Str) : replyOf (processWhois {} 1 none masks) demo =
    replyOf (processWhois {} 1 none masks) (hideUser (str "carol") demo) :=
  whois_hides_invisible {} demo (str "carol") demoCarol rfl rfl 1 demo_stranger masks
example : replyOf (processWhois {} 1 none [str "carol", str "c*"]) demo =
    [(str ":irc.irc " ++ Reply.RplEndOfWhoIs318 (client := str "alice") (nick := str "carol,c*"))] := by decide

/-- NAMES, both forms (`chs = []` is the no-argument form, otherwise the explicit list, which may
    name channels `v` is on): same with and without `v`. -/
theorem names_hides_invisible (cfg : Cfg) (w : World) (hI : InvCore w) (v : Str) (vu : User)
    (hv : Map.lookup v w.users = some vu) (hinv : vu.modes.invisible = true)
    (c : Nat) (hst : Stranger w c v vu) (chs : List Str) :
    replyOf (processNames cfg c chs) w = replyOf (processNames cfg c chs) (hideUser v w) :=
  (processNames_sim_hideUser cfg c v vu hv hinv
    (fun e => (hst v e).1 rfl) hI.chansNodup
    (inChan_false_of_stranger hI v vu c hv hst) chs (simU v w)).direct

example (chs : List Str) : replyOf (processNames {} 1 chs) demo =
    replyOf (processNames {} 1 chs) (hideUser (str "carol") demo) :=
  names_hides_invisible {} demo demo_inv (str "carol") demoCarol rfl rfl 1 demo_stranger chs
example : replyOf (processNames {} 1 [str "#oth"]) demo =
    [str ":irc.irc 353 alice = #oth :bob", (str ":irc.irc " ++ Reply.RplEndOfNames366 (client := str "alice") (channel := str "#oth"))] := by
  decide

/-! ### what is NOT hidden about an invisible user

  LIST is not among the queries C12 lists for +i users, and indeed it counts invisible members:
  the 322 line of a channel `v` is on changes when `v` is hidden. -/

def list_hides_invisible_full : Prop :=
  ∀ (cfg : Cfg) (w : World) (v : Str) (vu : User) (c : Nat) (chs : List Str),
    InvCore w → Map.lookup v w.users = some vu → vu.modes.invisible = true → Stranger w c v vu →
    replyOf (processList cfg c chs none) w = replyOf (processList cfg c chs none) (hideUser v w)

theorem list_hides_invisible_full_false : ¬ list_hides_invisible_full := by
  intro h
  have := h {} demo (str "carol") demoCarol 1 [str "#oth"] demo_inv rfl rfl demo_stranger
  exact absurd this (by decide)

example : replyOf (processList {} 1 [str "#oth"] none) demo =
      [(str ":irc.irc " ++ Reply.RplListStart321 (client := str "alice")), (str ":irc.irc " ++ Reply.RplList322 (client := str "alice") (channel := str "#oth") (client_count := 2) (topic := str "")),
       (str ":irc.irc " ++ Reply.RplListEnd323 (client := str "alice"))] ∧
    replyOf (processList {} 1 [str "#oth"] none) (hideUser (str "carol") demo) =
      [(str ":irc.irc " ++ Reply.RplListStart321 (client := str "alice")), (str ":irc.irc " ++ Reply.RplList322 (client := str "alice") (channel := str "#oth") (client_count := 1) (topic := str "")),
       (str ":irc.irc " ++ Reply.RplListEnd323 (client := str "alice"))] := by decide

/-! ### the reading "`v` never connected": channels only `v` was on do not exist either

  `hideUser v w` keeps a channel whose only member was `v` as a channel without members.  In a
  world where `v` had never connected such an (ad-hoc) channel would not exist at all.  A channel
  without members is itself unobservable through NAMES, WHO and WHOIS — except, once more, by
  the explicit `NAMES` form when it is secret (the finding of section 2). -/

/-- the world without channel `Y` (users untouched; meant for a `Y` without members) -/
def dropChannel (Y : Str) (w : World) : World := { w with channels := Map.erase Y w.channels }

private theorem simE (Y : Str) (w : World) :
    Sim w.users w.users w.channels (Map.erase Y w.channels) w.conns
      { w := w } { w := dropChannel Y w } :=
  ⟨rfl, rfl, rfl, rfl, rfl, rfl, rfl⟩

/-- A channel without members changes no answer to NAMES (no-argument form; explicit form
    unless the channel is secret and named), WHO (any mask) and WHOIS (any masks), for any
    connection whatsoever. -/
theorem empty_channel_unobservable (cfg : Cfg) (w : World) (hn : (Map.keys w.channels).Nodup)
    (Y : Str) (E : Channel) (hY : Map.lookup Y w.channels = some E) (hE : E.users = []) (c : Nat) :
    (∀ chs, E.modes.secret = false ∨ Y ∉ chs →
      replyOf (processNames cfg c chs) w = replyOf (processNames cfg c chs) (dropChannel Y w)) ∧
    (∀ m, replyOf (processWho cfg c m) w = replyOf (processWho cfg c m) (dropChannel Y w)) ∧
    (∀ masks, replyOf (processWhois cfg c none masks) w =
      replyOf (processWhois cfg c none masks) (dropChannel Y w)) :=
  ⟨fun chs hok => (processNames_sim_empty cfg c Y E chs hY hE hn hok (simE Y w)).direct,
   fun m => (processWho_sim_empty cfg c Y E m hY hE (simE Y w)).direct,
   fun masks => (processWhois_sim_empty cfg c Y E masks hY hE (simE Y w)).direct⟩

/-- Invisible `v` together with a channel `Y` on which `v` is alone: a stranger gets the same
    answers as in the world with neither `v` nor `Y` — to WHO, to WHOIS, and to NAMES unless `Y`
    is secret and named explicitly. -/
theorem invisible_and_lone_channel_hidden (cfg : Cfg) (w : World) (hI : InvCore w)
    (v : Str) (vu : User) (hv : Map.lookup v w.users = some vu) (hinv : vu.modes.invisible = true)
    (c : Nat) (hst : Stranger w c v vu)
    (Y : Str) (C : Channel) (m : ChanUserModes)
    (hY : Map.lookup Y w.channels = some C) (hlone : C.users = [(v, m)]) :
    (∀ chs, C.modes.secret = false ∨ Y ∉ chs →
      replyOf (processNames cfg c chs) w =
        replyOf (processNames cfg c chs) (dropChannel Y (hideUser v w))) ∧
    (∀ mk, replyOf (processWho cfg c mk) w =
      replyOf (processWho cfg c mk) (dropChannel Y (hideUser v w))) ∧
    (∀ masks, replyOf (processWhois cfg c none masks) w =
      replyOf (processWhois cfg c none masks) (dropChannel Y (hideUser v w))) := by
  have hn : (Map.keys (hideUser v w).channels).Nodup := by
    show (Map.keys (stripUserC v w.channels)).Nodup
    rw [keys_stripUserC]; exact hI.chansNodup
  have hY' : Map.lookup Y (hideUser v w).channels = some (stripMember v C) := by
    show Map.lookup Y (stripUserC v w.channels) = _
    rw [lookup_stripUserC, hY]; rfl
  have hE : (stripMember v C).users = [] := by
    show Map.erase v C.users = []
    rw [hlone]; simp [Map.erase]
  obtain ⟨h1, h2, h3⟩ := empty_channel_unobservable cfg (hideUser v w) hn Y (stripMember v C) hY' hE c
  refine ⟨fun chs hok => ?_, fun mk => ?_, fun masks => ?_⟩
  · rw [names_hides_invisible cfg w hI v vu hv hinv c hst chs]
    exact h1 chs hok
  · rw [who_hides_invisible cfg w hI v vu hv hinv c hst mk]
    exact h2 mk
  · rw [whois_hides_invisible cfg w v vu hv hinv c hst masks]
    exact h3 masks

/-- the demo world plus `dave` (+i, connection 4), alone on the public `#solo` and on the
    secret `#den` -/
def demoDave : User := mkUser (str "dave") 4 [str "#solo", str "#den"] true

def demo2 : World :=
  { demo with
    users := demo.users ++ [(str "dave", demoDave)]
    channels := demo.channels ++
      [(str "#solo", { users := [(str "dave", ChanUserModes.createdChannel)],
                       modes := { operators := [str "dave"], founders := [str "dave"] } }),
       (str "#den", { users := [(str "dave", ChanUserModes.createdChannel)],
                      modes := { secret := true, operators := [str "dave"], founders := [str "dave"] } })]
    invisibleCount := 2
    maxUsers := 4
    conns := demo.conns ++ [mkConn 4 (str "dave")]
    connsCount := 4 }

theorem demo2_inv : InvCore demo2 := invCore_of_check demo2 (by decide) (by decide)

theorem demo2_stranger : Stranger demo2 1 (str "dave") demoDave :=
  stranger_of_observer (cn := mkConn 1 (str "alice")) (obs := str "alice")
    (ou := mkUser (str "alice") 1 [str "#pub"]) rfl rfl (by decide) rfl (by decide)

/-- public lone channel: `NAMES #solo` is the bare 366 line in all three worlds -/
example : replyOf (processNames {} 1 [str "#solo"]) demo2 =
      [(str ":irc.irc " ++ Reply.RplEndOfNames366 (client := str "alice") (channel := str "#solo"))] ∧
    replyOf (processNames {} 1 [str "#solo"]) (hideUser (str "dave") demo2) =
      [(str ":irc.irc " ++ Reply.RplEndOfNames366 (client := str "alice") (channel := str "#solo"))] ∧
    replyOf (processNames {} 1 [str "#solo"]) (dropChannel (str "#solo") (hideUser (str "dave") demo2)) =
      [(str ":irc.irc " ++ Reply.RplEndOfNames366 (client := str "alice") (channel := str "#solo"))] := by decide

example (chs : List Str) (h : (str "#den") ∉ chs) :
    replyOf (processNames {} 1 chs) demo2 =
      replyOf (processNames {} 1 chs) (dropChannel (str "#den") (hideUser (str "dave") demo2)) :=
  (invisible_and_lone_channel_hidden {} demo2 demo2_inv (str "dave") demoDave rfl rfl 1 demo2_stranger
    (str "#den") _ _ rfl rfl).1 chs (Or.inr h)

/-- the full statement for NAMES in this reading; FALSE for a secret lone channel -/
def names_hides_invisible_gone_full : Prop :=
  ∀ (cfg : Cfg) (w : World) (v : Str) (vu : User) (c : Nat) (Y : Str) (C : Channel)
    (m : ChanUserModes) (chs : List Str),
    InvCore w → Map.lookup v w.users = some vu → vu.modes.invisible = true → Stranger w c v vu →
    Map.lookup Y w.channels = some C → C.users = [(v, m)] →
    replyOf (processNames cfg c chs) w =
      replyOf (processNames cfg c chs) (dropChannel Y (hideUser v w))

/-- secret lone channel: `NAMES #den` answers nothing while `dave` is there and 366 in the world
    where neither exists (the same defect as `names_explicit_secret_diff`) -/
theorem names_hides_invisible_gone_full_false : ¬ names_hides_invisible_gone_full := by
  intro h
  have := h {} demo2 (str "dave") demoDave 1 (str "#den") _ _ [str "#den"] demo2_inv rfl rfl
    demo2_stranger rfl rfl
  exact absurd this (by decide)

end Irc.C12
