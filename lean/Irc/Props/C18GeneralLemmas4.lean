/-
  Property C18, general serialisability, part 4: the refinement invariant `SimW`.

  `ρ` is a BASE state.  The interleaved state is `ρ` with the local updates of the connections that
  are AHEAD (between the counter section / A1 / prelude and A3: their record, reply buffer and
  program counter — and the command counter — already show the effect of sections whose command is
  not yet serialised) and the state of the sequential run of the commands serialised so far
  (`done`) is `ρ` with the local updates of the connections that are BEHIND (an unregistered `NICK`
  whose nick was free at A1 and whose decision is not "good" is serialised at A1 although its A2 — a
  purely local step — has not run yet).

  Everything is parametric in the section-list function `split` (`splitCore`: without the counter
  sections, `splitCommand`: with them), of which only `SplitShape` is used.
-/
import Irc.Props.C18GeneralLemmas3

namespace Irc.C18G

open Irc Irc.Conc Reply Irc.C18F

/-! ### the status of a connection -/

inductive St
  /-- no command in progress, or the command in progress is serialised and all its remaining
      sections are no-ops -/
  | idle
  /-- a split command after its counter section -/
  | counted (i : Nat) (cn : Conn)
  /-- unregistered `NICK n`, after A1 (nick free; decision "good"); `cnt` = the pending bump -/
  | nick1 (cnt : Option Nat) (n : Str) (cn : Conn) (r : Bool)
  /-- … after A2 -/
  | nick2 (cnt : Option Nat) (n : Str) (cn : Conn) (r : Bool)
  /-- unregistered `NICK`, nick free at A1, decision not "good": serialised at A1, A2 still to run;
      `cn1` is the record after A1 -/
  | nickB (cn1 : Conn)
  /-- `PASS` / `USER` / `CAP END` after the prelude -/
  | pre (cnt : Option Nat) (cmd : Command) (cn cn' : Conn)

def St.isIdle : St → Bool
  | .idle => true
  | _ => false

/-- the command in progress is not yet in the list of the serialised commands -/
def St.pendingLine : St → Bool
  | .counted .. | .nick1 .. | .nick2 .. | .pre .. => true
  | _ => false

/-- the local update by which the interleaved state is ahead of the base state -/
def eaOf (cfg : Cfg) : St → Upd
  | .idle => idU
  | .counted i _ => cntU (some i)
  | .nick1 cnt n cn _ => (nick1U n cn).withCnt cnt
  | .nick2 cnt n cn r => (nick2U n cn r).withCnt cnt
  | .nickB _ => idU
  | .pre cnt _ _ cn' => (preU cfg cn').withCnt cnt

/-- the local update by which the sequential state is ahead of the base state -/
def ebOf (cfg : Cfg) : St → Upd
  | .nickB cn1 => decU cfg cn1
  | _ => idU

/-- what the status of connection `c` says about the base state, the pending sections and the
    current line of `c` -/
def Good (cfg : Cfg) (split : Bool → Nat → Str → List Section) (ρ : CState) (c : Nat)
    (pend : List Section) (cur : Str) : St → Prop
  | .idle => ρ.pc c = .idle ∧ ∀ s ∈ pend, s = .authDecide c ∨ s = .authCommit c ∨ s = .touch c
  | .counted i cn =>
    ρ.w.conn? c = some cn ∧ cn.authenticated = false ∧ ρ.pc c = .idle ∧
    split false c cur = cntSec c (some i) ++ pend ∧
    ((isNickLine cur = true ∧ ∃ n, pend = nickSections c n) ∨
     (isNickLine cur = false ∧ ∃ cmd, (∀ cn, ∃ cn', preludeConn cmd cn = some cn') ∧
        pend = [.prelude c cmd, .authCommit c]))
  | .nick1 cnt n cn r =>
    ρ.w.conn? c = some cn ∧ cn.authenticated = false ∧ ρ.pc c = .idle ∧
    authDecision cfg (cn.setNick n) = .decided true r ∧ pend = [.authDecide c, .authCommit c] ∧
    isNickLine cur = true ∧ split false c cur = cntSec c cnt ++ nickSections c n
  | .nick2 cnt n cn r =>
    ρ.w.conn? c = some cn ∧ cn.authenticated = false ∧ ρ.pc c = .idle ∧
    authDecision cfg (cn.setNick n) = .decided true r ∧ pend = [.authCommit c] ∧
    isNickLine cur = true ∧ split false c cur = cntSec c cnt ++ nickSections c n
  | .nickB cn1 =>
    ρ.w.conn? c = some cn1 ∧ cn1.authenticated = false ∧ ρ.pc c = .toDecide ∧
    (∀ r, authDecision cfg cn1 ≠ .decided true r) ∧ pend = [.authDecide c, .authCommit c]
  | .pre cnt cmd cn cn' =>
    ρ.w.conn? c = some cn ∧ cn.authenticated = false ∧ ρ.pc c = .idle ∧
    preludeConn cmd cn = some cn' ∧ pend = [.authCommit c] ∧
    isNickLine cur = false ∧ split false c cur = cntSec c cnt ++ [.prelude c cmd, .authCommit c]

theorem preU_proper (cfg : Cfg) (cn' : Conn) : (preU cfg cn').Proper cn'.id := by
  intro cn h
  simp only [preU, Option.some.injEq] at h
  subst h
  cases hc : (decU cfg cn').conn with
  | none => rfl
  | some cn'' => exact decU_proper cfg cn' cn'' hc

section
variable {cfg : Cfg} {split : Bool → Nat → Str → List Section} {ρ : CState} {c : Nat}
  {p : List Section} {k : Str} {s : St}

theorem Good.proper_a (h : Good cfg split ρ c p k s) : (eaOf cfg s).Proper c := by
  cases s with
  | idle => exact idU_proper c
  | counted i cn => exact cntU_proper _ c
  | nick1 cnt n cn r =>
    intro cn' e
    simp only [eaOf, nick1U, Upd.withCnt, Option.some.injEq] at e
    subst e
    exact (conn?_id h.1 : cn.id = c)
  | nick2 cnt n cn r =>
    intro cn' e
    simp only [eaOf, nick2U, Upd.withCnt, Option.some.injEq] at e
    subst e
    exact (conn?_id h.1 : cn.id = c)
  | nickB cn1 => exact idU_proper c
  | pre cnt cmd cn cn' =>
    have : cn'.id = c := (preludeConn_id h.2.2.2.1).trans (conn?_id h.1)
    exact withCnt_proper (this ▸ preU_proper cfg cn') cnt

theorem Good.proper_b (h : Good cfg split ρ c p k s) : (ebOf cfg s).Proper c := by
  cases s with
  | nickB cn1 =>
    have : cn1.id = c := conn?_id h.1
    exact this ▸ decU_proper cfg cn1
  | _ => exact idU_proper c

theorem ebOf_cnt (cfg : Cfg) (s : St) : (ebOf cfg s).cnt = none := by
  cases s with
  | nickB cn1 => exact decU_cnt cfg cn1
  | _ => rfl

theorem Good.frame {ρ' : CState} (h : Good cfg split ρ c p k s)
    (hc : s.isIdle = false → ρ'.w.conn? c = ρ.w.conn? c)
    (hpc : ρ'.pc c = ρ.pc c) : Good cfg split ρ' c p k s := by
  cases s with
  | idle => exact ⟨hpc.trans h.1, h.2⟩
  | counted i cn => exact ⟨(hc rfl).trans h.1, h.2.1, hpc.trans h.2.2.1, h.2.2.2⟩
  | nick1 cnt n cn r => exact ⟨(hc rfl).trans h.1, h.2.1, hpc.trans h.2.2.1, h.2.2.2⟩
  | nick2 cnt n cn r => exact ⟨(hc rfl).trans h.1, h.2.1, hpc.trans h.2.2.1, h.2.2.2⟩
  | nickB cn1 => exact ⟨(hc rfl).trans h.1, h.2.1, hpc.trans h.2.2.1, h.2.2.2⟩
  | pre cnt cmd cn cn' => exact ⟨(hc rfl).trans h.1, h.2.1, hpc.trans h.2.2.1, h.2.2.2⟩

theorem Good.pend_ne_nil (h : Good cfg split ρ c p k s) (hs : s.isIdle = false) : p ≠ [] := by
  cases s with
  | idle => cases hs
  | counted i cn =>
    rcases h.2.2.2.2 with ⟨_, n, e⟩ | ⟨_, cmd, _, e⟩
    · rw [e]; simp [nickSections]
    · rw [e]; simp
  | nick1 cnt n cn r => rw [h.2.2.2.2.1]; simp
  | nick2 cnt n cn r => rw [h.2.2.2.2.1]; simp
  | nickB cn1 => rw [h.2.2.2.2]; simp
  | pre cnt cmd cn cn' => rw [h.2.2.2.2.1]; simp

/-- a connection in the middle of a split command is unauthenticated in the sequential state -/
theorem Good.seq_unauth (h : Good cfg split ρ c p k s) (hs : s.isIdle = false) :
    ∃ cn0, ρ.w.conn? c = some cn0 ∧ (((ebOf cfg s).conn).getD cn0).authenticated = false := by
  cases s with
  | idle => cases hs
  | counted i cn => exact ⟨cn, h.1, h.2.1⟩
  | nick1 cnt n cn r => exact ⟨cn, h.1, h.2.1⟩
  | nick2 cnt n cn r => exact ⟨cn, h.1, h.2.1⟩
  | nickB cn1 =>
    refine ⟨cn1, h.1, ?_⟩
    rcases decU_conn_auth cfg cn1 h.2.2.2.1 with e | e
    · exact e.trans h.2.1
    · exact e
  | pre cnt cmd cn cn' => exact ⟨cn, h.1, h.2.1⟩

theorem noCount_cntSec {cnt : Option Nat} {L : List Section} {auth : Bool} {line : Str}
    (hnc : NoCount split) (h : split auth c line = cntSec c cnt ++ L) : cnt = none := by
  cases cnt with
  | none => rfl
  | some i =>
    have := hnc auth c line (.count c i) (by rw [h]; simp [cntSec])
    cases this

/-- without counter sections there is no pending bump -/
theorem Good.cnt_none (hnc : NoCount split) (h : Good cfg split ρ c p k s) :
    (eaOf cfg s).cnt = none := by
  cases s with
  | idle => rfl
  | counted i cn => exact absurd (noCount_cntSec hnc h.2.2.2.1) (by simp)
  | nick1 cnt n cn r => exact noCount_cntSec hnc h.2.2.2.2.2.2
  | nick2 cnt n cn r => exact noCount_cntSec hnc h.2.2.2.2.2.2
  | nickB cn1 => rfl
  | pre cnt cmd cn cn' => exact noCount_cntSec hnc h.2.2.2.2.2.2

end

/-! ### the invariant -/

structure SimW (cfg : Cfg) (split : Bool → Nat → Str → List Section) (cs : List Nat)
    (σ₀ : CState) (prog : Nat → List Str) (S : Sys)
    (done : List (Nat × Str)) (ρ : CState) (st : Nat → St) : Prop where
  nodup : cs.Nodup
  hσ : S.σ = applyOn cs (fun d => eaOf cfg (st d)) ρ
  hτ : seqRun cfg split done σ₀ = applyOn cs (fun d => ebOf cfg (st d)) ρ
  good : ∀ d, Good cfg split ρ d (S.pend d) (S.cur d) (st d)
  incs : ∀ d, (st d).isIdle = false → d ∈ cs
  out : ∀ d, d ∉ cs → S.todo d = [] ∧ S.pend d = []
  inv : InvCore (seqRun cfg split done σ₀).w
  live : ∀ d ∈ cs, Live (seqRun cfg split done σ₀).w d
  progs : ∀ d, prog d =
    linesOf d done ++ (if (st d).pendingLine then [S.cur d] else []) ++ S.todo d
  /-- the lines still to come commute with the counter bumps (needed only if there are counter
      sections) -/
  bcl : ∀ d, ∀ l ∈ S.todo d, NoCount split ∨ BumpCommLine cfg d l

section
variable {cfg : Cfg} {split : Bool → Nat → Str → List Section} {cs : List Nat} {σ₀ : CState}
  {prog : Nat → List Str} {S : Sys} {done : List (Nat × Str)} {ρ : CState} {st : Nat → St}

theorem SimW.propA (h : SimW cfg split cs σ₀ prog S done ρ st) (d : Nat) :
    (eaOf cfg (st d)).Proper d := (h.good d).proper_a

theorem SimW.propB (h : SimW cfg split cs σ₀ prog S done ρ st) (d : Nat) :
    (ebOf cfg (st d)).Proper d := (h.good d).proper_b

theorem eaOf_idle {s : St} (h : s.isIdle = true) : eaOf cfg s = idU := by
  cases s <;> first | rfl | cases h

theorem ebOf_idle {s : St} (h : s.isIdle = true) : ebOf cfg s = idU := by
  cases s <;> first | rfl | cases h

/-- a connection in the middle of a split command owns no user -/
theorem SimW.noOwn (h : SimW cfg split cs σ₀ prog S done ρ st) {d : Nat}
    (hd : (st d).isIdle = false) : NoOwn d ρ.w := by
  obtain ⟨cn0, hc0, hau⟩ := (h.good d).seq_unauth hd
  have hτc : (seqRun cfg split done σ₀).w.conn? d =
      some (((ebOf cfg (st d)).conn).getD cn0) := by
    rw [h.hτ]
    exact applyOn_conn_self (e := fun d => ebOf cfg (st d)) h.propB h.nodup (h.incs d hd) hc0
  have := noOwn_of_invCore h.inv hτc hau
  intro n u hl
  apply this n u
  rw [h.hτ, applyOn_users]
  exact hl

end

/-! ### small facts about `upd` -/

theorem upd_same {α : Type} (f : Nat → α) (c : Nat) : upd f c (f c) = f := by
  funext d
  by_cases h : d = c
  · subst h; simp
  · simp [upd, h]

theorem upd_upd {α : Type} (f : Nat → α) (c : Nat) (u v : α) : upd (upd f c u) c v = upd f c v := by
  funext d
  by_cases h : d = c
  · subst h; simp
  · simp [upd, h]

theorem comp_upd {α β : Type} (g : α → β) (f : Nat → α) (c : Nat) (v : α) :
    (fun d => g (upd f c v d)) = upd (fun d => g (f d)) c (g v) := by
  funext d
  by_cases h : d = c
  · subst h; simp
  · simp [upd, h]

theorem upd_proper {E : Nat → Upd} {c : Nat} {u : Upd} (hE : ∀ d, (E d).Proper d)
    (hu : u.Proper c) : ∀ d, (upd E c u d).Proper d := by
  intro d
  by_cases h : d = c
  · subst h; rw [upd_self]; exact hu
  · rw [upd_ne _ _ h]; exact hE d

/-! ### one section of `c` under the local updates of everybody -/

/-- if the section of `c` turns the local update `u` of `c` over the base `ρ` into the local update
    `u'` over the base `ρ'`, it does so under the local updates of all other connections -/
theorem step_applyOn_local (cfg : Cfg) {s : Section} (hp : isProg s = true) {cs : List Nat}
    {E : Nat → Upd} {c : Nat} {u u' : Upd} {ρ ρ' : CState} (hsc : s.conn = c) (hnd : cs.Nodup)
    (hc : c ∈ cs) (hE : ∀ d, (E d).Proper d) (hu : u.Proper c) (hu' : u'.Proper c)
    (hown : ∀ d ∈ cs, d ≠ c → E d = idU ∨
      ((isWhole s = true → NoOwn d ρ.w) ∧ ((E d).cnt = none ∨ BumpComm cfg s)))
    (heq : stepSection cfg s (u.app c ρ) = u'.app c ρ') :
    stepSection cfg s (applyOn cs (upd E c u) ρ) = applyOn cs (upd E c u') ρ' := by
  rw [applyOn_extract (upd_proper hE hu) hnd hc, upd_self, upd_upd,
    applyOn_extract (e := upd E c u') (upd_proper hE hu') hnd hc, upd_self, upd_upd, ← heq]
  apply step_comm_applyOn cfg hp
  intro d hd
  by_cases hdc : d = c
  · subst hdc; left; exact upd_self _ _ _
  · rw [upd_ne _ _ hdc]
    rcases hown d hd hdc with e0 | ⟨ho, hb⟩
    · exact .inl e0
    · refine .inr ⟨by rw [hsc]; exact fun e => hdc e.symm, hE d, fun hw n usr hl => ?_, hb⟩
      rw [Upd.app_users] at hl
      exact ho hw n usr hl

/-- … and it leaves the local components of the other connections in the base state alone -/
theorem frame_of_local (cfg : Cfg) {s : Section} (hp : isProg s = true) {c : Nat} {u u' : Upd}
    {ρ ρ' : CState} (hsc : s.conn = c) (hu : u.Proper c) (hu' : u'.Proper c)
    (heq : stepSection cfg s (u.app c ρ) = u'.app c ρ') {d : Nat} (hd : d ≠ c) :
    ((isWhole s = true → NoOwn d ρ.w) → ρ'.w.conn? d = ρ.w.conn? d) ∧ ρ'.pc d = ρ.pc d := by
  have hne : s.conn ≠ d := by rw [hsc]; exact fun e => hd e.symm
  constructor
  · intro ho
    rw [← Upd.app_conn_ne hu' ρ' hd, ← heq, step_conn_ne cfg hne hp (fun hw n usr hl => by
      rw [Upd.app_users] at hl; exact ho hw n usr hl), Upd.app_conn_ne hu ρ hd]
  · rw [← Upd.app_pc_ne u' ρ' hd, ← heq, step_pc_ne cfg hne, Upd.app_pc_ne u ρ hd]

/-! ### re-establishing the invariant after a move of `c` -/

/-- the system after a move of `c` -/
def mkS (S : Sys) (c : Nat) (σ' : CState) (t' : List Str) (p' : List Section) (k' : Str) : Sys :=
  { σ := σ', todo := upd S.todo c t', pend := upd S.pend c p', cur := upd S.cur c k' }

theorem simW_update {cfg : Cfg} {split : Bool → Nat → Str → List Section} {cs : List Nat}
    {σ₀ : CState} {prog : Nat → List Str} {S : Sys}
    {done done' : List (Nat × Str)} {ρ ρ' : CState} {st : Nat → St} {c : Nat} {s' : St}
    {σ' : CState} {t' : List Str} {p' : List Section} {k' : Str}
    (h : SimW cfg split cs σ₀ prog S done ρ st) (hc : c ∈ cs)
    (hσ' : σ' = applyOn cs (upd (fun d => eaOf cfg (st d)) c (eaOf cfg s')) ρ')
    (hτ' : seqRun cfg split done' σ₀ =
      applyOn cs (upd (fun d => ebOf cfg (st d)) c (ebOf cfg s')) ρ')
    (hframe : ∀ d, d ≠ c →
      ((st d).isIdle = false → ρ'.w.conn? d = ρ.w.conn? d) ∧ ρ'.pc d = ρ.pc d)
    (hgood : Good cfg split ρ' c p' k' s')
    (hinv : InvCore (seqRun cfg split done' σ₀).w)
    (hlive : ∀ d ∈ cs, Live (seqRun cfg split done' σ₀).w d)
    (hprogc : prog c = linesOf c done' ++ (if s'.pendingLine then [k'] else []) ++ t')
    (hprogo : ∀ d, d ≠ c → linesOf d done' = linesOf d done)
    (hbcl : ∀ l ∈ t', NoCount split ∨ BumpCommLine cfg c l) :
    SimW cfg split cs σ₀ prog (mkS S c σ' t' p' k') done' ρ' (upd st c s') where
  nodup := h.nodup
  hσ := by rw [comp_upd]; exact hσ'
  hτ := by rw [comp_upd]; exact hτ'
  good := by
    intro d
    by_cases hd : d = c
    · subst hd; simp only [mkS, upd_self]; exact hgood
    · simp only [mkS, upd_ne _ _ hd]
      exact (h.good d).frame (hframe d hd).1 (hframe d hd).2
  incs := by
    intro d hi
    by_cases hd : d = c
    · subst hd; exact hc
    · rw [upd_ne _ _ hd] at hi; exact h.incs d hi
  out := by
    intro d hd
    have hdc : d ≠ c := fun e => hd (e ▸ hc)
    simp only [mkS, upd_ne _ _ hdc]
    exact h.out d hd
  inv := hinv
  live := hlive
  progs := by
    intro d
    by_cases hd : d = c
    · subst hd; simp only [mkS, upd_self]; exact hprogc
    · simp only [mkS, upd_ne _ _ hd, hprogo d hd]
      exact h.progs d
  bcl := by
    intro d l hl
    by_cases hd : d = c
    · subst hd; simp only [mkS, upd_self] at hl; exact hbcl l hl
    · simp only [mkS, upd_ne _ _ hd] at hl; exact h.bcl d l hl

end Irc.C18G
