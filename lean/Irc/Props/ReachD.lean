/-
  Irc.Props.ReachD — reachability corollaries, part D: properties C11 (operator status) and
  C12 (secret channels and invisible users are hidden from outsiders).

  C12: every theorem of `Irc/Props/C12.lean` with an `InvCore w` hypothesis, restated with
  `(hr : Reachable cfg w)` in its place (see the header of `ReachA.lean`).  These are
  two-world theorems: `w` is the real world — the one that has to be reachable — and
  `hideChannel X w` / `hideUser v w` is the hypothetical world it is compared with (no
  hypothesis is made about that one).

  C11: the theorems of `Irc/Props/C11.lean` hold for ALL worlds, except one conjunct of
  `wallops_audience` that is stated under `InvCore x.w →`; it is restated for reachable worlds.
  The headline `oper_rises_only_by_oper` gets a trace-level form.
-/
import Irc.Props.ReachA
import Irc.Props.C11
import Irc.Props.C12

/-! ## C12 -/

namespace Irc.Reach.C12
open Irc Irc.Reply Irc.C12

theorem list_hides_secret_reachable
    (cfg : Cfg) (w : World) (hr : Reachable cfg w) (X : Str) (C : Channel)
    (hX : Map.lookup X w.channels = some C) (hs : C.modes.secret = true) (c : Nat) (chs : List Str) :
    replyOf (processList cfg c chs none) w = replyOf (processList cfg c chs none) (hideChannel X w) :=
  list_hides_secret cfg w (core_reachable hr) X C hX hs c chs

theorem names_hides_secret_all_reachable
    (cfg : Cfg) (w : World) (hr : Reachable cfg w) (X : Str) (C : Channel)
    (hX : Map.lookup X w.channels = some C) (hs : C.modes.secret = true) (c : Nat)
    (ho : Outside w c C) :
    replyOf (processNames cfg c []) w = replyOf (processNames cfg c []) (hideChannel X w) :=
  names_hides_secret_all cfg w (core_reachable hr) X C hX hs c ho

theorem who_hides_secret_reachable
    (cfg : Cfg) (w : World) (hr : Reachable cfg w) (X : Str) (C : Channel)
    (hX : Map.lookup X w.channels = some C) (hs : C.modes.secret = true) (c : Nat)
    (ho : Outside w c C) (m : Str) :
    replyOf (processWho cfg c m) w = replyOf (processWho cfg c m) (hideChannel X w) :=
  who_hides_secret cfg w (core_reachable hr) X C hX hs c ho m

theorem whois_hides_secret_reachable
    (cfg : Cfg) (w : World) (hr : Reachable cfg w) (X : Str) (C : Channel)
    (hX : Map.lookup X w.channels = some C) (hs : C.modes.secret = true) (c : Nat)
    (ho : Outside w c C) (masks : List Str) :
    replyOf (processWhois cfg c none masks) w =
      replyOf (processWhois cfg c none masks) (hideChannel X w) :=
  whois_hides_secret cfg w (core_reachable hr) X C hX hs c ho masks

theorem who_hides_invisible_reachable
    (cfg : Cfg) (w : World) (hr : Reachable cfg w) (v : Str) (vu : User)
    (hv : Map.lookup v w.users = some vu) (hinv : vu.modes.invisible = true) (c : Nat)
    (hst : Stranger w c v vu) (m : Str) :
    replyOf (processWho cfg c m) w = replyOf (processWho cfg c m) (hideUser v w) :=
  who_hides_invisible cfg w (core_reachable hr) v vu hv hinv c hst m

theorem names_hides_invisible_reachable
    (cfg : Cfg) (w : World) (hr : Reachable cfg w) (v : Str) (vu : User)
    (hv : Map.lookup v w.users = some vu) (hinv : vu.modes.invisible = true) (c : Nat)
    (hst : Stranger w c v vu) (chs : List Str) :
    replyOf (processNames cfg c chs) w = replyOf (processNames cfg c chs) (hideUser v w) :=
  names_hides_invisible cfg w (core_reachable hr) v vu hv hinv c hst chs

theorem invisible_and_lone_channel_hidden_reachable
    (cfg : Cfg) (w : World) (hr : Reachable cfg w) (v : Str) (vu : User)
    (hv : Map.lookup v w.users = some vu) (hinv : vu.modes.invisible = true) (c : Nat)
    (hst : Stranger w c v vu) (Y : Str) (C : Channel) (m : ChanUserModes)
    (hY : Map.lookup Y w.channels = some C) (hlone : C.users = [(v, m)]) :
    (∀ chs, C.modes.secret = false ∨ Y ∉ chs →
      replyOf (processNames cfg c chs) w =
        replyOf (processNames cfg c chs) (dropChannel Y (hideUser v w))) ∧
    (∀ mk, replyOf (processWho cfg c mk) w =
      replyOf (processWho cfg c mk) (dropChannel Y (hideUser v w))) ∧
    (∀ masks, replyOf (processWhois cfg c none masks) w =
      replyOf (processWhois cfg c none masks) (dropChannel Y (hideUser v w))) :=
  invisible_and_lone_channel_hidden cfg w (core_reachable hr) v vu hv hinv c hst Y C m hY hlone

/-! ### trace-level forms: after ANY well-scheduled event list, what the querying connection `c`
    gets back is the same as in the world where the secret channel does not exist -/

/-- **C12 over whole executions**, LIST -/
theorem list_hides_secret_run (cfg : Cfg) (evs : List Event) (hs : SchedAll cfg evs) (X : Str)
    (C : Channel) (hX : Map.lookup X (run cfg evs).channels = some C) (hsec : C.modes.secret = true)
    (c : Nat) (chs : List Str) :
    replyOf (processList cfg c chs none) (run cfg evs) =
      replyOf (processList cfg c chs none) (hideChannel X (run cfg evs)) :=
  list_hides_secret_reachable cfg (run cfg evs) (reachable_run hs) X C hX hsec c chs

/-- **C12 over whole executions**, WHO -/
theorem who_hides_secret_run (cfg : Cfg) (evs : List Event) (hs : SchedAll cfg evs) (X : Str)
    (C : Channel) (hX : Map.lookup X (run cfg evs).channels = some C) (hsec : C.modes.secret = true)
    (c : Nat) (ho : Outside (run cfg evs) c C) (m : Str) :
    replyOf (processWho cfg c m) (run cfg evs) =
      replyOf (processWho cfg c m) (hideChannel X (run cfg evs)) :=
  who_hides_secret_reachable cfg (run cfg evs) (reachable_run hs) X C hX hsec c ho m

/-- **C12 over whole executions**, WHOIS -/
theorem whois_hides_secret_run (cfg : Cfg) (evs : List Event) (hs : SchedAll cfg evs) (X : Str)
    (C : Channel) (hX : Map.lookup X (run cfg evs).channels = some C) (hsec : C.modes.secret = true)
    (c : Nat) (ho : Outside (run cfg evs) c C) (masks : List Str) :
    replyOf (processWhois cfg c none masks) (run cfg evs) =
      replyOf (processWhois cfg c none masks) (hideChannel X (run cfg evs)) :=
  whois_hides_secret_reachable cfg (run cfg evs) (reachable_run hs) X C hX hsec c ho masks

/-- **C12 over whole executions**, NAMES without parameters -/
theorem names_hides_secret_all_run (cfg : Cfg) (evs : List Event) (hs : SchedAll cfg evs) (X : Str)
    (C : Channel) (hX : Map.lookup X (run cfg evs).channels = some C) (hsec : C.modes.secret = true)
    (c : Nat) (ho : Outside (run cfg evs) c C) :
    replyOf (processNames cfg c []) (run cfg evs) =
      replyOf (processNames cfg c []) (hideChannel X (run cfg evs)) :=
  names_hides_secret_all_reachable cfg (run cfg evs) (reachable_run hs) X C hX hsec c ho

/-- **C12 over whole executions**, invisible users: WHO and NAMES -/
theorem hides_invisible_run (cfg : Cfg) (evs : List Event) (hs : SchedAll cfg evs) (v : Str)
    (vu : User) (hv : Map.lookup v (run cfg evs).users = some vu) (hinv : vu.modes.invisible = true)
    (c : Nat) (hst : Stranger (run cfg evs) c v vu) :
    (∀ m, replyOf (processWho cfg c m) (run cfg evs) =
      replyOf (processWho cfg c m) (hideUser v (run cfg evs))) ∧
    (∀ chs, replyOf (processNames cfg c chs) (run cfg evs) =
      replyOf (processNames cfg c chs) (hideUser v (run cfg evs))) :=
  ⟨who_hides_invisible_reachable cfg (run cfg evs) (reachable_run hs) v vu hv hinv c hst,
   names_hides_invisible_reachable cfg (run cfg evs) (reachable_run hs) v vu hv hinv c hst⟩

end Irc.Reach.C12

/-! ## C11 -/

namespace Irc.Reach.C11
open Irc Reply Irc.C11

/-- `C11.wallops_audience` for a reachable world: the conjunct that the original states under
    `InvCore x.w →` holds outright. -/
theorem wallops_audience_reachable (cfg : Cfg) (c : Nat) (msg : Message) (x : Ctx) (nick : Str)
    (user : User) (hr : Reachable cfg x.w)
    (hn : (x.conn c).nick = some nick) (hu : Map.lookup nick x.w.users = some user) :
    let x' := processWallops cfg c msg x
    (user.modes.isLocalOper = false → x' = x.reply cfg (ErrNoPrivileges481 (x.conn c).clientName)) ∧
    (user.modes.isLocalOper = true →
       x'.direct = x.direct ∧ x'.w = x.w ∧
       (∀ n, n ∈ x.w.wallops ↔ ∃ u, Map.lookup n x.w.users = some u ∧ u.modes.wallops = true) ∧
       x'.queued = x.queued ++ x.w.wallops.filterMap (fun n =>
         (Map.lookup n x.w.users).bind (fun u =>
           if u.modes.wallops then some (u.owner, msg.render (x.conn c).source) else none))) := by
  intro x'
  have h := wallops_audience cfg c msg x nick user hn hu
  refine ⟨h.1, fun ho => ?_⟩
  obtain ⟨h1, _, _, h4⟩ := h.2 ho
  obtain ⟨a, b, d⟩ := h4 (core_reachable hr)
  exact ⟨h1, a, b, d⟩

/-- **C11 over whole executions** (`oper_rises_only_by_oper`).  After any well-scheduled event
    list, if handling the line `s` of connection `c` (in the context `step` builds) makes nick
    `n` an operator that was not one before, then the line parses to a command `cmd` and
    (a) `cmd` is `OPER name pw`, sent by `n` itself, an existing user, and the specification
        `OperGranted` holds (configured operator, its password, mask matches the source); or
    (b) `n` was not a user before, and it either was created by the registration of the acting,
        so far unauthenticated connection with `default_user_modes` containing `o`, or `cmd` is
        `NICK n` by a registered operator `o` (whose entry moved to `n`). -/
theorem oper_rises_only_by_oper_run (cfg : Cfg) (evs : List Event) (_hs : SchedAll cfg evs)
    (c : Nat) (s : Str) (n : Str)
    (h1 : operOf (handleLine cfg c s { w := run cfg evs }).w n = true)
    (h0 : operOf (run cfg evs) n = false) :
    ∃ msg cmd, Message.parse s = .ok msg ∧ Command.fromMessage msg = .ok cmd ∧
      ((∃ name pw, cmd = .OPER name pw ∧ (Ctx.conn { w := run cfg evs } c).nick = some n ∧
          (∃ u, Map.lookup n (run cfg evs).users = some u) ∧
          OperGranted cfg (Ctx.conn { w := run cfg evs } c).source name pw) ∨
       (Map.lookup n (run cfg evs).users = none ∧
        ((cfg.defaultUserModes.oper = true ∧ isRegCmd cmd = true ∧
            (Ctx.conn { w := run cfg evs } c).authenticated = false ∧
            ∃ u, Map.lookup n (handleLine cfg c s { w := run cfg evs }).w.users = some u ∧
              u.owner = c) ∨
         (cmd = .NICK n ∧ (Ctx.conn { w := run cfg evs } c).authenticated = true ∧
            ∃ o, (Ctx.conn { w := run cfg evs } c).nick = some o ∧ operOf (run cfg evs) o = true ∧
              Map.lookup o (handleLine cfg c s { w := run cfg evs }).w.users = none)))) := by
  obtain ⟨msg, cmd, hp, hc, heq⟩ := handleLine_oper_rise cfg c s { w := run cfg evs } n h1 h0
  refine ⟨msg, cmd, hp, hc, ?_⟩
  rw [heq] at h1 ⊢
  exact oper_rises_only_by_oper cfg _ c msg cmd n h1 h0

end Irc.Reach.C11
