/-
  Helper lemmas for property C11 (server-operator status, privileged commands).
  The observation functions `operOf` / `localOperOf`, the specification predicate `OperGranted`
  and the relations `ModesKept` / `NoRise` are defined here (the lemmas need them); the final
  theorems are in `Irc/Props/C11.lean`.
-/
import Irc.Lemmas.Frame
import Irc.Inv
import Irc.Props.C14

namespace Irc.C11
open Irc Reply

/-! ## observations and specification predicates -/

/-- does nick `n` hold server-operator status (`+o`) in world `w`? -/
def operOf (w : World) (n : Str) : Bool :=
  match Map.lookup n w.users with
  | some u => u.modes.oper
  | none => false

/-- does nick `n` hold local-operator status (`+O`) in world `w`? -/
def localOperOf (w : World) (n : Str) : Bool :=
  match Map.lookup n w.users with
  | some u => u.modes.localOper
  | none => false

/-- SPEC of a successful OPER: `name` is a configured operator, the password is that
    operator's password, and the operator's mask (if any) matches the source, as a glob. -/
def OperGranted (cfg : Cfg) (source name pw : Str) : Prop :=
  ∃ op, cfg.findOper name = some op ∧ cfg.pwOk pw op.password = true ∧
    (op.mask = none ∨ ∃ m, op.mask = some m ∧ glob m source = true)

/-- every user of `w'` existed in `w` with the same user modes. -/
def ModesKept (w w' : World) : Prop :=
  ∀ n u', Map.lookup n w'.users = some u' → ∃ u, Map.lookup n w.users = some u ∧ u'.modes = u.modes

/-- neither operator flag rises for any nick from `w` to `w'`. -/
def NoRise (w w' : World) : Prop :=
  ∀ n, (operOf w' n = true → operOf w n = true) ∧ (localOperOf w' n = true → localOperOf w n = true)

theorem ModesKept.refl (w : World) : ModesKept w w := fun _ u h => ⟨u, h, rfl⟩

theorem ModesKept.trans {a b c : World} (h1 : ModesKept a b) (h2 : ModesKept b c) : ModesKept a c := by
  intro n u h
  obtain ⟨v, hv, e1⟩ := h2 n u h
  obtain ⟨z, hz, e2⟩ := h1 n v hv
  exact ⟨z, hz, e1.trans e2⟩

theorem ModesKept.of_users_eq {w w' : World} (h : w'.users = w.users) : ModesKept w w' := by
  intro n u hu; exact ⟨u, h ▸ hu, rfl⟩

theorem NoRise.refl (w : World) : NoRise w w := fun _ => ⟨id, id⟩

theorem NoRise.trans {a b c : World} (h1 : NoRise a b) (h2 : NoRise b c) : NoRise a c :=
  fun n => ⟨fun h => (h1 n).1 ((h2 n).1 h), fun h => (h1 n).2 ((h2 n).2 h)⟩

theorem ModesKept.noRise {w w' : World} (h : ModesKept w w') : NoRise w w' := by
  intro n
  unfold operOf localOperOf
  cases hl : Map.lookup n w'.users with
  | none => simp
  | some u' =>
    obtain ⟨u, hu, e⟩ := h n u' hl
    simp [hu, e]

theorem NoRise.of_users_eq {w w' : World} (h : w'.users = w.users) : NoRise w w' :=
  (ModesKept.of_users_eq h).noRise

/-! ## Map helpers -/

theorem Map.modify_eq_self {α : Type} (k : Str) (f : α → α) (m : Map α)
    (h : ∀ v, Map.lookup k m = some v → f v = v) : Map.modify k f m = m := by
  induction m with
  | nil => rfl
  | cons p m ih =>
    obtain ⟨k', v'⟩ := p
    by_cases hk : k' = k
    · subst hk
      have := h v' (by simp [Map.lookup])
      simp [Map.modify, this]
    · simp only [Map.modify, hk, ↓reduceIte, List.cons.injEq, true_and]
      exact ih (fun v hv => h v (by simpa [Map.lookup, hk] using hv))

/-! ## conn? after setConn -/

theorem conn?_setConn (w : World) (cn : Conn) (k : Nat) :
    (w.setConn cn).conn? k =
      if k = cn.id then (w.conn? k).map (fun _ => cn) else w.conn? k := by
  unfold World.setConn World.conn?
  simp only
  induction w.conns with
  | nil => simp
  | cons y ys ih =>
    simp only [List.map_cons, List.find?_cons]
    by_cases hy : y.id = cn.id
    · by_cases hk : k = cn.id
      · subst hk; simp [hy]
      · have : ¬ (y.id = k) := fun e => hk (e ▸ hy)
        simp only [hy, beq_self_eq_true, ↓reduceIte]
        have h2 : (cn.id == k) = false := by simp [Ne.symm hk]
        simp only [h2, hk, ↓reduceIte] at ih ⊢
        exact ih
    · have h1 : (y.id == cn.id) = false := by simp [hy]
      simp only [h1, Bool.false_eq_true, ↓reduceIte]
      by_cases hyk : y.id = k
      · have : k ≠ cn.id := fun e => hy (hyk.trans e)
        simp [hyk, this]
      · have : (y.id == k) = false := by simp [hyk]
        simp only [this]
        exact ih

/-! ## 1. OPER -/

/-- the handler's mask test is the `glob` specification -/
theorem maskOk_iff (mask : Option Str) (source : Str) :
    (match mask with | some m => matchWildcard m source | none => true) = true ↔
      (mask = none ∨ ∃ m, mask = some m ∧ glob m source = true) := by
  cases mask with
  | none => simp
  | some m => simp [Irc.C14.matchWildcard_eq_glob]


/-! ## 1. OPER -/
section oper
variable (cfg : Cfg) (c : Nat) (name pw : Str) (x : Ctx)

def maskOkB (mask : Option Str) (source : Str) : Bool :=
  match mask with | some m => matchWildcard m source | none => true

theorem processOper_eq {nick : Str} {u : User} {op : OperCfg}
    (hn : (x.conn c).nick = some nick) (hop : cfg.findOper name = some op)
    (hu : Map.lookup nick x.w.users = some u) :
    processOper cfg c name pw x =
      if cfg.pwOk pw op.password = false then x.reply cfg (ErrPasswdMismatch464 (x.conn c).clientName)
      else if maskOkB op.mask (x.conn c).source = false
        then x.reply cfg (ErrNoOperHost491 (x.conn c).clientName)
      else
        (x.modifyW (fun w =>
          { w with users := Map.insert nick { u with modes := { u.modes with oper := true } } w.users
                   operatorsCount := if u.modes.isLocalOper then w.operatorsCount
                                     else w.operatorsCount + 1 })).reply cfg
          (RplYoureOper381 (x.conn c).clientName) := by
  unfold processOper maskOkB
  simp only [hn, hop, hu]
  cases hpw : cfg.pwOk pw op.password
  · simp
  · cases hm : op.mask with
    | none => cases hl : u.modes.isLocalOper <;> simp [Ctx.modifyW]
    | some m =>
      cases hmk : matchWildcard m (x.conn c).source
      · simp [hmk]
      · cases hl : u.modes.isLocalOper <;> simp [Ctx.modifyW, hmk]

theorem maskOkB_iff (mask : Option Str) (source : Str) :
    maskOkB mask source = true ↔ (mask = none ∨ ∃ m, mask = some m ∧ glob m source = true) := by
  cases mask with
  | none => simp [maskOkB]
  | some m => simp [maskOkB, Irc.C14.matchWildcard_eq_glob]

theorem processOper_frame :
    (processOper cfg c name pw x).queued = x.queued ∧
    (processOper cfg c name pw x).w.conns = x.w.conns ∧
    (processOper cfg c name pw x).w.channels = x.w.channels ∧
    (processOper cfg c name pw x).w.wallops = x.w.wallops ∧
    (processOper cfg c name pw x).w.srvQuit = x.w.srvQuit ∧
    ∀ n, (x.conn c).nick ≠ some n →
      Map.lookup n (processOper cfg c name pw x).w.users = Map.lookup n x.w.users := by
  cases hn : (x.conn c).nick with
  | none => unfold processOper; simp [hn]
  | some nick =>
    cases hop : cfg.findOper name with
    | none => unfold processOper; simp [hn, hop]
    | some op =>
      cases hu : Map.lookup nick x.w.users with
      | none => unfold processOper; simp [hn, hop, hu]
      | some u =>
        rw [processOper_eq cfg c name pw x hn hop hu]
        by_cases h1 : cfg.pwOk pw op.password = false
        · simp [h1]
        · by_cases h2 : maskOkB op.mask (x.conn c).source = false
          · simp [h1, h2]
          · simp only [h1, h2]
            refine ⟨rfl, rfl, rfl, rfl, rfl, ?_⟩
            intro n hne
            have hne' : nick ≠ n := fun e => hne (by rw [e])
            simp [Map.lookup_insert_ne _ _ _ _ hne']

variable {cfg c name pw x} {nick : Str} {u : User}

theorem processOper_granted (hn : (x.conn c).nick = some nick)
    (hu : Map.lookup nick x.w.users = some u)
    (h : OperGranted cfg (x.conn c).source name pw) :
    (processOper cfg c name pw x).direct =
        x.direct ++ [':' :: (cfg.name ++ ' ' :: RplYoureOper381 (x.conn c).clientName)] ∧
    Map.lookup nick (processOper cfg c name pw x).w.users =
        some { u with modes := { u.modes with oper := true } } ∧
    (processOper cfg c name pw x).w.operatorsCount =
        (if u.modes.isLocalOper then x.w.operatorsCount else x.w.operatorsCount + 1) ∧
    (processOper cfg c name pw x).w.panicked = x.w.panicked := by
  obtain ⟨op, hop, hpw, hm⟩ := h
  have hm' := (maskOkB_iff op.mask (x.conn c).source).mpr hm
  rw [processOper_eq cfg c name pw x hn hop hu]
  simp [hpw, hm']

theorem processOper_refused (hn : (x.conn c).nick = some nick)
    (hu : Map.lookup nick x.w.users = some u)
    (h : ¬ OperGranted cfg (x.conn c).source name pw) :
    processOper cfg c name pw x =
      x.reply cfg (if (∃ op, cfg.findOper name = some op ∧ cfg.pwOk pw op.password = false)
        then ErrPasswdMismatch464 (x.conn c).clientName
        else ErrNoOperHost491 (x.conn c).clientName) := by
  cases hop : cfg.findOper name with
  | none => unfold processOper; simp [hn, hop]
  | some op =>
    rw [processOper_eq cfg c name pw x hn hop hu]
    cases hpw : cfg.pwOk pw op.password with
    | false => simp [hpw]
    | true =>
      have hm : ¬ (maskOkB op.mask (x.conn c).source = true) :=
        fun hm => h ⟨op, hop, hpw, (maskOkB_iff _ _).mp hm⟩
      simp only [Bool.not_eq_true] at hm
      simp [hm, hpw]
end oper

/-! ## 2. user MODE never grants operator flags -/
section umode
variable (cfg : Cfg) (cn : Conn) (nick : Str)

theorem umodeChar_other (a : UModeAcc) (ch : Char) (h : ch ∉ ['+','-','i','r','w','o','O']) :
    umodeChar cfg cn nick a ch = a := by
  simp only [List.mem_cons, List.not_mem_nil, or_false, not_or] at h
  unfold umodeChar
  simp only
  obtain ⟨h1,h2,h3,h4,h5,h6,h7⟩ := h
  rw [if_neg h1, if_neg h2, if_neg h3, if_neg h4, if_neg h5, if_neg h6, if_neg h7]

/-- case split over the seven letters `umodeChar` knows -/
theorem umodeChar_ind (P : Char → UModeAcc → Prop) (a : UModeAcc)
    (h : ∀ ch ∈ ['+','-','i','r','w','o','O'], P ch (umodeChar cfg cn nick a ch))
    (h0 : ∀ ch, P ch a) (ch : Char) : P ch (umodeChar cfg cn nick a ch) := by
  by_cases hm : ch ∈ ['+','-','i','r','w','o','O']
  · exact h ch hm
  · rw [umodeChar_other cfg cn nick a ch hm]; exact h0 ch

theorem umodeChar_oper (a : UModeAcc) (ch : Char)
    (h : (umodeChar cfg cn nick a ch).modes.oper = true) : a.modes.oper = true := by
  revert h
  refine umodeChar_ind cfg cn nick (fun _ a' => a'.modes.oper = true → a.modes.oper = true) a ?_ (fun _ => id) ch
  intro ch hm
  simp only [List.mem_cons, List.not_mem_nil, or_false] at hm
  rcases hm with rfl | rfl | rfl | rfl | rfl | rfl | rfl <;>
    (unfold umodeChar; simp only [Char.reduceEq, ↓reduceIte]; repeat' split) <;> simp_all

theorem umodeChar_localOper (a : UModeAcc) (ch : Char) :
    (umodeChar cfg cn nick a ch).modes.localOper = a.modes.localOper := by
  refine umodeChar_ind cfg cn nick (fun _ a' => a'.modes.localOper = a.modes.localOper) a ?_ (fun _ => rfl) ch
  intro ch hm
  simp only [List.mem_cons, List.not_mem_nil, or_false] at hm
  rcases hm with rfl | rfl | rfl | rfl | rfl | rfl | rfl <;>
    (unfold umodeChar; simp only [Char.reduceEq, ↓reduceIte]; repeat' split) <;> rfl

/-- `umodeChar` touches, of the world, only `wallops` and the two counters (and the panic flag) -/
theorem umodeChar_frame (a : UModeAcc) (ch : Char) :
    (umodeChar cfg cn nick a ch).x.w.users = a.x.w.users ∧
    (umodeChar cfg cn nick a ch).x.w.channels = a.x.w.channels ∧
    (umodeChar cfg cn nick a ch).x.w.conns = a.x.w.conns ∧
    (umodeChar cfg cn nick a ch).x.w.srvQuit = a.x.w.srvQuit ∧
    (umodeChar cfg cn nick a ch).x.queued = a.x.queued := by
  refine umodeChar_ind cfg cn nick (fun _ a' => a'.x.w.users = a.x.w.users ∧
    a'.x.w.channels = a.x.w.channels ∧ a'.x.w.conns = a.x.w.conns ∧
    a'.x.w.srvQuit = a.x.w.srvQuit ∧ a'.x.queued = a.x.queued) a ?_
    (fun _ => ⟨rfl, rfl, rfl, rfl, rfl⟩) ch
  intro ch hm
  simp only [List.mem_cons, List.not_mem_nil, or_false] at hm
  rcases hm with rfl | rfl | rfl | rfl | rfl | rfl | rfl <;>
    (unfold umodeChar; simp only [Char.reduceEq, ↓reduceIte]; repeat' split) <;>
    (refine ⟨?_, ?_, ?_, ?_, ?_⟩ <;> first | rfl | (simp only [Ctx.modifyW_w]; done) | (simp only [Ctx.modifyW_w]; split <;> rfl))
end umode

section umodeFold
variable (cfg : Cfg) (cn : Conn) (nick : Str)

/-- what one step of the user-MODE loop may do to the accumulator -/
structure UStep (a a' : UModeAcc) : Prop where
  oper : a'.modes.oper = true → a.modes.oper = true
  localOper : a'.modes.localOper = a.modes.localOper
  users : a'.x.w.users = a.x.w.users
  channels : a'.x.w.channels = a.x.w.channels
  conns : a'.x.w.conns = a.x.w.conns
  srvQuit : a'.x.w.srvQuit = a.x.w.srvQuit
  queued : a'.x.queued = a.x.queued

theorem UStep.refl (a : UModeAcc) : UStep a a := ⟨id, rfl, rfl, rfl, rfl, rfl, rfl⟩

theorem UStep.trans {a b c : UModeAcc} (h1 : UStep a b) (h2 : UStep b c) : UStep a c :=
  ⟨fun h => h1.oper (h2.oper h), h2.localOper.trans h1.localOper, h2.users.trans h1.users,
   h2.channels.trans h1.channels, h2.conns.trans h1.conns, h2.srvQuit.trans h1.srvQuit,
   h2.queued.trans h1.queued⟩

theorem UStep.ofChar (a : UModeAcc) (ch : Char) : UStep a (umodeChar cfg cn nick a ch) := by
  obtain ⟨h1, h2, h3, h4, h5⟩ := umodeChar_frame cfg cn nick a ch
  exact ⟨umodeChar_oper cfg cn nick a ch, umodeChar_localOper cfg cn nick a ch, h1, h2, h3, h4, h5⟩

theorem UStep.foldChars (s : Str) (a : UModeAcc) : UStep a (s.foldl (Irc.umodeChar cfg cn nick) a) := by
  induction s generalizing a with
  | nil => exact UStep.refl a
  | cons ch s ih => exact (UStep.ofChar cfg cn nick a ch).trans (ih _)

theorem UStep.foldGroups (gs : List (Str × List Str)) (a : UModeAcc) :
    UStep a (gs.foldl (fun a g => g.1.foldl (Irc.umodeChar cfg cn nick) { a with modeSet := false }) a) := by
  induction gs generalizing a with
  | nil => exact UStep.refl a
  | cons g gs ih =>
    refine UStep.trans ?_ (ih _)
    have h0 : UStep a { a with modeSet := false } := ⟨id, rfl, rfl, rfl, rfl, rfl, rfl⟩
    exact h0.trans (UStep.foldChars cfg cn nick g.1 _)

end umodeFold

/-- The effect of MODE on a user, on the world: the target's `modes` are replaced by some `m`
    whose operator flags are not above the old ones; nothing else in `users`, no channel,
    no connection, no queue is touched. -/
theorem processModeUser_effect (cfg : Cfg) (c : Nat) (target : Str) (modes : List (Str × List Str))
    (x : Ctx) :
    ∃ m : UserModes,
      (∀ u, Map.lookup target x.w.users = some u →
        (m.oper = true → u.modes.oper = true) ∧ m.localOper = u.modes.localOper) ∧
      (processModeUser cfg c target modes x).w.users =
        Map.modify target (fun u => { u with modes := m }) x.w.users ∧
      (processModeUser cfg c target modes x).w.channels = x.w.channels ∧
      (processModeUser cfg c target modes x).w.conns = x.w.conns ∧
      (processModeUser cfg c target modes x).w.srvQuit = x.w.srvQuit ∧
      (processModeUser cfg c target modes x).queued = x.queued := by
  unfold processModeUser
  cases hu : Map.lookup target x.w.users with
  | none =>
    refine ⟨{}, by simp, ?_, rfl, rfl, rfl, rfl⟩
    simp only [Ctx.panic_w, World.panic_users]
    exact (Map.modify_eq_self _ _ _ (by simp [hu])).symm
  | some user =>
    simp only
    by_cases he : modes.isEmpty = true
    · simp only [he, ↓reduceIte]
      refine ⟨user.modes, ?_, ?_, rfl, rfl, rfl, rfl⟩
      · intro u h; cases h; exact ⟨id, rfl⟩
      · simp only [Ctx.reply_w]
        exact (Map.modify_eq_self _ _ _ (by intro v hv; rw [hu] at hv; cases hv; rfl)).symm
    · simp only [he, Bool.false_eq_true, ↓reduceIte]
      have st := UStep.foldGroups cfg (x.conn c) target modes { x := x, modes := user.modes }
      generalize (List.foldl (fun a g => List.foldl (umodeChar cfg (x.conn c) target)
        { a with modeSet := false } g.1) ({ x := x, modes := user.modes } : UModeAcc) modes) = A at st
      refine ⟨A.modes, ?_, ?_, ?_, ?_, ?_, ?_⟩
      · intro u h; cases h; exact ⟨st.oper, st.localOper⟩
      · split <;> simp [st.users]
      · split <;> simp [st.channels]
      · split <;> simp [st.conns]
      · split <;> simp [st.srvQuit]
      · split <;> simp [st.queued]

/-- `+o` / `+O` asked by a user who lacks that flag: one 481 line, nothing else. -/
theorem processModeUser_plus_refused (cfg : Cfg) (c : Nat) (target : Str) (args : List Str) (x : Ctx)
    (u : User) (hu : Map.lookup target x.w.users = some u) :
    (u.modes.oper = false →
      processModeUser cfg c target [(['+', 'o'], args)] x =
        x.reply cfg (ErrNoPrivileges481 (x.conn c).clientName)) ∧
    (u.modes.localOper = false →
      processModeUser cfg c target [(['+', 'O'], args)] x =
        x.reply cfg (ErrNoPrivileges481 (x.conn c).clientName)) := by
  have hm : Map.modify target (fun v => { v with modes := u.modes }) x.w.users = x.w.users :=
    Map.modify_eq_self _ _ _ (by intro v hv; rw [hu] at hv; cases hv; rfl)
  constructor
  · intro h
    simp [processModeUser, hu, umodeChar, h, Ctx.modifyW, Ctx.reply, hm]
  · intro h
    simp [processModeUser, hu, umodeChar, h, Ctx.modifyW, Ctx.reply, hm]

/-- MODE aimed at a nick that is not the sender's own: refused with one line. -/
theorem processMode_foreign (cfg : Cfg) (c : Nat) (t : Str) (modes : List (Str × List Str)) (x : Ctx)
    (nick : Str) (hn : (x.conn c).nick = some nick) (hc : validateChannel t = false) (hne : t ≠ nick) :
    processMode cfg c t modes x =
      x.reply cfg (if Map.contains t x.w.users then ErrUsersDontMatch502 (x.conn c).clientName
                   else ErrNoSuchNick401 (x.conn c).clientName t) := by
  unfold processMode
  have : (nick == t) = false := by simp [Ne.symm hne]
  simp only [hn, hc, this, Bool.false_eq_true, ↓reduceIte]
  split <;> rfl

/-! ## 5. KILL / DIE: the quit signal -/
section kill
variable (k cm : Str)

theorem User.killed_eta (v : User) (h : v.killed = true) : { v with killed := true } = v := by
  cases v; simp_all

/-- the connection update of a fired signal -/
def markKilled (k cm : Str) (cn : Conn) : Conn := { cn with killedBy := some (k, cm) }

theorem markKilled_idem (cn : Conn) : markKilled k cm (markKilled k cm cn) = markKilled k cm cn := rfl

theorem conn?_id {w : World} {i : Nat} {cn : Conn} (h : w.conn? i = some cn) : cn.id = i := by
  unfold World.conn? at h
  have := List.find?_some h
  simpa using this

theorem fireKill_users (n : Str) (w : World) (m : Str) :
    Map.lookup m (fireKill k cm n w).users =
      if m = n then (Map.lookup m w.users).map (fun v => { v with killed := true })
      else Map.lookup m w.users := by
  unfold fireKill
  cases hu : Map.lookup n w.users with
  | none =>
    simp only
    split
    · rename_i h; subst h; simp [hu]
    · rfl
  | some v =>
    simp only
    by_cases hk : v.killed = true
    · simp only [hk, ↓reduceIte]
      split
      · rename_i h; subst h; simp [hu, User.killed_eta v hk]
      · rfl
    · simp only [hk, Bool.false_eq_true, ↓reduceIte]
      have : ∀ w' : World, w'.users = Map.insert n { v with killed := true } w.users →
          Map.lookup m w'.users = if m = n then (Map.lookup m w.users).map (fun v => { v with killed := true })
            else Map.lookup m w.users := by
        intro w' hw'
        rw [hw', Map.lookup_insert]
        by_cases hmn : m = n
        · subst hmn; simp [hu]
        · simp [hmn, Ne.symm hmn]
      split
      · exact this _ (by simp)
      · exact this _ rfl

theorem fireKill_conn? (n : Str) (w : World) (i : Nat) :
    (fireKill k cm n w).conn? i =
      if (∃ v, Map.lookup n w.users = some v ∧ v.killed = false ∧ v.owner = i)
      then (w.conn? i).map (markKilled k cm) else w.conn? i := by
  unfold fireKill
  cases hu : Map.lookup n w.users with
  | none => simp
  | some v =>
    simp only
    by_cases hk : v.killed = true
    · simp [hk]
    · simp only [hk, Bool.false_eq_true, ↓reduceIte]
      have hk' : v.killed = false := by simpa using hk
      have hc : ∀ j, World.conn? { w with users := Map.insert n { v with killed := true } w.users } j
          = w.conn? j := fun _ => rfl
      rw [hc]
      cases ho : w.conn? v.owner with
      | none =>
        simp only [hc]
        split
        · rename_i h; obtain ⟨v', e, _, h3⟩ := h; cases e; subst h3; simp [ho]
        · rfl
      | some cn =>
        simp only
        rw [conn?_setConn, hc]
        have hid := conn?_id ho
        by_cases hi : i = v.owner
        · subst hi
          simp [hid, ho, markKilled, hk']
        · have hi' : ¬ v.owner = i := fun e => hi e.symm
          simp [hid, hi, hi']

/-- everything else is untouched -/
theorem fireKill_frame (n : Str) (w : World) :
    (fireKill k cm n w).channels = w.channels ∧ (fireKill k cm n w).wallops = w.wallops ∧
    (fireKill k cm n w).srvQuit = w.srvQuit ∧ (fireKill k cm n w).panicked = w.panicked ∧
    (fireKill k cm n w).operatorsCount = w.operatorsCount ∧
    (fireKill k cm n w).invisibleCount = w.invisibleCount ∧
    (fireKill k cm n w).histories = w.histories ∧
    (fireKill k cm n w).connsCount = w.connsCount := by
  unfold fireKill
  split
  · simp
  · split
    · simp
    · simp only; split <;> simp

theorem fireKill_modesKept (n : Str) (w : World) : ModesKept w (fireKill k cm n w) := by
  intro m u' h
  rw [fireKill_users] at h
  split at h
  · cases hl : Map.lookup m w.users with
    | none => simp [hl] at h
    | some u => simp [hl] at h; exact ⟨u, rfl, by rw [← h]⟩
  · exact ⟨u', h, rfl⟩
end kill

section killAll
variable (k cm : Str)

/-- the loop of DIE -/
def killAll (k cm : Str) (ns : List Str) (w : World) : World :=
  ns.foldl (fun w n => fireKill k cm n w) w

/-- some listed nick is a not-yet-signalled user owned by connection `i` -/
def Hit (w : World) (ns : List Str) (i : Nat) : Prop :=
  ∃ n ∈ ns, ∃ v, Map.lookup n w.users = some v ∧ v.killed = false ∧ v.owner = i

theorem killAll_users (ns : List Str) (w : World) (m : Str) :
    Map.lookup m (killAll k cm ns w).users =
      if m ∈ ns then (Map.lookup m w.users).map (fun v => { v with killed := true })
      else Map.lookup m w.users := by
  induction ns generalizing w with
  | nil => simp [killAll]
  | cons n ns ih =>
    have : killAll k cm (n :: ns) w = killAll k cm ns (fireKill k cm n w) := rfl
    rw [this, ih, fireKill_users]
    by_cases h1 : m = n
    · subst h1
      by_cases h2 : m ∈ ns
      · simp only [h2, ↓reduceIte, List.mem_cons, true_or]
        cases Map.lookup m w.users <;> simp
      · simp [h2]
    · simp [h1]

theorem killAll_conn? (ns : List Str) (w : World) (i : Nat) :
    (Hit w ns i → (killAll k cm ns w).conn? i = (w.conn? i).map (markKilled k cm)) ∧
    (¬ Hit w ns i → (killAll k cm ns w).conn? i = w.conn? i) := by
  induction ns generalizing w with
  | nil =>
    refine ⟨?_, fun _ => rfl⟩
    rintro ⟨n, hn, _⟩; cases hn
  | cons n ns ih =>
    have e : killAll k cm (n :: ns) w = killAll k cm ns (fireKill k cm n w) := rfl
    obtain ⟨ih1, ih2⟩ := ih (fireKill k cm n w)
    have hf := fireKill_conn? k cm n w i
    -- relate the three conditions
    have hiff : Hit w (n :: ns) i ↔
        ((∃ v, Map.lookup n w.users = some v ∧ v.killed = false ∧ v.owner = i) ∨
         Hit (fireKill k cm n w) ns i) := by
      constructor
      · rintro ⟨m, hm, v, hv, hk, ho⟩
        by_cases hmn : m = n
        · subst hmn; exact Or.inl ⟨v, hv, hk, ho⟩
        · right
          have hm' : m ∈ ns := by simpa [hmn] using hm
          exact ⟨m, hm', v, by rw [fireKill_users]; simp [hmn, hv], hk, ho⟩
      · rintro (⟨v, hv, hk, ho⟩ | ⟨m, hm, v, hv, hk, ho⟩)
        · exact ⟨n, by simp, v, hv, hk, ho⟩
        · rw [fireKill_users] at hv
          by_cases hmn : m = n
          · subst hmn
            simp only [↓reduceIte] at hv
            cases hl : Map.lookup m w.users with
            | none => simp [hl] at hv
            | some v0 =>
              simp [hl] at hv
              rw [← hv] at hk
              simp at hk
          · simp only [hmn, ↓reduceIte] at hv
            exact ⟨m, by simp [hm], v, hv, hk, ho⟩
    rw [e]
    by_cases h1 : (∃ v, Map.lookup n w.users = some v ∧ v.killed = false ∧ v.owner = i)
    · have h3 : Hit w (n :: ns) i := hiff.mpr (Or.inl h1)
      simp only [h1, ↓reduceIte] at hf
      refine ⟨fun _ => ?_, fun h => absurd h3 h⟩
      by_cases h2 : Hit (fireKill k cm n w) ns i
      · rw [ih1 h2, hf]
        cases w.conn? i <;> simp [markKilled]
      · rw [ih2 h2, hf]
    · simp only [h1, ↓reduceIte] at hf
      by_cases h2 : Hit (fireKill k cm n w) ns i
      · have h3 : Hit w (n :: ns) i := hiff.mpr (Or.inr h2)
        refine ⟨fun _ => ?_, fun h => absurd h3 h⟩
        rw [ih1 h2, hf]
      · have h3 : ¬ Hit w (n :: ns) i := fun h => (hiff.mp h).elim h1 h2
        refine ⟨fun h => absurd h h3, fun _ => ?_⟩
        rw [ih2 h2, hf]

theorem killAll_frame (ns : List Str) (w : World) :
    (killAll k cm ns w).channels = w.channels ∧ (killAll k cm ns w).wallops = w.wallops ∧
    (killAll k cm ns w).srvQuit = w.srvQuit ∧ (killAll k cm ns w).panicked = w.panicked ∧
    (killAll k cm ns w).operatorsCount = w.operatorsCount ∧
    (killAll k cm ns w).invisibleCount = w.invisibleCount ∧
    (killAll k cm ns w).histories = w.histories ∧
    (killAll k cm ns w).connsCount = w.connsCount := by
  induction ns generalizing w with
  | nil => simp [killAll]
  | cons n ns ih =>
    have e : killAll k cm (n :: ns) w = killAll k cm ns (fireKill k cm n w) := rfl
    obtain ⟨a1, a2, a3, a4, a5, a6, a7, a8⟩ := ih (fireKill k cm n w)
    obtain ⟨b1, b2, b3, b4, b5, b6, b7, b8⟩ := fireKill_frame k cm n w
    rw [e]
    exact ⟨a1.trans b1, a2.trans b2, a3.trans b3, a4.trans b4, a5.trans b5, a6.trans b6,
      a7.trans b7, a8.trans b8⟩

theorem killAll_modesKept (ns : List Str) (w : World) : ModesKept w (killAll k cm ns w) := by
  induction ns generalizing w with
  | nil => exact ModesKept.refl w
  | cons n ns ih => exact (fireKill_modesKept k cm n w).trans (ih _)
end killAll

/-! ## sendAll -/

theorem send_queued (x : Ctx) (n line : Str) :
    (x.send n line).queued =
      x.queued ++ ((Map.lookup n x.w.users).map (fun u => (u.owner, line))).toList := by
  unfold Ctx.send
  cases Map.lookup n x.w.users <;> simp

theorem sendAll_users (ns : List Str) (line : Str) (x : Ctx) :
    (x.sendAll ns line).w.users = x.w.users := by
  unfold Ctx.sendAll
  induction ns generalizing x with
  | nil => rfl
  | cons n ns ih => simp only [List.foldl_cons]; rw [ih]; simp

theorem sendAll_direct (ns : List Str) (line : Str) (x : Ctx) :
    (x.sendAll ns line).direct = x.direct := by
  unfold Ctx.sendAll
  induction ns generalizing x with
  | nil => rfl
  | cons n ns ih => simp only [List.foldl_cons]; rw [ih]; simp

/-- `sendAll` queues the line once per listed nick that is a user, to the connection owning it,
    in list order. -/
theorem sendAll_queued (ns : List Str) (line : Str) (x : Ctx) :
    (x.sendAll ns line).queued =
      x.queued ++ ns.filterMap (fun n => (Map.lookup n x.w.users).map (fun u => (u.owner, line))) := by
  unfold Ctx.sendAll
  induction ns generalizing x with
  | nil => simp
  | cons n ns ih =>
    simp only [List.foldl_cons]
    rw [ih, send_queued]
    simp only [Ctx.send_users, List.filterMap_cons]
    cases Map.lookup n x.w.users <;> simp

theorem sendAll_w (ns : List Str) (line : Str) (x : Ctx)
    (h : ∀ n ∈ ns, ∃ u, Map.lookup n x.w.users = some u) :
    (x.sendAll ns line).w = x.w := by
  unfold Ctx.sendAll
  induction ns generalizing x with
  | nil => rfl
  | cons n ns ih =>
    simp only [List.foldl_cons]
    obtain ⟨u, hu⟩ := h n (by simp)
    have e : (x.send n line).w = x.w := by rw [Ctx.send_w_of_lookup x n line hu]
    rw [ih, e]
    intro m hm
    rw [e]
    exact h m (by simp [hm])

/-! ## teardown removes the user -/

theorem removeUserFromChannel_lookup_none (w : World) (ch n : Str)
    (h : Map.lookup n w.users = none) : Map.lookup n (w.removeUserFromChannel ch n).users = none := by
  unfold World.removeUserFromChannel
  simp only [Map.lookup_modify, ↓reduceIte]
  have : ∀ w' : World, w'.users = w.users → Option.map (fun u : User =>
      { u with channels := KSet.erase ch u.channels }) (Map.lookup n w'.users) = none := by
    intro w' e; rw [e, h]; rfl
  apply this
  split
  · split
    · rfl
    · split <;> rfl
  · rfl

theorem removeUser_lookup_self (w : World) (n : Str) : Map.lookup n (w.removeUser n).users = none := by
  unfold World.removeUser
  cases hu : Map.lookup n w.users with
  | none => exact hu
  | some user =>
    simp only
    have pushH : ∀ (w' : World) e, (w'.pushHistory n e).users = w'.users := fun _ _ => rfl
    rw [pushH]
    have fold : ∀ (chs : List Str) (w' : World), Map.lookup n w'.users = none →
        Map.lookup n (chs.foldl (fun w chn => w.removeUserFromChannel chn n) w').users = none := by
      intro chs
      induction chs with
      | nil => intro w' h; exact h
      | cons ch chs ih =>
        intro w' h
        exact ih _ (removeUserFromChannel_lookup_none w' ch n h)
    apply fold
    have : ∀ w' : World, w'.users = Map.erase n w.users → Map.lookup n w'.users = none := by
      intro w' e; rw [e]; simp
    apply this
    split <;> split <;> (try split) <;> (try split) <;> rfl

/-! ## generic fold lemmas -/

theorem foldl_w_queued {β : Type} (f : Ctx → β → Ctx)
    (h : ∀ x b, (f x b).w = x.w ∧ (f x b).queued = x.queued) (l : List β) (x : Ctx) :
    (l.foldl f x).w = x.w ∧ (l.foldl f x).queued = x.queued := by
  induction l generalizing x with
  | nil => exact ⟨rfl, rfl⟩
  | cons b l ih =>
    obtain ⟨h1, h2⟩ := ih (f x b)
    obtain ⟨h3, h4⟩ := h x b
    exact ⟨h1.trans h3, h2.trans h4⟩

theorem filterMap_congr' {α β : Type} (f g : α → Option β) (l : List α)
    (h : ∀ a ∈ l, f a = g a) : l.filterMap f = l.filterMap g := by
  induction l with
  | nil => rfl
  | cons a l ih =>
    simp only [List.filterMap_cons]
    rw [h a (by simp), ih (fun b hb => h b (by simp [hb]))]

/-! ## 4. per-handler frame lemmas: `users` unchanged -/

theorem foldl_users {β : Type} (f : Ctx → β → Ctx) (h : ∀ x b, (f x b).w.users = x.w.users)
    (l : List β) (x : Ctx) : (l.foldl f x).w.users = x.w.users := by
  induction l generalizing x with
  | nil => rfl
  | cons b l ih => exact (ih (f x b)).trans (h x b)

section usersEq
variable (cfg : Cfg) (c : Nat) (x : Ctx)

@[simp] theorem unsupported_users (client : Str) (s : String) :
    (unsupported cfg client s x).w.users = x.w.users := rfl

@[simp] theorem sendIsupport_users (client : Str) : (sendIsupport cfg client x).w.users = x.w.users := by
  unfold sendIsupport; apply foldl_users; intro y b; rfl

@[simp] theorem processLusers_users (client : Str) : (processLusers cfg client x).w.users = x.w.users := by
  unfold processLusers; simp only [Ctx.reply_w]; split <;> rfl

@[simp] theorem processMotd_users (client : Str) (t : Option Str) :
    (processMotd cfg client t x).w.users = x.w.users := by
  unfold processMotd; split <;> rfl

@[simp] theorem processAuthenticate_users : (processAuthenticate cfg c x).w.users = x.w.users := rfl
@[simp] theorem processPing_users (t : Str) : (processPing cfg c t x).w.users = x.w.users := rfl
@[simp] theorem processPong_users : (processPong cfg c x).w.users = x.w.users := rfl
@[simp] theorem processQuit_users : (processQuit cfg c x).w.users = x.w.users := rfl
@[simp] theorem processInfo_users : (processInfo cfg c x).w.users = x.w.users := rfl

@[simp] theorem processVersion_users (t : Option Str) : (processVersion cfg c t x).w.users = x.w.users := by
  unfold processVersion; split <;> simp

@[simp] theorem processAdmin_users (t : Option Str) : (processAdmin cfg c t x).w.users = x.w.users := by
  unfold processAdmin; split
  · rfl
  · simp only; split <;> split <;> rfl

@[simp] theorem processTime_users (t : Option Str) : (processTime cfg c t x).w.users = x.w.users := by
  unfold processTime; split <;> rfl

@[simp] theorem processLinks_users (r m : Option Str) : (processLinks cfg c r m x).w.users = x.w.users := by
  unfold processLinks; split <;> rfl

theorem helpLines_users (client subject : Str) (i : Nat) (ls : List Str) (total : Nat) :
    (helpLines cfg client subject i ls total x).w.users = x.w.users := by
  induction ls generalizing i x with
  | nil => rfl
  | cons l ls ih =>
    unfold helpLines
    simp only
    rw [ih]
    split
    · rfl
    · split <;> rfl

@[simp] theorem processHelp_users (s : Option Str) : (processHelp cfg c s x).w.users = x.w.users := by
  unfold processHelp
  simp only
  split
  · exact helpLines_users ..
  · rfl

@[simp] theorem processStats_users (q : Char) (s : Option Str) :
    (processStats cfg c q s x).w.users = x.w.users := by
  unfold processStats
  simp only
  split
  · rfl
  · split
    · rfl
    · split
      · rfl
      · split
        · simp only [Ctx.reply_w]
          split
          · rfl
          · split
            · apply foldl_users; intro y b; split <;> rfl
            · rfl
        · rfl

@[simp] theorem processWhowas_users (n : Str) (cnt : Option Nat) (s : Option Str) :
    (processWhowas cfg c n cnt s x).w.users = x.w.users := by
  unfold processWhowas
  simp only
  split
  · rfl
  · simp only [Ctx.reply_w]
    split
    · apply foldl_users; intro y b; rfl
    · rfl

@[simp] theorem processUserhost_users (ns : List Str) : (processUserhost cfg c ns x).w.users = x.w.users := by
  unfold processUserhost; simp only; apply foldl_users; intro y b; rfl

@[simp] theorem processIson_users (ns : List Str) : (processIson cfg c ns x).w.users = x.w.users := by
  unfold processIson; simp only; apply foldl_users; intro y b; rfl

@[simp] theorem processWallops_users (msg : Message) : (processWallops cfg c msg x).w.users = x.w.users := by
  unfold processWallops
  simp only
  split
  · rfl
  · split
    · rfl
    · split
      · exact sendAll_users ..
      · rfl

end usersEq

section usersEq2
variable (cfg : Cfg) (c : Nat) (x : Ctx)

theorem ite_w_users (p : Prop) [Decidable p] (a b : Ctx) :
    (if p then a else b).w.users = if p then a.w.users else b.w.users := by
  split <;> rfl

theorem namesLines_users (cn : Conn) (chname : Str) (ch : Channel) (us : Map User) :
    (namesLines cfg cn chname ch us x).w.users = x.w.users := by
  unfold namesLines
  simp only
  refine (foldl_users _ ?_ _ _).trans ?_
  · intro y b; rfl
  · simp only [ite_w_users, Ctx.panic_w, World.panic_users, ite_self]

@[simp] theorem sendNamesFromChannel_users (chname : Str) (ch : Channel) (e : Bool) :
    (sendNamesFromChannel cfg c chname ch e x).w.users = x.w.users := by
  unfold sendNamesFromChannel
  simp only [ite_w_users, Ctx.reply_w, namesLines_users, ite_self]

@[simp] theorem processNames_users (chs : List Str) : (processNames cfg c chs x).w.users = x.w.users := by
  unfold processNames
  simp only
  split
  · apply foldl_users; intro y b; split
    · simp
    · rfl
  · simp only [Ctx.reply_w]
    apply foldl_users; intro y b; simp

@[simp] theorem processList_users (chs : List Str) (s : Option Str) :
    (processList cfg c chs s x).w.users = x.w.users := by
  unfold processList
  simp only
  split
  · rfl
  · simp only [Ctx.reply_w]
    split
    · refine (foldl_users _ ?_ _ _).trans rfl
      intro y b; split
      · split <;> rfl
      · rfl
    · refine (foldl_users _ ?_ _ _).trans rfl
      intro y b; split <;> rfl

@[simp] theorem processTopic_users (ch : Str) (t : Option Str) (msg : Message) :
    (processTopic cfg c ch t msg x).w.users = x.w.users := by
  unfold processTopic
  simp only
  split
  · rfl
  · split
    · split
      · split
        · split
          · rw [sendAll_users]; rfl
          · rfl
        · rfl
      · rfl
    · split
      · split
        · split <;> rfl
        · rfl
      · rfl

end usersEq2

theorem foldl_pair_users {β γ : Type} (f : Ctx × γ → β → Ctx × γ)
    (h : ∀ p b, (f p b).1.w.users = p.1.w.users) (l : List β) (p : Ctx × γ) :
    (l.foldl f p).1.w.users = p.1.w.users := by
  induction l generalizing p with
  | nil => rfl
  | cons b l ih => exact (ih (f p b)).trans (h p b)

section usersEq3
variable (cfg : Cfg) (c : Nat) (x : Ctx)

theorem privmsgTarget_users (nick : Str) (notice : Bool) (text target : Str) :
    (privmsgTarget cfg c nick notice text target x).1.w.users = x.w.users := by
  unfold privmsgTarget
  simp only
  split
  · split
    · split
      · simp only
        apply foldl_users; intro y b; simp
      · simp only [ite_w_users, Ctx.reply_w, ite_self]
    · simp only [ite_w_users, Ctx.reply_w, ite_self]
  · split
    · simp only
      repeat' split
      all_goals simp
    · simp only [ite_w_users, Ctx.reply_w, ite_self]

@[simp] theorem processPrivmsgNotice_users (ts : List Str) (t : Str) (notice : Bool) :
    (processPrivmsgNotice cfg c ts t notice x).w.users = x.w.users := by
  unfold processPrivmsgNotice
  split
  · rfl
  · rename_i nick _
    simp only
    generalize hr : List.foldl _ (x, false) (dedup ts) = r
    have hu : r.1.w.users = x.w.users := by
      rw [← hr]
      refine (foldl_pair_users _ ?_ _ _).trans rfl
      rintro ⟨y, d⟩ b
      exact privmsgTarget_users ..
    obtain ⟨y, d⟩ := r
    simp only at hu ⊢
    split <;> simp [hu]
end usersEq3

section usersEq4
variable (cfg : Cfg) (c : Nat) (x : Ctx)

@[simp] theorem sendWhoInfo_users (cn : Conn) (ch : Option (Str × ChanUserModes)) (un : Str) (u cu : User) :
    (sendWhoInfo cfg cn ch un u cu x).w.users = x.w.users := by
  unfold sendWhoInfo
  simp only [ite_w_users, Ctx.reply_w, ite_self]

@[simp] theorem processWho_users (mask : Str) : (processWho cfg c mask x).w.users = x.w.users := by
  unfold processWho
  simp only
  split
  · rfl
  · split
    · rfl
    · simp only [Ctx.reply_w]
      split
      · refine (foldl_users _ ?_ _ _).trans rfl
        intro y b
        simp only [ite_w_users, sendWhoInfo_users, ite_self]
      · split
        · split
          · split
            · refine (foldl_users _ ?_ _ _).trans rfl
              intro y b
              split <;> simp
            · rfl
          · rfl
        · split
          · split <;> simp
          · rfl

theorem foldl_reply_users {β : Type} (g : β → Str) (l : List β) :
    (l.foldl (fun y b => y.reply cfg (g b)) x).w.users = x.w.users := by
  apply foldl_users; intro y b; rfl

theorem whoisOne_users (cn : Conn) (user : User) (nick : Str) :
    (whoisOne cfg cn user nick x).w.users = x.w.users := by
  unfold whoisOne
  split
  · rfl
  · simp only [ite_w_users, Ctx.reply_w, foldl_reply_users, Ctx.panic_w, World.panic_users, ite_self]

@[simp] theorem processWhois_users (t : Option Str) (ns : List Str) :
    (processWhois cfg c t ns x).w.users = x.w.users := by
  unfold processWhois
  simp only
  split
  · rfl
  · split
    · rfl
    · split
      · rfl
      · simp only [Ctx.reply_w]
        refine (foldl_users _ ?_ _ _).trans rfl
        intro y b
        exact whoisOne_users ..
end usersEq4

set_option linter.unusedSimpArgs false
section modeChan
variable (cfg : Cfg) (c : Nat) (x : Ctx)

theorem ite_acc_users (p : Prop) [Decidable p] (a b : ModeAcc) :
    (if p then a else b).x.w.users = if p then a.x.w.users else b.x.w.users := by
  split <;> rfl

theorem ite_eq_of {α : Sort _} (p : Prop) [Decidable p] (a b c : α) (h1 : p → a = c) (h2 : ¬p → b = c) :
    (if p then a else b) = c := by
  split
  · exact h1 ‹_›
  · exact h2 ‹_›

theorem modeChar_users (cn : Conn) (target : Str) (chum : ChanUserModes) (a : ModeAcc) (ch : Char) :
    (modeChar cfg cn target chum a ch).x.w.users = a.x.w.users := by
  unfold modeChar
  extract_lets client nick err482 preChecked a1 ifHalfOp sign xb xe xi m src m' a2
  have ha1 : a1.x.w.users = a.x.w.users := by
    simp only [a1, err482, ite_acc_users, Ctx.reply_w, ite_self]
  have hxb : xb.w.users = a.x.w.users := by simp only [xb, foldl_reply_users, ha1]
  have hxe : xe.w.users = a.x.w.users := by simp only [xe, foldl_reply_users, ha1]
  have hxi : xi.w.users = a.x.w.users := by simp only [xi, foldl_reply_users, ha1]
  have ha2 : a2.x.w.users = a.x.w.users := by simp only [a2, ha1]
  clear_value a1 xb xe xi a2 sign m' 
  simp only [ite_acc_users, ite_w_users, Ctx.reply_w, Ctx.panic_w, World.panic_users, ha1, hxb, hxe, hxi, ha2,
    err482, ite_self]
  repeat' (first | rfl | assumption | refine ite_eq_of _ _ _ _ (fun _ => ?_) (fun _ => ?_) | split)
  all_goals first | rfl | assumption | (simp only [ite_acc_users, ite_w_users, Ctx.reply_w, Ctx.panic_w, World.panic_users,
    ha1, hxb, hxe, hxi, ha2, ite_self]; done) | trace_state
theorem foldl_acc_users {β : Type} (f : ModeAcc → β → ModeAcc)
    (h : ∀ a b, (f a b).x.w.users = a.x.w.users) (l : List β) (a : ModeAcc) :
    (l.foldl f a).x.w.users = a.x.w.users := by
  induction l generalizing a with
  | nil => rfl
  | cons b l ih => exact (ih (f a b)).trans (h a b)

theorem modeGroup_users (cn : Conn) (target : Str) (chum : ChanUserModes) (a : ModeAcc)
    (g : Str × List Str) : (modeGroup cfg cn target chum a g).x.w.users = a.x.w.users := by
  unfold modeGroup
  exact (foldl_acc_users _ (modeChar_users cfg cn target chum) _ _).trans rfl

@[simp] theorem processModeChannel_users (target : Str) (ch : Channel) (modes : List (Str × List Str))
    (chum : ChanUserModes) : (processModeChannel cfg c target ch modes chum x).w.users = x.w.users := by
  unfold processModeChannel
  simp only
  split
  · rfl
  · have h := foldl_acc_users _ (modeGroup_users cfg (x.conn c) target chum) modes
      { x := x, ch := ch, args := [] }
    simp only at h
    split
    · refine (foldl_users _ ?_ _ _).trans ?_
      · intro y b; simp
      · simpa using h
    · simpa using h
end modeChan

end Irc.C11
