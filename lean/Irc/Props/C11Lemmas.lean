/-
  Helper lemmas for property C11 (server-operator status, privileged commands).
  The observation functions `operOf` / `localOperOf`, the specification predicate `OperGranted`
  and the relations `ModesKept` / `NoRise` are defined here (the lemmas need them); the final
  theorems are in `Irc/Props/C11.lean`.
-/
import Irc.Lemmas.Frame
import Irc.Inv
import Irc.Props.C14

namespace Irc.C11
open Irc Reply

/-! ## observations and specification predicates -/

/-- does nick `n` hold server-operator status (`+o`) in world `w`? -/
def operOf (w : World) (n : Str) : Bool :=
  match Map.lookup n w.users with
  | some u => u.modes.oper
  | none => false

/-- does nick `n` hold local-operator status (`+O`) in world `w`? -/
def localOperOf (w : World) (n : Str) : Bool :=
  match Map.lookup n w.users with
  | some u => u.modes.localOper
  | none => false

/-- SPEC of a successful OPER: `name` is a configured operator, the password is that
    operator's password, and the operator's mask (if any) matches the source, as a glob. -/
def OperGranted (cfg : Cfg) (source name pw : Str) : Prop :=
  ∃ op, cfg.findOper name = some op ∧ cfg.pwOk pw op.password = true ∧
    (op.mask = none ∨ ∃ m, op.mask = some m ∧ glob m source = true)

/-- every user of `w'` existed in `w` with the same user modes. -/
def ModesKept (w w' : World) : Prop :=
  ∀ n u', Map.lookup n w'.users = some u' → ∃ u, Map.lookup n w.users = some u ∧ u'.modes = u.modes

/-- neither operator flag rises for any nick from `w` to `w'`. -/
def NoRise (w w' : World) : Prop :=
  ∀ n, (operOf w' n = true → operOf w n = true) ∧ (localOperOf w' n = true → localOperOf w n = true)

theorem ModesKept.refl (w : World) : ModesKept w w := fun _ u h => ⟨u, h, rfl⟩

theorem ModesKept.trans {a b c : World} (h1 : ModesKept a b) (h2 : ModesKept b c) : ModesKept a c := by
  intro n u h
  obtain ⟨v, hv, e1⟩ := h2 n u h
  obtain ⟨z, hz, e2⟩ := h1 n v hv
  exact ⟨z, hz, e1.trans e2⟩

theorem ModesKept.of_users_eq {w w' : World} (h : w'.users = w.users) : ModesKept w w' := by
  intro n u hu; exact ⟨u, h ▸ hu, rfl⟩

theorem NoRise.refl (w : World) : NoRise w w := fun _ => ⟨id, id⟩

theorem NoRise.trans {a b c : World} (h1 : NoRise a b) (h2 : NoRise b c) : NoRise a c :=
  fun n => ⟨fun h => (h1 n).1 ((h2 n).1 h), fun h => (h1 n).2 ((h2 n).2 h)⟩

theorem ModesKept.noRise {w w' : World} (h : ModesKept w w') : NoRise w w' := by
  intro n
  unfold operOf localOperOf
  cases hl : Map.lookup n w'.users with
  | none => simp
  | some u' =>
    obtain ⟨u, hu, e⟩ := h n u' hl
    simp [hu, e]

theorem NoRise.of_users_eq {w w' : World} (h : w'.users = w.users) : NoRise w w' :=
  (ModesKept.of_users_eq h).noRise

/-! ## Map helpers -/

theorem Map.modify_eq_self {α : Type} (k : Str) (f : α → α) (m : Map α)
    (h : ∀ v, Map.lookup k m = some v → f v = v) : Map.modify k f m = m := by
  induction m with
  | nil => rfl
  | cons p m ih =>
    obtain ⟨k', v'⟩ := p
    by_cases hk : k' = k
    · subst hk
      have := h v' (by simp [Map.lookup])
      simp [Map.modify, this]
    · simp only [Map.modify, hk, ↓reduceIte, List.cons.injEq, true_and]
      exact ih (fun v hv => h v (by simpa [Map.lookup, hk] using hv))

/-! ## conn? after setConn -/

theorem conn?_setConn (w : World) (cn : Conn) (k : Nat) :
    (w.setConn cn).conn? k =
      if k = cn.id then (w.conn? k).map (fun _ => cn) else w.conn? k := by
  unfold World.setConn World.conn?
  simp only
  induction w.conns with
  | nil => simp
  | cons y ys ih =>
    simp only [List.map_cons, List.find?_cons]
    by_cases hy : y.id = cn.id
    · by_cases hk : k = cn.id
      · subst hk; simp [hy]
      · have : ¬ (y.id = k) := fun e => hk (e ▸ hy)
        simp only [hy, beq_self_eq_true, ↓reduceIte]
        have h2 : (cn.id == k) = false := by simp [Ne.symm hk]
        simp only [h2, hk, ↓reduceIte] at ih ⊢
        exact ih
    · have h1 : (y.id == cn.id) = false := by simp [hy]
      simp only [h1, Bool.false_eq_true, ↓reduceIte]
      by_cases hyk : y.id = k
      · have : k ≠ cn.id := fun e => hy (hyk.trans e)
        simp [hyk, this]
      · have : (y.id == k) = false := by simp [hyk]
        simp only [this]
        exact ih

/-! ## 1. OPER -/

/-- the handler's mask test is the `glob` specification -/
theorem maskOk_iff (mask : Option Str) (source : Str) :
    (match mask with | some m => matchWildcard m source | none => true) = true ↔
      (mask = none ∨ ∃ m, mask = some m ∧ glob m source = true) := by
  cases mask with
  | none => simp
  | some m => simp [Irc.C14.matchWildcard_eq_glob]


/-! ## 1. OPER -/
section oper
variable (cfg : Cfg) (c : Nat) (name pw : Str) (x : Ctx)

def maskOkB (mask : Option Str) (source : Str) : Bool :=
  match mask with | some m => matchWildcard m source | none => true

theorem processOper_eq {nick : Str} {u : User} {op : OperCfg}
    (hn : (x.conn c).nick = some nick) (hop : cfg.findOper name = some op)
    (hu : Map.lookup nick x.w.users = some u) :
    processOper cfg c name pw x =
      if cfg.pwOk pw op.password = false then x.reply cfg (ErrPasswdMismatch464 (x.conn c).clientName)
      else if maskOkB op.mask (x.conn c).source = false
        then x.reply cfg (ErrNoOperHost491 (x.conn c).clientName)
      else
        (x.modifyW (fun w =>
          { w with users := Map.insert nick { u with modes := { u.modes with oper := true } } w.users
                   operatorsCount := if u.modes.isLocalOper then w.operatorsCount
                                     else w.operatorsCount + 1 })).reply cfg
          (RplYoureOper381 (x.conn c).clientName) := by
  unfold processOper maskOkB
  simp only [hn, hop, hu]
  cases hpw : cfg.pwOk pw op.password
  · simp
  · cases hm : op.mask with
    | none => cases hl : u.modes.isLocalOper <;> simp [Ctx.modifyW]
    | some m =>
      cases hmk : matchWildcard m (x.conn c).source
      · simp [hmk]
      · cases hl : u.modes.isLocalOper <;> simp [Ctx.modifyW, hmk]

theorem maskOkB_iff (mask : Option Str) (source : Str) :
    maskOkB mask source = true ↔ (mask = none ∨ ∃ m, mask = some m ∧ glob m source = true) := by
  cases mask with
  | none => simp [maskOkB]
  | some m => simp [maskOkB, Irc.C14.matchWildcard_eq_glob]

theorem processOper_frame :
    (processOper cfg c name pw x).queued = x.queued ∧
    (processOper cfg c name pw x).w.conns = x.w.conns ∧
    (processOper cfg c name pw x).w.channels = x.w.channels ∧
    (processOper cfg c name pw x).w.wallops = x.w.wallops ∧
    (processOper cfg c name pw x).w.srvQuit = x.w.srvQuit ∧
    ∀ n, (x.conn c).nick ≠ some n →
      Map.lookup n (processOper cfg c name pw x).w.users = Map.lookup n x.w.users := by
  cases hn : (x.conn c).nick with
  | none => unfold processOper; simp [hn]
  | some nick =>
    cases hop : cfg.findOper name with
    | none => unfold processOper; simp [hn, hop]
    | some op =>
      cases hu : Map.lookup nick x.w.users with
      | none => unfold processOper; simp [hn, hop, hu]
      | some u =>
        rw [processOper_eq cfg c name pw x hn hop hu]
        by_cases h1 : cfg.pwOk pw op.password = false
        · simp [h1]
        · by_cases h2 : maskOkB op.mask (x.conn c).source = false
          · simp [h1, h2]
          · simp only [h1, h2]
            refine ⟨rfl, rfl, rfl, rfl, rfl, ?_⟩
            intro n hne
            have hne' : nick ≠ n := fun e => hne (by rw [e])
            simp [Map.lookup_insert_ne _ _ _ _ hne']

variable {cfg c name pw x} {nick : Str} {u : User}

theorem processOper_granted (hn : (x.conn c).nick = some nick)
    (hu : Map.lookup nick x.w.users = some u)
    (h : OperGranted cfg (x.conn c).source name pw) :
    (processOper cfg c name pw x).direct =
        x.direct ++ [':' :: (cfg.name ++ ' ' :: RplYoureOper381 (x.conn c).clientName)] ∧
    Map.lookup nick (processOper cfg c name pw x).w.users =
        some { u with modes := { u.modes with oper := true } } ∧
    (processOper cfg c name pw x).w.operatorsCount =
        (if u.modes.isLocalOper then x.w.operatorsCount else x.w.operatorsCount + 1) ∧
    (processOper cfg c name pw x).w.panicked = x.w.panicked := by
  obtain ⟨op, hop, hpw, hm⟩ := h
  have hm' := (maskOkB_iff op.mask (x.conn c).source).mpr hm
  rw [processOper_eq cfg c name pw x hn hop hu]
  simp [hpw, hm']

theorem processOper_refused (hn : (x.conn c).nick = some nick)
    (hu : Map.lookup nick x.w.users = some u)
    (h : ¬ OperGranted cfg (x.conn c).source name pw) :
    processOper cfg c name pw x =
      x.reply cfg (if (∃ op, cfg.findOper name = some op ∧ cfg.pwOk pw op.password = false)
        then ErrPasswdMismatch464 (x.conn c).clientName
        else ErrNoOperHost491 (x.conn c).clientName) := by
  cases hop : cfg.findOper name with
  | none => unfold processOper; simp [hn, hop]
  | some op =>
    rw [processOper_eq cfg c name pw x hn hop hu]
    cases hpw : cfg.pwOk pw op.password with
    | false => simp [hpw]
    | true =>
      have hm : ¬ (maskOkB op.mask (x.conn c).source = true) :=
        fun hm => h ⟨op, hop, hpw, (maskOkB_iff _ _).mp hm⟩
      simp only [Bool.not_eq_true] at hm
      simp [hm, hpw]
end oper

/-! ## 2. user MODE never grants operator flags -/
section umode
variable (cfg : Cfg) (cn : Conn) (nick : Str)

theorem umodeChar_other (a : UModeAcc) (ch : Char) (h : ch ∉ ['+','-','i','r','w','o','O']) :
    umodeChar cfg cn nick a ch = a := by
  simp only [List.mem_cons, List.not_mem_nil, or_false, not_or] at h
  unfold umodeChar
  simp only
  obtain ⟨h1,h2,h3,h4,h5,h6,h7⟩ := h
  rw [if_neg h1, if_neg h2, if_neg h3, if_neg h4, if_neg h5, if_neg h6, if_neg h7]

/-- case split over the seven letters `umodeChar` knows -/
theorem umodeChar_ind (P : Char → UModeAcc → Prop) (a : UModeAcc)
    (h : ∀ ch ∈ ['+','-','i','r','w','o','O'], P ch (umodeChar cfg cn nick a ch))
    (h0 : ∀ ch, P ch a) (ch : Char) : P ch (umodeChar cfg cn nick a ch) := by
  by_cases hm : ch ∈ ['+','-','i','r','w','o','O']
  · exact h ch hm
  · rw [umodeChar_other cfg cn nick a ch hm]; exact h0 ch

theorem umodeChar_oper (a : UModeAcc) (ch : Char)
    (h : (umodeChar cfg cn nick a ch).modes.oper = true) : a.modes.oper = true := by
  revert h
  refine umodeChar_ind cfg cn nick (fun _ a' => a'.modes.oper = true → a.modes.oper = true) a ?_ (fun _ => id) ch
  intro ch hm
  simp only [List.mem_cons, List.not_mem_nil, or_false] at hm
  rcases hm with rfl | rfl | rfl | rfl | rfl | rfl | rfl <;>
    (unfold umodeChar; simp only [Char.reduceEq, ↓reduceIte]; repeat' split) <;> simp_all

theorem umodeChar_localOper (a : UModeAcc) (ch : Char) :
    (umodeChar cfg cn nick a ch).modes.localOper = a.modes.localOper := by
  refine umodeChar_ind cfg cn nick (fun _ a' => a'.modes.localOper = a.modes.localOper) a ?_ (fun _ => rfl) ch
  intro ch hm
  simp only [List.mem_cons, List.not_mem_nil, or_false] at hm
  rcases hm with rfl | rfl | rfl | rfl | rfl | rfl | rfl <;>
    (unfold umodeChar; simp only [Char.reduceEq, ↓reduceIte]; repeat' split) <;> rfl

/-- `umodeChar` touches, of the world, only `wallops` and the two counters (and the panic flag) -/
theorem umodeChar_frame (a : UModeAcc) (ch : Char) :
    (umodeChar cfg cn nick a ch).x.w.users = a.x.w.users ∧
    (umodeChar cfg cn nick a ch).x.w.channels = a.x.w.channels ∧
    (umodeChar cfg cn nick a ch).x.w.conns = a.x.w.conns ∧
    (umodeChar cfg cn nick a ch).x.w.srvQuit = a.x.w.srvQuit ∧
    (umodeChar cfg cn nick a ch).x.queued = a.x.queued := by
  refine umodeChar_ind cfg cn nick (fun _ a' => a'.x.w.users = a.x.w.users ∧
    a'.x.w.channels = a.x.w.channels ∧ a'.x.w.conns = a.x.w.conns ∧
    a'.x.w.srvQuit = a.x.w.srvQuit ∧ a'.x.queued = a.x.queued) a ?_
    (fun _ => ⟨rfl, rfl, rfl, rfl, rfl⟩) ch
  intro ch hm
  simp only [List.mem_cons, List.not_mem_nil, or_false] at hm
  rcases hm with rfl | rfl | rfl | rfl | rfl | rfl | rfl <;>
    (unfold umodeChar; simp only [Char.reduceEq, ↓reduceIte]; repeat' split) <;>
    (refine ⟨?_, ?_, ?_, ?_, ?_⟩ <;> first | rfl | (simp only [Ctx.modifyW_w]; done) | (simp only [Ctx.modifyW_w]; split <;> rfl))
end umode

section umodeFold
variable (cfg : Cfg) (cn : Conn) (nick : Str)

/-- what one step of the user-MODE loop may do to the accumulator -/
structure UStep (a a' : UModeAcc) : Prop where
  oper : a'.modes.oper = true → a.modes.oper = true
  localOper : a'.modes.localOper = a.modes.localOper
  users : a'.x.w.users = a.x.w.users
  channels : a'.x.w.channels = a.x.w.channels
  conns : a'.x.w.conns = a.x.w.conns
  srvQuit : a'.x.w.srvQuit = a.x.w.srvQuit
  queued : a'.x.queued = a.x.queued

theorem UStep.refl (a : UModeAcc) : UStep a a := ⟨id, rfl, rfl, rfl, rfl, rfl, rfl⟩

theorem UStep.trans {a b c : UModeAcc} (h1 : UStep a b) (h2 : UStep b c) : UStep a c :=
  ⟨fun h => h1.oper (h2.oper h), h2.localOper.trans h1.localOper, h2.users.trans h1.users,
   h2.channels.trans h1.channels, h2.conns.trans h1.conns, h2.srvQuit.trans h1.srvQuit,
   h2.queued.trans h1.queued⟩

theorem UStep.ofChar (a : UModeAcc) (ch : Char) : UStep a (umodeChar cfg cn nick a ch) := by
  obtain ⟨h1, h2, h3, h4, h5⟩ := umodeChar_frame cfg cn nick a ch
  exact ⟨umodeChar_oper cfg cn nick a ch, umodeChar_localOper cfg cn nick a ch, h1, h2, h3, h4, h5⟩

theorem UStep.foldChars (s : Str) (a : UModeAcc) : UStep a (s.foldl (Irc.umodeChar cfg cn nick) a) := by
  induction s generalizing a with
  | nil => exact UStep.refl a
  | cons ch s ih => exact (UStep.ofChar cfg cn nick a ch).trans (ih _)

theorem UStep.foldGroups (gs : List (Str × List Str)) (a : UModeAcc) :
    UStep a (gs.foldl (fun a g => g.1.foldl (Irc.umodeChar cfg cn nick) { a with modeSet := false }) a) := by
  induction gs generalizing a with
  | nil => exact UStep.refl a
  | cons g gs ih =>
    refine UStep.trans ?_ (ih _)
    have h0 : UStep a { a with modeSet := false } := ⟨id, rfl, rfl, rfl, rfl, rfl, rfl⟩
    exact h0.trans (UStep.foldChars cfg cn nick g.1 _)

end umodeFold

/-- The effect of MODE on a user, on the world: the target's `modes` are replaced by some `m`
    whose operator flags are not above the old ones; nothing else in `users`, no channel,
    no connection, no queue is touched. -/
theorem processModeUser_effect (cfg : Cfg) (c : Nat) (target : Str) (modes : List (Str × List Str))
    (x : Ctx) :
    ∃ m : UserModes,
      (∀ u, Map.lookup target x.w.users = some u →
        (m.oper = true → u.modes.oper = true) ∧ m.localOper = u.modes.localOper) ∧
      (processModeUser cfg c target modes x).w.users =
        Map.modify target (fun u => { u with modes := m }) x.w.users ∧
      (processModeUser cfg c target modes x).w.channels = x.w.channels ∧
      (processModeUser cfg c target modes x).w.conns = x.w.conns ∧
      (processModeUser cfg c target modes x).w.srvQuit = x.w.srvQuit ∧
      (processModeUser cfg c target modes x).queued = x.queued := by
  unfold processModeUser
  cases hu : Map.lookup target x.w.users with
  | none =>
    refine ⟨{}, by simp, ?_, rfl, rfl, rfl, rfl⟩
    simp only [Ctx.panic_w, World.panic_users]
    exact (Map.modify_eq_self _ _ _ (by simp [hu])).symm
  | some user =>
    simp only
    by_cases he : modes.isEmpty = true
    · simp only [he, ↓reduceIte]
      refine ⟨user.modes, ?_, ?_, rfl, rfl, rfl, rfl⟩
      · intro u h; cases h; exact ⟨id, rfl⟩
      · simp only [Ctx.reply_w]
        exact (Map.modify_eq_self _ _ _ (by intro v hv; rw [hu] at hv; cases hv; rfl)).symm
    · simp only [he, Bool.false_eq_true, ↓reduceIte]
      have st := UStep.foldGroups cfg (x.conn c) target modes { x := x, modes := user.modes }
      generalize (List.foldl (fun a g => List.foldl (umodeChar cfg (x.conn c) target)
        { a with modeSet := false } g.1) ({ x := x, modes := user.modes } : UModeAcc) modes) = A at st
      refine ⟨A.modes, ?_, ?_, ?_, ?_, ?_, ?_⟩
      · intro u h; cases h; exact ⟨st.oper, st.localOper⟩
      · split <;> simp [st.users]
      · split <;> simp [st.channels]
      · split <;> simp [st.conns]
      · split <;> simp [st.srvQuit]
      · split <;> simp [st.queued]

/-- `+o` / `+O` asked by a user who lacks that flag: one 481 line, nothing else. -/
theorem processModeUser_plus_refused (cfg : Cfg) (c : Nat) (target : Str) (args : List Str) (x : Ctx)
    (u : User) (hu : Map.lookup target x.w.users = some u) :
    (u.modes.oper = false →
      processModeUser cfg c target [(['+', 'o'], args)] x =
        x.reply cfg (ErrNoPrivileges481 (x.conn c).clientName)) ∧
    (u.modes.localOper = false →
      processModeUser cfg c target [(['+', 'O'], args)] x =
        x.reply cfg (ErrNoPrivileges481 (x.conn c).clientName)) := by
  have hm : Map.modify target (fun v => { v with modes := u.modes }) x.w.users = x.w.users :=
    Map.modify_eq_self _ _ _ (by intro v hv; rw [hu] at hv; cases hv; rfl)
  constructor
  · intro h
    simp [processModeUser, hu, umodeChar, h, Ctx.modifyW, Ctx.reply, hm]
  · intro h
    simp [processModeUser, hu, umodeChar, h, Ctx.modifyW, Ctx.reply, hm]

/-- MODE aimed at a nick that is not the sender's own: refused with one line. -/
theorem processMode_foreign (cfg : Cfg) (c : Nat) (t : Str) (modes : List (Str × List Str)) (x : Ctx)
    (nick : Str) (hn : (x.conn c).nick = some nick) (hc : validateChannel t = false) (hne : t ≠ nick) :
    processMode cfg c t modes x =
      x.reply cfg (if Map.contains t x.w.users then ErrUsersDontMatch502 (x.conn c).clientName
                   else ErrNoSuchNick401 (x.conn c).clientName t) := by
  unfold processMode
  have : (nick == t) = false := by simp [Ne.symm hne]
  simp only [hn, hc, this, Bool.false_eq_true, ↓reduceIte]
  split <;> rfl

/-! ## 5. KILL / DIE: the quit signal -/
section kill
variable (k cm : Str)

theorem User.killed_eta (v : User) (h : v.killed = true) : { v with killed := true } = v := by
  cases v; simp_all

/-- the connection update of a fired signal -/
def markKilled (k cm : Str) (cn : Conn) : Conn := { cn with killedBy := some (k, cm) }

theorem markKilled_idem (cn : Conn) : markKilled k cm (markKilled k cm cn) = markKilled k cm cn := rfl

theorem conn?_id {w : World} {i : Nat} {cn : Conn} (h : w.conn? i = some cn) : cn.id = i := by
  unfold World.conn? at h
  have := List.find?_some h
  simpa using this

theorem fireKill_users (n : Str) (w : World) (m : Str) :
    Map.lookup m (fireKill k cm n w).users =
      if m = n then (Map.lookup m w.users).map (fun v => { v with killed := true })
      else Map.lookup m w.users := by
  unfold fireKill
  cases hu : Map.lookup n w.users with
  | none =>
    simp only
    split
    · rename_i h; subst h; simp [hu]
    · rfl
  | some v =>
    simp only
    by_cases hk : v.killed = true
    · simp only [hk, ↓reduceIte]
      split
      · rename_i h; subst h; simp [hu, User.killed_eta v hk]
      · rfl
    · simp only [hk, Bool.false_eq_true, ↓reduceIte]
      have : ∀ w' : World, w'.users = Map.insert n { v with killed := true } w.users →
          Map.lookup m w'.users = if m = n then (Map.lookup m w.users).map (fun v => { v with killed := true })
            else Map.lookup m w.users := by
        intro w' hw'
        rw [hw', Map.lookup_insert]
        by_cases hmn : m = n
        · subst hmn; simp [hu]
        · simp [hmn, Ne.symm hmn]
      split
      · exact this _ (by simp)
      · exact this _ rfl

theorem fireKill_conn? (n : Str) (w : World) (i : Nat) :
    (fireKill k cm n w).conn? i =
      if (∃ v, Map.lookup n w.users = some v ∧ v.killed = false ∧ v.owner = i)
      then (w.conn? i).map (markKilled k cm) else w.conn? i := by
  unfold fireKill
  cases hu : Map.lookup n w.users with
  | none => simp
  | some v =>
    simp only
    by_cases hk : v.killed = true
    · simp [hk]
    · simp only [hk, Bool.false_eq_true, ↓reduceIte]
      have hk' : v.killed = false := by simpa using hk
      have hc : ∀ j, World.conn? { w with users := Map.insert n { v with killed := true } w.users } j
          = w.conn? j := fun _ => rfl
      rw [hc]
      cases ho : w.conn? v.owner with
      | none =>
        simp only [hc]
        split
        · rename_i h; obtain ⟨v', e, _, h3⟩ := h; cases e; subst h3; simp [ho]
        · rfl
      | some cn =>
        simp only
        rw [conn?_setConn, hc]
        have hid := conn?_id ho
        by_cases hi : i = v.owner
        · subst hi
          simp [hid, ho, markKilled, hk']
        · have hi' : ¬ v.owner = i := fun e => hi e.symm
          simp [hid, hi, hi']

/-- everything else is untouched -/
theorem fireKill_frame (n : Str) (w : World) :
    (fireKill k cm n w).channels = w.channels ∧ (fireKill k cm n w).wallops = w.wallops ∧
    (fireKill k cm n w).srvQuit = w.srvQuit ∧ (fireKill k cm n w).panicked = w.panicked ∧
    (fireKill k cm n w).operatorsCount = w.operatorsCount ∧
    (fireKill k cm n w).invisibleCount = w.invisibleCount ∧
    (fireKill k cm n w).histories = w.histories ∧
    (fireKill k cm n w).connsCount = w.connsCount := by
  unfold fireKill
  split
  · simp
  · split
    · simp
    · simp only; split <;> simp

theorem fireKill_modesKept (n : Str) (w : World) : ModesKept w (fireKill k cm n w) := by
  intro m u' h
  rw [fireKill_users] at h
  split at h
  · cases hl : Map.lookup m w.users with
    | none => simp [hl] at h
    | some u => simp [hl] at h; exact ⟨u, rfl, by rw [← h]⟩
  · exact ⟨u', h, rfl⟩
end kill

section killAll
variable (k cm : Str)

/-- the loop of DIE -/
def killAll (k cm : Str) (ns : List Str) (w : World) : World :=
  ns.foldl (fun w n => fireKill k cm n w) w

/-- some listed nick is a not-yet-signalled user owned by connection `i` -/
def Hit (w : World) (ns : List Str) (i : Nat) : Prop :=
  ∃ n ∈ ns, ∃ v, Map.lookup n w.users = some v ∧ v.killed = false ∧ v.owner = i

theorem killAll_users (ns : List Str) (w : World) (m : Str) :
    Map.lookup m (killAll k cm ns w).users =
      if m ∈ ns then (Map.lookup m w.users).map (fun v => { v with killed := true })
      else Map.lookup m w.users := by
  induction ns generalizing w with
  | nil => simp [killAll]
  | cons n ns ih =>
    have : killAll k cm (n :: ns) w = killAll k cm ns (fireKill k cm n w) := rfl
    rw [this, ih, fireKill_users]
    by_cases h1 : m = n
    · subst h1
      by_cases h2 : m ∈ ns
      · simp only [h2, ↓reduceIte, List.mem_cons, true_or]
        cases Map.lookup m w.users <;> simp
      · simp [h2]
    · simp [h1]

theorem killAll_conn? (ns : List Str) (w : World) (i : Nat) :
    (Hit w ns i → (killAll k cm ns w).conn? i = (w.conn? i).map (markKilled k cm)) ∧
    (¬ Hit w ns i → (killAll k cm ns w).conn? i = w.conn? i) := by
  induction ns generalizing w with
  | nil =>
    refine ⟨?_, fun _ => rfl⟩
    rintro ⟨n, hn, _⟩; cases hn
  | cons n ns ih =>
    have e : killAll k cm (n :: ns) w = killAll k cm ns (fireKill k cm n w) := rfl
    obtain ⟨ih1, ih2⟩ := ih (fireKill k cm n w)
    have hf := fireKill_conn? k cm n w i
    -- relate the three conditions
    have hiff : Hit w (n :: ns) i ↔
        ((∃ v, Map.lookup n w.users = some v ∧ v.killed = false ∧ v.owner = i) ∨
         Hit (fireKill k cm n w) ns i) := by
      constructor
      · rintro ⟨m, hm, v, hv, hk, ho⟩
        by_cases hmn : m = n
        · subst hmn; exact Or.inl ⟨v, hv, hk, ho⟩
        · right
          have hm' : m ∈ ns := by simpa [hmn] using hm
          exact ⟨m, hm', v, by rw [fireKill_users]; simp [hmn, hv], hk, ho⟩
      · rintro (⟨v, hv, hk, ho⟩ | ⟨m, hm, v, hv, hk, ho⟩)
        · exact ⟨n, by simp, v, hv, hk, ho⟩
        · rw [fireKill_users] at hv
          by_cases hmn : m = n
          · subst hmn
            simp only [↓reduceIte] at hv
            cases hl : Map.lookup m w.users with
            | none => simp [hl] at hv
            | some v0 =>
              simp [hl] at hv
              rw [← hv] at hk
              simp at hk
          · simp only [hmn, ↓reduceIte] at hv
            exact ⟨m, by simp [hm], v, hv, hk, ho⟩
    rw [e]
    by_cases h1 : (∃ v, Map.lookup n w.users = some v ∧ v.killed = false ∧ v.owner = i)
    · have h3 : Hit w (n :: ns) i := hiff.mpr (Or.inl h1)
      simp only [h1, ↓reduceIte] at hf
      refine ⟨fun _ => ?_, fun h => absurd h3 h⟩
      by_cases h2 : Hit (fireKill k cm n w) ns i
      · rw [ih1 h2, hf]
        cases w.conn? i <;> simp [markKilled]
      · rw [ih2 h2, hf]
    · simp only [h1, ↓reduceIte] at hf
      by_cases h2 : Hit (fireKill k cm n w) ns i
      · have h3 : Hit w (n :: ns) i := hiff.mpr (Or.inr h2)
        refine ⟨fun _ => ?_, fun h => absurd h3 h⟩
        rw [ih1 h2, hf]
      · have h3 : ¬ Hit w (n :: ns) i := fun h => (hiff.mp h).elim h1 h2
        refine ⟨fun h => absurd h h3, fun _ => ?_⟩
        rw [ih2 h2, hf]

theorem killAll_frame (ns : List Str) (w : World) :
    (killAll k cm ns w).channels = w.channels ∧ (killAll k cm ns w).wallops = w.wallops ∧
    (killAll k cm ns w).srvQuit = w.srvQuit ∧ (killAll k cm ns w).panicked = w.panicked ∧
    (killAll k cm ns w).operatorsCount = w.operatorsCount ∧
    (killAll k cm ns w).invisibleCount = w.invisibleCount ∧
    (killAll k cm ns w).histories = w.histories ∧
    (killAll k cm ns w).connsCount = w.connsCount := by
  induction ns generalizing w with
  | nil => simp [killAll]
  | cons n ns ih =>
    have e : killAll k cm (n :: ns) w = killAll k cm ns (fireKill k cm n w) := rfl
    obtain ⟨a1, a2, a3, a4, a5, a6, a7, a8⟩ := ih (fireKill k cm n w)
    obtain ⟨b1, b2, b3, b4, b5, b6, b7, b8⟩ := fireKill_frame k cm n w
    rw [e]
    exact ⟨a1.trans b1, a2.trans b2, a3.trans b3, a4.trans b4, a5.trans b5, a6.trans b6,
      a7.trans b7, a8.trans b8⟩

theorem killAll_modesKept (ns : List Str) (w : World) : ModesKept w (killAll k cm ns w) := by
  induction ns generalizing w with
  | nil => exact ModesKept.refl w
  | cons n ns ih => exact (fireKill_modesKept k cm n w).trans (ih _)
end killAll

/-! ## sendAll -/

theorem send_queued (x : Ctx) (n line : Str) :
    (x.send n line).queued =
      x.queued ++ ((Map.lookup n x.w.users).map (fun u => (u.owner, line))).toList := by
  unfold Ctx.send
  cases Map.lookup n x.w.users <;> simp

theorem sendAll_users (ns : List Str) (line : Str) (x : Ctx) :
    (x.sendAll ns line).w.users = x.w.users := by
  unfold Ctx.sendAll
  induction ns generalizing x with
  | nil => rfl
  | cons n ns ih => simp only [List.foldl_cons]; rw [ih]; simp

theorem sendAll_direct (ns : List Str) (line : Str) (x : Ctx) :
    (x.sendAll ns line).direct = x.direct := by
  unfold Ctx.sendAll
  induction ns generalizing x with
  | nil => rfl
  | cons n ns ih => simp only [List.foldl_cons]; rw [ih]; simp

/-- `sendAll` queues the line once per listed nick that is a user, to the connection owning it,
    in list order. -/
theorem sendAll_queued (ns : List Str) (line : Str) (x : Ctx) :
    (x.sendAll ns line).queued =
      x.queued ++ ns.filterMap (fun n => (Map.lookup n x.w.users).map (fun u => (u.owner, line))) := by
  unfold Ctx.sendAll
  induction ns generalizing x with
  | nil => simp
  | cons n ns ih =>
    simp only [List.foldl_cons]
    rw [ih, send_queued]
    simp only [Ctx.send_users, List.filterMap_cons]
    cases Map.lookup n x.w.users <;> simp

theorem sendAll_w (ns : List Str) (line : Str) (x : Ctx)
    (h : ∀ n ∈ ns, ∃ u, Map.lookup n x.w.users = some u) :
    (x.sendAll ns line).w = x.w := by
  unfold Ctx.sendAll
  induction ns generalizing x with
  | nil => rfl
  | cons n ns ih =>
    simp only [List.foldl_cons]
    obtain ⟨u, hu⟩ := h n (by simp)
    have e : (x.send n line).w = x.w := by rw [Ctx.send_w_of_lookup x n line hu]
    rw [ih, e]
    intro m hm
    rw [e]
    exact h m (by simp [hm])

/-! ## teardown removes the user -/

theorem removeUserFromChannel_lookup_none (w : World) (ch n : Str)
    (h : Map.lookup n w.users = none) : Map.lookup n (w.removeUserFromChannel ch n).users = none := by
  unfold World.removeUserFromChannel
  simp only [Map.lookup_modify, ↓reduceIte]
  have : ∀ w' : World, w'.users = w.users → Option.map (fun u : User =>
      { u with channels := KSet.erase ch u.channels }) (Map.lookup n w'.users) = none := by
    intro w' e; rw [e, h]; rfl
  apply this
  split
  · split
    · rfl
    · split <;> rfl
  · rfl

theorem removeUser_lookup_self (w : World) (n : Str) : Map.lookup n (w.removeUser n).users = none := by
  unfold World.removeUser
  cases hu : Map.lookup n w.users with
  | none => exact hu
  | some user =>
    simp only
    have pushH : ∀ (w' : World) e, (w'.pushHistory n e).users = w'.users := fun _ _ => rfl
    rw [pushH]
    have fold : ∀ (chs : List Str) (w' : World), Map.lookup n w'.users = none →
        Map.lookup n (chs.foldl (fun w chn => w.removeUserFromChannel chn n) w').users = none := by
      intro chs
      induction chs with
      | nil => intro w' h; exact h
      | cons ch chs ih =>
        intro w' h
        exact ih _ (removeUserFromChannel_lookup_none w' ch n h)
    apply fold
    have : ∀ w' : World, w'.users = Map.erase n w.users → Map.lookup n w'.users = none := by
      intro w' e; rw [e]; simp
    apply this
    split <;> split <;> (try split) <;> (try split) <;> rfl

/-! ## generic fold lemmas -/

theorem foldl_w_queued {β : Type} (f : Ctx → β → Ctx)
    (h : ∀ x b, (f x b).w = x.w ∧ (f x b).queued = x.queued) (l : List β) (x : Ctx) :
    (l.foldl f x).w = x.w ∧ (l.foldl f x).queued = x.queued := by
  induction l generalizing x with
  | nil => exact ⟨rfl, rfl⟩
  | cons b l ih =>
    obtain ⟨h1, h2⟩ := ih (f x b)
    obtain ⟨h3, h4⟩ := h x b
    exact ⟨h1.trans h3, h2.trans h4⟩

theorem filterMap_congr' {α β : Type} (f g : α → Option β) (l : List α)
    (h : ∀ a ∈ l, f a = g a) : l.filterMap f = l.filterMap g := by
  induction l with
  | nil => rfl
  | cons a l ih =>
    simp only [List.filterMap_cons]
    rw [h a (by simp), ih (fun b hb => h b (by simp [hb]))]

/-! ## 4. per-handler frame lemmas: `users` unchanged -/

theorem foldl_users {β : Type} (f : Ctx → β → Ctx) (h : ∀ x b, (f x b).w.users = x.w.users)
    (l : List β) (x : Ctx) : (l.foldl f x).w.users = x.w.users := by
  induction l generalizing x with
  | nil => rfl
  | cons b l ih => exact (ih (f x b)).trans (h x b)

section usersEq
variable (cfg : Cfg) (c : Nat) (x : Ctx)

@[simp] theorem unsupported_users (client : Str) (s : String) :
    (unsupported cfg client s x).w.users = x.w.users := rfl

@[simp] theorem sendIsupport_users (client : Str) : (sendIsupport cfg client x).w.users = x.w.users := by
  unfold sendIsupport; apply foldl_users; intro y b; rfl

@[simp] theorem processLusers_users (client : Str) : (processLusers cfg client x).w.users = x.w.users := by
  unfold processLusers; simp only [Ctx.reply_w]; split <;> rfl

@[simp] theorem processMotd_users (client : Str) (t : Option Str) :
    (processMotd cfg client t x).w.users = x.w.users := by
  unfold processMotd; split <;> rfl

@[simp] theorem processAuthenticate_users : (processAuthenticate cfg c x).w.users = x.w.users := rfl
@[simp] theorem processPing_users (t : Str) : (processPing cfg c t x).w.users = x.w.users := rfl
@[simp] theorem processPong_users : (processPong cfg c x).w.users = x.w.users := rfl
@[simp] theorem processQuit_users : (processQuit cfg c x).w.users = x.w.users := rfl
@[simp] theorem processInfo_users : (processInfo cfg c x).w.users = x.w.users := rfl

@[simp] theorem processVersion_users (t : Option Str) : (processVersion cfg c t x).w.users = x.w.users := by
  unfold processVersion; split <;> simp

@[simp] theorem processAdmin_users (t : Option Str) : (processAdmin cfg c t x).w.users = x.w.users := by
  unfold processAdmin; split
  · rfl
  · simp only; split <;> split <;> rfl

@[simp] theorem processTime_users (t : Option Str) : (processTime cfg c t x).w.users = x.w.users := by
  unfold processTime; split <;> rfl

@[simp] theorem processLinks_users (r m : Option Str) : (processLinks cfg c r m x).w.users = x.w.users := by
  unfold processLinks; split <;> rfl

theorem helpLines_users (client subject : Str) (i : Nat) (ls : List Str) (total : Nat) :
    (helpLines cfg client subject i ls total x).w.users = x.w.users := by
  induction ls generalizing i x with
  | nil => rfl
  | cons l ls ih =>
    unfold helpLines
    simp only
    rw [ih]
    split
    · rfl
    · split <;> rfl

@[simp] theorem processHelp_users (s : Option Str) : (processHelp cfg c s x).w.users = x.w.users := by
  unfold processHelp
  simp only
  split
  · exact helpLines_users ..
  · rfl

@[simp] theorem processStats_users (q : Char) (s : Option Str) :
    (processStats cfg c q s x).w.users = x.w.users := by
  unfold processStats
  simp only
  split
  · rfl
  · split
    · rfl
    · split
      · rfl
      · split
        · simp only [Ctx.reply_w]
          split
          · rfl
          · split
            · apply foldl_users; intro y b; split <;> rfl
            · rfl
        · rfl

@[simp] theorem processWhowas_users (n : Str) (cnt : Option Nat) (s : Option Str) :
    (processWhowas cfg c n cnt s x).w.users = x.w.users := by
  unfold processWhowas
  simp only
  split
  · rfl
  · simp only [Ctx.reply_w]
    split
    · apply foldl_users; intro y b; rfl
    · rfl

@[simp] theorem processUserhost_users (ns : List Str) : (processUserhost cfg c ns x).w.users = x.w.users := by
  unfold processUserhost; simp only; apply foldl_users; intro y b; rfl

@[simp] theorem processIson_users (ns : List Str) : (processIson cfg c ns x).w.users = x.w.users := by
  unfold processIson; simp only; apply foldl_users; intro y b; rfl

@[simp] theorem processWallops_users (msg : Message) : (processWallops cfg c msg x).w.users = x.w.users := by
  unfold processWallops
  simp only
  split
  · rfl
  · split
    · rfl
    · split
      · exact sendAll_users ..
      · rfl

end usersEq

section usersEq2
variable (cfg : Cfg) (c : Nat) (x : Ctx)

theorem ite_w_users (p : Prop) [Decidable p] (a b : Ctx) :
    (if p then a else b).w.users = if p then a.w.users else b.w.users := by
  split <;> rfl

theorem namesLines_users (cn : Conn) (chname : Str) (ch : Channel) (us : Map User) :
    (namesLines cfg cn chname ch us x).w.users = x.w.users := by
  unfold namesLines
  simp only
  refine (foldl_users _ ?_ _ _).trans ?_
  · intro y b; rfl
  · simp only [ite_w_users, Ctx.panic_w, World.panic_users, ite_self]

@[simp] theorem sendNamesFromChannel_users (chname : Str) (ch : Channel) (e : Bool) :
    (sendNamesFromChannel cfg c chname ch e x).w.users = x.w.users := by
  unfold sendNamesFromChannel
  simp only [ite_w_users, Ctx.reply_w, namesLines_users, ite_self]

@[simp] theorem processNames_users (chs : List Str) : (processNames cfg c chs x).w.users = x.w.users := by
  unfold processNames
  simp only
  split
  · apply foldl_users; intro y b; split
    · simp
    · rfl
  · simp only [Ctx.reply_w]
    apply foldl_users; intro y b; simp

@[simp] theorem processList_users (chs : List Str) (s : Option Str) :
    (processList cfg c chs s x).w.users = x.w.users := by
  unfold processList
  simp only
  split
  · rfl
  · simp only [Ctx.reply_w]
    split
    · refine (foldl_users _ ?_ _ _).trans rfl
      intro y b; split
      · split <;> rfl
      · rfl
    · refine (foldl_users _ ?_ _ _).trans rfl
      intro y b; split <;> rfl

@[simp] theorem processTopic_users (ch : Str) (t : Option Str) (msg : Message) :
    (processTopic cfg c ch t msg x).w.users = x.w.users := by
  unfold processTopic
  simp only
  split
  · rfl
  · split
    · split
      · split
        · split
          · rw [sendAll_users]; rfl
          · rfl
        · rfl
      · rfl
    · split
      · split
        · split <;> rfl
        · rfl
      · rfl

end usersEq2

theorem foldl_pair_users {β γ : Type} (f : Ctx × γ → β → Ctx × γ)
    (h : ∀ p b, (f p b).1.w.users = p.1.w.users) (l : List β) (p : Ctx × γ) :
    (l.foldl f p).1.w.users = p.1.w.users := by
  induction l generalizing p with
  | nil => rfl
  | cons b l ih => exact (ih (f p b)).trans (h p b)

section usersEq3
variable (cfg : Cfg) (c : Nat) (x : Ctx)

theorem privmsgTarget_users (nick : Str) (notice : Bool) (text target : Str) :
    (privmsgTarget cfg c nick notice text target x).1.w.users = x.w.users := by
  unfold privmsgTarget
  simp only
  split
  · split
    · split
      · simp only
        apply foldl_users; intro y b; simp
      · simp only [ite_w_users, Ctx.reply_w, ite_self]
    · simp only [ite_w_users, Ctx.reply_w, ite_self]
  · split
    · simp only
      repeat' split
      all_goals simp
    · simp only [ite_w_users, Ctx.reply_w, ite_self]

@[simp] theorem processPrivmsgNotice_users (ts : List Str) (t : Str) (notice : Bool) :
    (processPrivmsgNotice cfg c ts t notice x).w.users = x.w.users := by
  unfold processPrivmsgNotice
  split
  · rfl
  · rename_i nick _
    simp only
    generalize hr : List.foldl _ (x, false) (dedup ts) = r
    have hu : r.1.w.users = x.w.users := by
      rw [← hr]
      refine (foldl_pair_users _ ?_ _ _).trans rfl
      rintro ⟨y, d⟩ b
      exact privmsgTarget_users ..
    obtain ⟨y, d⟩ := r
    simp only at hu ⊢
    split <;> simp [hu]
end usersEq3

section usersEq4
variable (cfg : Cfg) (c : Nat) (x : Ctx)

@[simp] theorem sendWhoInfo_users (cn : Conn) (ch : Option (Str × ChanUserModes)) (un : Str) (u cu : User) :
    (sendWhoInfo cfg cn ch un u cu x).w.users = x.w.users := by
  unfold sendWhoInfo
  simp only [ite_w_users, Ctx.reply_w, ite_self]

@[simp] theorem processWho_users (mask : Str) : (processWho cfg c mask x).w.users = x.w.users := by
  unfold processWho
  simp only
  split
  · rfl
  · split
    · rfl
    · simp only [Ctx.reply_w]
      split
      · refine (foldl_users _ ?_ _ _).trans rfl
        intro y b
        simp only [ite_w_users, sendWhoInfo_users, ite_self]
      · split
        · split
          · split
            · refine (foldl_users _ ?_ _ _).trans rfl
              intro y b
              split <;> simp
            · rfl
          · rfl
        · split
          · split <;> simp
          · rfl

theorem foldl_reply_users {β : Type} (g : β → Str) (l : List β) :
    (l.foldl (fun y b => y.reply cfg (g b)) x).w.users = x.w.users := by
  apply foldl_users; intro y b; rfl

theorem whoisOne_users (cn : Conn) (user : User) (nick : Str) :
    (whoisOne cfg cn user nick x).w.users = x.w.users := by
  unfold whoisOne
  split
  · rfl
  · simp only [ite_w_users, Ctx.reply_w, foldl_reply_users, Ctx.panic_w, World.panic_users, ite_self]

@[simp] theorem processWhois_users (t : Option Str) (ns : List Str) :
    (processWhois cfg c t ns x).w.users = x.w.users := by
  unfold processWhois
  simp only
  split
  · rfl
  · split
    · rfl
    · split
      · rfl
      · simp only [Ctx.reply_w]
        refine (foldl_users _ ?_ _ _).trans rfl
        intro y b
        exact whoisOne_users ..
end usersEq4

set_option linter.unusedSimpArgs false
section modeChan
variable (cfg : Cfg) (c : Nat) (x : Ctx)

theorem ite_acc_users (p : Prop) [Decidable p] (a b : ModeAcc) :
    (if p then a else b).x.w.users = if p then a.x.w.users else b.x.w.users := by
  split <;> rfl

theorem ite_eq_of {α : Sort _} (p : Prop) [Decidable p] (a b c : α) (h1 : p → a = c) (h2 : ¬p → b = c) :
    (if p then a else b) = c := by
  split
  · exact h1 ‹_›
  · exact h2 ‹_›

theorem modeChar_users (cn : Conn) (target : Str) (chum : ChanUserModes) (a : ModeAcc) (ch : Char) :
    (modeChar cfg cn target chum a ch).x.w.users = a.x.w.users := by
  unfold modeChar
  extract_lets client nick err482 preChecked a1 ifHalfOp sign xb xe xi m src m' a2
  have ha1 : a1.x.w.users = a.x.w.users := by
    simp only [a1, err482, ite_acc_users, Ctx.reply_w, ite_self]
  have hxb : xb.w.users = a.x.w.users := by simp only [xb, foldl_reply_users, ha1]
  have hxe : xe.w.users = a.x.w.users := by simp only [xe, foldl_reply_users, ha1]
  have hxi : xi.w.users = a.x.w.users := by simp only [xi, foldl_reply_users, ha1]
  have ha2 : a2.x.w.users = a.x.w.users := by simp only [a2, ha1]
  clear_value a1 xb xe xi a2 sign m' 
  simp only [ite_acc_users, ite_w_users, Ctx.reply_w, Ctx.panic_w, World.panic_users, ha1, hxb, hxe, hxi, ha2,
    err482, ite_self]
  repeat' (first | rfl | assumption | refine ite_eq_of _ _ _ _ (fun _ => ?_) (fun _ => ?_) | split)
  all_goals first | rfl | assumption | (simp only [ite_acc_users, ite_w_users, Ctx.reply_w, Ctx.panic_w, World.panic_users,
    ha1, hxb, hxe, hxi, ha2, ite_self]; done) | trace_state
theorem foldl_acc_users {β : Type} (f : ModeAcc → β → ModeAcc)
    (h : ∀ a b, (f a b).x.w.users = a.x.w.users) (l : List β) (a : ModeAcc) :
    (l.foldl f a).x.w.users = a.x.w.users := by
  induction l generalizing a with
  | nil => rfl
  | cons b l ih => exact (ih (f a b)).trans (h a b)

theorem modeGroup_users (cn : Conn) (target : Str) (chum : ChanUserModes) (a : ModeAcc)
    (g : Str × List Str) : (modeGroup cfg cn target chum a g).x.w.users = a.x.w.users := by
  unfold modeGroup
  exact (foldl_acc_users _ (modeChar_users cfg cn target chum) _ _).trans rfl

@[simp] theorem processModeChannel_users (target : Str) (ch : Channel) (modes : List (Str × List Str))
    (chum : ChanUserModes) : (processModeChannel cfg c target ch modes chum x).w.users = x.w.users := by
  unfold processModeChannel
  simp only
  split
  · rfl
  · have h := foldl_acc_users _ (modeGroup_users cfg (x.conn c) target chum) modes
      { x := x, ch := ch, args := [] }
    simp only at h
    split
    · refine (foldl_users _ ?_ _ _).trans ?_
      · intro y b; simp
      · simpa using h
    · simpa using h
end modeChan

/-! ## 4. per-handler lemmas: user modes kept (handlers that touch `users`) -/

theorem modesKept_of_modify {w w' : World} {n : Str} {f : User → User}
    (h : w'.users = Map.modify n f w.users) (hf : ∀ u, (f u).modes = u.modes) : ModesKept w w' := by
  intro m u' hu'
  rw [h, Map.lookup_modify] at hu'
  split at hu'
  · cases hl : Map.lookup m w.users with
    | none => simp [hl] at hu'
    | some u =>
      simp [hl] at hu'
      exact ⟨u, rfl, by rw [← hu', hf]⟩
  · exact ⟨u', hu', rfl⟩

theorem foldl_modesKept {β : Type} (f : Ctx → β → Ctx) (h : ∀ x b, ModesKept x.w (f x b).w)
    (l : List β) (x : Ctx) : ModesKept x.w (l.foldl f x).w := by
  induction l generalizing x with
  | nil => exact ModesKept.refl _
  | cons b l ih => exact (h x b).trans (ih (f x b))

theorem foldl_modesKept_w {β : Type} (f : World → β → World) (h : ∀ w b, ModesKept w (f w b))
    (l : List β) (w : World) : ModesKept w (l.foldl f w) := by
  induction l generalizing w with
  | nil => exact ModesKept.refl _
  | cons b l ih => exact (h w b).trans (ih (f w b))

theorem modesKept_ite_panic {w : World} (p : Prop) [Decidable p] (A : Ctx) (s : String)
    (h : ModesKept w A.w) : ModesKept w (if p then A else A.panic s).w := by
  split
  · exact h
  · exact h.trans (ModesKept.of_users_eq rfl)

theorem modesKept_modifyW_users (x : Ctx) (n : Str) (f : User → User)
    (hf : ∀ u, (f u).modes = u.modes) :
    ModesKept x.w (x.modifyW (fun w => { w with users := Map.modify n f w.users })).w :=
  modesKept_of_modify rfl hf

theorem removeUserFromChannel_modesKept (w : World) (ch n : Str) :
    ModesKept w (w.removeUserFromChannel ch n) := by
  have h1 : ∀ w1 : World, w1.users = w.users →
      ModesKept w { w1 with users := Map.modify n (fun u => { u with channels := KSet.erase ch u.channels }) w1.users } := by
    intro w1 e
    exact modesKept_of_modify (n := n) (f := fun u => { u with channels := KSet.erase ch u.channels })
      (by simp only [e]) (fun _ => rfl)
  unfold World.removeUserFromChannel
  apply h1
  split
  · split
    · rfl
    · split <;> rfl
  · rfl

section modesKept
variable (cfg : Cfg) (c : Nat) (x : Ctx)

theorem processAway_modesKept (t : Option Str) : ModesKept x.w (processAway cfg c t x).w := by
  unfold processAway
  simp only
  split
  · exact ModesKept.refl _
  · split
    · exact ModesKept.refl _
    · split <;> exact modesKept_modifyW_users x _ _ (fun _ => rfl)

theorem processInvite_modesKept (n ch : Str) (msg : Message) :
    ModesKept x.w (processInvite cfg c n ch msg x).w := by
  unfold processInvite
  simp only
  repeat' split
  all_goals first
    | exact ModesKept.refl _
    | (refine (modesKept_modifyW_users x n (fun u => { u with invitedTo := KSet.insert ch u.invitedTo })
        (fun _ => rfl)).trans (ModesKept.of_users_eq ?_); simp)

theorem processPart_modesKept (chs : List Str) (r : Option Str) :
    ModesKept x.w (processPart cfg c chs r x).w := by
  unfold processPart
  simp only
  split
  · exact ModesKept.refl _
  · rename_i nick _
    apply modesKept_ite_panic
    refine foldl_modesKept _ ?_ chs x
    intro y b
    split
    · split
      · refine ModesKept.trans (ModesKept.of_users_eq ?_) (removeUserFromChannel_modesKept _ b nick)
        apply foldl_users; intro z n; simp
      · exact ModesKept.refl _
    · exact ModesKept.refl _

theorem processKick_modesKept (ch : Str) (us : List Str) (cm : Option Str) :
    ModesKept x.w (processKick cfg c ch us cm x).w := by
  unfold processKick
  simp only
  split
  · exact ModesKept.refl _
  · split
    · split
      · split
        · generalize kickSelect _ _ _ _ _ _ = ks
          obtain ⟨kicked, errs⟩ := ks
          simp only
          have h1 : ModesKept x.w ((List.foldl (fun x e => x.reply cfg e) x errs).modifyW fun w =>
              List.foldl (fun w ku => w.removeUserFromChannel ch ku) w kicked).w := by
            simp only [Ctx.modifyW_w]
            refine ModesKept.trans (ModesKept.of_users_eq ?_) (foldl_modesKept_w _ ?_ _ _)
            · apply foldl_users; intro y b; rfl
            · intro w b; exact removeUserFromChannel_modesKept w ch b
          refine h1.trans (ModesKept.of_users_eq ?_)
          apply foldl_users; intro y b
          simp only [Ctx.sendDisplay_users]
          apply foldl_users; intro z n; simp
        · exact ModesKept.refl _
      · exact ModesKept.refl _
    · exact ModesKept.refl _
end modesKept

set_option linter.unusedSimpArgs false
section join
variable (cfg : Cfg) (c : Nat)

theorem joinApply_modesKept (nick : Str) (ds : List (Bool × Bool)) (chs : List Str) (w : World) :
    ModesKept w (joinApply nick ds chs w) := by
  induction ds generalizing chs w with
  | nil => unfold joinApply; exact ModesKept.refl _
  | cons d ds ih =>
    obtain ⟨join, create⟩ := d
    cases chs with
    | nil => unfold joinApply; exact ModesKept.refl _
    | cons chn chs =>
      unfold joinApply
      refine ModesKept.trans ?_ (ih chs _)
      simp only
      split
      · have h0 : ModesKept w { w with users := Map.modify nick (fun u =>
            { u with channels := KSet.insert chn u.channels, invitedTo := KSet.erase chn u.invitedTo }) w.users } :=
          modesKept_of_modify (n := nick) (f := fun u =>
            { u with channels := KSet.insert chn u.channels, invitedTo := KSet.erase chn u.invitedTo })
            rfl (fun _ => rfl)
        refine h0.trans (ModesKept.of_users_eq ?_)
        split
        · rfl
        · split <;> rfl
      · exact ModesKept.refl _

theorem joinAnnounce_users (nick : Str) (ds : List (Bool × Bool)) (chs : List Str) (x : Ctx) :
    (joinAnnounce cfg c nick ds chs x).w.users = x.w.users := by
  induction ds generalizing chs x with
  | nil => unfold joinAnnounce; rfl
  | cons d ds ih =>
    obtain ⟨join, create⟩ := d
    cases chs with
    | nil => unfold joinAnnounce; rfl
    | cons chn chs =>
      unfold joinAnnounce
      rw [ih]
      simp only
      split
      · split
        · rfl
        · refine (foldl_users _ ?_ _ _).trans ?_
          · intro y n; simp only [ite_w_users, Ctx.sendDisplay_users, ite_self]
          · simp only [sendNamesFromChannel_users]
            split <;> rfl
      · rfl

theorem processJoin_modesKept (chs : List Str) (keys : Option (List Str)) (x : Ctx) :
    ModesKept x.w (processJoin cfg c chs keys x).w := by
  unfold processJoin
  simp only
  split
  · exact ModesKept.refl _
  · split
    · exact ModesKept.refl _
    · generalize joinDecide _ _ _ _ _ _ _ _ = jd
      obtain ⟨ds, errs, fin⟩ := jd
      simp only
      refine ModesKept.trans ?_ (ModesKept.of_users_eq (joinAnnounce_users cfg c _ ds chs _))
      simp only [Ctx.modifyW_w]
      refine ModesKept.trans (ModesKept.of_users_eq ?_) (joinApply_modesKept _ ds chs _)
      apply foldl_users; intro y b; rfl
end join

section killDie
variable (cfg : Cfg) (c : Nat) (x : Ctx)

theorem processKill_modesKept (n cm : Str) : ModesKept x.w (processKill cfg c n cm x).w := by
  unfold processKill
  simp only
  split
  · exact ModesKept.refl _
  · split
    · exact ModesKept.refl _
    · split
      · split
        · exact fireKill_modesKept _ _ _ _
        · exact ModesKept.refl _
      · exact ModesKept.refl _

theorem processDie_modesKept (m : Option Str) : ModesKept x.w (processDie cfg c m x).w := by
  unfold processDie
  simp only
  split
  · exact ModesKept.refl _
  · split
    · exact ModesKept.refl _
    · split
      · rename_i nick _ _ _ _ _
        exact (killAll_modesKept nick _ _ x.w).trans (ModesKept.of_users_eq rfl)
      · exact ModesKept.refl _

theorem processSquit_modesKept (s cm : Str) : ModesKept x.w (processSquit cfg c s cm x).w := by
  unfold processSquit
  split
  · exact ModesKept.refl _
  · exact processDie_modesKept cfg c x (some cm)
end killDie

/-! ## 4. MODE, registration, NICK -/

theorem processModeUser_noRise (cfg : Cfg) (c : Nat) (target : Str) (modes : List (Str × List Str))
    (x : Ctx) : NoRise x.w (processModeUser cfg c target modes x).w := by
  intro n
  obtain ⟨m, hm, hus, _⟩ := processModeUser_effect cfg c target modes x
  unfold operOf localOperOf
  rw [hus, Map.lookup_modify]
  by_cases ht : target = n
  · subst ht
    cases hl : Map.lookup target x.w.users with
    | none => simp
    | some u =>
      obtain ⟨h1, h2⟩ := hm u hl
      simp only [↓reduceIte, Option.map_some]
      exact ⟨h1, fun h => h2 ▸ h⟩
  · simp [ht]

theorem processMode_noRise (cfg : Cfg) (c : Nat) (t : Str) (modes : List (Str × List Str)) (x : Ctx) :
    NoRise x.w (processMode cfg c t modes x).w := by
  unfold processMode
  simp only
  split
  · exact NoRise.refl _
  · split
    · split
      · split
        · exact NoRise.of_users_eq (processModeChannel_users ..)
        · exact NoRise.refl _
      · exact NoRise.refl _
    · split
      · exact processModeUser_noRise cfg c t modes x
      · split <;> exact NoRise.refl _

/-- what a registration attempt may do to `users`: nothing, or insert one NEW nick whose user is
    owned by the acting connection and carries the configured default operator flags. -/
def RegEffect (cfg : Cfg) (c : Nat) (w w' : World) : Prop :=
  w'.users = w.users ∨
  ∃ nick u, Map.lookup nick w.users = none ∧ w'.users = Map.insert nick u w.users ∧ u.owner = c ∧
    u.modes.oper = cfg.defaultUserModes.oper ∧ u.modes.localOper = cfg.defaultUserModes.localOper

theorem addUser_users (w : World) (nick : Str) (u : User) :
    (w.addUser nick u).users = Map.insert nick u w.users := by
  unfold World.addUser
  simp only
  have h : ∀ w1 : World, w1.users = w.users →
      (if (Map.insert nick u w1.users).length > w1.maxUsers then
        { w1 with users := Map.insert nick u w1.users, maxUsers := (Map.insert nick u w1.users).length }
       else { w1 with users := Map.insert nick u w1.users }).users = Map.insert nick u w.users := by
    intro w1 e; split <;> simp [e]
  apply h
  split <;> split <;> split <;> rfl

@[simp] theorem welcomeBurst_users (cfg : Cfg) (cn : Conn) (um : Str) (x : Ctx) :
    (welcomeBurst cfg cn um x).w.users = x.w.users := by
  unfold welcomeBurst
  simp

theorem authenticate_regEffect (cfg : Cfg) (c : Nat) (x : Ctx) :
    RegEffect cfg c x.w (authenticate cfg c x).w := by
  unfold authenticate
  simp only
  split
  · exact Or.inl rfl
  · exact Or.inl rfl
  · split
    · split
      · exact Or.inl rfl
      · rename_i nick _
        split
        · rename_i hnc
          split
          · exact Or.inl rfl
          · right
            have hl : Map.lookup nick x.w.users = none := by
              have : Map.contains nick x.w.users = false := by simpa using hnc
              exact (Map.contains_false_iff _ _).mp this
            refine ⟨nick, ?u, hl, ?hus, ?h1, ?h2, ?h3⟩
            case hus =>
              split
              · simp only [Ctx.setConn_w, World.setConn_users, welcomeBurst_users, Ctx.modifyW_w]
                exact addUser_users _ _ _
              · simp only [Ctx.panic_w, World.panic_users, welcomeBurst_users, Ctx.modifyW_w, Ctx.setConn_w,
                  World.setConn_users]
                exact addUser_users _ _ _
            all_goals rfl
        · exact Or.inl rfl
    · exact Or.inl rfl

theorem RegEffect.of_setConn {cfg : Cfg} {c : Nat} {x : Ctx} {cn : Conn} {w' : World}
    (h : RegEffect cfg c (x.setConn cn).w w') : RegEffect cfg c x.w w' := h

theorem processCap_regEffect (cfg : Cfg) (c : Nat) (sub : CapCommand) (caps : Option (List Str)) (x : Ctx) :
    RegEffect cfg c x.w (processCap cfg c sub caps x).w ∧
    ((processCap cfg c sub caps x).w.users ≠ x.w.users → (x.conn c).authenticated = false) := by
  unfold processCap
  simp only
  cases sub with
  | LS => exact ⟨Or.inl rfl, fun h => absurd rfl h⟩
  | LIST => exact ⟨Or.inl rfl, fun h => absurd rfl h⟩
  | REQ =>
    simp only
    split
    · split <;> exact ⟨Or.inl rfl, fun h => absurd rfl h⟩
    · exact ⟨Or.inl rfl, fun h => absurd rfl h⟩
  | END =>
    simp only
    split
    · rename_i ha
      refine ⟨RegEffect.of_setConn (authenticate_regEffect cfg c _), fun _ => ?_⟩
      simpa using ha
    · exact ⟨Or.inl rfl, fun h => absurd rfl h⟩

theorem processPass_regEffect (cfg : Cfg) (c : Nat) (p : Str) (x : Ctx) :
    RegEffect cfg c x.w (processPass cfg c p x).w ∧
    ((processPass cfg c p x).w.users ≠ x.w.users → (x.conn c).authenticated = false) := by
  unfold processPass
  simp only
  split
  · rename_i ha
    exact ⟨RegEffect.of_setConn (authenticate_regEffect cfg c _), fun _ => by simpa using ha⟩
  · exact ⟨Or.inl rfl, fun h => absurd rfl h⟩

theorem processUser_regEffect (cfg : Cfg) (c : Nat) (u r : Str) (x : Ctx) :
    RegEffect cfg c x.w (processUser cfg c u r x).w ∧
    ((processUser cfg c u r x).w.users ≠ x.w.users → (x.conn c).authenticated = false) := by
  unfold processUser
  simp only
  split
  · rename_i ha
    exact ⟨RegEffect.of_setConn (authenticate_regEffect cfg c _), fun _ => by simpa using ha⟩
  · exact ⟨Or.inl rfl, fun h => absurd rfl h⟩

theorem ite_world_users (p : Prop) [Decidable p] (a b : World) :
    (if p then a else b).users = if p then a.users else b.users := by
  split <;> rfl

theorem renameInChannels_users (old new : Str) (chs : List Str) (w : World) :
    (renameInChannels old new chs w).users = w.users := by
  unfold renameInChannels
  induction chs generalizing w with
  | nil => rfl
  | cons ch chs ih =>
    simp only [List.foldl_cons]
    rw [ih]
    split
    · rfl
    · split <;> rfl

/-- what NICK may do to `users`: a registration attempt (sender not yet authenticated), nothing,
    or the move of the sender's own entry from its old nick to the new, unused nick (only
    `source` changes in the entry). -/
def NickEffect (cfg : Cfg) (c : Nat) (new : Str) (x : Ctx) (w' : World) : Prop :=
  ((x.conn c).authenticated = false ∧ RegEffect cfg c x.w w') ∨
  w'.users = x.w.users ∨
  ∃ old user src, (x.conn c).authenticated = true ∧ (x.conn c).nick = some old ∧
    Map.lookup old x.w.users = some user ∧ Map.lookup new x.w.users = none ∧
    w'.users = Map.insert new { user with source := src } (Map.erase old x.w.users)

theorem processNick_effect (cfg : Cfg) (c : Nat) (new : Str) (msg : Message) (x : Ctx) :
    NickEffect cfg c new x (processNick cfg c new msg x).w := by
  unfold processNick
  simp only
  split
  · rename_i ha
    have ha' : (x.conn c).authenticated = false := by simpa using ha
    split
    · exact Or.inl ⟨ha', RegEffect.of_setConn (authenticate_regEffect cfg c _)⟩
    · exact Or.inr (Or.inl rfl)
  · rename_i ha
    have ha' : (x.conn c).authenticated = true := by simpa using ha
    split
    · exact Or.inr (Or.inl rfl)
    · rename_i old hold
      split
      · split
        · rename_i hnc
          have hl : Map.lookup new x.w.users = none := by
            have : Map.contains new x.w.users = false := by simpa using hnc
            exact (Map.contains_false_iff _ _).mp this
          split
          · exact Or.inr (Or.inl rfl)
          · rename_i user hu
            right; right
            refine ⟨old, user, ((x.conn c).setNick new).source, ha', hold, hu, hl, ?_⟩
            rw [sendAll_users]
            simp only [Ctx.modifyW_w, Ctx.setConn_w]
            simp only [ite_world_users, World.pushHistory, renameInChannels_users, World.setConn_users, ite_self]
        · exact Or.inr (Or.inl rfl)
      · exact Or.inr (Or.inl rfl)

/-! ## 4. assembling the per-handler lemmas over `dispatch` -/

/-- the commands that can add or move a `users` entry or raise an operator flag -/
def isSpecial : Command → Bool
  | .OPER .. | .CAP .. | .PASS .. | .NICK .. | .USER .. => true
  | _ => false

section keepsOper
variable (cfg : Cfg) (c : Nat) (x : Ctx)

theorem processAuthenticate_keeps_oper : NoRise x.w (processAuthenticate cfg c x).w := NoRise.of_users_eq (by simp)
theorem processPing_keeps_oper (t : Str) : NoRise x.w (processPing cfg c t x).w := NoRise.of_users_eq (by simp)
theorem processPong_keeps_oper : NoRise x.w (processPong cfg c x).w := NoRise.of_users_eq (by simp)
theorem processQuit_keeps_oper : NoRise x.w (processQuit cfg c x).w := NoRise.of_users_eq (by simp)
theorem processJoin_keeps_oper (chs : List Str) (k : Option (List Str)) :
    NoRise x.w (processJoin cfg c chs k x).w := (processJoin_modesKept cfg c chs k x).noRise
theorem processPart_keeps_oper (chs : List Str) (r : Option Str) :
    NoRise x.w (processPart cfg c chs r x).w := (processPart_modesKept cfg c x chs r).noRise
theorem processTopic_keeps_oper (ch : Str) (t : Option Str) (msg : Message) :
    NoRise x.w (processTopic cfg c ch t msg x).w := NoRise.of_users_eq (by simp)
theorem processNames_keeps_oper (chs : List Str) : NoRise x.w (processNames cfg c chs x).w :=
  NoRise.of_users_eq (by simp)
theorem processList_keeps_oper (chs : List Str) (s : Option Str) : NoRise x.w (processList cfg c chs s x).w :=
  NoRise.of_users_eq (by simp)
theorem processInvite_keeps_oper (n ch : Str) (msg : Message) :
    NoRise x.w (processInvite cfg c n ch msg x).w := (processInvite_modesKept cfg c x n ch msg).noRise
theorem processKick_keeps_oper (ch : Str) (us : List Str) (cm : Option Str) :
    NoRise x.w (processKick cfg c ch us cm x).w := (processKick_modesKept cfg c x ch us cm).noRise
theorem processMotd_keeps_oper (cl : Str) (t : Option Str) : NoRise x.w (processMotd cfg cl t x).w :=
  NoRise.of_users_eq (by simp)
theorem processVersion_keeps_oper (t : Option Str) : NoRise x.w (processVersion cfg c t x).w :=
  NoRise.of_users_eq (by simp)
theorem processAdmin_keeps_oper (t : Option Str) : NoRise x.w (processAdmin cfg c t x).w :=
  NoRise.of_users_eq (by simp)
theorem unsupported_keeps_oper (cl : Str) (s : String) : NoRise x.w (unsupported cfg cl s x).w :=
  NoRise.of_users_eq (by simp)
theorem processLusers_keeps_oper (cl : Str) : NoRise x.w (processLusers cfg cl x).w :=
  NoRise.of_users_eq (by simp)
theorem processTime_keeps_oper (t : Option Str) : NoRise x.w (processTime cfg c t x).w :=
  NoRise.of_users_eq (by simp)
theorem processStats_keeps_oper (q : Char) (s : Option Str) : NoRise x.w (processStats cfg c q s x).w :=
  NoRise.of_users_eq (by simp)
theorem processLinks_keeps_oper (r m : Option Str) : NoRise x.w (processLinks cfg c r m x).w :=
  NoRise.of_users_eq (by simp)
theorem processHelp_keeps_oper (s : Option Str) : NoRise x.w (processHelp cfg c s x).w :=
  NoRise.of_users_eq (by simp)
theorem processInfo_keeps_oper : NoRise x.w (processInfo cfg c x).w := NoRise.of_users_eq (by simp)
theorem processMode_keeps_oper (t : Str) (ms : List (Str × List Str)) :
    NoRise x.w (processMode cfg c t ms x).w := processMode_noRise cfg c t ms x
theorem processPrivmsgNotice_keeps_oper (ts : List Str) (t : Str) (notice : Bool) :
    NoRise x.w (processPrivmsgNotice cfg c ts t notice x).w := NoRise.of_users_eq (by simp)
theorem processWho_keeps_oper (m : Str) : NoRise x.w (processWho cfg c m x).w := NoRise.of_users_eq (by simp)
theorem processWhois_keeps_oper (t : Option Str) (ns : List Str) : NoRise x.w (processWhois cfg c t ns x).w :=
  NoRise.of_users_eq (by simp)
theorem processWhowas_keeps_oper (n : Str) (cnt : Option Nat) (s : Option Str) :
    NoRise x.w (processWhowas cfg c n cnt s x).w := NoRise.of_users_eq (by simp)
theorem processKill_keeps_oper (n cm : Str) : NoRise x.w (processKill cfg c n cm x).w :=
  (processKill_modesKept cfg c x n cm).noRise
theorem processSquit_keeps_oper (s cm : Str) : NoRise x.w (processSquit cfg c s cm x).w :=
  (processSquit_modesKept cfg c x s cm).noRise
theorem processAway_keeps_oper (t : Option Str) : NoRise x.w (processAway cfg c t x).w :=
  (processAway_modesKept cfg c x t).noRise
theorem processUserhost_keeps_oper (ns : List Str) : NoRise x.w (processUserhost cfg c ns x).w :=
  NoRise.of_users_eq (by simp)
theorem processWallops_keeps_oper (msg : Message) : NoRise x.w (processWallops cfg c msg x).w :=
  NoRise.of_users_eq (by simp)
theorem processIson_keeps_oper (ns : List Str) : NoRise x.w (processIson cfg c ns x).w :=
  NoRise.of_users_eq (by simp)
theorem processDie_keeps_oper (m : Option Str) : NoRise x.w (processDie cfg c m x).w :=
  (processDie_modesKept cfg c x m).noRise

/-- all 36 commands other than OPER / CAP / PASS / NICK / USER: no operator flag rises -/
theorem dispatch_keeps_oper (msg : Message) (cmd : Command) (h : isSpecial cmd = false) :
    NoRise x.w (dispatch cfg c msg cmd x).w := by
  cases cmd <;> simp only [isSpecial, reduceCtorEq] at h <;> unfold dispatch <;> simp only
  case AUTHENTICATE => apply processAuthenticate_keeps_oper
  case PING => apply processPing_keeps_oper
  case PONG => apply processPong_keeps_oper
  case QUIT => apply processQuit_keeps_oper
  case JOIN => apply processJoin_keeps_oper
  case PART => apply processPart_keeps_oper
  case TOPIC => apply processTopic_keeps_oper
  case NAMES => apply processNames_keeps_oper
  case LIST => apply processList_keeps_oper
  case INVITE => apply processInvite_keeps_oper
  case KICK => apply processKick_keeps_oper
  case MOTD => apply processMotd_keeps_oper
  case VERSION => apply processVersion_keeps_oper
  case ADMIN => apply processAdmin_keeps_oper
  case CONNECT => apply unsupported_keeps_oper
  case LUSERS => apply processLusers_keeps_oper
  case TIME => apply processTime_keeps_oper
  case STATS => apply processStats_keeps_oper
  case LINKS => apply processLinks_keeps_oper
  case HELP => apply processHelp_keeps_oper
  case INFO => apply processInfo_keeps_oper
  case MODE => apply processMode_keeps_oper
  case PRIVMSG => apply processPrivmsgNotice_keeps_oper
  case NOTICE => apply processPrivmsgNotice_keeps_oper
  case WHO => apply processWho_keeps_oper
  case WHOIS => apply processWhois_keeps_oper
  case WHOWAS => apply processWhowas_keeps_oper
  case KILL => apply processKill_keeps_oper
  case REHASH => apply unsupported_keeps_oper
  case RESTART => apply unsupported_keeps_oper
  case SQUIT => apply processSquit_keeps_oper
  case AWAY => apply processAway_keeps_oper
  case USERHOST => apply processUserhost_keeps_oper
  case WALLOPS => apply processWallops_keeps_oper
  case ISON => apply processIson_keeps_oper
  case DIE => apply processDie_keeps_oper
end keepsOper

/-- the commands through which a connection registers -/
def isRegCmd : Command → Bool
  | .CAP .. | .PASS .. | .NICK .. | .USER .. => true
  | _ => false

theorem noRiseAt_of_lookup_eq {w w' : World} {n : Str} (h : Map.lookup n w'.users = Map.lookup n w.users) :
    (operOf w' n = true → operOf w n = true) ∧ (localOperOf w' n = true → localOperOf w n = true) := by
  unfold operOf localOperOf; rw [h]; exact ⟨id, id⟩

theorem noRiseAt_of_lookup_none {w w' : World} {n : Str} (h : Map.lookup n w'.users = none) :
    (operOf w' n = true → operOf w n = true) ∧ (localOperOf w' n = true → localOperOf w n = true) := by
  unfold operOf localOperOf; rw [h]; simp

theorem RegEffect.lookup {cfg : Cfg} {c : Nat} {w w' : World} (h : RegEffect cfg c w w') (n : Str) :
    Map.lookup n w'.users = Map.lookup n w.users ∨
    (Map.lookup n w.users = none ∧ ∃ u, Map.lookup n w'.users = some u ∧ u.owner = c ∧
      u.modes.oper = cfg.defaultUserModes.oper ∧ u.modes.localOper = cfg.defaultUserModes.localOper) := by
  rcases h with h | ⟨nick, u, hl, hus, h1, h2, h3⟩
  · left; rw [h]
  · by_cases hn : nick = n
    · subst hn
      right
      exact ⟨hl, u, by rw [hus]; simp, h1, h2, h3⟩
    · left; rw [hus, Map.lookup_insert_ne _ _ _ _ hn]

/-- How the `users` entry of an arbitrary nick `n` can change in one dispatched command:
    (A) neither operator flag of `n` rises; or
    (B) a granted OPER by `n` itself; or
    (C) `n` is a new user created by the registration of the acting connection, with the
        configured default flags; or
    (D) `n` is the new nick of the acting, registered connection: its entry moved from the
        old nick (which is gone), modes unchanged. -/
theorem dispatch_entry_cases (cfg : Cfg) (c : Nat) (msg : Message) (cmd : Command) (x : Ctx) (n : Str) :
    ((operOf (dispatch cfg c msg cmd x).w n = true → operOf x.w n = true) ∧
     (localOperOf (dispatch cfg c msg cmd x).w n = true → localOperOf x.w n = true)) ∨
    (∃ name pw u, cmd = .OPER name pw ∧ (x.conn c).nick = some n ∧ Map.lookup n x.w.users = some u ∧
       OperGranted cfg (x.conn c).source name pw ∧
       Map.lookup n (dispatch cfg c msg cmd x).w.users = some { u with modes := { u.modes with oper := true } }) ∨
    (Map.lookup n x.w.users = none ∧ isRegCmd cmd = true ∧ (x.conn c).authenticated = false ∧
       ∃ u, Map.lookup n (dispatch cfg c msg cmd x).w.users = some u ∧ u.owner = c ∧
         u.modes.oper = cfg.defaultUserModes.oper ∧ u.modes.localOper = cfg.defaultUserModes.localOper) ∨
    (Map.lookup n x.w.users = none ∧ cmd = .NICK n ∧ (x.conn c).authenticated = true ∧
       ∃ o user src, (x.conn c).nick = some o ∧ Map.lookup o x.w.users = some user ∧
         Map.lookup n (dispatch cfg c msg cmd x).w.users = some { user with source := src } ∧
         Map.lookup o (dispatch cfg c msg cmd x).w.users = none) := by
  by_cases hs : isSpecial cmd = false
  · exact Or.inl (dispatch_keeps_oper cfg c x msg cmd hs n)
  · -- registration-type effect, shared by CAP / PASS / USER / NICK
    have reg : ∀ x' : Ctx, RegEffect cfg c x.w x'.w →
        (x'.w.users ≠ x.w.users → (x.conn c).authenticated = false) → isRegCmd cmd = true →
        ((operOf x'.w n = true → operOf x.w n = true) ∧
         (localOperOf x'.w n = true → localOperOf x.w n = true)) ∨
        (Map.lookup n x.w.users = none ∧ isRegCmd cmd = true ∧ (x.conn c).authenticated = false ∧
          ∃ u, Map.lookup n x'.w.users = some u ∧ u.owner = c ∧
            u.modes.oper = cfg.defaultUserModes.oper ∧ u.modes.localOper = cfg.defaultUserModes.localOper) := by
      intro x' hr ha hc
      rcases hr.lookup n with h | ⟨h0, u, h1, h2, h3, h4⟩
      · exact Or.inl (noRiseAt_of_lookup_eq h)
      · right
        refine ⟨h0, hc, ha ?_, u, h1, h2, h3, h4⟩
        intro e; rw [e, h0] at h1; cases h1
    cases cmd <;> simp only [isSpecial, reduceCtorEq, not_true_eq_false, not_false_eq_true] at hs
    case CAP sub caps v =>
      obtain ⟨h1, h2⟩ := processCap_regEffect cfg c sub caps x
      rcases reg _ h1 h2 rfl with h | h
      · exact Or.inl h
      · exact Or.inr (Or.inr (Or.inl h))
    case PASS p =>
      obtain ⟨h1, h2⟩ := processPass_regEffect cfg c p x
      rcases reg _ h1 h2 rfl with h | h
      · exact Or.inl h
      · exact Or.inr (Or.inr (Or.inl h))
    case USER u _ _ r =>
      obtain ⟨h1, h2⟩ := processUser_regEffect cfg c u r x
      rcases reg _ h1 h2 rfl with h | h
      · exact Or.inl h
      · exact Or.inr (Or.inr (Or.inl h))
    case NICK new =>
      show _ ∨ _ ∨ _ ∨ _
      have he := processNick_effect cfg c new msg x
      have hd : dispatch cfg c msg (.NICK new) x = processNick cfg c new msg x := rfl
      rw [hd]
      rcases he with ⟨ha, hr⟩ | h | ⟨old, user, src, ha, hold, hu, hl, hus⟩
      · rcases reg _ hr (fun _ => ha) rfl with h | h
        · exact Or.inl h
        · exact Or.inr (Or.inr (Or.inl h))
      · exact Or.inl (noRiseAt_of_lookup_eq (by rw [h]))
      · have hne : new ≠ old := by
          intro e; rw [e, hu] at hl; cases hl
        by_cases hn : n = new
        · subst hn
          right; right; right
          refine ⟨hl, rfl, ha, old, user, src, hold, hu, ?_, ?_⟩
          · rw [hus]; simp
          · rw [hus, Map.lookup_insert_ne _ _ _ _ hne]; simp
        · left
          by_cases ho : n = old
          · subst ho
            apply noRiseAt_of_lookup_none
            rw [hus, Map.lookup_insert_ne _ _ _ _ (Ne.symm hn)]; simp
          · apply noRiseAt_of_lookup_eq
            rw [hus, Map.lookup_insert_ne _ _ _ _ (Ne.symm hn), Map.lookup_erase_ne _ _ _ (Ne.symm ho)]
    case OPER name pw =>
      have hd : dispatch cfg c msg (.OPER name pw) x = processOper cfg c name pw x := rfl
      rw [hd]
      by_cases hnk : (x.conn c).nick = some n
      · cases hu : Map.lookup n x.w.users with
        | none =>
          left
          have : processOper cfg c name pw x = x.panic "oper: users.get_mut(nick).unwrap" ∨
              processOper cfg c name pw x = x.reply cfg (ErrNoOperHost491 (x.conn c).clientName) := by
            unfold processOper
            simp only [hnk]
            split
            · left; simp [hu]
            · right; rfl
          rcases this with e | e <;> rw [e] <;> exact ⟨id, id⟩
        | some u =>
          by_cases hg : OperGranted cfg (x.conn c).source name pw
          · right; left
            exact ⟨name, pw, u, rfl, hnk, rfl, hg, (processOper_granted hnk hu hg).2.1⟩
          · left
            rw [processOper_refused hnk hu hg]
            exact ⟨id, id⟩
      · left
        exact noRiseAt_of_lookup_eq ((processOper_frame cfg c name pw x).2.2.2.2.2 n hnk)

end Irc.C11
