/-
  Helper lemmas for property C11 (server-operator status, privileged commands).
  The observation functions `operOf` / `localOperOf`, the specification predicate `OperGranted`
  and the relations `ModesKept` / `NoRise` are defined here (the lemmas need them); the final
  theorems are in `Irc/Props/C11.lean`.
-/
import Irc.Lemmas.Frame
import Irc.Inv
import Irc.Props.C14

namespace Irc.C11
open Irc Reply

/-! ## observations and specification predicates -/

/-- does nick `n` hold server-operator status (`+o`) in world `w`? -/
def operOf (w : World) (n : Str) : Bool :=
  match Map.lookup n w.users with
  | some u => u.modes.oper
  | none => false

/-- does nick `n` hold local-operator status (`+O`) in world `w`? -/
def localOperOf (w : World) (n : Str) : Bool :=
  match Map.lookup n w.users with
  | some u => u.modes.localOper
  | none => false

/-- SPEC of a successful OPER: `name` is a configured operator, the password is that
    operator's password, and the operator's mask (if any) matches the source, as a glob. -/
def OperGranted (cfg : Cfg) (source name pw : Str) : Prop :=
  ∃ op, cfg.findOper name = some op ∧ cfg.pwOk pw op.password = true ∧
    (op.mask = none ∨ ∃ m, op.mask = some m ∧ glob m source = true)

/-- every user of `w'` existed in `w` with the same user modes. -/
def ModesKept (w w' : World) : Prop :=
  ∀ n u', Map.lookup n w'.users = some u' → ∃ u, Map.lookup n w.users = some u ∧ u'.modes = u.modes

/-- neither operator flag rises for any nick from `w` to `w'`. -/
def NoRise (w w' : World) : Prop :=
  ∀ n, (operOf w' n = true → operOf w n = true) ∧ (localOperOf w' n = true → localOperOf w n = true)

theorem ModesKept.refl (w : World) : ModesKept w w := fun _ u h => ⟨u, h, rfl⟩

theorem ModesKept.trans {a b c : World} (h1 : ModesKept a b) (h2 : ModesKept b c) : ModesKept a c := by
  intro n u h
  obtain ⟨v, hv, e1⟩ := h2 n u h
  obtain ⟨z, hz, e2⟩ := h1 n v hv
  exact ⟨z, hz, e1.trans e2⟩

theorem ModesKept.of_users_eq {w w' : World} (h : w'.users = w.users) : ModesKept w w' := by
  intro n u hu; exact ⟨u, h ▸ hu, rfl⟩

theorem NoRise.refl (w : World) : NoRise w w := fun _ => ⟨id, id⟩

theorem NoRise.trans {a b c : World} (h1 : NoRise a b) (h2 : NoRise b c) : NoRise a c :=
  fun n => ⟨fun h => (h1 n).1 ((h2 n).1 h), fun h => (h1 n).2 ((h2 n).2 h)⟩

theorem ModesKept.noRise {w w' : World} (h : ModesKept w w') : NoRise w w' := by
  intro n
  unfold operOf localOperOf
  cases hl : Map.lookup n w'.users with
  | none => simp
  | some u' =>
    obtain ⟨u, hu, e⟩ := h n u' hl
    simp [hu, e]

theorem NoRise.of_users_eq {w w' : World} (h : w'.users = w.users) : NoRise w w' :=
  (ModesKept.of_users_eq h).noRise

/-! ## Map helpers -/

theorem Map.modify_eq_self {α : Type} (k : Str) (f : α → α) (m : Map α)
    (h : ∀ v, Map.lookup k m = some v → f v = v) : Map.modify k f m = m := by
  induction m with
  | nil => rfl
  | cons p m ih =>
    obtain ⟨k', v'⟩ := p
    by_cases hk : k' = k
    · subst hk
      have := h v' (by simp [Map.lookup])
      simp [Map.modify, this]
    · simp only [Map.modify, hk, ↓reduceIte, List.cons.injEq, true_and]
      exact ih (fun v hv => h v (by simpa [Map.lookup, hk] using hv))

/-! ## conn? after setConn -/

theorem conn?_setConn (w : World) (cn : Conn) (k : Nat) :
    (w.setConn cn).conn? k =
      if k = cn.id then (w.conn? k).map (fun _ => cn) else w.conn? k := by
  unfold World.setConn World.conn?
  simp only
  induction w.conns with
  | nil => simp
  | cons y ys ih =>
    simp only [List.map_cons, List.find?_cons]
    by_cases hy : y.id = cn.id
    · by_cases hk : k = cn.id
      · subst hk; simp [hy]
      · have : ¬ (y.id = k) := fun e => hk (e ▸ hy)
        simp only [hy, beq_self_eq_true, ↓reduceIte]
        have h2 : (cn.id == k) = false := by simp [Ne.symm hk]
        simp only [h2, hk, ↓reduceIte] at ih ⊢
        exact ih
    · have h1 : (y.id == cn.id) = false := by simp [hy]
      simp only [h1, Bool.false_eq_true, ↓reduceIte]
      by_cases hyk : y.id = k
      · have : k ≠ cn.id := fun e => hy (hyk.trans e)
        simp [hyk, this]
      · have : (y.id == k) = false := by simp [hyk]
        simp only [this]
        exact ih

/-! ## 1. OPER -/

/-- the handler's mask test is the `glob` specification -/
theorem maskOk_iff (mask : Option Str) (source : Str) :
    (match mask with | some m => matchWildcard m source | none => true) = true ↔
      (mask = none ∨ ∃ m, mask = some m ∧ glob m source = true) := by
  cases mask with
  | none => simp
  | some m => simp [Irc.C14.matchWildcard_eq_glob]


/-! ## 1. OPER -/
section oper
variable (cfg : Cfg) (c : Nat) (name pw : Str) (x : Ctx)

def maskOkB (mask : Option Str) (source : Str) : Bool :=
  match mask with | some m => matchWildcard m source | none => true

theorem processOper_eq {nick : Str} {u : User} {op : OperCfg}
    (hn : (x.conn c).nick = some nick) (hop : cfg.findOper name = some op)
    (hu : Map.lookup nick x.w.users = some u) :
    processOper cfg c name pw x =
      if cfg.pwOk pw op.password = false then x.reply cfg (ErrPasswdMismatch464 (x.conn c).clientName)
      else if maskOkB op.mask (x.conn c).source = false
        then x.reply cfg (ErrNoOperHost491 (x.conn c).clientName)
      else
        (x.modifyW (fun w =>
          { w with users := Map.insert nick { u with modes := { u.modes with oper := true } } w.users
                   operatorsCount := if u.modes.isLocalOper then w.operatorsCount
                                     else w.operatorsCount + 1 })).reply cfg
          (RplYoureOper381 (x.conn c).clientName) := by
  unfold processOper maskOkB
  simp only [hn, hop, hu]
  cases hpw : cfg.pwOk pw op.password
  · simp
  · cases hm : op.mask with
    | none => cases hl : u.modes.isLocalOper <;> simp [Ctx.modifyW]
    | some m =>
      cases hmk : matchWildcard m (x.conn c).source
      · simp [hmk]
      · cases hl : u.modes.isLocalOper <;> simp [Ctx.modifyW, hmk]

theorem maskOkB_iff (mask : Option Str) (source : Str) :
    maskOkB mask source = true ↔ (mask = none ∨ ∃ m, mask = some m ∧ glob m source = true) := by
  cases mask with
  | none => simp [maskOkB]
  | some m => simp [maskOkB, Irc.C14.matchWildcard_eq_glob]

theorem processOper_frame :
    (processOper cfg c name pw x).queued = x.queued ∧
    (processOper cfg c name pw x).w.conns = x.w.conns ∧
    (processOper cfg c name pw x).w.channels = x.w.channels ∧
    (processOper cfg c name pw x).w.wallops = x.w.wallops ∧
    (processOper cfg c name pw x).w.srvQuit = x.w.srvQuit ∧
    ∀ n, (x.conn c).nick ≠ some n →
      Map.lookup n (processOper cfg c name pw x).w.users = Map.lookup n x.w.users := by
  cases hn : (x.conn c).nick with
  | none => unfold processOper; simp [hn]
  | some nick =>
    cases hop : cfg.findOper name with
    | none => unfold processOper; simp [hn, hop]
    | some op =>
      cases hu : Map.lookup nick x.w.users with
      | none => unfold processOper; simp [hn, hop, hu]
      | some u =>
        rw [processOper_eq cfg c name pw x hn hop hu]
        by_cases h1 : cfg.pwOk pw op.password = false
        · simp [h1]
        · by_cases h2 : maskOkB op.mask (x.conn c).source = false
          · simp [h1, h2]
          · simp only [h1, h2]
            refine ⟨rfl, rfl, rfl, rfl, rfl, ?_⟩
            intro n hne
            have hne' : nick ≠ n := fun e => hne (by rw [e])
            simp [Map.lookup_insert_ne _ _ _ _ hne']

variable {cfg c name pw x} {nick : Str} {u : User}

theorem processOper_granted (hn : (x.conn c).nick = some nick)
    (hu : Map.lookup nick x.w.users = some u)
    (h : OperGranted cfg (x.conn c).source name pw) :
    (processOper cfg c name pw x).direct =
        x.direct ++ [':' :: (cfg.name ++ ' ' :: RplYoureOper381 (x.conn c).clientName)] ∧
    Map.lookup nick (processOper cfg c name pw x).w.users =
        some { u with modes := { u.modes with oper := true } } ∧
    (processOper cfg c name pw x).w.operatorsCount =
        (if u.modes.isLocalOper then x.w.operatorsCount else x.w.operatorsCount + 1) ∧
    (processOper cfg c name pw x).w.panicked = x.w.panicked := by
  obtain ⟨op, hop, hpw, hm⟩ := h
  have hm' := (maskOkB_iff op.mask (x.conn c).source).mpr hm
  rw [processOper_eq cfg c name pw x hn hop hu]
  simp [hpw, hm']

theorem processOper_refused (hn : (x.conn c).nick = some nick)
    (hu : Map.lookup nick x.w.users = some u)
    (h : ¬ OperGranted cfg (x.conn c).source name pw) :
    processOper cfg c name pw x =
      x.reply cfg (if (∃ op, cfg.findOper name = some op ∧ cfg.pwOk pw op.password = false)
        then ErrPasswdMismatch464 (x.conn c).clientName
        else ErrNoOperHost491 (x.conn c).clientName) := by
  cases hop : cfg.findOper name with
  | none => unfold processOper; simp [hn, hop]
  | some op =>
    rw [processOper_eq cfg c name pw x hn hop hu]
    cases hpw : cfg.pwOk pw op.password with
    | false => simp [hpw]
    | true =>
      have hm : ¬ (maskOkB op.mask (x.conn c).source = true) :=
        fun hm => h ⟨op, hop, hpw, (maskOkB_iff _ _).mp hm⟩
      simp only [Bool.not_eq_true] at hm
      simp [hm, hpw]
end oper

end Irc.C11
