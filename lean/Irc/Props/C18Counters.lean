/-
  Property C18, general serialisability: THE COMMAND COUNTERS ARE A WRITE-ONLY FRAME for every
  handler except `STATS m`.

  `general_serialisable_whole` (`Irc/Props/C18General.lean`) needs, for every program line, the
  hypothesis `BumpCommLine cfg c line`: the handler of the line commutes with the bump of a command
  counter.  `C18GeneralLemmas8.lean` proved it for the registration path.  Here it is proved for
  EVERY line that is not `STATS m`:

  * `readsCounters line` — the line parses (message and command) to `STATS` with query letter `m`.
    This is a SYNTACTIC over-approximation of "the handler reads `World.cmdCounts`": `processStats`
    reads the counters only if moreover no target server is given and the acting user is a local
    operator.  More lines are excluded than necessary, which is sound.  (`readsCountersSharp`
    excludes fewer: `STATS m <server>` is allowed; both theorems are proved.)
  * `bumpCommLine_of_not_stats` — `readsCounters line = false → BumpCommLine cfg c line`, for every
    configuration, connection and line: unparsable lines, command-parse errors, the registration
    gate (451), all 41 dispatch arms (40 handlers other than STATS, and STATS with a letter other
    than `m`).  Nothing is missing.
  * `general_serialisable_whole_nostats` — `general_serialisable_whole` with the semantic
    hypothesis replaced by "no program line is `STATS m`".

  Proof (`C18CountersAttr.lean`, `C18CountersLemmas0 … 5.lean`): the method of the frame lemmas for
  the record of a foreign connection (`C18FrameLemmas0 … 5`), with the marker `Ctx.bc` /
  `World.bcW` for the bump, the simp sets `bc_read` (every field but `cmdCounts` reads the same) and
  `bc_push` (every primitive, helper and handler pushes the bump outwards), the tactic `bcf`.
  `cmdCounts` is written only by `handleLine`'s own bump (`bumpCount_bcW`: two bumps commute) and
  read only by `processStats` in its `m` branch.
-/
import Irc.Props.C18CountersLemmas5
import Irc.Props.C18General

namespace Irc.C18

open Irc Irc.Conc Irc.C18F Irc.C18G Irc.C18C

/-- the line is a well-formed `STATS` command with query letter `m` — the only command whose handler
    reads the command counters (it does so only without a target server and for a local operator;
    the definition is syntactic and excludes those lines, too) -/
def readsCounters (line : Str) : Bool :=
  match lineCmd line with
  | some cmd => cmdReadsCounters cmd
  | none => false

/-- sharper: a well-formed `STATS m` without a target server -/
def readsCountersSharp (line : Str) : Bool :=
  match lineCmd line with
  | some cmd => cmdReadsCountersSharp cmd
  | none => false

theorem readsCountersSharp_le {line : Str} (h : readsCounters line = false) :
    readsCountersSharp line = false := by
  unfold readsCounters at h
  unfold readsCountersSharp
  cases hl : lineCmd line with
  | none => rfl
  | some cmd => rw [hl] at h; exact cmdReadsCountersSharp_le h

/-- the sharper form: every line but `STATS m` (without target server) -/
theorem bumpCommLine_of_not_stats_sharp (cfg : Cfg) (c : Nat) (line : Str)
    (h : readsCountersSharp line = false) : BumpCommLine cfg c line := by
  apply bumpCommLine_of_cmd
  intro msg cmd hp hc
  have hl : lineCmd line = some cmd := by simp [lineCmd, hp, hc]
  unfold readsCountersSharp at h
  rw [hl] at h
  exact bumpCommCmd_of_not_stats cfg c msg cmd h

/-- **`bumpCommLine_of_not_stats`**: the handler of EVERY line that is not `STATS m` commutes with
    the bump of any command counter — for every configuration, every connection (in every state of
    the world) and every line: lines that do not parse, command-parse errors, the registration gate,
    and all the handlers. -/
theorem bumpCommLine_of_not_stats (cfg : Cfg) (c : Nat) (line : Str)
    (h : readsCounters line = false) : BumpCommLine cfg c line :=
  bumpCommLine_of_not_stats_sharp cfg c line (readsCountersSharp_le h)

/-- **`general_serialisable_whole_nostats`**: `general_serialisable_whole` with the hypothesis on the
    program lines made syntactic: no program line is `STATS m`.  (The semantics WITH the counter
    sections against `handleLine` folded over an order-respecting merge `cmds` of the programs: the
    same `CState` — world with the counters, program counters, every `dir d`, `sent`.) -/
theorem general_serialisable_whole_nostats (cfg : Cfg) (cs : List Nat) (S₀ S : Sys)
    (sched : List Nat)
    (hnd : cs.Nodup) (hcs : ∀ c, c ∉ cs → S₀.todo c = [])
    (hlive : ∀ c ∈ cs, (S₀.σ.w.conn? c).isSome = true) (hinv : InvCore S₀.σ.w)
    (hpc : ∀ c, S₀.σ.pc c = .idle) (hpend : ∀ c, S₀.pend c = [])
    (hns : ∀ c, ∀ l ∈ S₀.todo c, readsCounters l = false)
    (hrun : runSched cfg splitCommand sched S₀ = some S)
    (hnc : noCorner cfg splitCommand sched S₀ = true)
    (hdone : ∀ c ∈ cs, S.pend c = []) :
    ∃ cmds : List (Nat × Str), (∀ c, S₀.todo c = linesOf c cmds ++ S.todo c) ∧
      S.σ = seqWhole cfg cmds S₀.σ :=
  general_serialisable_whole cfg cs S₀ S sched hnd hcs hlive hinv hpc hpend
    (fun c l hl => bumpCommLine_of_not_stats cfg c l (hns c l hl)) hrun hnc hdone

/-! ### non-vacuity -/

example : readsCounters (str "STATS m") = true := by decide
example : readsCounters (str "STATS u") = false := by decide
example : readsCounters (str "PRIVMSG a :STATS m") = false := by decide
example : readsCounters (str "JOIN #a") = false := by decide
example : readsCounters (str "STATS m irc.irc") = true := by decide
example : readsCountersSharp (str "STATS m irc.irc") = false := by decide
example : readsCountersSharp (str "STATS m") = true := by decide
example : readsCounters (str "stats m") = true := by decide
example : readsCounters (str "STATS") = false := by decide
example : readsCounters (str "") = false := by decide

set_option maxRecDepth 16384 in
/-- the excluded line is exactly the one for which the hypothesis fails (`C18General.lean`) -/
example : readsCounters (str "STATS m") = true ∧ ¬ BumpCommLine Demo.kcfg 3 (str "STATS m") := by
  refine ⟨by decide, ?_⟩
  intro h
  have := congrArg Ctx.direct (h 3 { w := GDemo.SC₀.σ.w })
  revert this
  decide

end Irc.C18
