/-
  Property C13, second half — "every line the server emits is ONE CRLF-terminated message".

  The encoder appends "\r\n" to every string the server emits, and the receiver's line codec
  splits at '\n'.  So the claim is: no emitted string contains a line feed (`Clean`), as a
  global invariant of the model (`CleanWorld`: no STORED string contains one either), for all
  configurations whose emitted/stored strings are clean (`CleanCfg`) and all event lists whose
  received lines / peer addresses are clean (`CleanEvent`; lines arrive already split at '\n').

  A lone '\r' is allowed: it is not a line terminator for the codec, and it passes through
  (`ex_privmsg_cr` below).  The hypothesis on the configuration is needed
  (`motd_needs_clean`: a MOTD containing '\n' makes the 372 line of the welcome burst two lines).

  This file holds the final statements only; vocabulary and all helper lemmas
  (text layer, the 100-row reply table, the 41 handlers, Step) are in `C13HygieneLemmas.lean`.

  Vocabulary (defined in the lemma file):
    `nl = '\n'`, `Clean s := nl ∉ s`, `CleanL`, `CleanO` (lists / options of strings),
    `CleanCfg cfg`   : name, network, info, adminInfo, adminInfo2, adminEmail, motd and every string of
                       the preconfigured channels.  (Strings inside `operators` / `users` and the server
                       password are only ever COMPARED, never stored or emitted, so nothing is assumed
                       about them; `CleanCfgAll` is the hypothesis with them, and implies `CleanCfg`.)
    `CleanWorld w`   : keys of users/channels/histories/member maps, all `User` / `Channel` / `Conn`
                       string fields, `wallops`.
    `CleanCtx x`     : `CleanWorld x.w`, clean `direct` replies, clean `queued` lines.
    `CleanMsg m`, `CleanCmd cmd`, `CleanErr e` : every string (and char) field is clean.
    `CleanEvent e`   : `.connect _ ip` → `Clean ip`, `.line _ s` → `Clean s`, nothing for the others
                       (the text of a `.partialLine` never reaches a handler).
-/
import Irc.Props.C13HygieneLemmas
namespace Irc.C13H
open Irc Irc.Reply

/-! ## 1. Text layer -/

/-- every piece of a parsed line is a piece of the line -/
theorem parse_clean {l : Str} {m : Message} (hl : Clean l) (h : Message.parse l = .ok m) :
    Clean m.command ∧ (∀ p ∈ m.params, Clean p) ∧ (∀ s, m.source = some s → Clean s) :=
  have hm := parse_cleanMsg hl h
  ⟨hm.command, hm.params, hm.source⟩

/-- every `Str` (and `Char`) field of a parsed command is clean when the message is
    (lists from `splitOnChar ','`, caps from `splitAsciiWhitespace`, mode groups from the params) -/
theorem command_fields_clean {m : Message} {cmd : Command} (hm : CleanMsg m)
    (h : Command.fromMessage m = .ok cmd) : CleanCmd cmd := fromMessage_ok hm h

/-- a command error produced from a clean message renders clean, and so does its reply
    (421 / 461 / 472 / 501 / 696 / `ERROR :…`) -/
theorem command_error_clean {m : Message} {e : CommandError} (hm : CleanMsg m)
    (h : Command.fromMessage m = .error e) :
    Clean e.render ∧ ∀ client, Clean client → Clean (commandErrorReply client e) :=
  have he := fromMessage_err hm h
  ⟨CommandError.render_clean he, fun _ hc => commandErrorReply_clean hc he⟩

theorem render_clean {m : Message} {src : Str} (hs : Clean src) (hc : Clean m.command)
    (hp : ∀ p ∈ m.params, Clean p) : Clean (m.render src) := render_clean' hs hc hp

-- `natToStr_clean (n) : Clean (natToStr n)`, `normalizeSourcemask_clean`, `splitTerminator_clean` /
-- `helpTopics_clean` (help lines), and the reply table `Reply.X_clean : Clean (X args) ↔ (all string /
-- char args clean)` — one `@[simp]` iff-lemma per function, all proved by the single tactic
-- `reply_tac` — are in the lemma file.  `reply_clean` below packages the whole table.

/-- three representative rows (all 100 have this shape) -/
theorem reply_clean_examples (client nick msg : Str) (n : Nat) (c : Char) (l : List Str) :
    (Clean (RplAway301 client nick msg) ↔ Clean client ∧ Clean nick ∧ Clean msg) ∧
    (Clean (RplLUserOp252 client n) ↔ Clean client) ∧
    (Clean (RplEndOfStats219 client c) ↔ Clean client ∧ c ≠ nl) ∧
    (Clean (RplIson303 client l) ↔ Clean client ∧ CleanL l) :=
  ⟨RplAway301_clean .., RplLUserOp252_clean .., RplEndOfStats219_clean .., RplIson303_clean ..⟩

/-- `reply_clean`: EVERY function of the generated reply table (all 100 of `Irc.Reply.allNames`, in
    declaration order) returns a clean string when its string / char / list arguments are clean
    (numbers are rendered by `natToStr`, which is always clean).  Generated statement; each row is
    the `←` direction of the corresponding `@[simp]` iff-lemma `Reply.X_clean`, all of which are
    proved by the one tactic `reply_tac`. -/
theorem reply_clean :
    (∀ (client networkname nick user host : Str), Clean client → Clean networkname → Clean nick → Clean user → Clean host → Clean (RplWelcome001 client networkname nick user host)) ∧
    (∀ (client servername version : Str), Clean client → Clean servername → Clean version → Clean (RplYourHost002 client servername version)) ∧
    (∀ (client datetime : Str), Clean client → Clean datetime → Clean (RplCreated003 client datetime)) ∧
    (∀ (client servername version avail_user_modes avail_chmodes : Str) (avail_chmodes_with_params : Option Str), Clean client → Clean servername → Clean version → Clean avail_user_modes → Clean avail_chmodes → CleanO avail_chmodes_with_params → Clean (RplMyInfo004 client servername version avail_user_modes avail_chmodes avail_chmodes_with_params)) ∧
    (∀ (client tokens : Str), Clean client → Clean tokens → Clean (RplISupport005 client tokens)) ∧
    (∀ (client command : Str) (count : Nat), Clean client → Clean command → Clean (RplStatsCommands212 client command count)) ∧
    (∀ (client : Str) (stat : Char), Clean client → stat ≠ nl → Clean (RplEndOfStats219 client stat)) ∧
    (∀ (client user_modes : Str), Clean client → Clean user_modes → Clean (RplUModeIs221 client user_modes)) ∧
    (∀ (client : Str) (seconds : Nat), Clean client → Clean (RplStatsUptime242 client seconds)) ∧
    (∀ (client : Str) (users_num inv_users_num servers_num : Nat), Clean client → Clean (RplLUserClient251 client users_num inv_users_num servers_num)) ∧
    (∀ (client : Str) (ops_num : Nat), Clean client → Clean (RplLUserOp252 client ops_num)) ∧
    (∀ (client : Str) (conns_num : Nat), Clean client → Clean (RplLUserUnknown253 client conns_num)) ∧
    (∀ (client : Str) (channels_num : Nat), Clean client → Clean (RplLUserChannels254 client channels_num)) ∧
    (∀ (client : Str) (clients_num servers_num : Nat), Clean client → Clean (RplLUserMe255 client clients_num servers_num)) ∧
    (∀ (client server : Str), Clean client → Clean server → Clean (RplAdminMe256 client server)) ∧
    (∀ (client info : Str), Clean client → Clean info → Clean (RplAdminLoc1257 client info)) ∧
    (∀ (client info : Str), Clean client → Clean info → Clean (RplAdminLoc2258 client info)) ∧
    (∀ (client email : Str), Clean client → Clean email → Clean (RplAdminEmail259 client email)) ∧
    (∀ (client : Str) (clients_num max_clients_num : Nat), Clean client → Clean (RplLocalUsers265 client clients_num max_clients_num)) ∧
    (∀ (client : Str) (clients_num max_clients_num : Nat), Clean client → Clean (RplGlobalUsers266 client clients_num max_clients_num)) ∧
    (∀ (client nick message : Str), Clean client → Clean nick → Clean message → Clean (RplAway301 client nick message)) ∧
    (∀ (client : Str) (replies : List Str), Clean client → CleanL replies → Clean (RplUserHost302 client replies)) ∧
    (∀ (client : Str) (nicknames : List Str), Clean client → CleanL nicknames → Clean (RplIson303 client nicknames)) ∧
    (∀ (client : Str), Clean client → Clean (RplUnAway305 client)) ∧
    (∀ (client : Str), Clean client → Clean (RplNowAway306 client)) ∧
    (∀ (client channel username host server nick flags : Str) (hopcount : Nat) (realname : Str), Clean client → Clean channel → Clean username → Clean host → Clean server → Clean nick → Clean flags → Clean realname → Clean (RplWhoReply352 client channel username host server nick flags hopcount realname)) ∧
    (∀ (client mask : Str), Clean client → Clean mask → Clean (RplEndOfWho315 client mask)) ∧
    (∀ (client nick : Str), Clean client → Clean nick → Clean (RplWhoIsRegNick307 client nick)) ∧
    (∀ (client nick username host realname : Str), Clean client → Clean nick → Clean username → Clean host → Clean realname → Clean (RplWhoIsUser311 client nick username host realname)) ∧
    (∀ (client nick server server_info : Str), Clean client → Clean nick → Clean server → Clean server_info → Clean (RplWhoIsServer312 client nick server server_info)) ∧
    (∀ (client nick : Str), Clean client → Clean nick → Clean (RplWhoIsOperator313 client nick)) ∧
    (∀ (client nick username host realname : Str), Clean client → Clean nick → Clean username → Clean host → Clean realname → Clean (RplWhoWasUser314 client nick username host realname)) ∧
    (∀ (client nick : Str) (secs signon : Nat), Clean client → Clean nick → Clean (RplwhoIsIdle317 client nick secs signon)) ∧
    (∀ (client nick : Str), Clean client → Clean nick → Clean (RplEndOfWhoIs318 client nick)) ∧
    (∀ (client nick : Str) (channels : List (Option Str × Str)), Clean client → Clean nick → (∀ p ∈ channels, CleanO p.1 ∧ Clean p.2) → Clean (RplWhoIsChannels319 client nick channels)) ∧
    (∀ (client : Str), Clean client → Clean (RplListStart321 client)) ∧
    (∀ (client channel : Str) (client_count : Nat) (topic : Str), Clean client → Clean channel → Clean topic → Clean (RplList322 client channel client_count topic)) ∧
    (∀ (client : Str), Clean client → Clean (RplListEnd323 client)) ∧
    (∀ (client channel modestring : Str), Clean client → Clean channel → Clean modestring → Clean (RplChannelModeIs324 client channel modestring)) ∧
    (∀ (client channel : Str) (creation_time : Nat), Clean client → Clean channel → Clean (RplCreationTime329 client channel creation_time)) ∧
    (∀ (client channel : Str), Clean client → Clean channel → Clean (RplNoTopic331 client channel)) ∧
    (∀ (client channel topic : Str), Clean client → Clean channel → Clean topic → Clean (RplTopic332 client channel topic)) ∧
    (∀ (client channel nick : Str) (setat : Nat), Clean client → Clean channel → Clean nick → Clean (RplTopicWhoTime333 client channel nick setat)) ∧
    (∀ (client nick channel : Str), Clean client → Clean nick → Clean channel → Clean (RplInviting341 client nick channel)) ∧
    (∀ (client channel mask : Str), Clean client → Clean channel → Clean mask → Clean (RplInviteList346 client channel mask)) ∧
    (∀ (client channel : Str), Clean client → Clean channel → Clean (RplEndOfInviteList347 client channel)) ∧
    (∀ (client channel mask : Str), Clean client → Clean channel → Clean mask → Clean (RplExceptList348 client channel mask)) ∧
    (∀ (client channel : Str), Clean client → Clean channel → Clean (RplEndOfExceptList349 client channel)) ∧
    (∀ (client version server comments : Str), Clean client → Clean version → Clean server → Clean comments → Clean (RplVersion351 client version server comments)) ∧
    (∀ (client symbol channel : Str) (replies : List (Str × Str)), Clean client → Clean symbol → Clean channel → (∀ p ∈ replies, Clean p.1 ∧ Clean p.2) → Clean (RplNameReply353 client symbol channel replies)) ∧
    (∀ (client channel : Str), Clean client → Clean channel → Clean (RplEndOfNames366 client channel)) ∧
    (∀ (client mask server : Str) (hop_count : Nat) (server_info : Str), Clean client → Clean mask → Clean server → Clean server_info → Clean (RplLinks364 client mask server hop_count server_info)) ∧
    (∀ (client mask : Str), Clean client → Clean mask → Clean (RplEndOfLinks365 client mask)) ∧
    (∀ (client channel mask who : Str) (set_ts : Nat), Clean client → Clean channel → Clean mask → Clean who → Clean (RplBanList367 client channel mask who set_ts)) ∧
    (∀ (client channel : Str), Clean client → Clean channel → Clean (RplEndOfBanList368 client channel)) ∧
    (∀ (client nick : Str), Clean client → Clean nick → Clean (RplEndOfWhoWas369 client nick)) ∧
    (∀ (client info : Str), Clean client → Clean info → Clean (RplInfo371 client info)) ∧
    (∀ (client : Str), Clean client → Clean (RplEndOfInfo374 client)) ∧
    (∀ (client server : Str), Clean client → Clean server → Clean (RplMotdStart375 client server)) ∧
    (∀ (client motd : Str), Clean client → Clean motd → Clean (RplMotd372 client motd)) ∧
    (∀ (client : Str), Clean client → Clean (RplEndOfMotd376 client)) ∧
    (∀ (client nick host_info : Str), Clean client → Clean nick → Clean host_info → Clean (RplWhoIsHost378 client nick host_info)) ∧
    (∀ (client nick modes : Str), Clean client → Clean nick → Clean modes → Clean (RplWhoIsModes379 client nick modes)) ∧
    (∀ (client : Str), Clean client → Clean (RplYoureOper381 client)) ∧
    (∀ (client server : Str) (timestamp : Nat) (ts_offset human_readable : Str), Clean client → Clean server → Clean ts_offset → Clean human_readable → Clean (RplTime391 client server timestamp ts_offset human_readable)) ∧
    (∀ (client command : Str) (subcommand : Option Str) (info : Str), Clean client → Clean command → CleanO subcommand → Clean info → Clean (ErrUnknownError400 client command subcommand info)) ∧
    (∀ (client nick : Str), Clean client → Clean nick → Clean (ErrNoSuchNick401 client nick)) ∧
    (∀ (client channel : Str), Clean client → Clean channel → Clean (ErrNoSuchChannel403 client channel)) ∧
    (∀ (client channel : Str), Clean client → Clean channel → Clean (ErrCannotSendToChain404 client channel)) ∧
    (∀ (client channel : Str), Clean client → Clean channel → Clean (ErrTooManyChannels405 client channel)) ∧
    (∀ (client nick : Str), Clean client → Clean nick → Clean (ErrWasNoSuchNick406 client nick)) ∧
    (∀ (client : Str), Clean client → Clean (ErrInputTooLong417 client)) ∧
    (∀ (client command : Str), Clean client → Clean command → Clean (ErrUnknownCommand421 client command)) ∧
    (∀ (client nick : Str), Clean client → Clean nick → Clean (ErrNicknameInUse433 client nick)) ∧
    (∀ (client nick channel : Str), Clean client → Clean nick → Clean channel → Clean (ErrUserNotInChannel441 client nick channel)) ∧
    (∀ (client channel : Str), Clean client → Clean channel → Clean (ErrNotOnChannel442 client channel)) ∧
    (∀ (client nick channel : Str), Clean client → Clean nick → Clean channel → Clean (ErrUserOnChannel443 client nick channel)) ∧
    (∀ (client : Str), Clean client → Clean (ErrNotRegistered451 client)) ∧
    (∀ (client command : Str), Clean client → Clean command → Clean (ErrNeedMoreParams461 client command)) ∧
    (∀ (client : Str), Clean client → Clean (ErrAlreadyRegistered462 client)) ∧
    (∀ (client : Str), Clean client → Clean (ErrPasswdMismatch464 client)) ∧
    (∀ (client channel : Str), Clean client → Clean channel → Clean (ErrChannelIsFull471 client channel)) ∧
    (∀ (client : Str) (modechar : Char) (channel : Str), Clean client → modechar ≠ nl → Clean channel → Clean (ErrUnknownMode472 client modechar channel)) ∧
    (∀ (client channel : Str), Clean client → Clean channel → Clean (ErrInviteOnlyChan473 client channel)) ∧
    (∀ (client channel : Str), Clean client → Clean channel → Clean (ErrBannedFromChan474 client channel)) ∧
    (∀ (client channel : Str), Clean client → Clean channel → Clean (ErrBadChannelKey475 client channel)) ∧
    (∀ (client : Str), Clean client → Clean (ErrNoPrivileges481 client)) ∧
    (∀ (client channel : Str), Clean client → Clean channel → Clean (ErrChanOpPrivsNeeded482 client channel)) ∧
    (∀ (client : Str), Clean client → Clean (ErrCantKillServer483 client)) ∧
    (∀ (client : Str), Clean client → Clean (ErrYourConnRestricted484 client)) ∧
    (∀ (client : Str), Clean client → Clean (ErrNoOperHost491 client)) ∧
    (∀ (client : Str), Clean client → Clean (ErrUmodeUnknownFlag501 client)) ∧
    (∀ (client : Str), Clean client → Clean (ErrUsersDontMatch502 client)) ∧
    (∀ (client subject : Str), Clean client → Clean subject → Clean (ErrHelpNotFound524 client subject)) ∧
    (∀ (client nick : Str), Clean client → Clean nick → Clean (RplWhoIsSecure671 client nick)) ∧
    (∀ (client target : Str) (modechar : Char) (param description : Str), Clean client → Clean target → modechar ≠ nl → Clean param → Clean description → Clean (ErrInvalidModeParam696 client target modechar param description)) ∧
    (∀ (client subject line : Str), Clean client → Clean subject → Clean line → Clean (RplHelpStart704 client subject line)) ∧
    (∀ (client subject line : Str), Clean client → Clean subject → Clean line → Clean (RplHelpTxt705 client subject line)) ∧
    (∀ (client subject line : Str), Clean client → Clean subject → Clean line → Clean (RplEndOfHelp706 client subject line)) ∧
    (∀ (client : Str), Clean client → Clean (ErrCannotDoCommand972 client)) := by
  refine ⟨?_, ?_, ?_, ?_, ?_, ?_, ?_, ?_, ?_, ?_, ?_, ?_, ?_, ?_, ?_, ?_, ?_, ?_, ?_, ?_, ?_, ?_, ?_, ?_, ?_, ?_, ?_, ?_, ?_, ?_, ?_, ?_, ?_, ?_, ?_, ?_, ?_, ?_, ?_, ?_, ?_, ?_, ?_, ?_, ?_, ?_, ?_, ?_, ?_, ?_, ?_, ?_, ?_, ?_, ?_, ?_, ?_, ?_, ?_, ?_, ?_, ?_, ?_, ?_, ?_, ?_, ?_, ?_, ?_, ?_, ?_, ?_, ?_, ?_, ?_, ?_, ?_, ?_, ?_, ?_, ?_, ?_, ?_, ?_, ?_, ?_, ?_, ?_, ?_, ?_, ?_, ?_, ?_, ?_, ?_, ?_, ?_, ?_, ?_, ?_⟩ <;> intros <;> first | (simp [*]; done) | (rename_i hl; simp [*]; intro a b h; exact hl (a, b) h)

/-! ## 2. One operation -/

/-- `clean_step`: one operation keeps the world clean and emits only clean strings -/
theorem clean_step {cfg : Cfg} {w : World} {e : Event} (hcfg : CleanCfg cfg) (hw : CleanWorld w)
    (he : CleanEvent e) :
    CleanWorld (step cfg w e).w ∧ ∀ o ∈ (step cfg w e).outs, Clean o.2 := step_clean hcfg hw he

/-- the statement of `clean_step` (proved in full: all 41 handlers, `handleLine`, `settle`) -/
def clean_step_full : Prop :=
  ∀ (cfg : Cfg) (w : World) (e : Event), CleanCfg cfg → CleanWorld w → CleanEvent e →
    CleanWorld (step cfg w e).w ∧ ∀ o ∈ (step cfg w e).outs, Clean o.2

theorem clean_step_full_holds : clean_step_full := fun _ _ _ h1 h2 h3 => clean_step h1 h2 h3

/-! ## 3. Runs -/

/-- `clean_run`: from the initial world, along ANY event list carrying clean strings, the world stays
    clean and every string ever emitted (the output of the step after any prefix) is clean -/
theorem clean_run {cfg : Cfg} (hcfg : CleanCfg cfg) {evs : List Event}
    (hev : ∀ e ∈ evs, CleanEvent e) :
    CleanWorld (run cfg evs) ∧
    ∀ pre e post, evs = pre ++ e :: post → ∀ o ∈ (step cfg (run cfg pre) e).outs, Clean o.2 := by
  refine ⟨run_clean hcfg hev, ?_⟩
  intro pre e post heq o ho
  subst heq
  have hpre : ∀ e' ∈ pre, CleanEvent e' := fun e' h => hev e' (List.mem_append_left _ h)
  have he : CleanEvent e := hev e (List.mem_append_right _ (List.mem_cons_self ..))
  exact (step_clean hcfg (run_clean hcfg hpre) he).2 o ho

/-- the same under the hypothesis as worded in the task (ALL configured strings clean) -/
theorem clean_run_all {cfg : Cfg} (hcfg : CleanCfgAll cfg) {evs : List Event}
    (hev : ∀ e ∈ evs, CleanEvent e) :
    CleanWorld (run cfg evs) ∧
    ∀ pre e post, evs = pre ++ e :: post → ∀ o ∈ (step cfg (run cfg pre) e).outs, Clean o.2 :=
  clean_run hcfg.toCleanCfg hev

/-- what goes on the wire for an emitted string -/
def onWire (s : Str) : Str := s ++ str "\r\n"

/-- exactly one line feed, at the very end -/
def OneLine (t : Str) : Prop := t.count '\n' = 1 ∧ t.getLast? = some '\n'

theorem oneLine_iff_clean (s : Str) : OneLine (onWire s) ↔ Clean s := by
  unfold OneLine onWire
  have hlast : (s ++ str "\r\n").getLast? = some '\n' := by
    rw [List.getLast?_append]; rfl
  have hcount : (s ++ str "\r\n").count '\n' = s.count '\n' + 1 := by
    rw [List.count_append]; rfl
  rw [hcount]
  constructor
  · rintro ⟨h, _⟩
    have h0 : s.count '\n' = 0 := by omega
    intro hm
    have : 0 < s.count '\n' := List.count_pos_iff.2 hm
    omega
  · intro h
    have h0 : s.count '\n' = 0 := List.count_eq_zero.2 h
    exact ⟨by omega, hlast⟩

/-- `emitted_one_line`: every string ever emitted, with its "\r\n", contains exactly one '\n',
    at the very end -/
theorem emitted_one_line {cfg : Cfg} (hcfg : CleanCfg cfg) {evs : List Event}
    (hev : ∀ e ∈ evs, CleanEvent e) (pre post : List Event) (e : Event)
    (heq : evs = pre ++ e :: post) :
    ∀ o ∈ (step cfg (run cfg pre) e).outs, OneLine (onWire o.2) :=
  fun o ho => (oneLine_iff_clean o.2).2 ((clean_run hcfg hev).2 pre e post heq o ho)

/-- the byte stream a connection receives for a list of emitted strings -/
def wire : List Str → Str
  | [] => []
  | s :: rest => onWire s ++ wire rest

/-- the receiver's line split recovers exactly the emitted strings (each followed by its '\r';
    the last piece is the empty remainder) -/
theorem wire_roundtrip {lines : List Str} (h : CleanL lines) :
    splitOnChar '\n' (wire lines) = lines.map (· ++ ['\r']) ++ [[]] := by
  induction lines with
  | nil => simp [wire, splitOnChar]
  | cons s rest ih =>
    have h' := cleanL_cons.1 h
    have hs : Clean (s ++ ['\r']) := clean_append.2 ⟨h'.1, by decide⟩
    have e : wire (s :: rest) = (s ++ ['\r']) ++ nl :: wire rest := by
      simp [wire, onWire, str, nl]
    rw [e]
    have := splitOnChar_clean_append hs (wire rest)
    have ih' := ih h'.2
    simp only [nl] at this ih' ⊢
    rw [this, ih']
    simp

/-! ## 4. Non-vacuity (kernel-checked instances) -/

instance (e : Event) : Decidable (CleanEvent e) := by
  cases e <;> simp only [CleanEvent] <;> infer_instance

def exCfg : Cfg := {}

theorem exCfg_clean : CleanCfg exCfg :=
  ⟨by decide, by decide, by decide, by decide, cleanO_none, cleanO_none, by decide,
   by intro c h; cases h⟩

def exUser (owner : Nat) (n : String) : User :=
  { hostname := str "h", name := n.toList, realname := n.toList,
    source := n.toList ++ str "!~" ++ n.toList ++ str "@h",
    modes := {}, history := ⟨n.toList, str "h", n.toList⟩, owner := owner }
def exConn (id : Nat) (n : String) : Conn :=
  { id := id, hostname := str "h", nick := some n.toList, name := some n.toList,
    realname := some n.toList, source := n.toList ++ str "!~" ++ n.toList ++ str "@h",
    authenticated := true, hasSender := false, hasQuitSender := false, hasPingSender := false }
/-- two registered users `a` (connection 1) and `b` (connection 2) -/
def exWorld : World :=
  { users := [(str "a", exUser 1 "a"), (str "b", exUser 2 "b")]
    conns := [exConn 1 "a", exConn 2 "b"], connsCount := 2, maxUsers := 2 }

theorem exWorld_clean : CleanWorld exWorld := by
  have hu : ∀ o n, Clean n.toList → CleanUser (exUser o n) := fun o n hn =>
    ⟨(by decide : Clean (str "h")), hn, hn, by simp (config := { decide := true }) [exUser, hn],
     cleanO_none, cleanL_nil, cleanL_nil, ⟨hn, (by decide : Clean (str "h")), hn⟩⟩
  have hc : ∀ i n, Clean n.toList → CleanConn (exConn i n) := fun i n hn =>
    ⟨(by decide : Clean (str "h")), cleanO_some.2 hn, cleanO_some.2 hn, cleanO_some.2 hn, cleanO_none,
     by simp (config := { decide := true }) [exConn, hn], by intro p h; cases h⟩
  refine ⟨?_, cleanMap_nil, cleanL_nil, cleanMap_nil, ?_⟩
  · exact CleanMap.cons (by decide) (hu 1 "a" (by decide))
      (CleanMap.cons (by decide) (hu 2 "b" (by decide)) cleanMap_nil)
  · intro cn hcn
    simp only [exWorld, List.mem_cons, List.mem_nil_iff, or_false] at hcn
    rcases hcn with rfl | rfl
    · exact hc 1 "a" (by decide)
    · exact hc 2 "b" (by decide)

/-- a PRIVMSG text with a lone '\r' inside: the hypotheses of `clean_step` hold (the received
    line is clean: '\r' is not a line feed), the '\r' PASSES THROUGH to the relayed line, and the
    relayed string is still one line on the wire. -/
theorem ex_privmsg_cr :
    CleanEvent (.line 1 (str "PRIVMSG b :hi\rthere")) ∧
    (step exCfg exWorld (.line 1 (str "PRIVMSG b :hi\rthere"))).outs =
      [(2, str ":a!~a@h PRIVMSG b :hi\rthere")] ∧
    OneLine (onWire (str ":a!~a@h PRIVMSG b :hi\rthere")) := by
  refine ⟨by decide, by decide, (oneLine_iff_clean _).2 (by decide)⟩

example : ∀ o ∈ (step exCfg exWorld (.line 1 (str "PRIVMSG b :hi\rthere"))).outs, Clean o.2 :=
  (clean_step exCfg_clean exWorld_clean (by decide)).2

/-- a handful of lines from the initial world: the registration burst (18 strings) -/
def regEvents : List Event := [.connect 1 (str "h"), .line 1 (str "NICK a")]

set_option maxRecDepth 100000 in
example : (step exCfg (run exCfg regEvents) (.line 1 (str "USER a 0 * :A"))).outs.length = 18 ∧
    (1, (str ":irc.irc " ++ Reply.RplMotd372 (client := str "a") (motd := str "Hello, world!"))) ∈
      (step exCfg (run exCfg regEvents) (.line 1 (str "USER a 0 * :A"))).outs := by decide

example : ∀ o ∈ (step exCfg (run exCfg regEvents) (.line 1 (str "USER a 0 * :A"))).outs,
    OneLine (onWire o.2) :=
  emitted_one_line exCfg_clean (evs := regEvents ++ [.line 1 (str "USER a 0 * :A")])
    (by decide) regEvents [] _ rfl

example : wire [str "PING :x", str "a\rb"] = str "PING :x\r\na\rb\r\n" ∧
    splitOnChar '\n' (wire [str "PING :x", str "a\rb"]) = [str "PING :x\r", str "a\rb\r", []] := by
  decide

/-- NEGATIVE example — the hypothesis on the configuration is needed: with a MOTD that contains
    a line feed (everything else as before) the 372 string of the welcome burst is emitted with
    the line feed inside, i.e. it is TWO lines on the wire. -/
def badCfg : Cfg := { motd := str "two\nlines" }

set_option maxRecDepth 100000 in
theorem motd_needs_clean :
    (∀ e ∈ regEvents ++ [.line 1 (str "USER a 0 * :A")], CleanEvent e) ∧
    (1, str ":irc.irc 372 a :two\nlines") ∈
      (step badCfg (run badCfg regEvents) (.line 1 (str "USER a 0 * :A"))).outs ∧
    ¬ Clean (str ":irc.irc 372 a :two\nlines") ∧
    ¬ OneLine (onWire (str ":irc.irc 372 a :two\nlines")) ∧
    splitOnChar '\n' (onWire (str ":irc.irc 372 a :two\nlines")) =
      [(str ":irc.irc " ++ Reply.RplMotd372 (client := str "a") (motd := str "two")), str "lines\r", []] := by
  refine ⟨by decide, by decide, by decide, ?_, by decide⟩
  rw [oneLine_iff_clean]; decide

example : ¬ CleanCfg badCfg := fun h => absurd h.motd (by decide)

end Irc.C13H
